"""C15 -- argument forms and units are interchangeable.

  regenerate : T-sym traces of angle-taking / packed-vs-scalar entry points (deg vs rad, call forms)
  prove      : Props/C15.v (hand model of argcheck.getvector/isvector/getunit, all lists, axiom-free)
               Props/C15_units.v, Props/C15_forms.v (trace equalities over R)
  correspond : hand model vs the real getvector/isvector/getunit on a form x shape x dim x out grid (vm_compute)
               + Sym==Num for the traces
  oracle     : exhaustive differential run over the table below (entry x 5 forms x lengths 0..8 x int/float)
"""
import contextlib
import io
import math
import numpy as np
import sympy
from lib import concolic
from lib.symtrace import Gen
from lib.corr import sym_num

concolic.install()
import spatialmath.base as base  # noqa: E402
from spatialmath import SO2, SE2, SO3, SE3, Quaternion, UnitQuaternion, Twist3, Twist2  # noqa: E402

MOD = 'Traces_C15'
_SINK = io.StringIO()      # the library prints notices (e.g. Twist3.exp in degree mode); keep them out of the check's output
FORMS5 = ('list', 'tuple', 'nd1', 'row', 'col')
FORMS3 = ('list', 'tuple', 'nd1')
LENGTHS = range(0, 9)

INT_VALS = [3, -1, 2, 5, -4, 1, 7, -2]
FLT_VALS = [0.5, -0.25, 0.75, 1.5, -2.25, 0.125, 3.5, -0.625]
ZERO_VALS = [0.0] * 8                                      # the zero vector: shortcuts for zero arguments must not skip the conversion
UNIT_VALS = [1.0, 0.0, 0.0, 0.0, 0.0, 0.0, 0.0, 0.0]     # unit norm at every length: a length-blind norm predicate says True


def mkform(vals, form, kind):
    """vals: python ints or floats"""
    dt = np.int64 if kind == 'int' else np.float64
    if form == 'list':
        return list(vals)
    if form == 'tuple':
        return tuple(vals)
    a = np.array(list(vals), dtype=dt)
    if form == 'nd1':
        return a
    if form == 'row':
        return a.reshape(1, -1)
    if form == 'col':
        return a.reshape(-1, 1)
    raise ValueError(form)


# ----------------------------------------------------------------------------------------------------
# canonical outcome of a call

def canon(r):
    """result -> hashable canonical value; float payloads compared bitwise (after conversion to float64)"""
    if r is None:
        return ('none',)
    if isinstance(r, (bool, np.bool_)):
        return ('bool', bool(r))
    if isinstance(r, (int, float, np.integer, np.floating)):
        return ('num', np.float64(r).tobytes())
    if isinstance(r, np.ndarray):
        if r.dtype == object:
            return ('objarr', r.shape, repr(r.tolist()))
        if r.dtype.kind == 'b':
            return ('arr', r.shape, r.astype(np.float64).tobytes())
        return ('arr', r.shape, np.ascontiguousarray(r, dtype=np.float64).tobytes())
    if isinstance(r, (list, tuple)):
        if all(isinstance(x, (int, float, np.integer, np.floating)) and not isinstance(x, bool) for x in r):
            return canon(np.array(r, dtype=np.float64))       # a list of numbers is compared as a vector
        return ('seq', tuple(canon(x) for x in r))
    if isinstance(r, str):
        return ('str', r)
    if isinstance(r, BaseException):
        return ('exc-object', type(r).__name__)               # an exception RETURNED, not raised
    for attr in ('A', 'vec', 'S'):
        if hasattr(r, 'data') and hasattr(r, attr):
            try:
                return ('obj', type(r).__name__, len(r), tuple(canon(np.asarray(x)) for x in r.data))
            except Exception:
                break
    return ('other', type(r).__name__, repr(r)[:200])


def outcome(fn, *a, **k):
    try:
        with np.errstate(all='ignore'), contextlib.redirect_stdout(_SINK):
            r = fn(*a, **k)
    except Exception as ex:
        return ('raise', type(ex).__name__)
    return canon(r)


def typetag(r):
    """coarse result type: a form must not change the TYPE of the result either (list in, list out where nd1 gives an ndarray)"""
    if isinstance(r, (bool, np.bool_)):
        return 'bool'
    if isinstance(r, (int, float, np.integer, np.floating)):
        return 'scalar'
    return type(r).__name__


def outcome_t(fn, *a, **k):
    try:
        with np.errstate(all='ignore'), contextlib.redirect_stdout(_SINK):
            r = fn(*a, **k)
    except Exception as ex:
        return ('raise', type(ex).__name__), 'raise'
    return canon(r), typetag(r)


def show(o):
    if o[0] == 'raise':
        return 'raises ' + o[1]
    if o[0] == 'none':
        return 'returns None'
    if o[0] == 'arr':
        return f"array{o[1]} {np.frombuffer(o[2]).tolist()}"
    if o[0] == 'num':
        return f"number {np.frombuffer(o[1])[0]!r}"
    if o[0] == 'obj':
        return f"{o[1]} of length {o[2]}: " + '; '.join(show(x) for x in o[3][:2])
    return repr(o)[:300]


# ----------------------------------------------------------------------------------------------------
# the table: which parameter of which public entry point is the vector, and the lengths it accepts

class E:
    def __init__(self, name, fn, dims, forms=FORMS5, wrong='raise', note='', returns_none=False, container_free=False):
        """fn(v) calls the library with v as the vector argument and valid values for the others;
        dims: set of accepted lengths, or None (any length);
        wrong: what a wrong length must give: 'raise' (exception) or 'false' (a predicate: False or exception)"""
        self.name, self.fn, self.dims, self.forms, self.wrong, self.note, self.returns_none = name, fn, dims, forms, wrong, note, returns_none
        self.container_free = container_free       # documented to hand back the container type it was given


Q1 = np.array([0.5, -0.5, 0.5, 0.5])
Q2 = np.array([0.1, 0.2, -0.4, 0.8])
V3 = np.array([0.3, -0.2, 0.6])
R3 = base.rotx(0.3) @ base.roty(-0.2)
R2 = base.rot2(0.3)


class Params:
    """values of the arguments that are NOT the vector under test; `used` records which ones a call read"""
    GENERIC = dict(Q1=Q1, Q2=Q2, V3=V3, R3=R3, R2=R2, TH=0.3, S=0.3, SHORT=False, POW=3, SQ=0.5)

    def __init__(self):
        object.__setattr__(self, 'vals', dict(self.GENERIC))
        object.__setattr__(self, 'used', set())

    def __getattr__(self, k):
        self.used.add(k)
        return self.vals[k]

    def set(self, **kw):
        self.vals.clear()
        self.vals.update(self.GENERIC)
        self.vals.update(kw)


# special values of the other arguments: one parameter at a time away from the generic setting
E1 = np.array([1.0, 0.0, 0.0])
QID = np.array([1.0, 0.0, 0.0, 0.0])
VARIANTS = [
    ('S=0', dict(S=0)), ('S=1', dict(S=1)), ('S=0.0', dict(S=0.0)), ('S=1.0', dict(S=1.0)), ('S=tiny', dict(S=1e-12)), ('S=1-tiny', dict(S=1 - 1e-12)),
    ('S=0,shortest', dict(S=0, SHORT=True)), ('S=1,shortest', dict(S=1, SHORT=True)), ('S=mid,shortest', dict(SHORT=True)),
    ('TH=0', dict(TH=0)), ('TH=0.0', dict(TH=0.0)), ('TH=pi', dict(TH=math.pi)), ('TH=-pi/2', dict(TH=-math.pi / 2)), ('TH=tiny', dict(TH=1e-12)),
    ('POW=0', dict(POW=0)), ('POW=1', dict(POW=1)), ('POW=-2', dict(POW=-2)),
    ('SQ=0', dict(SQ=0)), ('SQ=1', dict(SQ=1)),
    ('Q1=identity', dict(Q1=QID)), ('Q2=identity', dict(Q2=QID)), ('Q1=Q2', dict(Q1=Q2)), ('Q2=-Q1', dict(Q2=-Q1)), ('Q1=zero', dict(Q1=np.zeros(4))), ('Q2=zero', dict(Q2=np.zeros(4))),
    ('V3=zero', dict(V3=np.zeros(3))), ('V3=e1', dict(V3=E1)),
    ('R3=identity', dict(R3=np.eye(3))), ('R2=identity', dict(R2=np.eye(2))),
]


def table(P=None):
    """P: the values of the OTHER arguments (Params); read at call time, so one table serves every variant"""
    b = base
    P = P or Params()
    T = []
    add = lambda *a, **k: T.append(E(*a, **k))
    # ---- argcheck
    add('getvector', lambda v: b.getvector(v), None)
    for d in (1, 2, 3, 4, 6):
        add(f'getvector:dim', (lambda d: lambda v: b.getvector(v, d))(d), {d})
    for o in ('list', 'row', 'col'):
        add(f'getvector:out={o}', (lambda o: lambda v: b.getvector(v, 3, out=o))(o), {3})
    add('isvector', lambda v: b.isvector(v), None)
    for d in (1, 2, 3, 4, 6):
        add('isvector:dim', (lambda d: lambda v: b.isvector(v, d))(d), {d}, wrong='false')
    add('assertvector', lambda v: b.assertvector(v, 3), {3}, returns_none=True)
    add('getunit:deg', lambda v: b.getunit(v, 'deg'), None, forms=FORMS3, container_free=True, note='shape-preserving: list in, list out (documented)')
    # ---- vectors
    add('colvec', lambda v: b.colvec(v), None)
    add('unitvec', lambda v: b.unitvec(v), None, returns_none=True, note='None for a zero-norm vector is documented')
    add('norm', lambda v: b.norm(v), None)
    add('normsq', lambda v: b.normsq(v), None)
    add('isunitvec', lambda v: b.isunitvec(v), None)
    add('iszerovec', lambda v: b.iszerovec(v), None)
    add('cross:u', lambda v: b.cross(v, P.V3), {3})
    add('cross:v', lambda v: b.cross(P.V3, v), {3})
    add('isunittwist', lambda v: b.isunittwist(v), {6})
    add('isunittwist2', lambda v: b.isunittwist2(v), {3})
    add('unittwist', lambda v: b.unittwist(v), {6}, returns_none=True, note='None for the zero twist is documented')
    add('unittwist_norm', lambda v: b.unittwist_norm(v), {6})
    add('unittwist2', lambda v: b.unittwist2(v), {3})
    add('removesmall', lambda v: b.removesmall(v), None, forms=('nd1',), note='elementwise on arrays only (documented ndarray)')
    # ---- transformsNd
    add('rt2tr:t3', lambda v: b.rt2tr(P.R3, v), {3})
    add('rt2tr:t2', lambda v: b.rt2tr(P.R2, v), {2})
    add('Ab2M:b3', lambda v: b.Ab2M(P.R3, v), {3})
    add('Ab2M:b2', lambda v: b.Ab2M(P.R2, v), {2})
    add('skew', lambda v: b.skew(v), {1, 3})
    add('skewa', lambda v: b.skewa(v), {3, 6})
    add('rodrigues', lambda v: b.rodrigues(v), {1, 3})
    add('rodrigues:theta', lambda v: b.rodrigues(v, P.TH), {1, 3})
    add('h2e', lambda v: b.h2e(v), None, forms=FORMS3, note='a 2-D array is a set of points (documented)')
    add('e2h', lambda v: b.e2h(v), None, forms=FORMS3, note='a 2-D array is a set of points (documented)')
    add('homtrans:p3', lambda v: b.homtrans(b.trotx(P.TH, t=[1, 2, 3]), v), {3}, forms=FORMS3, note='2-D array = set of points')
    add('homtrans:p2', lambda v: b.homtrans(b.trot2(P.TH, t=[1, 2]), v), {2}, forms=FORMS3, note='2-D array = set of points')
    # ---- quaternions
    add('pure', lambda v: b.pure(v), {3})
    add('qnorm', lambda v: b.qnorm(v), {4})
    add('unit', lambda v: b.unit(v), {4})
    add('isunit', lambda v: b.isunit(v), {4}, wrong='false')
    add('isequal:q1', lambda v: b.isequal(v, P.Q2), {4})
    add('isequal:q2', lambda v: b.isequal(P.Q2, v), {4})
    add('q2v', lambda v: b.q2v(v), {4})
    add('v2q', lambda v: b.v2q(np.asarray(v) * 0.1 if isinstance(v, np.ndarray) else type(v)(x * 0.1 for x in v)), {3})
    add('qqmul:q1', lambda v: b.qqmul(v, P.Q2), {4})
    add('qqmul:q2', lambda v: b.qqmul(P.Q1, v), {4})
    add('inner:q1', lambda v: b.inner(v, P.Q2), {4})
    add('inner:q2', lambda v: b.inner(P.Q1, v), {4})
    add('qvmul:q', lambda v: b.qvmul(v, P.V3), {4})
    add('qvmul:v', lambda v: b.qvmul(P.Q1, v), {3})
    add('vvmul:qa', lambda v: b.vvmul(np.asarray(v) * 0.1 if isinstance(v, np.ndarray) else type(v)(x * 0.1 for x in v), P.V3), {3})
    add('vvmul:qb', lambda v: b.vvmul(P.V3, np.asarray(v) * 0.1 if isinstance(v, np.ndarray) else type(v)(x * 0.1 for x in v)), {3})
    add('qpow', lambda v: b.qpow(v, P.POW), {4})
    add('conj', lambda v: b.conj(v), {4})
    add('q2r', lambda v: b.q2r(v), {4})
    add('slerp:q0', lambda v: b.slerp(v, P.Q2, P.S, P.SHORT), {4})
    add('slerp:q1', lambda v: b.slerp(P.Q1, v, P.S, P.SHORT), {4})
    add('matrix', lambda v: b.matrix(v), {4})
    add('dot:q', lambda v: b.dot(v, P.V3), {4})
    add('dot:w', lambda v: b.dot(P.Q1, v), {3})
    add('dotb:q', lambda v: b.dotb(v, P.V3), {4})
    add('dotb:w', lambda v: b.dotb(P.Q1, v), {3})
    add('angle:q1', lambda v: b.angle(v, P.Q2), {4})
    add('angle:q2', lambda v: b.angle(P.Q1, v), {4})
    add('qprint', lambda v: b.qprint(v, file=None), {4})
    # ---- transforms2d
    add('trot2:t', lambda v: b.trot2(P.TH, t=v), {2})
    add('transl2', lambda v: b.transl2(v), {2})
    add('xyt2tr', lambda v: b.xyt2tr(v), {3})
    add('trexp2', lambda v: b.trexp2(v), {1, 3})
    # ---- transforms3d
    add('trotx:t', lambda v: b.trotx(P.TH, t=v), {3})
    add('troty:t', lambda v: b.troty(P.TH, t=v), {3})
    add('trotz:t', lambda v: b.trotz(P.TH, t=v), {3})
    add('transl', lambda v: b.transl(v), {3})
    add('rpy2r', lambda v: b.rpy2r(v), {3})
    add('rpy2tr', lambda v: b.rpy2tr(v), {3})
    add('eul2r', lambda v: b.eul2r(v), {3})
    add('eul2tr', lambda v: b.eul2tr(v), {3})
    add('angvec2r:v', lambda v: b.angvec2r(P.TH, v), {3})
    add('angvec2tr:v', lambda v: b.angvec2tr(P.TH, v), {3})
    add('oa2r:o', lambda v: b.oa2r(v, P.V3), {3})
    add('oa2r:a', lambda v: b.oa2r(P.V3, v), {3})
    add('oa2tr:o', lambda v: b.oa2tr(v, P.V3), {3})
    add('oa2tr:a', lambda v: b.oa2tr(P.V3, v), {3})
    add('trexp', lambda v: b.trexp(v), {3, 6})
    add('delta2tr', lambda v: b.delta2tr(v), {6})
    # ---- classes: list, tuple, 1-D array
    c3 = dict(forms=FORMS3)
    add('SE3()', lambda v: SE3(v), {3}, **c3)
    add('SE3.Rx:t', lambda v: SE3.Rx(P.TH, t=v), {3}, **c3)
    add('SE3.Ry:t', lambda v: SE3.Ry(P.TH, t=v), {3}, **c3)
    add('SE3.Rz:t', lambda v: SE3.Rz(P.TH, t=v), {3}, **c3)
    add('SE3.Eul', lambda v: SE3.Eul(v), {3}, **c3)
    add('SE3.RPY', lambda v: SE3.RPY(v), {3}, **c3)
    add('SE3.OA:o', lambda v: SE3.OA(v, P.V3), {3}, **c3)
    add('SE3.OA:a', lambda v: SE3.OA(P.V3, v), {3}, **c3)
    add('SE3.AngVec:v', lambda v: SE3.AngVec(P.TH, v), {3}, **c3)
    add('SE3.EulerVec', lambda v: SE3.EulerVec(v), {3}, **c3)
    add('SE3.Exp', lambda v: SE3.Exp(v), {6}, **c3)
    # SE3.Delta is left to C13 (its constructor rejects its own delta2tr output for every form)
    add('SE3*v', lambda v: SE3.Rx(P.TH, t=[1, 2, 3]) * v, {3}, **c3)
    add('SO3.Eul', lambda v: SO3.Eul(v), {3}, **c3)
    add('SO3.RPY', lambda v: SO3.RPY(v), {3}, **c3)
    add('SO3.OA:o', lambda v: SO3.OA(v, P.V3), {3}, **c3)
    add('SO3.OA:a', lambda v: SO3.OA(P.V3, v), {3}, **c3)
    add('SO3.AngVec:v', lambda v: SO3.AngVec(P.TH, v), {3}, **c3)
    add('SO3.EulerVec', lambda v: SO3.EulerVec(v), {3}, **c3)
    add('SO3.Exp', lambda v: SO3.Exp(v), {3}, **c3)
    add('SO3*v', lambda v: SO3.Rx(P.TH) * v, {3}, **c3)
    add('SE2()', lambda v: SE2(v), {2, 3}, **c3)
    add('SE2.Exp', lambda v: SE2.Exp(v), {3}, **c3)
    add('SE2*v', lambda v: SE2(1, 2, P.TH) * v, {2}, **c3)
    add('SO2*v', lambda v: SO2(P.TH) * v, {2}, **c3)
    add('Quaternion()', lambda v: Quaternion(v), {4}, **c3)
    add('Quaternion(s,v)', lambda v: Quaternion(P.SQ, v), {3}, **c3)
    add('Quaternion.Pure', lambda v: Quaternion.Pure(v), {3}, **c3)
    add('UnitQuaternion()', lambda v: UnitQuaternion(v), {4}, **c3)
    add('UnitQuaternion(s,v)', lambda v: UnitQuaternion(P.SQ, v), {3}, **c3)
    add('UnitQuaternion.Eul', lambda v: UnitQuaternion.Eul(v), {3}, **c3)
    add('UnitQuaternion.RPY', lambda v: UnitQuaternion.RPY(v), {3}, **c3)
    add('UnitQuaternion.OA:o', lambda v: UnitQuaternion.OA(v, P.V3), {3}, **c3)
    add('UnitQuaternion.OA:a', lambda v: UnitQuaternion.OA(P.V3, v), {3}, **c3)
    add('UnitQuaternion.AngVec:v', lambda v: UnitQuaternion.AngVec(P.TH, v), {3}, **c3)
    add('UnitQuaternion.EulerVec', lambda v: UnitQuaternion.EulerVec(v), {3}, **c3)
    add('UnitQuaternion.Vec3', lambda v: UnitQuaternion.Vec3(np.asarray(v) * 0.1 if isinstance(v, np.ndarray) else type(v)(x * 0.1 for x in v)), {3}, **c3)
    add('UnitQuaternion*v', lambda v: UnitQuaternion.Rx(P.TH) * v, {3}, **c3)
    add('Twist3()', lambda v: Twist3(v), {6}, **c3)
    add('Twist3(v,w):v', lambda v: Twist3(v, P.V3), {3}, **c3)
    add('Twist3(v,w):w', lambda v: Twist3(P.V3, v), {3}, **c3)
    add('Twist3.Revolute:a', lambda v: Twist3.Revolute(v, P.V3), {3}, **c3)
    add('Twist3.Revolute:q', lambda v: Twist3.Revolute(P.V3, v), {3}, **c3)
    add('Twist3.Prismatic', lambda v: Twist3.Prismatic(v), {3}, **c3)
    add('Twist3.Ry:t', lambda v: Twist3.Ry(P.TH, t=v), {3}, **c3)
    add('Twist3.Rz:t', lambda v: Twist3.Rz(P.TH, t=v), {3}, **c3)
    add('Twist2()', lambda v: Twist2(v), {3}, **c3)
    add('Twist2.Revolute', lambda v: Twist2.Revolute(v), {2}, **c3)
    add('Twist2.Prismatic', lambda v: Twist2.Prismatic(v), {2}, **c3)
    return T


def fgroup(form):
    return {'list': 'seq', 'tuple': 'seq', 'nd1': 'nd1', 'row': 'nd2', 'col': 'nd2'}[form]


def diff_run(ctx, entries=None, report=None):
    """the exhaustive differential run; report(key, what, replay) defaults to ctx.fail.
    Keys name the root-cause site: entry x (form | form group x length class) x outcome kind."""
    report = report or ctx.fail
    P = Params()
    ents = entries or table(P)
    nrand = ctx.n(6, 60)
    # the generic setting of the other arguments, then every special value of each of them (only the entries that read it)
    for vlabel, vkw in [('', {})] + VARIANTS:
      P.set(**vkw)
      for e0 in ents:
        if vlabel:
            P.used.clear()
            probe = [0.1, 0.2, -0.3, 0.4, 0.25, -0.15, 0.05, 0.35][:(min(e0.dims) if e0.dims else 3)]
            outcome(e0.fn, mkform(probe, 'nd1', 'float'))
            if not (set(vkw) & P.used):
                continue
            ctx.count('table:variant-entries')
        e = e0 if not vlabel else E(e0.name + '@' + vlabel, e0.fn, e0.dims, e0.forms, e0.wrong, e0.note, e0.returns_none, e0.container_free)
        e.special = bool(vlabel)
        valsets = [('int', INT_VALS), ('float', FLT_VALS), ('float', UNIT_VALS), ('float', ZERO_VALS)]
        for k in range(nrand if not vlabel else 1):
            valsets.append(('float', [float(x) for x in np.round(ctx.rng.uniform(-2, 2, size=8), 3)]))
        for kind, allvals in valsets:
            for n in LENGTHS:
                vals = allvals[:n]
                valid = (e.dims is None and n > 0) or (e.dims is not None and n in e.dims)
                outs_t = {form: outcome_t(e.fn, mkform(vals, form, kind)) for form in e.forms}
                outs = {f: x[0] for f, x in outs_t.items()}
                ref = outs['nd1']
                lenclass = 'empty' if n == 0 else 'any' if e.dims is None else \
                    'short' if n < min(e.dims) else 'long' if n > max(e.dims) else 'between'
                for form, o in outs.items():
                    ctx.case((e.name, kind, n, form, tuple(vals)))
                    ctx.count('table:cells')
                    ctx.count('table:outcome:' + ('raise' if o[0] == 'raise' else 'none' if o[0] == 'none' else 'value'))
                    rep = {'entry': e.name, 'form': form, 'kind': kind, 'n': n, 'vals': list(vals),
                           'observed': show(o), 'nd1_form': show(ref)}
                    if valid:
                        if o[0] == 'exc-object' or (o[0] == 'none' and not e.returns_none):
                            report(f"form:{e.name}:{form}:{'none' if o[0] == 'none' else 'exc-returned'}",
                                   f"{e.name}: {form} form of a correct-length ({n}) vector {show(o)}", rep)
                            continue
                        if form == 'nd1':
                            others = [f for f, x in outs.items() if x[0] != 'raise' and f != 'nd1']
                            if o[0] == 'raise' and others:
                                report(f"form:{e.name}:nd1:raises",
                                       f"{e.name}: the 1-D array form of a correct-length ({n}) vector {show(o)} but the "
                                       f"{others[0]} form gives {show(outs[others[0]])}", rep)
                            elif o[0] == 'raise' and e.dims is not None and not e.special and sum(abs(x) for x in vals) > 0:
                                report(f"table:{e.name}:valid-length-rejected",
                                       f"{e.name}: every form of a correct-length ({n}) vector raises ({show(o)})", rep)
                            continue
                        if ref[0] == 'raise':
                            continue
                        if o == ref:
                            if outs_t[form][1] != outs_t['nd1'][1] and not e.container_free:
                                report(f"form:{e.name}:{form}:type-differs",
                                       f"{e.name}: {form} form of a length-{n} vector gives a {outs_t[form][1]} but the 1-D array form a {outs_t['nd1'][1]} (same values)", rep)
                            continue
                        report(f"form:{e.name}:{form}:{'raises' if o[0] == 'raise' else 'differs'}",
                               f"{e.name}: {form} form of a length-{n} vector {show(o)} but the 1-D array form {show(ref)}", rep)
                    elif e.dims is None:
                        # the empty vector for an any-length entry: rejecting it is fine, None is not, values must agree
                        if o[0] == 'raise':
                            continue
                        if o[0] in ('none', 'exc-object') and not e.returns_none:
                            report(f"wronglen:{e.name}:none:{fgroup(form)}:empty",
                                   f"{e.name}: {form} form of the EMPTY vector is answered with {show(o)}", rep)
                        elif ref[0] not in ('raise', 'none', 'exc-object') and o != ref:
                            report(f"form:{e.name}:{form}:differs:empty",
                                   f"{e.name}: {form} form of the empty vector {show(o)} but the 1-D array form {show(ref)}", rep)
                    else:
                        if o[0] == 'raise':
                            continue
                        if e.wrong == 'false' and o == ('bool', False):
                            continue
                        if n == 0 and o[0] == 'obj' and o[2] == 0:
                            # the empty list/sequence handed to a class constructor is the empty COLLECTION of values (zero poses),
                            # not a zero-length vector: an empty object, as Empty(), is the documented answer (fix 1105ad0)
                            ctx.count('table:empty-collection-gives-empty-object')
                            continue
                        ok_ = 'none' if o[0] == 'none' else 'exc-returned' if o[0] == 'exc-object' else 'value'
                        report(f"wronglen:{e.name}:{ok_}:{fgroup(form)}:{lenclass}",
                               f"{e.name}: {form} form of WRONG length {n} (accepted: {sorted(e.dims)}) is not rejected: {show(o)}", rep)


# ----------------------------------------------------------------------------------------------------
# units, orders, scalar-vs-packed call forms (numeric, on the implementation)

ORDERS = [('zyx', 'vehicle'), ('xyz', 'arm'), ('yxz', 'camera')]
BAD_ORDERS = ['zyz', 'xzy', 'ZYX', 'Vehicle', '', 'zyx ', 'rpy', None, 3]
BAD_UNITS = ['degrees', 'Deg', 'DEG', 'radians', 'grad', '', 'deg ', None, 1]


# twists of every kind: the unit handling must not depend on which kind a receiver (or one of its elements) is
TW3_KINDS = [('screw', np.array([1, 2, 3, 0.2, -0.3, 0.4])), ('revolute', np.array([0.5, -0.8, -0.1, 0.2, 0.4, 0.6])),
             ('prismatic', np.array([1.0, 2.0, 3.0, 0, 0, 0])), ('zero', np.zeros(6))]
TW2_KINDS = [('revolute', np.array([1, 2, 0.5])), ('prismatic', np.array([1.0, 2.0, 0])), ('zero', np.zeros(3))]


def angle_in_entries():
    """(name, f(angle_or_angles, unit), arity) : entry points taking INPUT angles with a unit keyword"""
    b = base
    L = [
        ('getunit', lambda a, u: b.getunit(a, u), 1),
        ('rot2', lambda a, u: b.rot2(a, u), 1), ('trot2', lambda a, u: b.trot2(a, u), 1),
        ('trot2:t', lambda a, u: b.trot2(a, u, t=[1, 2]), 1),
        ('xyt2tr', lambda a, u: b.xyt2tr([1, 2, a], u), 1),
        ('rotx', lambda a, u: b.rotx(a, u), 1), ('roty', lambda a, u: b.roty(a, u), 1), ('rotz', lambda a, u: b.rotz(a, u), 1),
        ('trotx', lambda a, u: b.trotx(a, u), 1), ('troty', lambda a, u: b.troty(a, u), 1), ('trotz', lambda a, u: b.trotz(a, u), 1),
        ('trotx:t', lambda a, u: b.trotx(a, u, t=[1, 2, 3]), 1),
        ('eul2r', lambda a, u: b.eul2r(a, unit=u), 3), ('eul2tr', lambda a, u: b.eul2tr(a, unit=u), 3),
        ('eul2r:scalars', lambda a, u: b.eul2r(a[0], a[1], a[2], unit=u), 3),
        ('eul2tr:scalars', lambda a, u: b.eul2tr(a[0], a[1], a[2], unit=u), 3),
        ('angvec2r', lambda a, u: b.angvec2r(a, [1, 2, 3], unit=u), 1), ('angvec2tr', lambda a, u: b.angvec2tr(a, [1, 2, 3], unit=u), 1),
        ('SO2', lambda a, u: SO2(a, unit=u), 1), ('SE2(x,y,theta)', lambda a, u: SE2(1, 2, a, unit=u), 1),
        ('SE2([x,y,theta])', lambda a, u: SE2([1, 2, a], unit=u), 1), ('SE2(theta)', lambda a, u: SE2(a, unit=u), 1),
        ('SO3.Rx', lambda a, u: SO3.Rx(a, u), 1), ('SO3.Ry', lambda a, u: SO3.Ry(a, u), 1), ('SO3.Rz', lambda a, u: SO3.Rz(a, u), 1),
        ('SE3.Rx', lambda a, u: SE3.Rx(a, u), 1), ('SE3.Ry', lambda a, u: SE3.Ry(a, u), 1), ('SE3.Rz', lambda a, u: SE3.Rz(a, u), 1),
        ('SE3.Rx:t', lambda a, u: SE3.Rx(a, u, t=[1, 2, 3]), 1),
        ('SO3.Eul', lambda a, u: SO3.Eul(a, unit=u), 3), ('SE3.Eul', lambda a, u: SE3.Eul(a, unit=u), 3),
        ('SO3.AngVec', lambda a, u: SO3.AngVec(a, [1, 2, 3], unit=u), 1), ('SE3.AngVec', lambda a, u: SE3.AngVec(a, [1, 2, 3], unit=u), 1),
        ('UnitQuaternion.Rx', lambda a, u: UnitQuaternion.Rx(a, u), 1), ('UnitQuaternion.Ry', lambda a, u: UnitQuaternion.Ry(a, u), 1),
        ('UnitQuaternion.Rz', lambda a, u: UnitQuaternion.Rz(a, u), 1),
        ('UnitQuaternion.Eul', lambda a, u: UnitQuaternion.Eul(a, unit=u), 3),
        ('UnitQuaternion.AngVec', lambda a, u: UnitQuaternion.AngVec(a, [1, 2, 3], unit=u), 1),
        ('Twist3.Rx', lambda a, u: Twist3.Rx([a], u), 1), ('Twist3.Ry', lambda a, u: Twist3.Ry([a], u), 1), ('Twist3.Rz', lambda a, u: Twist3.Rz([a], u), 1),
        ('Twist3.Rx:scalar', lambda a, u: Twist3.Rx(a, u), 1), ('Twist3.Ry:scalar', lambda a, u: Twist3.Ry(a, u), 1), ('Twist3.Rz:scalar', lambda a, u: Twist3.Rz(a, u), 1),
        ('Twist3.Ry:t', lambda a, u: Twist3.Ry(a, u, t=[1, 2, 3]), 1), ('Twist3.Rz:t', lambda a, u: Twist3.Rz(a, u, t=[1, 2, 3]), 1),
    ]
    for kn, tw in TW3_KINDS:
        L.append((f'Twist3.exp@{kn}', (lambda tw: lambda a, u: Twist3(tw).exp(a, u))(tw), 1))
    for kn, tw in TW2_KINDS:
        L.append((f'Twist2.exp@{kn}', (lambda tw: lambda a, u: Twist2(tw).exp(a, u))(tw), 1))
    for o1, o2 in ORDERS:
        for o in (o1, o2):
            L += [(f'rpy2r:{o}', (lambda o: lambda a, u: b.rpy2r(a, unit=u, order=o))(o), 3),
                  (f'rpy2r:scalars:{o}', (lambda o: lambda a, u: b.rpy2r(a[0], a[1], a[2], unit=u, order=o))(o), 3),
                  (f'rpy2tr:{o}', (lambda o: lambda a, u: b.rpy2tr(a, unit=u, order=o))(o), 3),
                  (f'rpy2tr:scalars:{o}', (lambda o: lambda a, u: b.rpy2tr(a[0], a[1], a[2], unit=u, order=o))(o), 3),
                  (f'SO3.RPY:{o}', (lambda o: lambda a, u: SO3.RPY(a, unit=u, order=o))(o), 3),
                  (f'SE3.RPY:{o}', (lambda o: lambda a, u: SE3.RPY(a, unit=u, order=o))(o), 3),
                  (f'UnitQuaternion.RPY:{o}', (lambda o: lambda a, u: UnitQuaternion.RPY(a, unit=u, order=o))(o), 3)]
    return L


def angle_out_entries():
    """(name, f(R_or_T_3d, T_2d, unit)) : entry points RETURNING angles with a unit keyword"""
    b = base
    L = [
        ('tr2angvec', lambda R, T2, u: b.tr2angvec(R, unit=u)[0]), ('tr2eul', lambda R, T2, u: b.tr2eul(R, unit=u)),
        ('tr2eul:flip', lambda R, T2, u: b.tr2eul(R, unit=u, flip=True)),
        ('tr2xyt', lambda R, T2, u: b.tr2xyt(T2, unit=u)[2]),
        ('SO2.theta', lambda R, T2, u: SO2(T2[:2, :2]).theta(unit=u)), ('SE2.theta', lambda R, T2, u: SE2(T2).theta(unit=u)),
        ('SO3.eul', lambda R, T2, u: SO3(R).eul(unit=u)), ('SO3.angvec', lambda R, T2, u: SO3(R).angvec(unit=u)[0]),
        ('SE3.eul', lambda R, T2, u: SE3(b.r2t(R)).eul(unit=u)), ('SE3.angvec', lambda R, T2, u: SE3(b.r2t(R)).angvec(unit=u)[0]),
        ('UnitQuaternion.eul', lambda R, T2, u: UnitQuaternion(R).eul(unit=u)),
        ('UnitQuaternion.angvec', lambda R, T2, u: UnitQuaternion(R).angvec(unit=u)[0]),
    ]
    for o1, o2 in ORDERS:
        for o in (o1, o2):
            L += [(f'tr2rpy:{o}', (lambda o: lambda R, T2, u: b.tr2rpy(R, unit=u, order=o))(o)),
                  (f'SO3.rpy:{o}', (lambda o: lambda R, T2, u: SO3(R).rpy(unit=u, order=o))(o)),
                  (f'SE3.rpy:{o}', (lambda o: lambda R, T2, u: SE3(b.r2t(R)).rpy(unit=u, order=o))(o)),
                  (f'UnitQuaternion.rpy:{o}', (lambda o: lambda R, T2, u: UnitQuaternion(R).rpy(unit=u, order=o))(o))]
    return L


def order_entries():
    """(name, f(order)) : every entry point with an order keyword"""
    b = base
    a = [0.3, -0.4, 0.5]
    R = b.rpy2r(a)
    return [('rpy2r', lambda o: b.rpy2r(a, order=o)), ('rpy2r:scalars', lambda o: b.rpy2r(*a, order=o)),
            ('rpy2tr', lambda o: b.rpy2tr(a, order=o)), ('rpy2tr:scalars', lambda o: b.rpy2tr(*a, order=o)),
            ('tr2rpy', lambda o: b.tr2rpy(R, order=o)),
            ('SO3.RPY', lambda o: SO3.RPY(a, order=o)), ('SE3.RPY', lambda o: SE3.RPY(a, order=o)),
            ('UnitQuaternion.RPY', lambda o: UnitQuaternion.RPY(a, order=o)),
            ('SO3.rpy', lambda o: SO3(R).rpy(order=o)), ('SE3.rpy', lambda o: SE3(b.r2t(R)).rpy(order=o)),
            ('UnitQuaternion.rpy', lambda o: UnitQuaternion(R).rpy(order=o))]


def fvals(o):
    """flat float values of a canonical outcome (None if it has none)"""
    if o[0] == 'arr':
        return np.frombuffer(o[2])
    if o[0] == 'num':
        return np.frombuffer(o[1])
    if o[0] == 'obj':
        return np.concatenate([fvals(x) for x in o[3]]) if o[3] else np.zeros(0)
    if o[0] == 'seq':
        parts = [fvals(x) for x in o[1]]
        return None if any(p is None for p in parts) else (np.concatenate(parts) if parts else np.zeros(0))
    return None


def close(o1, o2, tol):
    if o1 == o2:
        return True, 0.0
    a, b_ = fvals(o1), fvals(o2)
    if a is None or b_ is None or a.shape != b_.shape or o1[0] != o2[0]:
        return False, float('inf')
    err = float(np.max(np.abs(a - b_))) if a.size else 0.0
    return err <= tol, err


def unit_order_run(ctx, report=None):
    report = report or ctx.fail
    rng = ctx.rng
    N = ctx.n(20, 400)
    specials = [0.0, 90.0, -90.0, 180.0, 45.0, 30.0, 360.0, -720.0, 1e-9, 57.29577951308232]
    # ---- input angles: f(a, 'deg') == f(a*pi/180, 'rad'); unknown unit raises
    for name, f, ar in angle_in_entries():
        for i in range(N + len(specials)):
            if ar == 1:
                a = specials[i] if i < len(specials) else float(rng.uniform(-400, 400))
                arad = a * math.pi / 180
                adeg_forms = [a]
            else:
                a = [specials[(i + k) % len(specials)] for k in range(3)] if i < len(specials) else [float(x) for x in rng.uniform(-400, 400, size=3)]
                arad = [x * math.pi / 180 for x in a]
            od, orad = outcome(f, a, 'deg'), outcome(f, arad, 'rad')
            ctx.case(('unit-in', name, repr(a)))
            ctx.count('units:in:cases')
            ok, err = close(od, orad, 1e-12)      # bitwise today; 1e-12 leaves room for an equivalent conversion such as x*(pi/180)
            ctx.count('units:in:bitwise' if od == orad else 'units:in:not-bitwise')
            ctx.stats['units:in:worst'] = max(ctx.stats.get('units:in:worst', 0.0), err if math.isfinite(err) else 1e300)
            if od[0] in ('raise', 'none') or not ok:
                report(f"unit:in:{name}:{'raises' if od[0] == 'raise' else 'none' if od[0] == 'none' else 'differs'}",
                       f"{name}: unit='deg' with angle {a} {show(od)[:200]}; unit='rad' with a*pi/180 {show(orad)[:200]} (max diff {err:g})",
                       {'entry': name, 'angle_deg': a, 'deg': show(od), 'rad': show(orad)})
        a0 = 30.0 if ar == 1 else [30.0, 40.0, 50.0]
        for u in BAD_UNITS:
            o = outcome(f, a0, u)
            ctx.case(('unit-bad', name, repr(u)))
            ctx.count('units:bad:cases')
            if o[0] != 'raise':
                report(f"unit:unknown-accepted:{name}",
                       f"{name}: unknown unit {u!r} for an input angle is not rejected: {show(o)[:200]}",
                       {'entry': name, 'unit': repr(u), 'angle': a0, 'observed': show(o)})
    # ---- returned angles: f(unit='deg') == f(unit='rad') * 180/pi  (to 4 ulp of 360)
    from lib.gens import rand_rot
    for name, f in angle_out_entries():
        for i in range(N):
            R = rand_rot(rng)
            th = float(rng.uniform(-3, 3))
            T2 = base.trot2(th, t=[float(x) for x in rng.uniform(-2, 2, size=2)])
            od, orad = outcome(f, R, T2, 'deg'), outcome(f, R, T2, 'rad')
            ctx.case(('unit-out', name, R.tobytes(), th))
            ctx.count('units:out:cases')
            vd, vr = fvals(od), fvals(orad)
            bad = vd is None or vr is None or vd.shape != vr.shape
            if not bad and np.any(np.isnan(vr)) and np.array_equal(np.isnan(vd), np.isnan(vr)):
                ctx.count('units:out:nan-in-both (a C03 matter: trlog)')     # NaN angle in BOTH units: not a unit question
                continue
            err = float('inf') if bad else float(np.max(np.abs(vd - vr * 180 / math.pi))) if vd.size else 0.0
            if not bad and err <= 1e-12:
                ctx.stats['units:out:worst-accepted'] = max(ctx.stats.get('units:out:worst-accepted', 0.0), err)
            if bad or not err <= 1e-12:
                report(f"unit:out:{name}:{'raises' if od[0] == 'raise' else 'differs'}",
                       f"{name}: the angle returned with unit='deg' ({show(od)[:160]}) is not 180/pi times the one returned with unit='rad' ({show(orad)[:160]})",
                       {'entry': name, 'R_hex': [float(x).hex() for x in R.flatten()], 'theta2d': th, 'deg': show(od), 'rad': show(orad)})
    # ---- orders: aliases identical, documented names accepted, anything else raises
    for name, f in order_entries():
        for o1, o2 in ORDERS:
            r1, r2 = outcome(f, o1), outcome(f, o2)
            ctx.case(('order', name, o1))
            ctx.count('orders:cases')
            if r1[0] in ('raise', 'none'):
                report(f"order:documented-rejected:{name}", f"{name}: documented order {o1!r} {show(r1)}", {'entry': name, 'order': o1})
            if r1 != r2:
                report(f"order:alias-differs:{name}", f"{name}: order {o2!r} ({show(r2)[:150]}) is not the same as its alias {o1!r} ({show(r1)[:150]})",
                       {'entry': name, 'order': o1, 'alias': o2})
        vals = [outcome(f, o1) for o1, _ in ORDERS]
        if len(set(vals)) != 3:
            report(f"order:not-distinguished:{name}", f"{name}: two different orders give the same result", {'entry': name})
        for bo in BAD_ORDERS:
            r = outcome(f, bo)
            ctx.case(('order-bad', name, repr(bo)))
            ctx.count('orders:bad:cases')
            if r[0] != 'raise':
                report(f"order:unknown-accepted:{name}", f"{name}: unknown order {bo!r} is not rejected: {show(r)[:200]}",
                       {'entry': name, 'order': repr(bo), 'observed': show(r)})
    # ---- separate scalars vs packed vector
    for i in range(N):
        x, y, z = (float(v) for v in (rng.uniform(-3, 3, size=3) if i % 2 else rng.integers(-5, 6, size=3)))
        pairs = [('transl', lambda: base.transl(x, y, z), lambda: base.transl([x, y, z])),
                 ('transl2', lambda: base.transl2(x, y), lambda: base.transl2([x, y])),
                 ('eul2r', lambda: base.eul2r(x, y, z), lambda: base.eul2r([x, y, z])),
                 ('eul2tr', lambda: base.eul2tr(x, y, z), lambda: base.eul2tr([x, y, z])),
                 ('eul2r:deg', lambda: base.eul2r(x, y, z, unit='deg'), lambda: base.eul2r([x, y, z], unit='deg')),
                 ('SE3', lambda: SE3(x, y, z), lambda: SE3([x, y, z])),
                 ('SE2:xy', lambda: SE2(x, y), lambda: SE2([x, y])),
                 ('SE2:xyt', lambda: SE2(x, y, z), lambda: SE2([x, y, z])),
                 ('SE2:xyt:deg', lambda: SE2(x, y, z, unit='deg'), lambda: SE2([x, y, z], unit='deg')),
                 ('Twist3(v,w)', lambda: Twist3([x, y, z], [z, x, y]), lambda: Twist3([x, y, z, z, x, y])),
                 ('Quaternion(s,v)', lambda: Quaternion(x, [y, z, x]), lambda: Quaternion([x, y, z, x]))]
        for o1, o2 in ORDERS:
            for o in (o1, o2):
                for u in ('rad', 'deg'):
                    pairs.append((f'rpy2r:{o}:{u}', (lambda o, u: lambda: base.rpy2r(x, y, z, order=o, unit=u))(o, u),
                                  (lambda o, u: lambda: base.rpy2r([x, y, z], order=o, unit=u))(o, u)))
                    pairs.append((f'rpy2tr:{o}:{u}', (lambda o, u: lambda: base.rpy2tr(x, y, z, order=o, unit=u))(o, u),
                                  (lambda o, u: lambda: base.rpy2tr([x, y, z], order=o, unit=u))(o, u)))
        for name, fs, fp in pairs:
            os_, op = outcome(fs), outcome(fp)
            ctx.case(('callform', name, x, y, z))
            ctx.count('callforms:cases')
            if os_ != op or os_[0] in ('raise', 'none'):
                report(f"callform:{name.split(':')[0]}:{'raises' if os_[0] == 'raise' else 'none' if os_[0] == 'none' else 'differs'}",
                       f"{name}: separate scalars ({x},{y},{z}) give {show(os_)[:160]} but the packed vector gives {show(op)[:160]}",
                       {'entry': name, 'x': x, 'y': y, 'z': z, 'scalars': show(os_), 'packed': show(op)})


# ----------------------------------------------------------------------------------------------------
# the same unit / order checks THROUGH THE MULTI-VALUED BRANCHES of the class layer:
# vector-of-angles constructor forms and receivers holding 2..4 poses (`len(self) > 1` / list branches)

def per_element(r, n, k=None, transposed=False):
    """multi-valued result -> list of n flat float arrays (one per element), or None.
    Objects: their data; arrays/lists of angles: (n,k), (k,n) or (n,) layouts are all accepted (the layout is C09's)"""
    if hasattr(r, 'data') and not isinstance(r, np.ndarray):
        if len(r.data) != n or any(x is None for x in r.data):
            return None
        return [np.asarray(x, dtype=float).flatten() for x in r.data]
    if k == 1 and isinstance(r, list) and len(r) == n and all(isinstance(x, tuple) and len(x) == 2 for x in r):
        r = [x[0] for x in r]                                   # angvec of n rotations: a list of (theta, v) pairs (fix 3803e60)
    elif isinstance(r, tuple) and len(r) == 2 and k == 1:      # (theta, v) of a single-valued angvec
        r = r[0]
    try:
        a = np.asarray(r, dtype=float)
    except Exception:
        return None
    if k is None:
        return None
    if n == 1 and a.size == k:
        return [a.flatten()]
    if a.shape == (n, k) and not (transposed and n == k):
        return [a[i] for i in range(n)]
    if a.shape == (k, n):
        return [a[:, i] for i in range(n)]
    if k == 1 and a.shape == (n,):
        return [a[i:i + 1] for i in range(n)]
    return None


def call(f, *a, **k):
    try:
        with np.errstate(all='ignore'), contextlib.redirect_stdout(_SINK):
            return ('val', f(*a, **k))
    except Exception as ex:
        return ('raise', type(ex).__name__)


def multi_ctor_entries():
    """(name, multi(list_of_angle_items, container, unit), single(item_in_rad), per-item arity)"""
    L = []
    for cn, cls in (('SO3', SO3), ('SE3', SE3), ('UnitQuaternion', UnitQuaternion)):
        for ax in ('Rx', 'Ry', 'Rz'):
            m = getattr(cls, ax)
            L.append((f'{cn}.{ax}', (lambda m: lambda A, c, u: m(c(A), u))(m), (lambda m: lambda a: m(a))(m), 1))
    for ax in ('Rx', 'Ry', 'Rz'):
        m = getattr(SE3, ax)
        L.append((f'SE3.{ax}:t', (lambda m: lambda A, c, u: m(c(A), u, t=[1, 2, 3]))(m), (lambda m: lambda a: m(a, t=[1, 2, 3]))(m), 1))
        m = getattr(Twist3, ax)
        L.append((f'Twist3.{ax}', (lambda m: lambda A, c, u: m(c(A), u))(m), (lambda m: lambda a: m([a]))(m), 1))
        if ax != 'Rx':
            L.append((f'Twist3.{ax}:t', (lambda m: lambda A, c, u: m(c(A), u, t=[1, 2, 3]))(m), (lambda m: lambda a: m([a], t=[1, 2, 3]))(m), 1))
    L.append(('SO2', lambda A, c, u: SO2(c(A), unit=u), lambda a: SO2(a), 1))
    tw3, tw2 = [1, 2, 3, 0.2, -0.3, 0.4], [1, 2, 0.5]
    L.append(('Twist3.exp', lambda A, c, u: Twist3(tw3).exp(c(A), u), lambda a: Twist3(tw3).exp(a), 1))
    L.append(('Twist2.exp', lambda A, c, u: Twist2(tw2).exp(c(A), u), lambda a: Twist2(tw2).exp(a), 1))
    for off in range(4):
        def tws3(n, off=off):
            return [TW3_KINDS[(off + i) % 4][1] for i in range(n)]
        s3 = (lambda tws3: lambda a, i, n: Twist3(tws3(n)[i]).exp(a))(tws3)
        s3.indexed = True
        L.append((f'Twist3[mixed kinds+{off}].exp:list', (lambda tws3: lambda A, c, u: Twist3(tws3(len(A))).exp(c(A), u))(tws3), s3, 1))
        L.append((f'Twist3[mixed kinds+{off}].exp:scalar', (lambda tws3: lambda A, c, u: Twist3(tws3(len(A))).exp(A[0], u))(tws3), s3, 1))
    for off in range(3):
        def tws2(n, off=off):
            return [TW2_KINDS[(off + i) % 3][1] for i in range(n)]
        s2 = (lambda tws2: lambda a, i, n: Twist2(tws2(n)[i]).exp(a))(tws2)
        s2.indexed = True
        L.append((f'Twist2[mixed kinds+{off}].exp:list', (lambda tws2: lambda A, c, u: Twist2(tws2(len(A))).exp(c(A), u))(tws2), s2, 1))
        L.append((f'Twist2[mixed kinds+{off}].exp:scalar', (lambda tws2: lambda A, c, u: Twist2(tws2(len(A))).exp(A[0], u))(tws2), s2, 1))
    L.append(('Twist2[n].exp', lambda A, c, u: Twist2([np.array(tw2) * (i + 1) for i in range(len(A))]).exp(c(A), u), None, 1))
    L.append(('Twist3[n].exp', lambda A, c, u: Twist3([np.array(tw3) * (i + 1) for i in range(len(A))]).exp(c(A), u),
              None, 1))        # element i uses twist i: handled specially below
    for cn, cls in (('SO3', SO3), ('SE3', SE3), ('UnitQuaternion', UnitQuaternion)):
        L.append((f'{cn}.Eul', (lambda cls: lambda A, c, u: cls.Eul(c(A), unit=u))(cls), (lambda cls: lambda a: cls.Eul(a))(cls), 3))
        for o1, o2 in ORDERS:
            for o in (o1, o2):
                L.append((f'{cn}.RPY:{o}', (lambda cls, o: lambda A, c, u: cls.RPY(c(A), unit=u, order=o))(cls, o),
                          (lambda cls, o: lambda a: cls.RPY(a, order=o))(cls, o), 3))
    return L


CONTAINERS = [('list', lambda A: [list(a) if isinstance(a, (list, tuple)) else a for a in A]),
              ('tuple', lambda A: tuple(tuple(a) if isinstance(a, (list, tuple)) else a for a in A)),
              ('ndarray', lambda A: np.array(A, dtype=float))]


def multi_acc_entries():
    """(name, make_receiver(list of single objects), accessor(obj, unit), k = angles per element)"""
    L = []
    for cn, cls in (('SO3', SO3), ('SE3', SE3), ('UnitQuaternion', UnitQuaternion)):
        L.append((f'{cn}.eul', cn, lambda X, u: X.eul(unit=u), 3))
        if cn != 'UnitQuaternion':
            L.append((f'{cn}.eul:flip', cn, lambda X, u: X.eul(unit=u, flip=True), 3))
        L.append((f'{cn}.angvec', cn, lambda X, u: X.angvec(unit=u), 1))
        for o1, o2 in ORDERS:
            for o in (o1, o2):
                L.append((f'{cn}.rpy:{o}', cn, (lambda o: lambda X, u: X.rpy(unit=u, order=o))(o), 3))
    L.append(('SO2.theta', 'SO2', lambda X, u: X.theta(unit=u), 1))
    L.append(('SE2.theta', 'SE2', lambda X, u: X.theta(unit=u), 1))
    return L


def make_receivers(rng, n):
    from lib.gens import rand_rot
    Rs = [rand_rot(rng) for _ in range(n)]
    ths = [float(x) for x in rng.uniform(-3, 3, size=n)]
    ts = [[float(x) for x in rng.uniform(-2, 2, size=3)] for _ in range(n)]
    return {'SO3': [SO3(R, check=False) for R in Rs],
            'SE3': [SE3(base.rt2tr(R, t), check=False) for R, t in zip(Rs, ts)],
            'UnitQuaternion': [UnitQuaternion(base.r2q(R)) for R in Rs],
            'SO2': [SO2(th) for th in ths],
            'SE2': [SE2(t[0], t[1], th) for t, th in zip(ts, ths)]}, {'R_hex': [[float(x).hex() for x in R.flatten()] for R in Rs], 'theta': ths}


def special_receivers(n):
    """receivers mixing the identity, a half turn, the RPY/Euler singular attitude and a generic rotation"""
    Rs = [np.eye(3), base.rotx(math.pi), base.roty(math.pi / 2), base.rpy2r([0.3, -0.4, 0.5])][:n]
    ths = [0.0, math.pi, -math.pi / 2, 0.7][:n]
    ts = [[0.0, 0.0, 0.0], [1.0, -2.0, 0.5], [0.0, 3.0, 0.0], [-1.0, 0.25, 2.0]][:n]
    return {'SO3': [SO3(R, check=False) for R in Rs],
            'SE3': [SE3(base.rt2tr(R, t), check=False) for R, t in zip(Rs, ts)],
            'UnitQuaternion': [UnitQuaternion(base.r2q(R)) for R in Rs],
            'SO2': [SO2(th) for th in ths],
            'SE2': [SE2(t[0], t[1], th) for t, th in zip(ts, ths)]}, {'R_hex': [[float(x).hex() for x in R.flatten()] for R in Rs], 'theta': ths, 'special': True}


# every class method with a unit/units/order parameter must be exercised above (single- AND multi-valued); found by reflection
COVERED = {f'{c}.{m}' for c in ('SO3', 'SE3', 'UnitQuaternion') for m in ('Rx', 'Ry', 'Rz', 'Eul', 'RPY', 'AngVec', 'eul', 'rpy', 'angvec')} | \
          {'SO2.theta', 'SE2.theta', 'SO2.Rand', 'SE2.Rand', 'Twist3.Rx', 'Twist3.Ry', 'Twist3.Rz', 'Twist3.exp', 'Twist2.exp'}
COVERED_BASE = {'getunit', 'rot2', 'trot2', 'xyt2tr', 'tr2xyt', 'rotx', 'roty', 'rotz', 'trotx', 'troty', 'trotz', 'rpy2r', 'rpy2tr',
                'eul2r', 'eul2tr', 'angvec2r', 'angvec2tr', 'tr2angvec', 'tr2eul', 'tr2rpy'}
EXCLUDED = {'trprint', 'trprint2'}      # print entry points


def reflect_coverage(ctx, report):
    import inspect
    for cls in (SO2, SE2, SO3, SE3, Quaternion, UnitQuaternion, Twist2, Twist3):
        for n, m in inspect.getmembers(cls):
            if n.startswith('_') or isinstance(m, property) or not callable(m):
                continue
            try:
                ps = inspect.signature(m).parameters
            except (TypeError, ValueError):
                continue
            if any(p in ps for p in ('unit', 'units', 'order')):
                ctx.count('reflect:methods-with-unit-or-order')
                if f'{cls.__name__}.{n}' not in COVERED:
                    report(f'table:uncovered:{cls.__name__}.{n}', f"{cls.__name__}.{n} takes a unit/order argument but is not in the tables of props/C15.py",
                           {'method': f'{cls.__name__}.{n}'})
    for n in base.__all__:
        f = getattr(base, n, None)
        try:
            ps = inspect.signature(f).parameters
        except (TypeError, ValueError):
            continue
        if any(p in ps for p in ('unit', 'units', 'order')) and n not in COVERED_BASE and n not in EXCLUDED:
            report(f'table:uncovered:base.{n}', f"base.{n} takes a unit/order argument but is not in the tables of props/C15.py", {'function': n})


def multi_run(ctx, report=None):
    report = report or ctx.fail
    rng = ctx.rng
    reps = ctx.n(2, 12)
    tol = 1e-11
    reflect_coverage(ctx, report)

    def elems_close(got, exp):
        return got is not None and len(got) == len(exp) and all(
            g.shape == e.shape and (np.array_equal(np.isnan(g), np.isnan(e)) and np.all(np.abs(np.nan_to_num(g - e)) <= tol)) for g, e in zip(got, exp))

    # ---- accepted angles, vector-of-angles / list-of-triples constructor forms
    for name, multi, single, ar in multi_ctor_entries():
        for n in (2, 3, 4):
            for rep in range(reps):
                if ar == 1:
                    A = [float(x) for x in (rng.uniform(-400, 400, size=n) if rep else [90.0, -45.0, 30.0, 720.0][:n])]
                    Arad = [a * math.pi / 180 for a in A]
                else:
                    A = [[float(x) for x in rng.uniform(-170, 170, size=3)] for _ in range(n)]
                    Arad = [[x * math.pi / 180 for x in a] for a in A]
                for cname, c in CONTAINERS:
                    ctx.case(('multi-in', name, n, cname, repr(A)))
                    ctx.count('multi:in:cases')
                    rd, rr = call(multi, A, c, 'deg'), call(multi, Arad, c, 'rad')
                    rep_ = {'entry': name, 'n': n, 'container': cname, 'angles_deg': A}
                    if rr[0] == 'raise':
                        ctx.count(f'multi:in:unsupported-form (raises for rad too): {name}:{cname}')
                        if rd[0] != 'raise':
                            report(f'unit:in-multi:{name}:value-where-rad-raises', f"{name}({cname} of {n}): unit='deg' gives a value but unit='rad' raises {rr[1]}", rep_)
                        continue
                    if rd[0] == 'raise':
                        report(f'unit:in-multi:{name}:raises', f"{name}({cname} of {n} angles {A}, unit='deg') raises {rd[1]} although unit='rad' works", rep_)
                        continue
                    ed, er = per_element(rd[1], n), per_element(rr[1], n)
                    if single is not None:
                        es = []
                        for i_, a in enumerate(Arad):
                            if name.endswith(':scalar'):
                                a = Arad[0]
                            r1 = call(single, a, i_, n) if getattr(single, 'indexed', False) else call(single, a)
                            p1 = per_element(r1[1], 1) if r1[0] == 'val' else None
                            es.append(p1[0] if p1 else np.full(1, np.inf))
                    else:
                        es = er
                    if not elems_close(ed, es):
                        which = 'broadcast' if not elems_close(er, es) else 'unit'
                        bad = next((i for i in range(n) if ed is None or i >= len(ed) or not elems_close([ed[i]], [es[i]])), 0)
                        rep_.update({'element': bad, 'observed': None if ed is None or bad >= len(ed) else ed[bad].tolist(), 'expected_from_single_rad_call': es[bad].tolist()})
                        if which == 'unit':
                            report(f'unit:in-multi:{name}:differs',
                                   f"{name}({cname} of {n} angles {A}, unit='deg'): element {bad} is not the single-valued result for {A[bad]}*pi/180 rad "
                                   f"(observed {rep_['observed']}, expected {rep_['expected_from_single_rad_call']})", rep_)
                        else:
                            report(f'multi:broadcast:{name}:{cname}',
                                   f"{name}({cname} of {n}): the multi-valued RADIAN result already differs from the single-valued calls (a C09 matter, not a unit one)", rep_)
                if rep == 0:
                    for u in BAD_UNITS:
                        r = call(multi, A, CONTAINERS[0][1], u)
                        ctx.case(('multi-bad-unit', name, n, repr(u)))
                        ctx.count('multi:bad-unit:cases')
                        if r[0] != 'raise' and call(multi, A, CONTAINERS[0][1], 'rad')[0] != 'raise':
                            report(f'unit:unknown-accepted-multi:{name}', f"{name}(list of {n}): unknown unit {u!r} for input angles is not rejected",
                                   {'entry': name, 'n': n, 'unit': repr(u)})
    # order aliases / unknown orders through the list-of-triples constructor branch
    for cn, cls in (('SO3', SO3), ('SE3', SE3), ('UnitQuaternion', UnitQuaternion)):
        A = [[0.3, -0.4, 0.5], [1.0, 0.2, -0.7], [-0.5, 0.9, 0.1]]
        if call(cls.RPY, A)[0] == 'raise':
            ctx.count(f'multi:orders:unsupported-form: {cn}.RPY(list of triples)')
            continue
        for o1, o2 in ORDERS:
            r1, r2 = outcome(cls.RPY, A, order=o1), outcome(cls.RPY, A, order=o2)
            ctx.case(('multi-order', cn, o1))
            ctx.count('multi:orders:cases')
            if r1 != r2 or r1[0] == 'raise':
                report(f'order:alias-differs-multi:{cn}.RPY', f"{cn}.RPY(list of triples): order {o2!r} is not the same as its alias {o1!r}", {'entry': cn + '.RPY', 'order': o1, 'alias': o2})
        for bo in BAD_ORDERS:
            r = outcome(cls.RPY, A, order=bo)
            ctx.count('multi:orders:bad:cases')
            if r[0] != 'raise':
                report(f'order:unknown-accepted-multi:{cn}.RPY', f"{cn}.RPY(list of triples): unknown order {bo!r} is not rejected", {'entry': cn + '.RPY', 'order': repr(bo)})
    # ---- returned angles, receivers holding n poses
    for n in (2, 3, 4):
        for rep in range(reps):
            recv, desc = make_receivers(rng, n) if rep else special_receivers(n)
            for name, cn, acc, k in multi_acc_entries():
                singles = recv[cn]
                X = type(singles[0])([x.A if hasattr(x, 'A') else x for x in singles]) if cn != 'UnitQuaternion' else UnitQuaternion([q.vec for q in singles])
                ctx.case(('multi-out', name, n, rep, desc['theta'][0]))
                ctx.count('multi:out:cases')
                rd, rr = call(acc, X, 'deg'), call(acc, X, 'rad')
                rep_ = dict(desc, entry=name, n=n)
                if rr[0] == 'raise':
                    ctx.count(f'multi:out:unsupported (raises for rad too, C09): {name}')
                    if rd[0] != 'raise':
                        report(f'unit:out-multi:{name}:value-where-rad-raises', f"{name} on {n} poses: unit='deg' gives a value but unit='rad' raises", rep_)
                    continue
                if rd[0] == 'raise':
                    report(f'unit:out-multi:{name}:raises', f"{name}(unit='deg') on a {cn} holding {n} poses raises {rd[1]} although unit='rad' works", rep_)
                    continue
                es = []
                for x in singles:
                    r1 = call(acc, x, 'rad')
                    p1 = per_element(r1[1], 1, k) if r1[0] == 'val' else None
                    es.append(p1[0] * 180 / math.pi if p1 else np.full(k, np.inf))
                ed, er = per_element(rd[1], n, k), per_element(rr[1], n, k)
                if n == k and not elems_close(None if er is None else [e * 180 / math.pi for e in er], es):
                    # square result: the layout may be (k, n); the RADIAN result decides which layout it is
                    ed, er = per_element(rd[1], n, k, True), per_element(rr[1], n, k, True)
                if not elems_close(ed, es):
                    rad_ok = elems_close(None if er is None else [e * 180 / math.pi for e in er], es)
                    bad = next((i for i in range(n) if ed is None or i >= len(ed) or not elems_close([ed[i]], [es[i]])), 0)
                    rep_.update({'element': bad, 'observed_deg': None if ed is None or bad >= len(ed) else ed[bad].tolist(), 'expected_deg_from_single_rad_call': es[bad].tolist()})
                    if rad_ok:
                        report(f'unit:out-multi:{name}:differs',
                               f"{name}(unit='deg') on a {cn} holding {n} poses: element {bad} is {rep_['observed_deg']} but the single-valued "
                               f"radian result times 180/pi is {rep_['expected_deg_from_single_rad_call']}", rep_)
                    else:
                        report(f'multi:broadcast:{name}',
                               f"{name} on a {cn} holding {n} poses: the multi-valued RADIAN result already differs from the single-valued calls (a C09 matter, not a unit one)", rep_)
            # orders on multi-valued receivers
            if rep == 0:
                for cn in ('SO3', 'SE3', 'UnitQuaternion'):
                    singles = recv[cn]
                    X = type(singles[0])([x.A for x in singles]) if cn != 'UnitQuaternion' else UnitQuaternion([q.vec for q in singles])
                    if call(X.rpy)[0] == 'raise':
                        continue
                    for o1, o2 in ORDERS:
                        r1, r2 = outcome(X.rpy, order=o1), outcome(X.rpy, order=o2)
                        ctx.count('multi:orders:cases')
                        if r1 != r2 or r1[0] == 'raise':
                            report(f'order:alias-differs-multi:{cn}.rpy', f"{cn}.rpy on {n} poses: order {o2!r} is not the same as its alias {o1!r}", {'entry': cn + '.rpy', 'n': n})
                    # distinctness needs generic rotations (the random generator also emits the identity and other specials)
                    Rg = [base.rpy2r([0.3 + 0.2 * i, -0.4 + 0.1 * i, 0.5 - 0.3 * i]) for i in range(n)]
                    Xg = UnitQuaternion([base.r2q(R) for R in Rg]) if cn == 'UnitQuaternion' else \
                        (SO3(Rg, check=False) if cn == 'SO3' else SE3([base.r2t(R) for R in Rg], check=False))
                    outs3 = [outcome(Xg.rpy, order=o1) for o1, _ in ORDERS]
                    if len(set(outs3)) != 3:
                        report(f'order:not-distinguished-multi:{cn}.rpy', f"{cn}.rpy on {n} poses: two different orders give the same result: " +
                               '; '.join(show(o)[:120] for o in outs3), dict(desc, entry=cn + '.rpy', n=n, outcomes=[show(o) for o in outs3]))
                    for bo in BAD_ORDERS:
                        r = outcome(X.rpy, order=bo)
                        ctx.count('multi:orders:bad:cases')
                        if r[0] != 'raise':
                            report(f'order:unknown-accepted-multi:{cn}.rpy', f"{cn}.rpy on {n} poses: unknown order {bo!r} is not rejected", {'entry': cn + '.rpy', 'order': repr(bo), 'n': n})
    # ---- Rand(unit=...): same random stream, range given in degrees vs in radians
    for cn, cls, kw in (('SO2', SO2, {}), ('SE2', SE2, {'xrange': (-2, 3), 'yrange': (1, 4)})):
        for n in (1, 3):
            st = int(rng.integers(0, 2 ** 31))
            np.random.seed(st)
            rd = call(cls.Rand, arange=(10, 50), unit='deg', N=n, **kw)
            np.random.seed(st)
            rr = call(cls.Rand, arange=(10 * math.pi / 180, 50 * math.pi / 180), unit='rad', N=n, **kw)
            ctx.case(('rand', cn, n, st))
            ctx.count('multi:rand:cases')
            ed = per_element(rd[1], n) if rd[0] == 'val' else None
            er = per_element(rr[1], n) if rr[0] == 'val' else None
            if rr[0] == 'raise' and rd[0] == 'raise':
                ctx.count(f'multi:rand:unsupported: {cn}.Rand')
            elif ed is None or er is None or not elems_close(ed, er):
                report(f'unit:in-multi:{cn}.Rand:differs', f"{cn}.Rand(arange=(10,50), unit='deg', N={n}) differs from the same draw with the range in radians",
                       {'entry': cn + '.Rand', 'numpy_seed': st, 'N': n})
        for u in BAD_UNITS:
            if call(cls.Rand, arange=(10, 50), unit=u, N=2, **kw)[0] != 'raise':
                report(f'unit:unknown-accepted-multi:{cn}.Rand', f"{cn}.Rand: unknown unit {u!r} is not rejected", {'entry': cn + '.Rand', 'unit': repr(u)})


# ----------------------------------------------------------------------------------------------------
# T-sym traces: unit='deg' vs unit='rad', separate scalars vs packed vector, order aliases

class sympi:
    """while tracing, math.pi is the SYMBOL pi (printed as pi_f of the ops record), so that the traced
    term shows the conversion `v * math.pi / 180` instead of a rounded float coefficient"""
    def __enter__(self):
        self.p = math.pi
        math.pi = sympy.pi

    def __exit__(self, *a):
        math.pi = self.p


def A_(x):
    return np.asarray(x.A if hasattr(x, 'A') else x)


def build(ctx):
    g = Gen('C15')
    b = base

    def tr(name, inputs, fn, **k):
        def traced(*a):
            with sympi(), concolic.object_alloc():
                return fn(*a)
        # symbolic call under the pi patch; the numeric thunk is the plain library call
        return g.trace(name, inputs, traced, num_fn=fn, **k)

    S = [('a', 'S')]
    small = lambda rng: [float(rng.uniform(-400, 400))]
    one = {
        'rotx': lambda a, u: b.rotx(a, u), 'roty': lambda a, u: b.roty(a, u), 'rotz': lambda a, u: b.rotz(a, u),
        'rot2': lambda a, u: b.rot2(a, u),
        'trotx': lambda a, u: b.trotx(a, u), 'troty': lambda a, u: b.troty(a, u), 'trotz': lambda a, u: b.trotz(a, u),
        'trot2': lambda a, u: b.trot2(a, u),
        'SO2': lambda a, u: A_(SO2(a, unit=u)), 'SE2_theta': lambda a, u: A_(SE2(a, unit=u)),
        'SO3_Rx': lambda a, u: A_(SO3.Rx(a, u)), 'SO3_Ry': lambda a, u: A_(SO3.Ry(a, u)), 'SO3_Rz': lambda a, u: A_(SO3.Rz(a, u)),
        'SE3_Rx': lambda a, u: A_(SE3.Rx(a, u)), 'SE3_Ry': lambda a, u: A_(SE3.Ry(a, u)), 'SE3_Rz': lambda a, u: A_(SE3.Rz(a, u)),
        'getunit': lambda a, u: b.getunit(a, u),
    }
    for nm, f in one.items():
        for u in ('deg', 'rad'):
            if nm.startswith('getunit') and u == 'rad':
                continue        # the identity: a definition that does not mention the ops record cannot be emitted
            tr(f'tr_{nm}_{u}', S, (lambda f, u: lambda a: f(a, u))(f, u), sampler=small if u == 'deg' else None)
    withT = {
        'trotx_t': (lambda a, t, u: b.trotx(a, u, t=t), 'V3'), 'troty_t': (lambda a, t, u: b.troty(a, u, t=t), 'V3'),
        'trotz_t': (lambda a, t, u: b.trotz(a, u, t=t), 'V3'), 'trot2_t': (lambda a, t, u: b.trot2(a, u, t=t), 'V2'),
        'SE3_Rx_t': (lambda a, t, u: A_(SE3.Rx(a, u, t=t)), 'V3'),
    }
    for nm, (f, sh) in withT.items():
        for u in ('deg', 'rad'):
            tr(f'tr_{nm}_{u}', [('a', 'S'), ('t', sh)], (lambda f, u: lambda a, t: f(a, t, u))(f, u))
    three = {
        'eul2r': lambda g_, u: b.eul2r(g_, unit=u), 'eul2tr': lambda g_, u: b.eul2tr(g_, unit=u),
        'xyt2tr': lambda g_, u: b.xyt2tr(g_, unit=u),
        'getunit_nd': lambda g_, u: b.getunit(g_, u),
        'getunit_list': lambda g_, u: np.array(b.getunit(list(g_), u), dtype=object if g_.dtype == object else float),
        'SO3_Eul': lambda g_, u: A_(SO3.Eul(list(g_), unit=u)), 'SE3_Eul': lambda g_, u: A_(SE3.Eul(list(g_), unit=u)),
        'SE2_list': lambda g_, u: A_(SE2(list(g_), unit=u)), 'SE2_tuple': lambda g_, u: A_(SE2(tuple(g_), unit=u)),
        'SE2_nd': lambda g_, u: A_(SE2(g_, unit=u)),
    }
    for o in ('zyx', 'xyz', 'yxz', 'vehicle', 'arm', 'camera'):
        three[f'rpy2r_{o}'] = (lambda o: lambda g_, u: b.rpy2r(g_, unit=u, order=o))(o)
        three[f'rpy2tr_{o}'] = (lambda o: lambda g_, u: b.rpy2tr(g_, unit=u, order=o))(o)
    for o in ('zyx', 'xyz', 'yxz'):
        three[f'SO3_RPY_{o}'] = (lambda o: lambda g_, u: A_(SO3.RPY(list(g_), unit=u, order=o)))(o)
        three[f'SO3_RPY_nd_{o}'] = (lambda o: lambda g_, u: A_(SO3.RPY(g_, unit=u, order=o)))(o)
        three[f'SE3_RPY_{o}'] = (lambda o: lambda g_, u: A_(SE3.RPY(list(g_), unit=u, order=o)))(o)
    for nm, f in three.items():
        for u in ('deg', 'rad'):
            if nm.startswith('getunit') and u == 'rad':
                continue
            tr(f'tr_{nm}_{u}', [('g', 'V3')], (lambda f, u: lambda g_: f(g_, u))(f, u))
    # separate scalars
    sc3 = {
        'eul2r_s': lambda x, y, z, u: b.eul2r(x, y, z, unit=u), 'eul2tr_s': lambda x, y, z, u: b.eul2tr(x, y, z, unit=u),
        'SE2_s': lambda x, y, z, u: A_(SE2(x, y, z, unit=u)),
    }
    for o in ('zyx', 'xyz', 'yxz'):
        sc3[f'rpy2r_s_{o}'] = (lambda o: lambda x, y, z, u: b.rpy2r(x, y, z, unit=u, order=o))(o)
        sc3[f'rpy2tr_s_{o}'] = (lambda o: lambda x, y, z, u: b.rpy2tr(x, y, z, unit=u, order=o))(o)
    XYZ = [('x', 'S'), ('y', 'S'), ('z', 'S')]
    for nm, f in sc3.items():
        for u in ('deg', 'rad'):
            tr(f'tr_{nm}_{u}', XYZ, (lambda f, u: lambda x, y, z: f(x, y, z, u))(f, u))
    for u in ('deg', 'rad'):
        tr(f'tr_tr2xyt_{u}', [('X', 'M33')], (lambda u: lambda X: b.tr2xyt(X, unit=u))(u),
           sampler=lambda rng: [b.trot2(float(rng.uniform(-3, 3)), t=[float(v) for v in rng.uniform(-2, 2, size=2)])])
    tr('tr_transl_s', XYZ, lambda x, y, z: b.transl(x, y, z))
    tr('tr_transl_v', [('v', 'V3')], lambda v: b.transl(v))
    tr('tr_transl_list', [('v', 'V3')], lambda v: b.transl(list(v)))
    tr('tr_transl2_s', [('x', 'S'), ('y', 'S')], lambda x, y: b.transl2(x, y))
    tr('tr_transl2_v', [('v', 'V2')], lambda v: b.transl2(v))
    tr('tr_transl2_list', [('v', 'V2')], lambda v: b.transl2(list(v)))
    tr('tr_SE3_s', XYZ, lambda x, y, z: A_(SE3(x, y, z)))
    tr('tr_SE3_list', [('v', 'V3')], lambda v: A_(SE3(list(v))))
    tr('tr_SE3_nd', [('v', 'V3')], lambda v: A_(SE3(v)))
    tr('tr_SE2_xy_s', [('x', 'S'), ('y', 'S')], lambda x, y: A_(SE2(x, y)))
    tr('tr_SE2_xy_list', [('v', 'V2')], lambda v: A_(SE2(list(v))))
    # ---- container forms of the functions that gained the shared argument conversion in the fix rounds
    # (norm, normsq 27fbc71; cross 961176d; vvmul bc3ebca; SE2.Exp 8585593): every form is traced
    FORMS = {'list': lambda v: list(v), 'tuple': lambda v: tuple(v), 'nd': lambda v: v,
             'row': lambda v: v.reshape(1, -1), 'col': lambda v: v.reshape(-1, 1)}
    for nm in 'uvw':
        for i, x in enumerate([0.15, 0.25, -0.35]):
            concolic.VAL[sympy.Symbol(f'{nm}{i}', real=True)] = x
    smallv = lambda rng: [rng.uniform(-0.5, 0.5, size=3), rng.uniform(-0.5, 0.5, size=3)]
    for fn, f in FORMS.items():
        tr(f'tr_norm_{fn}', [('v', 'V3')], (lambda f: lambda v: b.norm(f(v)))(f), optional=True)
        tr(f'tr_normsq_{fn}', [('v', 'V3')], (lambda f: lambda v: b.normsq(f(v)))(f), optional=True)
        tr(f'tr_cross_u_{fn}', [('u', 'V3'), ('v', 'V3')], (lambda f: lambda u, v: b.cross(f(u), v))(f), optional=True)
        tr(f'tr_cross_v_{fn}', [('u', 'V3'), ('v', 'V3')], (lambda f: lambda u, v: b.cross(u, f(v)))(f), optional=True)
        tr(f'tr_vvmul_a_{fn}', [('u', 'V3'), ('v', 'V3')], (lambda f: lambda u, v: b.vvmul(f(u), v))(f), sampler=smallv, tol=1e-10, optional=True)
        tr(f'tr_vvmul_b_{fn}', [('u', 'V3'), ('v', 'V3')], (lambda f: lambda u, v: b.vvmul(u, f(v)))(f), sampler=smallv, tol=1e-10, optional=True)
    nzw = lambda rng: [np.r_[rng.uniform(-2, 2, size=2), rng.choice([-1, 1]) * rng.uniform(0.2, 2.5)]]
    for fn in ('list', 'tuple', 'nd'):
        tr(f'tr_SE2_Exp_{fn}', [('w', 'V3')], (lambda f: lambda w: A_(SE2.Exp(f(w))))(FORMS[fn]), sampler=nzw, tol=1e-9, optional=True,
           note='one path: rotational twist (|w2| above the zero threshold)')
    # angle-axis (one path: |v| above the zero thresholds; the shadow valuation decides the comparisons)
    for i, x in enumerate([0.3, 0.5, -0.7]):
        concolic.VAL[sympy.Symbol(f'v{i}', real=True)] = x
    concolic.VAL[sympy.Symbol('a', real=True)] = 0.4
    nz = lambda rng: [float(rng.uniform(-3, 3)), rng.normal(size=3) + 0.1]
    for u in ('deg', 'rad'):
        tr(f'tr_angvec2r_{u}', [('a', 'S'), ('v', 'V3')], (lambda u: lambda a, v: b.angvec2r(a, v, unit=u))(u), sampler=nz, tol=1e-9)
        tr(f'tr_SO3_AngVec_{u}', [('a', 'S'), ('v', 'V3')], (lambda u: lambda a, v: A_(SO3.AngVec(a, list(v), unit=u)))(u), sampler=nz, tol=1e-9)
    return g


# ----------------------------------------------------------------------------------------------------
# correspondence of the hand model Model/C15_ArgCheck.v with the real getvector / isvector (T-tab, vm_compute)

COQ_HEADER = ("From Coq Require Import List ZArith.\nFrom SM Require Import Model.C15_ArgCheck.\n"
              "Import ListNotations.\nOpen Scope Z_scope.\n")
TAG = 1000          # the model's conversion cv adds TAG: an element is tagged iff the implementation converted it to float64
OUTS = [('sequence', 'OSequence'), ('list', 'OList'), ('array', 'OArray'), ('row', 'ORow'), ('col', 'OCol'), ('bogus', 'OBad')]
DIMS = [None, 0, 1, 2, 3, 4, 6]
EXN = {'ValueError': -1, 'TypeError': -2, 'IndexError': -3}


def model_args():
    """(python value, Coq term) for every argument form of the grid"""
    zl = lambda v: '[' + '; '.join(str(x) for x in v) + ']'
    nl = lambda v: '[' + '; '.join(f'{x}%nat' for x in v) + ']'
    A = [(7, '(Scalar 7)'), (None, 'Other'), ('abc', 'Other'), ({}, 'Other')]
    for n in range(0, 6):
        v = list(range(1, n + 1))
        A.append((list(v), f'(PyList {zl(v)})'))
        A.append((tuple(v), f'(PyTuple {zl(v)})'))
    shapes = [(n,) for n in range(6)] + [(1, n) for n in range(6)] + [(n, 1) for n in range(6)] + \
             [(2, 2), (2, 3), (3, 2), (0, 3), (3, 0), (0, 0), (), (1, 1, 3), (1, 3, 1), (3, 1, 1), (2, 1, 2), (1, 1, 1), (0, 1, 2)]
    for sh in shapes:
        n = int(np.prod(sh)) if sh else 1
        v = list(range(1, n + 1))
        A.append((np.array(v, dtype=np.int64).reshape(sh), f'(Nd {nl(sh)} {zl(v)})'))
    return A


def enc_elem(x):
    return int(x) + TAG if isinstance(x, (float, np.floating)) else int(x)


def enc_impl(f, *a, **k):
    try:
        r = f(*a, **k)
    except Exception as ex:
        return [EXN.get(type(ex).__name__, -99)], type(ex).__name__
    if isinstance(r, (bool, np.bool_)):
        return [1 if r else 0], repr(r)
    if isinstance(r, list):
        return [1] + [enc_elem(x) for x in r], repr(r)
    if isinstance(r, tuple):
        return [2] + [enc_elem(x) for x in r], repr(r)
    if isinstance(r, np.ndarray) and r.ndim == 1:
        return [3] + [enc_elem(x) for x in r], repr(r)
    if isinstance(r, np.ndarray) and r.ndim == 2:
        return [4, r.shape[0], r.shape[1]] + [enc_elem(x) for x in r.flatten()], repr(r)
    return [-98], repr(r)


def model_corr(ctx):
    import re
    args = model_args()
    terms, impl = [], []
    for pv, ct in args:
        for d in DIMS:
            cd = 'None' if d is None else f'(Some {d}%nat)'
            for po, co in OUTS:
                terms.append(f'enc_gv (getvector (fun x => x + {TAG}) {ct} {cd} {co})')
                impl.append(('getvector', repr(pv), d, po, enc_impl(base.getvector, pv, d, po)))
            terms.append(f'enc_iv (isvector {ct} {cd})')
            impl.append(('isvector', repr(pv), d, None, enc_impl(base.isvector, pv, d)))
    vals = ctx.coq_eval(COQ_HEADER, terms, name='argcheck', chunk=1200)
    ctx.corr['functions'] += 2
    for t, v, (fn, pv, d, po, (enc, shown)) in zip(terms, vals, impl):
        got = [int(x) for x in re.findall(r'-?\d+', v)]
        ctx.corr['cases'] += 1
        ctx.case(('model', fn, pv, d, po))
        if got != enc:
            ctx.corr['disagreements'] += 1
            ctx.fail(f'corr:model:{fn}', f"hand model and implementation disagree: {fn}({pv}, dim={d}" + (f", out={po!r})" if po else ")") +
                     f" gives {shown} (encoded {enc}); model {t} = {got}",
                     {'function': fn, 'arg': pv, 'dim': d, 'out': po, 'impl': enc, 'model': got, 'term': t})
    ctx.sample({'kind': 'model-correspondence', 'term': terms[2], 'model': vals[2], 'impl': impl[2][4][0]})


def run(ctx):
    ctx.rule = ("obligations: theorems of theories/Props/C15.v (hand model of argcheck, all lists) and Props/C15_units.v "
                "(traces regenerated from /repo); evaluations: model-vs-implementation grid cells (getvector/isvector), "
                "Sym==Num cases, and the differential table run: entry x container form x length 0..8 x int/float (+ random "
                "float vectors), unit deg/rad, order names/aliases/misspellings, scalar-vs-packed call forms; a case is "
                "distinct by (entry, form, length, values)")
    ctx.trusted_extra = ["hand model Model/C15_ArgCheck.v of argcheck.getvector/isvector (tied by the exhaustive grid of model_corr, vm_compute)",
                         "the table of props/C15.py (which parameter is the vector and which lengths it accepts) is hand-maintained",
                         "tracing patch: math.pi is the symbol pi while tracing (pi_f of the ops record)"]
    with ctx.timed('regenerate'):
        g = build(ctx)
        path = ctx.write_gen(MOD + '.v', g.coq_text())
    rc, out, err, dt = ctx.coqc(path)
    gen_ok = rc == 0
    if not gen_ok:
        ctx.fail('gen:compile', 'generated traces do not compile: ' + err[-800:], no_input=True)
    ctx.prove('theories/Props/C15.v')
    if gen_ok:
        ctx.prove('theories/Props/C15_units.v')
        ctx.prove('theories/Props/C15_forms.v')
    with ctx.timed('correspond:model'):
        model_corr(ctx)
    if gen_ok:
        with ctx.timed('correspond:traces'):
            sym_num(ctx, g, MOD, ctx.n(6, 60))
    with ctx.timed('oracle:table'):
        diff_run(ctx)
    with ctx.timed('oracle:units-orders-callforms'):
        unit_order_run(ctx)
    with ctx.timed('oracle:multi-valued'):
        multi_run(ctx)
    ctx.stats['table:entries'] = len(table())
    ctx.stats['traces'] = len(g.traces)
    for nm, why in g.failed:
        ctx.notes.append(f'trace {nm} could not be generated ({why[:120]}): the theorems that mention it are broken obligations')


if __name__ == '__main__':
    import collections
    from lib.core import Ctx
    ctx = Ctx('C15')
    seen = collections.OrderedDict()

    def rep(key, what, replay, **k):
        seen.setdefault(key, []).append(what)
    diff_run(ctx, report=rep)
    unit_order_run(ctx, report=rep)
    multi_run(ctx, report=rep)
    for k, v in seen.items():
        print(f"{k}  [{len(v)}]\n      {v[0][:260]}")
    print(len(seen), 'keys;', ctx.evaluations, 'cells')
