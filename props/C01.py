"""C01 -- closure: every constructed or composed value is a valid group member."""
import math
import numpy as np
import sympy
from lib import concolic
from lib.symtrace import Gen, coq_expr, coq_type, input_pattern, sym_input
from lib.corr import sym_num
from lib.gens import log_uniform, rand_unit, angle as gen_angle, signed_mag, rot_from_axis_angle

concolic.install()
from spatialmath import base, SO2, SE2, SO3, SE3, UnitQuaternion  # noqa: E402

MOD = 'Traces_C01'
ORDERS = ['zyx', 'xyz', 'yxz', 'vehicle', 'arm', 'camera']


# --------------------------------------------------------------------------- concolic traces with path conditions
class PathGen(Gen):
    """Gen + concolic traces: the library runs on symbols, comparisons are decided under a shadow valuation and
    recorded; the recorded atoms are emitted as  pc_<name> : Prop  (generic over the ops record)."""

    def __init__(self, prop):
        super().__init__(prop)
        self.pcs = []          # (name, inputs, [coq atom])
        self.extra_imports = ""   # e.g. fixed model files the wrappers below refer to
        self.extra_defs = ""      # generated wrapper definitions around hand models (constants regenerated from the source)

    def trace(self, name, inputs, fn, **kw):
        # a function that can no longer be executed on symbols must not abort the whole check: the failure is recorded
        # (run() reports gen:trace:<name>), the theorems about that trace stop compiling, and the oracle still runs
        kw['optional'] = True
        t = super().trace(name, inputs, fn, **kw)
        if t is not None and ' O' not in t.term:
            # a definition that does no arithmetic would not be abstracted over the section variable O
            t.term = "let _ := zero O in\n  " + t.term
        return t

    def ctrace(self, name, inputs, fn, val, **kw):
        concolic.VAL.clear()
        for (an, sh), v in zip(inputs, val):
            _, syms = sym_input(an, sh)
            for s, x in zip(syms, np.asarray(v, dtype=float).flatten()):
                concolic.VAL[s] = float(x)
        concolic.PATH.clear()
        try:
            t = self.trace(name, inputs, fn, **kw)
        finally:
            path = list(concolic.PATH)
            concolic.PATH.clear()
            concolic.VAL.clear()
        if t is None:
            return None
        atoms, seen = [], set()
        for rel, truth in path:
            a = rel_atom(rel, truth)
            if a not in seen:
                seen.add(a)
                atoms.append(a)
        self.pcs.append((name, inputs, atoms))
        return t

    def coq_text(self):
        out = [super().coq_text().replace("From SM Require Import Base.Ops.\n", "From SM Require Import Base.Ops.\n" + self.extra_imports, 1),
               "\nSection PathConditions.\nContext {T : Type} (O : ops T).\n",
               'Local Infix "+" := (add O). Local Infix "-" := (sub O). Local Infix "*" := (mul O). Local Infix "/" := (div O).\n']
        for name, inputs, atoms in self.pcs:
            binders = " ".join(f"({an} : {coq_type(sh)})" for an, sh in inputs)
            lets = "".join(f"  let '{input_pattern(an, sh)} := {an} in\n" for an, sh in inputs if sh != 'S')
            body = " /\\\n  ".join(atoms) if atoms else "let _ := zero O in True"
            out.append(f"Definition pc_{name} {binders} : Prop :=\n{lets}  {body}.\n\n")
        out.append("End PathConditions.\n")
        for name, _, _ in self.pcs:
            out.append(f"Arguments pc_{name} {{T}} O.\n#[export] Hint Unfold pc_{name} : smgen.\n")
        out.append(self.extra_defs)
        return "".join(out)


def rel_atom(rel, truth):
    from sympy.core.relational import StrictLessThan, LessThan, StrictGreaterThan, GreaterThan
    tv = 'true' if truth else 'false'
    l, r = coq_expr(rel.lhs), coq_expr(rel.rhs)
    if isinstance(rel, StrictLessThan):
        return f"ltb O {l} {r} = {tv}"
    if isinstance(rel, LessThan):
        return f"leb O {l} {r} = {tv}"
    if isinstance(rel, StrictGreaterThan):
        return f"ltb O {r} {l} = {tv}"
    if isinstance(rel, GreaterThan):
        return f"leb O {r} {l} = {tv}"
    raise ValueError(f"unsupported relational {rel}")


# --------------------------------------------------------------------------- samplers
def s_angle(unit='rad'):
    k = 180 / math.pi if unit == 'deg' else 1.0
    return lambda rng: [float(rng.uniform(-7, 7)) * k]


def s_angles3(unit='rad'):
    k = 180 / math.pi if unit == 'deg' else 1.0
    return lambda rng: [rng.uniform(-7, 7, size=3) * k]


def s_unitq(rng):
    return [rand_unit(rng, 4)]


def rnd_so3(rng):
    q = rand_unit(rng, 4)
    s, x, y, z = q
    return np.array([[1 - 2 * (y * y + z * z), 2 * (x * y - s * z), 2 * (x * z + s * y)],
                     [2 * (x * y + s * z), 1 - 2 * (x * x + z * z), 2 * (y * z - s * x)],
                     [2 * (x * z - s * y), 2 * (y * z + s * x), 1 - 2 * (x * x + y * y)]])


def rnd_se3(rng):
    T = np.eye(4)
    T[:3, :3] = rnd_so3(rng)
    T[:3, 3] = rng.normal(size=3) * 3
    return T


def rnd_so2(rng):
    a = rng.uniform(-4, 4)
    return np.array([[math.cos(a), -math.sin(a)], [math.sin(a), math.cos(a)]])


def rnd_se2(rng):
    T = np.eye(3)
    T[:2, :2] = rnd_so2(rng)
    T[:2, 2] = rng.normal(size=2) * 3
    return T


def with_uniform(u, f):
    """run f() with np.random.uniform handing out the given variates in order (symbols or floats):
    rand() / Rand() as a function of their uniform variates"""
    saved = np.random.uniform
    u = list(np.asarray(u, dtype=object).flatten())
    pos = [0]

    def uniform(low=0, high=1, size=None):
        n = 1 if size is None else int(size)
        vals = u[pos[0]:pos[0] + n]
        pos[0] += n
        if len(vals) != n:
            raise ValueError('with_uniform: more variates requested than supplied')
        arr = np.array([low + (high - low) * x for x in vals], dtype=object if any(isinstance(x, sympy.Expr) for x in vals) else float)
        return arr[0] if size is None else arr
    np.random.uniform = uniform
    try:
        return f()
    finally:
        np.random.uniform = saved


# --------------------------------------------------------------------------- the model: traces of the real code
def build(ctx):
    g = PathGen('C01')
    UQ = lambda q: UnitQuaternion(q, norm=False, check=False)
    # ---- base, polynomial constructors: every unit / order option is a separate trace
    for u in ('rad', 'deg'):
        for ax in 'xyz':
            g.trace(f'tr_rot{ax}_{u}', [('a', 'S')], (lambda ax, u: lambda a: getattr(base, 'rot' + ax)(a, u))(ax, u), sampler=s_angle(u))
            g.trace(f'tr_trot{ax}_{u}', [('a', 'S'), ('t', 'V3')],
                    (lambda ax, u: lambda a, t: getattr(base, 'trot' + ax)(a, u, t=t))(ax, u),
                    sampler=(lambda u: lambda rng: s_angle(u)(rng) + [rng.normal(size=3) * 10])(u))
        g.trace(f'tr_rot2_{u}', [('a', 'S')], (lambda u: lambda a: base.rot2(a, u))(u), sampler=s_angle(u))
        g.trace(f'tr_trot2_{u}', [('a', 'S'), ('t', 'V2')], (lambda u: lambda a, t: base.trot2(a, u, t=t))(u),
                sampler=(lambda u: lambda rng: s_angle(u)(rng) + [rng.normal(size=2) * 10])(u))
        g.trace(f'tr_xyt2tr_{u}', [('p', 'V3')], (lambda u: lambda p: base.xyt2tr(p, u))(u))
        for o in ORDERS:
            g.trace(f'tr_rpy2r_{o}_{u}', [('a', 'V3')], (lambda o, u: lambda a: base.rpy2r(a, order=o, unit=u))(o, u), sampler=s_angles3(u))
            g.trace(f'tr_rpy2tr_{o}_{u}', [('a', 'V3')], (lambda o, u: lambda a: base.rpy2tr(a, order=o, unit=u))(o, u), sampler=s_angles3(u))
        g.trace(f'tr_eul2r_{u}', [('a', 'V3')], (lambda u: lambda a: base.eul2r(a, unit=u))(u), sampler=s_angles3(u))
        g.trace(f'tr_eul2tr_{u}', [('a', 'V3')], (lambda u: lambda a: base.eul2tr(a, unit=u))(u), sampler=s_angles3(u))
    g.trace('tr_rpy2r_scalars', [('r', 'S'), ('p', 'S'), ('y', 'S')], lambda r, p, y: base.rpy2r(r, p, y))
    g.trace('tr_transl', [('t', 'V3')], base.transl)
    g.trace('tr_transl_xyz', [('x', 'S'), ('y', 'S'), ('z', 'S')], base.transl)
    with concolic.object_alloc():
        g.trace('tr_transl2', [('t', 'V2')], base.transl2)
        g.trace('tr_rt2tr', [('R', 'M33'), ('t', 'V3')], base.rt2tr)
        g.trace('tr_rt2tr2', [('R', 'M22'), ('t', 'V2')], base.rt2tr)
    g.trace('tr_r2t', [('R', 'M33')], base.r2t)
    g.trace('tr_r2t2', [('R', 'M22')], base.r2t)
    g.trace('tr_q2r', [('q', 'V4')], base.q2r)
    g.trace('tr_trinv', [('X', 'M44')], base.trinv)
    g.trace('tr_trinv2', [('X', 'M33')], base.trinv2)
    g.trace('tr_qqmul', [('p', 'V4'), ('q', 'V4')], base.qqmul)
    g.trace('tr_conj', [('q', 'V4')], base.conj)
    # ---- class constructors
    for u in ('rad', 'deg'):
        for ax in 'xyz':
            g.trace(f'tr_SO3_R{ax}_{u}', [('a', 'S')], (lambda ax, u: lambda a: getattr(SO3, 'R' + ax)(a, u).A)(ax, u), sampler=s_angle(u))
            g.trace(f'tr_SE3_R{ax}_{u}', [('a', 'S'), ('t', 'V3')], (lambda ax, u: lambda a, t: getattr(SE3, 'R' + ax)(a, u, t=t).A)(ax, u),
                    sampler=(lambda u: lambda rng: s_angle(u)(rng) + [rng.normal(size=3) * 10])(u))
        for o in ORDERS[:3]:
            g.trace(f'tr_SO3_RPY_{o}_{u}', [('a', 'V3')], (lambda o, u: lambda a: SO3.RPY(a, order=o, unit=u).A)(o, u), sampler=s_angles3(u))
            g.trace(f'tr_SE3_RPY_{o}_{u}', [('a', 'V3')], (lambda o, u: lambda a: SE3.RPY(a, order=o, unit=u).A)(o, u), sampler=s_angles3(u))
        g.trace(f'tr_SO3_Eul_{u}', [('a', 'V3')], (lambda u: lambda a: SO3.Eul(a, unit=u).A)(u), sampler=s_angles3(u))
        g.trace(f'tr_SE3_Eul_{u}', [('a', 'V3')], (lambda u: lambda a: SE3.Eul(a, unit=u).A)(u), sampler=s_angles3(u))
        g.trace(f'tr_SO2_{u}', [('a', 'S')], (lambda u: lambda a: SO2(a, unit=u).A)(u), sampler=s_angle(u))
        g.trace(f'tr_SE2_{u}', [('x', 'S'), ('y', 'S'), ('a', 'S')], (lambda u: lambda x, y, a: SE2(x, y, a, unit=u).A)(u),
                sampler=(lambda u: lambda rng: [float(rng.normal() * 10), float(rng.normal() * 10)] + s_angle(u)(rng))(u))
    for ax in 'xyz':
        g.trace(f'tr_SE3_T{ax}', [('d', 'S')], (lambda ax: lambda d: getattr(SE3, 'T' + ax)(d).A)(ax))
    g.trace('tr_SE3_xyz', [('x', 'S'), ('y', 'S'), ('z', 'S')], lambda x, y, z: SE3(x, y, z).A)
    g.trace('tr_SE3_vec', [('t', 'V3')], lambda t: SE3(t).A)
    with concolic.object_alloc():
        g.trace('tr_SE2_xy', [('x', 'S'), ('y', 'S')], lambda x, y: SE2(x, y).A)
    # ---- operators through the classes (operands: arbitrary matrices handed over with check=False)
    S3, E3, S2, E2 = (lambda X: SO3(X, check=False)), (lambda X: SE3(X, check=False)), (lambda X: SO2(X, check=False)), (lambda X: SE2(X, check=False))
    g.trace('tr_SO3_mul', [('X', 'M33'), ('Y', 'M33')], lambda X, Y: (S3(X) * S3(Y)).A, sampler=lambda rng: [rnd_so3(rng), rnd_so3(rng)])
    g.trace('tr_SO3_div', [('X', 'M33'), ('Y', 'M33')], lambda X, Y: (S3(X) / S3(Y)).A, sampler=lambda rng: [rnd_so3(rng), rnd_so3(rng)])
    g.trace('tr_SO3_inv', [('X', 'M33')], lambda X: S3(X).inv().A, sampler=lambda rng: [rnd_so3(rng)])
    g.trace('tr_SE3_mul', [('X', 'M44'), ('Y', 'M44')], lambda X, Y: (E3(X) * E3(Y)).A, sampler=lambda rng: [rnd_se3(rng), rnd_se3(rng)])
    g.trace('tr_SE3_div', [('X', 'M44'), ('Y', 'M44')], lambda X, Y: (E3(X) / E3(Y)).A, sampler=lambda rng: [rnd_se3(rng), rnd_se3(rng)])
    g.trace('tr_SE3_inv', [('X', 'M44')], lambda X: E3(X).inv().A, sampler=lambda rng: [rnd_se3(rng)])
    g.trace('tr_SO2_mul', [('X', 'M22'), ('Y', 'M22')], lambda X, Y: (S2(X) * S2(Y)).A, sampler=lambda rng: [rnd_so2(rng), rnd_so2(rng)])
    g.trace('tr_SE2_mul', [('X', 'M33'), ('Y', 'M33')], lambda X, Y: (E2(X) * E2(Y)).A, sampler=lambda rng: [rnd_se2(rng), rnd_se2(rng)])
    # the in-place forms X *= Y, X /= Y through the classes (they must be the binary operators)
    def ip(cls_, op):
        def f(X, Y):
            x = cls_(X)
            if op == '*':
                x *= cls_(Y)
            else:
                x /= cls_(Y)
            return x.A
        return f
    g.trace('tr_SO3_imul', [('X', 'M33'), ('Y', 'M33')], ip(S3, '*'), sampler=lambda rng: [rnd_so3(rng), rnd_so3(rng)])
    g.trace('tr_SO3_idiv', [('X', 'M33'), ('Y', 'M33')], ip(S3, '/'), sampler=lambda rng: [rnd_so3(rng), rnd_so3(rng)])
    g.trace('tr_SE3_imul', [('X', 'M44'), ('Y', 'M44')], ip(E3, '*'), sampler=lambda rng: [rnd_se3(rng), rnd_se3(rng)])
    g.trace('tr_SE3_idiv', [('X', 'M44'), ('Y', 'M44')], ip(E3, '/'), sampler=lambda rng: [rnd_se3(rng), rnd_se3(rng)])
    g.trace('tr_SO2_imul', [('X', 'M22'), ('Y', 'M22')], ip(S2, '*'), sampler=lambda rng: [rnd_so2(rng), rnd_so2(rng)])
    g.trace('tr_SE2_imul', [('X', 'M33'), ('Y', 'M33')], ip(E2, '*'), sampler=lambda rng: [rnd_se2(rng), rnd_se2(rng)])
    with concolic.object_alloc():
        g.trace('tr_SE2_idiv', [('X', 'M33'), ('Y', 'M33')], ip(E2, '/'), sampler=lambda rng: [rnd_se2(rng), rnd_se2(rng)])
    # SO2.inv / SE2.inv build their result with check=False since fix 1c511ed: traceable like the 3-D ones
    g.trace('tr_SO2_inv', [('X', 'M22')], lambda X: S2(X).inv().A, sampler=lambda rng: [rnd_so2(rng)])
    g.trace('tr_SO2_div', [('X', 'M22'), ('Y', 'M22')], lambda X, Y: (S2(X) / S2(Y)).A, sampler=lambda rng: [rnd_so2(rng), rnd_so2(rng)])
    with concolic.object_alloc():
        g.trace('tr_SE2_inv', [('X', 'M33')], lambda X: E2(X).inv().A, sampler=lambda rng: [rnd_se2(rng)])
        g.trace('tr_SE2_div', [('X', 'M33'), ('Y', 'M33')], lambda X, Y: (E2(X) / E2(Y)).A, sampler=lambda rng: [rnd_se2(rng), rnd_se2(rng)])
    for n in (-1, -2, -3):
        g.trace(f'tr_SO3_powm{-n}', [('X', 'M33')], (lambda n: lambda X: (S3(X) ** n).A)(n), sampler=lambda rng: [rnd_so3(rng)], tol=1e-9)
        g.trace(f'tr_SE3_powm{-n}', [('X', 'M44')], (lambda n: lambda X: (E3(X) ** n).A)(n), sampler=lambda rng: [rnd_se3(rng)], tol=1e-9)
    with concolic.object_alloc():
        g.trace('tr_SE2_powm2', [('X', 'M33')], lambda X: (E2(X) ** -2).A, sampler=lambda rng: [rnd_se2(rng)], tol=1e-9)
    g.trace('tr_SO2_powm2', [('X', 'M22')], lambda X: (S2(X) ** -2).A, sampler=lambda rng: [rnd_so2(rng)], tol=1e-9)
    for n in (0, 1, 2, 3):
        g.trace(f'tr_SO3_pow{n}', [('X', 'M33')], (lambda n: lambda X: (S3(X) ** n).A)(n), sampler=lambda rng: [rnd_so3(rng)], tol=1e-9)
        g.trace(f'tr_SE3_pow{n}', [('X', 'M44')], (lambda n: lambda X: (E3(X) ** n).A)(n), sampler=lambda rng: [rnd_se3(rng)], tol=1e-9)
    build_sqrt(g)
    build_interp(g, ctx)
    return g


def slerp_threshold(ctx):
    """T-const: the small-angle test of base.slerp must be `abs(theta) > K * _eps` (then: return q0); K is regenerated.
    Fail-closed: any other shape of the test is reported (the hand model of C11_Interp.v then no longer mirrors the code)."""
    import ast
    import inspect
    src = inspect.getsource(base.slerp)
    tests = [ast.unparse(n.test) for n in ast.walk(ast.parse(src)) if isinstance(n, ast.If)]
    import re
    for t in tests:
        m = re.fullmatch(r'abs\(theta\) > (\d+) \* _eps', t)
        if m:
            return int(m.group(1))
    # restructured slerp (renamed local, test hoisted into a helper): the threshold multiset of slerp and of the same-module helpers
    # it calls must be the recorded one (lib/tsoft.py, baseline shared with C11) -- then K is read from it
    from lib import tsoft
    from lib.core import REPO
    same, found, _b = tsoft.same_thresholds(REPO, 'C11', 'spatialmath/base/quaternions.py', 'slerp', {'unit', 'r2q', 'isunitvec', 'trinterp', 'UnitQuaternion.interp', 'interp'})
    ks = [m for m in (re.fullmatch(r'cmp Gt (\d+)\*eps', t) for t in (found or [])) if m]
    if same and len(ks) == 1:
        if ctx is not None:
            ctx.notes.append("base.slerp restructured; small-angle threshold read from the threshold multiset of slerp + helpers (unchanged)")
        return int(ks[0].group(1))
    if ctx is not None:
        ctx.fail('gen:slerp-skeleton', "base.slerp: the small-angle test is no longer `abs(theta) > K * _eps` "
                 f"(tests found: {tests}); the slerp model of Model/C11_Interp.v used by C01_interp.v does not mirror the code", no_input=True)
    return 10


def s_slerp(rng, flip=True):
    """unit pair with relative quaternion angle 0, 1e-13..1e-11 (small-angle branch), log-uniform 3e-6 .. 3, s grid"""
    q0 = rand_unit(rng, 4)
    # not in (1e-11, 3e-6): there theta = acos(dot) is rounding-dominated (dot = 1 - theta^2/2 within a few ulp of 1), and the
    # model's and NumPy's dot products may round differently (C11 uses the same bands)
    th = float(rng.choice([0.0, log_uniform(rng, 1e-13, 1e-11), log_uniform(rng, 3e-6, 3.0), log_uniform(rng, 1e-5, 0.2), rng.uniform(0, 3.0)]))
    q1 = hamilton(q0, np.r_[math.cos(th), math.sin(th) * rand_unit(rng)])
    if flip and rng.random() < 0.3:
        # the other sign of q1: only with shortest=True (the long way round between nearly antipodal quaternions divides by
        # sin(theta) ~ 0: rounding-dominated, C11's near-antipodal band, not a correspondence question)
        q1 = -q1
    return [q0, q1, float(rng.choice([0.0, 1.0, 0.5, rng.uniform(0, 1), rng.uniform(0, 1), rng.uniform(0, 1)]))]


def build_interp(g, ctx):
    """interpolation: the hand model of base.slerp (Model/C11_Interp.v, fixed file owned by C11; the closure theorems of
    Props/C01_interp.v are stated on it) with the threshold regenerated from the source, tied by T-num on every run"""
    K = slerp_threshold(ctx)
    g.extra_imports = "From SM Require Import Base.Lin Model.C11_Interp.\n"
    g.extra_defs = (f"\n(* wrappers around the hand model Model/C11_Interp.v:slerp; slerp_k01 is read from the AST of base.slerp *)\n"
                    f"Definition slerp_k01 : Z := {K}%Z.\n"
                    "Definition m01_slerp_long {T} (O : ops T) (p q : V4 T) (s : T) : option (V4 T) := optres (slerp O (of_Z O slerp_k01) p q s false).\n"
                    "Definition m01_slerp_short {T} (O : ops T) (p q : V4 T) (s : T) : option (V4 T) := optres (slerp O (of_Z O slerp_k01) p q s true).\n")
    inputs = [('p', 'V4'), ('q', 'V4'), ('s', 'S')]
    g.model('m01_slerp_long', inputs, 'O:V4', coq='m01_slerp_long', module='Model.C11_Interp',
            num_fn=lambda p, q, s: base.slerp(p, q, s, shortest=False), sampler=lambda rng: s_slerp(rng, False), tol=1e-9)
    g.model('m01_slerp_short', inputs, 'O:V4', coq='m01_slerp_short', module='Model.C11_Interp',
            num_fn=lambda p, q, s: base.slerp(p, q, s, shortest=True), sampler=s_slerp, tol=1e-9)


def uq_raw(q):
    """a UnitQuaternion holding exactly the given 4-vector (operand of the operator traces)"""
    x = UnitQuaternion()
    x.data = [np.asarray(q)]
    return x


V_AX, V_O, V_A = [0.3, -0.5, 0.7], [0.3, -0.5, 0.7], [1.0, 0.2, 0.1]
V_Q, V_P = [0.5, -0.5, 0.5, 0.5], [0.1, 0.7, -0.7, 0.1]


def s_axis(rng):
    return rand_unit(rng) * log_uniform(rng, 1e-3, 1e3)


def build_sqrt(g):
    """sqrt-carrying constructors, traced concolically on the generic path; the path condition is emitted as pc_<name>"""
    AV = [('th', 'S'), ('v', 'V3')]
    s_av = lambda rng: [float(rng.uniform(-7, 7)), s_axis(rng)]
    s_avd = lambda rng: [float(rng.uniform(-400, 400)), s_axis(rng)]
    g.ctrace('tr_angvec2r_rad', AV, base.angvec2r, [0.4, V_AX], sampler=s_av)
    g.ctrace('tr_angvec2r_deg', AV, lambda th, v: base.angvec2r(th, v, unit='deg'), [0.4, V_AX], sampler=s_avd)
    g.ctrace('tr_angvec2r_zero', AV, base.angvec2r, [0.4, [0, 0, 0]], sampler=lambda rng: [float(rng.uniform(-7, 7)), np.zeros(3)])
    g.ctrace('tr_angvec2tr_rad', AV, base.angvec2tr, [0.4, V_AX], sampler=s_av)
    g.ctrace('tr_SO3_AngVec_rad', AV, lambda th, v: SO3.AngVec(th, v).A, [0.4, V_AX], sampler=s_av)
    g.ctrace('tr_SO3_AngVec_deg', AV, lambda th, v: SO3.AngVec(th, v, unit='deg').A, [0.4, V_AX], sampler=s_avd)
    g.ctrace('tr_SE3_AngVec_rad', AV, lambda th, v: SE3.AngVec(th, v).A, [0.4, V_AX], sampler=s_av)
    g.ctrace('tr_SE3_AngVec_deg', AV, lambda th, v: SE3.AngVec(th, v, unit='deg').A, [0.4, V_AX], sampler=s_avd)
    s_w = lambda rng: [rand_unit(rng) * log_uniform(rng, 1e-3, 7)]
    g.ctrace('tr_SO3_EulerVec', [('w', 'V3')], lambda w: SO3.EulerVec(w).A, [V_AX], sampler=s_w)
    g.ctrace('tr_SE3_EulerVec', [('w', 'V3')], lambda w: SE3.EulerVec(w).A, [V_AX], sampler=s_w)
    g.ctrace('tr_rodrigues', [('w', 'V3')], base.rodrigues, [V_AX], sampler=s_w)
    g.ctrace('tr_rodrigues_th', [('w', 'V3'), ('th', 'S')], base.rodrigues, [V_AX, 0.3],
             sampler=lambda rng: [rand_unit(rng), float(rng.uniform(-7, 7))])
    g.ctrace('tr_trexp3', [('w', 'V3')], base.trexp, [V_AX], sampler=s_w)
    g.ctrace('tr_SO3_Exp', [('w', 'V3')], lambda w: SO3.Exp(w).A, [V_AX], sampler=s_w)
    with concolic.object_alloc():
        g.ctrace('tr_SE3_Exp', [('S', 'V6')], lambda S: SE3.Exp(S).A, [[1, 2, 3] + V_AX],
                 sampler=lambda rng: [np.r_[rng.normal(size=3) * 3, s_w(rng)[0]]], tol=1e-10)
    # two-vector frames
    OA = [('o', 'V3'), ('a', 'V3')]
    s_oa = lambda rng: [s_axis(rng), s_axis(rng)]
    g.ctrace('tr_oa2r', OA, base.oa2r, [V_O, V_A], sampler=s_oa)
    g.ctrace('tr_oa2tr', OA, base.oa2tr, [V_O, V_A], sampler=s_oa)
    g.ctrace('tr_SO3_OA', OA, lambda o, a: SO3.OA(o, a).A, [V_O, V_A], sampler=s_oa)
    g.ctrace('tr_SE3_OA', OA, lambda o, a: SE3.OA(o, a).A, [V_O, V_A], sampler=s_oa)
    s_near = lambda rng: [rnd_so3(rng) + rng.normal(size=(3, 3)) * 0.05]
    g.ctrace('tr_trnorm3', [('R', 'M33')], base.trnorm, [np.eye(3) + 0.01], sampler=s_near)

    def s_near4(rng):
        T = rnd_se3(rng)
        T[:3, :3] += rng.normal(size=(3, 3)) * 0.05
        return [T]
    with concolic.object_alloc():
        g.ctrace('tr_trnorm4', [('X', 'M44')], base.trnorm, [np.eye(4) + 0.01], sampler=s_near4)
    # 2-D normalisation (base.trnorm2 exists since fix 7bb8ca6; SO2.norm()/SE2.norm() call it): keeps the direction of the 2nd column
    g.ctrace('tr_trnorm2_so2', [('X', 'M22')], base.trnorm2, [np.eye(2) + 0.01], sampler=lambda rng: [rnd_so2(rng) + rng.normal(size=(2, 2)) * 0.05])

    def s_near3(rng):
        T = rnd_se2(rng)
        T[:2, :2] += rng.normal(size=(2, 2)) * 0.05
        return [T]
    with concolic.object_alloc():
        g.ctrace('tr_trnorm2_se2', [('X', 'M33')], base.trnorm2, [np.eye(3) + 0.01], sampler=s_near3)
    # unit quaternions
    s_q = lambda rng: [rng.normal(size=4) * log_uniform(rng, 1e-3, 1e3)]
    g.ctrace('tr_unit', [('q', 'V4')], base.unit, [[1, 2, 3, 4]], sampler=s_q)
    g.ctrace('tr_UQ_sv', [('s', 'S'), ('v', 'V3')], lambda s, v: UnitQuaternion(s, v).vec, [1, V_AX],
             sampler=lambda rng: [float(rng.normal()), rng.normal(size=3) * log_uniform(rng, 1e-3, 1e3)])
    g.ctrace('tr_UQ_list', [('q', 'V4')], lambda q: UnitQuaternion(list(q)).vec, [[1, 2, 3, 4]], sampler=s_q)
    # the ndarray form is normalised like the list form since fix d0fc1b2 (it raised IndexError for a non-unit vector)
    g.ctrace('tr_UQ_vec', [('q', 'V4')], lambda q: UnitQuaternion(q).vec, [[1, 2, 3, 4]], sampler=s_q)
    for u in ('rad', 'deg'):
        for ax in 'xyz':
            g.ctrace(f'tr_UQ_R{ax}_{u}', [('a', 'S')], (lambda ax, u: lambda a: getattr(UnitQuaternion, 'R' + ax)(a, u).vec)(ax, u), [0.3],
                     sampler=s_angle(u))
        g.ctrace(f'tr_UQ_AngVec_{u}', AV, (lambda u: lambda th, v: UnitQuaternion.AngVec(th, v, unit=u).vec)(u), [0.4, V_AX],
                 sampler=(lambda u: lambda rng: s_angle(u)(rng) + [s_axis(rng)])(u))
    g.ctrace('tr_UQ_AngVec_zero', AV, lambda th, v: UnitQuaternion.AngVec(th, v).vec, [0.4, [0, 0, 0]],
             sampler=lambda rng: [float(rng.uniform(-7, 7)), np.zeros(3)])
    g.ctrace('tr_UQ_EulerVec', [('w', 'V3')], lambda w: UnitQuaternion.EulerVec(w).vec, [V_AX], sampler=s_w)
    PQ = [('p', 'V4'), ('q', 'V4')]
    s_pq = lambda rng: [rand_unit(rng, 4), rand_unit(rng, 4)]
    g.ctrace('tr_UQ_mul', PQ, lambda p, q: (uq_raw(p) * uq_raw(q)).vec, [V_P, V_Q], sampler=s_pq)
    g.ctrace('tr_UQ_div', PQ, lambda p, q: (uq_raw(p) / uq_raw(q)).vec, [V_P, V_Q], sampler=s_pq)
    g.ctrace('tr_UQ_inv', [('q', 'V4')], lambda q: uq_raw(q).inv().vec, [V_Q], sampler=s_unitq)
    for n in (0, 1, 2, 3, -1, -2):
        g.ctrace(f"tr_UQ_pow{'m' if n < 0 else ''}{abs(n)}", [('q', 'V4')], (lambda n: lambda q: (uq_raw(q) ** n).vec)(n), [V_Q], sampler=s_unitq)
    # random members as functions of their uniform variates
    s_u3 = lambda rng: [rng.uniform(0, 1, size=3)]
    g.ctrace('tr_rand', [('u', 'V3')], lambda u: with_uniform(u, base.rand), [[.2, .3, .4]], sampler=s_u3)
    g.ctrace('tr_UQ_Rand', [('u', 'V3')], lambda u: with_uniform(u, lambda: UnitQuaternion.Rand().vec), [[.2, .3, .4]], sampler=s_u3)
    g.ctrace('tr_SO3_Rand', [('u', 'V3')], lambda u: with_uniform(u, lambda: SO3.Rand().A), [[.2, .3, .4]], sampler=s_u3)
    # SE3.Rand iterates an SO3 object: __getitem__ re-validates numerically (np.linalg.det), not traceable; oracle only


# --------------------------------------------------------------------------- oracle on the implementation (L-impl)
TOL = 1e-9


def hexl(x):
    return [float(v).hex() for v in np.asarray(x, dtype=float).flatten()]


class Oracle:
    def __init__(self, ctx):
        self.ctx, self.rng = ctx, ctx.rng

    # ---- validity residuals (independent of the library: NumPy only)
    def res_R(self, R):
        R = np.asarray(R, dtype=float)
        n = R.shape[0]
        if R.shape != (n, n) or not np.all(np.isfinite(R)):
            return float('inf')
        return max(float(np.max(np.abs(R @ R.T - np.eye(n)))), abs(float(np.linalg.det(R)) - 1.0))

    def check_value(self, kind, x):
        """returns (residual, problem-or-None) for one element; kind in R2 R3 T2 T3 Q"""
        if x is None:
            return float('inf'), 'element-is-None'
        try:
            a = np.asarray(x, dtype=float)
        except Exception:
            return float('inf'), 'not-numeric'
        if kind == 'Q':
            if a.shape != (4,):
                return float('inf'), 'element-not-a-4-vector'
            r = abs(float(np.linalg.norm(a)) - 1.0)
            return r, None if r <= TOL else 'non-unit-norm'
        n = {'R2': 2, 'R3': 3, 'T2': 3, 'T3': 4}[kind]
        if a.shape != (n, n):
            return float('inf'), 'shape'
        if kind[0] == 'R':
            r = self.res_R(a)
            return r, None if r <= TOL else 'not-orthonormal'
        r = self.res_R(a[:n - 1, :n - 1])
        last = np.zeros(n)
        last[-1] = 1.0
        if not np.array_equal(a[n - 1, :], last):
            return max(r, 1.0), 'last-row'
        return r, None if r <= TOL else 'not-orthonormal'

    def check(self, site, kind, value, inputs, multi=False):
        """site: stable name of constructor/operator x option; value: one element or a list of elements"""
        ctx = self.ctx
        elems = list(value) if multi else [value]
        ctx.count('oracle:' + site)
        for k, e in enumerate(elems):
            r, prob = self.check_value(kind, e)
            ctx.case((site, k, tuple(hexl(inputs))[:12]))
            w = 'worst:' + site.split(':')[0]
            ctx.stats[w] = max(ctx.stats.get(w, 0.0), r if np.isfinite(r) else 1e300)
            if prob:
                ctx.fail(f'oracle:{site}:{prob}', f"{site}: returned value is not a valid member ({prob}, residual {r:.3g}; element {k} of {len(elems)})",
                         {'site': site, 'element': k, 'inputs_hex': hexl(inputs), 'inputs': np.asarray(inputs, dtype=float).flatten().tolist(),
                          'value': np.asarray(e, dtype=float).tolist() if prob != 'not-numeric' else repr(e), 'residual': r})

    GAP = 'oracle:tiny-rotation-vector:raises-below-100eps'    # repaired by d900630: kept as a classifier, no known entry matches it

    def call(self, site, kind, fn, inputs, multi=False, tiny=None):
        """tiny: magnitude of the rotation vector handed to an exponential-coordinate constructor (Exp, EulerVec, trexp):
        a TypeError for a magnitude <= 100 eps is unitvec's None (returned up to 100 eps) not being handled: the gap above
        iszerovec's 10 eps in rodrigues / angvec2r, and no zero test at all in UnitQuaternion.EulerVec"""
        try:
            v = fn()
        except Exception as ex:  # a constructor / operator that raises on a valid input returns no member at all
            self.ctx.count('oracle:' + site)
            rep = {'site': site, 'inputs_hex': hexl(inputs), 'inputs': np.asarray(inputs, dtype=float).flatten().tolist()}
            if tiny is not None and tiny <= 2.3e-14 and isinstance(ex, TypeError):
                self.ctx.fail(self.GAP, f"{site} raises TypeError ({str(ex)[:80]}) in {raise_site(ex)} for a rotation vector of magnitude {tiny:.3g}: "
                              "iszerovec treats < 10 eps as zero, unitvec returns None up to 100 eps", rep)
                return None
            self.ctx.fail(f'oracle:raises:{raise_site(ex)}:{type(ex).__name__}:valid-operands',
                          f"{site} raises {type(ex).__name__} in {raise_site(ex)}: {str(ex)[:200]}", rep)
            return None
        self.check(site, kind, v, inputs, multi)
        return v

    def report_raise(self, clsname, op, ex, kind, operands, replay):
        """an operator / interpolator raised on the given operands: key by root cause (see docs/C01.md)"""
        worst = max([self.check_value(k2 or kind, e)[0] for e, k2 in [(o if isinstance(o, tuple) else (o, None)) for o in operands]] + [0.0])
        grade = 'valid-operands' if worst <= TOL else 'invalid-operands'
        replay = dict(replay, op=op, operands_hex=[hexl(o[0] if isinstance(o, tuple) else o) for o in operands], operand_residual=worst)
        if isinstance(ex, OperandSpoiled):
            self.ctx.fail(f'oracle:{clsname}.{op}:operand-object-left-invalid', f"{clsname} augmented assignment {op}: after the operation the {ex} operand object "
                          "no longer holds a valid member (the operator wrote into an array it does not own)", replay)
            return
        if op == 'explog' and isinstance(ex, TypeError) and grade == 'valid-operands':
            angs = [rot_angle(o[0] if isinstance(o, tuple) else o, kind) for o in operands]
            if angs and max(angs) <= 1e-13:
                self.ctx.fail(self.GAP, f"{clsname}.Exp(X.log(twist=True)) raises TypeError in {raise_site(ex)} for a rotation of angle {max(angs):.3g}: "
                              "iszerovec treats < 10 eps as zero, unitvec returns None up to 100 eps", replay)
                return
        rej = rejected_by_constructor(ex)
        if rej is not None and grade == 'valid-operands':
            # the operator built its result and handed it to a class constructor with check=True, which refused it
            rres = max([self.check_value(kind, e)[0] for e in rej] + [0.0]) if len(rej) else float('inf')
            if rres <= TOL:
                key = 'oracle:constructor-refuses-valid-operator-result'
                what = (f"{clsname}.{op}: the result (validity residual {rres:.3g} <= 1e-9) of an operator on valid operands is "
                        f"refused by the class constructor's strict re-validation -> {type(ex).__name__}")
            else:
                key = f'oracle:{clsname}.{op}:computes-invalid-value-refused-by-constructor'
                what = f"{clsname}.{op} on valid operands computes an INVALID value (residual {rres:.3g}) which the constructor then refuses"
            self.ctx.fail(key, what, dict(replay, rejected_value=[np.asarray(e, dtype=float).tolist() for e in rej], rejected_residual=rres))
            return
        self.ctx.fail(f'oracle:raises:{raise_site(ex)}:{type(ex).__name__}:{grade}',
                      f"{clsname} operator {op} raises {type(ex).__name__} ({str(ex)[:120]}) in {raise_site(ex)} on operands whose "
                      f"validity residual is {worst:.3g}", replay)

    # ---- generators
    def ang(self, unit):
        a = gen_angle(self.rng)
        return a * 180.0 / math.pi if unit == 'deg' else a

    def axis(self):
        r = self.rng.random()
        u = np.eye(3)[self.rng.integers(3)] * self.rng.choice([-1.0, 1.0]) if r < 0.2 else rand_unit(self.rng)
        return u * log_uniform(self.rng, 1e-3, 1e6)

    def trans(self, n=3):
        if self.rng.random() < 0.1:
            return np.zeros(n)
        return rand_unit(self.rng, n) * log_uniform(self.rng, 1e-6, 1e6) if n > 1 else np.array([log_uniform(self.rng, 1e-6, 1e6)])

    def pair(self):
        """non-parallel pair, lengths in [1e-3,1e6], angle between them in [1e-3, pi-1e-3]"""
        o = rand_unit(self.rng)
        p = np.cross(o, rand_unit(self.rng))
        p /= np.linalg.norm(p)
        th = self.rng.choice([log_uniform(self.rng, 1e-3, 1.0), math.pi - log_uniform(self.rng, 1e-3, 1.0), self.rng.uniform(0.1, 3.0)])
        a = math.cos(th) * o + math.sin(th) * p
        return o * log_uniform(self.rng, 1e-3, 1e6), a * log_uniform(self.rng, 1e-3, 1e6)

    # ---- constructors x options
    def constructors(self, N):
        rng = self.rng
        for i in range(N):
            for unit in ('rad', 'deg'):
                a, t3, t2 = self.ang(unit), self.trans(3), self.trans(2)
                a3 = np.array([self.ang(unit) for _ in range(3)])
                for ax in 'xyz':
                    self.call(f'rot{ax}:{unit}', 'R3', lambda: getattr(base, 'rot' + ax)(a, unit), [a])
                    self.call(f'trot{ax}:{unit}', 'T3', lambda: getattr(base, 'trot' + ax)(a, unit, t=t3), np.r_[a, t3])
                    self.call(f'SO3.R{ax}:{unit}', 'R3', lambda: getattr(SO3, 'R' + ax)(a3, unit).data, a3, multi=True)
                    self.call(f'SE3.R{ax}:{unit}', 'T3', lambda: getattr(SE3, 'R' + ax)(a3, unit, t=t3).data, np.r_[a3, t3], multi=True)
                    self.call(f'UnitQuaternion.R{ax}:{unit}', 'Q', lambda: getattr(UnitQuaternion, 'R' + ax)(a3, unit).data, a3, multi=True)
                self.call(f'rot2:{unit}', 'R2', lambda: base.rot2(a, unit), [a])
                self.call(f'trot2:{unit}', 'T2', lambda: base.trot2(a, unit, t=t2), np.r_[a, t2])
                self.call(f'xyt2tr:{unit}', 'T2', lambda: base.xyt2tr(np.r_[t2, a], unit), np.r_[t2, a])
                self.call(f'SO2:{unit}', 'R2', lambda: SO2(a3, unit=unit).data, a3, multi=True)
                self.call(f'SE2:{unit}', 'T2', lambda: SE2(t2[0], t2[1], a, unit=unit).data, np.r_[t2, a], multi=True)
                for o in ORDERS:
                    self.call(f'rpy2r:{o}:{unit}', 'R3', lambda: base.rpy2r(a3, order=o, unit=unit), a3)
                    self.call(f'rpy2tr:{o}:{unit}', 'T3', lambda: base.rpy2tr(a3[0], a3[1], a3[2], order=o, unit=unit), a3)
                    self.call(f'SO3.RPY:{o}:{unit}', 'R3', lambda: SO3.RPY(a3, order=o, unit=unit).data, a3, multi=True)
                    self.call(f'SE3.RPY:{o}:{unit}', 'T3', lambda: SE3.RPY([a3, a3[::-1]], order=o, unit=unit).data, a3, multi=True)
                    self.call(f'UnitQuaternion.RPY:{o}:{unit}', 'Q', lambda: UnitQuaternion.RPY(a3, order=o, unit=unit).data, a3, multi=True)
                self.call(f'eul2r:{unit}', 'R3', lambda: base.eul2r(a3, unit=unit), a3)
                self.call(f'eul2tr:{unit}', 'T3', lambda: base.eul2tr(a3, unit=unit), a3)
                self.call(f'SO3.Eul:{unit}', 'R3', lambda: SO3.Eul(a3, unit=unit).data, a3, multi=True)
                self.call(f'SE3.Eul:{unit}', 'T3', lambda: SE3.Eul([a3, a3[::-1]], unit=unit).data, a3, multi=True)
                self.call(f'UnitQuaternion.Eul:{unit}', 'Q', lambda: UnitQuaternion.Eul(a3, unit=unit).data, a3, multi=True)
                self.call(f'UnitQuaternion.Eul/RPY:Nx3:{unit}', 'Q', lambda: UnitQuaternion.Eul(np.array([a3, a3[::-1]]), unit=unit).data
                          + UnitQuaternion.RPY(np.array([a3, a3[::-1]]), unit=unit).data, a3, multi=True)
                v = self.axis()
                self.call(f'angvec2r:{unit}', 'R3', lambda: base.angvec2r(a, v, unit=unit), np.r_[a, v])
                self.call(f'angvec2tr:{unit}', 'T3', lambda: base.angvec2tr(a, v, unit=unit), np.r_[a, v])
                self.call(f'SO3.AngVec:{unit}', 'R3', lambda: SO3.AngVec(a, v, unit=unit).data, np.r_[a, v], multi=True)
                self.call(f'SE3.AngVec:{unit}', 'T3', lambda: SE3.AngVec(a, v, unit=unit).data, np.r_[a, v], multi=True)
                self.call(f'UnitQuaternion.AngVec:{unit}', 'Q', lambda: UnitQuaternion.AngVec(a, v, unit=unit).data, np.r_[a, v], multi=True)
            # unit-free constructors
            dd = np.r_[rand_unit(rng) * log_uniform(rng, 1e-9, 1e-1), rand_unit(rng) * log_uniform(rng, 1e-9, 1e-1)]
            self.call('SE3.Delta', 'T3', lambda: SE3.Delta(dd).data, dd, multi=True)
            t3 = self.trans(3)
            self.call('transl', 'T3', lambda: base.transl(t3), t3)
            ki = [int(v) for v in rng.integers(-9, 10, size=3)]
            self.call('int-args', 'T3', lambda: [base.transl(ki[0], ki[1], ki[2]), base.trotx(ki[0], t=ki), base.rpy2tr(ki[0], ki[1], ki[2]), base.eul2tr(ki),
                                                  base.angvec2tr(ki[0], [1, 0, 0] if ki == [0, 0, 0] or not any(ki) else ki), base.trnorm(base.transl(ki[0], ki[1], ki[2]))]
                      + (SE3(ki[0], ki[1], ki[2]) * SE3.Rx(ki[0]) * SE3.Tx(ki[1])).data + (SE3(ki) / SE3.RPY(ki)).data + (SE3(ki[0], ki[1], ki[2]) ** -2).data
                      + SE3.Rx(ki[0], t=ki).inv().data, ki, multi=True)
            self.call('int-args:2d', 'T2', lambda: [base.transl2(ki[0], ki[1]), base.trot2(ki[0], t=ki[:2])] + (SE2(ki[0], ki[1]) * SE2(ki[0], ki[1], ki[2])).data
                      + SE2(ki[0], ki[1], ki[2]).inv().data + (SE2(ki[0], ki[1]) ** -3).data, ki, multi=True)
            self.call('transl2', 'T2', lambda: base.transl2(t3[:2]), t3[:2])
            self.call('SE3.Txyz', 'T3', lambda: SE3.Tx(t3).data + SE3.Ty(t3).data + SE3.Tz(t3).data + SE3(t3[0], t3[1], t3[2]).data + SE3(t3).data,
                      t3, multi=True)
            wm = float(rng.choice([log_uniform(rng, 1e-3, 1.0), rng.uniform(0, 7), math.pi + signed_mag(rng, 1e-12, 1e-3),
                                   2 * math.pi * rng.integers(1, 100) + rng.uniform(-3, 3), log_uniform(rng, 1e-17, 1e-3), log_uniform(rng, 2.3e-15, 2.2e-14)]))
            w = rand_unit(rng) * wm
            self.call('SO3.EulerVec', 'R3', lambda: SO3.EulerVec(w).data, w, multi=True, tiny=wm)
            self.call('SE3.EulerVec', 'T3', lambda: SE3.EulerVec(w).data, w, multi=True, tiny=wm)
            self.call('UnitQuaternion.EulerVec', 'Q', lambda: UnitQuaternion.EulerVec(w).data, w, multi=True, tiny=wm)
            self.call('trexp:so3', 'R3', lambda: base.trexp(w), w, tiny=wm)
            self.call('SO3.Exp', 'R3', lambda: SO3.Exp(w).data, w, multi=True, tiny=wm)
            S = np.r_[self.trans(3) * 1e-3, w]
            self.call('trexp:se3', 'T3', lambda: base.trexp(S), S, tiny=wm)
            self.call('SE3.Exp', 'T3', lambda: SE3.Exp(S).data, S, multi=True, tiny=wm)
            th2 = float(rng.choice([gen_angle(rng), gen_angle(rng), log_uniform(rng, 1e-17, 1e-3), log_uniform(rng, 2.3e-15, 2.2e-14)]))
            S2 = np.r_[self.trans(2) * 1e-3, th2]
            self.call('trexp2:se2', 'T2', lambda: base.trexp2(S2), S2, tiny=abs(th2))
            self.call('SE2.Exp', 'T2', lambda: SE2.Exp(S2).data, S2, multi=True, tiny=abs(th2))
            u = rand_unit(rng)
            self.call('rodrigues:unit-axis', 'R3', lambda: base.rodrigues(u, th2), np.r_[u, th2])
            o, a_ = self.pair()
            self.call('oa2r', 'R3', lambda: base.oa2r(o, a_), np.r_[o, a_])
            self.call('oa2tr', 'T3', lambda: base.oa2tr(o, a_), np.r_[o, a_])
            self.call('SO3.OA', 'R3', lambda: SO3.OA(o, a_).data, np.r_[o, a_], multi=True)
            self.call('SE3.OA', 'T3', lambda: SE3.OA(o, a_).data, np.r_[o, a_], multi=True)
            self.call('UnitQuaternion.OA', 'Q', lambda: UnitQuaternion.OA(o, a_).data, np.r_[o, a_], multi=True)
            # normalisation: perturbed members
            Rn = rnd_so3(rng) + rng.normal(size=(3, 3)) * float(rng.choice([0, 1e-12, 1e-8, 1e-4, 1e-2]))
            if rng.random() < 0.4:
                # volume-preserving loss of orthogonality (what a chain of products produces): R (I + e (E_ij + E_ji)), det = 1 - e^2
                i_, j_ = rng.choice(3, size=2, replace=False)
                Sh = np.eye(3)
                Sh[i_, j_] = Sh[j_, i_] = log_uniform(rng, 1e-12, 1e-2)
                Rn = rnd_so3(rng) @ Sh
            self.call('trnorm:3x3', 'R3', lambda: base.trnorm(Rn), Rn)
            Tn = np.eye(4)
            Tn[:3, :3], Tn[:3, 3] = Rn, self.trans(3)
            self.call('trnorm:4x4', 'T3', lambda: base.trnorm(Tn), Tn)
            self.call('SE3.norm', 'T3', lambda: SE3(Tn, check=False).norm().data, Tn, multi=True)
            self.call('SO3.norm', 'R3', lambda: SO3(Rn, check=False).norm().data, Rn, multi=True)
            R2n = rnd_so2(rng) + rng.normal(size=(2, 2)) * float(rng.choice([0, 1e-12, 1e-8, 1e-4, 1e-2]))
            if rng.random() < 0.4:
                e_ = log_uniform(rng, 1e-12, 1e-2)
                R2n = rnd_so2(rng) @ np.array([[1.0, e_], [e_, 1.0]])
            T2n = np.eye(3)
            T2n[:2, :2], T2n[:2, 2] = R2n, self.trans(2)
            self.call('trnorm2:2x2', 'R2', lambda: base.trnorm2(R2n), R2n)
            self.call('trnorm2:3x3', 'T2', lambda: base.trnorm2(T2n), T2n)
            self.call('SO2.norm', 'R2', lambda: SO2(R2n, check=False).norm().data, R2n, multi=True)
            self.call('SE2.norm', 'T2', lambda: SE2(T2n, check=False).norm().data, T2n, multi=True)
            # exponential of the logarithm / twist conversions (trlog: 84bd1d7, trlog2: c4462a7): members of every rotation
            # magnitude, incl. 1e-12..1e-1, pi - (1e-12..1e-1) and exact half-turns
            mag = float(rng.choice([0.0, math.pi, log_uniform(rng, 1e-17, 1e-1), log_uniform(rng, 2.3e-15, 2.2e-14), math.pi - log_uniform(rng, 1e-12, 1e-1),
                                    rng.uniform(0, math.pi)]))
            Rl = rot_from_axis_angle(rand_unit(rng), mag)
            Tl = np.eye(4)
            Tl[:3, :3], Tl[:3, 3] = Rl, self.trans(3) * float(rng.choice([1.0, 1e-3]))
            sg = float(rng.choice([-1.0, 1.0]))
            El = np.eye(3)
            El[:2, :2], El[:2, 2] = rot2(sg * mag), Tl[:2, 3]
            self.call('SO3.Exp(log)', 'R3', lambda: SO3.Exp(SO3(Rl, check=False).log(twist=True)).data, Rl, multi=True, tiny=mag)
            self.call('SE3.Exp(log)', 'T3', lambda: SE3.Exp(SE3(Tl, check=False).log(twist=True)).data, Tl, multi=True, tiny=mag)
            self.call('SE3.Twist3.SE3', 'T3', lambda: SE3(Tl, check=False).Twist3().SE3().data, Tl, multi=True)
            self.call('SE3.Twist3.exp', 'T3', lambda: SE3(Tl, check=False).Twist3().exp().data, Tl, multi=True)
            self.call('SO2.Exp(log)', 'R2', lambda: SO2.Exp(SO2(El[:2, :2], check=False).log(twist=True)).data, El[:2, :2], multi=True, tiny=mag)
            self.call('SE2.Exp(log)', 'T2', lambda: SE2.Exp(SE2(El, check=False).log(twist=True)).data, El, multi=True, tiny=mag)
            self.call('SE2.Twist2.SE2', 'T2', lambda: SE2(El, check=False).Twist2().SE2().data, El, multi=True)
            self.call('SE2.Twist2.exp', 'T2', lambda: SE2(El, check=False).Twist2().exp().data, El, multi=True)
            qv = rng.normal(size=4) * log_uniform(rng, 1e-3, 1e6)
            self.call('unit', 'Q', lambda: base.unit(qv), qv)
            self.call('UnitQuaternion(s,v)', 'Q', lambda: UnitQuaternion(qv[0], qv[1:]).data, qv, multi=True)
            self.call('UnitQuaternion(list)', 'Q', lambda: UnitQuaternion(list(qv)).data, qv, multi=True)
            self.call('UnitQuaternion(ndarray4)', 'Q', lambda: UnitQuaternion(np.asarray(qv)).data, qv, multi=True)
            self.call('Quaternion.unit', 'Q', lambda: Quaternion_unit(qv), qv, multi=True)
            qq = np.array([qv, rng.normal(size=4) * 3.0])
            self.call('UnitQuaternion(ndarray(N,4))', 'Q', lambda: UnitQuaternion(qq).data, qq, multi=True)
            qu = rand_unit(rng, 4)
            self.call('q2r', 'R3', lambda: base.q2r(qu), qu)
            self.call('UnitQuaternion(SO3)', 'Q', lambda: UnitQuaternion(SO3(rnd_so3(rng))).data, qu, multi=True)
            self.call('UnitQuaternion(matrix)', 'Q', lambda: UnitQuaternion(rnd_so3(rng)).data + UnitQuaternion(rnd_se3(rng)).data, qu, multi=True)
            self.call('UnitQuaternion.R', 'R3', lambda: UnitQuaternion(list(qv)).R, qv)
            # random members
            self.call('rand', 'Q', lambda: with_uniform(rng.uniform(0, 1, size=3), base.rand), [i])
            self.call('UnitQuaternion.Rand', 'Q', lambda: seeded(rng, lambda: UnitQuaternion.Rand(3).data), [i], multi=True)
            self.call('SO3.Rand', 'R3', lambda: seeded(rng, lambda: SO3.Rand(3).data), [i], multi=True)
            self.call('SE3.Rand', 'T3', lambda: seeded(rng, lambda: SE3.Rand(N=3, xrange=(-1e6, 1e6)).data), [i], multi=True)
            self.call('SO2.Rand', 'R2', lambda: seeded(rng, lambda: SO2.Rand(N=3).data), [i], multi=True)
            self.call('SE2.Rand', 'T2', lambda: seeded(rng, lambda: SE2.Rand(N=3, xrange=(-1e6, 1e6)).data), [i], multi=True)

    # ---- interpolation: every entry point, relative rotation angle LOG-uniform 1e-12 .. pi-1e-6 (every decade), s grid
    def rel_angle(self):
        r = self.rng.random()
        if r < 0.8:
            return log_uniform(self.rng, 1e-12, math.pi - 1e-6)
        if r < 0.9:
            return math.pi - log_uniform(self.rng, 1e-6, 1e-1)
        return float(self.rng.uniform(0, math.pi - 1e-6))

    def s_value(self):
        return float(self.rng.choice([0.0, 1.0, 1e-12, 1 - 1e-12] + [self.rng.uniform(0, 1) for _ in range(6)]))

    def icall(self, site, kind, clsname, fn, operands, inputs, multi=False, pair=None):
        """like call(), but a raise is keyed by root cause (operands: list of (value, kind)); pair = (R0, R1): the two
        rotation blocks a 3-D interpolation with start goes between (for the near-antipodal classification)"""
        try:
            v = fn()
        except Exception as ex:
            self.ctx.count('oracle:' + site)
            self.report_raise(clsname, 'interp', ex, kind, operands, {'site': site, 'inputs_hex': hexl(inputs)})
            return None
        if pair is not None and self.antipodal_invalid(site, kind, list(v) if multi else [v], pair, inputs):
            return None
        self.check(site, kind, v, inputs, multi)
        return v

    def antipodal_invalid(self, site, kind, elems, pair, inputs):
        """3-D interpolation between R0 and R1 goes through q0 = r2q(R0), q1 = r2q(R1) and slerp(q0, q1, s) WITHOUT shortest:
        when both are (nearly) half-turns the two quaternions can come out with opposite signs (q0.q1 ~ -1), slerp then divides
        by sin(theta) ~ 0 and the value is rounding noise.  Such an invalid value is reported under ONE root-cause key."""
        worst = max([self.check_value(kind, e)[0] for e in elems] + [0.0])
        if worst <= TOL:
            return False
        try:
            d = float(np.dot(base.r2q(np.asarray(pair[0], dtype=float)), base.r2q(np.asarray(pair[1], dtype=float))))
        except Exception:
            return False
        if d > -0.99:
            return False
        self.ctx.count('oracle:' + site)
        self.ctx.fail('oracle:interp:half-turn-pair:long-arc-invalid-value',
                      f"{site}: interpolation between two nearly equal half-turn orientations returns an invalid value (residual {worst:.3g}): "
                      f"r2q gives quaternions of opposite sign (q0.q1 = {d:.15g}) and trinterp calls slerp without shortest=True",
                      {'site': site, 'inputs_hex': hexl(inputs), 'R0': np.asarray(pair[0], dtype=float).tolist(), 'R1': np.asarray(pair[1], dtype=float).tolist(),
                       'q0_dot_q1': d, 'residual': worst})
        return True

    def interpolation(self, N):
        rng = self.rng
        for i in range(N):
            th, s = self.rel_angle(), self.s_value()
            sv = [self.s_value() for _ in range(3)]
            ax = rand_unit(rng)
            dq = np.r_[math.cos(th / 2), math.sin(th / 2) * ax]
            # ---- quaternions: q1 = q0 * dq, same hemisphere; also the other sign of q1 with shortest=True
            q0 = rand_unit(rng, 4)
            q1 = hamilton(q0, dq)
            q1 /= np.linalg.norm(q1)
            inp = np.r_[q0, q1, s, th]
            for sh in (False, True):
                self.icall(f'slerp:shortest={sh}', 'Q', 'base', lambda: base.slerp(q0, q1, s, shortest=sh), [(q0, 'Q'), (q1, 'Q')], inp)
            self.icall('slerp:other-sign:shortest=True', 'Q', 'base', lambda: base.slerp(q0, -q1, s, shortest=True), [(q0, 'Q'), (q1, 'Q')], inp)
            U0, U1 = uq_raw(q0), uq_raw(q1)
            for sh in (False, True):
                self.icall(f'UnitQuaternion.interp:dest:shortest={sh}', 'Q', 'UnitQuaternion', lambda: U0.interp(s, dest=U1, shortest=sh).data,
                           [(q0, 'Q'), (q1, 'Q')], inp, multi=True)
                self.icall(f'UnitQuaternion.interp:shortest={sh}', 'Q', 'UnitQuaternion', lambda: uq_raw(dq).interp(s, shortest=sh).data,
                           [(dq, 'Q')], np.r_[dq, s, th], multi=True)
            self.icall('UnitQuaternion.interp:vector-s', 'Q', 'UnitQuaternion', lambda: uq_raw(dq).interp(sv).data, [(dq, 'Q')], np.r_[dq, sv, th], multi=True)
            if i % 6 == 0:
                # the long way round: relative rotation just short of a FULL turn (q0 . q1 within 1e-5 .. 1e-14 of -1, never exactly antipodal):
                # slerp divides by sin(theta_0) ~ 0 there, the value it returns still has to be a unit quaternion
                thf = 2 * math.pi - log_uniform(rng, 1e-7, 1e-2)
                dqf = np.r_[math.cos(thf / 2), math.sin(thf / 2) * ax]
                q1f = hamilton(q0, dqf)
                q1f /= np.linalg.norm(q1f)
                sf = float(rng.uniform(0.05, 0.95))
                U1f = uq_raw(q1f)
                for sh in (False, True):
                    self.icall(f'UnitQuaternion.interp:nearly-full-turn:dest:shortest={sh}', 'Q', 'UnitQuaternion', lambda: U0.interp(sf, dest=U1f, shortest=sh).data,
                               [(q0, 'Q'), (q1f, 'Q')], np.r_[q0, q1f, sf, thf], multi=True)
                    self.icall(f'UnitQuaternion.interp:nearly-full-turn:shortest={sh}', 'Q', 'UnitQuaternion', lambda: uq_raw(dqf).interp(sf, shortest=sh).data,
                               [(dqf, 'Q')], np.r_[dqf, sf, thf], multi=True)
            self.icall('UnitQuaternion.interp:multi', 'Q', 'UnitQuaternion', lambda: UnitQuaternion([q0, q1], check=False).interp(s, shortest=True).data,
                       [(q0, 'Q'), (q1, 'Q')], inp, multi=True)
            # ---- 3-D poses: T1 = T0 * (rotation by th), translations up to 1e6
            T0 = np.eye(4)
            T0[:3, :3], T0[:3, 3] = rnd_so3(rng), self.trans(3)
            if rng.random() < 0.1:
                # start orientation a half-turn (or within 1e-12..1e-3 of one): r2q has scalar part ~ 0, its sign is fragile
                T0[:3, :3] = rot_from_axis_angle(rand_unit(rng), math.pi - float(rng.choice([0.0, log_uniform(rng, 1e-12, 1e-3)])))
            T1 = np.eye(4)
            T1[:3, :3], T1[:3, 3] = T0[:3, :3] @ rot_from_axis_angle(ax, th), self.trans(3)
            Tn = np.eye(4)
            Tn[:3, :3], Tn[:3, 3] = rot_from_axis_angle(ax, th), self.trans(3)
            inp = np.r_[T0.flatten(), T1.flatten(), s]
            ops2 = [(T0, 'T3'), (T1, 'T3')]
            self.icall('trinterp:se3:start', 'T3', 'base', lambda: base.trinterp(T0, T1, s), ops2, inp, pair=(T0[:3, :3], T1[:3, :3]))
            self.icall('trinterp:se3', 'T3', 'base', lambda: base.trinterp(None, Tn, s), [(Tn, 'T3')], np.r_[Tn.flatten(), s])
            X0, X1, Xn = SE3(T0, check=False), SE3(T1, check=False), SE3(Tn, check=False)
            self.icall('SE3.interp:start', 'T3', 'SE3', lambda: interp_checked(X1, s, X0).data, ops2, inp, multi=True, pair=(T0[:3, :3], T1[:3, :3]))
            self.icall('SE3.interp', 'T3', 'SE3', lambda: interp_checked(Xn, s).data, [(Tn, 'T3')], np.r_[Tn.flatten(), s], multi=True)
            self.icall('SE3.interp:vector-s:start', 'T3', 'SE3', lambda: interp_checked(X1, sv, X0).data, ops2, np.r_[inp, sv], multi=True, pair=(T0[:3, :3], T1[:3, :3]))
            self.icall('SE3.interp:vector-s', 'T3', 'SE3', lambda: interp_checked(Xn, sv).data, [(Tn, 'T3')], np.r_[Tn.flatten(), sv], multi=True)
            self.icall('SE3.interp:multi', 'T3', 'SE3', lambda: interp_checked(SE3([T1, Tn], check=False), s).data, ops2 + [(Tn, 'T3')], inp, multi=True)
            # ---- integer-typed end / start poses (transl(1,2,3), SE3(1,2,3), SE3.Tx(2) hold integer arrays)
            ti = [int(v) for v in rng.integers(-9, 10, size=3)]
            Ti = base.transl(ti[0], ti[1], ti[2])
            Xi = SE3(ti[0], ti[1], ti[2])
            opsi = [(T0, 'T3'), (np.asarray(Ti, dtype=float), 'T3')]
            inpi = np.r_[T0.flatten(), ti, s]
            self.icall('trinterp:se3:start:int-end', 'T3', 'base', lambda: base.trinterp(T0, Ti, s), opsi, inpi)
            self.icall('trinterp:se3:int-start', 'T3', 'base', lambda: base.trinterp(Ti, T0, s), opsi, inpi)
            self.icall('SE3.interp:start:int-end', 'T3', 'SE3', lambda: interp_checked(Xi, s, X0).data, opsi, inpi, multi=True)
            self.icall('SE3.interp:int-start', 'T3', 'SE3', lambda: interp_checked(X0, s, Xi).data, opsi, inpi, multi=True)
            self.icall('SE3.interp:int', 'T3', 'SE3', lambda: interp_checked(SE3.Tx(ti[0]) * SE3(Tn, check=False), s).data, [(Tn, 'T3')], np.r_[Tn.flatten(), ti, s], multi=True)
            e2i = [int(v) for v in rng.integers(-9, 10, size=2)]
            Yi = SE2(e2i[0], e2i[1])
            # ---- informational only (no finding): float32-typed operands.  The property's 1e-9 is below single precision, so
            # float32 values are outside its domain; the worst residual of the r2q-based routes on them is recorded in the evidence
            if i % 10 == 0:
                X32 = SO3(self.leaf_exact(SO3).A.astype(np.float32), check=False)
                try:
                    r32 = max(self.check_value('R3', e)[0] for e in interp_checked(X32, s).data)
                    r32 = max(r32, self.check_value('Q', UnitQuaternion(X32).data[0])[0])
                    self.ctx.stats['info:float32-operand:worst-residual'] = max(self.ctx.stats.get('info:float32-operand:worst-residual', 0.0), r32)
                except Exception:
                    self.ctx.count('info:float32-operand:raises')
            # ---- 3-D rotations (SO(3) case of trinterp, SO3.interp)
            R0, R1, Rn = T0[:3, :3], T1[:3, :3], Tn[:3, :3]
            ops3 = [(R0, 'R3'), (R1, 'R3')]
            inp3 = np.r_[R0.flatten(), R1.flatten(), s]
            self.icall('trinterp:so3:start', 'R3', 'base', lambda: base.trinterp(R0, R1, s), ops3, inp3, pair=(R0, R1))
            self.icall('trinterp:so3', 'R3', 'base', lambda: base.trinterp(None, Rn, s), [(Rn, 'R3')], np.r_[Rn.flatten(), s])
            S0, S1, Sn = SO3(R0, check=False), SO3(R1, check=False), SO3(Rn, check=False)
            self.icall('SO3.interp:start', 'R3', 'SO3', lambda: interp_checked(S1, s, S0).data, ops3, inp3, multi=True, pair=(R0, R1))
            self.icall('SO3.interp', 'R3', 'SO3', lambda: interp_checked(Sn, s).data, [(Rn, 'R3')], np.r_[Rn.flatten(), s], multi=True)
            self.icall('SO3.interp:vector-s:start', 'R3', 'SO3', lambda: interp_checked(S1, sv, S0).data, ops3, np.r_[inp3, sv], multi=True, pair=(R0, R1))
            self.icall('SO3.interp:multi', 'R3', 'SO3', lambda: interp_checked(SO3([R1, Rn], check=False), s).data, ops3 + [(Rn, 'R3')], inp3, multi=True)
            # ---- 2-D poses
            a0 = gen_angle(rng)
            sgn = float(rng.choice([-1.0, 1.0]))
            E0, E1, En = np.eye(3), np.eye(3), np.eye(3)
            E0[:2, :2], E0[:2, 2] = rot2(a0), self.trans(2)
            E1[:2, :2], E1[:2, 2] = rot2(a0) @ rot2(sgn * th), self.trans(2)
            En[:2, :2], En[:2, 2] = rot2(sgn * th), self.trans(2)
            inp = np.r_[E0.flatten(), E1.flatten(), s]
            ops2 = [(E0, 'T2'), (E1, 'T2')]
            self.icall('trinterp2:se2:start', 'T2', 'base', lambda: base.trinterp2(E0, E1, s), ops2, inp)
            self.icall('trinterp2:se2', 'T2', 'base', lambda: base.trinterp2(None, En, s), [(En, 'T2')], np.r_[En.flatten(), s])
            self.icall('trinterp2:so2:start', 'R2', 'base', lambda: base.trinterp2(E0[:2, :2], E1[:2, :2], s), [(E0[:2, :2], 'R2'), (E1[:2, :2], 'R2')], inp)
            Y0, Y1, Yn = SE2(E0, check=False), SE2(E1, check=False), SE2(En, check=False)
            self.icall('SE2.interp:start', 'T2', 'SE2', lambda: interp_checked(Y1, s, Y0).data, ops2, inp, multi=True)
            self.icall('SE2.interp', 'T2', 'SE2', lambda: interp_checked(Yn, s).data, [(En, 'T2')], np.r_[En.flatten(), s], multi=True)
            self.icall('SE2.interp:vector-s', 'T2', 'SE2', lambda: interp_checked(Yn, sv).data, [(En, 'T2')], np.r_[En.flatten(), sv], multi=True)
            self.icall('SE2.interp:start:int-end', 'T2', 'SE2', lambda: interp_checked(Yi, s, Y0).data, ops2, np.r_[E0.flatten(), e2i, s], multi=True)
            self.icall('SE2.interp:int-start', 'T2', 'SE2', lambda: interp_checked(Y0, s, Yi).data, ops2, np.r_[E0.flatten(), e2i, s], multi=True)
            Z0, Zn = SO2(E0[:2, :2], check=False), SO2(En[:2, :2], check=False)
            self.icall('SO2.interp', 'R2', 'SO2', lambda: interp_checked(Zn, s).data, [(En[:2, :2], 'R2')], np.r_[En[:2, :2].flatten(), s], multi=True)
            self.icall('SO2.interp:start', 'R2', 'SO2', lambda: interp_checked(SO2(E1[:2, :2], check=False), s, Z0).data,
                       [(E0[:2, :2], 'R2'), (E1[:2, :2], 'R2')], inp, multi=True)

    # ---- random expression trees through the classes
    def leaf(self, cls):
        x = self.leaf0(cls)
        if cls in (SO3, SE3, SE2, UnitQuaternion) and self.rng.random() < 0.25:
            # an interpolated value as a leaf: towards a nearby member (relative angle log-uniform), interior s
            th, s = self.rel_angle(), float(self.rng.uniform(0, 1))
            kind = {SO3: 'R3', SE3: 'T3', SE2: 'T2'}.get(cls, 'Q')
            try:
                if cls is SE3:
                    y = x * SE3.AngVec(th, rand_unit(self.rng))
                    z = interp_checked(y, s, x)
                elif cls is SO3:
                    y = x * SO3.AngVec(th, rand_unit(self.rng))
                    z = interp_checked(y, s, x)
                elif cls is SE2:
                    y = x * SE2(0, 0, th)
                    z = interp_checked(y, s, x)
                else:
                    y = x * UnitQuaternion.EulerVec(rand_unit(self.rng) * th)
                    z = x.interp(s, dest=y, shortest=True)
            except Exception:
                return x      # raises of interp on valid operands are searched (and keyed) by interpolation()
            # the trees are built over VALID leaves: an invalid interpolated value is reported here, under the interpolation keys
            site = f'{cls.__name__}.interp:leaf'
            pair = (x.A[:3, :3], y.A[:3, :3]) if cls in (SO3, SE3) else None
            if pair is not None and self.antipodal_invalid(site, kind, z.data, pair, np.r_[x.A.flatten(), y.A.flatten(), s]):
                return x
            rz = max(self.check_value(kind, e)[0] for e in z.data)
            if rz > TOL:
                self.check(site, kind, z.data, np.r_[np.asarray(x.A).flatten(), np.asarray(y.A).flatten(), s], multi=True)
                return x
            # a leaf of a tree must be a clean member (the constructors give <= 6e-15): an interpolated value that is valid
            # to 1e-9 but carries 1e-12..1e-9 of drift (mild near-antipodal cases) would let a few well-conditioned operators
            # push the tree over the tolerance without any operator being at fault
            return z if rz <= 1e-12 else x
        return x

    def leaf_exact(self, cls):
        """a member whose array has INTEGER dtype: axis-aligned rotations (signed permutation matrices, det +1),
        integer translations; exactly representable, so a valid member to 0"""
        rng = self.rng
        dt = [np.int64, np.int32][int(rng.integers(2))]     # reduced-precision FLOAT dtypes are outside the property's domain (1e-9 is below single precision)
        if cls in (SO3, SE3):
            while True:
                P = np.eye(3)[rng.permutation(3)] * rng.choice([-1, 1], size=3)[:, None]
                if round(np.linalg.det(P)) == 1:
                    break
            if cls is SO3:
                return SO3(P.astype(dt), check=False)
            if rng.random() < 0.3:
                return SE3(int(rng.integers(-9, 10)), int(rng.integers(-9, 10)), int(rng.integers(-9, 10)))   # built from Python ints
            T = np.eye(4)
            T[:3, :3], T[:3, 3] = P, rng.integers(-9, 10, size=3)
            return SE3(T.astype(dt), check=False)
        if cls in (SO2, SE2):
            P = [np.eye(2), np.array([[0, -1], [1, 0]]), np.array([[-1, 0], [0, -1]]), np.array([[0, 1], [-1, 0]])][int(rng.integers(4))]
            if cls is SO2:
                return SO2(P.astype(dt), check=False)
            if rng.random() < 0.3:
                return SE2(int(rng.integers(-9, 10)), int(rng.integers(-9, 10)))
            T = np.eye(3)
            T[:2, :2], T[:2, 2] = P, rng.integers(-9, 10, size=2)
            return SE2(T.astype(dt), check=False)
        q = np.zeros(4)
        q[int(rng.integers(4))] = rng.choice([-1, 1])
        return uq_raw(q.astype(dt))

    def leaf0(self, cls):
        if self.rng.random() < 0.2:
            return self.leaf_exact(cls)
        return self.leaf1(cls)

    def leaf1(self, cls):
        rng = self.rng
        k = int(rng.integers(5))
        if cls is SO3:
            return [lambda: SO3.Rx(gen_angle(rng)), lambda: SO3.RPY([gen_angle(rng) for _ in range(3)], order=str(rng.choice(ORDERS[:3]))),
                    lambda: SO3.AngVec(gen_angle(rng), self.axis()), lambda: SO3.Eul([gen_angle(rng) for _ in range(3)]),
                    lambda: SO3.OA(*self.pair())][k]()
        if cls is SE3:
            t = self.trans(3)
            return [lambda: SE3.Ry(gen_angle(rng), t=t), lambda: SE3(t) * SE3.RPY([gen_angle(rng) for _ in range(3)]),
                    lambda: SE3(t) * SE3.AngVec(gen_angle(rng), self.axis()), lambda: SE3.Tx(t[0]) * SE3.Eul([gen_angle(rng) for _ in range(3)]),
                    lambda: SE3.Exp(np.r_[t * 1e-6, rand_unit(rng) * rng.uniform(0, 3)])][k]()
        if cls is SO2:
            return SO2(gen_angle(rng))
        if cls is SE2:
            t = self.trans(2)
            return SE2(t[0], t[1], gen_angle(rng))
        return [lambda: UnitQuaternion.Rz(gen_angle(rng)), lambda: UnitQuaternion.RPY([gen_angle(rng) for _ in range(3)]),
                lambda: UnitQuaternion.EulerVec(rand_unit(rng) * rng.uniform(0.01, 6)), lambda: UnitQuaternion(list(rng.normal(size=4) * 50)),
                lambda: UnitQuaternion.Eul([gen_angle(rng) for _ in range(3)])][k]()

    def tree(self, cls, depth):
        """returns (description, thunk)"""
        rng = self.rng
        if depth == 0 or rng.random() < 0.15:
            x = self.leaf(cls)
            return f"leaf{hexl(x.A)}", (lambda: x)
        ops = ['mul', 'div', 'inv', 'pow', 'prod'] + (['interp'] if cls in (SO3, SE3, SE2, UnitQuaternion) else [])
        ops += ['imul', 'idiv'] if cls is not UnitQuaternion else ['imul', 'ipow']
        ops += ['explog'] if cls is not UnitQuaternion else []
        ops += ['twist'] if cls in (SE3, SE2) else []
        op = str(rng.choice(ops))
        da, fa = self.tree(cls, depth - 1)

        def guarded(opname, f):
            # an operator that raises on valid operands is attributed to that operator (stable key), not to the tree
            def g():
                args = f[1]()
                try:
                    return f[0](*args)
                except OpRaises:
                    raise
                except Exception as ex:
                    raise OpRaises(opname, ex, args)
            return g
        if op in ('imul', 'idiv'):
            db, fb = self.tree(cls, depth - 1)

            def inplace(x, y):
                # the augmented assignment itself (X *= Y, X /= Y): whatever object it leaves in X is the value; the two
                # operand objects must still be members afterwards (an in-place shortcut that writes into a shared or
                # integer-typed array shows up in one of the three)
                x0, y0 = x, y
                kind_ = {SO3: 'R3', SE3: 'T3', SO2: 'R2', SE2: 'T2'}.get(cls, 'Q')
                ok0 = {nm: max(self.check_value(kind_, e)[0] for e in o.data) <= TOL for nm, o in (('left', x0), ('right', y0))}
                if op == 'imul':
                    x *= y
                else:
                    x /= y
                for nm, o in (('left', x0), ('right', y0)):
                    if o is not x and ok0[nm] and max(self.check_value(kind_, e)[0] for e in o.data) > TOL:
                        raise OperandSpoiled(nm)
                return x
            return f"({da} {'*=' if op == 'imul' else '/='} {db})", guarded(op, (inplace, lambda: (fa(), fb())))
        if op == 'ipow':
            n = int(rng.integers(-8, 9))

            def ipow(x):
                x **= n
                return x
            return f"({da} **= {n})", guarded('ipow', (ipow, lambda: (fa(),)))
        if op in ('mul', 'div'):
            db, fb = self.tree(cls, depth - 1)
            return (f"({da} {'*' if op == 'mul' else '/'} {db})",
                    guarded(op, ((lambda a, b: a * b) if op == 'mul' else (lambda a, b: a / b), lambda: (fa(), fb()))))
        if op == 'inv':
            return f"inv({da})", guarded('inv', (lambda a: a.inv(), lambda: (fa(),)))
        if op == 'pow':
            n = int(rng.integers(-8, 9))
            return f"({da} ** {n})", guarded('pow', (lambda a: a ** n, lambda: (fa(),)))
        if op == 'prod':
            db, fb = self.tree(cls, depth - 1)

            def prod(a, b):
                if cls is UnitQuaternion:
                    return a * b * a
                return cls([a.A, b.A, a.A], check=False).prod()
            return f"prod[{da}, {db}, {da}]", guarded('prod', (prod, lambda: (fa(), fb())))
        if op in ('explog', 'twist'):
            # log re-validates its argument at 100 eps (check=True): the conversion is applied to values the library itself
            # accepts as members, others pass through unchanged
            def conv(x):
                if not all(cls.isvalid(e) for e in x.data):
                    return x
                if op == 'explog':
                    return cls.Exp(x.log(twist=True)) if len(x) == 1 else x
                return (x.Twist3().SE3() if cls is SE3 else x.Twist2().SE2()) if len(x) == 1 else x
            return f"{op}({da})", guarded(op, (conv, lambda: (fa(),)))
        s = float(rng.choice([0.0, 1.0, 1e-12, 1 - 1e-12, rng.uniform(0, 1), rng.uniform(0, 1)]))
        kind_i = {SO3: 'R3', SE3: 'T3', SO2: 'R2', SE2: 'T2'}.get(cls, 'Q')

        def interp_node(a):
            if cls is UnitQuaternion and all(np.asarray(e, dtype=float)[0] <= -1 + 4e-16 for e in a.data):
                # from the identity to EXACTLY minus the identity with shortest=False: no unique great circle, the interpolation
                # is undefined (the code raises ValueError at s = 0.5: no value, hence no invalid member); not part of the trees
                return a
            r = a.interp(s) if cls is UnitQuaternion else interp_checked(a, s)
            return r
        return f"interp({da}, {s.hex()})", guarded('interp', (interp_node, lambda: (fa(),)))

    def trees(self, N):
        for cls, kind in ((SO3, 'R3'), (SE3, 'T3'), (SO2, 'R2'), (SE2, 'T2'), (UnitQuaternion, 'Q')):
            for i in range(N):
                d, f = self.tree(cls, int(self.rng.integers(1, 6)))
                site = f'tree:{cls.__name__}'
                try:
                    v = f()
                except OpRaises as ex:
                    self.ctx.count('oracle:' + site)
                    self.report_raise(cls.__name__, ex.op, ex.ex, kind, [e for a in ex.args_ for e in a.data], {'site': site, 'tree': d})
                    continue
                self.ctx.count('oracle:' + site)
                for k, e in enumerate(v.data):
                    r, prob = self.check_value(kind, e)
                    self.ctx.case((site, d[:300], k))
                    self.ctx.stats['worst:' + site] = max(self.ctx.stats.get('worst:' + site, 0.0), r if np.isfinite(r) else 1e300)
                    if prob:
                        self.ctx.fail(f'oracle:{site}:{prob}', f"expression tree over valid {cls.__name__} gives an invalid value ({prob}, residual {r:.3g})",
                                      {'site': site, 'tree': d, 'value': np.asarray(e, dtype=float).tolist(), 'residual': r})


class OperandSpoiled(Exception):
    """an augmented assignment left one of its operand objects (not the result) holding an invalid value"""


class OpRaises(Exception):
    def __init__(self, op, ex, args):
        super().__init__(f"{op}: {ex}")
        self.op, self.ex, self.args_ = op, ex, args


def raise_site(ex):
    """root-cause site of an exception: the innermost frame that belongs to the library (file:function)"""
    tb, site = ex.__traceback__, 'outside-library'
    while tb is not None:
        fn = tb.tb_frame.f_code.co_filename.replace('\\', '/')
        if '/spatialmath/' in fn:
            site = fn.split('/spatialmath/')[-1][:-3].replace('/', '.') + '.' + tb.tb_frame.f_code.co_name
        tb = tb.tb_next
    return site


def interp_checked(obj, s, start=None):
    """obj.interp(s, start) for pose objects (an element the constructor refuses raises ValueError in its list path; a None
    element would be reported by check_value as element-is-None)"""
    return obj.interp(s, start=start) if start is not None else obj.interp(s)


def rejected_by_constructor(ex):
    """if the exception was raised inside SO2/SE2/SO3/SE3/UnitQuaternion.__init__ (the strict re-validation of an
    argument), return the list of elements that constructor was given; else None"""
    tb, hit = ex.__traceback__, None
    while tb is not None:
        co = tb.tb_frame.f_code
        if co.co_name == '__init__' and co.co_filename.replace('\\', '/').endswith(('spatialmath/pose2d.py', 'spatialmath/pose3d.py', 'spatialmath/quaternion.py')):
            hit = tb.tb_frame
        tb = tb.tb_next
    if hit is None:
        return None
    loc = hit.f_locals
    arg = next((loc[k] for k in ('arg', 'x', 's') if k in loc and loc[k] is not None), None)
    if arg is None:
        return None
    try:
        if isinstance(arg, np.ndarray) and arg.ndim <= 2 and arg.dtype != object:
            return [arg] if (arg.ndim == 1 or arg.shape[0] == arg.shape[1]) else list(arg)
        return [np.asarray(a, dtype=float) for a in arg]
    except Exception:
        return None


def Quaternion_unit(qv):
    from spatialmath import Quaternion
    return Quaternion(qv).unit().data


def seeded(rng, f):
    """the library's Rand() constructors draw from NumPy's global generator: seed it from the context's PRNG"""
    state = np.random.get_state()
    np.random.seed(int(rng.integers(2 ** 31)))
    try:
        return f()
    finally:
        np.random.set_state(state)


def rot_angle(M, kind):
    """rotation angle of the rotation block of a pose matrix, independent of the library"""
    M = np.asarray(M, dtype=float)
    if kind in ('R2', 'T2'):
        return abs(math.atan2(M[1, 0], M[0, 0]))
    R = M[:3, :3]
    v = np.array([R[2, 1] - R[1, 2], R[0, 2] - R[2, 0], R[1, 0] - R[0, 1]]) / 2
    return math.atan2(float(np.linalg.norm(v)), (float(np.trace(R)) - 1) / 2)


def hamilton(p, q):
    s1, v1, s2, v2 = p[0], p[1:], q[0], q[1:]
    return np.r_[s1 * s2 - v1 @ v2, s1 * v2 + s2 * v1 + np.cross(v1, v2)]


def rot2(a):
    return np.array([[math.cos(a), -math.sin(a)], [math.sin(a), math.cos(a)]])


def oracle(ctx):
    o = Oracle(ctx)
    with np.errstate(all='ignore'):
        o.interpolation(ctx.n(1500, 40000))
        o.constructors(ctx.n(300, 4000))
        o.trees(ctx.n(600, 12000))


def run(ctx):
    ctx.rule = ("obligations: theorems/lemmas/examples of theories/Props/C01_ctor.v, C01_class.v, C01_sqrt.v, C01_ops.v, C01_interp.v over the traces regenerated "
                "from /repo; evaluations: Sym==Num cases (generated model vs implementation) + oracle evaluations of the validity residuals "
                "(max|RR'-I|, |det-1|, exact last row, | |q|-1 |, tolerance 1e-9) on every element returned by every constructor x option "
                "and by random expression trees through the classes; a case is distinct by (site, element, inputs)")
    with ctx.timed('regenerate'):
        g = build(ctx)
        path = ctx.write_gen(MOD + '.v', g.coq_text())
    for name, why in g.failed:
        ctx.fail(f'gen:trace:{name}', f"{name}: the library code can no longer be executed on symbols ({why[:300]}); the theorems about this trace are not shown",
                 {'trace': name, 'error': why}, no_input=True)
    rc, out, err, dt = ctx.coqc(path)
    if rc != 0:
        ctx.fail('gen:compile', 'generated traces do not compile: ' + err[-800:], no_input=True)
        return
    from concurrent.futures import ThreadPoolExecutor
    files = ['theories/Props/C01_ctor.v', 'theories/Props/C01_class.v', 'theories/Props/C01_sqrt.v', 'theories/Props/C01_ops.v',
             'theories/Props/C01_interp.v']
    with ThreadPoolExecutor(5) as ex:
        list(ex.map(ctx.prove, files))
    ctx.obligations.sort(key=lambda o: (o.file, 0))
    with ctx.timed('correspond'):
        sym_num(ctx, g, MOD, ctx.n(12, 200))
    with ctx.timed('oracle'):
        oracle(ctx)
