"""C02 -- group laws: associativity, identity, inverse, division and integer powers
(SO2, SE2, SO3, SE3, UnitQuaternion; twists compared as the motions they generate)."""
import math
import json
import re
import numpy as np
import sympy
from lib import concolic
from lib.symtrace import Gen, sym_input, coq_expr, input_pattern, coq_type
from lib.corr import sym_num
from lib.gens import log_uniform, rand_unit, rand_rot, rand_trans, rand_rot2, angle, rot_from_axis_angle

concolic.install()
from spatialmath import base, SO2, SE2, SO3, SE3, UnitQuaternion, Twist3, Twist2  # noqa: E402

MOD = 'Traces_C02'

# No NumPy patches are needed any more: since /repo fbf47d0 a negative power is the positive power of the class's
# closed-form inverse, so `X ** n` runs on symbols for every n (np.linalg.matrix_power of an object array, n >= 0).
# A change that re-introduces np.linalg.inv on that path makes the traces fail (fail-soft: finding trace:<name>).
_np_det = np.linalg.det

# ------------------------------------------------------------------------------------------------
# the five group classes: (name, class, input shape, "has a constant last row")
CLASSES = [('SO2', SO2, 'M22', False), ('SE2', SE2, 'M33', True), ('SO3', SO3, 'M33', False), ('SE3', SE3, 'M44', True)]
# exponents traced symbolically (T-sym): -4..4 for the pose classes (polynomials, since the negative powers use the
# closed-form inverse), -3..3 for UnitQuaternion (nested normalisations).  T-num covers every |n| <= 8.
NEG = {'SO2': 4, 'SE2': 4, 'SO3': 4, 'SE3': 4, 'UQ': 3}
POS = {'SO2': 4, 'SE2': 4, 'SO3': 4, 'SE3': 4, 'UQ': 3}


def pows(cn):
    return list(range(-NEG[cn], POS[cn] + 1))


def unit_q(rng):
    return rand_unit(rng, 4)



def pose(cls, X, se):
    """a pose object holding the matrix X as it is (symbols or floats); for SE(n) the last row is the exact
    constants 0..0 1, so the object is a generic rigid-motion-SHAPED matrix with arbitrary R and t"""
    X = np.array(X, dtype=object if np.asarray(X).dtype == object else float)
    if se:
        n = X.shape[0]
        X[n - 1, :] = [sympy.Integer(0)] * (n - 1) + [sympy.Integer(1)] if X.dtype == object else [0.0] * (n - 1) + [1.0]
    return cls(X, check=False)


def uq(q):
    """a UnitQuaternion holding the 4-vector q as it is (the constructor would normalise it)"""
    u = UnitQuaternion()
    u.data = [np.asarray(q)]
    return u


def A(x):
    return x.A


def pname(n):
    return f"{'m' if n < 0 else 'p'}{abs(n)}"


# shadow valuation for the comparisons the library makes while it runs on symbols (validity checks in
# SO2.inv / SE2.inv, zero-norm test in base.unit): exact rational group elements
def _shadow():
    val = {}
    r2 = {'x': (sympy.Rational(3, 5), sympy.Rational(4, 5)), 'y': (sympy.Rational(5, 13), sympy.Rational(12, 13)),
          'z': (sympy.Rational(8, 17), sympy.Rational(15, 17))}
    for nm, (c, s) in r2.items():
        m = [[c, -s, sympy.Rational(1, 3)], [s, c, sympy.Rational(-2, 7)], [0, 0, 1]]
        for i in range(3):
            for j in range(3):
                val[sympy.Symbol(f"{nm}{i}{j}", real=True)] = m[i][j]
    qs = {'p': (1, 2, 2, 0, 3), 'q': (2, 3, 6, 0, 7), 'r': (1, 4, 8, 0, 9)}
    for nm, (a, b, c, d, n) in qs.items():
        for i, v in enumerate((a, b, c, d)):
            val[sympy.Symbol(f"{nm}{i}", real=True)] = sympy.Rational(v, n)
    return val


def sample_group(shape_kind, rng):
    """valid group element for the Sym==Num runs of traces whose numeric path has a validity check"""
    if shape_kind == 'SO2':
        return rand_rot2(rng)
    if shape_kind == 'SE2':
        T = np.eye(3)
        T[:2, :2] = rand_rot2(rng)
        T[:2, 2] = rng.normal(size=2) * 3
        return T
    raise ValueError(shape_kind)


def well_conditioned(shape, rng):
    """generic (non-group) matrix of moderate size and conditioning for the T-num runs of X**n, |n| <= 8"""
    n = shape[0]
    while True:
        M = rng.normal(size=shape) * 10 ** rng.uniform(-0.3, 0.3)
        if abs(_np_det(M[:n - 1, :n - 1])) >= 0.2 and abs(_np_det(M)) >= 0.2:
            return M


def expand_all(res):
    return np.array([sympy.expand(x) for x in np.asarray(res, dtype=object).flatten()], dtype=object).reshape(np.shape(res))


def build(ctx):
    g = Gen('C02')
    g.extra = []       # extra definitions (path conditions), not part of the Sym==Num set
    g.paths = {}
    concolic.VAL.clear()
    concolic.VAL.update(_shadow())
    shape_of = {'M22': (2, 2), 'M33': (3, 3), 'M44': (4, 4)}

    def tr(name, inputs, fn, **kw):
        """fail-soft: an operator that can no longer be executed on symbols (e.g. a new float-only comparison in it) is a
        no-input finding `trace:<name>`; the theorems that mention the missing definition stop compiling (reported as
        broken obligations) and the oracle still runs and looks for a concrete failing input"""
        concolic.PATH.clear()
        with concolic.object_alloc():
            t = g.trace(name, inputs, fn, optional=True, **kw)
        if t is None:
            why = [r for n, r in g.failed if n == name][-1]
            ctx.fail(f'trace:{name}', f"{name}: the library call can not be executed on symbolic operands any more ({why[:300]}); "
                     f"the theorems about it are not re-established on this tree", {'trace': name, 'error': why}, no_input=True)
            return None
        if not re.search(r' O\b| [-+*/] ', t.term):
            # a result that involves no arithmetic (a transposition, X**1): keep the uniform signature `tr O x`
            t.term = "let _ := zero O in\n  " + t.term
        g.paths[name] = list(concolic.PATH)
        return t

    for cn, cls, sh, se in CLASSES:
        P = (lambda cls, se: lambda X: pose(cls, X, se))(cls, se)
        # since /repo 1c511ed SO2.inv / SE2.inv build with check=False like the 3-D classes: no validity path, and the
        # Sym==Num runs use generic (non-group) matrices for every trace
        smp1 = smp2 = None
        X, Y, Z = ('x', sh), ('y', sh), ('z', sh)
        tr(f'tr_{cn}_mul', [X, Y], lambda x, y, P=P: A(P(x) * P(y)))
        tr(f'tr_{cn}_id_r', [X], lambda x, P=P, cls=cls: A(P(x) * cls()))
        tr(f'tr_{cn}_id_l', [X], lambda x, P=P, cls=cls: A(cls() * P(x)))
        tr(f'tr_{cn}_inv', [X], lambda x, P=P: A(P(x).inv()), sampler=smp1)
        tr(f'tr_{cn}_div', [X, Y], lambda x, y, P=P: A(P(x) / P(y)), sampler=smp2)
        tr(f'tr_{cn}_assoc_l', [X, Y, Z], lambda x, y, z, P=P: A((P(x) * P(y)) * P(z)))
        tr(f'tr_{cn}_assoc_r', [X, Y, Z], lambda x, y, z, P=P: A(P(x) * (P(y) * P(z))))
        tr(f'tr_{cn}_x_xinv', [X], lambda x, P=P: A(P(x) * P(x).inv()), sampler=smp1)
        tr(f'tr_{cn}_xinv_x', [X], lambda x, P=P: A(P(x).inv() * P(x)), sampler=smp1)
        tr(f'tr_{cn}_inv_of_mul', [X, Y], lambda x, y, P=P: A((P(x) * P(y)).inv()), sampler=smp2)
        tr(f'tr_{cn}_mul_of_inv', [X, Y], lambda x, y, P=P: A(P(y).inv() * P(x).inv()), sampler=smp2)
        for n in pows(cn):
            tr(f'tr_{cn}_pow_{pname(n)}', [X], lambda x, P=P, n=n: A(P(x) ** n), tol=1e-10)
        # hand model of SMPose.__pow__ (iterated product; closed-form inverse first for a negative exponent), T-num, |n| <= 8
        for n in range(-8, 9):
            smp = (lambda sh: lambda rng: [well_conditioned(shape_of[sh], rng)])(sh)
            g.model(f'm_{cn}_pow_{pname(n)}', [X], sh, coq=f'SM.Model.C02_Pow.pw_{cn}_{pname(n)}', module='Model.C02_Pow',
                    num_fn=lambda x, P=P, n=n: A(P(x) ** n), sampler=smp, tol=1e-7)
    # the structured inverses of the base layer
    tr('tr_trinv', [('x', 'M44')], base.trinv)
    tr('tr_trinv2', [('x', 'M33')], base.trinv2)

    # ---- unit quaternions (every class-level result is re-normalised by the constructor)
    Pq, Qq = ('p', 'V4'), ('q', 'V4')
    u1 = lambda rng: [unit_q(rng)]
    u2 = lambda rng: [unit_q(rng), unit_q(rng)]
    tr('tr_UQ_mul', [Pq, Qq], lambda p, q: (uq(p) * uq(q)).vec, sampler=u2)
    tr('tr_UQ_div', [Pq, Qq], lambda p, q: (uq(p) / uq(q)).vec, sampler=u2)
    tr('tr_UQ_inv', [Qq], lambda q: uq(q).inv().vec, sampler=u1)
    tr('tr_UQ_id_r', [Qq], lambda q: (uq(q) * UnitQuaternion()).vec, sampler=u1)
    tr('tr_UQ_id_l', [Qq], lambda q: (UnitQuaternion() * uq(q)).vec, sampler=u1)
    for n in pows('UQ'):
        tr(f'tr_UQ_pow_{pname(n)}', [Qq], lambda q, n=n: (uq(q) ** n).vec, tol=1e-9, sampler=u1)
    for n in range(-8, 9):
        g.model(f'm_UQ_pow_{pname(n)}', [Qq], 'V4', coq=f'SM.Model.C02_Pow.pw_UQ_{pname(n)}', module='Model.C02_Pow',
                num_fn=lambda q, n=n: (uq(q) ** n).vec, sampler=u1, tol=1e-9)

    # ---- recorded comparisons: none may occur in a pose-class trace (since /repo 1c511ed SO2.inv / SE2.inv no longer
    # re-validate; a validity check coming back would make the inverse theorems conditional again -> fail closed);
    # for UnitQuaternion only the unit-norm validity test / zero-norm test of the constructor (decided: unit, not zero)
    for name, path in g.paths.items():
        for rel, truth in path:
            unit_test = isinstance(rel.lhs, sympy.Abs) and rel.lhs.args[0].is_Add      # | |q| - 1 | < tol
            uq_ok = name.startswith('tr_UQ_') and isinstance(rel, sympy.StrictLessThan) and (truth is unit_test)
            if not uq_ok:
                ctx.fail(f'gen:path:{name}', f"unexpected comparison while tracing {name}: {rel} -> {truth}",
                         {'relational': str(rel), 'truth': truth}, no_input=True)
    return g


def gen_text(g):
    txt = g.coq_text()
    if not g.extra:
        return txt
    head, tail = txt.split("End Gen.\n")
    body = "".join(d for _, _, d in g.extra)
    args = "".join(f"Arguments {n} {{T}} O.\n#[export] Hint Unfold {n} : smgen.\n" for n, _, _ in g.extra)
    return head + body + "End Gen.\n" + tail + args


# ================================================================================================
# oracle: both sides of every law evaluated on the implementation (the search for a failing input and the
# measurement of the float tolerance).  Reference algebra below is independent of the library (NumPy only).
TOL = 1e-9
TOL_TWIST = 1e-7


def hamilton(p, q):
    s1, v1, s2, v2 = p[0], p[1:], q[0], q[1:]
    return np.r_[s1 * s2 - v1 @ v2, s1 * v2 + s2 * v1 + np.cross(v1, v2)]


class MatAlg:
    """reference algebra of one pose class on plain arrays: product, STRUCTURED inverse, translation magnitude"""
    def __init__(self, name, cls, n, se):
        self.name, self.cls, self.n, self.se = name, cls, n, se
        self.N = n + 1 if se else n

    def ident(self):
        return np.eye(self.N)

    def mul(self, a, b):
        return a @ b

    def inv(self, a):
        if not self.se:
            return a.T.copy()
        n = self.n
        T = np.eye(self.N)
        T[:n, :n] = a[:n, :n].T
        T[:n, n] = -a[:n, :n].T @ a[:n, n]
        return T

    def tmag(self, a):
        return float(np.linalg.norm(a[:self.n, self.n])) if self.se else 0.0

    def dist(self, a, b):
        return float(np.max(np.abs(a - b)))

    def wrap(self, a):
        return self.cls(np.array(a), check=False)

    def unwrap(self, x):
        assert type(x) is self.cls and len(x) == 1, f"result is {type(x).__name__} of length {len(x)}"
        return np.asarray(x.A, dtype=float)

    def wrap_seq(self, lst):
        return self.cls([np.array(a) for a in lst], check=False)

    def unwrap_seq(self, x, k):
        assert type(x) is self.cls and len(x) == k, f"result is {type(x).__name__} of length {len(x)}, expected {k}"
        # read the stored values (x.A is the list of matrices), not x[i]: indexing / iterating builds each element
        # with the CHECKED constructor, which is C07/C10's subject (a value such as (X**-8 * X**8) whose accumulated
        # orthogonality defect exceeds 100 eps would be rejected there although the law holds to 1e-13)
        return [np.asarray(a, dtype=float) for a in x.data]

    def tiny(self, rng):
        """a very small but NON-identity element: rotation angle and translation of magnitude 1e-12..1e-8 (either may
        be exactly zero, not both) -- nano-scale increments; an implementation that treats 'close to the identity'
        as 'the identity' (np.allclose: 1e-8) drops them"""
        n = self.n
        th = 0.0 if (self.se and rng.random() < 0.3) else log_uniform(rng, 1e-12, 1e-8) * rng.choice([-1.0, 1.0])
        R = rot_from_axis_angle(rand_unit(rng), th) if n == 3 else np.array([[math.cos(th), -math.sin(th)], [math.sin(th), math.cos(th)]])
        if not self.se:
            return R
        T = np.eye(self.N)
        T[:n, :n] = R
        if th == 0.0 or rng.random() < 0.7:
            T[:n, n] = rand_unit(rng, n) * log_uniform(rng, 1e-12, 1e-8)
        return T

    def sample(self, rng):
        n = self.n
        R = rand_rot(rng) if n == 3 else rand_rot2_full(rng)
        if not self.se:
            return R
        T = np.eye(self.N)
        T[:n, :n] = R
        T[:n, n] = rand_trans(rng, 1e-6, 1e6, n)
        return T


class QuatAlg:
    name, cls, se = 'UnitQuaternion', UnitQuaternion, False

    def ident(self):
        return np.r_[1.0, 0, 0, 0]

    def mul(self, a, b):
        return hamilton(a, b)

    def inv(self, a):
        return a * np.r_[1, -1, -1, -1]

    def tmag(self, a):
        return 0.0

    def dist(self, a, b):          # unit quaternions are compared up to overall sign
        return float(min(np.max(np.abs(a - b)), np.max(np.abs(a + b))))

    def wrap(self, a):
        return UnitQuaternion(np.array(a))

    def unwrap(self, x):
        assert type(x) is UnitQuaternion and len(x) == 1, f"result is {type(x).__name__} of length {len(x)}"
        return np.asarray(x.vec, dtype=float)

    def wrap_seq(self, lst):
        return UnitQuaternion([np.array(a) for a in lst])

    def unwrap_seq(self, x, k):
        assert type(x) is UnitQuaternion and len(x) == k, f"result is {type(x).__name__} of length {len(x)}, expected {k}"
        return [np.asarray(a, dtype=float) for a in x.data]

    def tiny(self, rng):
        th = log_uniform(rng, 1e-12, 1e-8) * rng.choice([-1.0, 1.0])
        q = np.r_[math.cos(th / 2), math.sin(th / 2) * rand_unit(rng)]
        return q / np.linalg.norm(q)

    def sample(self, rng):
        R = rand_rot(rng)                       # rotation angle over [0, pi] incl. the ends
        th = math.acos(max(-1.0, min(1.0, (np.trace(R) - 1) / 2)))
        if th < 1e-9 or math.pi - th < 1e-9 or rng.random() < 0.5:
            # build directly from (axis, angle) so that the ends are exact
            ax = rand_unit(rng)
            th = float(rng.choice([0.0, math.pi, rng.uniform(0, math.pi), math.pi - log_uniform(rng, 1e-12, 1e-1),
                                   log_uniform(rng, 1e-12, 1e-1)]))
            q = np.r_[math.cos(th / 2), math.sin(th / 2) * ax]
        else:
            q = q_from_R(R)
        return q / np.linalg.norm(q)


def q_from_R(R):
    """independent rotation-matrix -> quaternion (largest-diagonal method)"""
    t = np.trace(R)
    if t > 0:
        s = math.sqrt(t + 1.0) * 2
        return np.r_[0.25 * s, (R[2, 1] - R[1, 2]) / s, (R[0, 2] - R[2, 0]) / s, (R[1, 0] - R[0, 1]) / s]
    i = int(np.argmax(np.diag(R)))
    j, k = (i + 1) % 3, (i + 2) % 3
    s = math.sqrt(max(R[i, i] - R[j, j] - R[k, k] + 1.0, 0.0)) * 2
    q = np.zeros(4)
    q[0] = (R[k, j] - R[j, k]) / s
    q[1 + i] = 0.25 * s
    q[1 + j] = (R[j, i] + R[i, j]) / s
    q[1 + k] = (R[k, i] + R[i, k]) / s
    return q


def rand_rot2_full(rng):
    """planar rotation, angle over [0, pi] incl. the ends and near-ends, either sign"""
    r = rng.random()
    if r < 0.1:
        th = 0.0
    elif r < 0.2:
        th = math.pi
    elif r < 0.35:
        th = log_uniform(rng, 1e-12, 1e-1)
    elif r < 0.5:
        th = math.pi - log_uniform(rng, 1e-12, 1e-1)
    else:
        th = rng.uniform(0, math.pi)
    th *= rng.choice([-1.0, 1.0])
    return np.array([[math.cos(th), -math.sin(th)], [math.sin(th), math.cos(th)]])


ALGS = [MatAlg('SO2', SO2, 2, False), MatAlg('SE2', SE2, 2, True), MatAlg('SO3', SO3, 3, False),
        MatAlg('SE3', SE3, 3, True), QuatAlg()]

# expression trees: ('leaf', i) | ('id',) | ('mul', a, b) | ('div', a, b) | ('inv', a) | ('pow', a, n)


def ev_impl(alg, t, leaves):
    """evaluate with the class-level operators of the implementation"""
    k = t[0]
    if k == 'leaf':
        return leaves[t[1]]
    if k == 'id':
        return alg.cls()
    if k == 'mul':
        return ev_impl(alg, t[1], leaves) * ev_impl(alg, t[2], leaves)
    if k == 'div':
        return ev_impl(alg, t[1], leaves) / ev_impl(alg, t[2], leaves)
    if k == 'inv':
        return ev_impl(alg, t[1], leaves).inv()
    if k == 'pow':
        return ev_impl(alg, t[1], leaves) ** t[2]
    raise ValueError(k)


def ev_ref(alg, t, raw, track):
    """reference value (plain arrays, structured inverse, repeated product); track[0] = largest translation seen"""
    k = t[0]
    if k == 'leaf':
        r = raw[t[1]]
    elif k == 'id':
        r = alg.ident()
    elif k == 'mul':
        r = alg.mul(ev_ref(alg, t[1], raw, track), ev_ref(alg, t[2], raw, track))
    elif k == 'div':
        r = alg.mul(ev_ref(alg, t[1], raw, track), alg.inv(ev_ref(alg, t[2], raw, track)))
    elif k == 'inv':
        r = alg.inv(ev_ref(alg, t[1], raw, track))
    elif k == 'pow':
        b = ev_ref(alg, t[1], raw, track)
        if t[2] < 0:
            b = alg.inv(b)
        r = alg.ident()
        for _ in range(abs(t[2])):
            r = alg.mul(r, b)
            track[0] = max(track[0], alg.tmag(r))
    else:
        raise ValueError(k)
    track[0] = max(track[0], alg.tmag(r))
    return r


def word(t, sign=1):
    """the tree as a word of (leaf index, +-1) letters, by the group laws"""
    k = t[0]
    if k == 'leaf':
        return [(t[1], sign)]
    if k == 'id':
        return []
    if k == 'mul':
        a, b = word(t[1], sign), word(t[2], sign)
        return a + b if sign > 0 else b + a
    if k == 'div':
        a, b = word(t[1], sign), word(t[2], -sign)
        return a + b if sign > 0 else b + a
    if k == 'inv':
        return word(t[1], -sign)
    if k == 'pow':
        n = t[2]
        return word(t[1], sign if n >= 0 else -sign) * abs(n)
    raise ValueError(k)


def word_tree(w):
    """left-nested product of leaves and inverses of leaves: uses only `*` and `.inv()` on leaves"""
    t = ('id',)
    first = True
    for i, sgn in w:
        x = ('leaf', i) if sgn > 0 else ('inv', ('leaf', i))
        t = x if first else ('mul', t, x)
        first = False
    return t


def rand_tree(rng, depth, nleaves=3):
    if depth == 0 or rng.random() < 0.15:
        return ('leaf', int(rng.integers(nleaves)))
    op = rng.choice(['mul', 'mul', 'div', 'inv', 'pow'])
    if op in ('mul', 'div'):
        return (str(op), rand_tree(rng, depth - 1, nleaves), rand_tree(rng, depth - 1, nleaves))
    if op == 'inv':
        return ('inv', rand_tree(rng, depth - 1, nleaves))
    return ('pow', rand_tree(rng, depth - 1, nleaves), int(rng.integers(-8, 9)))


def tree_str(t):
    k = t[0]
    if k == 'leaf':
        return 'XYZ'[t[1]]
    if k == 'id':
        return 'I'
    if k in ('mul', 'div'):
        return f"({tree_str(t[1])}{'*' if k == 'mul' else '/'}{tree_str(t[2])})"
    if k == 'inv':
        return f"{tree_str(t[1])}.inv()"
    return f"({tree_str(t[1])}**{t[2]})"


def laws(n):
    """(name, lhs tree, rhs tree) over leaves X=0, Y=1, Z=2"""
    X, Y, Z, I = ('leaf', 0), ('leaf', 1), ('leaf', 2), ('id',)
    chain = I
    for k in range(abs(n)):
        chain = X if k == 0 else ('mul', chain, X)
    if n < 0:
        chain = ('inv', chain)
    return [
        ('assoc', ('mul', ('mul', X, Y), Z), ('mul', X, ('mul', Y, Z))),
        ('identity-right', ('mul', X, I), X),
        ('identity-left', ('mul', I, X), X),
        ('inverse-right', ('mul', X, ('inv', X)), I),
        ('inverse-left', ('mul', ('inv', X), X), I),
        ('inv-antihom', ('inv', ('mul', X, Y)), ('mul', ('inv', Y), ('inv', X))),
        ('div', ('div', X, Y), ('mul', X, ('inv', Y))),
        ('pow-product', ('pow', X, n), chain),
        ('pow-zero', ('pow', X, 0), I),
        ('pow-neg-inverse', ('mul', ('pow', X, n), ('pow', X, -n)), I),
        ('pow-neg-is-inv', ('pow', X, -n), ('inv', ('pow', X, n))),
        ('pow-succ', ('pow', X, abs(n) + 1), ('mul', ('pow', X, abs(n)), X)),
    ]


def hexl(a):
    return [float(x).hex() for x in np.asarray(a, float).flatten()]


def check_pair(ctx, alg, law, lt, rt, raw, tol=TOL):
    """both trees on the implementation; scale = max(1, largest translation of any operand / intermediate value)"""
    key = f"oracle:{alg.name}:{law}"
    ctx.count(key)
    ctx.case((alg.name, law, tree_str(lt), tuple(np.concatenate([r.flatten() for r in raw]))))
    track = [max(alg.tmag(r) for r in raw)]
    ref = ev_ref(alg, lt, raw, track)
    ev_ref(alg, rt, raw, track)
    scale = max(1.0, track[0])
    rep = {'kind': 'single', 'class': alg.name, 'law': law, 'lhs': tree_str(lt), 'rhs': tree_str(rt), 'scale': scale,
           'lhs_tree': lt, 'rhs_tree': rt, 'operands_hex': [hexl(r) for r in raw]}
    try:
        leaves = [alg.wrap(r) for r in raw]
        with np.errstate(all='ignore'):
            L = alg.unwrap(ev_impl(alg, lt, leaves))
            Rr = alg.unwrap(ev_impl(alg, rt, leaves))
    except Exception as ex:
        ctx.fail(f"{key}:raises:{type(ex).__name__}", f"{alg.name}: evaluating {tree_str(lt)} == {tree_str(rt)} raises "
                 f"{type(ex).__name__}: {ex}", dict(rep, exception=f"{type(ex).__name__}: {ex}"))
        return
    d = alg.dist(L, Rr) if np.all(np.isfinite(L)) and np.all(np.isfinite(Rr)) else float('inf')
    dref = alg.dist(L, ref) if np.all(np.isfinite(L)) else float('inf')
    ctx.stats['worst:' + key] = max(ctx.stats.get('worst:' + key, 0.0), d / scale)
    ctx.stats['worst-vs-reference:' + alg.name] = max(ctx.stats.get('worst-vs-reference:' + alg.name, 0.0), dref / scale)
    if not d <= tol * scale:
        ctx.fail(f"{key}:value", f"{alg.name}: {tree_str(lt)} and {tree_str(rt)} differ by {d:g} (allowed {tol:g} * {scale:g})",
                 dict(rep, lhs_value=L.tolist(), rhs_value=Rr.tolist(), difference=d))


def check_pair_seq(ctx, alg, law, lt, rt, raws, k):
    """the same law on multi-valued objects: leaf j holds len(raws[j]) in {1, k} elements; both sides must have
    k elements, agree elementwise, and element i must be the value of the law on the i-th elements"""
    key = f"oracle:{alg.name}:{law}:seq"
    ctx.count(key)
    ctx.case((alg.name, law, 'seq', tuple(np.concatenate([r.flatten() for rr in raws for r in rr]))))
    rep = {'kind': 'seq', 'class': alg.name, 'law': law, 'lhs': tree_str(lt), 'rhs': tree_str(rt), 'lengths': [len(r) for r in raws],
           'lhs_tree': lt, 'rhs_tree': rt, 'k': k, 'operands_hex': [[hexl(r) for r in rr] for rr in raws]}
    try:
        leaves = [alg.wrap_seq(rr) if len(rr) > 1 else alg.wrap(rr[0]) for rr in raws]
        with np.errstate(all='ignore'):
            def explen(t):       # a side that mentions no multi-valued leaf (e.g. the identity) is single-valued
                return max([len(raws['XYZ'.index(c)]) for c in tree_str(t) if c in 'XYZ'] + [1])
            L = alg.unwrap_seq(ev_impl(alg, lt, leaves), explen(lt))
            Rr = alg.unwrap_seq(ev_impl(alg, rt, leaves), explen(rt))
            L, Rr = (L * k if len(L) == 1 else L), (Rr * k if len(Rr) == 1 else Rr)
    except Exception as ex:
        ctx.fail(f"{key}:raises:{type(ex).__name__}", f"{alg.name} (sequences of length {[len(r) for r in raws]}): evaluating "
                 f"{tree_str(lt)} == {tree_str(rt)} raises {type(ex).__name__}: {ex}", dict(rep, exception=f"{type(ex).__name__}: {ex}"))
        return
    for i in range(k):
        raw_i = [rr[i] if len(rr) > 1 else rr[0] for rr in raws]
        track = [max(alg.tmag(r) for r in raw_i)]
        ref = ev_ref(alg, lt, raw_i, track)
        ev_ref(alg, rt, raw_i, track)
        scale = max(1.0, track[0])
        fin = np.all(np.isfinite(L[i])) and np.all(np.isfinite(Rr[i]))
        d = max(alg.dist(L[i], Rr[i]), alg.dist(L[i], ref)) if fin else float('inf')
        ctx.stats['worst:' + key] = max(ctx.stats.get('worst:' + key, 0.0), d / scale)
        if not d <= TOL * scale:
            ctx.fail(f"{key}:value", f"{alg.name} (sequences of length {[len(r) for r in raws]}): element {i} of {tree_str(lt)} / "
                     f"{tree_str(rt)} / the value on the {i}-th elements differ by {d:g} (allowed {TOL:g} * {scale:g})",
                     dict(rep, element=i, lhs_value=L[i].tolist(), rhs_value=Rr[i].tolist(), reference=ref.tolist(), difference=d))
            return


def oracle_groups(ctx):
    rng = ctx.rng
    N = ctx.n(400, 8000)
    NT = ctx.n(300, 8000)
    for alg in ALGS:
        for i in range(N):
            raw = [alg.sample(rng) for _ in range(3)]
            if alg.se and i % 4 == 0:          # equal magnitudes: cancellation between large translations
                m = log_uniform(rng, 1e-6, 1e6)
                for r in raw:
                    r[:alg.n, alg.n] = rand_unit(rng, alg.n) * m
            if i % 5 == 1:
                # nano-scale increments composed with data of magnitude 1e-6: one to three of the operands are tiny
                # non-identity motions, the others get translations of 1e-6 (so the allowed error is 1e-9 absolute)
                which = [j for j in range(3) if rng.random() < 0.5] or [1]
                for j in range(3):
                    if j in which:
                        raw[j] = alg.tiny(rng)
                    elif alg.se:
                        raw[j][:alg.n, alg.n] = rand_unit(rng, alg.n) * 1e-6
            n = int(rng.integers(-8, 9))
            for law, lt, rt in laws(n):
                check_pair(ctx, alg, law, lt, rt, raw)
        # X ** n is the n-fold product, also as computed by prod() of a sequence holding n copies (prod() builds with
        # check=False since /repo b6a19d9; 300 copies of a rotation drift past the 100 eps of the validity test)
        if isinstance(alg, MatAlg):
            for i in range(ctx.n(40, 800)):
                Xr = alg.sample(rng)
                n = int(rng.integers(2, 9)) if i else 300
                if i == 0 and alg.n == 2:
                    Xr = alg.sample(rng)
                    c, s_ = math.cos(-3.14), math.sin(-3.14)
                    Xr[:2, :2] = [[c, -s_], [s_, c]]
                key = f"oracle:{alg.name}:pow-is-prod"
                ctx.count(key)
                ctx.case((alg.name, 'pow-is-prod', n, tuple(Xr.flatten())))
                ref, tm = alg.ident(), alg.tmag(Xr)
                for _ in range(n):
                    ref = ref @ Xr
                    tm = max(tm, alg.tmag(ref))
                scale = max(1.0, tm)
                rep = {'class': alg.name, 'law': 'pow-is-prod', 'n': n, 'operand_hex': hexl(Xr)}
                try:
                    Pp = alg.unwrap(alg.wrap_seq([Xr] * n).prod())
                    Pn = alg.unwrap(alg.wrap(Xr) ** n) if n <= 8 else ref
                    d = max(alg.dist(Pp, Pn), alg.dist(Pp, ref))
                except Exception as ex:
                    ctx.fail(f"{key}:raises:{type(ex).__name__}", f"{alg.name}: prod() of {n} copies of X raises {type(ex).__name__}: {ex}",
                             dict(rep, exception=f"{type(ex).__name__}: {ex}"))
                    continue
                ctx.stats['worst:' + key] = max(ctx.stats.get('worst:' + key, 0.0), d / scale)
                if not d <= TOL * scale:
                    ctx.fail(f"{key}:value", f"{alg.name}: prod() of {n} copies of X, X**{n} and the {n}-fold product differ by {d:g} "
                             f"(allowed {TOL:g} * {scale:g})", dict(rep, difference=d))
        # the same laws on sequences (length k against k, k against 1, 1 against k)
        for i in range(ctx.n(40, 800)):
            k = int(rng.integers(2, 5))
            shape = [(k, k, k), (k, 1, k), (1, k, 1), (k, k, 1)][i % 4]
            raws = [[alg.sample(rng) for _ in range(m)] for m in shape]
            n = int(rng.integers(-8, 9))
            for law, lt, rt in laws(n):
                uses = {('XYZ'.index(c)) for c in tree_str(lt) + tree_str(rt) if c in 'XYZ'}
                kk = max(len(raws[j]) for j in uses)
                if kk == 1:
                    continue
                check_pair_seq(ctx, alg, law, lt, rt, raws, kk)
        # the base-layer structured inverses are the true matrix inverse
        if alg.name in ('SE2', 'SE3'):
            f = base.trinv if alg.name == 'SE3' else base.trinv2
            for i in range(N):
                T = alg.sample(rng)
                ctx.count(f'oracle:{alg.name}:trinv')
                ctx.case((alg.name, 'trinv', tuple(T.flatten())))
                scale = max(1.0, alg.tmag(T))
                try:
                    Ti = np.asarray(f(T), float)
                    d = max(alg.dist(T @ Ti, np.eye(alg.N)), alg.dist(Ti @ T, np.eye(alg.N)))
                except Exception as ex:
                    ctx.fail(f'oracle:{alg.name}:trinv:raises:{type(ex).__name__}', f"{f.__name__} raises {type(ex).__name__}: {ex}",
                             {'T_hex': hexl(T)})
                    continue
                ctx.stats[f'worst:oracle:{alg.name}:trinv'] = max(ctx.stats.get(f'worst:oracle:{alg.name}:trinv', 0.0), d / scale)
                if not d <= TOL * scale:
                    ctx.fail(f'oracle:{alg.name}:trinv:value', f"{f.__name__}(T) is not the two-sided inverse of T: residual {d:g} "
                             f"(allowed {TOL:g} * {scale:g})", {'T_hex': hexl(T), 'residual': d})
        # random expression trees, depth <= 5, against the word they denote (only `*` and leaf inverses)
        if alg.name in ('SO2', 'SE2'):
            # regression cases of the defect repaired by /repo 1c511ed (SO2.inv / SE2.inv re-validated, at 100 eps, values
            # the library had computed itself with check=False: ((X**-8)**-8).inv() raised).  Own law name, so that a
            # recurrence is reported under a key no old known-finding entry can match.
            c, s_ = math.cos(-3.14), math.sin(-3.14)
            X0 = np.array([[c, -s_], [s_, c]]) if alg.name == 'SO2' else np.array([[c, -s_, 1.0], [s_, c, 2.0], [0, 0, 1.0]])
            for t0 in (('inv', ('pow', ('pow', ('leaf', 0), -8), -8)),
                       ('inv', ('pow', ('pow', ('pow', ('leaf', 0), 8), 8), 4)),
                       ('div', ('leaf', 1), ('pow', ('pow', ('leaf', 0), -8), -8))):
                check_pair(ctx, alg, 'inv-of-drifted-value', t0, word_tree(word(t0)), [X0, X0.copy(), X0.copy()])
            for _ in range(ctx.n(30, 600)):
                Xr = alg.sample(rng)
                t0 = ('inv', ('pow', ('pow', ('leaf', 0), int(rng.choice([-8, 8]))), int(rng.choice([-8, 8]))))
                check_pair(ctx, alg, 'inv-of-drifted-value', t0, word_tree(word(t0)), [Xr, Xr.copy(), Xr.copy()])
        k = 0
        while k < NT:
            t = rand_tree(rng, 5)
            w = word(t)
            if len(w) > 200 or t[0] == 'leaf':
                continue
            k += 1
            raw = [alg.sample(rng) for _ in range(3)]
            check_pair(ctx, alg, 'tree', t, word_tree(w), raw)
    ctx.sample({'kind': 'oracle', 'class': 'SE3', 'law': 'tree', 'tree': tree_str(t), 'word_length': len(w)})


# ---- twists: compared as the motions they generate ------------------------------------------------------------
def oracle_histories(ctx):
    """group laws on objects with a HISTORY: inverse, quotient and negative power are functions of the CURRENT values, whatever was asked of the
    object before and however it was updated in place since (item assignment, reverse, append + pop, insert + delete, extend + delete) --
    a result remembered from an earlier call must not survive a length-preserving update"""
    rng = ctx.rng
    for alg in ALGS:
        for rep in range(ctx.n(6, 60)):
            k = int(rng.integers(2, 5))
            vals = [alg.sample(rng) for _ in range(k)]
            X = alg.wrap_seq(vals)
            Y = alg.wrap(alg.sample(rng))
            yv = alg.unwrap(Y)

            def verify(stage):
                cur = alg.unwrap_seq(X, len(vals))
                scale = max([1.0] + [alg.tmag(v) for v in vals] + [alg.tmag(yv)]) ** 2
                rep_in = {'class': alg.name, 'stage': stage, 'values_hex': [hexl(v) for v in vals]}
                ctx.case(('hist', alg.name, stage, rep))
                ctx.count('oracle:history')
                for i, (c, v) in enumerate(zip(cur, vals)):
                    if not alg.dist(c, v) <= TOL * scale:
                        ctx.fail(f'oracle:{alg.name}:history:{stage}:stored-value', f"{alg.name}: value {i} after {stage} is not the value assigned", rep_in)
                        return
                try:
                    got = {'inv': alg.unwrap_seq(X.inv(), len(vals)),
                           'x*inv': alg.unwrap_seq(X * X.inv(), len(vals)),
                           'y/x': alg.unwrap_seq(Y / X, len(vals)),
                           'pow-1': alg.unwrap_seq(X ** -1, len(vals)),
                           'pow-2': alg.unwrap_seq(X ** -2, len(vals))}
                except Exception as ex:  # noqa
                    ctx.fail(f'oracle:{alg.name}:history:{stage}:raises-{type(ex).__name__}', f"{alg.name}: inverse / quotient / power after {stage} raises {type(ex).__name__}: {ex}", rep_in)
                    return
                want = {'inv': [alg.inv(v) for v in vals], 'x*inv': [alg.ident() for v in vals], 'y/x': [alg.mul(yv, alg.inv(v)) for v in vals],
                        'pow-1': [alg.inv(v) for v in vals], 'pow-2': [alg.mul(alg.inv(v), alg.inv(v)) for v in vals]}
                for law in got:
                    for i, (g_, w_) in enumerate(zip(got[law], want[law])):
                        if not alg.dist(g_, w_) <= TOL * scale:
                            ctx.fail(f'oracle:{alg.name}:history:{law}:stale-or-wrong-after-update',
                                     f"{alg.name}: {law} of value {i} after [{stage}] differs from the one computed from the current value by {alg.dist(g_, w_):.3g} "
                                     f"(the object was asked for its inverse before the update)", dict(rep_in, law=law, index=i))
                            return
            verify('construction')                      # also primes anything the object may remember
            j = int(rng.integers(0, k))
            nv = alg.sample(rng)
            X[j] = alg.wrap(nv)
            vals[j] = nv
            verify('item assignment')
            X.reverse()
            vals.reverse()
            verify('reverse')
            nv = alg.sample(rng)
            X.append(alg.wrap(nv))
            X.pop(0)
            vals.append(nv)
            vals.pop(0)
            verify('append then pop(0)')
            nv = alg.sample(rng)
            X.insert(1, alg.wrap(nv))
            del X[0]
            vals.insert(1, nv)
            del vals[0]
            verify('insert then del')
            nv2 = [alg.sample(rng) for _ in range(2)]
            X.extend(alg.wrap_seq(nv2))
            del X[0:2]
            vals.extend(nv2)
            del vals[0:2]
            verify('extend then del slice')
            X *= Y
            vals = [alg.mul(v, yv) for v in vals]
            verify('in-place product')


def rot_angle(R):
    n = R.shape[0]
    if n == 2:
        return abs(math.atan2(R[1, 0], R[0, 0]))
    v = np.r_[R[2, 1] - R[1, 2], R[0, 2] - R[2, 0], R[1, 0] - R[0, 1]]
    return math.atan2(np.linalg.norm(v) / 2, (np.trace(R) - 1) / 2)


def exp_ref3(S):
    """independent exponential of a 3-D twist [v, w] (Rodrigues + translation integral)"""
    v, w = S[:3], S[3:]
    th = np.linalg.norm(w)
    T = np.eye(4)
    if th < 1e-300:
        T[:3, 3] = v
        return T
    K = np.array([[0, -w[2], w[1]], [w[2], 0, -w[0]], [-w[1], w[0], 0]]) / th
    if th < 1e-4:
        a, b, c = 1 - th * th / 6, 0.5 - th * th / 24, 1 / 6 - th * th / 120
    else:
        a, b, c = math.sin(th) / th, (1 - math.cos(th)) / th ** 2, (th - math.sin(th)) / th ** 3
    T[:3, :3] = np.eye(3) + a * th * K + b * th * th * (K @ K)
    T[:3, 3] = (np.eye(3) + b * th * K + c * th * th * (K @ K)) @ v
    return T


def exp_ref2(S):
    v, w = S[:2], S[2]
    T = np.eye(3)
    c, s = math.cos(w), math.sin(w)
    T[:2, :2] = [[c, -s], [s, c]]
    if abs(w) < 1e-4:
        a, b = 1 - w * w / 6, w / 2 - w ** 3 / 24
    else:
        a, b = s / w, (1 - c) / w
    T[:2, 2] = np.array([[a, -b], [b, a]]) @ v
    return T


def twist_sample(rng, dim):
    """twist [v, w]: rotation angle over [0, pi] incl. the ends, moment 1e-6..1e6"""
    r = rng.random()
    th = (0.0 if r < 0.08 else math.pi if r < 0.16 else log_uniform(rng, 1e-16, 1e-1) if r < 0.30
          else math.pi - log_uniform(rng, 1e-16, 1e-1) if r < 0.44 else rng.uniform(0, math.pi))
    if dim == 3:
        return np.r_[rand_trans(rng, 1e-6, 1e6), rand_unit(rng) * th]
    return np.r_[rand_trans(rng, 1e-6, 1e6, 2), th * rng.choice([-1.0, 1.0])]


def tw_eval(name, cls, t, leaves, diag):
    """evaluate a twist tree with the class operators; BEFORE every product the argument of the logarithm that
    `__mul__` is about to take, exp(x) @ exp(y), is recomputed with the same library calls, so that a failure can be
    classified by root cause from the implementation's own values (not from a reference that may round differently)"""
    k = t[0]
    if k == 'leaf':
        return leaves[t[1]]
    if k == 'id':
        return cls()
    if k == 'mul':
        x, y = tw_eval(name, cls, t[1], leaves, diag), tw_eval(name, cls, t[2], leaves, diag)
        with np.errstate(all='ignore'):
            M = base.trexp(x.S) @ base.trexp(y.S) if name == 'Twist3' else base.trexp2(x.S) @ base.trexp2(y.S)
        fin = bool(np.all(np.isfinite(M)))
        diag['angles'].append(rot_angle(M[:-1, :-1]) if fin else float('nan'))
        return x * y
    if k == 'inv':
        return tw_eval(name, cls, t[1], leaves, diag).inv()
    raise ValueError(k)


def tw_ref(t, mats, inv, info):
    """reference motion of a twist tree (independent exponentials); info['tmax'] = largest translation seen"""
    k = t[0]
    if k == 'leaf':
        r = mats[t[1]]
    elif k == 'id':
        r = np.eye(mats[0].shape[0])
    elif k == 'mul':
        r = tw_ref(t[1], mats, inv, info) @ tw_ref(t[2], mats, inv, info)
    elif k == 'inv':
        r = inv(tw_ref(t[1], mats, inv, info))
    info['tmax'] = max(info['tmax'], float(np.linalg.norm(r[:-1, -1])))
    return r


def twist_cause(name, diag):
    """root-cause class of a twist-law failure.  Since /repo 84bd1d7 + 5f912b1 (trlog) and c4462a7 (closed-form trlog2)
    no root cause is left: the laws are required to 1e-7 over the WHOLE angle range and every failure is keyed per law"""
    return 'generic'


def oracle_twists(ctx):
    rng = ctx.rng
    N = ctx.n(600, 8000)
    X, Y, Z, I = ('leaf', 0), ('leaf', 1), ('leaf', 2), ('id',)
    tlaws = [('assoc', ('mul', ('mul', X, Y), Z), ('mul', X, ('mul', Y, Z))),
             ('compose', ('mul', X, Y), None),
             ('identity-right', ('mul', X, I), X), ('identity-left', ('mul', I, X), X),
             ('inverse-right', ('mul', X, ('inv', X)), I), ('inverse-left', ('mul', ('inv', X), X), I),
             ('inv-antihom', ('inv', ('mul', X, Y)), ('mul', ('inv', Y), ('inv', X)))]
    for name, cls, dim, expr, alg in (('Twist3', Twist3, 3, exp_ref3, ALGS[3]), ('Twist2', Twist2, 2, exp_ref2, ALGS[1])):
        for i in range(N):
            raw = [twist_sample(rng, dim) for _ in range(3)]
            if i < len(TWIST_SPECIALS[name]):
                raw = [np.array(S, float) for S in TWIST_SPECIALS[name][i]]
            for law, lt, rt in tlaws:
                twist_case(ctx, name, cls, expr, alg, law, lt, rt, raw)
        # more X*X.inv() / X.inv()*X: exp(X) @ exp(-X) is the identity up to round-off, sometimes just ABOVE iseye's 10 eps
        # with an exactly symmetric residue (about 1 in 2000) -- the case repaired by /repo 5f912b1 (trlog: st == 0 -> 0/0)
        for i in range(ctx.n(1500, 15000)):
            raw = [twist_sample(rng, dim)] * 3
            for law, lt, rt in tlaws[4:6]:
                twist_case(ctx, name, cls, expr, alg, law, lt, rt, raw)


def twist_case(ctx, name, cls, expr, alg, law, lt, rt, raw):
    mats = [expr(S) for S in raw]
    info = {'tmax': 0.0}
    ref = tw_ref(lt, mats, alg.inv, info)
    if rt is not None:
        tw_ref(rt, mats, alg.inv, info)
    scale = max(1.0, info['tmax'])
    ctx.case((name, law, tuple(np.concatenate(raw))))
    diag = {'angles': []}
    rep = {'kind': 'twist', 'class': name, 'law': law, 'lhs': tree_str(lt), 'rhs': tree_str(rt) if rt else 'exp(X)*exp(Y)',
           'lhs_tree': lt, 'rhs_tree': rt, 'twists_hex': [hexl(S) for S in raw], 'twists': [S.tolist() for S in raw]}
    try:
        leaves = [cls(S) for S in raw]
        with np.errstate(all='ignore'):
            L = np.asarray(tw_eval(name, cls, lt, leaves, diag).exp().A, float)
            Rr = np.asarray(tw_eval(name, cls, rt, leaves, diag).exp().A, float) if rt is not None else \
                np.asarray((leaves[0].exp() * leaves[1].exp()).A, float)
    except Exception as ex:
        cause = twist_cause(name, diag)
        ctx.count(f"oracle:{name}:{law}:{cause}")
        k2 = f"oracle:{name}:{cause}:raises" if cause != 'generic' else f"oracle:{name}:{law}:generic:raises:{type(ex).__name__}"
        ctx.fail(k2, f"{name}: {rep['lhs']} == {rep['rhs']} (as motions) raises {type(ex).__name__}: {ex} "
                 f"[rotation angles of the composed motions: {diag['angles']}]",
                 dict(rep, exception=f"{type(ex).__name__}: {ex}", cause=cause, composed_rotation_angles=diag['angles']))
        return
    cause = twist_cause(name, diag)
    ctx.count(f"oracle:{name}:{law}:{cause}")
    ok_shape = L.shape == Rr.shape == ref.shape and np.all(np.isfinite(L)) and np.all(np.isfinite(Rr))
    d = float(np.max(np.abs(L - Rr))) if ok_shape else float('inf')
    wk = f"worst:oracle:{name}:{cause}"
    ctx.stats[wk] = max(ctx.stats.get(wk, 0.0), d / scale)
    if not d <= TOL_TWIST * scale:
        k2 = f"oracle:{name}:{cause}:value" if cause != 'generic' else f"oracle:{name}:{law}:generic:value"
        ctx.fail(k2, f"{name}: {rep['lhs']} and {rep['rhs']} differ as motions by {d:g} (allowed {TOL_TWIST:g} * {scale:g}) "
                 f"[rotation angles of the composed motions: {diag['angles']}]",
                 dict(rep, difference=d, scale=scale, cause=cause, composed_rotation_angles=diag['angles']))


_AX = [1 / math.sqrt(14), 2 / math.sqrt(14), 3 / math.sqrt(14)]
# deterministic operands: regression cases of the defects repaired by /repo 84bd1d7 (trlog near pi / tiny angles) and c4462a7
# (trlog2 via logm), now required to hold under the per-law generic keys; the 4th Twist3 entry (symmetric round-off just above iseye,
# st == 0 in trlog) was repaired by 5f912b1
TWIST_SPECIALS = {
    'Twist3': [
        [[0.3, -0.2, 0.5] + [a * (math.pi - 1e-6) for a in _AX], [0.1, 0.2, 0.3, 0.2, -0.1, 0.4], [1, 0, 0, 0, 0, 0.5]],
        [[0.3, -0.2, 0.5] + [a * 1e-9 for a in _AX], [0.1, 0.2, 0.3, 0.2, -0.1, 0.4], [1, 0, 0, 0, 0, 0.5]],
        [[0.3, -0.2, 0.5] + [a * math.pi for a in _AX], [0.1, 0.2, 0.3, 0.2, -0.1, 0.4], [1, 0, 0, 0, 0, 0.5]],
        # exp(X) @ exp(-X) = I + 2.4e-15 (symmetric): not `iseye`; before 5f912b1 trlog computed 0/0 here
        [[0.0005663899941463186, -0.0006996012426814142, -0.00046753360502624835, 2.8005337726876376, 0.6718287654153237,
          -1.2550924243366512], [0.1, 0.2, 0.3, 0.2, -0.1, 0.4], [1, 0, 0, 0, 0, 0.5]],
    ],
    'Twist2': [
        [[0.3, -1.0, math.pi], [1.0, 2.0, 0.5], [0.2, 0.1, -0.3]],
        [[3.33455071, -0.02052536, 2.22780431], [-33.26581578, 20.01133472, -2.13535133], [3.45171182e+05, -8.63183698e+05, -2.89921935]],
    ],
}


def run(ctx):
    from concurrent.futures import ThreadPoolExecutor
    ctx.rule = ("obligations: theorems of theories/Props/C02_{a,b,q,p}.v over the traces regenerated from /repo; evaluations: "
                "Sym==Num / T-num cases (generated and hand models vs implementation) + oracle evaluations of both sides of each "
                "law on the implementation; a case is distinct by its (class, law, operands) signature")
    ctx.trusted_extra = [
        "np.linalg.matrix_power for a NON-NEGATIVE exponent modelled as the iterated product (Model/C02_Pow.v), tied by the symbolic "
        "traces of X**n (|n| <= 4) and by T-num for |n| <= 8; negative exponents go through the class's own closed-form inverse, "
        "which is traced (no NumPy inverse and no harness patch of NumPy is involved any more)"]
    with ctx.timed('regenerate'):
        g = build(ctx)
        p = ctx.write_gen(MOD + '.v', gen_text(g))
    rc, out, err, dt = ctx.coqc(p)
    if rc != 0:
        ctx.fail('gen:compile', 'generated traces do not compile: ' + err[-800:], no_input=True)
        return
    files = ['theories/Props/C02_a.v', 'theories/Props/C02_b.v', 'theories/Props/C02_q.v', 'theories/Props/C02_p.v']
    with ThreadPoolExecutor(max_workers=4) as ex:
        futs = [ex.submit(ctx.prove, f) for f in files]       # coqc subprocesses; the Python side goes on meanwhile
        with ctx.timed('correspond'):
            sym_num(ctx, g, MOD, ctx.n(12, 200))
        with ctx.timed('oracle'):
            oracle_groups(ctx)
            oracle_twists(ctx)
            oracle_histories(ctx)
        for f in futs:
            f.result()
    # keep the obligations in file order whatever the completion order was
    ctx.obligations.sort(key=lambda o: o.file)


def _tup(t):
    return tuple(_tup(x) if isinstance(x, list) else x for x in t) if isinstance(t, list) else t


def replay(ctx, path):
    """re-run exactly the recorded case (oracle findings); broken obligations / correspondences re-run the whole check"""
    rec = json.load(open(path))
    key, r = rec.get('key'), rec.get('replay') or {}
    kind = r.get('kind')
    unhex = lambda l: np.array([float.fromhex(x) for x in l])
    if key is None or kind is None:
        run(ctx)
        key = key or ('obligation:' + rec.get('broken_obligation', ''))
        keys = {f.key for f in ctx.findings} | {'obligation:' + o.name for o in ctx.obligations if o.ok is False}
    else:
        lt, rt = _tup(r['lhs_tree']), _tup(r['rhs_tree']) if r['rhs_tree'] is not None else None
        if kind == 'twist':
            name = r['class']
            cls, expr, alg = (Twist3, exp_ref3, ALGS[3]) if name == 'Twist3' else (Twist2, exp_ref2, ALGS[1])
            twist_case(ctx, name, cls, expr, alg, r['law'], lt, rt, [unhex(S) for S in r['twists_hex']])
        else:
            alg = [a for a in ALGS if a.name == r['class']][0]
            shp = (4,) if alg.name == 'UnitQuaternion' else (alg.N, alg.N)
            if kind == 'single':
                check_pair(ctx, alg, r['law'], lt, rt, [unhex(o).reshape(shp) for o in r['operands_hex']])
            else:
                check_pair_seq(ctx, alg, r['law'], lt, rt, [[unhex(o).reshape(shp) for o in oo] for oo in r['operands_hex']], r['k'])
        keys = {f.key for f in ctx.findings}
    for f in ctx.findings:
        print(f"  {f.key}: {f.what[:300]}")
    if key in keys:
        print(f"REPRODUCED {key}")
        return 1
    print(f"not reproduced: {key}")
    return 0
