"""C16 -- symbolic results agree with numeric results.

Here the T-sym tracer is the SUBJECT: every API entry whose docstring says ':SymPy: supported' (enumerated from
/repo's working tree on every run) and the pose-class operators over them are executed on SymPy symbols, in every
documented call form, all-symbolic and mixed symbolic/numeric.

 * the returned expressions are printed as Gallina definitions (coq/gen/Traces_C16.v); the fixed theorem files
   theories/Props/C16_a.v (base functions), C16_b.v (pose classes and operators), C16_c.v (mixed arguments) state
   (i) trace = reference semantics of the numeric path, (ii) structural 0/1 entries are syntactically zero/one
   (proved by conversion over an ABSTRACT ops record), (iii) mixed = all-symbolic specialised, (iv) pose operators =
   matrix model;
 * Sym==Num tie: lib/corr.py runs the extracted Gallina text on floats against the numeric call;
 * oracle (the property's own observable, always run): substitute numbers -- full numeric range, special angles --
   into the symbolic result (lambdify) and compare with the numeric call to 1e-12; structural 0/1 of the numeric
   result must be exact numbers 0/1 in the symbolic result; the two paths must accept the same call forms.

NOTE: lib.concolic is deliberately NOT installed: its patches (np.isscalar accepting sympy.Expr, math.sin on symbols)
would make symbolic paths work that fail in the real library.
"""
import ast
import math
import os
import re
import traceback
import warnings
import numpy as np
import sympy

from lib import core
from lib.symtrace import Gen, SHAPES, sym_input, to_object_array, coq_expr
from lib.corr import sym_num
from lib.gens import angle, log_uniform, rand_rot, rand_se3, rand_rot2, rand_se2

warnings.filterwarnings('ignore')
import spatialmath  # noqa: E402
from spatialmath import base, SE3, SO3, SE2, SO2, Twist3  # noqa: E402

MOD = 'Traces_C16'
TOL = 1e-12
REPO = core.REPO


# ----------------------------------------------------------------------------------------------------------------
# enumeration of the tagged entries (run time, from the working tree)
def enumerate_tagged():
    """{qualified name: tag text} for every function/method whose docstring has a ':SymPy:' line"""
    root = os.path.join(REPO, 'spatialmath')
    res = {}
    for dp, dn, fns in os.walk(root):
        dn.sort()
        for fn in sorted(fns):
            if not fn.endswith('.py') or fn.startswith('test_'):
                continue
            p = os.path.join(dp, fn)
            try:
                tree = ast.parse(open(p).read())
            except SyntaxError:
                continue
            inbase = os.path.basename(dp) == 'base'

            def visit(node, cls):
                for ch in ast.iter_child_nodes(node):
                    if isinstance(ch, ast.FunctionDef):
                        d = ast.get_docstring(ch) or ''
                        m = re.search(r':SymPy:\s*(.*)', d)
                        if m:
                            q = (cls + '.' + ch.name) if cls else (('base.' if inbase else fn[:-3] + '.') + ch.name)
                            res[q] = m.group(1).strip()
                    elif isinstance(ch, ast.ClassDef):
                        visit(ch, ch.name)
            visit(tree, None)
    return res


def is_supported(tag):
    return tag.lower().startswith('supported')


# ----------------------------------------------------------------------------------------------------------------
# numeric domains
def draw(rng, dom):
    if dom == 'ang':
        return float(angle(rng))
    if dom == 'deg':
        r = rng.random()
        if r < 0.4:
            return float(rng.choice([0.0, 90.0, -90.0, 180.0, -180.0, 45.0, 360.0, 270.0]))
        return float(rng.uniform(-360, 360))
    if dom == 'lin':
        r = rng.random()
        if r < 0.1:
            return 0.0
        if r < 0.2:
            return float(rng.choice([1.0, -1.0, 2.0, 0.5]))
        return float(log_uniform(rng, 1e-6, 1e6) * rng.choice([-1.0, 1.0]))
    if dom == 'gen':
        return float(rng.normal() * 10 ** rng.uniform(-0.5, 0.5))
    if dom == 'nzl':      # a length that must not vanish (argument of unitvec): both signs, 1e-6 .. 1e6
        return float(log_uniform(rng, 1e-6, 1e6) * rng.choice([-1.0, 1.0]))
    if dom == 'nz':       # scalar operand of a pose operator (also a divisor): special values and magnitudes, never 0
        r = rng.random()
        if r < 0.25:
            return float(rng.choice([1.0, -1.0, 2.0, 0.5, -3.0]))
        return float(log_uniform(rng, 1e-3, 1e3) * rng.choice([-1.0, 1.0]))
    raise ValueError(dom)


def sample_arg(rng, sh, dom, generic=False):
    """generic=True: no special values (used to find the structural constants of the numeric result)"""
    shape = SHAPES[sh]
    if dom == 'se3':
        T = rand_se3(rng, 1e-6, 1e6)
        if generic:
            T = rand_se3(rng, 0.5, 5.0)
            T[:3, :3] = _generic_rot(rng)
        return T
    if dom == 'rot':
        return _generic_rot(rng) if generic else rand_rot(rng)
    if dom == 'se2':
        T = rand_se2(rng, 1e-6, 1e6)
        if generic:
            th = rng.uniform(0.3, 1.2)
            T = np.array([[math.cos(th), -math.sin(th), rng.uniform(0.5, 2)], [math.sin(th), math.cos(th), rng.uniform(0.5, 2)], [0, 0, 1.0]])
        return T
    if dom == 'rot2':
        if generic:
            th = rng.uniform(0.3, 1.2)
            return np.array([[math.cos(th), -math.sin(th)], [math.sin(th), math.cos(th)]])
        return rand_rot2(rng)
    if dom == 'hom':      # generic upper rows, last row (0,..,0,1)
        M = rng.normal(size=shape) * 10 ** rng.uniform(-0.5, 0.5)
        M[-1, :] = 0.0
        M[-1, -1] = 1.0
        return M
    if generic:
        # generic is 1, 2, 3 ...: the first generic sample is all-positive, the second all-negative, then random signs, so
        # that a sign-dependent entry (x/|x|) is never mistaken for a structural constant
        sg = {1: lambda: 1.0, 2: lambda: -1.0}.get(int(generic), lambda: float(rng.choice([-1.0, 1.0])))
        f = lambda: float(rng.uniform(0.3, 1.2) * sg()) * (40.0 if dom == 'deg' else 1.0)
    else:
        f = lambda: draw(rng, dom)
    if not shape:
        return f()
    n = int(np.prod(shape))
    return np.array([f() for _ in range(n)]).reshape(shape)


def _generic_rot(rng):
    a, b, c = rng.uniform(0.3, 1.2, size=3)
    ca, sa, cb, sb, cc, sc = math.cos(a), math.sin(a), math.cos(b), math.sin(b), math.cos(c), math.sin(c)
    Rz = np.array([[ca, -sa, 0], [sa, ca, 0], [0, 0, 1]])
    Ry = np.array([[cb, 0, sb], [0, 1, 0], [-sb, 0, cb]])
    Rx = np.array([[1, 0, 0], [0, cc, -sc], [0, sc, cc]])
    return Rz @ Ry @ Rx


# ----------------------------------------------------------------------------------------------------------------
# the call-form table
class Form:
    def __init__(self, entry, fid, args, call, trace=None, out=None, doc='', post=None, numcall=None):
        self.entry, self.fid, self.args, self.call, self.trace, self.out, self.doc, self.post = \
            entry, fid, args, call, trace, out, doc, post
        # numeric side of the comparison: the same call on numbers, unless an independent numeric counterpart is given
        # (simplify: the un-simplified numeric product -- simplification must not change the value)
        self.numcall = numcall or call

    @property
    def inputs(self):
        return [(n, sh) for n, sh, _ in self.args]


def unwrap(r):
    """library result -> ndarray / scalar"""
    if hasattr(r, 'A') and not isinstance(r, np.ndarray):
        r = r.A
    elif hasattr(r, 'S') and not isinstance(r, np.ndarray):      # Twist3
        r = r.S
    if isinstance(r, (list, tuple)):
        r = np.array([np.asarray(x, dtype=object) for x in r], dtype=object)
    return r


class SequenceShapeError(Exception):
    pass


def _elt(obj, i, n=2):
    """value i of a pose object that must hold exactly n values (a multi-valued symbolic pose has to stay a sequence of n matrices:
    `.A[i]` alone would also index into one mis-shaped (n,N,N) value)"""
    shp = obj.shape
    if len(obj) != n or len(obj.data) != n or any(np.shape(d) != shp for d in obj.data):
        raise SequenceShapeError(f"{type(obj).__name__} result holds {len(obj)} value(s) of shapes {[np.shape(d) for d in obj.data]}, expected {n} values of shape {shp}")
    return obj.data[i]      # (indexing re-validates the value numerically in some classes: not part of this property)


def L(v):
    """array -> python list of its elements (the 'list' call form)"""
    return list(np.asarray(v, dtype=object).flatten()) if np.asarray(v).dtype == object else [float(x) for x in np.asarray(v).flatten()]


def hom(X):
    """a 4x4 / 3x3 array with the structural last row of a homogeneous transform (0,..,0,1)"""
    X = np.array(X, dtype=object if np.asarray(X).dtype == object else float)
    X[-1, :] = 0
    X[-1, -1] = 1
    return X


def forms():
    F = []

    def add(entry, fid, args, call, trace=None, out=None, doc='', post=None, numcall=None):
        w = lambda c: (lambda *a: unwrap(c(*a))) if c is not None else None
        F.append(Form(entry, fid, args, w(call), trace, out, doc, post, w(numcall)))

    S, V3, V6, V4, M33, M44, M22 = 'S', 'V3', 'V6', 'V4', 'M33', 'M44', 'M22'
    # ---------------- elementary rotations
    for ax in 'xyz':
        rot, trot = getattr(base, 'rot' + ax), getattr(base, 'trot' + ax)
        add(f'base.rot{ax}', 'theta', [('t', S, 'ang')], rot, trace=f'tr_rot{ax}')
        add(f'base.rot{ax}', "theta,'deg'", [('t', S, 'deg')], (lambda f: lambda t: f(t, 'deg'))(rot), trace=f'tr_rot{ax}_deg', post='deg')
        add(f'base.trot{ax}', 'theta', [('t', S, 'ang')], trot, trace=f'tr_trot{ax}')
        add(f'base.trot{ax}', "theta,'deg'", [('t', S, 'deg')], (lambda f: lambda t: f(t, 'deg'))(trot), trace=f'tr_trot{ax}_deg', post='deg')
        add(f'base.trot{ax}', 'theta,t=list', [('t', S, 'ang'), ('v', V3, 'lin')], (lambda f: lambda t, v: f(t, t=L(v)))(trot), trace=f'tr_trot{ax}_t')
        add(f'base.trot{ax}', 'theta,t=array', [('t', S, 'ang'), ('v', V3, 'lin')], (lambda f: lambda t, v: f(t, t=v))(trot))
        add(f'base.trot{ax}', 'theta,t=[1,2,3]', [('t', S, 'ang')], (lambda f: lambda t: f(t, t=[1, 2, 3]))(trot), trace=f'tr_trot{ax}_tnum')
        add(f'base.trot{ax}', '0.3,t=[x,y,z]', [('v', V3, 'lin')], (lambda f: lambda v: f(0.3, t=L(v)))(trot), trace=f'tr_trot{ax}_num_t')
    # ---------------- transl
    add('base.transl', 'x,y,z', [('x', S, 'lin'), ('y', S, 'lin'), ('z', S, 'lin')], base.transl, trace='tr_transl_xyz')
    add('base.transl', 'list', [('v', V3, 'lin')], lambda v: base.transl(L(v)), trace='tr_transl_list')
    add('base.transl', 'array', [('v', V3, 'lin')], base.transl, trace='tr_transl_arr')
    add('base.transl', 'tuple', [('v', V3, 'lin')], lambda v: base.transl(tuple(L(v))))
    add('base.transl', 'x,2,3', [('x', S, 'lin')], lambda x: base.transl(x, 2, 3), trace='tr_transl_x23')
    add('base.transl', '1,y,3.5', [('y', S, 'lin')], lambda y: base.transl(1, y, 3.5), trace='tr_transl_1y35')
    add('base.transl', '[x,2.0,3]', [('x', S, 'lin')], lambda x: base.transl([x, 2.0, 3]), trace='tr_transl_listx23')
    add('base.transl', 'T->t', [('X', M44, 'se3')], base.transl, trace='tr_transl_M')
    # ---------------- Euler angles
    for nm, fn in (('eul2r', base.eul2r), ('eul2tr', base.eul2tr)):
        add(f'base.{nm}', 'list', [('v', V3, 'ang')], (lambda f: lambda v: f(L(v)))(fn), trace=f'tr_{nm}_list')
        add(f'base.{nm}', 'array', [('v', V3, 'ang')], fn, trace=f'tr_{nm}_arr')
        add(f'base.{nm}', 'phi,theta,psi (3 scalars)', [('a', S, 'ang'), ('b', S, 'ang'), ('c', S, 'ang')], fn, trace=f'tr_{nm}_3')
        add(f'base.{nm}', 'list,unit=deg', [('v', V3, 'deg')], (lambda f: lambda v: f(L(v), unit='deg'))(fn), trace=f'tr_{nm}_deg', post='deg')
        add(f'base.{nm}', '[a,0.0,c]', [('a', S, 'ang'), ('c', S, 'ang')], (lambda f: lambda a, c: f([a, 0.0, c]))(fn), trace=f'tr_{nm}_a0c')
        add(f'base.{nm}', '[a,0.2,0.3]', [('a', S, 'ang')], (lambda f: lambda a: f([a, 0.2, 0.3]))(fn))
        add(f'base.{nm}', '0.1,theta,psi', [('b', S, 'ang'), ('c', S, 'ang')], (lambda f: lambda b, c: f(0.1, b, c))(fn), trace=f'tr_{nm}_nbc')
        add(f'base.{nm}', 'phi,0.2,0.3 (scalars)', [('a', S, 'ang')], (lambda f: lambda a: f(a, 0.2, 0.3))(fn))
    # ---------------- differential motion, inverse, Jacobian
    add('base.delta2tr', 'array', [('d', V6, 'gen')], base.delta2tr, trace='tr_delta2tr')
    add('base.delta2tr', 'list', [('d', V6, 'gen')], lambda d: base.delta2tr(L(d)))
    add('base.delta2tr', '[x,2,3,a,0.5,c]', [('x', S, 'gen'), ('a', S, 'gen'), ('c', S, 'gen')], lambda x, a, c: base.delta2tr([x, 2, 3, a, 0.5, c]), trace='tr_delta2tr_mixed')
    add('base.trinv', 'T', [('X', M44, 'se3')], base.trinv, trace='tr_trinv')
    add('base.trinv', 'T(num R, sym t)', [('v', V3, 'lin')], lambda v: base.trinv(_rt_obj(ROT_A, v)), trace='tr_trinv_numR')
    add('base.tr2delta', 'T', [('X', M44, 'se3')], base.tr2delta, trace='tr_tr2delta1')
    add('base.tr2delta', 'T0,T1', [('X', M44, 'se3'), ('Y', M44, 'se3')], base.tr2delta, trace='tr_tr2delta2')
    add('base.tr2delta', 'num T0,T1', [('Y', M44, 'se3')], lambda Y: base.tr2delta(TR_A.copy(), Y), trace='tr_tr2delta_numT0')
    add('base.tr2delta', 'T0,num T1', [('X', M44, 'se3')], lambda X: base.tr2delta(X, TR_A.copy()))
    add('base.tr2jac', 'T', [('X', M44, 'se3')], base.tr2jac, trace='tr_tr2jac')
    add('base.tr2jac', 'T,samebody=True', [('X', M44, 'se3')], lambda X: base.tr2jac(X, samebody=True), trace='tr_tr2jac_sb')
    add('base.trinv2', 'T', [('X', M33, 'se2')], base.trinv2, trace='tr_trinv2')
    # ---------------- skew / vex
    add('base.skew', 'array3', [('v', V3, 'gen')], base.skew, trace='tr_skew3')
    add('base.skew', 'list3', [('v', V3, 'gen')], lambda v: base.skew(L(v)))
    add('base.skew', 'scalar', [('x', S, 'gen')], base.skew, trace='tr_skew1')
    add('base.skew', '[x,2,z]', [('x', S, 'gen'), ('z', S, 'gen')], lambda x, z: base.skew([x, 2, z]), trace='tr_skew3_mixed')
    add('base.vex', '3x3', [('R', M33, 'gen')], base.vex, trace='tr_vex3')
    add('base.vex', '2x2', [('A', M22, 'gen')], lambda A: base.vex(A)[0], trace='tr_vex2')
    add('base.skewa', 'array6', [('v', V6, 'gen')], base.skewa, trace='tr_skewa6')
    add('base.skewa', 'list6', [('v', V6, 'gen')], lambda v: base.skewa(L(v)))
    add('base.skewa', 'array3', [('v', V3, 'gen')], base.skewa, trace='tr_skewa3')
    add('base.skewa', '[x,2,3,a,0.5,c]', [('x', S, 'gen'), ('a', S, 'gen'), ('c', S, 'gen')], lambda x, a, c: base.skewa([x, 2, 3, a, 0.5, c]), trace='tr_skewa6_mixed')
    add('base.vexa', '4x4', [('X', M44, 'gen')], base.vexa, trace='tr_vexa4')
    add('base.vexa', '3x3', [('R', M33, 'gen')], base.vexa, trace='tr_vexa3')
    add('base.det', '2x2', [('A', M22, 'gen')], base.det, trace='tr_det2')
    add('base.det', '3x3', [('R', M33, 'gen')], base.det, trace='tr_det3')
    add('base.det', '4x4', [('X', M44, 'gen')], base.det)
    # ---------------- vectors
    add('base.norm', 'array', [('v', V3, 'lin')], base.norm, trace='tr_norm3')
    add('base.norm', 'list', [('v', V3, 'lin')], lambda v: base.norm(L(v)))
    add('base.norm', '[x,2,3.5]', [('x', S, 'lin')], lambda x: base.norm([x, 2, 3.5]), trace='tr_norm3_mixed')
    add('base.normsq', 'array', [('v', V3, 'lin')], base.normsq, trace='tr_normsq3')
    add('base.normsq', 'list', [('v', V3, 'lin')], lambda v: base.normsq(L(v)))
    add('base.cross', 'arrays', [('u', V3, 'gen'), ('v', V3, 'gen')], base.cross, trace='tr_cross')
    add('base.cross', 'lists', [('u', V3, 'gen'), ('v', V3, 'gen')], lambda u, v: base.cross(L(u), L(v)))
    add('base.cross', 'u,[1,2,3.5]', [('u', V3, 'gen')], lambda u: base.cross(u, [1, 2, 3.5]), trace='tr_cross_mixed')
    # ---------------- quaternions
    add('base.conj', 'array', [('q', V4, 'gen')], base.conj, trace='tr_conj')
    add('base.conj', 'list', [('q', V4, 'gen')], lambda q: base.conj(L(q)))
    for n in (0, 1, 2, 3, -1, -2):
        nm = f"tr_qpow_{'m' if n < 0 else 'p'}{abs(n)}"
        add('base.qpow', f'q,{n}', [('q', V4, 'gen')], (lambda n: lambda q: base.qpow(q, n))(n), trace=nm, post='expand')
    add('base.qpow', 'list,2', [('q', V4, 'gen')], lambda q: base.qpow(L(q), 2))
    # ---------------- SO3 / SE3 constructors and accessors
    add('SO3.__init__', 'R,check=False', [('R', M33, 'rot')], lambda R: SO3(R, check=False), trace='tr_SO3_ctor')
    add('SO3.__init__', 'SO3', [('R', M33, 'rot')], lambda R: SO3(SO3(R, check=False)))
    add('SO3.R', 'R', [('R', M33, 'rot')], lambda R: SO3(R, check=False).R, trace='tr_SO3_R')
    add('SE3.__init__', 'x,y,z', [('x', S, 'lin'), ('y', S, 'lin'), ('z', S, 'lin')], SE3, trace='tr_SE3_ctor_xyz')
    add('SE3.__init__', 'list', [('v', V3, 'lin')], lambda v: SE3(L(v)), trace='tr_SE3_ctor_list')
    add('SE3.__init__', 'array3', [('v', V3, 'lin')], lambda v: SE3(v))
    add('SE3.__init__', 'T,check=False', [('X', M44, 'se3')], lambda X: SE3(X, check=False), trace='tr_SE3_ctor_M')
    add('SE3.__init__', 'SE3', [('X', M44, 'se3')], lambda X: SE3(SE3(X, check=False)))
    add('SE3.__init__', 'x,2,3', [('x', S, 'lin')], lambda x: SE3(x, 2, 3), trace='tr_SE3_ctor_x23')
    add('SE3.t', 't', [('X', M44, 'se3')], lambda X: SE3(X, check=False).t, trace='tr_SE3_t')
    add('SE3.inv', 'inv', [('X', M44, 'se3')], lambda X: SE3(X, check=False).inv(), trace='tr_SE3_inv')
    add('SE3.inv', 'inv of [X,Y]', [('X', M44, 'se3'), ('Y', M44, 'se3')], lambda X, Y: _elt(SE3([X, Y], check=False).inv(), 1), trace='tr_SE3_inv_seq')
    add('SE3.Ad', 'Ad', [('X', M44, 'se3')], lambda X: SE3(X, check=False).Ad(), trace='tr_SE3_Ad')
    add('SE3.jacob', 'X.jacob()', [('X', M44, 'se3')], lambda X: SE3(X, check=False).jacob(), trace='tr_SE3_jacob')
    for ax in 'xyz':
        Rf, Tf, Wf = getattr(SE3, 'R' + ax), getattr(SE3, 'T' + ax), getattr(Twist3, 'R' + ax)
        add(f'SE3.R{ax}', 'theta', [('t', S, 'ang')], Rf, trace=f'tr_SE3_R{ax}')
        add(f'SE3.R{ax}', "theta,'deg'", [('t', S, 'deg')], (lambda f: lambda t: f(t, 'deg'))(Rf), trace=f'tr_SE3_R{ax}_deg', post='deg')
        add(f'SE3.R{ax}', 'theta,t=list', [('t', S, 'ang'), ('v', V3, 'lin')], (lambda f: lambda t, v: f(t, t=L(v)))(Rf), trace=f'tr_SE3_R{ax}_t')
        add(f'SE3.R{ax}', '[a,b]', [('a', S, 'ang'), ('b', S, 'ang')], (lambda f: lambda a, b: _elt(f([a, b]), 1))(Rf), trace=f'tr_SE3_R{ax}_seq')
        add(f'SE3.R{ax}', '[a,0.3]', [('a', S, 'ang')], (lambda f: lambda a: _elt(f([a, 0.3]), 0))(Rf))
        # several angles WITH the translation option: every value carries t (the numeric and the symbolic route must agree on that)
        tr_ = getattr(base, 'trot' + ax)
        add(f'SE3.R{ax}', '[a,b],t=[x,y,z]', [('a', S, 'ang'), ('b', S, 'ang'), ('v', V3, 'lin')], (lambda f: lambda a, b, v: _elt(f([a, b], t=L(v)), 1))(Rf))
        add(f'SE3.R{ax}', '[a,0.3],t=[1,2,3]', [('a', S, 'ang')], (lambda f: lambda a: _elt(f([a, 0.3], t=[1, 2, 3]), 1))(Rf))
        add(f'SE3.R{ax}', '[0.2,0.3],t=[x,y,z]', [('v', V3, 'lin')], (lambda f: lambda v: _elt(f([0.2, 0.3], t=L(v)), 1))(Rf),
            numcall=(lambda g_: lambda v: g_(0.3, t=L(v)))(tr_))
        add(f'SE3.R{ax}', "[a,b],'deg',t=[x,2,z]", [('a', S, 'deg'), ('b', S, 'deg'), ('x', S, 'lin'), ('z', S, 'lin')],
            (lambda f: lambda a, b, x, z: _elt(f([a, b], 'deg', t=[x, 2, z]), 0))(Rf))
        add(f'SE3.T{ax}', 'x', [('x', S, 'lin')], Tf, trace=f'tr_SE3_T{ax}')
        add(f'SE3.T{ax}', '[x,y]', [('x', S, 'lin'), ('y', S, 'lin')], (lambda f: lambda x, y: _elt(f([x, y]), 1))(Tf), trace=f'tr_SE3_T{ax}_seq')
        add(f'Twist3.R{ax}', '[theta]', [('t', S, 'ang')], (lambda f: lambda t: f([t]))(Wf), trace=f'tr_Twist3_R{ax}')
        add(f'Twist3.R{ax}', 'theta (scalar)', [('t', S, 'ang')], Wf, trace=f'tr_Twist3_R{ax}_scalar')
        add(f'Twist3.R{ax}', '[theta],deg', [('t', S, 'deg')], (lambda f: lambda t: f([t], 'deg'))(Wf), trace=f'tr_Twist3_R{ax}_deg', post='deg')
    add('SE3.Eul', 'list', [('v', V3, 'ang')], lambda v: SE3.Eul(L(v)), trace='tr_SE3_Eul')
    add('SE3.Eul', 'array', [('v', V3, 'ang')], SE3.Eul)
    add('SE3.Eul', 'list,unit=deg', [('v', V3, 'deg')], lambda v: SE3.Eul(L(v), unit='deg'), trace='tr_SE3_Eul_deg', post='deg')
    add('SE3.Eul', '[a,0.0,c]', [('a', S, 'ang'), ('c', S, 'ang')], lambda a, c: SE3.Eul([a, 0.0, c]))
    for order in ('zyx', 'xyz', 'yxz'):
        add('SE3.RPY', f'list,order={order}', [('v', V3, 'ang')], (lambda o: lambda v: SE3.RPY(L(v), order=o))(order), trace=f'tr_SE3_RPY_{order}')
    add('SE3.RPY', 'array', [('v', V3, 'ang')], SE3.RPY)
    add('SE3.RPY', 'list,unit=deg', [('v', V3, 'deg')], lambda v: SE3.RPY(L(v), unit='deg'), trace='tr_SE3_RPY_deg', post='deg')
    add('SE3.RPY', '[a,0.0,c]', [('a', S, 'ang'), ('c', S, 'ang')], lambda a, c: SE3.RPY([a, 0.0, c]), trace='tr_SE3_RPY_a0c')
    add('SE3.Delta', 'd (array)', [('d', V6, 'delta')], SE3.Delta, trace='tr_SE3_Delta')
    add('SE3.Delta', 'd (list)', [('d', V6, 'delta')], lambda d: SE3.Delta(L(d)))
    add('SE3.Delta', '[x,0.2,0.3,a,0.1,c]', [('x', S, 'lin'), ('a', S, 'gen'), ('c', S, 'gen')], lambda x, a, c: SE3.Delta([x, 0.2, 0.3, a, 0.1, c]))
    # ---------------- simplify
    add('SMPose.simplify', 'Rx(a)*Rx(a).inv()', [('a', S, 'ang')], lambda a: (SE3.Rx(a) * SE3.Rx(a).inv()).simplify(), trace='tr_simplify_RxRxinv',
        numcall=lambda a: SE3.Rx(a) * SE3.Rx(a).inv())
    add('SMPose.simplify', 'Rz(a)*Rz(b)', [('a', S, 'ang'), ('b', S, 'ang')], lambda a, b: (SE3.Rz(a) * SE3.Rz(b)).simplify(), trace='tr_simplify_RzRz',
        numcall=lambda a, b: SE3.Rz(a) * SE3.Rz(b))
    add('SMPose.simplify', 'Eul/Eul', [('v', V3, 'ang')], lambda v: (SE3.Eul(L(v)) / SE3.Eul(L(v))).simplify(), trace='tr_simplify_EulEul',
        numcall=lambda v: SE3.Eul(L(v)) / SE3.Eul(L(v)))
    # ---------------- pose-class operators (op.* entries are not tagged; they are "the pose-class operators over them")
    P3 = lambda X: SE3(hom(X), check=False)
    add('op.SE3*SE3', 'X*Y', [('X', M44, 'se3'), ('Y', M44, 'se3')], lambda X, Y: SE3(X, check=False) * SE3(Y, check=False), trace='tr_SE3_mul')
    add('op.SE3/SE3', 'X/Y', [('X', M44, 'se3'), ('Y', M44, 'se3')], lambda X, Y: SE3(X, check=False) / SE3(Y, check=False), trace='tr_SE3_div')
    add('op.SE3**n', 'X**2', [('X', M44, 'se3')], lambda X: SE3(X, check=False) ** 2, trace='tr_SE3_pow2', post='expand')
    add('op.SE3**n', 'X**3', [('X', M44, 'se3')], lambda X: SE3(X, check=False) ** 3, trace='tr_SE3_pow3', post='expand')
    add('op.SE3**n', 'X**0', [('X', M44, 'se3')], lambda X: SE3(X, check=False) ** 0, trace='tr_SE3_pow0')
    add('op.SE3**n', 'X ** -1', [('X', M44, 'se3')], lambda X: SE3(X, check=False) ** -1, trace='tr_SE3_powm1')
    add('op.SE3**n', 'X ** -2', [('X', M44, 'se3')], lambda X: SE3(X, check=False) ** -2, trace='tr_SE3_powm2', post='expand')
    add('op.SE3**n', 'X ** -1 (any 3x4 block)', [('X', M44, 'hom')], lambda X: SE3(X, check=False) ** -1)
    add('op.SE3**n', 'Rx(a,t=[x,2,z]) ** -1', [('a', S, 'ang'), ('x', S, 'lin'), ('z', S, 'lin')], lambda a, x, z: SE3.Rx(a, t=[x, 2, z]) ** -1)
    add('op.SO3**n', 'R ** -1', [('R', M33, 'rot')], lambda R: SO3(R, check=False) ** -1, trace='tr_SO3_powm1')
    add('op.SE2**n', 'X ** -1', [('X', M33, 'se2')], lambda X: SE2(X, check=False) ** -1, trace='tr_SE2_powm1')
    add('op.SO2**n', 'A ** -1', [('A', M22, 'rot2')], lambda A: SO2(A, check=False) ** -1, trace='tr_SO2_powm1')
    add('op.SO2**n', 'A ** 2', [('A', M22, 'rot2')], lambda A: SO2(A, check=False) ** 2)
    add('op.SE3*point', 'X*array3', [('X', M44, 'se3'), ('v', V3, 'lin')], lambda X, v: P3(X) * v, trace='tr_SE3_pt')
    add('op.SE3*point', 'X*list3', [('X', M44, 'se3'), ('v', V3, 'lin')], lambda X, v: P3(X) * L(v), trace='tr_SE3_pt_list')
    add('op.SE3*point', 'X*[1,2,3]', [('X', M44, 'se3')], lambda X: P3(X) * [1, 2, 3], trace='tr_SE3_pt_num')
    add('op.SE3*point', 'Rx(0.3)*array3', [('v', V3, 'lin')], lambda v: SE3.Rx(0.3) * v)
    add('op.SE3*point', 'X*(3x2)', [('X', M44, 'se3'), ('u', V3, 'lin'), ('v', V3, 'lin')], lambda X, u, v: P3(X) * np.array([u, v]).T)
    add('op.SE3*SE3', 'Rx(a)*Ry(b)*Tz(z)', [('a', S, 'ang'), ('b', S, 'ang'), ('z', S, 'lin')], lambda a, b, z: SE3.Rx(a) * SE3.Ry(b) * SE3.Tz(z), trace='tr_SE3_RxRyTz')
    add('op.SE3*SE3', 'Tx(2)*X', [('X', M44, 'se3')], lambda X: SE3.Tx(2) * SE3(X, check=False), trace='tr_SE3_Tx2_mul')
    add('op.SE3*SE3', 'Rx(a)*Tx(2.5)', [('a', S, 'ang')], lambda a: SE3.Rx(a) * SE3.Tx(2.5), trace='tr_SE3_Rx_Tx25')
    add('op.SE3*SE3', 'Rx(0.3)*X', [('X', M44, 'se3')], lambda X: SE3.Rx(0.3) * SE3(X, check=False))
    add('op.SE3*SE3', 'X.inv()*Rx(0.3)', [('X', M44, 'se3')], lambda X: SE3(X, check=False).inv() * SE3.Rx(0.3))
    add('op.SO3*SO3', 'R*Q', [('R', M33, 'rot'), ('Q', M33, 'rot')], lambda R, Q: SO3(R, check=False) * SO3(Q, check=False), trace='tr_SO3_mul')
    add('op.SO3/SO3', 'R/Q', [('R', M33, 'rot'), ('Q', M33, 'rot')], lambda R, Q: SO3(R, check=False) / SO3(Q, check=False), trace='tr_SO3_div')
    add('op.SO3.inv', 'inv', [('R', M33, 'rot')], lambda R: SO3(R, check=False).inv(), trace='tr_SO3_inv')
    add('op.SO3*point', 'R*array3', [('R', M33, 'rot'), ('v', V3, 'lin')], lambda R, v: SO3(R, check=False) * v, trace='tr_SO3_pt')
    add('op.SO3*point', 'R*[1,2,3]', [('R', M33, 'rot')], lambda R: SO3(R, check=False) * [1, 2, 3], trace='tr_SO3_pt_num')
    # the same entries at matrices whose rotation block is NOT orthonormal: the numeric path (no validity check on these
    # calls) accepts them, so "substituting ANY numbers" includes them (a symbolic shortcut valid only on SO(3) shows here)
    add('base.trinv', 'T (any 3x4 block)', [('X', M44, 'hom')], base.trinv)
    add('base.tr2delta', 'T0,T1 (any 3x4 blocks)', [('X', M44, 'hom'), ('Y', M44, 'hom')], base.tr2delta)
    add('base.tr2jac', 'T,samebody=True (any 3x4 block)', [('X', M44, 'hom')], lambda X: base.tr2jac(X, samebody=True))
    add('SE3.inv', 'inv (any 3x4 block)', [('X', M44, 'hom')], lambda X: SE3(X, check=False).inv())
    add('SE3.jacob', 'jacob (any 3x4 block)', [('X', M44, 'hom')], lambda X: SE3(X, check=False).jacob())
    add('SE3.Ad', 'Ad (any 3x4 block)', [('X', M44, 'hom')], lambda X: SE3(X, check=False).Ad())
    add('op.SE3*SE3', 'X*Y (any 3x4 blocks)', [('X', M44, 'hom'), ('Y', M44, 'hom')], lambda X, Y: SE3(X, check=False) * SE3(Y, check=False))
    add('op.SE3/SE3', 'X/Y (any 3x4 blocks)', [('X', M44, 'hom'), ('Y', M44, 'hom')], lambda X, Y: SE3(X, check=False) / SE3(Y, check=False))
    add('op.SE3*point', 'X*array3 (any 3x4 block)', [('X', M44, 'hom'), ('v', V3, 'gen')], lambda X, v: SE3(X, check=False) * v)
    add('op.SO3/SO3', 'R/Q (any 3x3)', [('R', M33, 'gen'), ('Q', M33, 'gen')], lambda R, Q: SO3(R, check=False) / SO3(Q, check=False))
    add('base.trinv2', 'T (any 2x3 block)', [('X', M33, 'hom')], base.trinv2)

    # ---------------- simplify() on generic symbolic / mixed values with NON-ZERO translation, single and sequence:
    # simplification must not change the value (numeric side: the un-simplified value)
    add('SMPose.simplify', 'SE3(X)', [('X', M44, 'se3')], lambda X: SE3(X, check=False).simplify(), trace='tr_simplify_SE3',
        numcall=lambda X: SE3(X, check=False))
    add('SMPose.simplify', 'SE3([X,Y])[1]', [('X', M44, 'se3'), ('Y', M44, 'se3')], lambda X, Y: _elt(SE3([X, Y], check=False).simplify(), 1),
        trace='tr_simplify_SE3_seq', numcall=lambda X, Y: _elt(SE3([X, Y], check=False), 1))
    add('SMPose.simplify', 'SE3([X,Y])[0]', [('X', M44, 'se3'), ('Y', M44, 'se3')], lambda X, Y: _elt(SE3([X, Y], check=False).simplify(), 0),
        numcall=lambda X, Y: _elt(SE3([X, Y], check=False), 0))
    add('SMPose.simplify', 'SE2(X)', [('X', M33, 'se2')], lambda X: SE2(X, check=False).simplify(), trace='tr_simplify_SE2',
        numcall=lambda X: SE2(X, check=False))
    add('SMPose.simplify', 'SE2([X,Y])[1]', [('X', M33, 'se2'), ('Y', M33, 'se2')], lambda X, Y: _elt(SE2([X, Y], check=False).simplify(), 1),
        trace='tr_simplify_SE2_seq', numcall=lambda X, Y: _elt(SE2([X, Y], check=False), 1))
    # a simplified multi-valued symbolic pose is still a sequence: it composes and inverts element by element
    add('SMPose.simplify', '(Rx([a,b])*Rx(a)).simplify()[1]', [('a', S, 'ang'), ('b', S, 'ang')],
        lambda a, b: _elt((SE3.Rx([a, b]) * SE3.Rx(a)).simplify(), 1), numcall=lambda a, b: _elt(SE3.Rx([a, b]) * SE3.Rx(a), 1))
    add('SMPose.simplify', '(Ry([a,b])*Ry([b,a])).simplify().inv()[0]', [('a', S, 'ang'), ('b', S, 'ang')],
        lambda a, b: _elt((SO3.Ry([a, b]) * SO3.Ry([b, a])).simplify().inv(), 0), numcall=lambda a, b: _elt((SO3.Ry([a, b]) * SO3.Ry([b, a])).inv(), 0))
    add('SMPose.simplify', '(SE2([X,Y]).simplify()*SE2(X))[1]', [('X', M33, 'se2'), ('Y', M33, 'se2')],
        lambda X, Y: _elt(SE2([X, Y], check=False).simplify() * SE2(X, check=False), 1),
        numcall=lambda X, Y: _elt(SE2([X, Y], check=False) * SE2(X, check=False), 1))
    add('SMPose.simplify', 'SO3(R)', [('R', M33, 'rot')], lambda R: SO3(R, check=False).simplify(), trace='tr_simplify_SO3',
        numcall=lambda R: SO3(R, check=False))
    add('SMPose.simplify', 'SO2(A)', [('A', M22, 'rot2')], lambda A: SO2(A, check=False).simplify(), trace='tr_simplify_SO2',
        numcall=lambda A: SO2(A, check=False))
    add('SMPose.simplify', 'Rx(a,t=[x,2,z])', [('a', S, 'ang'), ('x', S, 'lin'), ('z', S, 'lin')], lambda a, x, z: SE3.Rx(a, t=[x, 2, z]).simplify(),
        trace='tr_simplify_Rx_t', numcall=lambda a, x, z: SE3.Rx(a, t=[x, 2, z]))
    add('SMPose.simplify', 'Tx(x)*Rx(0.3)*Ty(y)', [('x', S, 'lin'), ('y', S, 'lin')], lambda x, y: (SE3.Tx(x) * SE3.Rx(0.3) * SE3.Ty(y)).simplify(),
        numcall=lambda x, y: SE3.Tx(x) * SE3.Rx(0.3) * SE3.Ty(y))
    add('SMPose.simplify', 'Rx(a)*Tx(x)*Rx(b)', [('a', S, 'ang'), ('x', S, 'lin'), ('b', S, 'ang')], lambda a, x, b: (SE3.Rx(a) * SE3.Tx(x) * SE3.Ry(b)).simplify(),
        numcall=lambda a, x, b: SE3.Rx(a) * SE3.Tx(x) * SE3.Ry(b))
    add('SMPose.simplify', 'SE2(x,y,theta)', [('x', S, 'lin'), ('y', S, 'lin'), ('a', S, 'ang')], lambda x, y, a: SE2(x, y, a).simplify(),
        numcall=lambda x, y, a: SE2(x, y, a))
    add('SMPose.simplify', 'SE2(x,y,theta)*SE2(1,2,0.3)', [('x', S, 'lin'), ('y', S, 'lin'), ('a', S, 'ang')],
        lambda x, y, a: (SE2(x, y, a) * SE2(1, 2, 0.3)).simplify(), numcall=lambda x, y, a: SE2(x, y, a) * SE2(1, 2, 0.3))
    # ---------------- pose OP scalar: every operator, symbolic / mixed scalar (elementwise on the matrix, returns an array)
    SC = [('mul', lambda P, k: P * k, 'X*s'), ('rmul', lambda P, k: k * P, 's*X'), ('div', lambda P, k: P / k, 'X/s'),
          ('add', lambda P, k: P + k, 'X+s'), ('radd', lambda P, k: k + P, 's+X'), ('sub', lambda P, k: P - k, 'X-s'),
          ('rsub', lambda P, k: k - P, 's-X')]
    SC = [(on, op, f'{txt} ({on})') for on, op, txt in SC]      # the operator name keeps the replay file names distinct
    CL = [('SE3', SE3, M44, 'se3'), ('SO3', SO3, M33, 'rot'), ('SE2', SE2, M33, 'se2'), ('SO2', SO2, M22, 'rot2')]
    for cn, C, sh, dom in CL:
        for on, op, txt in SC:
            add(f'op.{cn} scalar', txt, [('X', sh, dom), ('s', S, 'nz')], (lambda C, op: lambda X, k: op(C(X, check=False), k))(C, op),
                trace=f'tr_{cn}_s{on}')
            add(f'op.{cn} scalar', txt.replace('s', '0.5', 1).replace('0.5ub', 'sub'), [('X', sh, dom)], (lambda C, op: lambda X: op(C(X, check=False), 0.5))(C, op),
                trace=(f'tr_{cn}_s{on}_05' if cn == 'SE3' else None))   # 0.5: 1/0.5 is exact, so X/0.5 is an exact specialisation
        add(f'op.{cn} scalar', 'X*(s+1)', [('X', sh, dom), ('s', S, 'nz')], (lambda C: lambda X, k: C(X, check=False) * (k + 1))(C),
            trace=(f'tr_{cn}_smul_expr' if cn == 'SE3' else None))
        add(f'op.{cn} scalar', '[X,Y]*s', [('X', sh, dom), ('Y', sh, dom), ('s', S, 'nz')],
            (lambda C: lambda X, Y, k: (C([X, Y], check=False) * k)[1])(C), trace=(f'tr_{cn}_smul_seq' if cn == 'SE3' else None))
    for on, op, txt in SC:          # numeric pose, symbolic scalar
        add('op.SE3 scalar', txt.replace('X', 'Rx(0.3)'), [('s', S, 'nz')], (lambda op: lambda k: op(SE3.Rx(0.3, t=[1, 2, 3]), k))(op),
            trace=('tr_SE3_num_smul' if on == 'mul' else None))
        add('op.SE2 scalar', txt.replace('X', 'SE2(1,2,0.3)'), [('s', S, 'nz')], (lambda op: lambda k: op(SE2(1, 2, 0.3), k))(op))
    # ---------------- structurally degenerate symbolic vectors (a single symbolic component and literal zeros, 1- and
    # 2-vectors, a repeated symbol, monomials): here sqrt(x**2) must be |x|, not x
    add('base.norm', '[x,0,0]', [('x', S, 'lin')], lambda x: base.norm([x, 0, 0]), trace='tr_norm3_x00')
    add('base.norm', '[x]', [('x', S, 'lin')], lambda x: base.norm([x]), trace='tr_norm1')
    add('base.norm', '[x,y] ', [('x', S, 'lin'), ('y', S, 'lin')], lambda x, y: base.norm([x, y]), trace='tr_norm2')
    add('base.norm', '[x,x,x]', [('x', S, 'lin')], lambda x: base.norm([x, x, x]), trace='tr_norm3_xxx')
    add('base.norm', '[x*y,y,0]', [('x', S, 'gen'), ('y', S, 'lin')], lambda x, y: base.norm([x * y, y, 0]), trace='tr_norm3_mono')
    add('base.norm', 'array [0,x,0]', [('x', S, 'lin')], lambda x: base.norm(np.array([0, x, 0], dtype=object if isinstance(x, sympy.Expr) else float)))
    add('base.norm', '[2*x,0,0]', [('x', S, 'lin')], lambda x: base.norm([2 * x, 0, 0]))
    add('base.normsq', '[x,0,0]', [('x', S, 'lin')], lambda x: base.normsq([x, 0, 0]), trace='tr_normsq3_x00')
    add('base.normsq', '[x]', [('x', S, 'lin')], lambda x: base.normsq([x]))
    add('aux.unitvec', 'array3', [('v', V3, 'nzl')], base.unitvec, trace='tr_unitvec3')
    add('aux.unitvec', 'list3', [('v', V3, 'nzl')], lambda v: base.unitvec(L(v)))
    add('aux.unitvec', '[x,0,0]', [('x', S, 'nzl')], lambda x: base.unitvec([x, 0, 0]), trace='tr_unitvec3_x00')
    add('aux.unitvec', '[x]', [('x', S, 'nzl')], lambda x: base.unitvec([x])[0], trace='tr_unitvec1')
    add('aux.unitvec', '[x,y]', [('x', S, 'nzl'), ('y', S, 'nzl')], lambda x, y: base.unitvec([x, y]))
    add('aux.unitvec', '[x,2,3.5]', [('x', S, 'nzl')], lambda x: base.unitvec([x, 2, 3.5]))
    add('aux.angdiff', 'a,b', [('a', S, 'gen'), ('b', S, 'gen')], base.angdiff)
    add('aux.angdiff', 'a', [('a', S, 'gen')], base.angdiff)
    add('aux.angdiff', 'a,0.5', [('a', S, 'gen')], lambda a: base.angdiff(a, 0.5))
    add('aux.trnorm', 'trotx(a,t=[x,y,z])', [('a', S, 'ang'), ('v', V3, 'lin')], lambda a, v: base.trnorm(base.trotx(a, t=v)))
    P2 = lambda X: SE2(hom(X), check=False)
    add('op.SE2*SE2', 'X*Y', [('X', M33, 'se2'), ('Y', M33, 'se2')], lambda X, Y: SE2(X, check=False) * SE2(Y, check=False), trace='tr_SE2_mul')
    add('op.SE2.inv', 'X.inv()', [('X', M33, 'se2')], lambda X: SE2(X, check=False).inv(), trace='tr_SE2_inv')
    add('op.SE2/SE2', 'X / Y', [('X', M33, 'se2'), ('Y', M33, 'se2')], lambda X, Y: SE2(X, check=False) / SE2(Y, check=False), trace='tr_SE2_div')
    add('op.SE2*point', 'X*array2', [('X', M33, 'se2'), ('v', 'V2', 'lin')], lambda X, v: P2(X) * v, trace='tr_SE2_pt')
    add('op.SO2*SO2', 'A*B', [('A', M22, 'rot2'), ('B', M22, 'rot2')], lambda A, B: SO2(A, check=False) * SO2(B, check=False), trace='tr_SO2_mul')
    add('op.SO2.inv', 'A.inv()', [('A', M22, 'rot2')], lambda A: SO2(A, check=False).inv(), trace='tr_SO2_inv')
    add('op.SO2/SO2', 'A / B', [('A', M22, 'rot2'), ('B', M22, 'rot2')], lambda A, B: SO2(A, check=False) / SO2(B, check=False), trace='tr_SO2_div')
    add('op.SO2*point', 'A*array2', [('A', M22, 'rot2'), ('v', 'V2', 'lin')], lambda A, v: SO2(A, check=False) * v, trace='tr_SO2_pt')
    return F + degenerate_variants(F)


VEC = {'V2': 2, 'V3': 3, 'V4': 4, 'V6': 6}
MAT = {'M22': 2, 'M33': 3, 'M44': 4}


def _obj(vals):
    sym = any(isinstance(v, sympy.Expr) for v in np.asarray(vals, dtype=object).flatten())
    return np.array(vals, dtype=object if sym else float)


def degenerate_variants(base_forms):
    """every call form with a vector / matrix argument is ALSO called on structurally degenerate symbolic values: a single
    symbolic component with literal zeros (first / last position), one repeated symbol, a monomial p*q; matrices: p*I with
    translation (q,0,..), and all entries the same symbol (last row of a pose stays structural).  Oracle only (no trace)."""
    out = []
    vpats = {'e0': lambda n, p, q: [p] + [0] * (n - 1), 'eL': lambda n, p, q: [0] * (n - 1) + [p],
             'rep': lambda n, p, q: [p] * n, 'mono': lambda n, p, q: ([p * q, q] + [0] * (n - 2))}
    for F in base_forms:
        kinds = [sh for _, sh, _ in F.args]
        if F.numcall is not F.call and F.entry != 'SMPose.simplify':
            continue
        if any(k in VEC for k in kinds):
            pats = ['e0', 'eL', 'rep', 'mono']
        elif any(k in MAT for k in kinds):
            pats = ['pI', 'same']
        else:
            continue
        for pat in pats:
            args, builders = [], []
            for i, (n, sh, dom) in enumerate(F.args):
                sdom = {'delta': 'gen', 'se3': 'lin', 'se2': 'lin', 'hom': 'gen', 'rot': 'gen', 'rot2': 'gen'}.get(dom, dom)
                if sh in VEC:
                    uses_q = pat == 'mono'
                    names = [(f'p{i}', 'S', sdom)] + ([(f'q{i}', 'S', 'gen')] if uses_q else [])
                    b = (lambda k, f, uq: lambda vals: _obj(f(k, vals[0], vals[1] if uq else None)))(VEC[sh], vpats[pat if pat in vpats else 'e0'], uses_q)
                elif sh in MAT:
                    k = MAT[sh]
                    pose = dom in ('se3', 'se2', 'hom')
                    mp = pat if pat in ('pI', 'same') else 'pI'

                    def mk(vals, k=k, pose=pose, mp=mp):
                        p = vals[0]
                        q = vals[1] if len(vals) > 1 else None
                        M = [[(p if (mp == 'same' or r == c) else 0) for c in range(k)] for r in range(k)]
                        if pose:
                            for r in range(k - 1):
                                M[r][k - 1] = (q if r == 0 else 0) if mp == 'pI' else p
                            M[k - 1] = [0] * (k - 1) + [1]
                        return _obj(M)
                    names = [(f'p{i}', 'S', 'gen')] + ([(f'q{i}', 'S', 'lin')] if (pose and mp == 'pI') else [])
                    b = mk
                else:
                    names = [(n, sh, dom)]
                    b = lambda vals: vals[0]
                args += names
                builders.append((len(names), b))
            if len(args) > 6:
                continue

            def wrap(c, builders=builders):
                def f(*a):
                    vals, i = [], 0
                    for cnt, b in builders:
                        vals.append(b(a[i:i + cnt]))
                        i += cnt
                    return c(*vals)
                return f
            out.append(Form(F.entry, f"{F.fid} | {pat}", args, wrap(F.call), None, None, '', None, wrap(F.numcall)))
            out[-1].derived = True
    return out


# fixed numeric constants used by the mixed forms (exactly representable entries only, so that the mixed trace is an
# exact specialisation of the all-symbolic one: theorem (iii))
ROT_A = np.array([[0.0, -1.0, 0.0], [1.0, 0.0, 0.0], [0.0, 0.0, 1.0]])          # rotz(pi/2), exact
TR_A = np.array([[0.0, -1.0, 0.0, 0.5], [1.0, 0.0, 0.0, -2.0], [0.0, 0.0, 1.0, 4.0], [0.0, 0.0, 0.0, 1.0]])


def _rt_obj(R, v):
    """4x4 with numeric rotation block and the given translation (object array if v is symbolic)"""
    v = np.asarray(v)
    T = np.zeros((4, 4), dtype=object if v.dtype == object else float)
    T[:3, :3] = R
    T[:3, 3] = v
    T[3, 3] = 1
    return T


# ----------------------------------------------------------------------------------------------------------------
# post-processing of traced results
KDEG = sympy.Symbol('Kdeg', real=True)      # capital: sorts before the argument names in SymPy's canonical Mul order


def post_deg(res):
    """degree forms: the library multiplies by math.pi/180 in floats; the float factor is generalised to the
    symbol `kdeg` (an extra first input of the trace) so that the theorem `trace k x = radian-trace (k*x)` does not
    depend on how the factor is rounded.  Only Float atoms within 4 ulp of pi/180 are replaced."""
    arr = to_object_array(res)
    k0 = math.pi / 180

    def fix(e):
        e = sympy.sympify(e)
        rep = {f: KDEG for f in e.atoms(sympy.Float) if abs(float(f) - k0) <= 4 * np.spacing(k0)}
        return e.xreplace(rep) if rep else e
    return np.array([fix(x) for x in arr.flatten()], dtype=object).reshape(arr.shape)


def post_expand(res):
    arr = to_object_array(res)
    return np.array([sympy.expand(x) for x in arr.flatten()], dtype=object).reshape(arr.shape)


POSTS = {'deg': post_deg, 'expand': post_expand, None: None}


# ----------------------------------------------------------------------------------------------------------------
def site_of(ex):
    """innermost frame inside the library: 'module.function'"""
    tb = traceback.extract_tb(ex.__traceback__)
    site = 'harness'
    for fr in tb:
        fn = fr.filename.replace('\\', '/')
        if '/spatialmath/' in fn:
            site = os.path.basename(fn)[:-3] + '.' + fr.name
    return site


def what_is(F):
    if F.entry.startswith('op.'):
        return f"{F.entry[3:]} is a pose-class operator over the ':SymPy: supported' entries"
    if F.entry.startswith('aux.'):
        return f"base.{F.entry[4:]} is a symbolic-capable helper of the ':SymPy: supported' entries"
    return f"{F.entry} is documented ':SymPy: supported'"


def exact01(x):
    """0 / 1 if x is an exact NUMBER zero / one (python, numpy or SymPy number; no symbols, no unevaluated function)"""
    try:
        e = sympy.sympify(x)
    except Exception:
        return None
    if not e.is_Number or not e.is_real:
        return None
    f = float(e)
    if f == 0.0 and e.is_zero is not False:
        return 0
    if f == 1.0 and (e - 1).is_zero is not False:
        return 1
    return None


def num_args(rng, F, generic=False):
    vals = []
    for n, sh, dom in F.args:
        if dom == 'delta':
            # differential motion: translation part any length, rotational part O(0.1 .. 1) (SE3.Delta normalises I + [d])
            vals.append(np.array([draw(rng, 'gen') for _ in range(3)] + [float(rng.uniform(0.05, 1.0) * rng.choice([-1.0, 1.0])) for _ in range(3)]))
        else:
            vals.append(sample_arg(rng, sh, dom, generic))
    return vals


def sym_args(F):
    vals, syms = [], []
    for n, sh, dom in F.args:
        v, s = sym_input(n, sh)
        if dom in ('se3', 'se2', 'hom'):
            v = hom(v)                           # structural last row (0,..,0,1): a symbolic POSE
        vals.append(v)
        syms += s
    return vals, syms


def lin_mags(F, vals):
    """magnitudes of the length-like (not angle-like) numeric arguments: the error scale of a result is relative to them"""
    out = []
    for (n, sh, dom), v in zip(F.args, vals):
        if dom not in ('ang', 'deg', 'rot', 'rot2'):  # (nzl, nz, lin, gen ... count)
            out += [abs(float(x)) for x in np.asarray(v, dtype=float).flatten()]
    return out


def flat_floats(vals):
    out = []
    for v in vals:
        out += [float(x) for x in np.asarray(v, dtype=float).flatten()]
    return out


def sign_points(rng, F):
    """for forms with at most 3 scalar symbols: every combination of {negative, zero-adjacent, positive} values"""
    import itertools
    if any(sh != 'S' for _, sh, _ in F.args) or not 1 <= len(F.args) <= 3:
        return []
    pts = []
    for combo in itertools.product((-1, 0, 1), repeat=len(F.args)):
        a = []
        for sgn, (n, sh, dom) in zip(combo, F.args):
            mag = abs(draw(rng, dom if dom != 'delta' else 'gen')) or 0.7
            if dom == 'ang':
                mag = float(rng.uniform(0.1, 3.0))
            tiny = {'nz': 1e-3, 'deg': 1e-7}.get(dom, 1e-9) * float(rng.choice([-1.0, 1.0]))
            a.append(mag * sgn if sgn else tiny)
        pts.append(a)
    return pts


def evaluate_form(ctx, F, npts):
    """the oracle for one call form.  Returns the symbolic result (object array) or None."""
    rng = ctx.rng
    key = f"{F.entry}:{F.fid}"
    ctx.count('forms')
    F.status = 'Ok'
    svals, syms = sym_args(F)
    sym_res = sym_exc = None
    returned_none = False
    try:
        raw = F.call(*svals)
        returned_none = raw is None
        sym_res = to_object_array(raw)
    except Exception as ex:  # noqa
        sym_exc = ex
    # numeric path on generic arguments: does the numeric path accept this call form?  structural constants
    gens, num_exc = [], None
    for gi in (1, 2, 3):
        a = num_args(rng, F, generic=gi)
        try:
            gens.append((a, np.asarray(F.numcall(*a), dtype=float)))
        except Exception as ex:  # noqa
            num_exc = ex
            break
    rep = {'entry': F.entry, 'form': F.fid, 'symbols': [str(s) for s in syms]}
    if sym_exc is not None and num_exc is None:
        ctx.fail(f"sym:raises:{key}:{type(sym_exc).__name__}@{site_of(sym_exc)}",
                 f"{what_is(F)} but the call form ({F.fid}) with symbolic arguments raises "
                 f"{type(sym_exc).__name__}: {sym_exc} (the numeric path accepts the same form)",
                 dict(rep, exception=f"{type(sym_exc).__name__}: {sym_exc}", site=site_of(sym_exc),
                      numeric_args_hex=[float(x).hex() for x in flat_floats(gens[0][0])]))
        ctx.count('forms:sym-raises')
        F.status = 'SymRaises'
        return None
    if sym_exc is not None and num_exc is not None:
        ctx.fail(f"both:raises:{key}:{type(sym_exc).__name__}@{site_of(sym_exc)}",
                 f"{F.entry} ({F.fid}) raises on the symbolic AND on the numeric path "
                 f"(symbolic {type(sym_exc).__name__}: {sym_exc}; numeric {type(num_exc).__name__}: {num_exc})",
                 dict(rep, exception=f"{type(sym_exc).__name__}: {sym_exc}", numeric_exception=f"{type(num_exc).__name__}: {num_exc}",
                      site=site_of(sym_exc)))
        ctx.count('forms:both-raise')
        F.status = 'BothRaise'
        return None
    if num_exc is not None:
        ctx.fail(f"num:raises:{key}:{type(num_exc).__name__}@{site_of(num_exc)}",
                 f"{F.entry} ({F.fid}): the symbolic path accepts the call form but the numeric path raises "
                 f"{type(num_exc).__name__}: {num_exc}", dict(rep, exception=str(num_exc)))
        F.status = 'NumRaises'
        return sym_res
    if returned_none:
        F.status = 'SymRaises'
        ctx.fail(f"sym:returns-none:{key}",
                 f"{what_is(F)} but the call form ({F.fid}) with symbolic arguments returns None (no operand branch matched); "
                 f"the numeric path returns a value", dict(rep, numeric_args_hex=[float(x).hex() for x in flat_floats(gens[0][0])],
                                                            numeric_result=gens[0][1].tolist()))
        return None
    # ---- shape
    nshape = gens[0][1].shape
    if tuple(sym_res.shape) != tuple(nshape):
        ctx.fail(f"oracle:shape:{key}", f"{F.entry} ({F.fid}): symbolic result has shape {sym_res.shape}, numeric {nshape}",
                 dict(rep, symbolic=str(sym_res.tolist())[:600]))
        return sym_res
    # ---- structural constants: positions that are exactly 0 / 1 for three generic numeric arguments
    flat_sym = list(sym_res.flatten())
    struct = []
    for i in range(len(flat_sym)):
        vs = {float(g[1].flatten()[i]) for g in gens}
        if len(vs) == 1 and vs <= {0.0, 1.0}:
            struct.append((i, int(list(vs)[0])))
    ctx.count('structural-positions', len(struct))
    for i, v in struct:
        if exact01(flat_sym[i]) != v:
            ctx.fail(f"oracle:struct:{key}",
                     f"{F.entry} ({F.fid}): entry {np.unravel_index(i, nshape) if nshape else ()} is the structural constant {v} "
                     f"on the numeric path but the symbolic result has {flat_sym[i]!r}",
                     dict(rep, position=i, expected=v, symbolic_entry=str(flat_sym[i]), symbolic=str(sym_res.tolist())[:600]))
            break
    # ---- values: substitute numbers into the symbolic result
    exprs = [sympy.sympify(x) for x in flat_sym]
    extra = set().union(*[e.free_symbols for e in exprs]) - set(syms) if exprs else set()
    if extra:
        ctx.fail(f"oracle:free-symbols:{key}", f"{F.entry} ({F.fid}): result mentions symbols {extra} that are not arguments", rep)
        return sym_res
    try:
        fn = sympy.lambdify(syms, exprs, modules='math', cse=False)
    except Exception:  # noqa
        fn = None
    worst = 0.0
    points = sign_points(rng, F) + [None] * (max(4, npts // 3) if getattr(F, 'derived', False) else npts)
    for a in points:
        if a is None:
            a = num_args(rng, F)
        fa = flat_floats(a)
        try:
            with np.errstate(all='ignore'):
                num = np.asarray(F.numcall(*a), dtype=float).flatten()
        except Exception as ex:  # noqa
            ctx.fail(f"num:raises-at-point:{key}:{type(ex).__name__}", f"{F.entry} ({F.fid}): numeric path raises at a sampled point: {ex}",
                     dict(rep, args_hex=[x.hex() for x in fa]))
            break
        try:
            if fn is not None:
                val = [float(v) for v in fn(*fa)]
            else:
                raise ValueError
        except Exception:  # noqa  (e.g. division by zero inside the expression): exact substitution
            sub = dict(zip(syms, fa))
            try:
                val = [float(sympy.N(e.subs(sub), 30)) for e in exprs]
            except Exception as ex:  # noqa
                ctx.fail(f"oracle:undefined:{key}",
                         f"{F.entry} ({F.fid}): the symbolic result has no value at a point where the numeric call returns one "
                         f"({type(ex).__name__}: {ex})", dict(rep, args_hex=[x.hex() for x in fa], args=fa, numeric=[float(x) for x in num]))
                break
        ctx.case((key, tuple(fa)))
        ctx.count('oracle:points')
        scale = max([1.0] + [abs(x) for x in num if math.isfinite(x)] + lin_mags(F, a))
        for i, (v, n) in enumerate(zip(val, num)):
            if math.isnan(v) and math.isnan(n):
                continue
            err = abs(v - n)
            worst = max(worst, err / scale if math.isfinite(err) else float('inf'))
            if not err <= TOL * scale:
                ctx.fail(f"oracle:value:{key}",
                         f"{F.entry} ({F.fid}): symbolic result with numbers substituted differs from the numeric call: "
                         f"entry {i}: {v!r} vs {n!r} (|diff|={err:g}, scale {scale:g})",
                         dict(rep, args_hex=[x.hex() for x in fa], args=fa, entry=i, substituted=v, numeric=float(n),
                              symbolic_entry=str(exprs[i])[:400]))
                break
    ctx.stats['worst-rel:' + F.entry] = max(ctx.stats.get('worst-rel:' + F.entry, 0.0), worst)
    return sym_res


# ----------------------------------------------------------------------------------------------------------------
def generic_probe(ctx, q):
    """a tagged entry that is not in the call-form table (newly tagged): try a few argument shapes"""
    try:
        if q.startswith('base.'):
            f = getattr(base, q[5:])
            bound = [lambda *a: f(*a)]
        else:
            cls, meth = q.split('.')
            C = getattr(spatialmath, cls, None) or getattr(spatialmath.super_pose, cls)
            bound = [lambda *a: getattr(C, meth)(*a)]
    except Exception:  # noqa
        return False
    cands = [[('t', 'S', 'ang')], [('v', 'V3', 'gen')], [('v', 'V6', 'gen')], [('q', 'V4', 'gen')], [('R', 'M33', 'rot')],
             [('X', 'M44', 'se3')], [('A', 'M22', 'rot2')], [('u', 'V3', 'gen'), ('v', 'V3', 'gen')]]
    for args in cands:
        F = Form(q, 'probe:' + ','.join(sh for _, sh, _ in args), args, lambda *a: unwrap(bound[0](*a)))
        try:
            F.call(*num_args(ctx.rng, F, generic=True))
        except Exception:  # noqa
            continue
        evaluate_form(ctx, F, 20)
        return True
    return False


def build(ctx, table, tagged):
    g = Gen('C16')
    results = {}
    npts = ctx.n(24, 1500)
    for F in table:
        if not F.entry.startswith(('op.', 'aux.')) and not is_supported(tagged.get(F.entry, '')):
            ctx.notes.append(f"table entry {F.entry} is not tagged ':SymPy: supported' in this tree: skipped")
            continue
        res = evaluate_form(ctx, F, npts)
        results[(F.entry, F.fid)] = res
        if F.trace and res is not None:
            post = POSTS[F.post]
            inputs = F.inputs
            fn, nfn = F.call, F.numcall
            if F.post == 'deg':
                inputs = [('Kdeg', 'S')] + inputs
                fn = (lambda c: lambda k, *a: c(*a))(F.call)
                nfn = (lambda c: lambda k, *a: c(*a))(F.numcall)
            homidx = [i for i, (_, _, dom) in enumerate(F.args) if dom in ('se3', 'se2', 'hom')]
            off = 1 if F.post == 'deg' else 0
            if homidx:
                fn = (lambda c, idx: lambda *a: c(*[hom(x) if (i - off) in idx else x for i, x in enumerate(a)]))(fn, homidx)
                nfn = (lambda c, idx: lambda *a: c(*[hom(x) if (i - off) in idx else x for i, x in enumerate(a)]))(nfn, homidx)
            sampler = (lambda F_: lambda rng: ([math.pi / 180] if F_.post == 'deg' else []) + corr_args(rng, F_))(F)
            try:
                g.trace(F.trace, inputs, fn, out=F.out, num_fn=nfn, sampler=sampler, post=post, tol=1e-11, optional=False,
                        note=f"{F.entry} ({F.fid})")
            except Exception as ex:  # noqa
                ctx.fail(f"trace:{F.trace}", f"{F.entry} ({F.fid}) runs on symbols but its result cannot be printed as a Gallina "
                         f"definition: {type(ex).__name__}: {ex}", {'entry': F.entry, 'form': F.fid}, no_input=True)
    return g, results


def corr_args(rng, F):
    """arguments for the extracted-Gallina vs numeric comparison: moderate magnitudes (the tolerance there is absolute-ish)"""
    vals = []
    for n, sh, dom in F.args:
        if dom == 'lin':
            shape = SHAPES[sh]
            v = rng.normal(size=shape) * 10 ** rng.uniform(-1, 1) if shape else float(rng.normal() * 10 ** rng.uniform(-1, 1))
            vals.append(v)
        elif dom in ('se3',):
            vals.append(rand_se3(rng, 1e-2, 1e2))
        elif dom in ('se2',):
            vals.append(rand_se2(rng, 1e-2, 1e2))
        elif dom == 'delta':
            vals.append(np.array([draw(rng, 'gen') for _ in range(3)] + [float(rng.uniform(0.05, 1.0) * rng.choice([-1.0, 1.0])) for _ in range(3)]))
        else:
            vals.append(sample_arg(rng, sh, dom))
    return vals


def gen_text(g):
    """Gen.coq_text() assumes every definition mentions the section variable O (it emits `Arguments f {T} O.` and the
    OCaml driver passes the float ops record to every trace).  Results that do no arithmetic at all (SE3(X).t, SO3(R).R,
    transl(T) ...) do not; make the dependency explicit with a `let _ := O` so that all traces have the same shape."""
    text = g.coq_text()
    for t in g.traces:
        if t.term is not None and not re.search(r'\bO\b', t.term):
            text = re.sub(r'(Definition %s [^\n]*:=\n)' % re.escape(t.name), r'\1  let _ := O in\n', text, count=1)
    return text


def table_text(table):
    """the observed acceptance status of every call form, as a Gallina list (finite table for Props/C16_d.v)"""
    rows = [f'  ("{F.entry}", "{F.fid}", {F.status})' for F in table if hasattr(F, 'status')]
    return ("From Coq Require Import String List.\nImport ListNotations.\nOpen Scope string_scope.\n"
            "Inductive form_status := Ok | SymRaises | BothRaise | NumRaises.\n"
            "Definition callforms : list (string * string * form_status) := [\n" + ";\n".join(rows) + "\n].\n")


def consts_text():
    """numeric constants of the mixed forms as Gallina definitions (from Python's math, NOT from the library):
    the double cos(0.1), sin(0.1), cos(0.3), sin(0.3) as exact rationals"""
    out = ["Section Consts.\nContext {T : Type} (O : ops T).\n"
           "Local Infix \"+\" := (add O). Local Infix \"-\" := (sub O). Local Infix \"*\" := (mul O). Local Infix \"/\" := (div O).\n"]
    for nm, v in (('k_cos01', math.cos(0.1)), ('k_sin01', math.sin(0.1)), ('k_cos03', math.cos(0.3)), ('k_sin03', math.sin(0.3))):
        out.append(f"Definition {nm} : T := {coq_expr(sympy.Float(v))}.\n")
    out.append("End Consts.\n")
    for nm in ('k_cos01', 'k_sin01', 'k_cos03', 'k_sin03'):
        out.append(f"Arguments {nm} {{T}} O.\n#[export] Hint Unfold {nm} : smgen.\n")
    return "".join(out)


def run(ctx):
    ctx.rule = ("obligations: theorems of theories/Props/C16_{a,b,c,d,e,f,g}.v over the traces regenerated from /repo (the library run on "
                "SymPy symbols, every ':SymPy: supported' entry enumerated from the docstrings + pose operators, every call form); "
                "evaluations: oracle points (numbers substituted into the symbolic result vs the numeric call, 1e-12) + Sym==Num "
                "cases (extracted Gallina vs numeric call); a case is distinct by its (entry, call form, arguments) signature")
    ctx.trusted_extra = ["C16 runs the library WITHOUT lib.concolic patches: the symbolic path observed is the library's own",
                         "sympy.lambdify(modules='math') for the substitution oracle (fallback: subs + 30-digit evalf)"]
    with ctx.timed('enumerate'):
        tagged = enumerate_tagged()
        supported = sorted(q for q, t in tagged.items() if is_supported(t))
        ctx.stats['tagged-supported'] = len(supported)
        ctx.stats['tagged-entries'] = supported
        table = forms()
        covered = {F.entry for F in table}
        for q in supported:
            if q not in covered:
                ok = generic_probe(ctx, q)
                ctx.notes.append(f"newly tagged entry {q}: {'probed generically' if ok else 'NOT covered'}")
                if not ok:
                    ctx.fail(f"enum:untabled:{q}", f"{q} is tagged ':SymPy: supported' but no call form of it is known to the check "
                             "and generic probing found no working numeric call", {'entry': q}, no_input=True)
        if len(supported) < 20:
            ctx.fail('enum:too-few', f"only {len(supported)} entries tagged ':SymPy: supported' were found under {REPO}", no_input=True)
    with ctx.timed('regenerate+oracle'):
        g, results = build(ctx, table, tagged)
        text = gen_text(g) + consts_text() + table_text(table)
    rc, out, err, dt = ctx.coqc(ctx.write_gen(MOD + '.v', text))
    if rc != 0:
        ctx.fail('gen:compile', 'generated traces do not compile: ' + err[-800:], no_input=True)
        return
    ctx.stats['traces'] = len(g.traces)
    for f in ('C16_a.v', 'C16_b.v', 'C16_c.v', 'C16_d.v', 'C16_e.v', 'C16_f.v', 'C16_g.v'):
        p = os.path.join(core.COQ, 'theories', 'Props', f)
        if os.path.exists(p):
            ctx.prove('theories/Props/' + f)
    with ctx.timed('correspond'):
        sym_num(ctx, g, MOD, ctx.n(12, 600))
    ctx.sample({'kind': 'oracle', 'forms': ctx.stats.get('forms'), 'points': ctx.stats.get('oracle:points')})


def replay(ctx, path):
    """re-run exactly the recorded case: the call form named in the replay file, at the recorded arguments"""
    import json
    rec = json.load(open(path))
    r = rec.get('replay') or {}
    key = rec.get('key', '')
    F = next((f for f in forms() if f.entry == r.get('entry') and f.fid == r.get('form')), None)
    if F is None:                      # a broken obligation / correspondence: re-run the whole check
        from lib.main import generic_replay
        import sys
        return generic_replay(ctx, sys.modules[__name__], path)
    svals, syms = sym_args(F)
    print(f"replay {key}: {F.entry} ({F.fid})")
    try:
        sres = to_object_array(F.call(*svals))
        print("  symbolic result:", str(sres.tolist())[:800])
    except Exception as ex:  # noqa
        print(f"  symbolic call raises {type(ex).__name__}: {ex}  [{site_of(ex)}]")
        print(f"REPRODUCED {key}" if ':raises:' in key else f"not reproduced: {key}")
        return 1 if ':raises:' in key else 0
    if ':raises:' in key:
        print(f"not reproduced: {key}")
        return 0
    if 'args_hex' in r:
        fa = [float.fromhex(h) for h in r['args_hex']]
        a, i = [], 0
        for n, sh, dom in F.args:
            k = int(np.prod(SHAPES[sh])) if SHAPES[sh] else 1
            a.append(np.array(fa[i:i + k]).reshape(SHAPES[sh]) if SHAPES[sh] else fa[i])
            i += k
        num = np.asarray(F.numcall(*a), dtype=float).flatten()
        sub = dict(zip(syms, fa))
        val = [float(sympy.N(sympy.sympify(e).subs(sub), 30)) for e in sres.flatten()]
        scale = max([1.0] + [abs(x) for x in num] + lin_mags(F, a))
        err = max(abs(v - n) for v, n in zip(val, num)) if len(val) == len(num) else float('inf')
        print(f"  arguments {fa}\n  substituted {val}\n  numeric     {list(num)}\n  max |diff| {err:g} (tolerance {TOL * scale:g})")
        bad = not err <= TOL * scale
    else:                              # structural constant / shape
        ctx2 = core.Ctx(ctx.prop, ctx.tier, ctx.seed)
        evaluate_form(ctx2, F, 4)
        bad = any(f.key == key for f in ctx2.findings)
    print(f"REPRODUCED {key}" if bad else f"not reproduced: {key}")
    return 1 if bad else 0
