"""C20 -- spatial 6-vectors and spatial inertia follow Featherstone's spatial algebra.

model:   T-sym traces of the class layer of spatialmath/spatialvector.py (+ - neg, cross, SE3 * vector,
         SE3.Ad, inertia * vector, inertia constructor without I) regenerated on every run;
         hand model Model/C20_Inertia.v: spatial_inertia (the constructor, T-num) and the dispatch model (T-tab).
prove:   theories/Props/C20.v (values, over R) and theories/Props/C20_tab.v (class / length tables).
tie:     Sym==Num + T-num through extraction; the dispatch model is evaluated in Coq (vm_compute) on every cell
         of the finite table and compared with the implementation's outcome on that cell.
oracle:  independent NumPy formulas on the implementation, magnitudes 1e-6..1e6, masses > 0, SPD inertias,
         single- and multi-valued objects.
"""
import numpy as np
import sympy
from lib import concolic
from lib.symtrace import Gen
from lib.corr import sym_num
from lib.gens import log_uniform, rand_unit, rand_rot, rand_trans, signed_mag

concolic.install()
from spatialmath import SE3, Twist3  # noqa: E402
from spatialmath.spatialvector import (SpatialVelocity, SpatialAcceleration, SpatialForce,  # noqa: E402
                                       SpatialMomentum, SpatialInertia)

MOD = 'Traces_C20'
CLS = {'Vel': SpatialVelocity, 'Acc': SpatialAcceleration, 'Frc': SpatialForce, 'Mom': SpatialMomentum}
NAME = {v.__name__: k for k, v in CLS.items()}
MOTION = ('Vel', 'Acc')


# ----------------------------------------------------------------------------------------------- generators
def vec6(rng, lo=1e-6, hi=1e6):
    """6-vector, linear and angular parts with independent magnitudes in [lo, hi], occasional zeros"""
    a = rand_unit(rng) * log_uniform(rng, lo, hi)
    b = rand_unit(rng) * log_uniform(rng, lo, hi)
    r = rng.random()
    if r < 0.05:
        a = np.zeros(3)
    elif r < 0.1:
        b = np.zeros(3)
    return np.r_[a, b]


def spd3(rng, lo=1e-6, hi=1e6):
    """symmetric positive-definite 3x3: Q diag(d) Q' with principal moments log-uniform in [lo, hi]"""
    Q = rand_rot(rng, rng.uniform(0, np.pi))
    s = log_uniform(rng, lo, hi)
    d = np.array([s * rng.uniform(0.2, 1.0) for _ in range(3)])
    M = Q @ np.diag(d) @ Q.T
    return (M + M.T) / 2


def skew(v):
    return np.array([[0, -v[2], v[1]], [v[2], 0, -v[0]], [-v[1], v[0], 0.0]])


def mk_inertia(J):
    """SpatialInertia holding a given 6x6 (symbolic) matrix: the 6x6 constructor path forces float64, so the
    matrix is stored directly; the methods under test (__mul__) only read .A"""
    I = SpatialInertia()
    I.data = [J]
    return I


def tiny_com(rng):
    """non-zero centre of mass with |c| log-uniform in 1e-12..1e-3, some components exactly +0.0 or -0.0"""
    c = rand_unit(rng) * log_uniform(rng, 1e-12, 1e-3)
    keep = int(rng.integers(3))
    for j in range(3):
        if j != keep and rng.random() < 0.35:
            c[j] = 0.0 if rng.random() < 0.5 else -0.0
    return c


def inertia_sampler(rng):
    if rng.random() < 0.4:
        # tiny centre of mass, large mass, small rotational inertia: the m*skew(r) blocks stay above the
        # correspondence tolerance (1e-11 of the largest entry) although |r| is far below 1e-8
        return [log_uniform(rng, 1e3, 1e6), tiny_com(rng), spd3(rng, 1e-3, 1.0)]
    return [log_uniform(rng, 1e-3, 1e3), rand_unit(rng) * log_uniform(rng, 1e-3, 1e3), spd3(rng, 1e-3, 1e3)]


def se3_sampler_with(k):
    def s(rng):
        T = np.eye(4)
        T[:3, :3] = rand_rot(rng, rng.uniform(0, np.pi))
        T[:3, 3] = rng.normal(size=3)
        return [T] + [rng.normal(size=6) for _ in range(k)]
    return s


# ----------------------------------------------------------------------------------------------- traces
def build(ctx):
    g = Gen('C20')
    _tr = g.trace
    g.trace = lambda *a, **k: _tr(*a, **{**k, 'optional': True})   # see run(): a missing trace breaks its theorem, the search still runs
    for k, C in CLS.items():
        g.trace(f'tr_add_{k}', [('a', 'V6'), ('b', 'V6')], (lambda C: lambda a, b: (C(a) + C(b)).A)(C))
        g.trace(f'tr_sub_{k}', [('a', 'V6'), ('b', 'V6')], (lambda C: lambda a, b: (C(a) - C(b)).A)(C))
        g.trace(f'tr_neg_{k}', [('a', 'V6')], (lambda C: lambda a: (-C(a)).A)(C))
        def _iadd(C):
            def f(a, b):
                x = C(a)
                x += C(b)
                assert type(x) is C and len(x) == 1
                return x.A
            return f

        def _isub(C):
            def f(a, b):
                x = C(a)
                x -= C(b)
                assert type(x) is C and len(x) == 1
                return x.A
            return f
        g.trace(f'tr_iadd_{k}', [('a', 'V6'), ('b', 'V6')], _iadd(C))
        g.trace(f'tr_isub_{k}', [('a', 'V6'), ('b', 'V6')], _isub(C))
        g.trace(f'tr_se3_{k}', [('X', 'M44'), ('a', 'V6')], (lambda C: lambda X, a: (SE3(X, check=False) * C(a)).A)(C),
                sampler=se3_sampler_with(1))
    # cross products: motion x motion (crm), motion x* force (crf); `@` is the same method
    g.trace('tr_crm', [('v', 'V6'), ('m', 'V6')], lambda v, m: SpatialVelocity(v).cross(SpatialVelocity(m)).A)
    g.trace('tr_crm_op', [('v', 'V6'), ('m', 'V6')], lambda v, m: (SpatialVelocity(v) @ SpatialVelocity(m)).A)
    g.trace('tr_crm_acc', [('v', 'V6'), ('m', 'V6')], lambda v, m: SpatialAcceleration(v).cross(SpatialVelocity(m)).A)
    g.trace('tr_crm_accop', [('v', 'V6'), ('m', 'V6')], lambda v, m: SpatialVelocity(v).cross(SpatialAcceleration(m)).A)
    g.trace('tr_crm_op_accop', [('v', 'V6'), ('m', 'V6')], lambda v, m: (SpatialVelocity(v) @ SpatialAcceleration(m)).A)
    g.trace('tr_crf_Frc', [('v', 'V6'), ('f', 'V6')], lambda v, f: SpatialVelocity(v).cross(SpatialForce(f)).A)
    g.trace('tr_crf_Mom', [('v', 'V6'), ('f', 'V6')], lambda v, f: SpatialVelocity(v).cross(SpatialMomentum(f)).A)
    g.trace('tr_fdot', [('f', 'V6'), ('m', 'V6')], lambda f, m: SpatialForce(f).dot(m))
    # two-valued right operand (element-wise since /repo 0da5cb1): element k of the result, for SE3 *, cross, inertia *
    def two(C, a, b):
        o = C([a, b])
        assert len(o) == 2
        return o

    def elem(res, k, C):
        assert type(res) is C and len(res) == 2, (type(res), len(res))
        return res[k].A
    for k in (0, 1):
        g.trace(f'tr_se3_Vel_2_{k}', [('X', 'M44'), ('a', 'V6'), ('b', 'V6')],
                (lambda k: lambda X, a, b: elem(SE3(X, check=False) * two(SpatialVelocity, a, b), k, SpatialVelocity))(k), sampler=se3_sampler_with(2))
        g.trace(f'tr_se3_Frc_2_{k}', [('X', 'M44'), ('a', 'V6'), ('b', 'V6')],
                (lambda k: lambda X, a, b: elem(SE3(X, check=False) * two(SpatialForce, a, b), k, SpatialForce))(k), sampler=se3_sampler_with(2))
        g.trace(f'tr_crm_2_{k}', [('v', 'V6'), ('a', 'V6'), ('b', 'V6')],
                (lambda k: lambda v, a, b: elem(SpatialVelocity(v).cross(two(SpatialVelocity, a, b)), k, SpatialAcceleration))(k))
        g.trace(f'tr_crf_2_{k}', [('v', 'V6'), ('a', 'V6'), ('b', 'V6')],
                (lambda k: lambda v, a, b: elem(SpatialVelocity(v).cross(two(SpatialMomentum, a, b)), k, SpatialForce))(k))
        g.trace(f'tr_I_acc_2_{k}', [('J', 'M66'), ('a', 'V6'), ('b', 'V6')],
                (lambda k: lambda J, a, b: elem(mk_inertia(J) * two(SpatialAcceleration, a, b), k, SpatialForce))(k))
        g.trace(f'tr_I_vel_2_{k}', [('J', 'M66'), ('a', 'V6'), ('b', 'V6')],
                (lambda k: lambda J, a, b: elem(mk_inertia(J) * two(SpatialVelocity, a, b), k, SpatialMomentum))(k))
    # adjoint
    g.trace('tr_Ad', [('X', 'M44')], lambda X: SE3(X, check=False).Ad(), sampler=se3_sampler_with(0))
    # inertia * acceleration / velocity
    g.trace('tr_I_acc', [('J', 'M66'), ('a', 'V6')], lambda J, a: (mk_inertia(J) * SpatialAcceleration(a)).A)
    g.trace('tr_I_vel', [('J', 'M66'), ('a', 'V6')], lambda J, a: (mk_inertia(J) * SpatialVelocity(a)).A)
    # the constructor traces only when no rotational inertia is given (I = zeros); used as a bridge to the hand model
    g.trace('tr_inertia_noI', [('m', 'S'), ('r', 'V3')], lambda m, r: SpatialInertia(m, r).A,
            sampler=lambda rng: inertia_sampler(rng)[:2],
            note='SpatialInertia(m, r) with I omitted (np.zeros); the full constructor forces float64 and is hand-modelled')
    # hand model of the full constructor: numeric correspondence (T-num)
    g.model('m_spatial_inertia', [('m', 'S'), ('r', 'V3'), ('I', 'M33')], 'M66',
            coq='SM.Model.C20_Inertia.spatial_inertia', module='Model.C20_Inertia',
            num_fn=lambda m, r, I: SpatialInertia(m, r, I).A, sampler=inertia_sampler)
    # hand model of SpatialInertia + SpatialInertia (the 6x6 constructor forces float64, so it does not trace)
    g.model('m_inertia_add', [('A', 'M66'), ('B', 'M66')], 'M66',
            coq='SM.Model.C20_Inertia.inertia_add', module='Model.C20_Inertia',
            num_fn=lambda A, B: (SpatialInertia(A) + SpatialInertia(B)).A)
    return g



# ----------------------------------------------------------------------------------------------- T-tab
COQ_HDR = "From Coq Require Import List Bool Arith.\nFrom SM Require Import Model.C20_Inertia.\n"
LENS = [0, 1, 2, 3, 6]
NOTSV = [('float', lambda: 1.5), ('ndarray6', lambda: np.ones(6)), ('SE3', lambda: SE3()), ('SpatialInertia', lambda: SpatialInertia()),
         ('Twist3', lambda: Twist3()), ('list6', lambda: [1.0, 2, 3, 4, 5, 6]), ('None', lambda: None)]


def mk(k, n, rng):
    """object of class k holding n values, and the (6, n) array of its columns"""
    A = rng.normal(size=(6, n)) * 10 ** rng.uniform(-1, 1)
    obj = CLS[k].Empty() if n == 0 else CLS[k](A[:, 0].copy()) if n == 1 else CLS[k](A.copy())
    assert len(obj) == n
    return obj, A


def columns(obj):
    if len(obj.data) == 0:
        return np.zeros((6, 0))
    return np.column_stack([np.asarray(x, float).reshape(6) for x in obj.data])


def observe(thunk):
    """canonical outcome of an implementation call: ('Value', class key, length, object) | ('Raise', kind) | ('Other', type)"""
    try:
        r = thunk()
    except Exception as ex:  # noqa
        return ('Raise', type(ex).__name__)
    if type(r).__name__ in NAME:
        return ('Value', NAME[type(r).__name__], len(r), r)
    return ('Other', type(r).__name__)


def parse_outcome(s):
    t = s.replace('(', ' ').replace(')', ' ').replace(',', ' ').split()
    if t[0] == 'Value':
        return ('Value', t[1], int(t[2]))
    if t[0] == 'Raise':
        return ('Raise', t[1])
    raise ValueError('cannot parse model outcome ' + s)


def parse_expected(s):
    t = s.replace('(', ' ').replace(')', ' ').replace(',', ' ').split()
    if t[0] == 'None':
        return None
    if t[0] == 'Some':
        return (t[1], int(t[2]))
    raise ValueError('cannot parse expected cell ' + s)


def split_pair(s):
    """'(Value Vel 1, Some (Vel, 1))' -> ('Value Vel 1', 'Some (Vel, 1)')"""
    s = s.strip()
    assert s[0] == '(' and s[-1] == ')', s
    s = s[1:-1]
    depth = 0
    for i, ch in enumerate(s):
        if ch == '(':
            depth += 1
        elif ch == ')':
            depth -= 1
        elif ch == ',' and depth == 0:
            return s[:i].strip(), s[i + 1:].strip()
    raise ValueError(s)


def kind_of(obs):
    if obs[0] == 'Raise':
        return 'raises-' + obs[1]
    if obs[0] == 'Value':
        return 'returns-value'
    return 'returns-' + obs[1]


def judge(ctx, op, category, cell, obs, model, expected, value_ok=None):
    """one table cell: the implementation's outcome against what the property expects; the as-is model is
    compared too (exception kinds included) -- a difference in the exception kind alone is noted, not a finding"""
    ctx.case(('tab', op, cell))
    ctx.count('tab:' + op)
    o3 = obs[:3] if obs[0] == 'Value' else obs
    if o3 != model:
        ctx.count('tab:model-differs:' + op)
        if len(ctx.notes) < 20:
            ctx.notes.append(f"dispatch model differs from the implementation on {op} {cell}: model {model}, implementation {o3}")
    if expected is None:
        if obs[0] != 'Raise':
            ctx.fail(f'tab:{op}:{category}:{kind_of(obs)}', f"{op} on {cell} must be rejected but {kind_of(obs)} ({o3})",
                     {'op': op, 'cell': cell, 'observed': o3, 'expected': 'raise'})
        return
    if obs[0] != 'Value':
        ctx.fail(f'tab:{op}:{category}:{kind_of(obs)}', f"{op} on {cell} must give {expected} but {kind_of(obs)}",
                 {'op': op, 'cell': cell, 'observed': o3, 'expected': expected})
    elif (obs[1], obs[2]) != expected:
        ctx.fail(f'tab:{op}:{category}:wrong-class-or-length', f"{op} on {cell} must give {expected}, got {o3}",
                 {'op': op, 'cell': cell, 'observed': o3, 'expected': expected})
    elif value_ok is not None:
        try:
            ok, detail = value_ok(obs[3])
        except Exception as ex:  # noqa -- the returned object does not even hold 6-vectors
            ok, detail = False, f"the result's values cannot be read: {type(ex).__name__}: {ex}"
        if not ok:
            ctx.fail(f'tab:{op}:{category}:wrong-values', f"{op} on {cell}: values are not the element-wise result: {detail}",
                     {'op': op, 'cell': cell, 'detail': detail})


def close(got, ref, tol=1e-14):
    got, ref = np.asarray(got, float), np.asarray(ref, float)
    if got.shape != ref.shape:
        return False, f"shape {got.shape} vs {ref.shape}"
    err = float(np.max(np.abs(got - ref))) if got.size else 0.0
    return err <= tol * max(1.0, float(np.max(np.abs(ref))) if ref.size else 1.0), f"max abs difference {err:g}"


def tables(ctx):
    rng = ctx.rng
    keys = list(CLS)
    rname = lambda r: 'NotSV' if r is None else f'(SV {r})'
    # ---- all model / expected cells evaluated inside Coq (vm_compute), one term per cell
    as_cells = [(l, nl, r, nr) for l in keys for nl in LENS for r in keys + [None] for nr in LENS]
    cr_cells = [(l, r, n) for l in keys for r in keys + [None] for n in LENS]
    im_cells = [(r, n) for r in keys + [None] for n in LENS]
    se_cells = [(c, n) for c in keys for n in LENS]
    terms = [f"(addsub_model {l} {nl} {rname(r)} {nr}, addsub_expected {l} {nl} {rname(r)} {nr})" for l, nl, r, nr in as_cells]
    terms += [f"(inplace_model {l} {nl} {rname(r)} {nr}, addsub_expected {l} {nl} {rname(r)} {nr})" for l, nl, r, nr in as_cells]
    terms += [f"(neg_model {l} {n}, Some ({l}, {n}))" for l in keys for n in LENS]
    terms += [f"(copy_model {l} {n}, Some ({l}, {n}))" for l in keys for n in LENS]
    terms += [f"(cross_model {l} {rname(r)} {n}, cross_expected {l} {rname(r)} {n})" for l, r, n in cr_cells]
    terms += [f"(imul_model {rname(r)} {n}, imul_expected {rname(r)} {n})" for r, n in im_cells]
    terms += [f"(se3mul_model {c} {n}, Some ({c}, {n}))" for c, n in se_cells]
    terms += ["(iadd_model true, iadd_expected true)", "(iadd_model false, iadd_expected false)"]
    vals = ctx.coq_eval(COQ_HDR, terms, name='tab', chunk=1000)
    it = iter(vals)
    nxt = lambda: (lambda a, b: (parse_outcome(a), parse_expected(b)))(*split_pair(next(it)))

    # ---- + and - on every ordered pair of classes and lengths
    for l, nl, r, nr in as_cells:
        model, expected = nxt()
        x, A = mk(l, nl, rng)
        rights = [(r,) + mk(r, nr, rng)] if r is not None else [(nm, f(), None) for nm, f in NOTSV]
        for rn, y, B in rights:
            for op, f, npf in (('add', lambda a, b: a + b, np.add), ('sub', lambda a, b: a - b, np.subtract)):
                obs = observe(lambda: f(x, y))
                cat = ('non-spatial-operand' if r is None else 'mixed-class' if r != l else
                       'unequal-length' if nl != nr else 'same-class-equal-length')
                vok = (lambda res, A=A, B=B, npf=npf: close(columns(res), npf(A, B))) if B is not None and B.shape == A.shape else None
                judge(ctx, op, cat, f"{l}[{nl}] , {rn}[{nr}]", obs, model, expected, vok)
    # ---- the in-place forms x += y, x -= y: the table of + and -, the value is the element-wise result; the object the
    #      name was bound to before must afterwards hold its old values or the result (never anything else)
    def inplace(op):
        def f(a, b):
            z = a
            if op == 'add':
                z += b
            else:
                z -= b
            return z
        return f
    for l, nl, r, nr in as_cells:
        model, expected = nxt()
        rights = [(r,) + mk(r, nr, rng)] if r is not None else [(nm, f(), None) for nm, f in NOTSV]
        for rn, y, B in rights:
            for op, npf in (('add', np.add), ('sub', np.subtract)):
                x, A = mk(l, nl, rng)
                obs = observe(lambda: inplace(op)(x, y))
                cat = ('non-spatial-operand' if r is None else 'mixed-class' if r != l else
                       'unequal-length' if nl != nr else 'same-class-equal-length')
                vok = (lambda res, A=A, B=B, npf=npf: close(columns(res), npf(A, B))) if B is not None and B.shape == A.shape else None
                judge(ctx, 'inplace-' + op, cat, f"{l}[{nl}] {'+=' if op == 'add' else '-='} {rn}[{nr}]", obs, model, expected, vok)
                try:
                    after = columns(x) if type(x).__name__ in NAME else None
                except Exception:  # noqa -- the object now holds something that is not a 6-vector
                    after = None
                ok_alias = after is not None and (close(after, A)[0] or (B is not None and B.shape == A.shape and close(after, npf(A, B))[0]))
                if not ok_alias:
                    ctx.fail(f'tab:inplace-{op}:{cat}:left-object-corrupted', f"after {l}[{nl}] {'+=' if op == 'add' else '-='} {rn}[{nr}] the object "
                             f"the name was bound to holds neither its old values nor the result (length {None if after is None else after.shape[1]})",
                             {'op': 'inplace-' + op, 'cell': f"{l}[{nl}] , {rn}[{nr}]"})
    for l in keys:
        for n in LENS:
            model, expected = nxt()
            x, A = mk(l, n, rng)
            judge(ctx, 'neg', 'any', f"{l}[{n}]", observe(lambda: -x), model, expected, lambda res, A=A: close(columns(res), -A))

    # ---- copy constructor C(obj): same class, length and values (multi-valued: /repo df7016a)
    for l in keys:
        for n in LENS:
            model, expected = nxt()
            x, A = mk(l, n, rng)
            judge(ctx, 'copy', 'any', f"{l}({l}[{n}])", observe(lambda: CLS[l](x)), model, expected, lambda res, A=A: close(columns(res), A))

    # ---- cross product: operand classes; single-valued left operand, n-valued right operand (element-wise: /repo 0da5cb1)
    for l, r, n in cr_cells:
        model, expected = nxt()
        x, A = mk(l, 1, rng)
        rights = [(r,) + mk(r, n, rng)] if r is not None else [(nm, f(), None) for nm, f in NOTSV]
        for rn, y, B in rights:
            cat = ('force-left' if l not in MOTION else 'non-spatial-operand' if r is None else
                   f'motion-x-motion-{r}' if r in MOTION else 'motion-x-force')
            if n != 1 and r is not None:
                cat += '-multi'
            vok = None
            if B is not None and l in MOTION:
                ref = (crm_np(A[:, 0]) if r in MOTION else -crm_np(A[:, 0]).T) @ B
                vok = lambda res, ref=ref: close(columns(res), ref, 1e-12)
            judge(ctx, 'cross', cat, f"{l}.cross({rn}[{n}])", observe(lambda: x.cross(y)), model, expected, vok)

    # ---- inertia * vector, SE3 * vector: result classes and values, n-valued right operand
    J = SpatialInertia(2.0, [0.1, -0.2, 0.3], np.diag([1.0, 2.0, 3.0]))
    for r, n in im_cells:
        model, expected = nxt()
        rights = [(r,) + mk(r, n, rng)] if r is not None else [(nm, f(), None) for nm, f in NOTSV]
        for rn, y, B in rights:
            vok = (lambda res, B=B: close(columns(res), np.asarray(J.A, float) @ B, 1e-12)) if B is not None else None
            cat = f'inertia-x-{r or "non-spatial"}' + ('-multi' if n != 1 and r is not None else '')
            judge(ctx, 'imul', cat, f"SpatialInertia * {rn}[{n}]", observe(lambda: J * y), model, expected, vok)
    T = SE3(0.3, -0.2, 0.5) * SE3.Rx(0.4) * SE3.Rz(-1.1)
    X = ad_np(T.A)
    for c, n in se_cells:
        model, expected = nxt()
        y, B = mk(c, n, rng)
        ref = (X if c in MOTION else X.T) @ B
        judge(ctx, 'se3mul', 'single' if n == 1 else 'multi', f"SE3 * {c}[{n}]", observe(lambda: T * y), model, expected,
              lambda res, ref=ref: close(columns(res), ref, 1e-12))

    # ---- inertia + inertia (and + anything else)
    J2 = SpatialInertia(3.0, [0.0, 1.0, -0.5], np.diag([2.0, 1.0, 4.0]))
    for flag, rights in ((True, [('SpatialInertia', J2)]), (False, [(nm, f()) for nm, f in NOTSV if nm != 'SpatialInertia'] + [('SpatialVelocity', SpatialVelocity())])):
        ms, es = split_pair(next(it))
        for rn, y in rights:
            ctx.case(('tab', 'iadd', rn))
            ctx.count('tab:iadd')
            try:
                res = J + y
                if not isinstance(res, SpatialInertia):
                    obs, ok = ('Other', type(res).__name__), False
                else:
                    ok, detail = close(res.A, np.asarray(J.A, float) + np.asarray(J2.A, float), 1e-13) if flag else (False, '')
                    obs = ('ISum',) if ok else ('Value', 'wrong-values' if flag else 'accepted')
            except Exception as ex:  # noqa
                obs = ('Raise', type(ex).__name__)
            o_s = 'ISum' if obs == ('ISum',) else (f'IRaise {obs[1]}' if obs[0] == 'Raise' else ' '.join(obs))
            if o_s != ms:
                ctx.count('tab:model-differs:iadd')
                ctx.notes.append(f"dispatch model differs from the implementation on SpatialInertia + {rn}: model {ms}, implementation {o_s}")
            good = (obs == ('ISum',)) if flag else (obs[0] == 'Raise')
            if not good:
                what = ('raises-' + obs[1]) if obs[0] == 'Raise' else obs[1] if obs[0] == 'Value' else 'returns-' + obs[1]
                ctx.fail(f"tab:iadd:{'inertia+inertia' if flag else 'inertia+other'}:{what}",
                         f"SpatialInertia + {rn}: expected {es}, the implementation {what}", {'op': 'iadd', 'right': rn, 'observed': o_s, 'expected': es})
    Jc = SpatialInertia(2.0, [0.1, -0.2, 0.3], np.diag([1.0, 2.0, 3.0]))
    Jc += J2
    ctx.case(('tab', 'inertia-inplace-add'))
    ctx.count('tab:inertia-inplace-add')
    if not (isinstance(Jc, SpatialInertia) and len(Jc) == 1 and close(Jc.A, np.asarray(J.A, float) + np.asarray(J2.A, float), 1e-13)[0]):
        ctx.fail('tab:inertia-inplace-add:inertia+inertia:wrong-result', "I += J is not the SpatialInertia holding the matrix sum",
                 {'op': 'inertia-inplace-add', 'length': len(Jc) if hasattr(Jc, '__len__') else None})
    # ---- accumulation starting from the DEFAULT (zero) inertia, as in a composite-body loop: the sum is right, the operand is untouched, and
    #      every later default-constructed / allocated inertia is still zero and every later composite still right (no shared zero value)
    J2_before = np.array(J2.A, float)
    Z0 = SpatialInertia()
    Z0 += J2
    Zc = SpatialInertia()
    Zc = Zc + J2
    fresh = SpatialInertia()
    alloc = SpatialInertia.Alloc(3)
    Z2 = SpatialInertia()
    Z2 += J
    ctx.case(('tab', 'inertia-accumulate-from-default'))
    ctx.count('tab:inertia-accumulate-from-default')
    obs_acc = {'first composite': close(Z0.A, J2_before, 1e-13)[0], 'binary composite': close(Zc.A, J2_before, 1e-13)[0],
               'operand unchanged': close(J2.A, J2_before, 0.0)[0] or bool(np.array_equal(np.asarray(J2.A, float), J2_before)),
               'later default inertia is zero': bool(np.array_equal(np.asarray(fresh.A, float), np.zeros((6, 6)))),
               'later Alloc(3) is zero': len(alloc) == 3 and all(np.array_equal(np.asarray(a, float), np.zeros((6, 6))) for a in alloc.data),
               'second composite': close(Z2.A, np.asarray(J.A, float), 1e-13)[0]}
    for what_, ok_ in obs_acc.items():
        if not ok_:
            ctx.fail(f"hist:inertia-accumulate-from-default:{what_.replace(' ', '-')}",
                     f"I = SpatialInertia(); I += J; then SpatialInertia() / Alloc / a second composite: {what_} fails (a shared zero value was written to)",
                     {'op': 'inertia accumulate from default', 'observed': {k: bool(v) for k, v in obs_acc.items()}})
    assert next(it, None) is None

    # ---- multi-valued LEFT operand of cross (self.A is a list): not supported; an exception or the element-wise
    #      result, never silently wrong values
    v1, a1 = mk('Vel', 1, rng)
    for n in (2, 3, 6):
        for c in MOTION:
            Yl, Bl = mk(c, n, rng)
            multi(ctx, 'cross-left', f"{c}[{n}].cross(Vel)", lambda: Yl.cross(v1),
                  np.column_stack([crm_np(Bl[:, i]) @ a1[:, 0] for i in range(n)]))


def multi(ctx, site, cell, thunk, ref):
    ctx.case(('multi', site, cell))
    obs = observe(thunk)
    ctx.count(f'multi:{site}:{kind_of(obs)}')
    if obs[0] == 'Raise':
        return                                       # not supported for multi-valued operands: rejected, nothing wrong returned
    ok = obs[0] == 'Value' and obs[2] == ref.shape[1] and close(columns(obs[3]), ref, 1e-12)[0]
    if not ok:
        ctx.fail(f'multi-left:{site}:wrong-values', f"{cell} returns an object whose values are not the element-wise products",
                 {'site': site, 'cell': cell, 'observed': [np.asarray(x, float).tolist() for x in obs[3].data] if obs[0] == 'Value' else obs,
                  'expected_columns': ref.T.tolist()})


# ----------------------------------------------------------------------------------------------- oracle
def crm_np(v):
    """[skew(w) skew(v); 0 skew(w)], independent construction (linear part first)"""
    M = np.zeros((6, 6))
    M[:3, :3] = skew(v[3:])
    M[:3, 3:] = skew(v[:3])
    M[3:, 3:] = skew(v[3:])
    return M


def ad_np(T):
    R, t = T[:3, :3], T[:3, 3]
    X = np.zeros((6, 6))
    X[:3, :3] = R
    X[:3, 3:] = skew(t) @ R
    X[3:, 3:] = R
    return X


def inertia_np(m, c, I):
    """parallel-axis matrix, written without skew products: I + m (|c|^2 1 - c c')"""
    M = np.zeros((6, 6))
    M[:3, :3] = m * np.eye(3)
    M[:3, 3:] = -m * skew(c)
    M[3:, :3] = m * skew(c)
    M[3:, 3:] = I + m * ((c @ c) * np.eye(3) - np.outer(c, c))
    return M


def hexl(*arrs):
    return [float(x).hex() for a in arrs for x in np.asarray(a, float).flatten()]


def oracle(ctx):
    rng = ctx.rng
    N = ctx.n(2000, 60000)
    rel = 1e-9

    def chk(key, got, ref, scale, inputs, tol=rel):
        got, ref = np.asarray(got, float), np.asarray(ref, float)
        ctx.case((key, tuple(np.asarray(inputs, float).flatten()[:12])))
        ctx.count('oracle:' + key)
        err = float(np.max(np.abs(got - ref))) if got.shape == ref.shape else float('inf')
        scale = np.maximum(scale, 1e-300)
        r = float(np.max(np.abs(got - ref) / scale)) if got.shape == ref.shape else float('inf')
        ctx.stats['worst:' + key] = max(ctx.stats.get('worst:' + key, 0.0), r if np.isfinite(r) else float('inf'))
        if not r <= tol:
            ctx.fail('oracle:' + key, f"{key} fails on the implementation: max |got-ref| = {err:g}, relative to scale {r:g}",
                     {'law': key, 'inputs_hex': hexl(inputs), 'got': got.tolist(), 'ref': ref.tolist()})

    def cls_is(key, obj, C, inputs):
        ctx.count('oracle:class:' + key)
        if type(obj) is not C:
            ctx.fail('oracle:class:' + key, f"{key}: result is a {type(obj).__name__}, expected {C.__name__}",
                     {'law': key, 'inputs_hex': hexl(inputs)})

    keys = list(CLS)
    last = {}

    def one(i):
        v, m, f = vec6(rng), vec6(rng), vec6(rng)
        if i % 4 == 0:                                   # equal magnitudes: cancellations are not hidden by a large operand
            s = log_uniform(rng, 1e-6, 1e6)
            v, m, f = (rng.normal(size=6) * s for _ in range(3))
        nv, nm, nf = np.linalg.norm(v), np.linalg.norm(m), np.linalg.norm(f)
        # + - neg, one class per iteration
        k = keys[i % 4]
        C = CLS[k]
        a, b = vec6(rng), vec6(rng)
        s_ = C(a) + C(b)
        cls_is('add', s_, C, np.r_[a, b])
        chk('add', s_.A, a + b, np.abs(a) + np.abs(b), np.r_[a, b], tol=1e-15)
        d_ = C(a) - C(b)
        cls_is('sub', d_, C, np.r_[a, b])
        chk('sub', d_.A, a - b, np.abs(a) + np.abs(b), np.r_[a, b], tol=1e-15)
        n_ = -C(a)
        cls_is('neg', n_, C, a)
        chk('neg', n_.A, -a, np.abs(a), a, tol=0.0)
        # motion cross product
        vl, w, ml, mw, fl, fa = v[:3], v[3:], m[:3], m[3:], f[:3], f[3:]
        left = SpatialVelocity(v) if i % 3 else SpatialAcceleration(v)
        x = left.cross(SpatialVelocity(m) if i % 5 < 3 else SpatialAcceleration(m))
        cls_is('crm', x, SpatialAcceleration, np.r_[v, m])
        chk('crm', x.A, np.r_[np.cross(w, ml) + np.cross(vl, mw), np.cross(w, mw)], nv * nm, np.r_[v, m])
        chk('crm-matrix', x.A, crm_np(v) @ m, nv * nm, np.r_[v, m])
        chk('crm-operator', (SpatialVelocity(v) @ (SpatialVelocity(m) if i % 2 else SpatialAcceleration(m))).A, crm_np(v) @ m, nv * nm, np.r_[v, m])
        # force cross product
        F = SpatialForce(f) if i % 2 else SpatialMomentum(f)
        y = left.cross(F)
        cls_is('crf', y, SpatialForce, np.r_[v, f])
        chk('crf', y.A, np.r_[np.cross(w, fl), np.cross(vl, fl) + np.cross(w, fa)], nv * nf, np.r_[v, f])
        chk('crf-matrix', y.A, -crm_np(v).T @ f, nv * nf, np.r_[v, f])
        chk('duality', float(np.dot(y.A, m)), -float(np.dot(f, x.A)), nv * nf * nm, np.r_[v, f, m])
        chk('fdot', SpatialForce(f).dot(m), float(f @ m), nf * nm, np.r_[f, m])
        # spatial inertia
        mass = log_uniform(rng, 1e-6, 1e6)
        c = rand_unit(rng) * log_uniform(rng, 1e-6, 1e6) if i % 10 else np.zeros(3)
        if i % 10 in (1, 2, 3):
            # tiny but non-zero centre of mass (below any plausible "is it zero" tolerance) with a large mass: the
            # m*skew(c) blocks are small in absolute terms but carry the angular momentum m (c x v); some components
            # exactly +0.0 / -0.0
            c = tiny_com(rng)
            mass = log_uniform(rng, 1.0, 1e6)
        I3 = spd3(rng)
        try:
            J = SpatialInertia(mass, c, I3)
        except Exception as ex:  # noqa
            ctx.fail(f'oracle:inertia:raises-{type(ex).__name__}', f"SpatialInertia(m, c, I) raises {type(ex).__name__}: {ex}",
                     {'inputs_hex': hexl([mass], c, I3)})
            return
        JA = np.asarray(J.A, float)
        ref = inertia_np(mass, c, I3)
        rot = np.max(np.abs(I3)) + mass * (c @ c)
        sc = np.block([[np.full((3, 3), mass), np.full((3, 3), mass * np.linalg.norm(c))],
                       [np.full((3, 3), mass * np.linalg.norm(c)), np.full((3, 3), rot)]])
        inp = np.r_[mass, c, I3.flatten()]
        chk('inertia-parallel-axis', JA, ref, sc, inp)
        chk('inertia-symmetric', JA, JA.T, sc, inp)
        # inertias of joined bodies add (matrix sum of the two parallel-axis matrices)
        mass2, c2, I32 = log_uniform(rng, 1e-6, 1e6), rand_unit(rng) * log_uniform(rng, 1e-6, 1e6), spd3(rng)
        ref2 = inertia_np(mass2, c2, I32)
        inp2 = np.r_[inp, mass2, c2, I32.flatten()]
        try:
            Js = J + SpatialInertia(mass2, c2, I32)
            cls_is('inertia-add', Js, SpatialInertia, inp2)
            chk('inertia-add', Js.A, ref + ref2, np.abs(ref) + np.abs(ref2), inp2)
        except Exception as ex:  # noqa
            ctx.fail(f'oracle:inertia-add:raises-{type(ex).__name__}', f"SpatialInertia + SpatialInertia raises {type(ex).__name__}: {ex}",
                     {'inputs_hex': hexl(inp2)})
        acc = vec6(rng)
        fo = J * SpatialAcceleration(acc)
        cls_is('inertia-acc', fo, SpatialForce, np.r_[inp, acc])
        chk('inertia-acc', fo.A, ref @ acc, np.abs(ref) @ np.abs(acc), np.r_[inp, acc])
        mo = J * SpatialVelocity(acc)
        cls_is('inertia-vel', mo, SpatialMomentum, np.r_[inp, acc])
        chk('inertia-vel', mo.A, ref @ acc, np.abs(ref) @ np.abs(acc), np.r_[inp, acc])
        # pure translation at up to 1e6: the angular momentum is exactly m (c x v), the force moment m (c x a)
        lin = np.r_[rand_unit(rng) * log_uniform(rng, 1e-6, 1e6), 0.0, 0.0, 0.0]
        want = np.r_[mass * lin[:3], mass * np.cross(c, lin[:3])]
        wsc = np.r_[mass * np.abs(lin[:3]), np.full(3, mass * np.linalg.norm(c) * np.linalg.norm(lin[:3]))]
        chk('inertia-vel-translation', (J * SpatialVelocity(lin)).A, want, wsc, np.r_[inp, lin])
        chk('inertia-acc-translation', (J * SpatialAcceleration(lin)).A, want, wsc, np.r_[inp, lin])
        # SE3 premultiplication
        Tm = np.eye(4)
        Tm[:3, :3] = rand_rot(rng)
        Tm[:3, 3] = rand_trans(rng, 1e-6, 1e6)
        Xp = SE3(Tm, check=False)
        X = ad_np(Tm)
        tn = np.linalg.norm(Tm[:3, 3])
        chk('Ad', Xp.Ad(), X, np.block([[np.ones((3, 3)), np.full((3, 3), tn)], [np.ones((3, 3)), np.ones((3, 3))]]), Tm.flatten())
        for kk in (keys[i % 4], keys[(i + 2) % 4]):
            q = vec6(rng)
            r_ = Xp * CLS[kk](q)
            cls_is('se3-' + kk, r_, CLS[kk], np.r_[Tm.flatten(), q])
            M = X if kk in MOTION else X.T
            chk('se3-motion' if kk in MOTION else 'se3-force', r_.A, M @ q, np.abs(M) @ np.abs(q), np.r_[Tm.flatten(), q])
        last.update(v=v, f=f, m=m)

    for i in range(N):
        try:
            one(i)
        except Exception as ex:  # noqa -- a law's call raised: a finding with the site of the exception, the sweep goes on
            import traceback
            fr = [t for t in traceback.extract_tb(ex.__traceback__) if 'spatialmath' in t.filename]
            site = (fr[-1].name if fr else 'harness')
            ctx.fail(f'oracle:raises-{type(ex).__name__}:{site}', f"an oracle law raised {type(ex).__name__}: {ex} (in {site}, iteration {i})",
                     {'iteration': i, 'exception': f'{type(ex).__name__}: {ex}', 'site': site, 'traceback': traceback.format_exc()[-1200:]})
    # Twist3 * spatial vector (documented in __rmul__, not part of the property text): observed, not judged
    obs = observe(lambda: Twist3([1, 2, 3, 0.1, 0.2, 0.3]) * SpatialVelocity([1, 2, 3, 4, 5, 6]))
    ctx.stats['observed:Twist3*SpatialVelocity'] = kind_of(obs)
    obs = observe(lambda: SpatialVelocity([1, 2, 3, 4, 5, 6]) * SpatialInertia())
    ctx.stats['observed:SpatialVelocity*SpatialInertia'] = kind_of(obs)
    if last:
        ctx.sample({'kind': 'oracle', 'law': 'duality', 'v': last['v'].tolist(), 'f': last['f'].tolist(), 'm': last['m'].tolist()})


# ----------------------------------------------------------------------------------------------- container / dtype forms
# A spatial vector holding 1,2,3,4,5,6 is the same vector whether it was built from a float ndarray, a list of
# Python ints, an integer ndarray, a tuple or a mixed list: every operand position of every operation is run with
# integer-typed containers (values are integers) against a fractional float partner at small and large magnitudes,
# and compared with the float reference (catches results written into integer storage, dtype-dependent paths).
FORMS = [
    ('float-ndarray', lambda a: np.array(a, dtype=float)),
    ('float-list', lambda a: [float(x) for x in a]),
    ('int-list', lambda a: [int(x) for x in a]),
    ('int-tuple', lambda a: tuple(int(x) for x in a)),
    ('int64-ndarray', lambda a: np.array(a, dtype=np.int64)),
    ('int32-ndarray', lambda a: np.array(a, dtype=np.int32)),
    ('mixed-list', lambda a: [int(x) if i % 2 else float(x) for i, x in enumerate(a)]),
]


def int6(rng, n=6):
    while True:
        k = int(rng.integers(1, 5))
        a = rng.integers(-10 ** k, 10 ** k + 1, size=n)
        if np.any(a != 0):
            return a.astype(float)


def frac6(rng, n=6):
    """fractional floats; half of the time all entries are below 1 in magnitude (an integer cast gives 0)"""
    s = log_uniform(rng, 1e-6, 0.5) if rng.random() < 0.5 else log_uniform(rng, 1e-6, 1e6)
    return rng.uniform(-1, 1, size=n) * s + s * 1e-3


def forms(ctx):
    rng = ctx.rng
    keys = list(CLS)

    def chk(op, pos, form, thunk, ref, scale, inputs, want_cls=None):
        key = f'forms:{op}:{pos}:{form}'
        ctx.case((key, tuple(np.asarray(inputs, float).flatten()[:12])))
        ctx.count('forms:' + op)
        try:
            res = thunk()
            got = np.asarray(res.A if hasattr(res, 'A') else res, dtype=float)
        except Exception as ex:  # noqa
            ctx.fail(key + ':raises-' + type(ex).__name__, f"{op} with the {pos} operand given as {form} raises {type(ex).__name__}: {ex}",
                     {'op': op, 'operand': pos, 'form': form, 'inputs_hex': hexl(inputs), 'inputs': np.asarray(inputs, float).tolist()})
            return
        ref = np.asarray(ref, float)
        if want_cls is not None and type(res) is not want_cls:
            ctx.fail(key + ':wrong-class', f"{op} with the {pos} operand given as {form}: result class {type(res).__name__}",
                     {'op': op, 'operand': pos, 'form': form, 'inputs': np.asarray(inputs, float).tolist()})
        bad = got.shape != ref.shape or not np.all(np.abs(got - ref) <= 1e-9 * np.maximum(scale, 1e-300))
        if bad:
            ctx.fail(key, f"{op} with the {pos} operand given as {form} differs from the float reference: got {got.tolist()}, reference {ref.tolist()}",
                     {'op': op, 'operand': pos, 'form': form, 'inputs_hex': hexl(inputs), 'inputs': np.asarray(inputs, float).tolist(),
                      'got': got.tolist(), 'ref': ref.tolist()})

    T = SE3(0.3, -0.2, 0.5) * SE3.Rx(0.4) * SE3.Rz(-1.1)
    X = ad_np(np.asarray(T.A, float))
    for it in range(ctx.n(12, 400)):
        ai, bi = int6(rng), int6(rng)
        af, bf = frac6(rng), frac6(rng)
        mass, c, I3 = log_uniform(rng, 1e-3, 1e3), rng.normal(size=3), spd3(rng, 1e-3, 1e3)
        J = SpatialInertia(mass, c, I3)
        JA = inertia_np(mass, c, I3)
        for fname, F in FORMS:
            k = keys[it % 4]
            C = CLS[k]
            # + - neg: the formed operand on the left and on the right, the partner fractional; and both formed
            for pos, (l, r, lv, rv) in (('left', (F(ai), bf, ai, bf)), ('right', (af, F(bi), af, bi)), ('both', (F(ai), F(bi), ai, bi))):
                sc = np.abs(lv) + np.abs(rv)
                chk('add', pos, fname, lambda: C(l) + C(r), lv + rv, sc, np.r_[lv, rv], C)
                chk('sub', pos, fname, lambda: C(l) - C(r), lv - rv, sc, np.r_[lv, rv], C)
            chk('neg', 'operand', fname, lambda: -C(F(ai)), -ai, np.abs(ai), ai, C)
            # cross products, @ : both operand positions
            for pos, (l, r, lv, rv) in (('left', (F(ai), bf, ai, bf)), ('right', (af, F(bi), af, bi)), ('both', (F(ai), F(bi), ai, bi))):
                M = crm_np(lv)
                sc = np.abs(M) @ np.abs(rv)
                L = SpatialVelocity(l) if it % 2 else SpatialAcceleration(l)
                chk('crm', pos, fname, lambda: L.cross(SpatialVelocity(r)), M @ rv, sc, np.r_[lv, rv], SpatialAcceleration)
                chk('crm-operator', pos, fname, lambda: SpatialVelocity(l) @ SpatialVelocity(r), M @ rv, sc, np.r_[lv, rv], SpatialAcceleration)
                sct = np.abs(M.T) @ np.abs(rv)
                chk('crf', pos, fname, lambda: L.cross(SpatialForce(r)), -M.T @ rv, sct, np.r_[lv, rv], SpatialForce)
                chk('crf-momentum', pos, fname, lambda: L.cross(SpatialMomentum(r)), -M.T @ rv, sct, np.r_[lv, rv], SpatialForce)
            # SE3 * vector, inertia * vector
            Mx = X if k in MOTION else X.T
            chk('se3mul', 'right', fname, lambda: T * C(F(bi)), Mx @ bi, np.abs(Mx) @ np.abs(bi), bi, C)
            chk('imul-acc', 'right', fname, lambda: J * SpatialAcceleration(F(bi)), JA @ bi, np.abs(JA) @ np.abs(bi), bi, SpatialForce)
            chk('imul-vel', 'right', fname, lambda: J * SpatialVelocity(F(bi)), JA @ bi, np.abs(JA) @ np.abs(bi), bi, SpatialMomentum)
            chk('fdot', 'both', fname, lambda: SpatialForce(F(ai)).dot(F(bi)), float(ai @ bi), float(np.abs(ai) @ np.abs(bi)), np.r_[ai, bi])
            # 3-vector constructor form (padded with zeros) and multi-valued integer columns
            chk('crm', 'right-3vector', fname, lambda: SpatialVelocity(af).cross(SpatialVelocity(F(bi[:3]))), crm_np(af) @ np.r_[bi[:3], 0, 0, 0],
                np.abs(crm_np(af)) @ np.abs(np.r_[bi[:3], 0, 0, 0]), np.r_[af, bi[:3]], SpatialAcceleration)
        # inertia built from integer mass / offset / inertia, applied to a fractional vector; integer inertia times integer vector
        mi, ci, Ii = int(rng.integers(1, 50)), rng.integers(-5, 6, size=3), np.diag(rng.integers(1, 20, size=3))
        Jr = inertia_np(float(mi), ci.astype(float), Ii.astype(float))
        for fname, mk_ in (('python-int', lambda: SpatialInertia(mi, [int(x) for x in ci], Ii)),
                           ('int-ndarray', lambda: SpatialInertia(mi, ci, Ii)),
                           ('int-tuple-int32', lambda: SpatialInertia(np.int64(mi), tuple(int(x) for x in ci), Ii.astype(np.int32)))):
            chk('inertia-ctor', 'args', fname, lambda: mk_(), Jr, np.abs(Jr) + 1.0, np.r_[mi, ci, Ii.flatten()], SpatialInertia)
            chk('imul-acc', 'left-inertia', fname, lambda: mk_() * SpatialAcceleration(af), Jr @ af, np.abs(Jr) @ np.abs(af), np.r_[mi, ci, af], SpatialForce)
            chk('imul-vel', 'both', fname, lambda: mk_() * SpatialVelocity([int(x) for x in bi]), Jr @ bi, np.abs(Jr) @ np.abs(bi), np.r_[mi, ci, bi], SpatialMomentum)
        # multi-valued integer columns for + - neg
        n = int(rng.integers(2, 5))
        Ai, Bf = np.column_stack([int6(rng) for _ in range(n)]), np.column_stack([frac6(rng) for _ in range(n)])
        k = keys[it % 4]
        C = CLS[k]
        for fname, F in (('int64-ndarray', lambda a: np.array(a, dtype=np.int64)), ('int32-ndarray', lambda a: np.array(a, dtype=np.int32))):
            for op, f, npf in (('add', lambda a, b: a + b, np.add), ('sub', lambda a, b: a - b, np.subtract)):
                for pos, (l, r, lv, rv) in (('left-multi', (F(Ai), Bf, Ai, Bf)), ('right-multi', (Bf, F(Ai), Bf, Ai))):
                    ctx.count('forms:' + op)
                    ctx.case(('forms', op, pos, fname, tuple(lv.flatten()[:6])))
                    obs = observe(lambda: f(C(l), C(r)))
                    ok = obs[0] == 'Value' and obs[1] == k and obs[2] == n and close(columns(obs[3]), npf(lv, rv), 1e-12)[0]
                    if not ok:
                        ctx.fail(f'forms:{op}:{pos}:{fname}', f"{op} of multi-valued operands, one given as {fname} columns, differs from the float reference",
                                 {'op': op, 'operand': pos, 'form': fname, 'left': lv.tolist(), 'right': rv.tolist(), 'observed': str(obs[:3])})



# ----------------------------------------------------------------------------------------------- operation histories
# Every product / sum of an object must be a function of its CURRENT value list only.  Objects are driven through
# random histories over the list interface; before the first and after every mutation all applicable products are
# taken (so that anything remembered from an earlier call would be used again) on the object itself, on a copy and
# on an indexed element, and compared with the stateless NumPy reference on the current values.  The value list after
# each history is compared with the Coq model `run` evaluated on integer tags (vm_compute).
HIST_HDR = "From Coq Require Import List Arith.\nFrom SM Require Import Model.C20_Inertia.\nImport ListNotations.\n"


def operator_imul(a, b):
    a *= b
    return a


def histories(ctx):
    rng = ctx.rng
    keys = list(CLS)
    T = SE3(0.3, -0.2, 0.5) * SE3.Rx(0.4) * SE3.Rz(-1.1)
    X = ad_np(np.asarray(T.A, float))
    J = SpatialInertia(2.0, [0.1, -0.2, 0.3], np.diag([1.0, 2.0, 3.0]))
    JA = np.asarray(J.A, float)
    coq_terms, coq_expect = [], []

    for rnd in range(ctx.n(300, 5000)):
        k = keys[rnd % 4]
        C = CLS[k]
        pool = []                                            # tag -> 6-vector (the tag is the index)

        def fresh(n=1):
            """n new tagged values: a list of tags and the (6, n) array"""
            tags = []
            for _ in range(n):
                pool.append(rng.normal(size=6) * 10 ** rng.uniform(-1, 1))
                tags.append(len(pool) - 1)
            return tags, np.column_stack([pool[t] for t in tags])

        def obj_of(A):
            return C(A[:, 0].copy()) if A.shape[1] == 1 else C(A.copy())

        def tags_of(x):
            out = []
            for d in x.data:
                hit = [t for t, p in enumerate(pool) if np.array_equal(np.asarray(d, float).reshape(6), p)]
                out.append(hit[0] if len(hit) == 1 else -1)
            return out

        t0, A0 = fresh(1 if rng.random() < 0.5 else int(rng.integers(2, 4)))
        x = obj_of(A0)
        y0 = obj_of(fresh(A0.shape[1])[1])                   # an operand of the ORIGINAL length, kept for the whole history
        hist, muts = [], []                                  # printable history, Coq mut terms
        vm, ff, v0 = rng.normal(size=6), rng.normal(size=6), rng.normal(size=6)
        Vm, Ff, V0 = SpatialVelocity(vm), SpatialForce(ff), SpatialVelocity(v0)
        C0 = crm_np(v0)

        def check(name, thunk, ref, want_cls, last):
            key = f"hist:{name}:after-{last}"
            ctx.case((key, rnd, len(hist)))
            ctx.count('hist:' + name)
            obs = observe(thunk)
            ok = (obs[0] == 'Value' and obs[1] == want_cls and obs[2] == ref.shape[1] and close(columns(obs[3]), ref, 1e-12)[0])
            if not ok:
                got = columns(obs[3]).T.tolist() if obs[0] == 'Value' else obs
                ctx.fail(key, f"{name} after the history {hist} is not the product of the CURRENT values: got {got}, "
                         f"stateless reference {ref.T.tolist()}",
                         {'class': C.__name__, 'initial_values': A0.T.tolist(), 'history': hist, 'observation': name,
                          'got': got, 'reference_on_current_values': ref.T.tolist(),
                          'fixed_operands': {'m': vm.tolist(), 'f': ff.tolist(), 'v0': v0.tolist()}})

        def expect_raise(name, thunk, last):
            key = f"hist:{name}:after-{last}"
            ctx.case((key, rnd, len(hist)))
            ctx.count('hist:' + name)
            obs = observe(thunk)
            if obs[0] != 'Raise':
                ctx.fail(key, f"{name} after the history {hist} must be rejected (current lengths differ) but {kind_of(obs)}",
                         {'class': C.__name__, 'history': hist, 'observation': name})

        def products(last):
            cur = columns(x)
            n = cur.shape[1]
            motion = k in MOTION
            rcls = ('Acc' if motion else 'Frc')
            if motion and n == 1:                            # x as LEFT operand of the cross products
                M = crm_np(cur[:, 0])
                check('cross-left', lambda: x.cross(Vm), (M @ vm)[:, None], 'Acc', last)
                check('crf-left', lambda: x.cross(Ff), (-M.T @ ff)[:, None], 'Frc', last)
                if k == 'Vel':
                    check('matmul-left', lambda: x @ Vm, (M @ vm)[:, None], 'Acc', last)
                    check('matmul-left-force', lambda: x @ Ff, (-M.T @ ff)[:, None], 'Frc', last)
                check('copy-cross-left', lambda: C(x).cross(Vm), (M @ vm)[:, None], 'Acc', last)
            Mr = C0 if motion else -C0.T                     # x as RIGHT operand
            check('cross-right', lambda: V0.cross(x), Mr @ cur, rcls, last)
            check('matmul-right', lambda: V0 @ x, Mr @ cur, rcls, last)
            Mx = X if motion else X.T
            check('se3mul', lambda: T * x, Mx @ cur, k, last)
            check('copy-se3mul', lambda: T * C(x), Mx @ cur, k, last)
            if motion:
                check('imul', lambda: J * x, JA @ cur, 'Frc' if k == 'Acc' else 'Mom', last)
            check('neg', lambda: -x, -cur, k, last)
            if n >= 1:
                B = fresh(n)[1]
                y = obj_of(B)
                check('add', lambda: x + y, cur + B, k, last)
                check('sub', lambda: x - y, cur - B, k, last)
                check('radd', lambda: y + x, B + cur, k, last)
                def _ip(add):
                    z = C(x)
                    if add:
                        z += y
                    else:
                        z -= y
                    return z
                check('inplace-add', lambda: _ip(True), cur + B, k, last)
                check('inplace-sub', lambda: _ip(False), cur - B, k, last)
                check('rsub', lambda: y - x, B - cur, k, last)
                j = int(rng.integers(n))
                check('index-se3mul', lambda: T * x[j], Mx @ cur[:, j:j + 1], k, last)
                if motion:
                    check('index-cross-left', lambda: x[j].cross(Vm), (crm_np(cur[:, j]) @ vm)[:, None], 'Acc', last)
            if n != len(y0):
                expect_raise('add-old-length', lambda: x + y0, last)
                expect_raise('sub-old-length', lambda: y0 - x, last)

        products('construction')
        for step in range(int(rng.integers(2, 7))):
            n = len(x)
            choices = ['append', 'extend', 'insert', 'reverse', 'clear+append']
            if n >= 1:
                choices += ['setitem', 'setitem', 'pop', 'del', 'inplace-add', 'inplace-sub']
            kind = choices[int(rng.integers(len(choices)))]
            if kind == 'setitem':
                j = int(rng.integers(n)); (t,), A = fresh()
                x[j] = C(A[:, 0].copy()); muts.append(f"MSet {j} {t}"); hist.append(f"x[{j}] = {C.__name__}({A[:, 0].tolist()})")
            elif kind == 'append':
                (t,), A = fresh()
                x.append(C(A[:, 0].copy())); muts.append(f"MAppend {t}"); hist.append(f"x.append({C.__name__}({A[:, 0].tolist()}))")
            elif kind == 'extend':
                ts, A = fresh(int(rng.integers(1, 4)))
                x.extend(obj_of(A)); muts.append("MExtend [" + "; ".join(map(str, ts)) + "]"); hist.append(f"x.extend({C.__name__}({A.T.tolist()} as columns))")
            elif kind == 'insert':
                j = int(rng.integers(n + 1)); (t,), A = fresh()
                x.insert(j, C(A[:, 0].copy())); muts.append(f"MInsert {j} {t}"); hist.append(f"x.insert({j}, {C.__name__}({A[:, 0].tolist()}))")
            elif kind == 'pop':
                j = int(rng.integers(n)); was = columns(x)[:, j:j + 1]
                got = x.pop(j); muts.append(f"MPop {j}"); hist.append(f"x.pop({j})")
                check('pop-result', lambda: got, was, k, 'pop')
            elif kind == 'del':
                j = int(rng.integers(n))
                del x[j]; muts.append(f"MDel {j}"); hist.append(f"del x[{j}]")
            elif kind == 'reverse':
                x.reverse(); muts.append("MReverse"); hist.append("x.reverse()")
            elif kind in ('inplace-add', 'inplace-sub'):
                # x += y / x -= y rebinds x to the element-wise result: the list model is closed for the segment so far and
                # restarted on the tags of the new values
                cur = columns(x)
                B = fresh(n)[1]
                coq_terms.append(f"run [{'; '.join(map(str, t0))}]%nat [{'; '.join(muts)}]%nat")
                coq_expect.append((tags_of(x), list(hist), A0.T.tolist(), C.__name__))
                new = cur + B if kind == 'inplace-add' else cur - B
                if kind == 'inplace-add':
                    x += obj_of(B)
                else:
                    x -= obj_of(B)
                hist.append(f"x {'+=' if kind == 'inplace-add' else '-='} {C.__name__}({B.T.tolist()} as columns)")
                t0 = []
                for j in range(n):
                    pool.append(new[:, j].copy()); t0.append(len(pool) - 1)
                muts = []
                check('inplace-step-result', lambda: x, new, k, kind)
            else:
                (t,), A = fresh()
                x.clear(); x.append(C(A[:, 0].copy())); muts += ["MClear", f"MAppend {t}"]; hist.append(f"x.clear(); x.append({C.__name__}({A[:, 0].tolist()}))")
                kind = 'clear-append'
            products(kind)
        coq_terms.append(f"run [{'; '.join(map(str, t0))}]%nat [{'; '.join(muts)}]%nat")
        coq_expect.append((tags_of(x), list(hist), A0.T.tolist(), C.__name__))

    # the list part of the model against the implementation, on tags
    vals = ctx.coq_eval(HIST_HDR, coq_terms, name='hist', chunk=500)
    for v, (tags, hist, A0, cn) in zip(vals, coq_expect):
        ctx.case(('hist-model', tuple(hist)))
        ctx.count('hist:model-run')
        want = 'Some [' + '; '.join(map(str, tags)) + ']'
        if v.replace(' ', '') != want.replace(' ', ''):
            ctx.fail('hist:value-list:model-differs', f"after the history {hist} the object holds the values tagged {tags}, the model `run` gives {v}",
                     {'class': cn, 'initial_values': A0, 'history': hist, 'implementation_tags': tags, 'model': v})
    # `v *= 2` (x = x * 2; a spatial vector has no scalar product): observed, not judged
    obs = observe(lambda: operator_imul(SpatialVelocity([1, 2, 3, 4, 5, 6]), 2))
    ctx.stats['observed:SpatialVelocity*=2'] = kind_of(obs)


def run(ctx):
    ctx.rule = ("obligations: theorems of theories/Props/C20.v, C20_inertia.v, C20_se3.v, C20_multi.v, C20_hist.v (values, over the traces regenerated from /repo "
                "and the hand model of the inertia constructor) and theories/Props/C20_tab.v (class/length tables); evaluations: Sym==Num / "
                "T-num cases + every cell of the class/length tables run on the implementation + oracle evaluations of each law "
                "at magnitudes 1e-6..1e6; a case is distinct by its (law or cell, input) signature")
    ctx.trusted_extra = ["dispatch model Model/C20_Inertia.v (hand-written) is compared with the implementation on every cell of the finite table each run (exception kinds included; a kind-only difference is noted, accept/reject and result class are judged against the property)"]
    with ctx.timed('regenerate'):
        g = build(ctx)
        p = ctx.write_gen(MOD + '.v', g.coq_text())
    for name, why in g.failed:
        ctx.notes.append(f"trace {name} could not be produced: {why}")
    rc, out, err, dt = ctx.coqc(p)
    if rc != 0:
        ctx.fail('gen:compile', 'generated traces do not compile: ' + err[-800:], no_input=True)
        return
    for f in ('C20.v', 'C20_inertia.v', 'C20_se3.v', 'C20_multi.v', 'C20_hist.v', 'C20_tab.v'):       # independent groups
        ctx.prove('theories/Props/' + f)
    with ctx.timed('correspond'):
        sym_num(ctx, g, MOD, ctx.n(25, 400))
    import traceback
    for label, stage in (('tables', tables), ('histories', histories), ('forms', forms), ('oracle', oracle)):
        with ctx.timed(label):
            try:
                stage(ctx)
            except Exception:  # noqa -- one stage could not complete on this tree: reported, the other stages still run
                tb = traceback.format_exc()
                ctx.fail('harness:exception:' + label, f'the {label} stage could not complete on this tree: ' + tb[-1200:], {'traceback': tb}, no_input=True)
