"""C08 -- operators are type-safe: only documented operand pairs produce a result.

Kind-B property (no Reals): the model is a Gallina transcription of Python's binary-operator protocol and of the
operator methods (coq/theories/Model/C08_Ops.v), parametrised by the class hierarchy and method-resolution tables
that are REGENERATED here by reflection (coq/gen/Hierarchy_C08.v).  The theorems (coq/theories/Props/C08.v) are
finite-domain facts proved by vm_compute over the enumerated table.  The tie is exhaustive (T-tab): the real library is
run on EVERY cell (ordered operand pair x operator x {single, multi}) and every observed outcome is compared with the
model's; the same run is the search for a violating cell.
"""
import copy
import json
import operator
import re
import warnings
import numpy as np

warnings.filterwarnings('ignore')
from spatialmath import SO2, SE2, SO3, SE3, Quaternion, UnitQuaternion, Twist2, Twist3, Plucker  # noqa: E402
from spatialmath import SpatialVelocity, SpatialAcceleration, SpatialForce, SpatialMomentum, SpatialInertia  # noqa: E402
from spatialmath import DualQuaternion, UnitDualQuaternion  # noqa: E402

CL = [SO2, SE2, SO3, SE3, Quaternion, UnitQuaternion, Twist2, Twist3, Plucker, SpatialVelocity, SpatialAcceleration,
      SpatialForce, SpatialMomentum, SpatialInertia, DualQuaternion, UnitDualQuaternion]
NAMES = [c.__name__ for c in CL]
BASES = {'SMPose': 'SMPose', 'SMTwist': 'SMTwist', 'SpatialVector': 'SpatialVector', 'SpatialM6': 'SpatialM6',
         'SpatialF6': 'SpatialF6', 'SMUserList': 'SMUserList', 'UserList': 'UserList', 'object': 'PyObject'}
OPS = {'Mul': operator.mul, 'Div': operator.truediv, 'Add': operator.add, 'Sub': operator.sub, 'Pow': operator.pow,
       'MatMul': operator.matmul, 'Eq': operator.eq, 'Ne': operator.ne, 'Xor': operator.xor, 'Or': operator.or_}
SYM = {'Mul': '*', 'Div': '/', 'Add': '+', 'Sub': '-', 'Pow': '**', 'MatMul': '@', 'Eq': '==', 'Ne': '!=', 'Xor': '^', 'Or': '|'}
FWD = {'Mul': '__mul__', 'Div': '__truediv__', 'Add': '__add__', 'Sub': '__sub__', 'Pow': '__pow__', 'MatMul': '__matmul__',
       'Eq': '__eq__', 'Ne': '__ne__', 'Xor': '__xor__', 'Or': '__or__'}
REV = {'Mul': '__rmul__', 'Div': '__rtruediv__', 'Add': '__radd__', 'Sub': '__rsub__', 'Pow': '__rpow__', 'MatMul': '__rmatmul__',
       'Xor': '__rxor__', 'Or': '__ror__'}
IOPS = {'Mul': operator.imul, 'Div': operator.itruediv, 'Add': operator.iadd, 'Sub': operator.isub, 'Pow': operator.ipow, 'MatMul': operator.imatmul}
INP = {'Mul': '__imul__', 'Div': '__itruediv__', 'Add': '__iadd__', 'Sub': '__isub__', 'Pow': '__ipow__', 'MatMul': '__imatmul__'}
NONOBJ = ['KFloat', 'KInt', 'KArr [3; 3]', 'KArr [4; 4]', 'KArr [3]']
KINDS = ['Obj ' + n for n in NAMES] + NONOBJ
LENGTHS = [1, 3]
MOD = 'Hierarchy_C08'


# ------------------------------------------------------------------------------------------------ reflection -> Coq
def pyc_name(k):
    if k.__name__ in NAMES and k in CL:
        return 'C ' + k.__name__
    if k.__name__ in BASES:
        return 'B ' + BASES[k.__name__]
    return None


def reflect(ctx):
    """class hierarchy, method resolution tables and the class attributes read by the dispatch code, from the live classes"""
    meths = [('Fwd ' + o, FWD[o]) for o in OPS] + [('Rev ' + o, REV[o]) for o in REV] + [('Inp ' + o, INP[o]) for o in INP]
    mro_lines, seen, dropped = [], {}, {}
    for c in CL:
        ks = []
        for k in c.__mro__:
            nm = pyc_name(k)
            if nm is None:
                dropped[k.__name__] = k
            else:
                ks.append(nm)
                seen[nm] = k
        mro_lines.append(f"  | {c.__name__} => [{'; '.join(ks)}]")
    # a class that this model has no name for must not be the one that SUPPLIES a modelled method to a public class (fail closed);
    # e.g. MutableSequence.__iadd__ is fine as long as a modelled class earlier in the MRO defines __iadd__
    for c in CL:
        for _, py in meths:
            for k in c.__mro__:
                if py in k.__dict__:
                    if pyc_name(k) is None:
                        ctx.fail('gen:unknown-provider', f"{c.__name__}.{py} is supplied by {k.__name__}, which is not part of the model",
                                 {'class': c.__name__, 'method': py, 'provider': k.__name__}, no_input=True)
                    break
    def_lines = []
    for nm in ['C ' + x for x in NAMES] + ['B ' + x for x in BASES.values()]:
        ms = [coq for coq, py in meths if nm in seen and py in seen[nm].__dict__]
        def_lines.append(f"  | {nm} => [{'; '.join(ms)}]")
    inst = {c.__name__: make('Obj ' + c.__name__, 0, 1) for c in CL}

    def eshape(c):
        o = inst[c.__name__]
        e = o.real.data[0] if isinstance(o, DualQuaternion) else o.data[0]
        return '[' + '; '.join(str(int(x)) for x in e.shape) + ']'
    poses = [c for c in CL if any(k.__name__ == 'SMPose' for k in c.__mro__)]
    t = ["(* REGENERATED on every run by props/C08.py from the live classes of the checkout under test (cls.__mro__, cls.__dict__,",
         "   instance attributes).  Do not edit. *)",
         "From Coq Require Import List. Import ListNotations.",
         "From SM Require Import Model.C08_Ops.",
         "Definition H : hier := {|",
         "  mro := fun c => match c with", *mro_lines, "  end;",
         "  defines := fun k => match k with", *def_lines, "  end;",
         "  poseN := fun c => match c with " + ' '.join(f"| {c.__name__} => {int(inst[c.__name__].N)}" for c in poses) + " | _ => 0 end;",
         "  isSE := fun c => match c with " + ' '.join(f"| {c.__name__} => {str(bool(inst[c.__name__].isSE)).lower()}" for c in poses) + " | _ => false end;",
         "  isSO := fun c => match c with " + ' '.join(f"| {c.__name__} => {str(bool(inst[c.__name__].isSO)).lower()}" for c in poses) + " | _ => false end;",
         "  eshape := fun c => match c with " + ' '.join(f"| {c.__name__} => {eshape(c)}" for c in CL) + " end",
         "|}.", ""]
    return "\n".join(t)


# ------------------------------------------------------------------------------------------------ operands
def vals(name, side, n, rng=None):
    """n distinct, generic (non-identity, non-unit where that is optional) values of class `name`;
    side 0/1 gives different values for the left and the right operand; with rng the values are drawn at random"""
    r = []
    for i in range(n):
        a = 0.3 + 0.2 * i + 0.45 * side
        t = np.array([1.0 + i, 2.0 - side, 0.5 * i + 3 + side])
        if rng is not None:
            a = float(rng.uniform(0.15, 1.4))
            t = rng.uniform(0.5, 3.5, size=3) * rng.choice([-1.0, 1.0], size=3)
        if name == 'SO2': r.append(SO2(a))
        elif name == 'SE2': r.append(SE2(t[0], t[1], a))
        elif name == 'SO3': r.append(SO3.Rx(a) * SO3.Ry(a / 2))
        elif name == 'SE3': r.append(SE3(t) * SE3.Rx(a) * SE3.Ry(a / 2))
        elif name == 'Quaternion': r.append(Quaternion(np.r_[a, t]))
        elif name == 'UnitQuaternion': r.append(UnitQuaternion.Rx(a) * UnitQuaternion.Ry(a / 2))
        elif name == 'Twist2': r.append(Twist2(np.r_[t[:2], a]))
        elif name == 'Twist3': r.append(Twist3(np.r_[t, a, a / 2, 0.1]))
        elif name == 'Plucker': r.append(Plucker(np.r_[np.cross(t, [a, 1, 0.2]), [a, 1, 0.2]]))
        elif name in ('SpatialVelocity', 'SpatialAcceleration', 'SpatialForce', 'SpatialMomentum'):
            r.append(globals()[name](np.r_[t, a, a / 2, 0.1]))
        elif name == 'SpatialInertia': r.append(SpatialInertia(m=1 + a, r=t / 10, I=np.diag(t)))
        elif name == 'DualQuaternion': r.append((Quaternion(np.r_[a, t]), Quaternion(np.r_[t, a])))
        elif name == 'UnitDualQuaternion': r.append(SE3(t) * SE3.Rx(a))
    return r


def make(kind, side, n, rng=None):
    if kind == 'KFloat': return 2.5 + side if rng is None else float(rng.uniform(1.5, 4.5))
    if kind == 'KInt': return 2 + side if rng is None else int(rng.integers(2, 5))
    if kind.startswith('KSeq'):        # 'KSeq false 3' = list of 3 numbers, 'KSeq true 2' = tuple of 2 numbers
        _, tup, m = kind.split()
        v = [1.0 + i + side for i in range(int(m))] if rng is None else [float(x) for x in rng.uniform(0.5, 3.5, size=int(m))]
        if rng is not None and rng.integers(0, 2) == 0:
            v = [int(round(x)) + 1 for x in v]          # lists of ints are array-like vectors too
        return tuple(v) if tup == 'true' else v
    if kind.startswith('KArr'):
        shp = tuple(int(x) for x in re.findall(r'\d+', kind))
        a = np.arange(float(np.prod(shp))).reshape(shp) + 1 + side
        return a if rng is None else a + rng.uniform(0.1, 0.9, size=shp)
    name = kind[4:]
    v = vals(name, side, n, rng)
    if name == 'DualQuaternion':
        return DualQuaternion(Quaternion([x[0].A for x in v]), Quaternion([x[1].A for x in v]))
    if name == 'UnitDualQuaternion':
        u = [UnitDualQuaternion(T) for T in v]
        if n == 1: return u[0]
        return UnitDualQuaternion(UnitQuaternion([x.real.A for x in u]), Quaternion([x.dual.A for x in u]))
    if n == 1: return v[0]
    if name == 'SpatialInertia':          # has no list constructor
        o = v[0]
        for x in v[1:]:
            o.append(x)
        return o
    return globals()[name]([x.A for x in v])


ESHAPE = {'SO2': (2, 2), 'SE2': (3, 3), 'SO3': (3, 3), 'SE3': (4, 4), 'Quaternion': (4,), 'UnitQuaternion': (4,), 'Twist2': (3,), 'Twist3': (6,),
          'Plucker': (6,), 'SpatialVelocity': (6,), 'SpatialAcceleration': (6,), 'SpatialForce': (6,), 'SpatialMomentum': (6,),
          'SpatialInertia': (6, 6), 'DualQuaternion': (4,), 'UnitDualQuaternion': (4,)}


def elems(o):
    if isinstance(o, DualQuaternion):
        return (list(o.real.data) if o.real is not None else [None]) + (list(o.dual.data) if o.dual is not None else [None])
    return list(o.data)


def from_operand(e, operand):
    """is element e one of the operand's own elements (same object or a view of its memory)?"""
    if not isinstance(e, np.ndarray):
        return False
    if isinstance(operand, np.ndarray):
        return np.shares_memory(e, operand)
    if type(operand) in CL:
        return any(e is f or (isinstance(f, np.ndarray) and np.shares_memory(e, f)) for f in elems(operand))
    return False


def classify(res, l, r):
    """abstract an observed result to the model's outcome type"""
    if res is None: return 'ReturnsNone'
    t = type(res)
    if t in CL:
        name = t.__name__
        es = elems(res)
        valid = [isinstance(e, np.ndarray) and e.shape == ESHAPE[name] and e.dtype != object for e in es]
        foreign = not all(valid)
        for other in (l, r):
            if type(other) is not t and any(from_operand(e, other) for e in es):
                foreign = True
        if foreign: return f'Value (RObj {name}) ForeignElements'
        if es and all(any(from_operand(e, o) for o in (l, r) if type(o) is t) for e in es):
            return f'Value (RObj {name}) ListOp'
        try:
            de = elems(t())
            if len(de) == len(es) and all(np.array_equal(a, b) for a, b in zip(es, de)):
                return f'Value (RObj {name}) DefaultIdentity'
        except Exception:
            pass
        return f'Value (RObj {name}) Computed'
    if isinstance(res, (bool, np.bool_)): return 'Value RBool Computed'
    if isinstance(res, (float, int, np.floating, np.integer)): return 'Value RScalar Computed'
    if isinstance(res, np.ndarray):
        if res.dtype == object: return 'Value RObjArray Computed'
        if res.dtype == bool: return 'Value RBoolArray Computed'
        return 'Value RArray Computed'
    if isinstance(res, list) and len(res):
        if all(isinstance(x, (bool, np.bool_)) for x in res): return 'Value RBoolList Computed'
        if all(isinstance(x, np.ndarray) and x.dtype != object for x in res): return 'Value RArrayList Computed'
    return 'Other:' + t.__name__


def observe(n, op, lk, rk, rng=None, inplace=False):
    """run the real implementation on one cell; returns (abstract outcome, detail).
    inplace: evaluate  x op= y  (operator.i<op>); the outcome is the value x is rebound to, and the receiver must not have been
    changed behind the back of that value"""
    l, r = make(lk, 0, n, rng), make(rk, 1, n, rng)
    before = list(elems(l)) if type(l) in CL else None
    try:
        with np.errstate(all='ignore'):
            res = (IOPS if inplace else OPS)[op](l, r)
    except Exception as e:     # noqa: BLE001  the exception IS the observation
        out, detail = 'Raise', f"{type(e).__name__}: {str(e)[:100]}"
    else:
        out, detail = classify(res, l, r), type(res).__name__
        if inplace and res is l and type(l) in CL and out.endswith('Computed') and len(elems(l)) != len(before):
            out = f'Value (RObj {type(l).__name__}) ListOp'           # the receiver itself came back, holding more / fewer values
    if inplace and before is not None:
        after = list(elems(l))
        if (len(after) != len(before) or any(a is not b for a, b in zip(after, before))) and not out.startswith('Value (RObj'):
            out, detail = 'Other:receiver-mutated', f"{detail}; the left operand now holds {len(after)} values (had {len(before)})"
    return out, detail


def expr(n, op, lk, rk):
    def nm(k):
        if k.startswith('Obj '): return k[4:]
        if k in ('KFloat', 'KInt'): return {'KFloat': 'float', 'KInt': 'int'}[k]
        if k.startswith('KSeq'): return ('tuple' if 'true' in k else 'list') + '(%s numbers)' % k.split()[-1]
        return 'ndarray(' + ','.join(re.findall(r'\d+', k)) + (',)' if k.count(';') == 0 else ')')
    sym = SYM[op[:-1]] + '=' if op.endswith('=') else SYM[op]          # 'Mul=' is the in-place form  x *= y
    return f"{nm(lk)} {sym} {nm(rk)} [{'single' if n == 1 else 'multi-valued(%d)' % n}]"


# ------------------------------------------------------------------------------------------------ model table from Coq
def split_top(s):
    out, depth, cur = [], 0, ''
    for ch in s:
        if ch in '([': depth += 1
        if ch in ')]': depth -= 1
        if ch == ',' and depth == 0:
            out.append(cur.strip()); cur = ''
        else:
            cur += ch
    out.append(cur.strip())
    return out


def unparen(s):
    s = s.strip()
    while s.startswith('(') and s.endswith(')'):
        d, ok = 0, True
        for i, ch in enumerate(s):
            if ch == '(': d += 1
            if ch == ')':
                d -= 1
                if d == 0 and i < len(s) - 1:
                    ok = False
                    break
        if not ok:
            break
        s = s[1:-1].strip()
    return s


def model_table(ctx, term='report H'):
    hdr = "From Coq Require Import List. Import ListNotations.\nFrom SM Require Import Model.C08_Ops.\nFrom SMgen Require Import Hierarchy_C08.\n"
    txt = ctx.coq_eval(hdr, [term], name='table')[0]
    body = txt.strip()
    assert body.startswith('[') and body.endswith(']')
    rows = {}
    # elements are separated by ';' at depth 0 (shapes use ';' inside brackets)
    items, depth, cur = [], 0, ''
    for ch in body[1:-1]:
        if ch in '([': depth += 1
        if ch in ')]': depth -= 1
        if ch == ';' and depth == 0:
            items.append(cur); cur = ''
        else:
            cur += ch
    if cur.strip():
        items.append(cur)
    for it in items:
        f = split_top(unparen(it))
        if len(f) != 6:
            raise RuntimeError('cannot parse model row: ' + it[:200])
        n, op, lk, rk, out, spec = [unparen(x) for x in f]
        rows[(int(n), op, lk, rk)] = (out, spec, None)      # third field: known root cause of a violating cell -- none is left
    return rows


def conforms(spec, out):
    if spec.startswith('Must '):
        return out == f'Value {spec[5:]} Computed'
    if spec.startswith('May '):
        return out == 'Raise' or out == f'Value {spec[4:]} Computed'
    if spec == 'MustRaise':
        return out == 'Raise'
    return True    # Free


CAUSE_WHAT = {}     # root causes of violating cells of the model: all repaired (docs/C08.md), every table theorem is unguarded


def short(out):
    return out.replace('Value ', '').replace('(', '').replace(')', '').replace(' ', '-')


def check_cell(ctx, key, tab, rng=None, tag='table', inplace=False):
    """observe one cell, compare with the model and with the documented table"""
    n, op, lk, rk = key
    mout, spec, cause = tab[key]
    obs, detail = observe(n, op, lk, rk, rng, inplace)
    kop = op                     # operator name used in finding keys: 'Mul' for x * y, 'IMul' for x *= y
    if inplace:
        kop, op = 'I' + op, op + '='   # 'Mul=' in messages / replay cells
    ctx.case(key, nontrivial=(obs != 'Raise'))
    ctx.count(tag + ':observed:' + ('Value:' + obs.split(' ')[-1] if obs.startswith('Value') else obs))
    if spec.startswith('May') and obs == 'Raise':
        ctx.count(tag + ':documented-by-docstring-but-raises')
    ok = conforms(spec, obs)
    replay = {'cell': {'n': n, 'op': op, 'left': lk, 'right': rk}, 'expression': expr(n, op, lk, rk), 'observed': obs, 'detail': detail,
              'model': mout, 'documented': spec, 'random_values': rng is not None, 'table': tag}
    ctx.corr['cases'] += 1
    site = (lk if lk.startswith('Obj') else rk)[4:]       # the library class whose operator method decides
    if obs == mout:
        if not ok:
            if cause is not None:
                ctx.fail('cause:' + cause, CAUSE_WHAT[cause] + f" -- e.g. {expr(n, op, lk, rk)} -> {obs}", replay)
                ctx.count(tag + ':cells:' + cause)
            else:
                # model and implementation agree on a violating cell that no known root cause covers (also breaks C08_table)
                ctx.fail(f'cell:{kop}:{short(obs)}:{site}', f"{expr(n, op, lk, rk)} -> {obs}, documented: {spec}", replay)
        return
    # implementation != model of the unchanged code
    ctx.corr['disagreements'] += 1
    if not ok:
        ctx.fail(f'cell:{kop}:{short(obs)}:{site}',
                 f"{expr(n, op, lk, rk)} -> {obs} ({detail}); documented: {spec}; the model of the unchanged code gives {mout}", replay)
    elif cause is not None:
        ctx.notes.append(f"known defect {cause} does not reproduce at {expr(n, op, lk, rk)}: observed {obs} (conforms)")
        ctx.count('repaired:' + cause)
    elif spec == 'Free':
        ctx.notes.append(f"unconstrained cell changed at {expr(n, op, lk, rk)}: model {mout}, observed {obs}")
        ctx.count('drift:free-cell')
    elif obs != 'Raise':
        # a documented pair that raised in the unchanged code now returns exactly its documented value
        ctx.notes.append(f"documented pair now returns its documented value at {expr(n, op, lk, rk)}: {obs} (model: {mout})")
        ctx.count('drift:documented-now-returns')
    elif spec == 'MustRaise':
        ctx.notes.append(f"undocumented cell raises, as required, but not as the model of the unchanged code says ({mout}) at {expr(n, op, lk, rk)}")
        ctx.count('drift:undocumented-cell-raises')
    else:
        # a documented pair that returned its documented value now raises
        ctx.fail(f'cell:{kop}:documented-pair-now-raises:{site}',
                 f"{expr(n, op, lk, rk)} raises ({detail}) although the documentation defines it ({spec}) and the unchanged code returned {mout}", replay)


def prepare(ctx):
    with ctx.timed('regenerate'):
        text = reflect(ctx)
        p = ctx.write_gen(MOD + '.v', text)
    rc, out, err, dt = ctx.coqc(p)
    if rc != 0:
        ctx.fail('gen:compile', 'regenerated hierarchy does not compile (a class or method provider the model does not know?): ' + err[-800:], no_input=True)
        return None
    return True


def run(ctx):
    ctx.rule = ("obligations: theorems of theories/Props/C08.v (vm_compute over the enumerated table, for the hierarchy regenerated from /repo); "
                "evaluations: every cell (ordered operand-kind pair with at least one library object x 10 operators x {single, 3-valued}) executed on the "
                "implementation and compared with the model's outcome and with the documented table; non-trivial = a cell that does not raise")
    ctx.trusted_extra = ["reflection of cls.__mro__ / cls.__dict__ into coq/gen/Hierarchy_C08.v (props/C08.py: reflect)",
                         "hand transcription of CPython's binary_op1 / SLOT1BINFULL / do_richcompare and of NumPy's coercion of a non-array operand, "
                         "and of the operator method bodies (Model/C08_Ops.v) -- checked against the implementation on every cell, every run",
                         "the outcome abstraction (props/C08.py: classify): raised / None / class + provenance of the returned object",
                         "the transcription of the documented table (Model/C08_Ops.v: documented) from the property text and the docstrings"]
    if not prepare(ctx):
        return
    for f in ('C08.v', 'C08_clauses.v', 'C08_mechanism.v', 'C08_sequences.v', 'C08_inplace.v'):
        ctx.prove('theories/Props/' + f)
    with ctx.timed('model-table'):
        tab = model_table(ctx)
    keys = [(n, op, lk, rk) for n in LENGTHS for lk in KINDS for rk in KINDS if lk.startswith('Obj') or rk.startswith('Obj') for op in OPS]
    if set(keys) != set(tab):
        ctx.fail('corr:domain', f"the model enumerates {len(tab)} cells, the harness {len(keys)}", no_input=True)
        return
    ctx.stats['cells'] = len(keys)
    # T-tab, exhaustive: the property's table, once with fixed operand values and once with values drawn from the seed
    with ctx.timed('observe+compare'):
        for key in keys:
            check_cell(ctx, key, tab)
        for key in keys:
            check_cell(ctx, key, tab, ctx.rng, 'table-random-values')
    # the larger table (lengths 1..4, nine more array shapes): validation of the model beyond the stated domain and a wider search
    with ctx.timed('model-table-extended'):
        ext = model_table(ctx, 'report_for H ext_cells')
    ctx.stats['cells-extended'] = len(ext)
    with ctx.timed('observe+compare-extended'):
        for _ in range(ctx.n(1, 4)):
            for key in ext:
                check_cell(ctx, key, ext, ctx.rng, 'extended')
    # array-LIKE vector operands: a list / tuple of 2, 3, 4 numbers on either side of every class, every operator, both lengths
    with ctx.timed('model-table-sequences'):
        seq = model_table(ctx, 'report_for H seq_cells')
    ctx.stats['cells-sequences'] = len(seq)
    with ctx.timed('observe+compare-sequences'):
        for key in seq:
            check_cell(ctx, key, seq, None, 'sequences')
        for _ in range(ctx.n(1, 4)):
            for key in seq:
                check_cell(ctx, key, seq, ctx.rng, 'sequences-random-values')
    # in-place operators  x op= y  over all operand kinds (objects, float, int, arrays, lists, tuples): the value x is rebound to must be
    # the binary operator's cell, and the receiver must not be changed otherwise
    with ctx.timed('model-table-inplace'):
        inp = model_table(ctx, 'ireport H')
    ctx.stats['cells-inplace'] = len(inp)
    with ctx.timed('observe+compare-inplace'):
        for key in inp:
            check_cell(ctx, key, inp, None, 'inplace', inplace=True)
        for _ in range(ctx.n(1, 4)):
            for key in inp:
                check_cell(ctx, key, inp, ctx.rng, 'inplace-random-values', inplace=True)
    ctx.corr['functions'] = 1
    nz = [k for k in keys if tab[k][0] != 'Raise']
    for k in nz[:: max(1, len(nz) // 10)]:
        ctx.sample({'cell': expr(*k), 'model': tab[k][0], 'documented': tab[k][1], 'cause': tab[k][2]})


def replay(ctx, path):
    rec = json.load(open(path))
    c = (rec.get('replay') or {}).get('cell')
    if not c:
        from lib.main import generic_replay
        import props.C08 as me
        return generic_replay(ctx, me, path)
    obs, detail = observe(c['n'], c['op'].rstrip('='), c['left'], c['right'], ctx.rng if rec['replay'].get('random_values') else None,
                          inplace=c['op'].endswith('='))
    spec = rec['replay']['documented']
    print(f"{rec['replay']['expression']}: observed {obs} ({detail}); documented {spec}")
    if obs == rec['replay']['observed']:
        print(f"REPRODUCED {rec['key']}")
        return 1
    print(f"not reproduced: {rec['key']}")
    return 0
