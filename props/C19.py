"""C19 -- Pluecker lines: incidence, projection and rigid transformation are consistent.

Model: T-sym traces of spatialmath/geom3d.py (the library itself executed on SymPy symbols; the
functions with sqrt / branches concolically, each with its path condition emitted as `pc_*`).
Theorems: coq/theories/Props/C19_a.v (constructors, incidence, principal point, closest),
C19_b.v (rigid motion), C19_c.v (pairs of lines, planes; the `_refuted`/`_partial` pairs).
Oracle: elementary vector geometry on the defining data, 1e-9 relative.
"""
import math
import numpy as np
import sympy
from lib import concolic
from lib.symtrace import Gen
from lib.corr import sym_num
from lib.gens import log_uniform, rand_unit, rand_rot, rand_trans

concolic.install()
from spatialmath import base, SE3  # noqa: E402
from spatialmath.geom3d import Plucker, Plane  # noqa: E402

MOD = 'Traces_C19'
EPS = float(np.finfo(np.float64).eps)


# ---------------------------------------------------------------------------------------------
# tracing helpers (concolic: the comparisons the code makes are decided under a shadow valuation
# and recorded; each distinct comparison becomes a definition pc_<fn>_<k> with  test <=> 0 < pc)
# ---------------------------------------------------------------------------------------------
def _setval(**kw):
    concolic.VAL.clear()
    for name, arr in kw.items():
        arr = np.asarray(arr, float)
        if arr.ndim == 0:
            concolic.VAL[sympy.Symbol(name, real=True)] = float(arr)
        elif arr.ndim == 1:
            for i, x in enumerate(arr):
                concolic.VAL[sympy.Symbol(f"{name}{i}", real=True)] = float(x)
        else:
            for i in range(arr.shape[0]):
                for j in range(arr.shape[1]):
                    concolic.VAL[sympy.Symbol(f"{name}{i}{j}", real=True)] = float(arr[i, j])


# a valuation in general position (two skew lines, a point off both, a plane cutting both)
GENERAL = dict(L=[1, 2, 3, 4, 5, 6], M=[3, 1, 2, -1, 2, 7], x=[1, -2, 3], k=0.5, a=[1, 2, 3, 4], b=[2, -1, 1, 3],
               P=[1, 2, 3], Q=[4, -1, 2], p=[1, 2, 3], d=[2, 1, -1], n=[1, 1, 2])


# two parallel lines (directions (1,2,2) and (2,4,4)); two lines meeting at (0,0,1) along x and y (every operation exact)
PARALLEL = dict(L=[-2, -2, 3, 1, 2, 2], M=[0, -4, 4, 2, 4, 4])
MEETING = dict(L=[0, -1, 0, 1, 0, 0], M=[1, 0, 0, 0, 1, 0])


class PathMismatch(Exception):
    pass


def ctrace(ctx, g, name, inputs, fn, expect, pcname=None, sampler=None, tol=1e-11, out=None, num_fn=None, val=None):
    """trace fn concolically under GENERAL; `expect` is the truth pattern (per DISTINCT comparison, in order of first
    occurrence: 'T'/'F' a strict test taken / not taken, 't'/'f' a non-strict one) the fixed theorems were written for.  Emits pc_<pcname>_<k> = gts - lts."""
    _setval(**dict(GENERAL, **(val or {})))
    holder = {}

    def wrapped(*a):
        concolic.PATH.clear()
        r = fn(*a)
        holder['path'] = list(concolic.PATH)
        return r
    t = g.trace(name, inputs, wrapped, num_fn=num_fn or fn, sampler=sampler, tol=tol, out=out)
    if pcname is None:
        return t
    distinct = []
    for rel, truth in holder.get('path', []):
        if not any(rel == r0 for r0, _ in distinct):
            distinct.append((rel, truth))
    def letter(rel, tr):
        strict = isinstance(rel, (sympy.StrictGreaterThan, sympy.StrictLessThan))
        if not strict and not isinstance(rel, (sympy.GreaterThan, sympy.LessThan)):
            ctx.fail(f'path:{pcname}:relation', f"comparison {rel} in {pcname} is not an order comparison", no_input=True)
        c = 'T' if tr else 'F'
        return c if strict else c.lower()
    got = ''.join(letter(rel, tr) for rel, tr in distinct)
    if got != expect:
        ctx.fail(f'path:{pcname}', f"the comparisons made by {pcname} on an input in general position are {got} "
                 f"({[str(r) for r, _ in distinct]}), the theorems were written for {expect} (upper case: strict test, taken <-> 0 < pc; "
                 f"lower case: non-strict test, taken <-> 0 <= pc)", no_input=True)
    for k, (rel, truth) in enumerate(distinct):
        e = rel.gts - rel.lts
        strict = isinstance(rel, (sympy.StrictGreaterThan, sympy.StrictLessThan))
        syms = [s for an, sh in inputs for s in _syms(an, sh)]
        f = sympy.lambdify(syms, e, modules='math')

        def num(*a, f=f):
            flat = [float(x) for v in a for x in np.asarray(v, float).flatten()]
            return f(*flat)
        g.trace(f'pc_{pcname}_{k}', inputs, (lambda e: lambda *a: e)(e), num_fn=num, sampler=sampler, tol=1e-9, out='S',
                note=f"path atom of {pcname}: the code tests  {rel}  (taken: {truth});  test <-> 0 {'<' if strict else '<='} pc_{pcname}_{k}")
    return t


def _syms(an, sh):
    from lib.symtrace import sym_input
    return sym_input(an, sh)[1]


def PL(x):
    return Plucker(x)


def _rel_sides(r, what, ctx, side='lhs', rel_scale=None):
    """a predicate called on symbols returns the comparison itself: residual < tolerance [* scale].
    Returns the requested side; checks (fail-soft) that the default tolerance is in (0, 1e-9]: the numeric right-hand side,
    or, for a scale-relative test, the right-hand side under the shadow valuation divided by rel_scale()."""
    if not isinstance(r, sympy.StrictLessThan):
        ctx.fail(f'shape:{what}', f"{what} on symbols no longer returns `residual < tol` but {r}", no_input=True)
        raise PathMismatch(what)
    try:
        rhs = sympy.sympify(r.rhs)
        if rhs.free_symbols:
            if rel_scale is None:
                raise ValueError(f"tolerance is not a constant: {rhs}")
            tolv = float(rhs.subs(concolic.VAL)) / float(rel_scale())
        else:
            tolv = float(rhs)
        if not (0 < tolv <= 1e-9):
            ctx.fail(f'const:{what}:tol', f"default tolerance of {what} is {tolv!r}: not in (0, 1e-9]", {'tol': tolv})
    except Exception as ex:  # noqa
        ctx.fail(f'const:{what}:tol', f"cannot read the default tolerance of {what}: {type(ex).__name__}: {ex}", no_input=True)
    return r.lhs if side == 'lhs' else r.rhs


# samplers for the correspondence run (inputs on which the numeric code follows the traced path)
def s_line(rng):
    """a random valid line as a 6-vector, direction length in [1e-2, 1e2]"""
    p = rng.normal(size=3) * log_uniform(rng, 1e-1, 1e1)
    w = rand_unit(rng) * log_uniform(rng, 1e-2, 1e2)
    return np.r_[np.cross(w, p), w]


def s_parallel(rng):
    p, q = rng.integers(-5, 6, size=3).astype(float), rng.integers(-5, 6, size=3).astype(float)
    w = rng.integers(-4, 5, size=3).astype(float)
    if not np.any(w):
        w = np.array([1.0, 2.0, 2.0])
    k = float(2.0 ** rng.integers(-2, 3)) * rng.choice([-1.0, 1.0])
    return [np.r_[np.cross(w, p), w], np.r_[np.cross(k * w, q), k * w]]


def s_meeting(rng):
    c = rng.integers(-5, 6, size=3).astype(float)
    ax = rng.permutation(3)
    k = float(2.0 ** rng.integers(-2, 3))
    wa, wb = np.eye(3)[ax[0]] * k * rng.choice([-1.0, 1.0]), np.eye(3)[ax[1]] * 2 * k * rng.choice([-1.0, 1.0])
    return [np.r_[np.cross(wa, c), wa], np.r_[np.cross(wb, c), wb]]


class numeric_branches:
    """While tracing, take the NUMERIC branch of code that special-cases symbolic values (since /repo 2d89a18 `unitvec` skips its
    zero-length test when the length is a SymPy expression): the module flag `_symbolics` of spatialmath.base.vectors is switched
    off in the harness process, so the real test `n >= 10*_eps` runs on the symbol, is decided concolically and recorded as a
    path atom -- the model then mirrors what the library does on floats, which is what the property is about."""
    def __enter__(self):
        import spatialmath.base.vectors as V
        self.V, self.old = V, getattr(V, '_symbolics', None)
        if self.old is not None:
            V._symbolics = False
        return self

    def __exit__(self, *a):
        if self.old is not None:
            self.V._symbolics = self.old


def build(ctx):
    with numeric_branches():
        return _build(ctx)


def _build(ctx):
    g = Gen('C19')
    V3, V4, V6, S = 'V3', 'V4', 'V6', 'S'
    # ---- constructors (polynomial, no branches)
    g.trace('tr_PQ', [('P', V3), ('Q', V3)], lambda P, Q: Plucker.PQ(P, Q).vec)
    g.trace('tr_PointDir', [('p', V3), ('d', V3)], lambda p, d: Plucker.PointDir(p, d).vec)
    g.trace('tr_Planes', [('a', V4), ('b', V4)], lambda a, b: Plucker.Planes(Plane(a), Plane(b)).vec)
    g.trace('tr_Planes_raw', [('a', V4), ('b', V4)], lambda a, b: Plucker.Planes(a, b).vec)
    g.trace('tr_PlanePN', [('p', V3), ('n', V3)], lambda p, n: Plane.PN(p, n).plane)
    g.trace('tr_Plane_contains_res', [('a', V4), ('x', V3)],
            lambda a, x: _rel_sides(Plane(a).contains(x), 'Plane.contains', ctx),
            num_fn=lambda a, x: abs(np.dot(Plane(a).n, x) + Plane(a).d))
    # ---- accessors
    g.trace('tr_pp', [('L', V6)], lambda L: PL(L).pp)
    g.trace('tr_ppd', [('L', V6)], lambda L: PL(L).ppd)
    ctrace(ctx, g, 'tr_point', [('L', V6), ('k', S)], lambda L, k: PL(L).point(k).flatten(), 't', 'point')
    ctrace(ctx, g, 'tr_closest_p', [('L', V6), ('x', V3)], lambda L, x: PL(L).closest(x).p, 't', 'closest', tol=1e-10)
    ctrace(ctx, g, 'tr_closest_d', [('L', V6), ('x', V3)], lambda L, x: PL(L).closest(x).d, 'T', tol=1e-10)
    ctrace(ctx, g, 'tr_closest_lam', [('L', V6), ('x', V3)], lambda L, x: PL(L).closest(x).lam, 'T', tol=1e-10)
    g.trace('tr_contains_res', [('L', V6), ('x', V3)],
            lambda L, x: _rel_sides(PL(L).contains(x), 'Plucker.contains', ctx),
            num_fn=lambda L, x: np.linalg.norm(np.cross(x - PL(L).pp, PL(L).w)), tol=1e-10)
    # ---- pairs of lines
    ctrace(ctx, g, 'tr_eq_res', [('L', V6), ('M', V6)], lambda L, M: _rel_sides(PL(L) == PL(M), 'Plucker.__eq__', ctx),
           'tt', 'eq', num_fn=lambda L, M: abs(1 - np.dot(base.unitvec(L), base.unitvec(M))))
    # isparallel: |w1 x w2| < tol |w1| |w2|  (relative since /repo b223bb8): both sides are traced
    _setval(**GENERAL)
    wscale = lambda: nrm(GENERAL['L'][3:]) * nrm(GENERAL['M'][3:])
    g.trace('tr_isparallel_res', [('L', V6), ('M', V6)],
            lambda L, M: _rel_sides(PL(L).isparallel(PL(M)), 'Plucker.isparallel', ctx, rel_scale=wscale),
            num_fn=lambda L, M: np.linalg.norm(np.cross(L[3:], M[3:])))
    g.trace('tr_isparallel_thr', [('L', V6), ('M', V6)],
            lambda L, M: _rel_sides(PL(L).isparallel(PL(M)), 'Plucker.isparallel', ctx, side='rhs', rel_scale=wscale),
            num_fn=lambda L, M: 10 * EPS * np.linalg.norm(L[3:]) * np.linalg.norm(M[3:]), optional=True)
    g.trace('tr_recip', [('L', V6), ('M', V6)], lambda L, M: PL(L) * PL(M), sampler=lambda rng: [s_line(rng), s_line(rng)])
    ctrace(ctx, g, 'tr_commonperp', [('L', V6), ('M', V6)], lambda L, M: PL(L).commonperp(PL(M)).vec, 'F', 'commonperp',
           tol=1e-10)
    ctrace(ctx, g, 'tr_distance', [('L', V6), ('M', V6)], lambda L, M: PL(L).distance(PL(M)), 'FF', 'distance', tol=1e-9)
    # the other two branches of distance(): parallel lines, meeting lines (valuations / samplers with exact data on that path)
    ctrace(ctx, g, 'tr_distance_par', [('L', V6), ('M', V6)], lambda L, M: PL(L).distance(PL(M)), 'T', 'distance_par', tol=1e-9,
           val=PARALLEL, sampler=s_parallel)
    ctrace(ctx, g, 'tr_distance_meet', [('L', V6), ('M', V6)], lambda L, M: PL(L).distance(PL(M)), 'FT', 'distance_meet', tol=1e-9,
           val=MEETING, sampler=s_meeting, out='S')
    ctrace(ctx, g, 'tr_intersects', [('L', V6), ('M', V6)], lambda L, M: PL(L).intersects(PL(M)), 'FT', 'intersects', tol=1e-9,
           val=MEETING, sampler=s_meeting, out='V3')
    # ---- line and plane
    ctrace(ctx, g, 'tr_ip_p', [('L', V6), ('a', V4)], lambda L, a: PL(L).intersect_plane(Plane(a)).p, 'Tt', 'ip', tol=1e-9)
    ctrace(ctx, g, 'tr_ip_lam', [('L', V6), ('a', V4)], lambda L, a: PL(L).intersect_plane(Plane(a)).lam, 'TT', tol=1e-9)
    def p3(p):
        # base.getmatrix forces float64; while tracing it is the identity on a 3x3 object array (the numeric run uses the real one)
        real = base.getmatrix
        base.getmatrix = lambda m, shape, dtype=None: np.asarray(m) if np.asarray(m).dtype == object and np.asarray(m).shape == tuple(shape) else real(m, shape)
        try:
            return Plane.P3(p).plane
        finally:
            base.getmatrix = real
    g.trace('tr_PlaneP3', [('p', 'M33')], p3, num_fn=lambda p: Plane.P3(p).plane, out='V4')
    # ---- rigid motion
    def se3mul(X, L):
        with concolic.object_alloc():
            return (SE3(X, check=False) * PL(L)).vec
    g.trace('tr_SE3mul', [('X', 'M44'), ('L', V6)], se3mul,
            num_fn=lambda X, L: (SE3(X, check=False) * PL(L)).vec)
    return g


# ---------------------------------------------------------------------------------------------
# oracle: elementary vector geometry on the defining data (NumPy only), 1e-9 relative to the data magnitude
# ---------------------------------------------------------------------------------------------
REL = 1e-9


def nrm(x):
    return float(np.linalg.norm(np.asarray(x, float)))


def hexl(*arrs):
    return [float(x).hex() for a in arrs for x in np.asarray(a, float).flatten()]


def foot_origin(p, w):
    """point of the line {p + t w} closest to the origin"""
    return p - w * (w @ p) / (w @ w)


def dist_point_line(x, p, w):
    return nrm(np.cross(x - p, w)) / nrm(w)


def feet(p1, w1, p2, w2):
    """feet of the common perpendicular of two non-parallel lines"""
    n = np.cross(w1, w2)
    s, u, t = np.linalg.solve(np.c_[w1, n, -w2], p2 - p1)
    return p1 + s * w1, p2 + t * w2, n


def rand_point(rng, lo=1e-3, hi=1e3):
    r = rng.random()
    if r < 0.1:
        return rng.integers(-9, 10, size=3).astype(float)
    return rand_unit(rng) * log_uniform(rng, lo, hi)


def rand_dir(rng, lo=1e-3, hi=1e3):
    r = rng.random()
    if r < 0.15:
        return rand_unit(rng)
    if r < 0.25:
        return np.eye(3)[rng.integers(3)] * rng.choice([-1.0, 1.0]) * log_uniform(rng, lo, hi)
    return rand_unit(rng) * log_uniform(rng, lo, hi)


def dir_at_angle(rng, w, lo=0.1):
    """a direction making an angle in [lo, pi-lo] with w"""
    u = w / nrm(w)
    while True:
        a = rand_unit(rng)
        a = a - u * (a @ u)
        if nrm(a) > 1e-2:
            a = a / nrm(a)
            break
    th = rng.uniform(lo, math.pi - lo)
    return math.cos(th) * u + math.sin(th) * a


class Oracle:
    def __init__(self, ctx):
        self.ctx = ctx

    def ok(self, key, cond, what, replay):
        ctx = self.ctx
        ctx.count('oracle:' + key)
        if not cond:
            ctx.fail('oracle:' + key, what, replay)
        return cond

    def close(self, key, got, ref, scale, replay, what=None):
        ctx = self.ctx
        ctx.count('oracle:' + key)
        try:
            got = np.asarray(got, float)
            ref = np.asarray(ref, float)
            err = float(np.max(np.abs(got.reshape(ref.shape) - ref))) if got.size == ref.size else float('inf')
        except Exception:  # noqa
            err = float('inf')
        r = err / scale if scale > 0 else float('inf')
        if math.isfinite(r):
            ctx.stats['worst:' + key] = max(ctx.stats.get('worst:' + key, 0.0), r)
        if not err <= REL * scale:
            ctx.fail('oracle:' + key, (what or f"{key}: implementation and elementary geometry differ") +
                     f": |got-ref|={err:g}, data magnitude {scale:g}", dict(replay, got=np.asarray(got).tolist(), ref=ref.tolist()))
            return False
        return True

    def call(self, key, f, replay):
        """run a library call; an exception is a finding key:raises:<type>"""
        try:
            with np.errstate(all='ignore'):
                return True, f()
        except Exception as ex:  # noqa
            self.ctx.count('oracle:' + key)
            self.ctx.fail(f'oracle:{key}:raises:{type(ex).__name__}', f"{key} raises {type(ex).__name__}: {ex}", replay)
            return False, None

    # ---------------------------------------------------------------- one line
    def single_line(self, P, Q, x, lams, kind):
        ctx = self.ctx
        w = P - Q
        S = max(nrm(P), nrm(Q), nrm(x))
        rp = {'check': 'single', 'P_hex': hexl(P), 'Q_hex': hexl(Q), 'x_hex': hexl(x), 'P': P.tolist(), 'Q': Q.tolist(), 'x': x.tolist()}
        ctx.case(('single', tuple(P), tuple(Q), tuple(x)))
        for name, mk, pts in (('PQ', lambda: Plucker.PQ(P, Q), [('P', P), ('Q', Q)]),
                              ('PointDir', lambda: Plucker.PointDir(Q, w), [('point', Q), ('point+dir', Q + w)])):
            okc, L = self.call('ctor:' + name, mk, rp)
            if not okc:
                continue
            v_, w_ = np.array(L.v, float), np.array(L.w, float)
            self.close(f'constraint:{name}', v_ @ w_, 0.0, (w @ w) * S, rp, f"{name}: moment not orthogonal to direction")
            self.close(f'direction:{name}', w_, w, nrm(w), rp)
            pp = np.array(L.pp, float)
            pp_ref = foot_origin(P, w)
            self.close(f'pp:{name}', pp, pp_ref, S, rp, f"{name}: principal point is not the point of the line closest to the origin")
            self.close(f'ppd:{name}', L.ppd, nrm(pp_ref), S, rp)
            for pn_, X in pts:
                # incidence residual of the defining points: distance from the line the object represents
                self.close(f'incidence:{name}:{pn_}', dist_point_line(X, pp, w_), 0.0, S, rp, f"{name}: defining point {pn_} is not on the line")
                self.ok(f'contains:{name}:{pn_}', bool(L.contains(X, tol=REL * S * nrm(w))), f"{name}.contains(defining point {pn_}, tol=1e-9 relative) is False", rp)
                ctx.count('measured:contains-default-tol:' + ('true' if L.contains(X) else 'false'))
            # a point clearly off the line is not contained
            off = P + np.cross(w, rand_unit(ctx.rng) + 1e-3) / nrm(w) * max(S, 1e-3) * 1e-3
            if dist_point_line(off, P, w) > 1e-5 * S:
                self.ok(f'contains:{name}:off-line', not bool(L.contains(off, tol=REL * S * nrm(w))) and not bool(L.contains(off)),
                        f"{name}.contains(point 1e-3 relative off the line) is True", dict(rp, off=off.tolist()))
            for lam in lams:
                okc, pl = self.call('point', lambda: np.array(L.point(lam), float).flatten(), rp)
                if okc:
                    self.close(f'point:{name}', pl, pp_ref + lam * w / nrm(w), S + abs(lam), dict(rp, lam=lam),
                               "point(lam) is not pp + lam * unit direction")
            okc, c = self.call('closest', lambda: L.closest(x), rp)
            if okc:
                lam_ref = (x - pp_ref) @ w / nrm(w)
                p_ref = pp_ref + lam_ref * w / nrm(w)
                self.close(f'closest:p:{name}', c.p, p_ref, S, rp, "closest(x).p is not the orthogonal projection of x")
                self.close(f'closest:d:{name}', c.d, nrm(x - p_ref), S, rp, "closest(x).d is not the distance of x from the line")
                self.close(f'closest:lam:{name}', c.lam, lam_ref, S, rp, "closest(x).lam is not the parameter of the projection")
                self.close(f'closest:orthogonal:{name}', (x - np.array(c.p, float)) @ w, 0.0, S * nrm(w), rp)
        if kind == 0:
            ctx.sample({'kind': 'oracle', 'check': 'single line', 'P': P.tolist(), 'Q': Q.tolist(), 'x': x.tolist()})

    # ---------------------------------------------------------------- rigid motion
    def rigid(self, P, Q, T):
        ctx = self.ctx
        R, t = T[:3, :3], T[:3, 3]
        S = max(nrm(P), nrm(Q)) + nrm(t)
        rp = {'check': 'rigid', 'P_hex': hexl(P), 'Q_hex': hexl(Q), 'T_hex': hexl(T), 'P': P.tolist(), 'Q': Q.tolist(), 'T': T.tolist()}
        ctx.case(('rigid', tuple(P), tuple(Q), tuple(T.flatten())))
        okc, TL = self.call('se3mul', lambda: SE3(T, check=False) * Plucker.PQ(P, Q), rp)
        if not okc:
            return
        P2, Q2 = R @ P + t, R @ Q + t
        w2 = R @ (P - Q)            # = P2 - Q2 without the cancellation of the two transformed points
        v2 = np.cross(w2, P2)
        self.ok('se3mul:type', isinstance(TL, Plucker), "SE3 * Plucker is not a Plucker", rp)
        self.close('se3mul:w', TL.w, w2, nrm(w2), rp, "SE3*L: direction is not the rotated direction")
        self.close('se3mul:v', TL.v, v2, nrm(w2) * S, rp, "SE3*L is not the line through the transformed points")
        self.close('se3mul:incidence', dist_point_line(P2, np.array(TL.pp, float), np.array(TL.w, float)), 0.0, S, rp,
                   "transformed defining point is not on the transformed line")

    # ---------------------------------------------------------------- equality
    def equality(self, P, w, rng):
        ctx = self.ctx
        S = max(nrm(P), 1e-3)
        L = Plucker.PointDir(P, w)
        k = log_uniform(rng, 1e-2, 1e2)
        t = rng.uniform(-2, 2)
        rp = {'check': 'equality', 'P_hex': hexl(P), 'w_hex': hexl(w), 'k': k, 't': t}
        ctx.case(('eq', tuple(P), tuple(w), k))
        same = Plucker.PointDir(P + t * w, k * w)
        opp = Plucker.PointDir(P + t * w, -k * w)
        while True:
            perp = np.cross(w, rand_unit(rng)) / nrm(w)
            if nrm(perp) > 0.1:
                perp = perp / nrm(perp)       # unit vector orthogonal to the direction
                break
        shifted = Plucker.PointDir(P + perp * S * 1e-2, w)
        turned = Plucker.PointDir(P, dir_at_angle(rng, w, 1e-2) * nrm(w))
        self.ok('eq:rescaled', bool(L == same) and not bool(L != same), "the same oriented line with a positively rescaled direction is not ==", rp)
        self.ok('eq:reflexive', bool(L == L), "L == L is False", rp)
        self.ok('eq:opposite', not bool(L == opp) and bool(L != opp), "a line and its reversal compare ==", rp)
        self.ok('eq:shifted', not bool(L == shifted), "two parallel lines 1e-2 apart compare ==", rp)
        self.ok('eq:turned', not bool(L == turned), "two lines through a point at an angle >= 1e-2 compare ==", rp)
        # objects holding several lines compare element-wise (a list of bool); a single line broadcasts; other operands are rejected
        A = Plucker([np.array(L.vec, float), np.array(opp.vec, float), np.array(same.vec, float)])
        B = Plucker([np.array(same.vec, float), np.array(same.vec, float), np.array(shifted.vec, float)])
        okc, r = self.call('eq:multi', lambda: A == B, rp)
        if okc:
            self.ok('eq:multi:elementwise', isinstance(r, list) and [bool(x) for x in r] == [True, False, False],
                    f"== between two objects holding 3 lines is {r!r}, expected [True, False, False]", rp)
        okc, r = self.call('ne:multi', lambda: A != B, rp)
        if okc:
            self.ok('ne:multi:elementwise', isinstance(r, list) and [bool(x) for x in r] == [False, True, True],
                    f"!= between two objects holding 3 lines is {r!r}, expected [False, True, True]", rp)
        okc, r = self.call('eq:broadcast', lambda: L == B, rp)
        if okc:
            self.ok('eq:broadcast:elementwise', isinstance(r, list) and [bool(x) for x in r] == [True, True, False],
                    f"(one line) == (object holding 3 lines) is {r!r}, expected [True, True, False]", rp)
        for other in (5, np.array(L.vec, float)):
            try:
                r = (L == other)
                self.ok('eq:non-plucker-operand', False, f"L == {type(other).__name__} returns {r!r} instead of raising TypeError", rp)
            except TypeError:
                self.ok('eq:non-plucker-operand', True, '', rp)
            except Exception as ex:  # noqa
                self.ok('eq:non-plucker-operand', False, f"L == {type(other).__name__} raises {type(ex).__name__} instead of TypeError", rp)

    # ---------------------------------------------------------------- pairs of lines
    def pair(self, pos, p1, w1, p2, w2, exact=False):
        """pos: general | parallel | parallel-rounded | meeting | meeting-unequal | meeting-rounded | coincident"""
        ctx = self.ctx
        S = max(nrm(p1), nrm(p2), 1e-3)
        rp = {'check': 'pair', 'position': pos, 'p1_hex': hexl(p1), 'w1_hex': hexl(w1), 'p2_hex': hexl(p2), 'w2_hex': hexl(w2),
              'p1': p1.tolist(), 'w1': w1.tolist(), 'p2': p2.tolist(), 'w2': w2.tolist()}
        ctx.case(('pair', pos, tuple(p1), tuple(w1), tuple(p2), tuple(w2)))
        L1, L2 = Plucker.PointDir(p1, w1), Plucker.PointDir(p2, w2)
        par = pos in ('parallel', 'parallel-rounded', 'coincident')
        rounded = pos.endswith('rounded')
        ptol = REL            # relative since /repo b223bb8: sine of the angle between the directions
        # parallelism
        self.ok(f'isparallel:tol:{pos}', bool(L1.isparallel(L2, tol=ptol)) == par,
                f"isparallel(tol=1e-9) is {not par} for lines in {pos} position", rp)
        # ... and the test does not depend on the length of either direction
        kk = float(10.0 ** self.ctx.rng.integers(-3, 4))
        self.ok('isparallel:scale-invariant', bool(Plucker.PointDir(p1, kk * w1).isparallel(L2)) == bool(L1.isparallel(L2)) or pos.endswith('rounded'),
                f"isparallel() changes when the first direction is multiplied by {kk:g}", dict(rp, k=kk))
        okc, r = self.call('parallel-op', lambda: bool(L1 | L2), rp)
        if okc:
            if rounded and par:
                self.ok('parallel-op:rounded-kw', r, "L1 | L2 is False for parallel lines whose directions are w and a rounded k*w", rp)
            elif not rounded:
                self.ok(f'parallel-op:{pos}', r == par, f"L1 | L2 is {r} for lines in {pos} position", rp)
        # intersection predicate
        okc, r = self.call('intersect-op', lambda: bool(L1 ^ L2), rp)
        if okc:
            meet = pos.startswith('meeting')
            if pos == 'meeting':
                self.ok('intersect-op:meets:equal-lengths', r, "L1 ^ L2 is False for two lines through a common point (equal direction lengths, exact data)", rp)
            elif pos == 'meeting-unequal':
                self.ok('intersect-op:meets:unequal-lengths', r, "L1 ^ L2 is False for two lines through a common point whose direction lengths differ (exact integer data)", rp)
            elif pos == 'meeting-rounded':
                self.ok('intersect-op:meeting-rounded', r, "L1 ^ L2 is False for two meeting lines in floating-point data "
                        "(absolute tolerance 10*eps on the reciprocal product)", rp)
            elif not rounded:
                self.ok(f'intersect-op:{pos}', r == meet, f"L1 ^ L2 is {r} for lines in {pos} position", rp)
        # intersection point
        if pos in ('meeting', 'meeting-unequal'):
            okc, r = self.call('intersects:meets', lambda: L1.intersects(L2), rp)
            if okc:
                if r is None:
                    self.ok('intersects:meets:none', False, "intersects() is None for two lines through a common point", rp)
                elif np.shape(r) != (3,) and np.size(r) != 3:
                    self.ok('intersects:result-shape', False, f"intersects() returns an array of shape {np.shape(r)} instead of the intersection point", rp)
                else:
                    self.close('intersects:meets:point', np.asarray(r, float).flatten(), rp_common(p1, w1, p2, w2), max(S, 1.0), rp, "intersects() is not the common point of the two lines")
        elif pos == 'general':
            okc, r = self.call('intersects', lambda: L1.intersects(L2), rp)
            if okc:
                self.ok('intersects:skew', r is None, "intersects() is not None for skew lines", rp)
        # common perpendicular
        okc, C = self.call('commonperp:parallel-rounded-kw' if rounded and par else 'commonperp', lambda: L1.commonperp(L2), rp)
        if okc:
            if par:
                key = 'commonperp:parallel-rounded-kw:not-none' if rounded else f'commonperp:{pos}:not-none'
                self.ok(key, C is None, "commonperp() of parallel lines is not None" +
                        (" (directions w and a rounded k*w)" if rounded else ""), rp)
            elif C is None:
                self.ok(f'commonperp:{pos}:none', False, "commonperp() of non-parallel lines is None", rp)
            else:
                f1, f2, n = feet(p1, w1, p2, w2)
                cv, cw = np.array(C.v, float), np.array(C.w, float)
                self.close('commonperp:direction', np.cross(cw, n) / (nrm(cw) * nrm(n)), np.zeros(3), 1.0, rp,
                           "commonperp(): direction is not along w1 x w2")
                cpp = np.cross(cv, cw) / (cw @ cw)
                self.close('commonperp:meets-L1', dist_point_line(f1, cpp, cw), 0.0, S, rp, "commonperp() does not meet the first line at the foot")
                self.close('commonperp:meets-L2', dist_point_line(f2, cpp, cw), 0.0, S, rp, "commonperp() does not meet the second line at the foot")
                self.close('commonperp:plucker-constraint', cv @ cw / (nrm(cw) ** 2), 0.0, S, rp,
                           "commonperp(): the result violates the Pluecker constraint v.w = 0")
        # distance
        okc, d = self.call('distance:parallel-exact' if (par and not rounded) else ('distance:parallel-rounded-kw' if par else f'distance:{pos}'), lambda: L1.distance(L2), rp)
        if okc:
            if par:
                dref = dist_point_line(p2, p1, w1)
            elif pos.startswith('meeting'):
                dref = 0.0
            else:
                f1, f2, n = feet(p1, w1, p2, w2)
                dref = nrm(f1 - f2)
            key = {'general': 'distance:skew', 'parallel': 'distance:parallel-exact:value', 'coincident': 'distance:parallel-exact:value',
                   'parallel-rounded': 'distance:parallel-rounded-kw'}.get(pos, 'distance:meets')
            self.close(key, d, dref, S, rp, f"distance() of lines in {pos} position")

    # ---------------------------------------------------------------- planes
    def plane(self, p0, n, P, w, rng):
        ctx = self.ctx
        S = max(nrm(p0), nrm(P), 1e-3)
        rp = {'check': 'plane', 'p0_hex': hexl(p0), 'n_hex': hexl(n), 'P_hex': hexl(P), 'w_hex': hexl(w),
              'p0': p0.tolist(), 'n': n.tolist(), 'P': P.tolist(), 'w': w.tolist()}
        ctx.case(('plane', tuple(p0), tuple(n), tuple(P), tuple(w)))
        okc, pl = self.call('plane-PN', lambda: Plane.PN(p0, n), rp)
        if not okc:
            return
        # documented convention: a x + b y + c z + d = 0
        self.close('plane-PN:equation', np.array(pl.n, float) @ p0 + pl.d, 0.0, nrm(n) * S, rp, "Plane.PN(p, n): n.p + d != 0")
        okc, r = self.call('plane-contains', lambda: bool(pl.contains(p0, tol=REL * nrm(n) * S)), rp)
        if okc:
            self.ok('plane-contains:PN-point', r, "Plane.PN(p, n).contains(p) is False for the point the plane was built from (plane equation n.x + d = 0)", rp)
        # other points of the plane are contained, points off the plane (1e-3 relative, either side; the mirror image of p) are not
        t1 = np.cross(n, rand_unit(rng) + 1e-3)
        inpl = p0 + t1 / nrm(t1) * S * rng.uniform(0.1, 2)
        okc, r = self.call('plane-contains', lambda: bool(pl.contains(inpl, tol=REL * nrm(n) * S * 10)), rp)
        if okc:
            self.ok('plane-contains:in-plane-point', r, "Plane.PN(p, n).contains(x) is False for a point x with n.(x - p) = 0", dict(rp, x=inpl.tolist()))
        for sgn in (1.0, -1.0):
            offp = inpl + sgn * n / nrm(n) * S * 1e-3
            okc, r = self.call('plane-contains', lambda: bool(pl.contains(offp, tol=REL * nrm(n) * S * 10)) or bool(pl.contains(offp)), rp)
            if okc:
                self.ok('plane-contains:off-plane-point', not r, "Plane.PN(p, n).contains(x) is True for a point 1e-3 (relative) off the plane", dict(rp, x=offp.tolist()))
        if abs(n @ p0) > 1e-3 * nrm(n) * S:
            okc, r = self.call('plane-contains', lambda: bool(pl.contains(-p0, tol=REL * nrm(n) * S)), rp)
            if okc:
                self.ok('plane-contains:mirror-point', not r, "Plane.PN(p, n).contains(-p) is True although n.p != 0 (sign of d reversed)", rp)
        # three points
        a, b = np.cross(n, rand_unit(rng) + 1e-3), None
        a = a / nrm(a)
        b = np.cross(n, a) / nrm(n)
        pts = np.c_[p0, p0 + a * S, p0 + b * S]
        okc, p3 = self.call('plane-from-3-points', lambda: Plane.P3(pts), rp)
        if okc:
            nn = np.array(p3.n, float)
            for j in range(3):
                self.close('plane-from-3-points:equation', nn @ pts[:, j] + p3.d, 0.0, nrm(nn) * S, rp, "Plane.P3: a defining point does not satisfy the plane equation")
                self.ok('plane-from-3-points:contains', bool(p3.contains(pts[:, j], tol=REL * nrm(nn) * S * 10)), "Plane.P3(points).contains(defining point) is False", rp)
            self.close('plane-from-3-points:normal', np.cross(nn, n) / (nrm(nn) * nrm(n)), np.zeros(3), 1.0, rp, "Plane.P3: normal is not orthogonal to the plane of the three points")
        # line / plane intersection (plane not parallel to the line)
        L = Plucker.PointDir(P, w)
        okc, r = self.call('intersect-plane', lambda: L.intersect_plane(pl), rp)
        if okc:
            if r is None:
                self.ok('intersect-plane:none', False, "intersect_plane() is None for a plane that is not parallel to the line", rp)
            else:
                t_ref = (n @ (p0 - P)) / (n @ w)
                x_ref = P + t_ref * w
                cond = nrm(n) * nrm(w) / abs(n @ w)
                self.close('intersect-plane:p', r.p, x_ref, (S + nrm(x_ref)) * cond, rp, "intersect_plane().p is not the intersection point")
                okc2, pl_ = self.call('point', lambda: np.array(L.point(r.lam), float).flatten(), rp)
                if okc2:
                    self.close('intersect-plane:parameter', pl_, x_ref, (S + nrm(x_ref)) * cond, rp,
                               "intersect_plane().lam is not the line parameter: point(lam) is not the intersection point")
        # line as the intersection of two planes
        n2 = dir_at_angle(rng, n, 0.1) * log_uniform(rng, 1e-3, 1e3)
        q0 = rand_point(rng)
        pl2 = Plane.PN(q0, n2)
        okc, LP = self.call('ctor:Planes', lambda: Plucker.Planes(pl, pl2), rp)
        if okc:
            S2 = max(S, nrm(q0))
            rp2 = dict(rp, q0=q0.tolist(), n2=n2.tolist())
            lv_, lw_ = np.array(LP.v, float), np.array(LP.w, float)
            self.close('constraint:Planes', lv_ @ lw_ / (lw_ @ lw_), 0.0, S2 * 100, rp2, "Planes: moment not orthogonal to direction")
            for lam in (0.0, S2, -0.3 * S2):
                x = np.array(LP.point(lam), float).flatten()
                self.close('incidence:Planes:plane1', (n @ (x - p0)) / nrm(n), 0.0, S2 * 100, rp2, "Planes: a point of the line is not in the first plane")
                self.close('incidence:Planes:plane2', (n2 @ (x - q0)) / nrm(n2), 0.0, S2 * 100, rp2, "Planes: a point of the line is not in the second plane")


def rp_common(p1, w1, p2, w2):
    f1, f2, n = feet(p1, w1, p2, w2)
    return 0.5 * (f1 + f2)


def int_dir(rng, norm2=None):
    """small integer direction, optionally with a prescribed squared length (9: permutations of (1,2,2))"""
    if norm2 == 9:
        base_ = [(1, 2, 2), (2, 1, 2), (2, 2, 1), (3, 0, 0), (0, 3, 0), (0, 0, 3)]
        v = np.array(base_[rng.integers(len(base_))], float)
        return v * rng.choice([-1.0, 1.0], size=3)
    while True:
        v = rng.integers(-4, 5, size=3).astype(float)
        if v @ v > 0:
            return v


def oracle(ctx):
    rng = ctx.rng
    O = Oracle(ctx)
    A = lambda *x: np.array(x, float)
    # ---- the witnesses of the former `_refuted` theorems (all repaired in /repo): they must now stay silent
    O.pair('meeting-unequal', A(0, 0, 1), A(1, 0, 0), A(0, 0, 1), A(0, 2, 0))          # witness of the former C19_recip_meeting_lines_refuted (repaired: silent)
    O.pair('general', A(0, 0, 0), A(1, 0, 0), A(0, 0, 1), A(3, 4, 0))                  # witness of the former C19_commonperp_constraint_refuted (repaired: silent)
    O.pair('general', A(0, 0, 0), A(1, 0, 0), A(0, 0, 1), A(0.6, 0.8, 0))              # witness of the former C19_distance_refuted (repaired: silent)
    O.plane(A(2, 0, 0), A(1, 0, 0), A(0, 0, 0), A(1, 0, 0), rng)                       # witness of the former C19_intersect_plane_lam_refuted (repaired: silent)
    O.plane(A(1, 0, 0), A(1, 0, 0), A(0, 1, 0), A(1, 1, 0), rng)                       # witness of the former C19_Plane_contains_defining_point_refuted (repaired: must stay silent)
    N = ctx.n(250, 40000)
    for i in range(N):
        # ---- one line
        P = rand_point(rng)
        while True:
            Q = P + rand_unit(rng) * log_uniform(rng, 1e-3, 1e3)
            if np.max(np.abs(Q)) <= 1e3:
                break
        x = rand_point(rng)
        S = max(nrm(P), nrm(Q))
        O.single_line(P, Q, x, [0.0, S * rng.uniform(-2, 2), log_uniform(rng, 1e-3, 1e3)], i)
        # ---- rigid motion
        T = np.eye(4)
        T[:3, :3] = rand_rot(rng)
        T[:3, 3] = rand_trans(rng, 1e-3, 1e3)
        O.rigid(P, Q, T)
        # ---- equality
        O.equality(P, rand_dir(rng), rng)
        # ---- pairs
        p1, w1 = rand_point(rng), rand_dir(rng)
        p2 = rand_point(rng)
        O.pair('general', p1, w1, p2, dir_at_angle(rng, w1) * log_uniform(rng, 1e-3, 1e3))
        k2 = float(2.0 ** rng.integers(-3, 4)) * rng.choice([-1.0, 1.0])
        O.pair('parallel', p1, w1, p2, k2 * w1)                                     # k a power of two: k*w1 is exact
        O.pair('coincident', p1, w1, p1 + 2.0 * w1, k2 * w1)
        O.pair('parallel-rounded', p1, w1, p2, rng.uniform(0.3, 3) * rng.choice([-1.0, 1.0]) * w1)
        c = rng.integers(-5, 6, size=3).astype(float)
        ax = rng.permutation(3)
        k2 = float(2.0 ** rng.integers(-2, 3))
        wa, wb = np.eye(3)[ax[0]] * k2 * rng.choice([-1.0, 1.0]), np.eye(3)[ax[1]] * k2 * rng.choice([-1.0, 1.0])
        O.pair('meeting', c, wa, c + wb, wb)                                     # every operation exact: |wa| = |wb| = 2^j, integer point
        wa, wb = int_dir(rng, 9), int_dir(rng, 9)
        if nrm(np.cross(wa, wb)) > 0:
            O.pair('meeting-rounded', c, wa, c, wb)                              # small integers, |wa| = |wb| = 3: unit directions are rounded
        wa, wb = int_dir(rng), int_dir(rng)
        if nrm(np.cross(wa, wb)) > 0 and abs(wa @ wa - wb @ wb) > 0:
            O.pair('meeting-unequal', c + 2 * wa, wa, c - wb, wb)
        wa = rand_unit(rng)
        wb = dir_at_angle(rng, wa)
        cc = rand_point(rng, 1e1, 1e3)
        O.pair('meeting-rounded', cc + rng.uniform(-1, 1) * wa, wa, cc + rng.uniform(-1, 1) * wb, wb)
        # ---- planes
        n = rand_dir(rng)
        p0 = rand_point(rng)
        wl = dir_at_angle(rng, n, 0.1)
        # line direction not parallel to the plane: angle between w and n at most pi/2 - 0.1
        th = rng.uniform(0, math.pi / 2 - 0.1)
        u = n / nrm(n)
        a = wl - u * (wl @ u)
        a = a / nrm(a)
        wline = (math.cos(th) * u + math.sin(th) * a) * rng.choice([-1.0, 1.0]) * log_uniform(rng, 1e-3, 1e3)
        O.plane(p0, n, rand_point(rng), wline, rng)
    ctx.stats['oracle:iterations'] = N



# ---------------------------------------------------------------------------------------------
# argument forms: every constructor / operand position with int lists, int tuples, int32 / int64 arrays and mixed
# lists must give what the float64 form gives (a line whose coordinates were given as integers is the same line)
# ---------------------------------------------------------------------------------------------
FORMS = ('list', 'tuple', 'int32', 'int64', 'mixed')


def as_form(form, a):
    a = [int(x) for x in np.asarray(a).flatten()]
    if form == 'float':
        return np.array(a, dtype=np.float64)
    if form == 'list':
        return list(a)
    if form == 'tuple':
        return tuple(a)
    if form == 'int32':
        return np.array(a, dtype=np.int32)
    if form == 'int64':
        return np.array(a, dtype=np.int64)
    if form == 'float32':
        return np.array(a, dtype=np.float32)
    if form == 'mixed':
        return [float(a[0])] + a[1:]
    raise ValueError(form)


def canon(r):
    """canonical, comparable form of a library result"""
    if r is None:
        return ('none',)
    if isinstance(r, Plucker):
        return ('line', len(r)) + tuple(float(x) for x in np.asarray(r.vec if len(r) == 1 else np.concatenate(r.data), float).flatten())
    if isinstance(r, Plane):
        return ('plane',) + tuple(float(x) for x in np.asarray(r.plane, float))
    if isinstance(r, (bool, np.bool_)):
        return ('bool', bool(r))
    if isinstance(r, tuple) and hasattr(r, '_fields'):
        out = ('nt',)
        for x in r:
            out += tuple(float(y) for y in np.asarray(x, float).flatten())
        return out
    if isinstance(r, list) and r and isinstance(r[0], (bool, np.bool_)):
        return ('bools',) + tuple(bool(x) for x in r)
    return ('num',) + tuple(float(x) for x in np.asarray(r, float).flatten())


def outcome(f):
    try:
        with np.errstate(all='ignore'):
            return canon(f())
    except Exception as ex:  # noqa
        return ('raises', type(ex).__name__)


def same_outcome(a, b, tol=1e-12):
    if len(a) != len(b) or a[0] != b[0]:
        return False
    for x, y in zip(a[1:], b[1:]):
        if isinstance(x, float) and isinstance(y, float):
            if math.isnan(x) and math.isnan(y):
                continue
            if not abs(x - y) <= tol * max(1.0, abs(y)):
                return False
        elif x != y:
            return False
    return True


def form_ops(F, d):
    """the calls of one configuration d (integer data) with every array argument given in the form F"""
    T, Ti = d['T'], d['Ti']
    mk6 = lambda: Plucker(F(d['L6']))
    mkvw = lambda: Plucker(F(d['L6'][:3]), F(d['L6'][3:]))
    mk2 = lambda: Plucker(F(d['M6']))
    ops = {
        'Plucker(vec6)': lambda: mk6(),
        'Plucker(v,w)': lambda: mkvw(),
        'PQ': lambda: Plucker.PQ(F(d['P']), F(d['Q'])),
        'PointDir': lambda: Plucker.PointDir(F(d['P']), F(d['w'])),
        'Planes(arrays)': lambda: Plucker.Planes(F(d['a']), F(d['b'])),
        'Planes(Plane,Plane)': lambda: Plucker.Planes(Plane(F(d['a'])), Plane(F(d['b']))),
        'Plane': lambda: Plane(F(d['a'])),
        'Plane.PN': lambda: Plane.PN(F(d['P']), F(d['w'])),
        'Plane.contains': lambda: Plane.PN(F(d['P']), F(d['w'])).contains(F(d['P'])),
        'pp': lambda: mk6().pp, 'ppd': lambda: mk6().ppd, 'uw': lambda: mkvw().uw, 'v': lambda: mk6().v, 'w': lambda: mkvw().w,
        'vec': lambda: mkvw().vec, 'skew': lambda: mk6().skew,
        'point': lambda: mk6().point(d['lam']), 'point(list)': lambda: mkvw().point([d['lam'], -d['lam']]),
        'closest': lambda: mk6().closest(F(d['x'])), 'closest(v,w)': lambda: mkvw().closest(F(d['x'])),
        'contains:on': lambda: mk6().contains(F(d['on'])), 'contains:off': lambda: mkvw().contains(F(d['x'])),
        'SE3*L(vec6)': lambda: SE3(T, check=False) * mk6(), 'SE3*L(v,w)': lambda: SE3(T, check=False) * mkvw(),
        'SE3(int)*L(vec6)': lambda: SE3(*[int(t) for t in Ti]) * mk6(), 'SE3(int)*L(v,w)': lambda: SE3(*[int(t) for t in Ti]) * mkvw(),
        'SE3*PQ': lambda: SE3(T, check=False) * Plucker.PQ(F(d['P']), F(d['Q'])),
        'SE3*SE3*L': lambda: SE3(T, check=False) * (SE3(*[int(t) for t in Ti]) * mk6()),
        'recip': lambda: mk6() * mk2(), 'eq': lambda: mk6() == mk2(), 'eq:self': lambda: mk6() == mkvw(), 'ne': lambda: mk6() != mk2(),
        'parallel-op': lambda: mk6() | mk2(), 'intersect-op': lambda: mk6() ^ mk2(), 'isparallel': lambda: mkvw().isparallel(mk2()),
        'commonperp': lambda: mk6().commonperp(mk2()), 'distance': lambda: mkvw().distance(mk2()), 'intersects': lambda: mk6().intersects(mk2()),
        'intersect_plane(array)': lambda: mk6().intersect_plane(F(d['a'])), 'intersect_plane(Plane)': lambda: mkvw().intersect_plane(Plane(F(d['a']))),
    }
    return ops


def forms_check(ctx, O, d):
    ref = {k: outcome(f) for k, f in form_ops(lambda a: as_form('float', a), d).items()}
    # the float form of SE3 * line against elementary geometry (the integer forms are compared with it below)
    R, t = d['T'][:3, :3], d['T'][:3, 3]
    v, w = np.array(d['L6'][:3], float), np.array(d['L6'][3:], float)
    w2 = R @ w
    v2 = R @ v - np.cross(t, w2)
    rp0 = {'check': 'forms', 'data': {k: np.asarray(x).tolist() for k, x in d.items()}}
    O.ok('forms:SE3*L:float-reference', same_outcome(ref['SE3*L(vec6)'], ('line', 1) + tuple(np.r_[v2, w2]), 1e-9),
         "SE3 * Plucker(float 6-vector) is not (R v - t x R w, R w)", rp0)
    for form in FORMS:
        got = {k: outcome(f) for k, f in form_ops(lambda a: as_form(form, a), d).items()}
        ctx.case(('forms', form, tuple(d['L6']), tuple(d['M6']), tuple(d['x'])))
        for k in ref:
            ctx.count('oracle:forms')
            if not same_outcome(got[k], ref[k]):
                ctx.fail(f'oracle:forms:{k}', f"{k} with arguments given as {form} differs from the same call with float64 arrays: "
                         f"{got[k][:8]} instead of {ref[k][:8]}", dict(rp0, form=form, op=k, got=list(got[k]), ref=list(ref[k])))


def int_config(rng):
    """small-integer configuration: a valid line (v = w x p), a second line, points, planes, a rigid motion with a
    non-integer rotation and translation, an integer translation"""
    def ivec(lo=-6, hi=7, nz=True):
        while True:
            v = rng.integers(lo, hi, size=3)
            if not nz or np.any(v != 0):
                return v
    p, w = ivec(nz=False), ivec(-3, 4)
    if rng.random() < 0.3:
        p, w = np.zeros(3, int), np.eye(3, dtype=int)[rng.integers(3)]      # a coordinate axis through the origin
    q, u = ivec(nz=False), ivec(-3, 4)
    while not np.any(np.cross(w, u) != 0):
        u = ivec(-3, 4)
    a = np.r_[ivec(-3, 4), rng.integers(-5, 6)]
    while a[:3] @ w == 0:
        a = np.r_[ivec(-3, 4), rng.integers(-5, 6)]
    b = np.r_[ivec(-3, 4), rng.integers(-5, 6)]
    while not np.any(np.cross(a[:3], b[:3]) != 0):
        b = np.r_[ivec(-3, 4), rng.integers(-5, 6)]
    T = np.eye(4)
    T[:3, :3] = rand_rot(rng, mag=rng.uniform(0.1, 3.0))
    T[:3, 3] = rng.uniform(-3, 3, size=3)
    Q = p + w * int(rng.integers(1, 4))
    return {'L6': np.r_[np.cross(w, p), w], 'M6': np.r_[np.cross(u, q), u], 'P': p, 'Q': Q if np.any(Q != p) else p + w, 'w': w,
            'x': ivec(nz=False), 'on': p + 2 * w, 'a': a, 'b': b, 'lam': int(rng.integers(-4, 5)), 'T': T, 'Ti': rng.integers(-4, 5, size=3)}


# ---------------------------------------------------------------------------------------------
# histories on ONE object: evaluate every accessor -> change the held line through the list interface -> re-evaluate;
# at every point the object must describe the line it currently holds, i.e. agree with a FRESH object built from its
# current coordinates and with the geometry of the defining points.  Result poisoning: overwrite a returned array.
# ---------------------------------------------------------------------------------------------
MUTATORS = ('setitem0', 'insert0', 'pop0', 'del0', 'reverse', 'extend', 'insert-end', 'pop-last', 'setitem-last')
ACCESSORS = ('v', 'w', 'vec', 'uw', 'pp', 'ppd', 'point', 'closest', 'contains:on', 'contains:off', 'recip', 'isparallel',
             'SE3*L', 'intersect_plane', 'skew')
POISON = ('pp', 'uw', 'point', 'closest', 'vec', 'SE3*L')


def accessor_fns(L, aux):
    x, lam, other, T, plane = aux
    return {
        'v': lambda: L.v, 'w': lambda: L.w, 'vec': lambda: L.vec, 'uw': lambda: L.uw, 'pp': lambda: L.pp, 'ppd': lambda: L.ppd,
        'point': lambda: L.point(lam), 'closest': lambda: L.closest(x),
        'contains:on': lambda: L.contains(np.array(L.pp, float) + 0.5 * np.array(L.w, float), tol=1e-6 * (1 + nrm(L.w)) * (1 + nrm(L.pp))),
        'contains:off': lambda: L.contains(x), 'recip': lambda: L * other, 'isparallel': lambda: L.isparallel(other),
        'SE3*L': lambda: SE3(T, check=False) * L, 'intersect_plane': lambda: L.intersect_plane(plane), 'skew': lambda: L.skew,
    }


def history_check(ctx, O, ops, aux, poison=None):
    """ops: [(mutator, P, Q)] starting with ('new', P, Q).  Returns nothing; findings keyed history:<accessor> / poison:<accessor>."""
    x, lam, other, T, plane = aux
    rp = {'check': 'history', 'ops': [[m, hexl(P), hexl(Q)] for m, P, Q in ops], 'ops_plain': [[m, np.asarray(P).tolist(), np.asarray(Q).tolist()] for m, P, Q in ops],
          'x_hex': hexl(x), 'lam': float(lam).hex(), 'other_hex': hexl(other.vec), 'T_hex': hexl(T), 'plane_hex': hexl(plane), 'poison': poison}
    ctx.case(('history', tuple((m, tuple(P), tuple(Q)) for m, P, Q in ops), poison))
    L, ref, done = None, [], []

    def verify(stage):
        cur = np.array(L.data[0], float).copy()
        fresh = Plucker(cur.copy())
        fa, la = accessor_fns(fresh, aux), accessor_fns(L, aux)
        for a in ACCESSORS:
            ctx.count('oracle:history')
            g, r = outcome(la[a]), outcome(fa[a])
            if not same_outcome(g, r, 1e-12):
                ctx.fail(f'oracle:history:{a}', f"after {stage}: {a} of the object differs from {a} of a fresh Plucker built from the object's "
                         f"current coordinates: {g[:7]} instead of {r[:7]}", dict(rp, done=list(done), accessor=a, got=list(g), fresh=list(r)))
        # and against the geometry of the line the object now holds
        P, Q = ref[0]
        w = P - Q
        S = max(nrm(P), nrm(Q), nrm(x))
        O.close('history:geometry:pp', L.pp, foot_origin(P, w), S, dict(rp, done=list(done)), f"after {stage}: pp is not the principal point of the line now held")
        c = L.closest(x)
        lam_ref = (x - foot_origin(P, w)) @ w / nrm(w)
        O.close('history:geometry:closest', c.p, foot_origin(P, w) + lam_ref * w / nrm(w), S, dict(rp, done=list(done)),
                f"after {stage}: closest(x) is not the projection onto the line now held")
        O.close('history:geometry:point', dist_point_line(np.array(L.point(lam), float).flatten(), P, w), 0.0, S + abs(lam), dict(rp, done=list(done)),
                f"after {stage}: point(lam) is not on the line now held")

    for m, P, Q in ops:
        P, Q = np.asarray(P, float), np.asarray(Q, float)
        new = Plucker.PQ(P, Q)
        try:
            if m == 'new':
                L, ref = Plucker(new), [(P, Q)]
            elif m == 'setitem0':
                L[0] = new
                ref[0] = (P, Q)
            elif m == 'setitem-last':
                L[len(L) - 1] = new
                ref[-1] = (P, Q)
            elif m == 'insert0':
                L.insert(0, new)
                ref.insert(0, (P, Q))
            elif m == 'insert-end':
                L.insert(len(L), new)
                ref.insert(len(ref), (P, Q))
            elif m == 'extend':
                L.extend(new)
                ref.append((P, Q))
            elif m == 'reverse':
                L.reverse()
                ref.reverse()
            elif m in ('pop0', 'del0', 'pop-last'):
                if len(ref) < 2:
                    continue
                if m == 'pop0':
                    L.pop(0)
                    ref.pop(0)
                elif m == 'del0':
                    del L[0]
                    ref.pop(0)
                else:
                    L.pop()
                    ref.pop()
        except Exception as ex:  # noqa
            ctx.count('oracle:history')
            ctx.fail(f'oracle:history:mutator:{m}:raises:{type(ex).__name__}', f"list operation {m} on a Plucker object raises {type(ex).__name__}: {ex}",
                     dict(rp, done=list(done)))
            return
        done.append(m)
        O.ok('history:length', len(L) == len(ref), f"after {'/'.join(done)}: the object holds {len(L)} lines, expected {len(ref)}", dict(rp, done=list(done)))
        if len(L) != len(ref):
            return
        verify('/'.join(done))
        if poison is not None:
            # overwrite, in place, the array an accessor returned; the object must not change what it reports afterwards
            before = np.array(L.data[0], float).copy()
            r = accessor_fns(L, aux)[poison]()
            arr = r.p if hasattr(r, '_fields') else (r.vec if isinstance(r, Plucker) else r)
            try:
                arr += 1
            except Exception:  # noqa
                pass
            done.append(f'poison({poison})')
            O.ok(f'poison:{poison}:object-coordinates', np.array_equal(before, np.array(L.data[0], float)),
                 f"overwriting the array returned by {poison} changed the coordinates of the line", dict(rp, done=list(done)))
            verify('/'.join(done))


def rand_history(rng, n):
    def pq():
        P = rand_point(rng, 1e-2, 1e2)
        return P, P + rand_unit(rng) * log_uniform(rng, 1e-2, 1e2)
    ops = [('new',) + pq()]
    for _ in range(n):
        ops.append((MUTATORS[rng.integers(len(MUTATORS))],) + pq())
    return ops


def history_aux(rng):
    T = np.eye(4)
    T[:3, :3] = rand_rot(rng, mag=rng.uniform(0.1, 3.0))
    T[:3, 3] = rng.uniform(-3, 3, size=3)
    return (rand_point(rng, 1e-2, 1e2), float(rng.uniform(-5, 5)), Plucker.PointDir(rand_point(rng, 1e-2, 1e2), rand_unit(rng)), T,
            np.r_[rand_unit(rng), rng.uniform(-2, 2)])


def forms_and_histories(ctx):
    rng = ctx.rng
    O = Oracle(ctx)
    # the z axis given as integers, rotated about x (a coordinate line of the kind every user types in)
    T0 = np.eye(4)
    T0[:3, :3] = [[1, 0, 0], [0, math.cos(0.3), -math.sin(0.3)], [0, math.sin(0.3), math.cos(0.3)]]
    d0 = int_config(rng)
    d0.update(L6=np.array([0, 0, 0, 0, 0, 1]), P=np.zeros(3, int), w=np.array([0, 0, 1]), Q=np.array([0, 0, 1]), on=np.array([0, 0, 2]), T=T0,
              a=np.array([0, 1, 1, -2]))
    forms_check(ctx, O, d0)
    for _ in range(ctx.n(100, 5000)):
        forms_check(ctx, O, int_config(rng))
    # every mutator once after every accessor was evaluated, then random histories, then poisoning of each returned array
    for m in MUTATORS:
        h = rand_history(rng, 0)
        extra = rand_history(rng, 2)
        history_check(ctx, O, h + [('insert-end',) + extra[1][1:], (m,) + extra[2][1:]], history_aux(rng))
    for _ in range(ctx.n(150, 8000)):
        history_check(ctx, O, rand_history(rng, int(rng.integers(1, 7))), history_aux(rng))
    for a in POISON:
        for _ in range(ctx.n(8, 300)):
            history_check(ctx, O, rand_history(rng, int(rng.integers(0, 3))), history_aux(rng), poison=a)


def run(ctx):
    ctx.rule = ("obligations: theorems of theories/Props/C19_a.v, C19_b.v, C19_c.v over the traces regenerated from /repo; "
                "evaluations: Sym==Num cases (generated model vs implementation) + oracle cases (one constructed configuration of "
                "points / lines / planes / rigid motion each, compared with elementary vector geometry); a case is distinct by its "
                "(check, configuration) signature")
    ctx.trusted_extra = ["oracle: NumPy float64 vector geometry on the defining data (np.cross, np.linalg.solve); 1e-9 relative to the data magnitude"]
    with ctx.timed('regenerate'):
        try:
            g = build(ctx)
        except PathMismatch:
            return
        path = ctx.write_gen(MOD + '.v', g.coq_text())
    rc, out, err, dt = ctx.coqc(path)
    if rc != 0:
        ctx.fail('gen:compile', 'generated traces do not compile: ' + err[-800:], no_input=True)
        return
    for f in ('C19_a', 'C19_b', 'C19_c'):
        ctx.prove(f'theories/Props/{f}.v')
    with ctx.timed('correspond'):
        sym_num(ctx, g, MOD, ctx.n(20, 300))
    with ctx.timed('oracle'):
        oracle(ctx)
    with ctx.timed('forms+histories'):
        forms_and_histories(ctx)


def replay(ctx, path):
    """./check C19 --replay file: re-run exactly the recorded configuration on the implementation
    (oracle findings), or the whole check (broken obligations / correspondence / path findings)."""
    import json
    rec = json.load(open(path))
    key, r = rec.get('key'), rec.get('replay') or {}
    H = lambda k: np.array([float.fromhex(h) for h in r[k]], float)
    O = Oracle(ctx)
    kind = r.get('check')
    if key is None or kind is None:
        from lib.main import generic_replay
        import props.C19 as me
        return generic_replay(ctx, me, path)
    if kind == 'single':
        O.single_line(H('P_hex'), H('Q_hex'), H('x_hex'), [0.0, float(r.get('lam', 1.0))], 1)
    elif kind == 'rigid':
        O.rigid(H('P_hex'), H('Q_hex'), H('T_hex').reshape(4, 4))
    elif kind == 'equality':
        for _ in range(20):
            O.equality(H('P_hex'), H('w_hex'), ctx.rng)
    elif kind == 'pair':
        O.pair(r['position'], H('p1_hex'), H('w1_hex'), H('p2_hex'), H('w2_hex'))
    elif kind == 'plane':
        O.plane(H('p0_hex'), H('n_hex'), H('P_hex'), H('w_hex'), ctx.rng)
    elif kind == 'forms':
        d = {k: (np.array(v, float) if k == 'T' else (int(v) if k == 'lam' else np.array(v, dtype=int))) for k, v in r['data'].items()}
        forms_check(ctx, O, d)
    elif kind == 'history':
        fh = lambda hs: np.array([float.fromhex(h) for h in hs], float)
        ops = [(m, fh(P), fh(Q)) for m, P, Q in r['ops']]
        aux = (H('x_hex'), float.fromhex(r['lam']), Plucker(H('other_hex')), H('T_hex').reshape(4, 4), H('plane_hex'))
        history_check(ctx, O, ops, aux, poison=r.get('poison'))
    hit = [f for f in ctx.findings if f.key == key]
    for f in ctx.findings:
        print(('REPRODUCED ' if f.key == key else 'also: ') + f.key + ': ' + f.what[:300])
    if not hit:
        print('not reproduced: ' + str(key))
    return 1 if hit else 0
