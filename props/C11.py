"""C11 -- interpolation: endpoints, validity, linear translation, constant-rate rotation about a fixed axis.

Model / tie per function (see docs/C11.md):
  base.slerp                hand model Model/C11_Interp.v:slerp       T-num (extracted, OCaml floats) + T-const (AST skeleton, k)
  UnitQuaternion.interp     hand model uq_interp                      T-num + T-const
  base.r2q                  hand model r2q_m (executed only)          T-num through the whole trinterp chain
  base.trinterp             glue traced with slerp/r2q stubbed (T-sym), range check traced concolically,
                            dispatch model trinterp_dyn               T-num on outcome codes and on 4x4 results
  base.trinterp2            traced completely (T-sym)                 Sym==Num
  base.q2r                  traced (T-sym)                            Sym==Num
"""
import ast
import math
import os
import numpy as np
import sympy
from lib import concolic
from lib.core import REPO
from lib.symtrace import Gen, sym_input, coq_expr
from lib.corr import sym_num
from lib.gens import log_uniform, rand_unit, rand_rot, rand_trans, rot_from_axis_angle, angle

concolic.install()
import spatialmath.base as B  # noqa: E402
from spatialmath import base, SE3, SO3, SE2, SO2, UnitQuaternion  # noqa: E402

MOD = 'Traces_C11'
PI = math.pi


# =====================================================================================================
# T-const: thresholds and branch skeletons from the source AST (fail-closed)
# =====================================================================================================
class SkeletonError(Exception):
    pass


def _func(tree, name, cls=None):
    body = tree.body
    if cls:
        for n in body:
            if isinstance(n, ast.ClassDef) and n.name == cls:
                body = n.body
                break
        else:
            raise SkeletonError(f"class {cls} not found")
    for n in body:
        if isinstance(n, ast.FunctionDef) and n.name == name:
            return n
    raise SkeletonError(f"function {name} not found")


def _alpha(fn):
    """rename local (assigned, non-parameter) variables to v0, v1, .. by first store so that renamed locals do not matter"""
    params = {a.arg for a in fn.args.args + fn.args.kwonlyargs}
    order = []
    for n in ast.walk(fn):
        if isinstance(n, ast.Name) and isinstance(n.ctx, ast.Store) and n.id not in params and n.id not in order:
            order.append((n.lineno, n.col_offset, n.id))
    names = []
    for _, _, i in sorted(order):
        if i not in names:
            names.append(i)
    ren = {n: f"v{k}" for k, n in enumerate(names)}

    class R(ast.NodeTransformer):
        def visit_Name(self, node):
            return ast.copy_location(ast.Name(id=ren.get(node.id, node.id), ctx=node.ctx), node)
    return R().visit(ast.parse(ast.unparse(fn)).body[0])


def skeleton(fn):
    """ordered list of the tests of if / elif / assert (source order), locals alpha-renamed"""
    fn = _alpha(fn)
    out = []
    for n in ast.walk(fn):
        if isinstance(n, (ast.If, ast.Assert, ast.IfExp)):
            out.append((n.lineno, n.col_offset, ('assert ' if isinstance(n, ast.Assert) else '') + ast.unparse(n.test)))
    return [t for _, _, t in sorted(out)]


def signature(fn, drop_only_names=None):
    """structure-insensitive fingerprint of a function: (set of normalised guard / comparison atoms, set of numeric constants,
    set of callees).  Normalisation: a local assigned exactly once from parameters / globals / constants is inlined; every other local
    (assigned more than once, augmented, unpacked, a re-assigned parameter, or depending on such a local) becomes `_v`; a conjunction
    (`a and b`, or nested ifs) is split into its conjuncts; a guard that is a bare local is dropped.  Statement layout, local names,
    where a comparison is evaluated and trailing `else:` do not matter.  drop_only_names: atoms whose names are exactly this set are left out
    (with the constants they mention)."""
    params = {a.arg for a in fn.args.args + fn.args.kwonlyargs}
    defs = {}
    for n in ast.walk(fn):
        if isinstance(n, ast.Assign):
            for t in n.targets:
                if isinstance(t, ast.Name):
                    defs.setdefault(t.id, []).append(n.value)
                else:
                    for m in ast.walk(t):
                        if isinstance(m, ast.Name):
                            defs.setdefault(m.id, []).extend([None, None])
        elif isinstance(n, (ast.AugAssign, ast.AnnAssign)):
            for m in ast.walk(n.target):
                if isinstance(m, ast.Name):
                    defs.setdefault(m.id, []).extend([None, None])
        elif isinstance(n, (ast.For, ast.comprehension)):
            for m in ast.walk(n.target):
                if isinstance(m, ast.Name):
                    defs.setdefault(m.id, []).extend([None, None])
        elif isinstance(n, ast.NamedExpr):
            defs.setdefault(n.target.id, []).extend([None, None])
    OPAQUE = '_v'

    def norm(node, stack=()):
        class T(ast.NodeTransformer):
            def visit_Name(self, nd):
                i = nd.id
                if i not in defs:
                    return nd
                if i in params or len(defs[i]) != 1 or defs[i][0] is None or i in stack:
                    return ast.Name(id=OPAQUE, ctx=ast.Load())
                e = norm(defs[i][0], stack + (i,))
                if any(isinstance(m, ast.Name) and m.id == OPAQUE for m in ast.walk(e)):
                    return ast.Name(id=OPAQUE, ctx=ast.Load())
                return e
        return T().visit(ast.parse(ast.unparse(node), mode='eval').body)

    def conjuncts(node):
        if isinstance(node, ast.BoolOp) and isinstance(node.op, ast.And):
            for v in node.values:
                yield from conjuncts(v)
        else:
            yield node

    atoms, dropped_consts = set(), set()
    tests = []
    for n in ast.walk(fn):
        if isinstance(n, (ast.If, ast.While, ast.IfExp)):
            tests.append(('', n.test))
        elif isinstance(n, ast.Assert):
            tests.append(('assert ', n.test))
        elif isinstance(n, ast.Compare):
            tests.append(('', n))
    for pre, t in tests:
        for c in conjuncts(t):
            e = norm(c)
            txt = ast.unparse(e)
            if txt == OPAQUE:
                continue
            names = {m.id for m in ast.walk(e) if isinstance(m, ast.Name)}
            if drop_only_names is not None and names == set(drop_only_names):
                dropped_consts |= {repr(m.value) for m in ast.walk(c) if isinstance(m, ast.Constant) and type(m.value) in (int, float)}
                continue
            atoms.add(pre + txt)
    body = fn.body[1:] if fn.body and isinstance(fn.body[0], ast.Expr) and isinstance(getattr(fn.body[0], 'value', None), ast.Constant) else fn.body
    consts, callees = set(), set()
    for st in body:
        for m in ast.walk(st):
            if isinstance(m, ast.Constant) and type(m.value) in (int, float):
                consts.add(repr(m.value))
            elif isinstance(m, ast.Call):
                f = m.func
                root = f
                while isinstance(root, ast.Attribute):
                    root = root.value
                txt = ast.unparse(f)
                if isinstance(root, ast.Name) and root.id in defs and root.id not in params:
                    txt = OPAQUE + txt[len(root.id):]
                callees.add(txt)
    return sorted(atoms), sorted(consts), sorted(callees), sorted(dropped_consts)


def default_of(fn, par):
    args = fn.args.args
    defs = fn.args.defaults
    for a, d in zip(args[len(args) - len(defs):], defs):
        if a.arg == par:
            return ast.literal_eval(d)
    raise SkeletonError(f"{fn.name}: no default for {par}")


EXPECTED = {
    'slerp': ['not 0 <= s <= 1', 's == 0', 's == 1', 'shortest', 'v0 < 0', 'abs(v1) > K * _eps'],
    'unit': ['abs(v0) < tol * _eps'],
    'r2q': ['not base.isrot(R, check=check, tol=tol)', 'np.trace(R) > 0', 'R[0, 0] >= R[1, 1] and R[0, 0] >= R[2, 2]', 'R[1, 1] >= R[2, 2]',
            'v9', 'abs(v11) < tol * _eps'],
    'trinterp': ['base.ismatrix(end, (3, 3))', 'start is None', 'base.ismatrix(end, (4, 4))', 'start is None'],
    'interp': ['not base.isscalar(s)', 'len(s) > 1', 'assert len(self) == 1', 'len(self) > 1', 'dest is not None', 'assert isinstance(dest, UnitQuaternion)',
               's == 0', 's == 1', 's == 0', 's == 1', 'assert 0 <= s <= 1', 'shortest', 'v4 < 0', 'v5 == 0'],
}


EXPECTED_SIG = {
    'slerp': (['0 <= s <= 1', '_v < 0', 'abs(_v) > K * _eps', 'not 0 <= s <= 1', 's == 0', 's == 1', 'shortest'], ['0', '1', '4'],
              ['ValueError', 'abs', 'base.getvector', 'math.acos', 'math.sin', 'np.clip', 'np.dot']),
    'unit': (['abs(_v) < tol * _eps'], ['4'], ['ValueError', 'abs', 'base.getvector', 'np.linalg.norm']),
    'r2q': (['R[0, 0] >= R[1, 1]', 'R[0, 0] >= R[2, 2]', 'R[1, 1] >= R[2, 2]', '_v >= 0', 'abs(_v) < tol * _eps', 'not base.isrot(R, check=check, tol=tol)',
             'np.trace(R) > 0'],
            ['0', '1', '1.0', '2', '2.0', '4.0'], ['ValueError', 'abs', 'base.isrot', 'eye', 'math.sqrt', 'max', 'np.dot', 'np.linalg.norm', 'np.trace']),
    # isunitvec since fix b29003f: the norm is taken of _asdouble(v), a wrapper that promotes float16/float32 arrays to float64 and returns every
    # other argument (float64 arrays, lists, object arrays) unchanged: for the float64 values the model is about it is the identity.  The wrapper is
    # recorded as a callee here and has its own recorded signature below, so a change of either is noticed.
    'isunitvec': (['abs(np.linalg.norm(_asdouble(v)) - 1) < tol * _eps'], ['1'], ['_asdouble', 'abs', 'np.linalg.norm']),
    '_asdouble': (['isinstance(v, np.ndarray)', 'v.dtype.itemsize < 8', "v.dtype.kind == 'f'"], ['8'], ['isinstance', 'v.astype']),
    # trinterp: its own range test on s (and the constants in it) is executed concolically (pc_trinterp_*), not fixed here: slerp checks the range too
    'trinterp': (['base.ismatrix(end, (3, 3))', 'base.ismatrix(end, (4, 4))', 'start is None'], None,
                 ['ValueError', 'base.eye', 'base.ismatrix', 'base.q2r', 'base.r2q', 'base.rt2tr', 'base.slerp', 'base.t2r', 'transl']),
    # UnitQuaternion.interp since fixes 51bc88a / 7443e8d: in front of the scalar path (which is what the model covers) a dispatch on the form of s
    # (sequence of length > 1: one quaternion required, comprehension over the scalar path; length 1: one coefficient) and on len(self) > 1
    # (each value interpolated); these forms are verified by the oracle element by element.  s is re-assigned there, so it appears as `_v`.
    'interp': (['0 <= _v <= 1', '_v < 0', '_v == 0', '_v == 1', 'assert 0 <= _v <= 1', 'assert isinstance(dest, UnitQuaternion)', 'assert len(self) == 1',
                'dest is not None', 'len(_v) > 1', 'len(self) == 1', 'len(self) > 1', 'not base.isscalar(_v)', 'shortest'], ['0', '1'],
               ['UnitQuaternion', '_v.interp', 'base.eye', 'base.getvector', 'base.inner', 'base.isscalar', 'float', 'isinstance', 'len', 'math.acos', 'math.cos',
                'math.sin', 'np.clip', 'self.interp']),
}
EXPECTED['isunitvec'] = []
EXPECTED['_asdouble'] = ["isinstance(v, np.ndarray) and v.dtype.kind == 'f' and (v.dtype.itemsize < 8)"]
EXPECTED_SIG_ALT, EXPECTED_ALT = {}, {}


TSOFT = [('spatialmath/base/quaternions.py', 'slerp'), ('spatialmath/base/quaternions.py', 'unit'), ('spatialmath/base/quaternions.py', 'r2q'),
         ('spatialmath/base/vectors.py', 'isunitvec'), ('spatialmath/base/vectors.py', '_asdouble'), ('spatialmath/base/transforms3d.py', 'trinterp'),
         ('spatialmath/quaternion.py', 'UnitQuaternion.interp')]
_TSOFT_STOP = {'slerp', 'unit', 'r2q', 'isunitvec', 'trinterp', 'UnitQuaternion.interp', 'interp'}


def _tsoft_same(name, cls=None):
    """structure changed: are the numeric thresholds of the function and its helper closure still the recorded ones?"""
    from lib import tsoft
    qual = (cls + '.' if cls else '') + name
    for rel, q in TSOFT:
        if q == qual:
            return tsoft.same_thresholds(REPO, 'C11', rel, q, _TSOFT_STOP - {q})[0]
    return False


def _tsoft_slerp_k():
    import re
    from lib import tsoft
    ok, found, base = tsoft.same_thresholds(REPO, 'C11', 'spatialmath/base/quaternions.py', 'slerp', _TSOFT_STOP - {'slerp'})
    if not ok:
        return None
    ks = [re.fullmatch(r'cmp Gt (\d+)\*eps', t) for t in found]
    ks = [m for m in ks if m]
    return int(ks[0].group(1)) if len(ks) == 1 else None


def consts_from_ast(ctx):
    """returns (constants, layout_notes).  Fail-closed (SkeletonError) when the structure signature of a modelled function -- its
    normalised guards / comparisons, numeric constants and callees -- is not the recorded one; a function whose signature is unchanged but
    whose statement layout (ordered if/assert tests) differs is only noted: the caller escalates the numeric correspondence."""
    import re
    src = lambda rel: ast.parse(open(os.path.join(REPO, rel)).read())
    qt = src('spatialmath/base/quaternions.py')
    t3 = src('spatialmath/base/transforms3d.py')
    qc = src('spatialmath/quaternion.py')
    vt = src('spatialmath/base/vectors.py')
    res, notes = {}, []
    for name, tree, cls in (('slerp', qt, None), ('unit', qt, None), ('r2q', qt, None), ('isunitvec', vt, None), ('_asdouble', vt, None), ('trinterp', t3, None),
                            ('interp', qc, 'UnitQuaternion')):
        fn = _func(tree, name, cls)
        atoms, consts, callees, _ = signature(fn, ['s'] if name == 'trinterp' else None)
        if name == 'slerp':
            ks = [re.fullmatch(r'abs\(_v\) > (\d+) \* _eps', a) for a in atoms]
            ks = [m for m in ks if m]
            if len(ks) != 1:
                k_soft = _tsoft_slerp_k()
                if k_soft is not None:
                    res['slerp_k'] = k_soft
                    notes.append(f"slerp: restructured (no single test of the form `abs(theta) > k * _eps` in slerp itself) but the threshold multiset of "
                                 f"slerp + its helpers is the recorded one (k = {k_soft}); numeric correspondence escalated")
                    continue
                raise SkeletonError(f"slerp: no (single) small-angle test of the form `abs(theta) > k * _eps`: {atoms}")
            k = ks[0].group(1)
            res['slerp_k'] = int(k)
            atoms = sorted('abs(_v) > K * _eps' if a == ks[0].group(0) else a for a in atoms)
            consts = [c for c in consts if c != k]
        want = EXPECTED_SIG[name]
        got = (atoms, consts if want[1] is not None else None, callees)
        alt = got == EXPECTED_SIG_ALT.get(name)
        if got != want and not alt and _tsoft_same(name, cls):
            notes.append(f"{name}: structure signature differs from the recorded one, but the numeric thresholds of {name} and of the same-module helpers it "
                         f"calls are exactly the recorded ones (lib/tsoft.py); the hand model keeps its constants, numeric correspondence escalated")
            continue
        if got != want and not alt:
            diff = [f"{lab}: +{sorted(set(g) - set(w))} -{sorted(set(w) - set(g))}" for lab, g, w in
                    zip(('guards', 'constants', 'callees'), got, want) if g != w and g is not None]
            raise SkeletonError(f"{name}: structure signature changed ({'; '.join(diff)})")
        # layout fingerprint (not a verdict)
        sk = skeleton(fn)
        if name == 'slerp':
            sk = [re.sub(r'(abs\(v\d+\) > )\d+( \* _eps)', r'\1K\2', t) for t in sk]
            sk = [re.sub(r'abs\(v\d+\)', 'abs(v1)', t) if 'K * _eps' in t else t for t in sk]
        if name == 'trinterp':
            sk = [t for t in sk if {n.id for n in ast.walk(ast.parse(t)) if isinstance(n, ast.Name)} != {'s'}]
        if sk != EXPECTED[name] and not (alt and sk == EXPECTED_ALT.get(name)):
            notes.append(f"{name}: same structure signature, different statement layout ({sk}); numeric correspondence escalated")
    res['unit_k'] = int(default_of(_func(qt, 'unit'), 'tol'))
    res['r2q_k'] = int(default_of(_func(qt, 'r2q'), 'tol'))
    res['isunitvec_k'] = int(default_of(_func(vt, 'isunitvec'), 'tol'))
    if default_of(_func(qt, 'slerp'), 'shortest') is not False or default_of(_func(qc, 'interp', 'UnitQuaternion'), 'shortest') is not False:
        raise SkeletonError("default of `shortest` is no longer False")
    return res, notes


# =====================================================================================================
# T-sym: traces (the library itself executed on symbols)
# =====================================================================================================
def setval(inputs, vals):
    concolic.VAL.clear()
    for (an, sh), v in zip(inputs, vals):
        _, syms = sym_input(an, sh)
        for s_, x in zip(syms, np.asarray(v, float).flatten()):
            concolic.VAL[s_] = float(x)


class Stub:
    """harness-process stub of base.slerp / base.r2q (nothing in /repo is touched): trinterp is traced with the two
    kernels opaque, the calls it makes are recorded.  Numeric runs use the same stub (qr handed in)."""
    def __init__(self, qr, calls):
        self.qr, self.calls = qr, calls

    def __enter__(self):
        self.saved = (B.slerp, B.r2q)
        calls = self.calls

        def r2q(R, *a, **k):
            R = np.asarray(R)
            calls.append(('r2q', R.shape, a, dict(k)))
            n = sum(1 for c in calls if c[0] == 'r2q')
            if R.dtype == object:
                return np.array(sympy.symbols(f'rq{n}_0:4', real=True), dtype=object)
            return np.array([1.0, 0, 0, 0])

        def slerp(q0, q1, s, *a, **k):
            calls.append(('slerp', [str(x) for x in np.asarray(q0).flatten()], [str(x) for x in np.asarray(q1).flatten()], str(s), a, dict(k)))
            return self.qr
        B.slerp, B.r2q = slerp, r2q

    def __exit__(self, *a):
        B.slerp, B.r2q = self.saved


def glue(A, Bm, s, qr, calls=None):
    with Stub(qr, [] if calls is None else calls), concolic.object_alloc():
        return base.trinterp(A, Bm, s)


def glue_num(A, Bm, s, qr):
    with Stub(np.asarray(qr, float), []):
        return base.trinterp(A, Bm, s)


def rel_to_bool(rel, truth):
    """sympy relational (as decided) -> Gallina bool over the generic ops"""
    ops = {'>=': lambda l, r: f"leb O {r} {l}", '<=': lambda l, r: f"leb O {l} {r}",
           '>': lambda l, r: f"ltb O {r} {l}", '<': lambda l, r: f"ltb O {l} {r}"}
    if rel.rel_op not in ops:
        raise SkeletonError(f"unsupported relational {rel}")
    t = "(" + ops[rel.rel_op](coq_expr(rel.lhs), coq_expr(rel.rhs)) + ")"
    return t if truth else f"(negb {t})"


def trace_range_paths(ctx, info):
    """concolic runs of trinterp's range check at s inside, below, above [0,1]; returns Gallina text"""
    inp = [('A', 'M44'), ('B', 'M44'), ('s', 'S'), ('qr', 'V4')]
    out = []
    T0, T1 = base.trotx(0.3, t=[1, 2, 3]), base.troty(0.7, t=[3, 4, 5])
    for tag, sval in (('in', 0.25), ('lo', -0.25), ('hi', 1.25), ('at0', 0.0), ('at1', 1.0)):
        setval(inp, [T0, T1, sval, [1, 0, 0, 0]])
        concolic.PATH.clear()
        vals = [sym_input(an, sh)[0] for an, sh in inp]
        try:
            glue(*vals)
            outcome = 'ok'
        except Exception as ex:  # noqa
            outcome = type(ex).__name__
        path = [(r, v) for r, v in concolic.PATH]
        if any(r.free_symbols - {sympy.Symbol('s', real=True)} for r, _ in path):
            raise SkeletonError(f"trinterp: path condition mentions more than s: {path}")
        conj = " && ".join(rel_to_bool(r, v) for r, v in path) or "true"
        out.append((tag, outcome, conj))
        info[f'trinterp_path_{tag}'] = f"{outcome}: {[(str(r), v) for r, v in path]}"
    return out


def build(ctx, consts, info):
    g = Gen('C11')
    g.trace('tr_q2r', [('q', 'V4')], base.q2r)
    # ---- trinterp: SE(3) glue with slerp / r2q opaque
    inp = [('A', 'M44'), ('B', 'M44'), ('s', 'S'), ('qr', 'V4')]
    T0, T1 = base.trotx(0.3, t=[1, 2, 3]), base.troty(0.7, t=[3, 4, 5])
    s01 = lambda rng: float(rng.uniform(0, 1))
    samp2 = lambda rng: [rand_se3q(rng), rand_se3q(rng), s01(rng), rand_unit(rng, 4)]
    samp1 = lambda rng: [rand_se3q(rng), s01(rng), rand_unit(rng, 4)]
    calls2, calls1 = [], []
    setval(inp, [T0, T1, 0.4, [1, 0, 0, 0]])
    g.trace('tr_trinterp_glue', inp, lambda A, Bm, s, qr: glue(A, Bm, s, qr, calls2), num_fn=glue_num, sampler=samp2)
    setval(inp[1:], [T1, 0.4, [1, 0, 0, 0]])
    g.trace('tr_trinterp_glue1', inp[1:], lambda Bm, s, qr: glue(None, Bm, s, qr, calls1),
            num_fn=lambda Bm, s, qr: glue_num(None, Bm, s, qr), sampler=samp1)
    # the calls trinterp makes (fail-closed on anything else): r2q on the two leading 3x3 blocks, slerp(q0, q1, s[, shortest])
    def check_calls(calls, two):
        exp_r2q = 2 if two else 1
        r = [c for c in calls if c[0] == 'r2q']
        sl = [c for c in calls if c[0] == 'slerp']
        if len(r) != exp_r2q or len(sl) != 1 or any(c[1] != (3, 3) or c[2] or c[3] for c in r):
            raise SkeletonError(f"trinterp SE(3) case no longer calls r2q on the 3x3 blocks / slerp once: {calls}")
        _, q0, q1, s, a, k = sl[0]
        want0 = [f'rq1_{i}' for i in range(4)] if two else ['1', '0', '0', '0']
        want1 = [f'rq{2 if two else 1}_{i}' for i in range(4)]
        q0n = [x.replace('.0', '') if x in ('1.0', '0.0') else x for x in q0]
        if q0n != want0 or q1 != want1 or s != 's':
            raise SkeletonError(f"trinterp hands other arguments to slerp: {sl[0]}")
        sh = bool(a[0]) if a else bool(k.get('shortest', False))
        if len(a) > 1 or set(k) - {'shortest'}:
            raise SkeletonError(f"trinterp hands unknown options to slerp: {sl[0]}")
        return sh
    sh2, sh1 = check_calls(calls2, True), check_calls(calls1, False)
    if sh1 != sh2:
        raise SkeletonError("trinterp uses different `shortest` with and without start")
    consts['trinterp_shortest'] = sh2
    # ---- trinterp2 traced completely
    i2 = [('A', 'M33'), ('B', 'M33'), ('s', 'S')]
    with concolic.object_alloc():
        g.trace('tr_trinterp2_se2', i2, lambda A, Bm, s: base.trinterp2(A, Bm, s), sampler=lambda rng: [rand_se2a(rng), rand_se2a(rng), s01(rng)])
        g.trace('tr_trinterp2_se2_1', i2[1:], lambda Bm, s: base.trinterp2(None, Bm, s), sampler=lambda rng: [rand_se2a(rng), s01(rng)])
        j2 = [('A', 'M22'), ('B', 'M22'), ('s', 'S')]
        g.trace('tr_trinterp2_so2', j2, lambda A, Bm, s: base.trinterp2(A, Bm, s),
                sampler=lambda rng: [rand_se2a(rng)[:2, :2], rand_se2a(rng)[:2, :2], s01(rng)])
        g.trace('tr_trinterp2_so2_1', j2[1:], lambda Bm, s: base.trinterp2(None, Bm, s), sampler=lambda rng: [rand_se2a(rng)[:2, :2], s01(rng)])
    # ---- hand models, T-num
    K = dict(module=None)
    q4 = [('p', 'V4'), ('q', 'V4'), ('s', 'S')]
    for sh in (False, True):
        tag = 'short' if sh else 'long'
        g.model(f'm_slerp_{tag}', q4, 'O:V4', coq=f'm_slerp_{tag}', num_fn=(lambda sh: lambda p, q, s: base.slerp(p, q, s, shortest=sh))(sh),
                sampler=(lambda sh: lambda rng: quat_case(rng, sh))(sh), tol=1e-10, **K)
        g.model(f'm_slerp_{tag}_code', q4, 'S', coq=f'm_slerp_{tag}_code', num_fn=(lambda sh: lambda p, q, s: code_of(lambda: base.slerp(p, q, s, shortest=sh)))(sh),
                sampler=(lambda sh: lambda rng: uq_case(rng, sh))(sh), tol=1e-10, **K)
        g.model(f'm_uq_{tag}', q4, 'O:V4', coq=f'm_uq_{tag}',
                num_fn=(lambda sh: lambda p, q, s: UnitQuaternion(p, norm=False, check=False).interp(s, dest=UnitQuaternion(q, norm=False, check=False), shortest=sh).vec)(sh),
                sampler=(lambda sh: lambda rng: uq_case(rng, sh))(sh), tol=1e-10, **K)
        g.model(f'm_uq_{tag}_code', q4, 'S', coq=f'm_uq_{tag}_code',
                num_fn=(lambda sh: lambda p, q, s: code_of(lambda: UnitQuaternion(p, norm=False, check=False).interp(s, dest=UnitQuaternion(q, norm=False, check=False), shortest=sh)))(sh),
                sampler=(lambda sh: lambda rng: uq_case(rng, sh))(sh), tol=1e-10, **K)
        g.model(f'm_uq1_{tag}', q4[1:], 'O:V4', coq=f'm_uq1_{tag}',
                num_fn=(lambda sh: lambda q, s: UnitQuaternion(q, norm=False, check=False).interp(s, shortest=sh).vec)(sh),
                sampler=(lambda sh: lambda rng: uq_case(rng, sh, from_identity=True)[1:])(sh), tol=1e-10, **K)
    g.model('m_trinterp', [('A', 'M44'), ('B', 'M44'), ('s', 'S')], 'O:M44', coq='m_trinterp', num_fn=lambda A, Bm, s: mat_or_raise(base.trinterp(A, Bm, s)),
            sampler=lambda rng: se3_case(rng), tol=1e-9, **K)
    g.model('m_trinterp1', [('B', 'M44'), ('s', 'S')], 'O:M44', coq='m_trinterp1', num_fn=lambda Bm, s: mat_or_raise(base.trinterp(None, Bm, s)),
            sampler=lambda rng: se3_case(rng, from_identity=True)[1:], tol=1e-9, **K)
    so3_of = lambda c: [c[0][:3, :3], c[1][:3, :3], c[2]]
    g.model('m_trinterp_so3', [('A', 'M33'), ('B', 'M33'), ('s', 'S')], 'O:M33', coq='m_trinterp_so3', num_fn=lambda A, Bm, s: mat_or_raise(base.trinterp(A, Bm, s)),
            sampler=lambda rng: so3_of(se3_case(rng)), tol=1e-9, **K)
    g.model('m_trinterp_so3_1', [('B', 'M33'), ('s', 'S')], 'O:M33', coq='m_trinterp_so3_1', num_fn=lambda Bm, s: mat_or_raise(base.trinterp(None, Bm, s)),
            sampler=lambda rng: so3_of(se3_case(rng, from_identity=True))[1:], tol=1e-9, **K)
    g.model('m_code_44_33', [('A', 'M44'), ('B', 'M33'), ('s', 'S')], 'S', coq='m_code_44_33', num_fn=lambda A, Bm, s: code_of(lambda: base.trinterp(A, Bm, s)),
            sampler=lambda rng: [se3_case(rng)[0], rand_rot(rng, rng.uniform(0.1, 3.0)), float(rng.choice([0.0, 1.0, 0.5, -0.25, 1.25]))], **K)
    # outcome codes of the shape dispatch
    sany = lambda rng: float(rng.choice([0.0, 1.0, 0.5, -0.25, 1.25, rng.uniform(0, 1)]))
    r3 = lambda rng: rand_rot(rng, rng.uniform(0.1, 3.0))
    t4 = lambda rng: se3_case(rng)[0]
    g.model('m_code_33', [('B', 'M33'), ('s', 'S')], 'S', coq='m_code_33', num_fn=lambda Bm, s: code_of(lambda: base.trinterp(None, Bm, s)),
            sampler=lambda rng: [r3(rng), sany(rng)], **K)
    g.model('m_code_33_33', [('A', 'M33'), ('B', 'M33'), ('s', 'S')], 'S', coq='m_code_33_33', num_fn=lambda A, Bm, s: code_of(lambda: base.trinterp(A, Bm, s)),
            sampler=lambda rng: [r3(rng), r3(rng), sany(rng)], **K)
    g.model('m_code_44', [('B', 'M44'), ('s', 'S')], 'S', coq='m_code_44', num_fn=lambda Bm, s: code_of(lambda: base.trinterp(None, Bm, s)),
            sampler=lambda rng: [t4(rng), sany(rng)], **K)
    g.model('m_code_44_44', [('A', 'M44'), ('B', 'M44'), ('s', 'S')], 'S', coq='m_code_44_44', num_fn=lambda A, Bm, s: code_of(lambda: base.trinterp(A, Bm, s)),
            sampler=lambda rng: [t4(rng), t4(rng), sany(rng)], **K)
    g.model('m_code_33_44', [('A', 'M33'), ('B', 'M44'), ('s', 'S')], 'S', coq='m_code_33_44', num_fn=lambda A, Bm, s: code_of(lambda: base.trinterp(A, Bm, s)),
            sampler=lambda rng: [r3(rng), t4(rng), sany(rng)], **K)
    g.model('m_code_22', [('B', 'M22'), ('s', 'S')], 'S', coq='m_code_22', num_fn=lambda Bm, s: code_of(lambda: base.trinterp(None, Bm, s)),
            sampler=lambda rng: [np.eye(2), sany(rng)], **K)
    g.model('m_code_other', [('s', 'S')], 'S', coq='m_code_other', num_fn=lambda s: code_of(lambda: base.trinterp(None, np.eye(5), s)),
            sampler=lambda rng: [sany(rng)], **K)
    return g


def code_of(thunk):
    """outcome code of a library call, the encoding of Model/C11_Interp.v:outcome_code / res_code"""
    try:
        r = thunk()
    except ValueError:
        return 2.0
    except AssertionError:
        return 6.0
    except TypeError:
        return 7.0
    except IndexError:
        return 8.0
    except Exception:  # noqa
        return 9.0
    if isinstance(r, BaseException):
        return 4.0
    if isinstance(r, np.ndarray) and r.shape == (4, 4):
        return 1.0
    if isinstance(r, np.ndarray) and r.shape not in ((3, 3), (4,)):
        return 5.0
    return 0.0


def mat_or_raise(r):
    if not isinstance(r, np.ndarray):
        raise ValueError('not a matrix')
    return r


WRAP = """
(* ---- wrappers of the hand models with the regenerated constants plugged in (used by the float correspondence run
        and by Props/C11.v) *)
From SM Require Import Base.Lin Model.C11_Interp.
From SMgen Require Import Consts_C11.
Section Wrap.
Context {T : Type} (O : ops T).
Local Infix "+" := (add O). Local Infix "-" := (sub O). Local Infix "*" := (mul O). Local Infix "/" := (div O).
Definition kS : T := of_Z O slerp_k.
Definition kU : T := of_Z O unit_k.
Definition kR : T := of_Z O r2q_k.
Definition kV : T := of_Z O isunitvec_k.
Definition m_slerp_long (p q : V4 T) (s : T) := optres (slerp O kS p q s false).
Definition m_slerp_short (p q : V4 T) (s : T) := optres (slerp O kS p q s true).
Definition m_slerp_long_code (p q : V4 T) (s : T) := res_code O (slerp O kS p q s false).
Definition m_slerp_short_code (p q : V4 T) (s : T) := res_code O (slerp O kS p q s true).
Definition m_uq_long (p q : V4 T) (s : T) := optres (uq_interp O kU kV p q s false).
Definition m_uq_short (p q : V4 T) (s : T) := optres (uq_interp O kU kV p q s true).
Definition m_uq_long_code (p q : V4 T) (s : T) := res_code O (uq_interp O kU kV p q s false).
Definition m_uq_short_code (p q : V4 T) (s : T) := res_code O (uq_interp O kU kV p q s true).
Definition m_uq1_long (q : V4 T) (s : T) := optres (uq_interp O kU kV (qone O) q s false).
Definition m_uq1_short (q : V4 T) (s : T) := optres (uq_interp O kU kV (qone O) q s true).
Definition dyn (start : option (mat (T:=T))) (e : mat (T:=T)) (s : T) := trinterp_dyn O kS kR trinterp_shortest start e s.
Definition m44_of (r : res (mat (T:=T))) : option (M44 T) := match r with Ok (Mat44 m) => Some m | _ => None end.
Definition m33_of (r : res (mat (T:=T))) : option (M33 T) := match r with Ok (Mat33 m) => Some m | _ => None end.
Definition m_trinterp_so3 (A B : M33 T) (s : T) := m33_of (dyn (Some (Mat33 A)) (Mat33 B) s).
Definition m_trinterp_so3_1 (B : M33 T) (s : T) := m33_of (dyn None (Mat33 B) s).
Definition m_trinterp (A B : M44 T) (s : T) := m44_of (dyn (Some (Mat44 A)) (Mat44 B) s).
Definition m_trinterp1 (B : M44 T) (s : T) := m44_of (dyn None (Mat44 B) s).
Definition m_code_33 (B : M33 T) (s : T) := outcome_code O (dyn None (Mat33 B) s).
Definition m_code_33_33 (A B : M33 T) (s : T) := outcome_code O (dyn (Some (Mat33 A)) (Mat33 B) s).
Definition m_code_44 (B : M44 T) (s : T) := outcome_code O (dyn None (Mat44 B) s).
Definition m_code_44_44 (A B : M44 T) (s : T) := outcome_code O (dyn (Some (Mat44 A)) (Mat44 B) s).
Definition m_code_33_44 (A : M33 T) (B : M44 T) (s : T) := outcome_code O (dyn (Some (Mat33 A)) (Mat44 B) s).
Definition m_code_44_33 (A : M44 T) (B : M33 T) (s : T) := outcome_code O (dyn (Some (Mat44 A)) (Mat33 B) s).
Definition m_code_22 (B : M22 T) (s : T) := outcome_code O (dyn None (Mat22 B) s).
Definition m_code_other (s : T) := outcome_code O (dyn None MatOther s).
(* ---- the range check of trinterp as executed (concolic runs at s inside / below / above / at the ends of [0,1]) *)
@PATHS@
End Wrap.
"""


def emit(ctx, g, consts, paths):
    ctext = ("(* GENERATED on every run by /verif/props/C11.py from the AST of /repo's working tree and from the calls\n"
             "   trinterp was observed to make -- do not edit *)\nFrom Coq Require Import ZArith.\n"
             f"Definition slerp_k : Z := {consts['slerp_k']}%Z.\nDefinition unit_k : Z := {consts['unit_k']}%Z.\n"
             f"Definition r2q_k : Z := {consts['r2q_k']}%Z.\nDefinition isunitvec_k : Z := {consts['isunitvec_k']}%Z.\n"
             f"Definition trinterp_shortest : bool := {'true' if consts['trinterp_shortest'] else 'false'}.\n")
    pt = ""
    for tag, outcome, conj in paths:
        pt += f"Definition pc_trinterp_{tag} (s : T) : bool := {conj}.\n"
        pt += f"Definition out_trinterp_{tag} : option exn := {'None' if outcome == 'ok' else 'Some ' + outcome}.\n"
    text = g.coq_text() + WRAP.replace('@PATHS@', pt)
    return ctext, text


# =====================================================================================================
# generators
# =====================================================================================================
def qmul(p, q):
    s1, v1, s2, v2 = p[0], p[1:], q[0], q[1:]
    return np.r_[s1 * s2 - v1 @ v2, s1 * v2 + s2 * v1 + np.cross(v1, v2)]


def q2r_ref(q):
    s, x, y, z = q
    return np.array([[1 - 2 * (y * y + z * z), 2 * (x * y - s * z), 2 * (x * z + s * y)],
                     [2 * (x * y + s * z), 1 - 2 * (x * x + z * z), 2 * (y * z - s * x)],
                     [2 * (x * z - s * y), 2 * (y * z + s * x), 1 - 2 * (x * x + y * y)]])


def r2q_ref(R):
    """independent robust matrix -> quaternion (Shepperd), scalar part >= 0"""
    t = np.trace(R)
    c = [t, R[0, 0], R[1, 1], R[2, 2]]
    k = int(np.argmax(c))
    if k == 0:
        q = np.r_[1 + t, R[2, 1] - R[1, 2], R[0, 2] - R[2, 0], R[1, 0] - R[0, 1]]
    elif k == 1:
        q = np.r_[R[2, 1] - R[1, 2], 1 + 2 * R[0, 0] - t, R[0, 1] + R[1, 0], R[0, 2] + R[2, 0]]
    elif k == 2:
        q = np.r_[R[0, 2] - R[2, 0], R[0, 1] + R[1, 0], 1 + 2 * R[1, 1] - t, R[1, 2] + R[2, 1]]
    else:
        q = np.r_[R[1, 0] - R[0, 1], R[0, 2] + R[2, 0], R[1, 2] + R[2, 1], 1 + 2 * R[2, 2] - t]
    q = q / np.linalg.norm(q)
    return -q if q[0] < 0 else q


def s_value(rng):
    r = rng.random()
    if r < 0.08:
        return 0.0
    if r < 0.16:
        return 1.0
    if r < 0.22:
        return 1e-12
    if r < 0.28:
        return 1 - 1e-12
    if r < 0.32:
        return float(rng.choice([-1e-9, 1 + 1e-9, -0.5, 1.5, -1e-300, 1 + 2.3e-16]))
    if r < 0.36:
        return float(rng.choice([5e-324, 1 - 1.2e-16, 0.5]))
    return float(rng.uniform(0, 1))


def quat_pair(rng, theta):
    """unit q0 and q1 at quaternion angle theta (q0.q1 = cos theta)"""
    q0 = rand_unit(rng, 4)
    w = rng.normal(size=4)
    w -= q0 * (w @ q0)
    w /= np.linalg.norm(w)
    return q0, math.cos(theta) * q0 + math.sin(theta) * w


def quat_case(rng, shortest, from_identity=False):
    """correspondence inputs for slerp / UnitQuaternion.interp: quaternion angle 0, [1e-13,1e-11], [1e-6, pi/2], and long arcs up to
    pi - 1e-2 (the band (1e-11, 1e-6) and gaps < 1e-2 are left to the oracle: there a one-ulp difference in the BLAS dot product
    moves the result by more than the comparison tolerance 1e-10)"""
    r = rng.random()
    if r < 0.08:
        th = 0.0
    elif r < 0.2:
        th = log_uniform(rng, 1e-13, 1e-11)
    elif r < 0.55:
        th = log_uniform(rng, 1e-6, PI / 2)
    elif r < 0.7:
        th = rng.uniform(0, PI / 2)
    else:
        th = PI - log_uniform(rng, 1e-2, PI / 2)
    if from_identity:
        u = rand_unit(rng)
        q0, q1 = np.array([1.0, 0, 0, 0]), np.r_[math.cos(th), math.sin(th) * u]
    else:
        q0, q1 = quat_pair(rng, th)
    if th == 0.0:
        q1 = q0.copy()
    if shortest and rng.random() < 0.3 and th <= PI / 2:
        q1 = -q1  # same arc after the flip
    return [q0, q1, s_value(rng)]


def uq_out_norm_err(p, q, s, shortest, dd=0.0):
    """|norm - 1| of the un-normalised combination UnitQuaternion.interp hands to the constructor (replicated), in units of eps"""
    q1, q2 = p / np.linalg.norm(p), q / np.linalg.norm(q)
    d = float(q1 @ q2)
    if shortest and d < 0:
        q1, d = -q1, -d
    d = min(1.0, max(-1.0, d + dd))
    t0 = math.acos(d)
    if t0 == 0 or not 0 < s < 1:
        return 0.0
    t = t0 * s
    out = q1 * (math.cos(t) - d * math.sin(t) / math.sin(t0)) + q2 * (math.sin(t) / math.sin(t0))
    return abs(np.linalg.norm(out) - 1) / 2.220446049250313e-16


def uq_case(rng, shortest, from_identity=False):
    """since fix d0fc1b2 both constructor paths normalise the blend, so no outcome hinges on the last bit any more: same inputs as slerp"""
    return quat_case(rng, shortest, from_identity)


def rot_regime(rng):
    r = rng.random()
    if r < 0.1:
        return np.eye(3)
    if r < 0.2:
        return rot_from_axis_angle(rand_unit(rng), PI)
    if r < 0.35:
        return rot_from_axis_angle(rand_unit(rng), log_uniform(rng, 1e-9, 1e-1))
    if r < 0.45:
        return rot_from_axis_angle(rand_unit(rng), PI - log_uniform(rng, 1e-9, 1e-1))
    return rot_from_axis_angle(rand_unit(rng), rng.uniform(0, PI))


def rand_se3q(rng):
    T = np.eye(4)
    T[:3, :3] = rot_regime(rng)
    T[:3, 3] = rand_trans(rng, 1e-3, 1e3)
    return T


def rand_se2a(rng):
    th = rng.uniform(-3.0, 3.0)
    T = np.eye(3)
    T[:2, :2] = [[math.cos(th), -math.sin(th)], [math.sin(th), math.cos(th)]]
    T[:2, 2] = rand_trans(rng, 1e-3, 1e3, 2)
    return T


def rel_angle_regime(rng, lo_gap=1e-6):
    """relative rotation angle: 0 excluded; 1e-12 .. pi - 1e-6"""
    r = rng.random()
    if r < 0.25:
        return log_uniform(rng, 1e-12, 1e-3)
    if r < 0.45:
        return PI - log_uniform(rng, lo_gap, 1e-1)
    if r < 0.6:
        return log_uniform(rng, 1e-3, 1.0)
    return rng.uniform(0.0, PI - lo_gap)


def se3_case(rng, from_identity=False):
    """correspondence inputs for the whole trinterp chain: relative angle 0, [1e-13,1e-11], [1e-6, pi-1e-6] (trinterp takes the shorter
    arc since fix 1310ef1, so opposite canonical quaternions are as well conditioned as any other pair)"""
    for _ in range(100):
        R0 = np.eye(3) if from_identity else rot_regime(rng)
        r = rng.random()
        phi = 0.0 if r < 0.08 else (log_uniform(rng, 1e-13, 1e-11) if r < 0.2 else rel_angle_regime(rng) if r < 0.8 else rng.uniform(1e-6, PI - 1e-6))
        if phi < 1e-6 and phi > 1e-11:
            continue
        R1 = R0 @ rot_from_axis_angle(rand_unit(rng), phi) if phi else R0.copy()
        T0, T1 = np.eye(4), np.eye(4)
        T0[:3, :3], T1[:3, :3] = R0, R1
        T0[:3, 3], T1[:3, 3] = rand_trans(rng, 1e-3, 1e3), rand_trans(rng, 1e-3, 1e3)
        return [T0, T1, s_value(rng)]
    raise RuntimeError('se3_case: no admissible sample')


def regenerate(ctx):
    info = {}
    consts, layout_notes = consts_from_ast(ctx)
    info['layout_notes'] = layout_notes
    g = build(ctx, consts, info)
    paths = trace_range_paths(ctx, info)
    ctext, text = emit(ctx, g, consts, paths)
    return g, consts, info, ctext, text


# =====================================================================================================
# oracle: the property itself on the implementation (search for a failing input, measurement of the tolerance)
# =====================================================================================================
def hx(a):
    return [float(x).hex() for x in np.asarray(a, float).flatten()]


def ref_rel(q0, q1):
    """conj(q0) q1 -> (theta, unit axis) with theta in [0, pi] by atan2 (no acos)"""
    r = qmul(np.r_[q0[0], -q0[1:]], q1)
    nv = float(np.linalg.norm(r[1:]))
    th = math.atan2(nv, r[0])
    u = r[1:] / nv if nv > 0 else np.array([1.0, 0, 0])
    return th, u


def ref_slerp(q0, q1, s):
    th, u = ref_rel(q0, q1)
    return qmul(q0, np.r_[math.cos(s * th), math.sin(s * th) * u])


S_SPECIAL = [0.0, 1.0, 1e-12, 1 - 1e-12]
S_OUTSIDE = [-1e-9, 1 + 1e-9, -0.5, 1.5, float(np.nextafter(1.0, 2.0)), -5e-324]
DIRECTED_LONG = [0.7, 0.05, 0.01, 0.002, 1e-6, 1e-9]
GAP_MIN = 1e-4          # long arcs closer than this to antipodal are outside the property's domain (measured: error ~ eps/gap^2)


def svals(rng, n=3):
    return S_SPECIAL + [float(x) for x in rng.uniform(0, 1, size=n)]


def valid_so3(R, tol):
    return R.shape == (3, 3) and np.all(np.isfinite(R)) and np.max(np.abs(R @ R.T - np.eye(3))) <= tol and abs(np.linalg.det(R) - 1) <= tol


def oracle(ctx):
    rng = ctx.rng
    W = ctx.stats

    def worst(k, v):
        W['worst:' + k] = max(W.get('worst:' + k, 0.0), float(v))

    def call(key, thunk, replay):
        """run a library call that must return a value; an exception is a finding keyed by site and exception kind"""
        try:
            return thunk()
        except Exception as ex:  # noqa
            ctx.fail(f"oracle:{key}:raises-{type(ex).__name__}", f"{key} raises {type(ex).__name__}: {ex}", replay)
            return None

    def must_raise(key, thunk, replay):
        ctx.case((key, repr(replay)))
        ctx.count('oracle:out-of-range:' + key)
        try:
            r = thunk()
        except Exception as ex:  # noqa
            W.setdefault('out-of-range-kinds', {}).setdefault(key, set()).add(type(ex).__name__)
            return
        ctx.fail(f"oracle:out-of-range:{key}:accepted", f"{key} accepts s outside [0,1] and returns {type(r).__name__}", replay)

    def pose_interp(cls, thunk, ref_ok, long_arc, rps, d):
        """a pose-class interp call: since fix d3a2973 the result is built with check=False, so it must return whatever trinterp computes
        (it used to re-validate at 100 eps and reject / drop correct long-arc values); any exception is a finding"""
        try:
            X = thunk()
        except Exception as ex:  # noqa
            kind = type(ex).__name__
            ctx.fail(f"oracle:{cls}.interp:{'long-arc' if long_arc else 'short-arc'}:result-not-returned:{kind}", f"{cls}.interp raises {kind}: {ex}; q0.q1 = {d:g}", rps)
            return None
        if any(x is None for x in X.data):
            ctx.fail(f"oracle:{cls}.interp:result-holds-None", f"{cls}.interp returns an object holding None", rps)
            return None
        return X

    def element_access(cls, Xv, long_arc, rp, d):
        """the sequence returned for a vector of s must be usable as a sequence: X[k], iteration"""
        ctx.count('oracle:vector-s:element-access')
        try:
            els = [Xv[k_] for k_ in range(len(Xv))]
            ok = all(np.array_equal(e.A, a) for e, a in zip(els, Xv.data))
            if not ok:
                ctx.fail(f"oracle:vector-s:{cls}.interp:element-differs", f"{cls}.interp(vector s)[k] is not the k-th value", rp)
        except Exception as ex:  # noqa
            kind = type(ex).__name__
            ctx.fail(f"oracle:vector-s:{cls}.interp:element-access-fails:{kind}",
                     f"indexing / iterating the result of {cls}.interp(vector s) raises {kind}: {ex}; canonical q0.q1 = {d:g}", rp)

    # ------------------------------------------------------------------ 3-D
    N = ctx.n(250, 6000)
    excluded = 0
    for it in range(N):
        R0 = np.eye(3) if it % 7 == 6 else rot_regime(rng)
        phi = rel_angle_regime(rng) if it % 11 else float(rng.choice([1e-12, PI - 1e-6, 1e-8, 1e-7, 1e-4, PI / 2]))
        u = rand_unit(rng)
        R1 = R0 @ rot_from_axis_angle(u, phi)
        if it < len(DIRECTED_LONG):
            # directed: rotations by pi-g about v and about -v (relative angle 2g, canonical quaternions on a long arc, q0.q1 = -cos g)
            g_ = DIRECTED_LONG[it]
            v_ = np.array([1.0, 2.0, 3.0]) / math.sqrt(14.0)
            R0, R1, phi = rot_from_axis_angle(v_, PI - g_), rot_from_axis_angle(-v_, PI - g_), 2 * g_
        t0, t1 = rand_trans(rng, 1e-3, 1e3), rand_trans(rng, 1e-3, 1e3)
        T0, T1 = np.eye(4), np.eye(4)
        T0[:3, :3], T0[:3, 3], T1[:3, :3], T1[:3, 3] = R0, t0, R1, t1
        with_start = it % 3 != 0 or it < len(DIRECTED_LONG)
        q0c, q1c = r2q_ref(R0), r2q_ref(R1)
        A0 = T0 if with_start else np.eye(4)
        qa = q0c if with_start else np.array([1.0, 0, 0, 0])
        d = float(qa @ q1c)
        th_noflip, _ = ref_rel(qa, q1c)
        rp = {'T0_hex': hx(T0), 'T1_hex': hx(T1), 'rel_angle': phi}
        dec = 'rel-angle-decade:%d' % max(-12, math.floor(math.log10(phi)))
        W[dec] = W.get(dec, 0) + 1
        # since fix 1310ef1 trinterp asks slerp for the shorter arc: whatever sign r2q gives the two quaternions, the rotation must follow
        # the shorter arc (quaternion angle <= pi/2, well conditioned) -- no pair of the domain is left out any more
        short_q = qa if d >= 0 else -qa
        either_arc = abs(d) < 1e-9                 # the two arcs have the same length: a half turn apart
        if d < 0:
            W['pairs-with-opposite-canonical-quaternions'] = W.get('pairs-with-opposite-canonical-quaternions', 0) + 1
        tol = 1e-9
        scale_t = max(1.0, float(np.max(np.abs(np.r_[t0, t1]))))
        ss = svals(rng) if it >= len(DIRECTED_LONG) else S_SPECIAL + [0.3, 0.5, 0.7]
        for s in ss:
            rps = dict(rp, s=float(s).hex(), with_start=with_start)
            M = call('base.trinterp', lambda: base.trinterp(T0 if with_start else None, T1, s), rps)
            ctx.case(('trinterp', it, s))
            ctx.count('oracle:trinterp')
            if M is None:
                continue
            if isinstance(M, BaseException) or not isinstance(M, np.ndarray) or M.shape != (4, 4):
                ctx.fail('oracle:trinterp:not-a-matrix', f"trinterp returns {type(M).__name__}", rps)
                continue
            # validity
            if not (np.array_equal(M[3], [0, 0, 0, 1]) and valid_so3(M[:3, :3], tol)):
                ctx.fail('oracle:validity:trinterp', f"trinterp result is not in SE(3) to {tol:g}: RR'-I = {np.max(np.abs(M[:3,:3] @ M[:3,:3].T - np.eye(3))):g}", rps)
            worst('validity:trinterp', np.max(np.abs(M[:3, :3] @ M[:3, :3].T - np.eye(3))))
            # translation linear in s
            te = np.max(np.abs(M[:3, 3] - ((1 - s) * A0[:3, 3] + s * t1))) / scale_t
            worst('translation', te)
            if not te <= 1e-9:
                ctx.fail('oracle:translation:trinterp', f"translation is not (1-s) t0 + s t1: rel. error {te:g}", rps)
            # rotation: R0 exp(s log(R0' R1)) along the SHORTER arc
            cands = (short_q, -short_q) if either_arc else (short_q,)
            errs = [float(np.max(np.abs(M[:3, :3] - q2r_ref(ref_slerp(c_, q1c, s))))) for c_ in cands]
            kbest = int(np.argmin(errs))
            worst('rotation', errs[kbest])
            if not errs[kbest] <= 1e-6:
                ctx.fail('oracle:rotation:trinterp', f"R(s) is not R0 exp(s log(R0' R1)) along the shorter arc: error {errs[kbest]:g} (tol 1e-6); "
                         f"canonical q0.q1 = {d:g}", rps)
            rot_ok = errs[kbest] <= 1e-6
            # axis and angle of R0' R(s) against those of R0' R1
            qs_ = cands[kbest]
            th, ax = ref_rel(qs_, q1c)
            qrel = r2q_ref(A0[:3, :3].T @ M[:3, :3])
            ang = 2 * math.atan2(float(np.linalg.norm(qrel[1:])), qrel[0])
            want = 2 * s * th
            want_c = want if want <= PI else 2 * PI - want
            worst('angle', abs(ang - want_c))
            if not abs(ang - want_c) <= 1e-6:
                ctx.fail('oracle:angle:trinterp', f"angle of R0'R(s) is {ang:g}, expected s * angle(R0'R1) = {want_c:g}", rps)
            if 0.05 <= ang <= PI - 0.05 and th >= 1e-3:
                a_s = qrel[1:] / np.linalg.norm(qrel[1:])
                ae = min(np.max(np.abs(a_s - ax)), np.max(np.abs(a_s + ax)))
                worst('axis', ae)
                if not ae <= 1e-6:
                    ctx.fail('oracle:axis:trinterp', f"axis of R0'R(s) differs from the axis of R0'R1 by {ae:g}", rps)
            # endpoints
            if s == 0.0 and not np.max(np.abs(M - A0)) <= 1e-6 * scale_t:
                ctx.fail('oracle:endpoint:trinterp:s0', f"trinterp at s=0 is not the start: {np.max(np.abs(M - A0)):g}", rps)
            if s == 1.0 and not np.max(np.abs(M - T1)) <= 1e-6 * scale_t:
                ctx.fail('oracle:endpoint:trinterp:s1', f"trinterp at s=1 is not the end: {np.max(np.abs(M - T1)):g}", rps)
            # agreement: pose class, slerp on the library's quaternions, UnitQuaternion.interp
            X = pose_interp('SE3', lambda: (SE3(T1, check=False).interp(s, start=SE3(T0, check=False)) if with_start else SE3(T1, check=False).interp(s)),
                            rot_ok, d < 0, rps, d)
            if X is not None:
                ctx.count('oracle:agree:SE3.interp')
                if not (isinstance(X, SE3) and len(X) == 1 and np.max(np.abs(X.A - M)) <= 1e-6 * scale_t):
                    ctx.fail('oracle:agree:SE3.interp', "SE3.interp differs from base.trinterp", rps)
            # SO(3): the matrix function on 3x3 arguments and the pose class
            ctx.count('oracle:so3')
            Rs = call('base.trinterp(SO3)', lambda: base.trinterp(R0 if with_start else None, R1, s), rps)
            if Rs is not None:
                if not (isinstance(Rs, np.ndarray) and Rs.shape == (3, 3)):
                    ctx.fail('oracle:so3:trinterp:not-a-3x3-matrix', f"trinterp on SO(3) arguments returns {type(Rs).__name__}", rps)
                else:
                    if not valid_so3(Rs, tol):
                        ctx.fail('oracle:validity:trinterp(SO3)', f"trinterp(SO3) result is not in SO(3) to {tol:g}", rps)
                    e3 = float(min(np.max(np.abs(Rs - q2r_ref(ref_slerp(c_, q1c, s)))) for c_ in cands))
                    worst('rotation-so3', e3)
                    if not e3 <= 1e-6:
                        ctx.fail('oracle:rotation:trinterp(SO3)', f"SO(3) R(s) is not R0 exp(s log(R0' R1)) along the shorter arc: error {e3:g}", rps)
                    if not np.max(np.abs(Rs - M[:3, :3])) <= 1e-9:
                        ctx.fail('oracle:agree:trinterp(SO3)/trinterp(SE3)', f"the SO(3) case differs from the rotation of the SE(3) case by {np.max(np.abs(Rs - M[:3, :3])):g}", rps)
                    if s == 0.0 and not np.max(np.abs(Rs - A0[:3, :3])) <= 1e-6:
                        ctx.fail('oracle:endpoint:trinterp(SO3):s0', "trinterp(SO3) at s=0 is not the start", rps)
                    if s == 1.0 and not np.max(np.abs(Rs - R1)) <= 1e-6:
                        ctx.fail('oracle:endpoint:trinterp(SO3):s1', "trinterp(SO3) at s=1 is not the end", rps)
                    Y = pose_interp('SO3', lambda: (SO3(R1, check=False).interp(s, start=SO3(R0, check=False)) if with_start else SO3(R1, check=False).interp(s)),
                                    e3 <= 1e-6, d < 0, rps, d)
                    if Y is not None:
                        ctx.count('oracle:agree:SO3.interp')
                        if not (isinstance(Y, SO3) and len(Y) == 1 and np.max(np.abs(Y.A - Rs)) <= 1e-6):
                            ctx.fail('oracle:agree:SO3.interp', "SO3.interp differs from base.trinterp on the 3x3 matrices", rps)
            lq0 = base.r2q(R0) if with_start else np.array([1.0, 0, 0, 0])
            lq1 = base.r2q(R1)
            qsl = call('base.slerp', lambda: base.slerp(lq0, lq1, s, shortest=True), rps)
            if qsl is not None:
                ctx.count('oracle:agree:slerp')
                e = np.max(np.abs(base.q2r(qsl) - M[:3, :3]))
                worst('agree:slerp', e)
                if not e <= 1e-6:
                    ctx.fail('oracle:agree:slerp', f"q2r(slerp(r2q R0, r2q R1, s, shortest=True)) differs from trinterp by {e:g}", rps)
                if not abs(np.linalg.norm(qsl) - 1) <= tol:
                    ctx.fail('oracle:validity:slerp', f"slerp result has norm {np.linalg.norm(qsl)!r}", rps)
            long_arc = False          # shortest=True: never a long arc
            try:
                U = (UnitQuaternion(lq0).interp(s, dest=UnitQuaternion(lq1), shortest=True) if with_start else UnitQuaternion(lq1).interp(s, shortest=True))
                ctx.count('oracle:agree:UnitQuaternion.interp')
                e = np.max(np.abs(U.R - M[:3, :3]))
                worst('agree:uq', e)
                if not e <= 1e-6:
                    ctx.fail('oracle:agree:UnitQuaternion.interp', f"UnitQuaternion.interp differs from trinterp by {e:g}", rps)
            except Exception as ex:  # noqa
                kind = type(ex).__name__
                where = 'long-arc' if long_arc else 'short-arc'
                ctx.fail(f"oracle:UnitQuaternion.interp:{where}:no-result:{kind}",
                         f"UnitQuaternion.interp raises {kind} ({ex}) for q0.q1 = {float(lq0 @ lq1):g}, s = {s}", rps)
        # vector s gives the sequence
        sv = np.array(ss)
        for cls, C, E0, E1 in (('SE3', SE3, T0, T1), ('SO3', SO3, R0, R1)):
            Xv = pose_interp(cls, lambda: (C(E1, check=False).interp(sv, start=C(E0, check=False)) if with_start else C(E1, check=False).interp(sv)),
                             True, d < 0, dict(rp, s=[float(x) for x in sv]), d)
            if Xv is not None:
                ctx.count('oracle:vector-s:' + cls + '.interp')
                ok = isinstance(Xv, C) and len(Xv) == len(sv)
                if ok:
                    for k_, s in enumerate(sv):
                        Mk = base.trinterp(E0 if with_start else None, E1, float(s))
                        ok = ok and Xv.data[k_] is not None and np.max(np.abs(Xv.data[k_] - Mk)) <= 1e-9 * scale_t
                if not ok:
                    ctx.fail(f'oracle:vector-s:{cls}.interp', f"{cls}.interp(vector s) is not the sequence of the scalar results", rp)
                else:
                    element_access(cls, Xv, d < 0, dict(rp, s=[float(x) for x in sv]), d)
        if it % 3 == 0:
            # UnitQuaternion.interp with a sequence of s (fix 51bc88a): one value per s, each equal to the scalar call, usable as a sequence;
            # ndarray and list forms, with / without dest, shortest on / off
            lq0, lq1 = base.r2q(R0), base.r2q(R1)
            for form, sarg in (('ndarray', sv), ('list', [float(x) for x in sv])):
                for sh in (False, True):
                    for with_dest in (False, True):
                        if not sh and with_dest and float(lq0 @ lq1) < -math.cos(GAP_MIN):
                            continue           # quaternion-level long arc next to antipodal: outside the domain
                        rq = dict(rp, s=[float(x) for x in sv], form=form, shortest=sh, dest=with_dest)
                        ctx.case(('uq-vector-s', it, form, sh, with_dest))
                        ctx.count('oracle:vector-s:UnitQuaternion.interp')
                        kw = dict(dest=UnitQuaternion(lq1), shortest=sh) if with_dest else dict(shortest=sh)
                        qq = UnitQuaternion(lq0) if with_dest else UnitQuaternion(lq1)
                        try:
                            Uv = qq.interp(sarg, **kw)
                            if not (isinstance(Uv, UnitQuaternion) and len(Uv) == len(sv)):
                                ctx.fail('oracle:vector-s:UnitQuaternion.interp:sequence-wrong-length', "UnitQuaternion.interp(sequence of s) does not give one value per s", rq)
                            elif not all(np.max(np.abs(Uv.data[k_] - qq.interp(float(x_), **kw).vec)) <= 1e-9 for k_, x_ in enumerate(sv)):
                                ctx.fail('oracle:vector-s:UnitQuaternion.interp:sequence-element-wrong', "UnitQuaternion.interp(sequence of s)[k] is not interp(s[k])", rq)
                            elif not all(np.max(np.abs(Uv[k_].vec - Uv.data[k_])) <= 1e-12 for k_ in range(len(Uv))):   # indexing re-normalises: 1 ulp
                                ctx.fail('oracle:vector-s:UnitQuaternion.interp:sequence-index-differs', "indexing the returned sequence does not give its k-th value", rq)
                        except Exception as ex:  # noqa
                            ctx.fail(f"oracle:vector-s:UnitQuaternion.interp:no-sequence:{type(ex).__name__}",
                                     f"UnitQuaternion.interp(sequence of s, {form}) raises {type(ex).__name__}: {ex}", rq)
        if it % 5 == 0:
            # fix 7443e8d: a sequence of ONE coefficient is that coefficient; a receiver holding M > 1 unit quaternions with one coefficient interpolates
            # each value; M > 1 together with K > 1 coefficients is rejected (as SMPose.interp)
            lq0, lq1 = base.r2q(R0), base.r2q(R1)
            lq2 = r2q_ref(rot_regime(rng))
            s1 = float(rng.uniform(0, 1))
            multi = UnitQuaternion([lq1, lq2, lq0], check=False)
            for sh in (False, True):
                for with_dest in (False, True):
                    kw = dict(dest=UnitQuaternion(lq0), shortest=sh) if with_dest else dict(shortest=sh)
                    ends = [lq1, lq2, lq0]
                    starts = lq0 if with_dest else np.array([1.0, 0, 0, 0])
                    if not sh and min(float(starts @ e_) for e_ in ends) < -math.cos(1e-2):
                        continue           # quaternion-level long arc next to antipodal: outside the domain
                    rq = dict(rp, s=s1, shortest=sh, dest=with_dest, values_hex=[hx(e_) for e_ in ends])
                    ctx.case(('uq-multi', it, sh, with_dest))
                    ctx.count('oracle:multi-valued:UnitQuaternion.interp')
                    try:
                        # the reference for element k is the single-valued call on the SAME stored value, reached the way the library reaches it
                        # (X[k]); an independently built operand may differ from it by one ulp of re-normalisation, and next to dot = 1 that ulp
                        # decides between slerp's `theta == 0 -> start` exit and the general formula: the two then differ by up to the distance
                        # of the ends (conditioning of acos at 1, far inside 1e-6) -- so that comparison gets max(1e-9, 2 * endpoint distance)
                        singles = [multi[k_].interp(s1, **kw).vec for k_ in range(3)]
                        indep = [UnitQuaternion(e_).interp(s1, **kw).vec for e_ in ends]
                        loose = [max(1e-9, 2 * float(np.max(np.abs(e_ - starts)))) if float(starts @ e_) > 0 else 1e-9 for e_ in ends]
                        if not all(np.max(np.abs(singles[k_] - indep[k_])) <= max(loose[k_], 1e-9) for k_ in range(3)):
                            ctx.fail('oracle:multi-valued:UnitQuaternion.interp:stored-value-differs', "X[k].interp(s) differs from interp of the k-th value it was built from", rq)
                        for form, sarg in (('scalar', s1), ('length-1 list', [s1]), ('length-1 ndarray', np.array([s1]))):
                            Um = multi.interp(sarg, **kw)
                            if not (isinstance(Um, UnitQuaternion) and len(Um) == 3):
                                ctx.fail('oracle:multi-valued:UnitQuaternion.interp:wrong-length', f"M = 3 unit quaternions, one coefficient ({form}): not 3 values", rq)
                            elif not all(np.max(np.abs(Um.data[k_] - singles[k_])) <= 1e-9 for k_ in range(3)):
                                ctx.fail('oracle:multi-valued:UnitQuaternion.interp:element-wrong', f"element k of X.interp(s) ({form}) is not X[k].interp(s)", rq)
                        U1 = UnitQuaternion(lq1).interp([s1], **kw)
                        if not (isinstance(U1, UnitQuaternion) and len(U1) == 1 and np.max(np.abs(U1.vec - indep[0])) <= 1e-9):
                            ctx.fail('oracle:length-1-s:UnitQuaternion.interp:not-the-scalar-result', "interp([s]) is not interp(s)", rq)
                    except Exception as ex:  # noqa
                        ctx.fail(f"oracle:multi-valued:UnitQuaternion.interp:no-result:{type(ex).__name__}",
                                 f"UnitQuaternion holding 3 values, one coefficient: raises {type(ex).__name__}: {ex}", rq)
                    try:
                        r_ = multi.interp(np.array([0.25, 0.75]), **kw)
                        ctx.fail('oracle:multi-valued:UnitQuaternion.interp:M>1-with-K>1-accepted',
                                 f"3 unit quaternions with 2 coefficients is accepted (returns {len(r_)} values); it must be rejected as by SMPose.interp", rq)
                    except Exception as ex:  # noqa
                        W.setdefault('uq-MxK-rejection-kinds', set()).add(type(ex).__name__)
        if it % 10 == 0:
            lq1 = base.r2q(R1)
            # out-of-range s is rejected by the 3-D matrix and quaternion interpolators
            so = float(S_OUTSIDE[(it // 10) % len(S_OUTSIDE)])
            ro = dict(rp, s=so.hex())
            must_raise('base.trinterp', lambda: base.trinterp(T0, T1, so), ro)
            must_raise('base.trinterp(start=None)', lambda: base.trinterp(None, T1, so), ro)
            must_raise('base.slerp', lambda: base.slerp(base.r2q(R0), lq1, so), ro)
            must_raise('base.slerp(shortest)', lambda: base.slerp(base.r2q(R0), lq1, so, shortest=True), ro)
            must_raise('SE3.interp', lambda: SE3(T1, check=False).interp(so, start=SE3(T0, check=False)), ro)
            must_raise('UnitQuaternion.interp', lambda: UnitQuaternion(lq1).interp(so), ro)
            must_raise('UnitQuaternion.interp(sequence)', lambda: UnitQuaternion(lq1).interp(np.array([0.5, so])), ro)
            must_raise('UnitQuaternion.interp(dest)', lambda: UnitQuaternion(base.r2q(R0)).interp(so, dest=UnitQuaternion(lq1)), ro)
            must_raise('base.trinterp(SO3)', lambda: base.trinterp(R0, R1, so), ro)
            must_raise('base.trinterp(SO3,start=None)', lambda: base.trinterp(None, R1, so), ro)
            must_raise('SO3.interp', lambda: SO3(R1, check=False).interp(so, start=SO3(R0, check=False)), ro)

    # ------------------------------------------------------------------ quaternion level (shortest on / off, long arcs)
    NQ = ctx.n(400, 10000)
    for it in range(NQ):
        r = rng.random()
        if r < 0.2:
            th = log_uniform(rng, 5e-13, 1e-3)
        elif r < 0.5:
            th = rng.uniform(0, PI / 2)
        elif r < 0.6:
            th = PI / 2 - log_uniform(rng, 5e-7, 1e-1)
        elif r < 0.85:
            th = PI - log_uniform(rng, GAP_MIN, PI / 2)
        else:
            th = rng.uniform(PI / 2, PI - 1e-2)
        q0, q1 = quat_pair(rng, th)
        for sh in (False, True):
            tol = 1e-9 if (sh or PI - th >= 1e-2) else 1e-6
            a = -q0 if (sh and float(q0 @ q1) < 0) else q0
            for s in svals(rng, 2):
                rp = {'q0_hex': hx(q0), 'q1_hex': hx(q1), 's': float(s).hex(), 'shortest': sh}
                ctx.case(('slerp', it, sh, s))
                ctx.count('oracle:slerp')
                q = call('base.slerp', lambda: base.slerp(q0, q1, s, shortest=sh), rp)
                if q is None:
                    continue
                want = q0 if s == 0.0 else q1 if s == 1.0 else ref_slerp(a, q1, s)
                e = float(np.max(np.abs(q - want)))
                worst('slerp' + ('-short' if sh else '-long'), e)
                if not e <= 1e-6:
                    ctx.fail(f"oracle:slerp:{'shortest' if sh else 'as-is'}:value", f"slerp differs from the great-circle point at s (arc {'shorter' if sh else 'as given'}) by {e:g}", rp)
                if not abs(np.linalg.norm(q) - 1) <= tol:
                    ctx.fail('oracle:validity:slerp', f"slerp result has norm {np.linalg.norm(q)!r}", rp)
                if sh and 0 < s < 1:
                    # shorter arc: the relative rotation from the start is at most a half turn in total
                    thr, _ = ref_rel(a, q1)
                    if thr > PI / 2 + 1e-12:
                        ctx.fail('oracle:shortest:not-shorter', "internal: shorter arc expected", rp)
                long_arc = float(q0 @ q1) < 0 and not sh
                try:
                    U = UnitQuaternion(q0).interp(s, dest=UnitQuaternion(q1), shortest=sh)
                    ctx.count('oracle:agree:UnitQuaternion.interp/slerp')
                    e = float(min(np.max(np.abs(U.vec - q)), np.max(np.abs(U.vec + q))))
                    worst('agree:uq-slerp', e)
                    if not e <= 1e-6:
                        ctx.fail('oracle:agree:UnitQuaternion.interp/slerp', f"UnitQuaternion.interp and slerp differ by {e:g}", rp)
                except Exception as ex:  # noqa
                    kind = type(ex).__name__
                    ctx.fail(f"oracle:UnitQuaternion.interp:{'long-arc' if long_arc else 'short-arc'}:no-result:{kind}",
                             f"UnitQuaternion.interp raises {kind} ({ex}) for q0.q1 = {float(q0 @ q1):g}, s = {s}, shortest = {sh}", rp)

    # ------------------------------------------------------------------ 2-D
    N2 = ctx.n(200, 5000)
    for it in range(N2):
        a0, a1 = angle(rng), angle(rng)
        p0, p1 = rand_trans(rng, 1e-3, 1e3, 2), rand_trans(rng, 1e-3, 1e3, 2)
        rot = lambda a: np.array([[math.cos(a), -math.sin(a)], [math.sin(a), math.cos(a)]])
        T0, T1 = np.eye(3), np.eye(3)
        T0[:2, :2], T0[:2, 2], T1[:2, :2], T1[:2, 2] = rot(a0), p0, rot(a1), p1
        th0, th1 = math.atan2(T0[1, 0], T0[0, 0]), math.atan2(T1[1, 0], T1[0, 0])
        with_start = it % 3 != 0
        if not with_start:
            th0, p0 = 0.0, np.zeros(2)
        scale_t = max(1.0, float(np.max(np.abs(np.r_[p0, p1]))))
        ss = svals(rng)
        for s in ss:
            rp = {'T0_hex': hx(T0), 'T1_hex': hx(T1), 's': float(s).hex(), 'with_start': with_start}
            ctx.case(('trinterp2', it, s))
            ctx.count('oracle:trinterp2')
            M = call('base.trinterp2', lambda: base.trinterp2(T0 if with_start else None, T1, s), rp)
            if M is None:
                continue
            if not isinstance(M, np.ndarray) or M.shape != (3, 3):
                ctx.fail('oracle:trinterp2:not-a-matrix', f"trinterp2 returns {type(M).__name__}", rp)
                continue
            Rr = M[:2, :2]
            if not (np.array_equal(M[2], [0, 0, 1]) and np.max(np.abs(Rr @ Rr.T - np.eye(2))) <= 1e-9 and abs(np.linalg.det(Rr) - 1) <= 1e-9):
                ctx.fail('oracle:validity:trinterp2', "trinterp2 result is not in SE(2)", rp)
            te = np.max(np.abs(M[:2, 2] - ((1 - s) * p0 + s * p1))) / scale_t
            if not te <= 1e-9:
                ctx.fail('oracle:translation:trinterp2', f"2-D translation is not linear in s: {te:g}", rp)
            want = (1 - s) * th0 + s * th1
            e = float(np.max(np.abs(Rr - rot(want))))
            worst('angle2d', e)
            if not e <= 1e-6:
                ctx.fail('oracle:angle:trinterp2', f"2-D angle is not (1-s) th0 + s th1: {e:g}", rp)
            X = call('SE2.interp', lambda: (SE2(T1, check=False).interp(s, start=SE2(T0, check=False)) if with_start else SE2(T1, check=False).interp(s)), rp)
            if X is not None and not (isinstance(X, SE2) and np.max(np.abs(X.A - M)) <= 1e-6 * scale_t):
                ctx.fail('oracle:agree:SE2.interp', "SE2.interp differs from trinterp2", rp)
            Rm = call('base.trinterp2(SO2)', lambda: base.trinterp2(T0[:2, :2] if with_start else None, T1[:2, :2], s), rp)
            if Rm is not None and not (isinstance(Rm, np.ndarray) and Rm.shape == (2, 2) and np.max(np.abs(Rm - Rr)) <= 1e-9):
                ctx.fail('oracle:agree:trinterp2(SO2)', "the SO(2) case of trinterp2 differs from the rotation of the SE(2) case", rp)
            Y = call('SO2.interp', lambda: (SO2(T1[:2, :2], check=False).interp(s, start=SO2(T0[:2, :2], check=False)) if with_start else SO2(T1[:2, :2], check=False).interp(s)), rp)
            if Y is not None and not (isinstance(Y, SO2) and np.max(np.abs(Y.A - Rr)) <= 1e-6):
                ctx.fail('oracle:agree:SO2.interp', "SO2.interp differs from trinterp2", rp)
            if s == 0.0 and not np.max(np.abs(M - (T0 if with_start else np.eye(3)))) <= 1e-9 * scale_t:
                ctx.fail('oracle:endpoint:trinterp2:s0', "trinterp2 at s=0 is not the start", rp)
            if s == 1.0 and not np.max(np.abs(M - T1)) <= 1e-9 * scale_t:
                ctx.fail('oracle:endpoint:trinterp2:s1', "trinterp2 at s=1 is not the end", rp)
        sv = np.array(ss)
        rp = {'T0_hex': hx(T0), 'T1_hex': hx(T1), 'with_start': with_start}
        Xv = call('SE2.interp(vector)', lambda: (SE2(T1, check=False).interp(sv, start=SE2(T0, check=False)) if with_start else SE2(T1, check=False).interp(sv)), rp)
        if Xv is not None:
            ok = isinstance(Xv, SE2) and len(Xv) == len(sv) and all(
                np.max(np.abs(Xv.data[k_] - base.trinterp2(T0 if with_start else None, T1, float(s)))) <= 1e-9 * scale_t for k_, s in enumerate(sv))
            if not ok:
                ctx.fail('oracle:vector-s:SE2.interp', "SE2.interp(vector s) is not the sequence of the scalar results", rp)
            else:
                element_access('SE2', Xv, False, rp, 1.0)

    # ------------------------------------------------------------------ arguments that are not poses
    R3, T4 = rot_from_axis_angle([0, 0, 1.0], 0.3), np.eye(4)
    for key, arg, thunk in (('base.trinterp', 'eye(5)', lambda: base.trinterp(None, np.eye(5), 0.5)), ('base.trinterp', 'eye(2)', lambda: base.trinterp(None, np.eye(2), 0.5)),
                            ('base.trinterp', '3x3 start, 4x4 end', lambda: base.trinterp(R3, T4, 0.5)), ('base.trinterp', '4x4 start, 3x3 end', lambda: base.trinterp(T4, R3, 0.5)),
                            ('base.trinterp2', 'eye(5)', lambda: base.trinterp2(None, np.eye(5), 0.5)), ('base.trinterp2', 'eye(4)', lambda: base.trinterp2(None, np.eye(4), 0.5))):
        ctx.case(('bad-shape', key, arg))
        ctx.count('oracle:bad-shape')
        try:
            r = thunk()
            if isinstance(r, BaseException):
                ctx.fail(f"oracle:bad-shape:{key}:exception-not-raised", f"{key} with {arg} returns the exception object {r!r} instead of raising it", {'arg': arg, 's': 0.5})
            else:
                ctx.fail(f"oracle:bad-shape:{key}:accepted", f"{key} accepts {arg}", {'arg': arg, 's': 0.5})
        except Exception:  # noqa
            pass
    if 'uq-MxK-rejection-kinds' in W:
        W['uq-MxK-rejection-kinds'] = sorted(W['uq-MxK-rejection-kinds'])
    if 'out-of-range-kinds' in W:
        W['out-of-range-kinds'] = {k: sorted(v) for k, v in W['out-of-range-kinds'].items()}
    ctx.sample({'kind': 'oracle', 'what': 'last 3-D pair', 'T0': T0.tolist(), 'T1': T1.tolist()})


def run(ctx):
    ctx.rule = ("obligations: theorems of theories/Props/C11.v over the regenerated constants/traces and the hand models; "
                "evaluations: model-vs-implementation cases (hand models extracted to OCaml floats, traces) + oracle evaluations of the property on the "
                "implementation (3-D pairs x s values, quaternion pairs x shortest x s, 2-D pairs x s, out-of-range and shape cases); "
                "a case is distinct by its (function, input) signature")
    ctx.trusted_extra = [
        "props/C11.py: AST skeleton pass (slerp, unit, r2q, isunitvec, trinterp, UnitQuaternion.interp), harness-process stubs of base.slerp/base.r2q while tracing trinterp",
        "hand models Model/C11_Interp.v tied by float correspondence only (sampled), not by proof; r2q enters the trinterp theorems through its specification (unit, q2r(r2q R) = R: property C04)"]
    with ctx.timed('regenerate'):
        try:
            g, consts, info, ctext, text = regenerate(ctx)
        except SkeletonError as ex:
            ctx.fail('gen:skeleton', f"a modelled function no longer has the recorded structure: {ex}", {'detail': str(ex)}, no_input=True)
            g = None
    if g is not None:
        ctx.stats['consts'] = consts
        escalate = bool(info.get('layout_notes'))
        for n_ in info.pop('layout_notes', []):
            ctx.notes.append(n_)
        ctx.stats.update(info)
        for fn, txt in (('Consts_C11.v', ctext), (MOD + '.v', text)):
            rc, out, err, dt = ctx.coqc(ctx.write_gen(fn, txt))
            if rc != 0:
                ctx.fail('gen:compile', f'generated {fn} does not compile: ' + err[-800:], no_input=True)
                g = None
                break
    if g is not None:
        ctx.prove('theories/Props/C11.v')
        with ctx.timed('correspond'):
            sym_num(ctx, g, MOD, 2500 if escalate else ctx.n(150, 2500))
    with ctx.timed('oracle'):
        oracle(ctx)
