(* C04 (c) -- rotation matrix -> quaternion (base.r2q, hand model Model/C04_R2q.v tied to the implementation by the
   numeric correspondence of every run) and back; constructors that go through r2q (RPY in each order, Eul; OA and the
   UnitQuaternion(SO3) / UnitQuaternion(matrix) constructors are the same composition); UnitDualQuaternion(SE3).SE3(). *)
From Coq Require Import Reals ZArith Lra Nsatz Psatz Bool.
From SM Require Import Base.Ops Base.Lin Base.RInst Base.RLin Model.C04_R2q Model.C04_R2qProofs.
From SMgen Require Import Traces_C04.
Open Scope R_scope.

Ltac gen_unfold := intros; destruct_tuples; autounfold with smgen smlin in *; sm_simpl.
Ltac nopow := repeat match goal with |- context [?x ^ 2] => replace (x ^ 2) with (x * x) by ring end.
Ltac clear_ineq := repeat match goal with H : _ < _ |- _ => clear H | H : _ <= _ |- _ => clear H | H : _ <> _ |- _ => clear H end.
Ltac unit_eq := first [ solve [clear_ineq; nsatz] | field_simplify_eq; [ solve [clear_ineq; nopow; nsatz] | (repeat split; try lra; nra) .. ] ].

(* Full statement (exact arithmetic):  forall R, SO3 R -> q2r (r2q R) = R.
   It is false of the code as it is, but only inside the degenerate exit `abs(nm) < tol*_eps -> eye()`:
   a genuine rotation by ~1.7e-18 rad is mapped to the identity quaternion.  This is not a defect at the 1e-6
   agreement the property asks for (see C04_r2q_degenerate_is_near_identity); the pair below records it. *)
Theorem C04_r2q_roundtrip_refuted : exists A : M33 R, SO3 A /\ q2r_ref Rops (r2q_100 Rops A) <> A.
Proof. exact r2q_roundtrip_refuted. Qed.
Print Assumptions C04_r2q_roundtrip_refuted.

(* every branch (largest diagonal element R00 / R11 / R22) x both signs: outside the degenerate exit the round trip is exact,
   the result is a unit quaternion and its scalar part is >= 0 (so q and -q both come back as the same representative) *)
Theorem C04_r2q_roundtrip_partial : forall A : M33 R, SO3 A -> r2q_degenerate Rops (IZR 100) A = false ->
  q2r_ref Rops (r2q_100 Rops A) = A /\ qnormsq Rops (r2q_100 Rops A) = 1 /\ 0 <= fst (fst (fst (r2q_100 Rops A))).
Proof. exact r2q_roundtrip. Qed.
Print Assumptions C04_r2q_roundtrip_partial.

Theorem C04_r2q_degenerate_exit : forall A : M33 R, r2q_degenerate Rops (IZR 100) A = true ->
  r2q_100 Rops A = qone Rops /\ q2r_ref Rops (r2q_100 Rops A) = I33 Rops.
Proof. exact r2q_degenerate_eye. Qed.
Print Assumptions C04_r2q_degenerate_exit.

(* the six branch lemmas cover a matrix of each kind: the branch selector is total *)
Theorem C04_r2q_branch_total : forall A : M33 R, (r2q_branch Rops A <= 2)%nat.
Proof. intros A. destruct_tuples. unfold r2q_branch. repeat match goal with |- context [if ?b then _ else _] => destruct b end; auto. Qed.
Print Assumptions C04_r2q_branch_total.

(* ---------------------------------------------------------------- constructors that go through r2q *)
Ltac cs_pair a :=
  let H := fresh "Hcs" in
  (pose proof (cs_unit a) as H; generalize dependent (cos a); generalize dependent (sin a); intros ? ? H).
Ltac cs_pairs := repeat match goal with |- context [cos ?a] => cs_pair a end.

Theorem C04_RPY_Eul_in_SO3 : forall a : V3 R,
  SO3 (tr_SO3_RPY_zyx Rops a) /\ SO3 (tr_SO3_RPY_xyz Rops a) /\ SO3 (tr_SO3_RPY_yxz Rops a) /\ SO3 (tr_SO3_Eul Rops a).
Proof.
  intros a. destruct_tuples. repeat split; autounfold with smgen smlin; sm_simpl; cs_pairs; nsatz.
Qed.
Print Assumptions C04_RPY_Eul_in_SO3.

(* UnitQuaternion.RPY(a, order) = r2q(rpy2r(a, order)), UnitQuaternion.Eul(a) = r2q(eul2r(a)) (this composition is checked
   against the implementation on every run, oracle keys struct:...): it is the same rotation as SO3.RPY / SO3.Eul *)
Theorem C04_RPY_Eul_agree : forall a : V3 R,
  (r2q_degenerate Rops (IZR 100) (tr_SO3_RPY_zyx Rops a) = false -> q2r_ref Rops (r2q_100 Rops (tr_SO3_RPY_zyx Rops a)) = tr_SO3_RPY_zyx Rops a) /\
  (r2q_degenerate Rops (IZR 100) (tr_SO3_RPY_xyz Rops a) = false -> q2r_ref Rops (r2q_100 Rops (tr_SO3_RPY_xyz Rops a)) = tr_SO3_RPY_xyz Rops a) /\
  (r2q_degenerate Rops (IZR 100) (tr_SO3_RPY_yxz Rops a) = false -> q2r_ref Rops (r2q_100 Rops (tr_SO3_RPY_yxz Rops a)) = tr_SO3_RPY_yxz Rops a) /\
  (r2q_degenerate Rops (IZR 100) (tr_SO3_Eul Rops a) = false -> q2r_ref Rops (r2q_100 Rops (tr_SO3_Eul Rops a)) = tr_SO3_Eul Rops a).
Proof.
  intros a. destruct (C04_RPY_Eul_in_SO3 a) as (H1 & H2 & H3 & H4).
  repeat split; intros Hd; apply r2q_roundtrip; assumption.
Qed.
Print Assumptions C04_RPY_Eul_agree.

(* named constructors agree also through r2q: r2q(rotx t) is UnitQuaternion.Rx t up to sign -- stated on the matrix side *)
Theorem C04_matrix_quaternion_matrix_Rx : forall t : R, r2q_degenerate Rops (IZR 100) (tr_SO3_Rx Rops t) = false ->
  q2r_ref Rops (r2q_100 Rops (tr_SO3_Rx Rops t)) = q2r_ref Rops (tr_UQ_Rx Rops t).
Proof.
  intros t Hd. assert (S : SO3 (tr_SO3_Rx Rops t)).
  { autounfold with smgen smlin; sm_simpl. pose proof (cs_unit t). unfold SO3. repeat split; nsatz. }
  destruct (r2q_roundtrip _ S Hd) as [E _]. rewrite E. clear E Hd S.
  assert (Hh : cos t = cos (1/2*t) * cos (1/2*t) - sin (1/2*t) * sin (1/2*t) /\ sin t = 2 * sin (1/2*t) * cos (1/2*t)).
  { assert (E : t = 2 * (1/2*t)) by field. split; [rewrite E at 1; apply cos_2a | rewrite E at 1; apply sin_2a]. }
  destruct Hh as [Hc Hs]. pose proof (cs_unit (1/2*t)) as Hu.
  autounfold with smgen smlin; sm_simpl. rewrite Hc, Hs.
  generalize dependent (cos (1/2*t)); generalize dependent (sin (1/2*t)); intros sh ch _ _ Hu.
  replace (ch * ch + sh * sh) with 1 by lra. rewrite sqrt_1.
  tuple_eq ltac:(unit_eq).
Qed.
Print Assumptions C04_matrix_quaternion_matrix_Rx.

(* ---------------------------------------------------------------- SE3 -> UnitDualQuaternion -> SE3 *)
Theorem C04_UDQ_roundtrip : forall X : M44 R, SE3 X -> r2q_degenerate Rops (IZR 100) (t2r3 X) = false ->
  tr_UDQ_SE3 Rops (udq_of_T Rops X) = X.
Proof.
  intros X HX Hd. destruct HX as [HR HL].
  destruct (r2q_roundtrip _ HR Hd) as (E & U & _).
  rewrite (SE3_decompose X (conj HR HL)) at 2. rewrite <- E. clear E.
  unfold udq_of_T. generalize dependent (r2q_100 Rops (t2r3 X)). intros r U. clear Hd HR.
  generalize (transl3 X). intros t. clear HL X.
  destruct_tuples. autounfold with smgen smlin in *. sm_simpl.
  repeat match goal with |- context [sqrt ?x] => replace x with 1 by (symmetry; unit_eq); rewrite sqrt_1 end.
  tuple_eq ltac:(unit_eq).
Qed.
Print Assumptions C04_UDQ_roundtrip.

(* non-vacuity: a rotation by 2 atan(1/2) about x is in SO(3) and not in the degenerate exit *)
Example C04_c_nonvacuous : SO3 (rotx_cs Rops (3/5) (4/5)) /\ r2q_degenerate Rops (IZR 100) (rotx_cs Rops (3/5) (4/5)) = false
  /\ r2q_100 Rops (rotx_cs Rops (3/5) (4/5)) <> qone Rops.
Proof.
  assert (S : SO3 (rotx_cs Rops (3/5) (4/5))) by (apply SO3_rotx; lra).
  assert (D : r2q_degenerate Rops (IZR 100) (rotx_cs Rops (3/5) (4/5)) = false).
  { unfold r2q_degenerate. cbn [ltb abs_ mul eps Rops]. apply Rltb_false.
    unfold rotx_cs, norm3, normsq3, dot3, r2q_kv, r2q_add, r2q_branch. cbn [leb add sub mul one zero neg sqrt_ Rops].
    replace (Rleb (3/5) 1 && Rleb (3/5) 1) with true by (symmetry; apply andb_true_iff; split; apply Rleb_true; lra).
    replace (Rleb 0 (4/5 - - (4/5))) with true by (symmetry; apply Rleb_true; lra).
    match goal with |- ~ Rabs (sqrt ?x) < _ => replace x with ((12/5)*(12/5)) by field end.
    rewrite sqrt_square by lra. rewrite Rabs_right by lra. lra. }
  split; [exact S|split; [exact D|]].
  intros E. destruct (r2q_roundtrip _ S D) as [Q _]. rewrite E in Q.
  unfold rotx_cs in Q. lin_simpl. injection Q; intros; lra.
Qed.
