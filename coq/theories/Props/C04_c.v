(* C04 (c) -- rotation matrix -> quaternion (base.r2q, hand model Model/C04_R2q.v tied to the implementation by the
   numeric correspondence of every run) and back; constructors that go through r2q (RPY in each order, Eul; OA and the
   UnitQuaternion(SO3) / UnitQuaternion(matrix) constructors are the same composition); UnitDualQuaternion(SE3).SE3(). *)
From Coq Require Import Reals ZArith Lra Nsatz Psatz Bool.
From SM Require Import Base.Ops Base.Lin Base.RInst Base.RLin Model.C04_R2q Model.C04_R2qCore Model.C04_R2qProofs.
From SMgen Require Import Traces_C04.
Open Scope R_scope.

Ltac gen_unfold := intros; destruct_tuples; autounfold with smgen smlin in *; sm_simpl.
Ltac nopow := repeat match goal with |- context [?x ^ 2] => replace (x ^ 2) with (x * x) by ring end.
Ltac clear_ineq := repeat match goal with H : _ < _ |- _ => clear H | H : _ <= _ |- _ => clear H | H : _ <> _ |- _ => clear H end.
Ltac unit_eq := first [ solve [clear_ineq; nsatz] | field_simplify_eq; [ solve [clear_ineq; nopow; nsatz] | (repeat split; try lra; nra) .. ] ].

(* FULL statement, for every rotation matrix (since /repo 1cdf860 r2q takes the vector part from the skew part when trace > 0 and has
   no reachable degenerate exit; the former C04_r2q_roundtrip_refuted / _partial pair is gone): the round trip is exact, the result is
   a unit quaternion and its scalar part is >= 0 (so q and -q both come back as the same representative).
   trace > 0, and trace <= 0 with the three "largest diagonal" branches x both signs. *)
Theorem C04_r2q_roundtrip : forall A : M33 R, SO3 A ->
  q2r_ref Rops (r2q_100 Rops A) = A /\ qnormsq Rops (r2q_100 Rops A) = 1 /\ 0 <= fst (fst (fst (r2q_100 Rops A))).
Proof. exact r2q_roundtrip. Qed.
Print Assumptions C04_r2q_roundtrip.

(* the `abs(nm) < tol*_eps -> eye()` exit, only reachable when trace <= 0, is never taken by a rotation matrix *)
Theorem C04_r2q_degenerate_unreachable : forall A : M33 R, SO3 A -> r2q_trpos Rops A = false ->
  r2q_degenerate Rops (IZR 100) A = false.
Proof. exact r2q_degenerate_unreachable. Qed.
Print Assumptions C04_r2q_degenerate_unreachable.

(* the six branch lemmas cover a matrix of each kind: the branch selector is total *)
Theorem C04_r2q_branch_total : forall A : M33 R, (r2q_branch Rops A <= 2)%nat.
Proof. intros A. destruct_tuples. unfold r2q_branch. repeat match goal with |- context [if ?b then _ else _] => destruct b end; auto. Qed.
Print Assumptions C04_r2q_branch_total.

(* ---------------------------------------------------------------- constructors that go through r2q *)
Ltac cs_pair a :=
  let H := fresh "Hcs" in
  (pose proof (cs_unit a) as H; generalize dependent (cos a); generalize dependent (sin a); intros ? ? H).
Ltac cs_pairs := repeat match goal with |- context [cos ?a] => cs_pair a end.

Theorem C04_RPY_Eul_in_SO3 : forall a : V3 R,
  SO3 (tr_SO3_RPY_zyx Rops a) /\ SO3 (tr_SO3_RPY_xyz Rops a) /\ SO3 (tr_SO3_RPY_yxz Rops a) /\ SO3 (tr_SO3_Eul Rops a).
Proof.
  intros a. destruct_tuples. repeat split; autounfold with smgen smlin; sm_simpl; cs_pairs; nsatz.
Qed.
Print Assumptions C04_RPY_Eul_in_SO3.

(* UnitQuaternion.RPY(a, order) = r2q(rpy2r(a, order)), UnitQuaternion.Eul(a) = r2q(eul2r(a)) (this composition is checked
   against the implementation on every run, oracle keys struct:...): it is the same rotation as SO3.RPY / SO3.Eul *)
Theorem C04_RPY_Eul_agree : forall a : V3 R,
  q2r_ref Rops (r2q_100 Rops (tr_SO3_RPY_zyx Rops a)) = tr_SO3_RPY_zyx Rops a /\
  q2r_ref Rops (r2q_100 Rops (tr_SO3_RPY_xyz Rops a)) = tr_SO3_RPY_xyz Rops a /\
  q2r_ref Rops (r2q_100 Rops (tr_SO3_RPY_yxz Rops a)) = tr_SO3_RPY_yxz Rops a /\
  q2r_ref Rops (r2q_100 Rops (tr_SO3_Eul Rops a)) = tr_SO3_Eul Rops a.
Proof.
  intros a. destruct (C04_RPY_Eul_in_SO3 a) as (H1 & H2 & H3 & H4).
  repeat split; apply r2q_roundtrip; assumption.
Qed.
Print Assumptions C04_RPY_Eul_agree.

(* named constructors agree also through r2q: r2q(rotx t) is UnitQuaternion.Rx t up to sign -- stated on the matrix side *)
Theorem C04_matrix_quaternion_matrix_Rx : forall t : R,
  q2r_ref Rops (r2q_100 Rops (tr_SO3_Rx Rops t)) = q2r_ref Rops (tr_UQ_Rx Rops t).
Proof.
  intros t. assert (S : SO3 (tr_SO3_Rx Rops t)).
  { autounfold with smgen smlin; sm_simpl. pose proof (cs_unit t). unfold SO3. repeat split; nsatz. }
  destruct (r2q_roundtrip _ S) as [E _]. rewrite E. clear E S.
  assert (Hh : cos t = cos (1/2*t) * cos (1/2*t) - sin (1/2*t) * sin (1/2*t) /\ sin t = 2 * sin (1/2*t) * cos (1/2*t)).
  { assert (E : t = 2 * (1/2*t)) by field. split; [rewrite E at 1; apply cos_2a | rewrite E at 1; apply sin_2a]. }
  destruct Hh as [Hc Hs]. pose proof (cs_unit (1/2*t)) as Hu.
  autounfold with smgen smlin; sm_simpl. rewrite Hc, Hs.
  generalize dependent (cos (1/2*t)); generalize dependent (sin (1/2*t)); intros sh ch _ _ Hu.
  replace (ch * ch + sh * sh) with 1 by lra. rewrite sqrt_1.
  tuple_eq ltac:(unit_eq).
Qed.
Print Assumptions C04_matrix_quaternion_matrix_Rx.

(* ---------------------------------------------------------------- SE3 -> UnitDualQuaternion -> SE3 *)
Theorem C04_UDQ_roundtrip : forall X : M44 R, SE3 X ->
  tr_UDQ_SE3 Rops (udq_of_T Rops X) = X.
Proof.
  intros X HX. destruct HX as [HR HL].
  destruct (r2q_roundtrip _ HR) as (E & U & _).
  rewrite (SE3_decompose X (conj HR HL)) at 2. rewrite <- E. clear E.
  unfold udq_of_T. generalize dependent (r2q_100 Rops (t2r3 X)). intros r U. clear HR.
  generalize (transl3 X). intros t. clear HL X.
  destruct_tuples. autounfold with smgen smlin in *. sm_simpl.
  repeat match goal with |- context [sqrt ?x] => replace x with 1 by (symmetry; unit_eq); rewrite sqrt_1 end.
  tuple_eq ltac:(unit_eq).
Qed.
Print Assumptions C04_UDQ_roundtrip.

(* non-vacuity: rotations on both sides of trace = 0 are in SO(3), and r2q does not return the identity quaternion for them *)
Example C04_c_nonvacuous : SO3 (rotx_cs Rops (3/5) (4/5)) /\ SO3 (rotx_cs Rops (-4/5) (3/5)) /\
  r2q_trpos Rops (rotx_cs Rops (3/5) (4/5)) = true /\ r2q_trpos Rops (rotx_cs Rops (-4/5) (3/5)) = false /\
  r2q_100 Rops (rotx_cs Rops (-4/5) (3/5)) <> qone Rops.
Proof.
  assert (S1 : SO3 (rotx_cs Rops (3/5) (4/5))) by (apply SO3_rotx; lra).
  assert (S2 : SO3 (rotx_cs Rops (-4/5) (3/5))) by (apply SO3_rotx; lra).
  split; [exact S1|]. split; [exact S2|]. split; [|split].
  - unfold r2q_trpos, rotx_cs. cbn [ltb add one zero Rops]. apply Rltb_true. lra.
  - unfold r2q_trpos, rotx_cs. cbn [ltb add one zero Rops]. apply Rltb_false. lra.
  - intros E. destruct (r2q_roundtrip _ S2) as [Q _]. rewrite E in Q.
    unfold rotx_cs in Q. lin_simpl. injection Q; intros; lra.
Qed.
