(* C12 -- Quaternion.exp of a pure quaternion IS the exponential power series in the Hamilton algebra (L-real).
   For a unit vector u and every theta, with q = (0, u) and q^k the k-fold Hamilton product (qpow_nat, the model of base.qpow):
        Sum_k theta^k/k! (q^k)_c = (cos theta, sin theta u)_c      for each component c       (C12_pure_exp_is_series)
   and for theta > 0 that closed form is what the hand model of Quaternion.exp returns on (0, theta u), as a UnitQuaternion,
   with the thresholds regenerated from the source on this run                                   (C12_qexp_pure).
   Lemma library: theories/Model/C12_Series.v (fixed, built at setup; reuses Model/C03_Series.v). *)
From Coq Require Import Reals ZArith Lra Lia.
From Coquelicot Require Import Coquelicot.
From SM Require Import Base.Ops Base.Lin Base.RInst Model.Quat Model.C12_ExpLog Model.C12_ExpLogR Model.C03_Series Model.C12_Series.
From SMgen Require Import Consts_C12.
Open Scope R_scope.

Definition KR : qthr R := C12_thr Rops.

Theorem C12_pure_exp_is_series : forall (u0 u1 u2 th : R), u0*u0 + u1*u1 + u2*u2 = 1 ->
  forall c, (c < 4)%nat ->
  is_pseries (fun k => e4 (qpow_nat Rops (0, u0, u1, u2) k) c / INR (fact k)) th
             (e4 (cos th, sin th * u0, sin th * u1, sin th * u2) c).
Proof. intros u0 u1 u2 th Hu c Hc. exact (pure_qexp_is_series u0 u1 u2 th Hu c Hc). Qed.
Print Assumptions C12_pure_exp_is_series.

Theorem C12_qexp_pure : forall (u0 u1 u2 th : R), u0*u0 + u1*u1 + u2*u2 = 1 -> 0 < th ->
  qexp Rops KR (0, th * u0, th * u1, th * u2) = Ok (true, (cos th, sin th * u0, sin th * u1, sin th * u2)).
Proof.
  intros u0 u1 u2 th Hu Hth.
  assert (Ht : 0 < t_exp KR /\ 0 < t_unit KR /\ t_unit KR <= 1/2) by (unfold KR, C12_thr; sm_simpl; cbn [t_exp t_unit]; repeat split; lra).
  destruct Ht as (Hte & Htu & Htu2).
  assert (Hn : nv3 (th * u0) (th * u1) (th * u2) = th).
  { unfold nv3. replace (th * u0 * (th * u0) + th * u1 * (th * u1) + th * u2 * (th * u2)) with (th * th * (u0*u0 + u1*u1 + u2*u2)) by ring.
    rewrite Hu, Rmult_1_r. apply sqrt_square. lra. }
  rewrite qexp_R by (rewrite Hn; exact Hth). cbv zeta. rewrite Hn, exp_0, Rabs_R0.
  replace (Rltb 0 (t_exp KR)) with true by (symmetry; apply Rltb_true; exact Hte).
  replace (1 * cos th) with (cos th) by ring.
  replace (1 * (th * u0) / th * sin th) with (sin th * u0) by (field; lra).
  replace (1 * (th * u1) / th * sin th) with (sin th * u1) by (field; lra).
  replace (1 * (th * u2) / th * sin th) with (sin th * u2) by (field; lra).
  assert (HN : nq4 (cos th) (sin th * u0) (sin th * u1) (sin th * u2) = 1).
  { unfold nq4. replace (cos th * cos th + sin th * u0 * (sin th * u0) + sin th * u1 * (sin th * u1) + sin th * u2 * (sin th * u2))
      with (cos th * cos th + sin th * sin th * (u0*u0 + u1*u1 + u2*u2)) by ring.
    rewrite Hu, Rmult_1_r. pose proof (sin2_cos2 th) as E. unfold Rsqr in E. replace (cos th * cos th + sin th * sin th) with 1 by lra. apply sqrt_1. }
  rewrite qunit_R by (rewrite HN; lra). cbv zeta. rewrite HN. cbn [qbind]. unfold Rdiv. rewrite Rinv_1, !Rmult_1_r. reflexivity.
Qed.
Print Assumptions C12_qexp_pure.

Example C12_series_nonvacuous :
  (3/5)*(3/5) + 0*0 + (4/5)*(4/5) = 1 /\
  e4 (qpow_nat Rops (0, 1, 0, 0) 2) 0 / INR (fact 2) = -1/2 /\ e4 (qpow_nat Rops (0, 1, 0, 0) 3) 1 / INR (fact 3) = -1/6.
Proof. repeat split; try field; cbn [qpow_nat]; autounfold with smlin; sm_simpl; cbn [e4 fact Nat.mul Nat.add INR]; simpl; field. Qed.
