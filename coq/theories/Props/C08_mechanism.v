(* C08 -- the mechanisms behind the table: the inheritance and method-resolution facts of the regenerated hierarchy, and
   lemmas about the operator methods that hold for EVERY length (not only the table's 1 and 3) -- the forms the earlier
   defects took (SE3 * SO3 = identity, pose + unrelated = None, inherited list concatenation / repetition, DualQuaternion * x
   = None) are excluded here for all n.  See Props/C08.v for the table theorems and the conventions. *)
From Coq Require Import List Bool Arith NArith.
Import ListNotations.
From SM Require Import Model.C08_Ops.
From SMgen Require Import Hierarchy_C08.

(* the inheritance facts the dispatch code has to cope with, for the regenerated hierarchy *)
Theorem C08_hierarchy_facts :
  strict_subclass H SE3 SO3 = true /\ strict_subclass H SE2 SO2 = true /\
  strict_subclass H SO3 SE3 = false /\ strict_subclass H SO2 SE2 = false /\
  strict_subclass H UnitQuaternion Quaternion = true /\ strict_subclass H UnitDualQuaternion DualQuaternion = true /\
  (* the only proper-subclass pairs among the 16 public classes *)
  filter (fun p => strict_subclass H (fst p) (snd p)) (list_prod all_cls all_cls)
    = [(SE2, SO2); (SE3, SO3); (UnitQuaternion, Quaternion); (UnitDualQuaternion, DualQuaternion)].
Proof. vm_compute. repeat split; reflexivity. Qed.
Print Assumptions C08_hierarchy_facts.

(* method resolution, computed from the regenerated tables: the classes that define no + / * / == of their own get
   SMUserList's (which raise / compare element-wise), never collections.UserList's list operations *)
Theorem C08_method_resolution :
  forallb (fun c => forallb (fun m => negb (opt_pyc_beq (owner H c m) (Some (B UserList))))
                            [Fwd Add; Rev Add; Fwd Mul; Rev Mul; Fwd Eq; Fwd Ne]) all_cls = true /\
  owner H Twist3 (Fwd Add) = Some (B SMUserList) /\ owner H Twist2 (Fwd Add) = Some (B SMUserList) /\
  owner H Plucker (Fwd Add) = Some (B SMUserList) /\
  owner H SpatialVelocity (Fwd Mul) = Some (B SMUserList) /\ owner H SpatialVelocity (Fwd Eq) = Some (B SMUserList) /\
  owner H SpatialInertia (Fwd Eq) = Some (B SMUserList) /\ owner H SpatialInertia (Fwd Ne) = Some (B SMUserList) /\
  owner H Twist2 (Rev Mul) = Some (C Twist2) /\ owner H Twist3 (Rev Mul) = Some (C Twist3) /\
  owner H SE3 (Fwd Mul) = Some (B SMPose) /\ owner H SE3 (Rev Mul) = owner H SO3 (Rev Mul) /\
  owner H UnitDualQuaternion (Fwd Mul) = Some (C DualQuaternion) /\ owner H DualQuaternion (Rev Mul) = None /\
  owner H DualQuaternion (Fwd Eq) = Some (B PyObject).
Proof. vm_compute. repeat split; reflexivity. Qed.
Print Assumptions C08_method_resolution.

(* (was C08_mechanism_identity: "... return the default identity")  For EVERY length n: a pose times / over an object of any
   OTHER class -- in particular an instance of its superclass -- is not a composition: __mul__ declines, __truediv__ raises *)
Theorem C08_pose_composition_same_class_only : forall (n : nat) (l r : cls),
  is_pose H l = true -> cls_beq l r = false ->
  SMPose_mul H n l (Obj r) = NotImpl /\ SMPose_div H n l (Obj r) = Out Raise.
Proof.
  intros n l r _ Hlr. split; [apply SMPose_mul_other_class_declines | apply SMPose_div_other_class_raises]; assumption.
Qed.
Print Assumptions C08_pose_composition_same_class_only.
Example C08_pose_composition_nonvacuous : is_pose H SE3 = true /\ cls_beq SE3 SO3 = false /\ strict_subclass H SE3 SO3 = true.
Proof. vm_compute. repeat split; reflexivity. Qed.

(* ... and the whole protocol turns that into an exception, for every n and in both orders: neither operand's reflected method
   accepts a pose, and Python's "subclass first" rule does not apply (SE3 does not override __rmul__) *)
Theorem C08_subclass_pairs_raise : forall n : nat,
  binop H n Mul (Obj SE3) (Obj SO3) = Raise /\ binop H n Div (Obj SE3) (Obj SO3) = Raise /\
  binop H n Mul (Obj SO3) (Obj SE3) = Raise /\ binop H n Div (Obj SO3) (Obj SE3) = Raise /\
  binop H n Mul (Obj SE2) (Obj SO2) = Raise /\ binop H n Div (Obj SE2) (Obj SO2) = Raise /\
  binop H n Mul (Obj SO2) (Obj SE2) = Raise /\ binop H n Div (Obj SO2) (Obj SE2) = Raise /\
  binop H n Add (Obj SE3) (Obj SO3) = Raise /\ binop H n Sub (Obj SE3) (Obj SO3) = Raise /\
  binop H n Add (Obj SO3) (Obj SE3) = Raise /\ binop H n Sub (Obj SO3) (Obj SE3) = Raise.
Proof. intro n. vm_compute. repeat split; reflexivity. Qed.
Print Assumptions C08_subclass_pairs_raise.

(* (was C08_mechanism_none: "... returns None")  the shared helper of + and - raises for every right operand of an unrelated
   class, for every length, and never yields None at all *)
Theorem C08_pose_addsub_unrelated_raises : forall (n : nat) (l r : cls),
  isinst H r (C l) = false -> SMPose_addsub H n l (Obj r) = Out Raise.
Proof. intros. now apply SMPose_addsub_unrelated_raises. Qed.
Print Assumptions C08_pose_addsub_unrelated_raises.
Example C08_pose_addsub_nonvacuous : isinst H SO3 (C SE3) = false /\ isinst H Quaternion (C SE3) = false.
Proof. vm_compute. split; reflexivity. Qed.
Theorem C08_pose_addsub_never_none : forall (n : nat) (l : cls) (r : kind), SMPose_addsub H n l r <> Out ReturnsNone.
Proof. intros. apply SMPose_addsub_never_none. Qed.
Print Assumptions C08_pose_addsub_never_none.

(* for EVERY length and EVERY right operand kind of the table: the classes that define no + (twists, Plucker) raise on +,
   the spatial-vector classes raise on * from the left, and a dual quaternion times anything that is not a dual quaternion
   (or, for a unit one, a 3-vector) raises *)
Theorem C08_no_inherited_list_arithmetic : forall (n : nat) (r : kind), In r all_kinds ->
  forallb (fun X => outcome_beq (binop H n Add (Obj X) r) Raise) [Twist2; Twist3; Plucker] = true /\
  forallb (fun X => outcome_beq (binop H n Mul (Obj X) r) Raise) [SpatialVelocity; SpatialAcceleration; SpatialForce; SpatialMomentum] = true.
Proof.
  intros n r Hr. simpl in Hr.
  repeat (destruct Hr as [<- | Hr]; [vm_compute; split; reflexivity |]). destruct Hr.
Qed.
Print Assumptions C08_no_inherited_list_arithmetic.

Theorem C08_dual_quaternion_mul_raises : forall (n : nat) (r : kind), In r all_kinds ->
  match r with Obj DualQuaternion | Obj UnitDualQuaternion => true | _ => false end = false ->
  binop H n Mul (Obj DualQuaternion) r = Raise /\
  (isvector (match r with KArr s => s | _ => [] end) 3 = false -> binop H n Mul (Obj UnitDualQuaternion) r = Raise).
Proof.
  intros n r Hr Hnd. simpl in Hr.
  repeat (destruct Hr as [<- | Hr];
          [first [ discriminate Hnd | vm_compute; split; [reflexivity | intro Hv; first [discriminate Hv | reflexivity]] ] |]).
  destruct Hr.
Qed.
Print Assumptions C08_dual_quaternion_mul_raises.
Example C08_dual_quaternion_mul_nonvacuous :
  In KFloat all_kinds /\ In (Obj SE3) all_kinds /\ isvector [3; 3] 3 = false /\
  binop H 3 Mul (Obj UnitDualQuaternion) (KArr [3]) = Value RArray Computed.
Proof. vm_compute. repeat split; tauto. Qed.
