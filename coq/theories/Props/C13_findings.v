(* C13 (part 4) -- where the faithful model of the unchanged code violates the full statement:
   `_refuted` (witness) + `_partial` (what does hold) pairs.  The full statements stay visible in comments.
   (adjoint(3x3) and SE3.jacob were repaired in /repo by 892f8ec and 5493c9a: their full statements are in C13_adjoint.v.)
   isR_model (theories/Model/C13_valid.v) is the validity test the SE3 constructor applies, tied numerically. *)
From Coq Require Import Reals ZArith Lra Psatz Bool.
From SM Require Import Base.Ops Base.Lin Base.RInst Base.RLin Model.C13_valid.
From SMgen Require Import Traces_C13.
Open Scope R_scope.

Ltac gen_unfold := intros; destruct_tuples; autounfold with smgen smlin in *; sm_simpl.
Definition tw_w (s : V6 R) : V3 R := let '(_,_,_,w0,w1,w2) := s in (w0,w1,w2).

(* ---- SE3.Delta(d) = SE3(delta2tr(d)): the constructor applies isR to I + skew(w), which is not orthogonal.
   FULL STATEMENT:  forall d, |d| <= 1e-2 -> isR_model Rops (IZR isR_tol) (t2r3 (tr_delta2tr Rops d)) = true
   (isR_tol: the tolerance the constructor passes, regenerated from the code; the model is parametric in it). *)
(* exact orthogonality defect and determinant of the rotation block of delta2tr(d), for every d *)
Theorem C13_Delta_defect : forall d : V6 R,
  let Rd := t2r3 (tr_delta2tr Rops d) in let n := normsq3 Rops (tw_w d) in
  frobsq33 Rops (orth_resid Rops Rd) = 2 * (n * n) /\ det33 Rops Rd = 1 + n /\
  det33 Rops (mmul33 Rops Rd (mtr33 Rd)) = (1 + n) * (1 + n).
Proof. intros d; cbv zeta. unfold frobsq33, orth_resid, tw_w. repeat split; gen_unfold; ring. Qed.
Print Assumptions C13_Delta_defect.

Lemma normsq3_nonneg (w : V3 R) : 0 <= normsq3 Rops w.
Proof. gen_unfold. nra. Qed.

(* the constructor accepts delta2tr(d) exactly when sqrt(2) |w|^2 < tol eps  (tol = 100: |w| below about 1.25e-7) *)
Theorem C13_Delta_accepted_iff : forall (tol : R) (d : V6 R),
  isR_model Rops tol (t2r3 (tr_delta2tr Rops d)) = true <-> sqrt 2 * normsq3 Rops (tw_w d) < tol * eps Rops.
Proof.
  intros tol d. destruct (C13_Delta_defect d) as (Hf & Hd & _). cbv zeta in *.
  pose proof (normsq3_nonneg (tw_w d)) as Hn. unfold isR_model. rewrite Hf, Hd.
  rewrite sqrt_mult_alt by lra. rewrite sqrt_square by exact Hn.
  rewrite andb_true_iff. change (ltb Rops) with Rltb. rewrite !Rltb_true.
  change (zero Rops) with 0. change (mul Rops tol (eps Rops)) with (tol * eps Rops).
  split; [tauto|]. intro H; split; [exact H|nra].
Qed.
Print Assumptions C13_Delta_accepted_iff.

Theorem C13_Delta_refuted : exists d : V6 R,
  normsq3 Rops (tw_w d) <= (1/100) * (1/100) /\ isR_model Rops (IZR isR_tol) (t2r3 (tr_delta2tr Rops d)) = false.
Proof.
  exists (0,0,0,1/1000,0,0). split; [unfold tw_w; lin_simpl; lra|].
  apply not_true_is_false. rewrite C13_Delta_accepted_iff. unfold tw_w. lin_simpl. unfold isR_tol.
  assert (1 <= sqrt 2) by (rewrite <- sqrt_1 at 1; apply sqrt_le_1_alt; lra). nra.
Qed.
Print Assumptions C13_Delta_refuted.

Theorem C13_Delta_partial : forall d : V6 R,
  tw_w d = (0,0,0) -> isR_model Rops (IZR isR_tol) (t2r3 (tr_delta2tr Rops d)) = true /\ SE3 (tr_delta2tr Rops d).
Proof.
  intros d H. split.
  - rewrite C13_Delta_accepted_iff, H. lin_simpl. unfold isR_tol. lra.
  - revert H. unfold tw_w. gen_unfold. injection H; intros; subst. unfold SE3, SO3. lin_simpl.
    split; [repeat split; ring|]. tuple_eq ltac:(ring).
Qed.
Print Assumptions C13_Delta_partial.

Example C13_Delta_partial_nonvacuous : tw_w (1/100, -1/50, 3/100, 0, 0, 0) = (0,0,0) /\
  tr_delta2tr Rops (1/100, -1/50, 3/100, 0, 0, 0) <> I44 Rops.
Proof. split; [reflexivity|]. autounfold with smgen smlin; sm_simpl. intro H; injection H; intros; lra. Qed.
