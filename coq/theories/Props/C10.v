(* C10 -- list behaviour of the pose / quaternion / twist classes matches a Python list of the element values.
   Model (theories/Model/C10_SMList.v) mirrors spatialmath/smuserlist.py as it is; specification
   (theories/Model/C10_PyList.v) is the CPython list.  Both are tied to /repo and to a real Python list on every run
   by props/C10.py (three-way T-seq).  Kind B: lists and Z only -- no Reals, no axioms.

   After the fix commits 639aa3a (slices through slice.indices, Empty() for an empty result), 40af48b (the same for
   SpatialVector.__getitem__) and e8a8671 (extend uses iterable.data) the slice and extend theorems are FULL STRENGTH
   (no guard, every class).

   Fix 1105ad0 (cls([]) gives an empty object) makes construction full strength too.

   Fix b1d6482 (append/insert/__setitem__ test len(x) != 1) removes the last root cause: the FULL STATEMENT
     forall C st ops, run (m_step C) st ops = run s_step st ops
   is now proved without any guard (C10_run_refines), for every class and every history of any length.          *)
From Coq Require Import ZArith List Lia Bool.
From SM Require Import Model.C10_PyList Model.C10_SMList Model.C10_World.
Import ListNotations.
Open Scope Z_scope.

Definition SE3like : cls := Build_cls true.       (* poses, quaternions, twists: SMUserList.__getitem__ *)
Definition SVlike : cls := Build_cls false.       (* SpatialVector family: its own __getitem__ over data[i] *)

(* ---- integer index: IndexError exactly when a list would, otherwise the element a list would give, as one object;
        all lengths, all indices, every class *)
Theorem C10_int_index : forall C st i,
  m_step C st (GetItem i) = s_step st (GetItem i) /\
  (snd (m_step C st (GetItem i)) = Raise IndexError <-> (i < - zlen st \/ zlen st <= i)) /\
  (forall r, snd (m_step C st (GetItem i)) = Ok r ->
     exists p, 0 <= p < zlen st /\ (p = i \/ p = i + zlen st) /\ r = Obj [znth st p]) /\
  fst (m_step C st (GetItem i)) = st.
Proof.
  intros C st i. split; [reflexivity|]. cbn [m_step fst snd]. unfold py_getitem.
  destruct (py_index_spec (zlen st) i (zlen_nonneg st)) as [H1 H2].
  destruct (py_index (zlen st) i) as [p|e] eqn:E.
  - split; [|split; [|reflexivity]].
    + split; [discriminate|]. intros H. apply H1 in H. discriminate.
    + intros r Hr. inversion Hr; subst. exists p. destruct (H2 p eq_refl) as [Ha Hb]. split; [lia|]. split; [exact Hb | reflexivity].
  - split; [|split; [|reflexivity]].
    + unfold py_index in E. destruct ((i <? - zlen st) || (zlen st <=? i)); inversion E; subst.
      split; [intros _; apply H1; reflexivity | reflexivity].
    + discriminate.
Qed.
Print Assumptions C10_int_index.

Example C10_int_index_ex :
  m_step SE3like [1;2;3] (GetItem (-1)) = ([1;2;3], Ok (Obj [3])) /\
  m_step SE3like [1;2;3] (GetItem 3) = ([1;2;3], Raise IndexError) /\
  m_step SE3like [1;2;3] (GetItem (-4)) = ([1;2;3], Raise IndexError).
Proof. repeat split. Qed.

(* ---- slices, FULL STRENGTH: for every list, start, stop and step (omitted, negative, out of range, step 0 included)
        the result, its error kind and the state are those of a Python list *)
Theorem C10_slice_full : forall C st a b c,
  m_step C st (GetSlice a b c) = s_step st (GetSlice a b c).
Proof. intros C st a b c. cbn [m_step s_step]. rewrite (slice_full C st a b c). reflexivity. Qed.
Print Assumptions C10_slice_full.

(* every selected position is a position of the list (so no data[k] can raise), all lengths and arguments *)
Theorem C10_slice_positions_in_range : forall len a b c ks, 0 <= len ->
  py_slice_indices len a b c = Ok ks -> forall k, In k ks -> 0 <= k < len.
Proof. exact slice_indices_in_range. Qed.
Print Assumptions C10_slice_positions_in_range.

(* the cells that were wrong before the fix, now equal to the list's value *)
Example C10_slice_examples :
  let st := [1;2;3;4;5] in
  snd (m_step SE3like st (GetSlice (Some 0) (Some (-1)) None)) = Ok (Obj [1;2;3;4]) /\
  snd (m_step SE3like st (GetSlice (Some (-2)) None None)) = Ok (Obj [4;5]) /\
  snd (m_step SE3like st (GetSlice None None (Some (-1)))) = Ok (Obj [5;4;3;2;1]) /\
  snd (m_step SE3like st (GetSlice (Some 3) (Some 9) None)) = Ok (Obj [4;5]) /\
  snd (m_step SE3like st (GetSlice None None (Some 0))) = Raise ValueError /\
  snd (m_step SE3like st (GetSlice (Some 2) (Some 2) None)) = Ok (Obj []) /\
  snd (m_step SE3like st (GetSlice (Some 1) (Some 4) (Some 2))) = Ok (Obj [2;4]) /\
  snd (m_step SE3like st (GetSlice (Some (-7)) (Some 7) (Some (-3)))) = Ok (Obj []).
Proof. vm_compute. repeat split. Qed.

(* the SpatialVector classes (own_slice = false) are covered by C10_slice_full as well; the cell that was wrong before 40af48b *)
Example C10_slice_delegate_ex :
  m_step SVlike [1;2;3;4;5] (GetSlice None None (Some (-2))) = ([1;2;3;4;5], Ok (Obj [5;3;1])) /\
  m_step SVlike [1;2;3;4;5] (GetSlice None None (Some 0)) = ([1;2;3;4;5], Raise ValueError) /\
  m_step SVlike [1;2;3;4;5] (GetSlice (Some 2) (Some 2) None) = ([1;2;3;4;5], Ok (Obj [])).
Proof. vm_compute. repeat split. Qed.

(* the property's slice grid (lengths 0..5, start/stop in {None,-7..7}, step in {None,+-1,+-2,+-3}: 6 x 1792 cells),
   decided completely: the number of cells on which model and list disagree (none, for either __getitem__) *)
Theorem C10_slice_grid_census :
  Z.of_nat (length grid_slices) = 1792 /\
  Z.of_nat (grid_disagreements SE3like) = 0 /\ Z.of_nat (grid_disagreements SVlike) = 0.
Proof. vm_compute. repeat split. Qed.
Print Assumptions C10_slice_grid_census.

(* ---- iteration: yields every element, in order, each as a single-valued object of the class; all lengths *)
Theorem C10_iter : forall C st, m_step C st Iter = (st, Ok (Objs (map (fun t => [t]) st))).
Proof. intros. cbn [m_step]. rewrite m_iter_spec. reflexivity. Qed.
Print Assumptions C10_iter.

(* ---- every operation, UNCONDITIONAL: every class, every state, every operation and operand *)
Theorem C10_step_refines : forall C st o, m_step C st o = s_step st o.
Proof. exact step_refines. Qed.
Print Assumptions C10_step_refines.

(* ---- operation sequences of ANY length (induction over the sequence): final state and every output, error kinds
        included, equal those of the list *)
Theorem C10_run_refines : forall C ops st, run (m_step C) st ops = run s_step st ops.
Proof. exact run_refines. Qed.
Print Assumptions C10_run_refines.

Example C10_run_refines_nonvacuous :
  let ops := [Append (Same [7]); Insert (-9) (Same [8]); GetItem (-1); SetItem 1 (Same [9]); Pop 0; Extend (Same [5;6]);
              Extend (Same []); GetSlice (Some (-2)) (Some (-9)) (Some (-2)); Iter; DelItem (-2); Reverse; Pop 7; SetItem 0 Other;
              Extend (Same [4]); GetSlice (Some 3) (Some 3) None; GetSlice None None (Some 0); Pop (-1);
              Append (Same [1;2]); CtorIter; DelSlice None None (Some (-2)); Len; Clear; Pop (-1); Alloc 2; CtorCopy; Append (Same []); Insert 0 (Same [])] in
  run (m_step SE3like) [1;2;3] ops = run s_step [1;2;3] ops /\
  fst (run (m_step SE3like) [1;2;3] ops) = [0;0] /\
  nth 7 (snd (run (m_step SE3like) [1;2;3] ops)) (Raise TypeError) = Ok (Obj [5;3;9]) /\
  nth 11 (snd (run (m_step SE3like) [1;2;3] ops)) (Ok NoneV) = Raise IndexError /\
  nth 14 (snd (run (m_step SE3like) [1;2;3] ops)) (Ok NoneV) = Ok (Obj []) /\
  nth 15 (snd (run (m_step SE3like) [1;2;3] ops)) (Ok NoneV) = Raise ValueError.
Proof. vm_compute. repeat split. Qed.

(* ---- extend, FULL STRENGTH: every operand of the same class, of any length (0, 1, many) *)
Theorem C10_extend_full : forall C st ts,
  m_step C st (Extend (Same ts)) = s_step st (Extend (Same ts)) /\ m_step C st (Extend (Same ts)) = (st ++ ts, Ok NoneV).
Proof. intros. split; reflexivity. Qed.
Print Assumptions C10_extend_full.

Example C10_extend_ex : fst (m_step SE3like [1;2;3] (Extend (Same [9]))) = [1;2;3;9].
Proof. reflexivity. Qed.

(* ---- an EMPTY object is not a value: setitem/append/insert reject it like a multi-valued one (was _refuted before b1d6482) *)
Theorem C10_empty_operand_rejected : forall C st i,
  m_step C st (Append (Same [])) = (st, Raise ValueError) /\
  m_step C st (Insert i (Same [])) = (st, Raise ValueError) /\
  m_step C st (SetItem i (Same [])) = (st, Raise ValueError) /\
  m_step C st (Extend (Same [])) = (st ++ [], Ok NoneV).
Proof. intros. repeat split. Qed.
Print Assumptions C10_empty_operand_rejected.

(* ---- construction, FULL STRENGTH: from the object's own elements (iteration + constructor from a list of objects),
        from any list of single-valued objects (the empty list included), copy constructor, Alloc, Empty *)
Theorem C10_construction_full : forall C st ts n,
  m_step C st CtorIter = s_step st CtorIter /\ m_step C st CtorIter = (st, Ok NoneV) /\
  m_step C st (CtorFrom ts) = (ts, Ok NoneV) /\ m_step C st (CtorFrom ts) = s_step st (CtorFrom ts) /\
  m_step C st CtorCopy = (st, Ok NoneV) /\ m_step C st (Alloc n) = (py_repeat 0 n, Ok NoneV) /\ m_step C st Empty = ([], Ok NoneV).
Proof.
  intros C st ts n. assert (H : m_step C st CtorIter = (st, Ok NoneV)).
  { cbn [m_step]. rewrite m_iter_spec, map_obj_A_single. reflexivity. }
  rewrite H. repeat split.
Qed.
Print Assumptions C10_construction_full.

Example C10_construction_ex :
  m_step SE3like [] CtorIter = ([], Ok NoneV) /\ m_step SE3like [1] (CtorFrom []) = ([], Ok NoneV) /\
  m_step SVlike [4;5] CtorIter = ([4;5], Ok NoneV) /\ m_step SE3like [1] (Alloc 3) = ([0;0;0], Ok NoneV).
Proof. vm_compute. repeat split. Qed.

(* ---- a failed operation leaves the object unchanged: every operation, every state, every class, no guard *)
Theorem C10_failed_op_unchanged : forall C st o e, snd (m_step C st o) = Raise e -> fst (m_step C st o) = st.
Proof. exact failed_unchanged. Qed.
Print Assumptions C10_failed_op_unchanged.

(* ---- an object of another class, or a multi-valued one where one value is required, raises and changes nothing *)
Theorem C10_bad_operand_rejected : forall C st v i, bad_operand v ->
  m_step C st (Append v) = (st, Raise ValueError) /\
  m_step C st (Insert i v) = (st, Raise ValueError) /\
  m_step C st (SetItem i v) = (st, Raise ValueError) /\
  m_step C st (Extend Other) = (st, Raise ValueError).
Proof. intros C st v i H. cbn [m_step]. rewrite (bad_single_operand v H). repeat split. Qed.
Print Assumptions C10_bad_operand_rejected.

Example C10_bad_operand_nonvacuous : bad_operand Other /\ bad_operand (Same [4;5]) /\ bad_operand (Same []) /\
  m_step SE3like [1;2] (SetItem 9 (Same [4;5])) = ([1;2], Raise ValueError).
Proof. vm_compute. repeat split; discriminate. Qed.

(* ---- lengths: what each successful mutator does to len(), for every list and argument (specification side; carried
        to the model by C10_step_refines) *)
Theorem C10_lengths : forall st i v,
  zlen (py_insert st i v) = zlen st + 1 /\
  (forall st', py_setitem st i v = Ok st' -> zlen st' = zlen st) /\
  (forall st', py_delitem st i = Ok st' -> zlen st' = zlen st - 1) /\
  (forall x st', py_pop st i = Ok (x, st') -> zlen st' = zlen st - 1 /\ In x st).
Proof.
  intros st i v. repeat split.
  - apply py_insert_length.
  - apply py_setitem_length.
  - apply py_delitem_length.
  - eapply py_pop_length; eassumption.
  - eapply py_pop_length; eassumption.
Qed.
Print Assumptions C10_lengths.

(* ---- reversed(x): Sequence.__reversed__ through __getitem__ yields the elements in reverse order, all lengths *)
Theorem C10_reversed : forall C st, m_step C st IterRev = (st, Ok (Objs (map (fun t => [t]) (rev st)))).
Proof. intros. cbn [m_step]. rewrite m_reversed_spec. reflexivity. Qed.
Print Assumptions C10_reversed.

(* ==== several live objects and iterators (Model/C10_World.v): ownership of results, iteration protocol ==== *)

(* the generator of Sequence.__iter__ and the list iterator produce the same item / end at the same position,
   for every list and every position an iterator can reach *)
Theorem C10_iterator_next : forall st i, 0 <= i -> m_next st i = s_next st i.
Proof. exact next_agree. Qed.
Print Assumptions C10_iterator_next.

(* histories of ANY length over any number of objects and iterators -- operations addressed to the receiver, to earlier
   results (items, slices, popped values, constructed copies), iter() and next() in any interleaving: every output and
   every object's final state equal those of Python lists and list iterators *)
Theorem C10_world_refines : forall C ops w, wf w -> wrun (wm_step C) w ops = wrun ws_step w ops.
Proof. exact wrun_refines. Qed.
Print Assumptions C10_world_refines.

Corollary C10_world_refines_from_start : forall C ops n, wrun (wm_step C) (wstart n) ops = wrun ws_step (wstart n) ops.
Proof. intros. apply wrun_refines. constructor. Qed.
Print Assumptions C10_world_refines_from_start.

(* RESULTS SHARE NO STATE WITH THE RECEIVER: an operation changes no object other than the one it is applied to (a
   constructor and an iterator step change none); every object-valued result is a new object, appended to the store *)
Theorem C10_results_are_independent : forall C w a u, (u < length (objs w))%nat -> target a <> Some u ->
  nth_error (objs (fst (wm_step C w a))) u = nth_error (objs w) u /\
  (length (objs w) <= length (objs (fst (wm_step C w a))))%nat.
Proof. intros C w a u Hu Ht. split; [apply frame; assumption | apply objs_grow]. Qed.
Print Assumptions C10_results_are_independent.

(* two iterators over the same object are independent *)
Theorem C10_iterators_independent : forall C w j k, j <> k -> (j < length (its w))%nat ->
  nth_error (its (fst (wm_step C w (ItNext j)))) k = nth_error (its w) k.
Proof. intros. apply iterators_independent; assumption. Qed.
Print Assumptions C10_iterators_independent.

(* non-vacuity: x[0] of a single-valued object is a new object -- appending to it leaves x alone;
   zip(x, x) pairs every item with itself; an exhausted iterator stays exhausted after the object grows *)
Example C10_world_ex :
  objs (fst (wrun (wm_step SE3like) (wstart 1) [On 0 (GetItem 0); On 1 (Append (Same [9]))])) = [[1]; [1; 9]] /\
  snd (wrun (wm_step SE3like) (wstart 2) [ItNew 0; ItNew 0; ItNext 0; ItNext 1; ItNext 0; ItNext 1; ItNext 0; ItNext 1])
    = [Ok NoneV; Ok NoneV; Ok (Obj [1]); Ok (Obj [1]); Ok (Obj [2]); Ok (Obj [2]); Raise StopIteration; Raise StopIteration] /\
  snd (wrun (wm_step SE3like) (wstart 1) [ItNew 0; ItNext 0; ItNext 0; On 0 (Append (Same [7])); ItNext 0])
    = [Ok NoneV; Ok (Obj [1]); Raise StopIteration; Ok NoneV; Raise StopIteration].
Proof. vm_compute. repeat split. Qed.
