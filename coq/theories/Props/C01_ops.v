(* C01 (3/3) -- closure under the group operators, and the lift to EVERY expression tree.
   tr_SO3_mul, tr_SE3_div, tr_SE3_inv, ... are traces of the operators executed THROUGH THE CLASSES
   (SO3.__mul__, SMPose.__truediv__, SE3.inv, __pow__) on arbitrary symbolic operands, regenerated on every run.
   closure_expr (Model/C01_Expr.v, induction on the expression) is instantiated with these traces:
   any depth, any integer exponent, any product length. *)
From Coq Require Import Reals ZArith Lra Nsatz List.
Import ListNotations.
From SM Require Import Base.Ops Base.Lin Base.RInst Base.RLin Model.C01_Lemmas Model.C01_Expr.
From SMgen Require Import Traces_C01.
Open Scope R_scope.

Ltac open_tr := intros; destruct_tuples; autounfold with smgen smlin in *; unfold trinv_ref in *; autounfold with smlin in *; sm_simpl.
Ltac same_tr := open_tr; tuple_eq ltac:(ring).

(* ---------- what the traced operators are (polynomial identities, ring) ----------
   Closure is derived from these identities and the closure lemmas of Base/RLin.v.  Consequence: a change that makes an
   operator return a DIFFERENT group element (e.g. inv without the transpose) breaks these lemmas although the result may
   still be a member; the check then reports the broken lemma with "no-failing-input-found" (the law itself is C02's). *)
Lemma C01_SO3_ops_are : forall X Y : M33 R,
  tr_SO3_mul Rops X Y = mmul33 Rops X Y /\ tr_SO3_inv Rops X = mtr33 X /\ tr_SO3_div Rops X Y = mmul33 Rops X (mtr33 Y).
Proof. intros; repeat split; same_tr. Qed.
Lemma C01_SE3_ops_are : forall X Y : M44 R,
  tr_SE3_mul Rops X Y = mmul44 Rops X Y /\ tr_SE3_inv Rops X = trinv_ref X /\ tr_trinv Rops X = trinv_ref X.
Proof. intros; repeat split; same_tr. Qed.
(* X / Y is computed as X @ Y.inv(); on homogeneous operands this is the matrix product with the structured inverse *)
Lemma C01_SE3_div_is : forall X Y : M44 R, lastrow4 X = (0,0,0,1) -> tr_SE3_div Rops X Y = mmul44 Rops X (trinv_ref Y).
Proof. intros X Y H. destruct_tuples. unfold lastrow4 in H. injection H; intros; subst. same_tr. Qed.
Lemma C01_SO2_mul_is : forall X Y : M22 R, tr_SO2_mul Rops X Y = mmul22 Rops X Y.
Proof. same_tr. Qed.

(* ---------- closure of each operator ---------- *)
Lemma C01_SO3_closed : forall X Y, SO3 X -> SO3 Y ->
  SO3 (tr_SO3_mul Rops X Y) /\ SO3 (tr_SO3_div Rops X Y) /\ SO3 (tr_SO3_inv Rops X).
Proof.
  intros X Y HX HY. destruct (C01_SO3_ops_are X Y) as (-> & -> & ->).
  repeat split; [ apply SO3_mul | apply SO3_mul; [|apply SO3_tr] | apply SO3_tr ]; assumption.
Qed.
Lemma C01_SE3_closed : forall X Y, SE3 X -> SE3 Y ->
  SE3 (tr_SE3_mul Rops X Y) /\ SE3 (tr_SE3_div Rops X Y) /\ SE3 (tr_SE3_inv Rops X) /\ SE3 (tr_trinv Rops X).
Proof.
  intros X Y HX HY. destruct (C01_SE3_ops_are X Y) as (-> & -> & ->).
  rewrite (C01_SE3_div_is X Y) by apply HX.
  repeat split; try apply SE3_mul; try apply SE3_inv; assumption.
Qed.
(* 2-D: directly on the traces (small polynomials).  SO2.inv / SE2.inv / "/" are traceable since fix 1c511ed (check=False) *)
Lemma C01_SO2_closed : forall X Y, SO2 X -> SO2 Y ->
  SO2 (tr_SO2_mul Rops X Y) /\ SO2 (tr_SO2_div Rops X Y) /\ SO2 (tr_SO2_inv Rops X).
Proof.
  intros X Y HX HY. destruct_tuples. pose proof (SO2_columns _ _ _ _ HX) as (?&?&?). pose proof (SO2_columns _ _ _ _ HY) as (?&?&?).
  unfold SO2 in *. decompose [and] HX. decompose [and] HY. autounfold with smgen. sm_simpl.
  split; [ repeat split; nsatz | split; repeat split; nsatz ].
Qed.
Lemma C01_SE2_closed : forall A B, SE2 A -> SE2 B ->
  SE2 (tr_SE2_mul Rops A B) /\ SE2 (tr_SE2_div Rops A B) /\ SE2 (tr_SE2_inv Rops A) /\ SE2 (tr_trinv2 Rops A).
Proof.
  intros A B [HA LA] [HB LB]. destruct_tuples. unfold SE2, t2r2, lastrow3 in *. injection LA; injection LB; intros; subst.
  pose proof (SO2_columns _ _ _ _ HA) as (?&?&?). pose proof (SO2_columns _ _ _ _ HB) as (?&?&?).
  autounfold with smgen. sm_simpl. unfold SO2 in *. decompose [and] HA. decompose [and] HB.
  repeat match goal with |- _ /\ _ => split end; try nsatz; tuple_eq ltac:(ring).
Qed.

(* ---------- integer powers through the class: X ** n for n = 0..3 is the iterated product of the model ---------- *)
Lemma C01_pow_is_iterated : forall (X : M33 R) (Y : M44 R),
  (tr_SO3_pow0 Rops X = pow_Z (I33 Rops) (tr_SO3_mul Rops) (tr_SO3_inv Rops) X 0 /\
   tr_SO3_pow1 Rops X = pow_Z (I33 Rops) (tr_SO3_mul Rops) (tr_SO3_inv Rops) X 1 /\
   tr_SO3_pow2 Rops X = pow_Z (I33 Rops) (tr_SO3_mul Rops) (tr_SO3_inv Rops) X 2 /\
   tr_SO3_pow3 Rops X = pow_Z (I33 Rops) (tr_SO3_mul Rops) (tr_SO3_inv Rops) X 3) /\
  (tr_SE3_pow0 Rops Y = pow_Z (I44 Rops) (tr_SE3_mul Rops) (tr_SE3_inv Rops) Y 0 /\
   tr_SE3_pow1 Rops Y = pow_Z (I44 Rops) (tr_SE3_mul Rops) (tr_SE3_inv Rops) Y 1 /\
   tr_SE3_pow2 Rops Y = pow_Z (I44 Rops) (tr_SE3_mul Rops) (tr_SE3_inv Rops) Y 2 /\
   tr_SE3_pow3 Rops Y = pow_Z (I44 Rops) (tr_SE3_mul Rops) (tr_SE3_inv Rops) Y 3).
Proof. intros. unfold pow_Z. simpl. repeat split; same_tr. Qed.

(* the augmented assignments X *= Y, X /= Y (executed through the classes) compute the binary operators, so they inherit closure *)
Lemma C01_inplace_are_binary : forall (X Y : M33 R) (A B : M44 R) (P Q : M22 R) (E F : M33 R),
  tr_SO3_imul Rops X Y = tr_SO3_mul Rops X Y /\ tr_SO3_idiv Rops X Y = tr_SO3_div Rops X Y /\
  tr_SE3_imul Rops A B = tr_SE3_mul Rops A B /\ tr_SE3_idiv Rops A B = tr_SE3_div Rops A B /\
  tr_SO2_imul Rops P Q = tr_SO2_mul Rops P Q /\
  tr_SE2_imul Rops E F = tr_SE2_mul Rops E F /\ tr_SE2_idiv Rops E F = tr_SE2_div Rops E F.
Proof. intros. repeat split; same_tr. Qed.
Lemma C01_inplace_closed : forall (X Y : M33 R) (A B : M44 R) (P Q : M22 R) (E F : M33 R),
  (SO3 X -> SO3 Y -> SO3 (tr_SO3_imul Rops X Y) /\ SO3 (tr_SO3_idiv Rops X Y)) /\
  (SE3 A -> SE3 B -> SE3 (tr_SE3_imul Rops A B) /\ SE3 (tr_SE3_idiv Rops A B)) /\
  (SO2 P -> SO2 Q -> SO2 (tr_SO2_imul Rops P Q)) /\
  (SE2 E -> SE2 F -> SE2 (tr_SE2_imul Rops E F) /\ SE2 (tr_SE2_idiv Rops E F)).
Proof.
  intros. destruct (C01_inplace_are_binary X Y A B P Q E F) as (-> & -> & -> & -> & -> & -> & ->).
  pose proof (C01_SO3_closed X Y). pose proof (C01_SE3_closed A B). pose proof (C01_SO2_closed P Q). pose proof (C01_SE2_closed E F). tauto.
Qed.

Theorem C01_operators_closed : forall (X Y : M33 R) (A B : M44 R) (P Q : M22 R) (E F : M33 R),
  (SO3 X -> SO3 Y -> SO3 (tr_SO3_mul Rops X Y) /\ SO3 (tr_SO3_div Rops X Y) /\ SO3 (tr_SO3_inv Rops X)) /\
  (SE3 A -> SE3 B -> SE3 (tr_SE3_mul Rops A B) /\ SE3 (tr_SE3_div Rops A B) /\ SE3 (tr_SE3_inv Rops A) /\ SE3 (tr_trinv Rops A)) /\
  (SO2 P -> SO2 Q -> SO2 (tr_SO2_mul Rops P Q) /\ SO2 (tr_SO2_div Rops P Q) /\ SO2 (tr_SO2_inv Rops P)) /\
  (SE2 E -> SE2 F -> SE2 (tr_SE2_mul Rops E F) /\ SE2 (tr_SE2_div Rops E F) /\ SE2 (tr_SE2_inv Rops E) /\ SE2 (tr_trinv2 Rops E)).
Proof.
  intros. pose proof (C01_SO3_closed X Y). pose proof (C01_SE3_closed A B). pose proof (C01_SO2_closed P Q). pose proof (C01_SE2_closed E F). tauto.
Qed.
Print Assumptions C01_operators_closed.
Example C01_operators_nonvacuous :
  SO3 (rotx_cs Rops (3/5) (4/5)) /\ SE3 (rt2tr3 Rops (rotz_cs Rops (5/13) (12/13)) (1, -2, 1000000)) /\ SO2 (rot2_cs Rops (3/5) (4/5)).
Proof. split; [ apply SO3_rotx; lra | split; [ apply SE3_rt; apply SO3_rotz; lra | apply SO2_rot2; lra ] ]. Qed.

(* ---------- every expression tree over valid leaves is valid ---------- *)
Definition evalSO3 := eval (I33 Rops) (tr_SO3_mul Rops) (tr_SO3_inv Rops).
Definition evalSE3 := eval (I44 Rops) (tr_SE3_mul Rops) (tr_SE3_inv Rops).
Definition evalUQ := eval (qone Rops) (tr_qqmul Rops) (tr_conj Rops).

Lemma SE3_I44 : SE3 (I44 Rops).
Proof. unfold SE3. lin_simpl. split; [ unfold SO3; repeat split; ring | reflexivity ]. Qed.

(* negative exponents: the code computes X ** n (n < 0) as X.inv() ** (-n) (fix fbf47d0) -- exactly pow_Z of the model:
   the positive power of the traced closed-form inverse.  Traced through the classes for n = -1, -2, -3 (and -2 in 2-D). *)
Lemma C01_negpow_is_inv_then_pow : forall (X : M33 R) (Y : M44 R) (P : M22 R) (E : M33 R),
  (tr_SO3_powm1 Rops X = pow_Z (I33 Rops) (tr_SO3_mul Rops) (tr_SO3_inv Rops) X (-1) /\
   tr_SO3_powm2 Rops X = pow_Z (I33 Rops) (tr_SO3_mul Rops) (tr_SO3_inv Rops) X (-2) /\
   tr_SO3_powm3 Rops X = pow_Z (I33 Rops) (tr_SO3_mul Rops) (tr_SO3_inv Rops) X (-3)) /\
  (tr_SE3_powm1 Rops Y = pow_Z (I44 Rops) (tr_SE3_mul Rops) (tr_SE3_inv Rops) Y (-1) /\
   tr_SE3_powm2 Rops Y = pow_Z (I44 Rops) (tr_SE3_mul Rops) (tr_SE3_inv Rops) Y (-2) /\
   tr_SE3_powm3 Rops Y = pow_Z (I44 Rops) (tr_SE3_mul Rops) (tr_SE3_inv Rops) Y (-3)) /\
  tr_SO2_powm2 Rops P = pow_Z (I22 Rops) (tr_SO2_mul Rops) (tr_SO2_inv Rops) P (-2) /\
  tr_SE2_powm2 Rops E = pow_Z (I33 Rops) (tr_SE2_mul Rops) (tr_SE2_inv Rops) E (-2).
Proof. intros. unfold pow_Z. simpl. repeat split; same_tr. Qed.
(* hence every traced negative power of a member is a member *)
Lemma C01_negpow_closed : forall (X : M33 R) (Y : M44 R), SO3 X -> SE3 Y ->
  SO3 (tr_SO3_powm1 Rops X) /\ SO3 (tr_SO3_powm2 Rops X) /\ SO3 (tr_SO3_powm3 Rops X) /\
  SE3 (tr_SE3_powm1 Rops Y) /\ SE3 (tr_SE3_powm2 Rops Y) /\ SE3 (tr_SE3_powm3 Rops Y).
Proof.
  intros X Y HX HY. destruct (C01_negpow_is_inv_then_pow X Y (I22 Rops) (I33 Rops)) as ((-> & -> & ->) & (-> & -> & ->) & _).
  assert (S3 : forall n, SO3 (pow_Z (I33 Rops) (tr_SO3_mul Rops) (tr_SO3_inv Rops) X n)).
  { intros n. apply (valid_pow_Z SO3); [ apply SO3_I | intros a b Ha Hb; apply (C01_SO3_closed a b Ha Hb) | intros a Ha; apply (C01_SO3_closed a a Ha Ha) | exact HX ]. }
  assert (S4 : forall n, SE3 (pow_Z (I44 Rops) (tr_SE3_mul Rops) (tr_SE3_inv Rops) Y n)).
  { intros n. apply (valid_pow_Z SE3); [ apply SE3_I44 | intros a b Ha Hb; apply (C01_SE3_closed a b Ha Hb) | intros a Ha; apply (C01_SE3_closed a a Ha Ha) | exact HY ]. }
  repeat split; first [ apply S3 | apply S4 ].
Qed.


Theorem C01_closure_expr_SO3 : forall (e : expr) (env : nat -> M33 R), (forall i, SO3 (env i)) -> SO3 (evalSO3 env e).
Proof.
  intros e env H. unfold evalSO3. apply closure_expr; try assumption.
  - apply SO3_I.
  - intros a b Ha Hb. apply (C01_SO3_closed a b Ha Hb).
  - intros a Ha. apply (C01_SO3_closed a a Ha Ha).
Qed.
Print Assumptions C01_closure_expr_SO3.

Theorem C01_closure_expr_SE3 : forall (e : expr) (env : nat -> M44 R), (forall i, SE3 (env i)) -> SE3 (evalSE3 env e).
Proof.
  intros e env H. unfold evalSE3. apply closure_expr; try assumption.
  - apply SE3_I44.
  - intros a b Ha Hb. apply (C01_SE3_closed a b Ha Hb).
  - intros a Ha. apply (C01_SE3_closed a a Ha Ha).
Qed.
Print Assumptions C01_closure_expr_SE3.

(* 2-D groups (possible since SO2.inv / SE2.inv are traceable) *)
Definition evalSO2 := eval (I22 Rops) (tr_SO2_mul Rops) (tr_SO2_inv Rops).
Definition evalSE2 := eval (I33 Rops) (tr_SE2_mul Rops) (tr_SE2_inv Rops).
Lemma SE2_I33 : SE2 (I33 Rops).
Proof. unfold SE2. lin_simpl. split; [ unfold SO2; repeat split; ring | reflexivity ]. Qed.
Theorem C01_closure_expr_SO2_SE2 : forall (e : expr) (env2 : nat -> M22 R) (env3 : nat -> M33 R),
  ((forall i, SO2 (env2 i)) -> SO2 (evalSO2 env2 e)) /\ ((forall i, SE2 (env3 i)) -> SE2 (evalSE2 env3 e)).
Proof.
  intros e env2 env3. split; intros H; [unfold evalSO2 | unfold evalSE2]; apply closure_expr; try assumption.
  - apply SO2_I.
  - intros a b Ha Hb. apply (C01_SO2_closed a b Ha Hb).
  - intros a Ha. apply (C01_SO2_closed a a Ha Ha).
  - apply SE2_I33.
  - intros a b Ha Hb. apply (C01_SE2_closed a b Ha Hb).
  - intros a Ha. apply (C01_SE2_closed a a Ha Ha).
Qed.
Print Assumptions C01_closure_expr_SO2_SE2.

(* unit quaternions with the Hamilton-product and conjugate kernels (the class operators additionally re-normalise,
   see C01_unit_quaternion_operators) *)
Theorem C01_closure_expr_UnitQ : forall (e : expr) (env : nat -> V4 R), (forall i, UnitQ (env i)) -> UnitQ (evalUQ env e).
Proof.
  intros e env H. unfold evalUQ. apply closure_expr; try assumption.
  - apply UnitQ_one.
  - intros a b Ha Hb. destruct_tuples. unfold UnitQ in *. autounfold with smgen. sm_simpl. nsatz.
  - intros a Ha. destruct_tuples. unfold UnitQ in *. autounfold with smgen. sm_simpl. nsatz.
Qed.
Print Assumptions C01_closure_expr_UnitQ.

(* non-vacuity: a concrete deep tree over concrete valid leaves, with a negative exponent and a sequence product *)
Example C01_closure_expr_nonvacuous :
  let env := fun i : nat => match i with O => rotx_cs Rops (3/5) (4/5) | _ => rotz_cs Rops (5/13) (12/13) end in
  let e := Pow (Mul (Leaf 0) (Div (Prod [Leaf 1; Inv (Leaf 0); Pow (Leaf 1) 7]) (Leaf 1))) (-8) in
  (forall i, SO3 (env i)) /\ depth e = 5%nat /\ SO3 (evalSO3 env e).
Proof.
  intros env e.
  assert (H : forall i, SO3 (env i)) by (intros [|i]; [ apply SO3_rotx | apply SO3_rotz ]; lra).
  split; [exact H|]. split; [reflexivity|]. apply C01_closure_expr_SO3. exact H.
Qed.
