(* C04 (b) -- the embeddings SO2 -> SE2, SE2 -> SE3, SO3 -> SE3 are homomorphisms (product and inverse) and
   preserve the action on points; unit dual quaternions <-> SE3.
   Statements are fixed; the tr_* definitions are regenerated from /repo on every run. The planar pose traces take
   a 3x3 argument whose last row the class fixes to (0,0,1) (it is validated with ==, so it is a constant of the trace). *)
From Coq Require Import Reals ZArith Lra Nsatz Psatz.
From SM Require Import Base.Ops Base.Lin Base.RInst Base.RLin.
From SMgen Require Import Traces_C04.
Open Scope R_scope.

Ltac gen_unfold := intros; destruct_tuples; autounfold with smgen smlin in *; sm_simpl.
Ltac gen_ring := gen_unfold; tuple_eq ltac:(ring).
Ltac gen_field := gen_unfold; tuple_eq ltac:(field).
Ltac nopow := repeat match goal with |- context [?x ^ 2] => replace (x ^ 2) with (x * x) by ring end.
Ltac clear_ineq := repeat match goal with H : _ < _ |- _ => clear H | H : _ <= _ |- _ => clear H | H : _ <> _ |- _ => clear H end.
Ltac unit_eq := first [ solve [clear_ineq; nsatz] | field_simplify_eq; [ solve [clear_ineq; nopow; nsatz] | (repeat split; try lra; nra) .. ] ].
Ltac sqrt_one := repeat match goal with |- context [sqrt ?x] => replace x with 1 by (symmetry; unit_eq); rewrite sqrt_1 end;
  repeat match goal with |- context [1 / ?x] => lazymatch x with 1 => fail | _ => replace x with 1 by (symmetry; unit_eq) end end;
  try replace (1 / 1) with 1 by field; rewrite ?Rmult_1_r, ?Rmult_1_l.

(* ---------------------------------------------------------------- SO2 -> SE2 *)
Theorem C04_SO2_SE2_embed : forall X : M22 R, tr_SO2_SE2 Rops X = rt2tr2 Rops X (0,0).
Proof. gen_ring. Qed.
Print Assumptions C04_SO2_SE2_embed.

Theorem C04_SO2_SE2_hom : forall X Y : M22 R,
  tr_SO2_mul_SE2 Rops X Y = tr_SO2_SE2_mul Rops X Y /\
  tr_SO2_SE2_mul Rops X Y = mmul33 Rops (tr_SO2_SE2 Rops X) (tr_SO2_SE2 Rops Y) /\
  tr_SO2_mul_SE2 Rops X Y = tr_SO2_SE2 Rops (mmul22 Rops X Y).
Proof. intros; repeat split; gen_ring. Qed.
Print Assumptions C04_SO2_SE2_hom.

Theorem C04_SO2_SE2_inv : forall X : M22 R,
  tr_SO2_inv_SE2 Rops X = tr_SO2_SE2_inv Rops X /\ tr_SO2_inv_SE2 Rops X = tr_SO2_SE2 Rops (mtr22 X).
Proof. intros; split; gen_ring. Qed.
Print Assumptions C04_SO2_SE2_inv.

Theorem C04_SO2_SE2_inv_is_inverse : forall X : M22 R, SO2 X ->
  mmul33 Rops (tr_SO2_SE2 Rops X) (tr_SO2_SE2_inv Rops X) = I33 Rops /\ SE2 (tr_SO2_SE2 Rops X).
Proof.
  intros X H. split.
  - destruct_tuples. pose proof (SO2_columns _ _ _ _ H) as (?&?&?). unfold SO2 in H. destruct H as (?&?&?&?).
    autounfold with smgen smlin. sm_simpl. tuple_eq ltac:(nsatz).
  - rewrite C04_SO2_SE2_embed. destruct_tuples. unfold SE2. lin_simpl. split; [exact H|reflexivity].
Qed.
Print Assumptions C04_SO2_SE2_inv_is_inverse.

Theorem C04_SO2_SE2_action : forall (X : M22 R) (p : V2 R),
  tr_SO2_SE2_act Rops X p = tr_SO2_act Rops X p /\ tr_SO2_act Rops X p = mv22 Rops X p.
Proof. intros; split; gen_ring. Qed.
Print Assumptions C04_SO2_SE2_action.

(* ---------------------------------------------------------------- SE2 -> SE3 *)
Definition lift3_ref (X : M33 R) (z : R) : M44 R :=
  let '((x00,x01,x02),(x10,x11,x12),_) := X in ((x00,x01,0,x02),(x10,x11,0,x12),(0,0,1,z),(0,0,0,1)).
(* the planar pose with its last row as the class keeps it *)
Definition hom2 (X : M33 R) : M33 R := rt2tr2 Rops (t2r2 X) (transl2 X).
Lemma hom2_id : forall X : M33 R, lastrow3 X = (0,0,1) -> hom2 X = X.
Proof. intros X H. destruct_tuples. unfold hom2. lin_simpl. injection H; intros; subst. reflexivity. Qed.

Theorem C04_SE2_SE3_embed : forall (X : M33 R) (z : R),
  tr_SE2_SE3 Rops X = lift3_ref X 0 /\ tr_SE2_SE3z Rops X z = lift3_ref X z.
Proof. intros; split; unfold lift3_ref; gen_ring. Qed.
Print Assumptions C04_SE2_SE3_embed.

(* multi-valued SE2: element k of the lifted SE3 is the lift of element k (no buffer shared between the elements) *)
Theorem C04_SE2_SE3_multi : forall (X Y : M33 R) (z : R),
  tr_SE2_SE3_multi0 Rops X Y z = lift3_ref X z /\ tr_SE2_SE3_multi1 Rops X Y z = lift3_ref Y z.
Proof. intros; split; unfold lift3_ref; gen_ring. Qed.
Print Assumptions C04_SE2_SE3_multi.

Theorem C04_SE2_SE3_hom : forall X Y : M33 R,
  tr_SE2_mul_SE3 Rops X Y = tr_SE2_SE3_mul Rops X Y /\
  tr_SE2_SE3_mul Rops X Y = mmul44 Rops (tr_SE2_SE3 Rops X) (tr_SE2_SE3 Rops Y) /\
  tr_SE2_mul_SE3 Rops X Y = tr_SE2_SE3 Rops (mmul33 Rops (hom2 X) (hom2 Y)).
Proof. intros; repeat split; unfold hom2; gen_ring. Qed.
Print Assumptions C04_SE2_SE3_hom.

Theorem C04_SE2_SE3_inv : forall X : M33 R, tr_SE2_inv_SE3 Rops X = tr_SE2_SE3_inv Rops X.
Proof. gen_ring. Qed.
Print Assumptions C04_SE2_SE3_inv.

Theorem C04_SE2_SE3_inv_is_inverse : forall (X : M33 R), SO2 (t2r2 X) ->
  mmul44 Rops (tr_SE2_SE3 Rops X) (tr_SE2_SE3_inv Rops X) = I44 Rops /\
  mmul44 Rops (tr_SE2_SE3_inv Rops X) (tr_SE2_SE3 Rops X) = I44 Rops.
Proof.
  intros X H. destruct_tuples. autounfold with smlin in H. sm_simpl.
  pose proof (SO2_columns _ _ _ _ H) as (?&?&?). unfold SO2 in H. destruct H as (?&?&?&?).
  split; autounfold with smgen smlin; sm_simpl; tuple_eq ltac:(nsatz).
Qed.
Print Assumptions C04_SE2_SE3_inv_is_inverse.

Theorem C04_SE2_SE3_member : forall (X : M33 R) (z : R), SO2 (t2r2 X) -> SE3 (tr_SE2_SE3z Rops X z).
Proof.
  intros X z H. destruct_tuples. autounfold with smlin in H. sm_simpl.
  unfold SO2 in H. destruct H as (?&?&?&?). unfold SE3. autounfold with smgen smlin. sm_simpl. unfold SO3.
  split; [repeat split; nsatz | reflexivity].
Qed.
Print Assumptions C04_SE2_SE3_member.

Theorem C04_SE2_SE3_action : forall (X : M33 R) (p : V2 R),
  tr_SE2_SE3_act Rops X p = (let '(a, b) := tr_SE2_act Rops X p in (a, b, 0)) /\
  tr_SE2_act Rops X p = vadd2 Rops (mv22 Rops (t2r2 X) p) (transl2 X).
Proof. intros; split; gen_ring. Qed.
Print Assumptions C04_SE2_SE3_action.

(* ---------------------------------------------------------------- SO3 -> SE3 *)
Theorem C04_SO3_SE3_embed : forall X : M33 R,
  tr_SO3_SE3 Rops X = rt2tr3 Rops X (0,0,0) /\ tr_SO3m_SE3 Rops X = rt2tr3 Rops X (0,0,0).
Proof. intros; split; gen_ring. Qed.
Print Assumptions C04_SO3_SE3_embed.

Theorem C04_SO3_SE3_hom : forall X Y : M33 R,
  tr_SO3_mul_SE3 Rops X Y = tr_SO3_SE3_mul Rops X Y /\
  tr_SO3_SE3_mul Rops X Y = mmul44 Rops (tr_SO3_SE3 Rops X) (tr_SO3_SE3 Rops Y) /\
  tr_SO3_mul_SE3 Rops X Y = tr_SO3_SE3 Rops (mmul33 Rops X Y).
Proof. intros; repeat split; gen_ring. Qed.
Print Assumptions C04_SO3_SE3_hom.

Theorem C04_SO3_SE3_inv : forall X : M33 R,
  tr_SO3_inv_SE3 Rops X = tr_SO3_SE3_inv Rops X /\ tr_SO3_inv_SE3 Rops X = tr_SO3_SE3 Rops (mtr33 X).
Proof. intros; split; gen_ring. Qed.
Print Assumptions C04_SO3_SE3_inv.

Theorem C04_SO3_SE3_member : forall X : M33 R, SO3 X ->
  SE3 (tr_SO3_SE3 Rops X) /\ mmul44 Rops (tr_SO3_SE3 Rops X) (tr_SO3_SE3_inv Rops X) = I44 Rops.
Proof.
  intros X H. destruct (C04_SO3_SE3_embed X) as [E _]. split.
  - rewrite E. apply SE3_rt. exact H.
  - destruct_tuples. so3_facts H. autounfold with smgen smlin. sm_simpl. tuple_eq ltac:(nsatz).
Qed.
Print Assumptions C04_SO3_SE3_member.

Theorem C04_SO3_SE3_action : forall (X : M33 R) (p : V3 R),
  tr_SO3_SE3_act Rops X p = tr_SO3_act Rops X p /\ tr_SO3_act Rops X p = mv33 Rops X p.
Proof. intros; split; gen_ring. Qed.
Print Assumptions C04_SO3_SE3_action.

Example C04_b_nonvacuous : SO2 (rot2_cs Rops (3/5) (4/5)) /\ SO3 (rotx_cs Rops (3/5) (4/5)).
Proof. split; [apply SO2_rot2; lra | apply SO3_rotx; lra]. Qed.
