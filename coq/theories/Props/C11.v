(* C11 -- interpolation: endpoints, validity, linear translation, constant-rate rotation about one fixed axis.

   Fixed statements.  What is regenerated from /repo on every run and referred to here:
     Consts_C11   slerp_k unit_k r2q_k isunitvec_k (thresholds, from the AST), trinterp_shortest (the option trinterp was
                  observed to hand to slerp)
     Traces_C11   tr_q2r, tr_trinterp_glue(1) (trinterp executed on symbols with slerp / r2q opaque), tr_trinterp2_* (trinterp2
                  executed on symbols), pc_trinterp_* / out_trinterp_* (the range check of trinterp as executed),
                  kS kU kV kR dyn m_* (the hand models of Model/C11_Interp.v with the constants plugged in; the same
                  wrappers are run on floats against the implementation)
   The hand models are tied to the implementation by the float correspondence run of props/C11.py.
   Lemmas about the models with the thresholds as parameters are in Model/C11_InterpR.v. *)
From Coq Require Import Reals ZArith Lra Bool.
From SM Require Import Base.Ops Base.Lin Base.RInst Base.RLin Model.C11_Interp Model.C11_InterpR.
From SMgen Require Import Consts_C11 Traces_C11.
Open Scope R_scope.

Notation kk := (kS Rops).                         (* the regenerated k of `abs(theta) > k * _eps` *)
Definition Kth : R := kk * eps Rops.              (* the small-angle cut *)
Notation slerpR := (slerp Rops kk).
Notation theta := (slerp_theta Rops).
Notation start' := (slerp_q0 Rops).               (* q0 after the optional hemisphere flip *)

(* ---------------------------------------------------------------- the regenerated thresholds are harmless *)
(* the small-angle cut of slerp is non-negative and at most 1e-7 (so the special case moves the result by < 1e-6);
   base.unit's cut is below 1; the constructor's validity band is non-empty *)
Theorem C11_thresholds : 0 <= Kth <= 1/10000000 /\ Kth = IZR slerp_k * / 4503599627370496 /\
  kU Rops * eps Rops <= 1 /\ 0 < kV Rops * eps Rops.
Proof. unfold Kth, kS, kU, kV, slerp_k, unit_k, isunitvec_k. sm_simpl. repeat split; lra. Qed.
Print Assumptions C11_thresholds.

(* ---------------------------------------------------------------- slerp: range, endpoints, branches *)
Theorem C11_slerp_rejects_out_of_range : forall q0 q1 s sh, s < 0 \/ 1 < s -> slerpR q0 q1 s sh = Err ValueError.
Proof. intros q0 q1 s sh H. unfold slerp. apply in01_false in H. rewrite H. reflexivity. Qed.
Print Assumptions C11_slerp_rejects_out_of_range.

Theorem C11_slerp_endpoints : forall q0 q1 sh, slerpR q0 q1 0 sh = Ok q0 /\ slerpR q0 q1 1 sh = Ok q1.
Proof.
  intros. unfold slerp.
  assert (A : in01 Rops 0 = true) by (apply in01_true; lra). assert (B : in01 Rops 1 = true) by (apply in01_true; lra).
  rewrite A, B. cbn [negb].
  assert (E0 : eqb Rops 0 (zero Rops) = true) by (apply Reqb_true; reflexivity).
  assert (E1 : eqb Rops 1 (one Rops) = true) by (apply Reqb_true; reflexivity).
  assert (E2 : eqb Rops 1 (zero Rops) = false) by (apply Reqb_false; cbn; lra). rewrite E0, E1, E2. split; reflexivity.
Qed.
Print Assumptions C11_slerp_endpoints.

(* for 0 < s < 1 the model is the general formula when theta > k eps, else the (possibly flipped) start *)
Theorem C11_slerp_interior : forall q0 q1 s sh, 0 < s < 1 -> unitq q0 -> unitq q1 ->
  slerpR q0 q1 s sh = Ok (if Rlt_dec Kth (theta sh q0 q1)
                          then slerp_general Rops (start' sh q0 q1) q1 (theta sh q0 q1) s
                          else start' sh q0 q1).
Proof.
  intros q0 q1 s sh Hs H0 H1. unfold slerp.
  assert (A : in01 Rops s = true) by (apply in01_true; lra). rewrite A. cbn [negb].
  assert (E0 : eqb Rops s (zero Rops) = false) by (apply Reqb_false; cbn; lra).
  assert (E1 : eqb Rops s (one Rops) = false) by (apply Reqb_false; cbn; lra). rewrite E0, E1.
  destruct (slerp_theta_facts sh q0 q1 H0 H1) as ((P & _) & _ & _).
  change (abs_ Rops (theta sh q0 q1)) with (Rabs (theta sh q0 q1)). rewrite (Rabs_pos_eq _ P).
  change (ltb Rops (mul Rops kk (eps Rops)) (theta sh q0 q1)) with (Rltb Kth (theta sh q0 q1)).
  unfold Rltb. destruct (Rlt_dec Kth (theta sh q0 q1)); reflexivity.
Qed.
Print Assumptions C11_slerp_interior.

(* the hypotheses used below are met by concrete, non-trivial values:
   q0 = (3/5, 4/5, 0, 0), q1 = (3/5, 0, 4/5, 0): unit, q0.q1 = 9/25, not antipodal;
   q0, -q1: dot product -9/25 < 0 (the shorter arc flips) *)
Example C11_nonvacuous :
  unitq (3/5, 4/5, 0, 0) /\ unitq (3/5, 0, 4/5, 0) /\ dot4 Rops (3/5, 4/5, 0, 0) (3/5, 0, 4/5, 0) = 9/25 /\
  not_antipodal false (3/5, 4/5, 0, 0) (3/5, 0, 4/5, 0) /\
  dot4 Rops (3/5, 4/5, 0, 0) (-3/5, 0, -4/5, 0) < 0 /\ Kth < theta false (3/5, 4/5, 0, 0) (3/5, 0, 4/5, 0).
Proof.
  assert (U0 : unitq (3/5, 4/5, 0, 0)) by (unfold unitq; lin_simpl; lra).
  assert (U1 : unitq (3/5, 0, 4/5, 0)) by (unfold unitq; lin_simpl; lra).
  assert (D : dot4 Rops (3/5, 4/5, 0, 0) (3/5, 0, 4/5, 0) = 9/25) by (lin_simpl; lra).
  repeat split; try assumption.
  - right. rewrite D. lra.
  - lin_simpl. lra.
  - (* theta = acos(9/25) > 0 >= ... : if theta <= Kth <= 1e-7 then cos theta >= 1 - theta^2/2 > 9/25 *)
    destruct (slerp_theta_facts false _ _ U0 U1) as ((P & _) & Hc & _).
    change (start' false (3/5, 4/5, 0, 0) (3/5, 0, 4/5, 0)) with (3/5, 4/5, 0, 0) in Hc.
    rewrite D in Hc.
    destruct (Rlt_dec Kth (theta false (3/5, 4/5, 0, 0) (3/5, 0, 4/5, 0))) as [L|N]; [exact L|exfalso].
    pose proof (one_minus_cos_le (theta false (3/5, 4/5, 0, 0) (3/5, 0, 4/5, 0))) as C.
    destruct C11_thresholds as ((_ & T) & _). rewrite Hc in C.
    assert (theta false (3/5, 4/5, 0, 0) (3/5, 0, 4/5, 0) <= 1/10000000) by lra. nra.
Qed.

(* ---------------------------------------------------------------- validity: a unit quaternion / a rotation matrix for every s *)
Theorem C11_slerp_unit : forall q0 q1 s sh, unitq q0 -> unitq q1 -> 0 <= s <= 1 -> not_antipodal sh q0 q1 ->
  exists q, slerpR q0 q1 s sh = Ok q /\ unitq q /\ SO3 (q2r_ref Rops q).
Proof.
  intros q0 q1 s sh H0 H1 Hs NA.
  assert (G : forall q, unitq q -> unitq q /\ SO3 (q2r_ref Rops q)) by (intros q U; split; [exact U | apply SO3_q2r; exact U]).
  destruct (Req_dec s 0) as [->|N0]; [exists q0; split; [apply C11_slerp_endpoints | apply G, H0]|].
  destruct (Req_dec s 1) as [->|N1]; [exists q1; split; [apply C11_slerp_endpoints | apply G, H1]|].
  rewrite C11_slerp_interior by (assumption || lra).
  destruct (slerp_theta_facts sh q0 q1 H0 H1) as (_ & Hc & _).
  destruct (Rlt_dec Kth (theta sh q0 q1)) as [L|N]; eexists; (split; [reflexivity|apply G]).
  - apply slerp_general_unit; try assumption.
    + apply slerp_q0_unit; assumption.
    + symmetry; exact Hc.
    + apply Rgt_not_eq. apply slerp_sin_theta_pos; try assumption. destruct C11_thresholds as ((T & _) & _). lra.
  - apply slerp_q0_unit; assumption.
Qed.
Print Assumptions C11_slerp_unit.

(* ---------------------------------------------------------------- constant rate about one fixed axis *)
(* quaternion form: relative to the (possibly flipped) start, the interpolant is (cos(s th), sin(s th) u), where the unit
   axis u = vec(conj(q0') q1) / sin(th) does not depend on s, and th = acos(q0'.q1) *)
Theorem C11_slerp_constant_rate : forall q0 q1 sh, unitq q0 -> unitq q1 -> not_antipodal sh q0 q1 -> Kth < theta sh q0 q1 ->
  let a := start' sh q0 q1 in let th := theta sh q0 q1 in
  exists u : V3 R, normsq3 Rops u = 1 /\
    forall s, 0 < s < 1 -> exists q, slerpR q0 q1 s sh = Ok q /\
      qmul Rops (qconj Rops a) q = (cos (s * th), sin (s * th) * fst (fst u), sin (s * th) * snd (fst u), sin (s * th) * snd u).
Proof.
  intros q0 q1 sh H0 H1 NA L a th.
  assert (Ua : unitq a) by (apply slerp_q0_unit; assumption).
  destruct (slerp_theta_facts sh q0 q1 H0 H1) as (_ & Hc & _). fold a th in Hc. symmetry in Hc.
  assert (HS : sin th <> 0).
  { apply Rgt_not_eq. apply slerp_sin_theta_pos; try assumption. destruct C11_thresholds as ((T & _) & _). fold th in L. unfold th in *. lra. }
  exists (slerp_axis a q1 th). split; [apply slerp_axis_unit; assumption|].
  intros s Hs. exists (slerp_general Rops a q1 th s). split.
  - rewrite C11_slerp_interior by assumption. fold a th. destruct (Rlt_dec Kth th); [reflexivity|contradiction].
  - apply slerp_general_relative; assumption.
Qed.
Print Assumptions C11_slerp_constant_rate.

(* rotation-matrix form: R(s) = R0 E(2 s th) with E(phi) = rot_aa u phi the rotation by phi about the fixed unit axis u;
   E is a one-parameter subgroup (E(0) = I, E(x+y) = E(x) E(y)) and R0 E(2 th) = R1: this is R(s) = R0 exp(s log(R0' R1))
   along the arc taken *)
Theorem C11_slerp_rotation_fixed_axis : forall q0 q1 sh, unitq q0 -> unitq q1 -> not_antipodal sh q0 q1 -> Kth < theta sh q0 q1 ->
  let th := theta sh q0 q1 in
  exists u : V3 R, normsq3 Rops u = 1 /\
    (forall s, 0 < s < 1 -> exists q, slerpR q0 q1 s sh = Ok q /\
        q2r_ref Rops q = mmul33 Rops (q2r_ref Rops q0) (rot_aa u (2 * (s * th)))) /\
    q2r_ref Rops q1 = mmul33 Rops (q2r_ref Rops q0) (rot_aa u (2 * (1 * th))) /\
    q2r_ref Rops q0 = mmul33 Rops (q2r_ref Rops q0) (rot_aa u (2 * (0 * th))) /\
    (forall x y, rot_aa u (x + y) = mmul33 Rops (rot_aa u x) (rot_aa u y)) /\ rot_aa u 0 = I33 Rops /\
    (forall x, SO3 (rot_aa u x)).
Proof.
  intros q0 q1 sh H0 H1 NA L th. set (a := start' sh q0 q1).
  assert (Ua : unitq a) by (apply slerp_q0_unit; assumption).
  destruct (slerp_theta_facts sh q0 q1 H0 H1) as (_ & Hc & _). fold a th in Hc. symmetry in Hc.
  assert (HS : sin th <> 0).
  { apply Rgt_not_eq. apply slerp_sin_theta_pos; try assumption. destruct C11_thresholds as ((T & _) & _). fold th in L. unfold th in *. lra. }
  assert (Ra : q2r_ref Rops a = q2r_ref Rops q0) by apply q2r_slerp_q0.
  exists (slerp_axis a q1 th). assert (Uu := slerp_axis_unit a q1 th Ua H1 Hc HS).
  split; [exact Uu|]. repeat split.
  - intros s Hs. exists (slerp_general Rops a q1 th s). split.
    + rewrite C11_slerp_interior by assumption. fold a th. destruct (Rlt_dec Kth th); [reflexivity|contradiction].
    + rewrite <- Ra. apply slerp_general_rotation; assumption.
  - rewrite <- Ra. rewrite <- (slerp_general_rotation a q1 th 1 Ua H1 Hc HS). rewrite slerp_general_1; [reflexivity|exact HS].
  - rewrite <- Ra. rewrite <- (slerp_general_rotation a q1 th 0 Ua H1 Hc HS). rewrite slerp_general_0; [reflexivity|exact HS].
  - intros x y. apply rot_aa_add. exact Uu.
  - apply rot_aa_0.
  - intros x. apply rot_aa_SO3. exact Uu.
Qed.
Print Assumptions C11_slerp_rotation_fixed_axis.

(* the general formula is continuous with the two early returns (the `s == 0` / `s == 1` tests, which symbolic execution
   cannot record, do not change the value up to the sign of the flipped start) *)
Theorem C11_slerp_general_endpoints : forall a b th, sin th <> 0 ->
  slerp_general Rops a b th 0 = a /\ slerp_general Rops a b th 1 = b.
Proof. intros. split; [apply slerp_general_0 | apply slerp_general_1]; assumption. Qed.
Print Assumptions C11_slerp_general_endpoints.

(* ---------------------------------------------------------------- shortest: flips exactly when q0.q1 < 0 *)
Theorem C11_shortest_flips_iff_negative_dot : forall q0 q1 sh,
  (slerp_flip Rops sh (dot4 Rops q0 q1) = true <-> sh = true /\ dot4 Rops q0 q1 < 0) /\
  (slerp_flip Rops sh (dot4 Rops q0 q1) = true -> start' sh q0 q1 = vneg4 Rops q0) /\
  (slerp_flip Rops sh (dot4 Rops q0 q1) = false -> start' sh q0 q1 = q0) /\
  start' false q0 q1 = q0 /\ q2r_ref Rops (start' sh q0 q1) = q2r_ref Rops q0.
Proof.
  intros q0 q1 sh. split; [apply slerp_flip_iff|].
  split; [intros E; unfold slerp_q0; rewrite E; reflexivity|].
  split; [intros E; unfold slerp_q0; rewrite E; reflexivity|].
  split; [reflexivity | apply q2r_slerp_q0].
Qed.
Print Assumptions C11_shortest_flips_iff_negative_dot.

(* with shortest the quaternion angle is at most pi/2, i.e. the rotation 2 th is at most a half turn: the shorter arc;
   and the angle is always acos of the dot product with the (flipped) start *)
Theorem C11_shortest_arc : forall q0 q1 sh, unitq q0 -> unitq q1 ->
  0 <= theta sh q0 q1 <= PI /\ cos (theta sh q0 q1) = dot4 Rops (start' sh q0 q1) q1 /\
  (sh = true -> theta sh q0 q1 <= PI/2) /\ (sh = true -> 0 <= dot4 Rops (start' sh q0 q1) q1).
Proof.
  intros q0 q1 sh H0 H1. destruct (slerp_theta_facts sh q0 q1 H0 H1) as (B & Hc & Hs). repeat split; try tauto; try lra.
  intros ->. rewrite <- (slerp_dot_is_dot true q0 q1 H0 H1). apply slerp_dot_shortest_nonneg; assumption.
Qed.
Print Assumptions C11_shortest_arc.

(* ---------------------------------------------------------------- small-angle special case *)
(* when theta <= k eps the code returns the start; the end is then within k eps <= 1e-7 of it (so is every point of the arc) *)
Theorem C11_slerp_small_angle : forall q0 q1 s sh, unitq q0 -> unitq q1 -> 0 < s < 1 -> theta sh q0 q1 <= Kth ->
  slerpR q0 q1 s sh = Ok (start' sh q0 q1) /\
  qnormsq Rops (vsub4 Rops q1 (start' sh q0 q1)) <= Kth * Kth /\ Kth * Kth <= 1/100000000000000.
Proof.
  intros q0 q1 s sh H0 H1 Hs L. destruct (slerp_theta_facts sh q0 q1 H0 H1) as ((P & _) & Hc & _).
  destruct C11_thresholds as ((T0 & T1) & _). split; [|split].
  - rewrite C11_slerp_interior by assumption. destruct (Rlt_dec Kth (theta sh q0 q1)); [lra|reflexivity].
  - eapply Rle_trans; [apply (small_angle_endpoints _ _ (theta sh q0 q1)); [apply slerp_q0_unit; assumption | assumption | symmetry; exact Hc]|].
    apply Rmult_le_compat; lra.
  - nra.
Qed.
Print Assumptions C11_slerp_small_angle.

(* ---------------------------------------------------------------- UnitQuaternion.interp *)
Notation uqR := (uq_interp Rops (kU Rops) (kV Rops)).

Theorem C11_uq_interp_endpoints_and_range : forall q1 q2 sh,
  uqR q1 q2 0 sh = Ok q1 /\ uqR q1 q2 1 sh = Ok q2 /\ (forall s, s < 0 \/ 1 < s -> uqR q1 q2 s sh = Err AssertionError).
Proof.
  intros. unfold uq_interp.
  assert (E0 : eqb Rops 0 (zero Rops) = true) by (apply Reqb_true; reflexivity).
  assert (E1 : eqb Rops 1 (one Rops) = true) by (apply Reqb_true; reflexivity).
  assert (E2 : eqb Rops 1 (zero Rops) = false) by (apply Reqb_false; cbn; lra). rewrite E0, E1, E2. repeat split.
  intros s H.
  assert (F0 : eqb Rops s (zero Rops) = false) by (apply Reqb_false; cbn; lra).
  assert (F1 : eqb Rops s (one Rops) = false) by (apply Reqb_false; cbn; lra). rewrite F0, F1.
  apply in01_false in H. rewrite H. reflexivity.
Qed.
Print Assumptions C11_uq_interp_endpoints_and_range.

(* the constructor applied to the blend: whether or not the blend passes the 10-eps unit test it is normalised by base.unit
   (fix d0fc1b2; the failing path used to end in IndexError), so the only error left is base.unit's ValueError for a (near) zero vector *)
Theorem C11_uq_construct_normalises : forall q, uq_construct Rops (kU Rops) (kV Rops) q = qunit_m Rops (kU Rops) q.
Proof. intros q. unfold uq_construct. destruct (ltb Rops _ _); reflexivity. Qed.
Print Assumptions C11_uq_construct_normalises.

(* the weights cos(s th) - d sin(s th)/sin(th), sin(s th)/sin(th) are those of slerp: in the general branch the two
   interpolators return the same quaternion *)
Theorem C11_uq_interp_agrees_with_slerp : forall q0 q1 s sh, unitq q0 -> unitq q1 -> 0 < s < 1 -> not_antipodal sh q0 q1 ->
  Kth < theta sh q0 q1 -> uqR q0 q1 s sh = slerpR q0 q1 s sh.
Proof.
  intros q0 q1 s sh H0 H1 Hs NA L.
  destruct C11_thresholds as ((T0 & T1) & _ & TU & TV).
  rewrite C11_slerp_interior by assumption. destruct (Rlt_dec Kth (theta sh q0 q1)); [|contradiction].
  unfold uq_interp.
  assert (F0 : eqb Rops s (zero Rops) = false) by (apply Reqb_false; cbn; lra).
  assert (F1 : eqb Rops s (one Rops) = false) by (apply Reqb_false; cbn; lra). rewrite F0, F1.
  assert (A : in01 Rops s = true) by (apply in01_true; lra). rewrite A. cbn [negb].
  change (acos_ Rops (slerp_dot Rops sh q0 q1)) with (theta sh q0 q1).
  assert (F2 : eqb Rops (theta sh q0 q1) (zero Rops) = false) by (apply Reqb_false; change (zero Rops) with 0; lra). rewrite F2.
  destruct (slerp_theta_facts sh q0 q1 H0 H1) as (_ & Hc & _).
  assert (HS : sin (theta sh q0 q1) <> 0) by (apply Rgt_not_eq; apply slerp_sin_theta_pos; try assumption; lra).
  assert (Ua : unitq (start' sh q0 q1)) by (apply slerp_q0_unit; assumption).
  pose proof (slerp_general_unit _ _ _ Ua H1 (eq_sym Hc) HS s) as UG.
  rewrite <- (uq_construct_unit (kU Rops) (kV Rops) _ UG TU TV).
  assert (Hd : slerp_dot Rops sh q0 q1 = cos (theta sh q0 q1)) by (rewrite Hc; apply slerp_dot_is_dot; assumption).
  rewrite Hd. generalize (theta sh q0 q1) HS. intros th HS'. unfold uq_weights, slerp_general.
  destruct (start' sh q0 q1) as [[[a0 a1] a2] a3]. destruct q1 as [[[b0 b1] b2] b3]. sm_simpl.
  pose proof (uq_weights_eq th s HS') as W. cbv zeta in W.
  replace (th * s) with (s * th) by ring. rewrite W.
  apply f_equal. tuple_eq ltac:(field; exact HS').
Qed.
Print Assumptions C11_uq_interp_agrees_with_slerp.

(* ---------------------------------------------------------------- trinterp *)
(* the code of trinterp around the two kernels (executed on symbols with slerp and r2q opaque, qr = what slerp returns):
   rt2tr(q2r(qr), p0 (1-s) + s p1), and rt2tr(q2r(qr), s p1) without start; q2r is the standard quaternion matrix *)
Theorem C11_trinterp_glue : forall (A B : M44 R) s qr,
  tr_trinterp_glue Rops A B s qr = rt2tr3 Rops (q2r_m Rops qr) (lerp3 Rops (transl3 A) (transl3 B) s) /\
  tr_trinterp_glue1 Rops B s qr = rt2tr3 Rops (q2r_m Rops qr) (lerp3 Rops (0, 0, 0) (transl3 B) s) /\
  tr_q2r Rops qr = q2r_ref Rops qr.
Proof.
  intros. repeat split; destruct_tuples; autounfold with smgen c11 smlin; sm_simpl; tuple_eq ltac:(ring).
Qed.
Print Assumptions C11_trinterp_glue.

(* trinterp's own range check as executed (concolic runs at s = 1/4, 0, 1, -1/4, 5/4): it accepts every s of [0,1], and where it
   rejects it raises ValueError.  That s outside [0,1] IS rejected follows from slerp's check (C11_trinterp_rejects_out_of_range:
   the model has both checks, as the code has), so loosening or dropping trinterp's own test is harmless and stays silent. *)
Theorem C11_trinterp_range_check : forall s : R,
  (0 <= s <= 1 -> pc_trinterp_in Rops s = true /\ pc_trinterp_at0 Rops s = true /\ pc_trinterp_at1 Rops s = true) /\
  out_trinterp_in = None /\ out_trinterp_at0 = None /\ out_trinterp_at1 = None /\
  (out_trinterp_lo = None \/ out_trinterp_lo = Some ValueError) /\ (out_trinterp_hi = None \/ out_trinterp_hi = Some ValueError).
Proof.
  intros s. unfold pc_trinterp_in, pc_trinterp_at0, pc_trinterp_at1,
    out_trinterp_in, out_trinterp_at0, out_trinterp_at1, out_trinterp_lo, out_trinterp_hi. sm_simpl.
  split; [intros Hs; repeat split; repeat (apply andb_true_iff; split); try reflexivity; try (apply Rleb_true; lra); try (apply Rltb_true; lra)|].
  repeat split; try reflexivity; first [left; reflexivity | right; reflexivity].
Qed.
Print Assumptions C11_trinterp_range_check.

Notation trq := (trinterp_q Rops kk trinterp_shortest).
Notation trq1 := (trinterp_q1 Rops kk trinterp_shortest).

Theorem C11_trinterp_rejects_out_of_range : forall q0 q1 p0 p1 s, s < 0 \/ 1 < s ->
  trq q0 q1 p0 p1 s = Err ValueError /\ trq1 q1 p1 s = Err ValueError.
Proof. intros. apply in01_false in H. unfold trinterp_q, trinterp_q1. rewrite H. split; reflexivity. Qed.
Print Assumptions C11_trinterp_rejects_out_of_range.

(* q0 = r2q(R0), q1 = r2q(R1) enter as unit quaternions whose matrices are R0, R1 (the specification of r2q, property C04):
   the result is in SE(3) for every s in [0,1], its translation is linear in s, its rotation is the matrix of slerp *)
Theorem C11_trinterp_valid_linear : forall q0 q1 p0 p1 s, unitq q0 -> unitq q1 -> 0 <= s <= 1 ->
  not_antipodal trinterp_shortest q0 q1 ->
  exists q, slerpR q0 q1 s trinterp_shortest = Ok q /\ unitq q /\
    trq q0 q1 p0 p1 s = Ok (rt2tr3 Rops (q2r_ref Rops q) (lerp3 Rops p0 p1 s)) /\
    SE3 (rt2tr3 Rops (q2r_ref Rops q) (lerp3 Rops p0 p1 s)) /\
    transl3 (rt2tr3 Rops (q2r_ref Rops q) (lerp3 Rops p0 p1 s)) =
      vadd3 Rops (vscale3 Rops (1 - s) p0) (vscale3 Rops s p1).
Proof.
  intros q0 q1 p0 p1 s H0 H1 Hs NA.
  destruct (C11_slerp_unit q0 q1 s trinterp_shortest H0 H1 Hs NA) as (q & E & U & _).
  exists q. split; [exact E|]. split; [exact U|]. split; [|split].
  - unfold trinterp_q. assert (A : in01 Rops s = true) by (apply in01_true; lra). rewrite A, E. reflexivity.
  - apply (trinterp_result_SE3 q _ U).
  - destruct p0 as [[a0 a1] a2], p1 as [[b0 b1] b2]. generalize (q2r_ref Rops q). intros M. destruct_tuples.
    autounfold with c11 smlin. sm_simpl. tuple_eq ltac:(ring).
Qed.
Print Assumptions C11_trinterp_valid_linear.

(* since fix 1310ef1 trinterp hands shortest=True to slerp (regenerated from the observed calls): whatever signs r2q gives the two
   quaternions, NO unit pair is antipodal for it, the arc taken is the shorter one (quaternion angle <= pi/2, i.e. at most a half turn),
   and the validity / linear-translation statement holds for EVERY pair of unit quaternions *)
Theorem C11_trinterp_takes_shorter_arc : trinterp_shortest = true /\
  forall q0 q1, unitq q0 -> unitq q1 ->
    not_antipodal trinterp_shortest q0 q1 /\ theta trinterp_shortest q0 q1 <= PI/2 /\
    0 <= dot4 Rops (start' trinterp_shortest q0 q1) q1 /\
    q2r_ref Rops (start' trinterp_shortest q0 q1) = q2r_ref Rops q0.
Proof.
  split; [reflexivity|]. intros q0 q1 H0 H1. destruct (C11_shortest_arc q0 q1 trinterp_shortest H0 H1) as (_ & _ & A & B).
  split; [left; reflexivity|]. split; [apply A; reflexivity|]. split; [apply B; reflexivity | apply q2r_slerp_q0].
Qed.
Print Assumptions C11_trinterp_takes_shorter_arc.

Theorem C11_trinterp_valid_every_pair : forall q0 q1 p0 p1 s, unitq q0 -> unitq q1 -> 0 <= s <= 1 ->
  exists q, slerpR q0 q1 s trinterp_shortest = Ok q /\ unitq q /\
    trq q0 q1 p0 p1 s = Ok (rt2tr3 Rops (q2r_ref Rops q) (lerp3 Rops p0 p1 s)) /\
    SE3 (rt2tr3 Rops (q2r_ref Rops q) (lerp3 Rops p0 p1 s)).
Proof.
  intros q0 q1 p0 p1 s H0 H1 Hs. destruct C11_trinterp_takes_shorter_arc as [_ T]. destruct (T q0 q1 H0 H1) as (NA & _).
  destruct (C11_trinterp_valid_linear q0 q1 p0 p1 s H0 H1 Hs NA) as (q & A & B & C & D & _).
  exists q. split; [exact A|]. split; [exact B|]. split; [exact C | exact D].
Qed.
Print Assumptions C11_trinterp_valid_every_pair.

Theorem C11_trinterp_endpoints : forall (T0 T1 : M44 R) q0 q1, SE3 T0 -> SE3 T1 ->
  q2r_ref Rops q0 = t2r3 T0 -> q2r_ref Rops q1 = t2r3 T1 ->
  trq q0 q1 (transl3 T0) (transl3 T1) 0 = Ok T0 /\ trq q0 q1 (transl3 T0) (transl3 T1) 1 = Ok T1 /\
  trq1 q1 (transl3 T1) 1 = Ok T1 /\ trq1 q1 (transl3 T1) 0 = Ok (I44 Rops).
Proof.
  intros T0 T1 q0 q1 S0 S1 E0 E1.
  pose proof (SE3_decompose T0 S0) as D0. pose proof (SE3_decompose T1 S1) as D1. clear S0 S1.
  revert D0 D1 E0 E1. generalize (t2r3 T0) (transl3 T0) (t2r3 T1) (transl3 T1). intros R0 p0 R1 p1 D0 D1 E0 E1. subst T0 T1.
  unfold trinterp_q, trinterp_q1.
  assert (A : in01 Rops 0 = true) by (apply in01_true; lra). assert (B : in01 Rops 1 = true) by (apply in01_true; lra).
  rewrite A, B. cbn [negb].
  destruct (C11_slerp_endpoints q0 q1 trinterp_shortest) as [X0 X1]. rewrite X0, X1.
  destruct (C11_slerp_endpoints (qone Rops) q1 trinterp_shortest) as [Y0 Y1]. rewrite Y0, Y1.
  unfold q2r_m. rewrite E0, E1.
  repeat split; apply f_equal; destruct_tuples; autounfold with c11 smlin; sm_simpl; tuple_eq ltac:(ring).
Qed.
Print Assumptions C11_trinterp_endpoints.

(* the shape dispatch, SE(3) inputs: the model used for the float correspondence is trinterp_q on the r2q's of the 3x3 blocks *)
Theorem C11_trinterp_SE3_dispatch : forall (A B : M44 R) s,
  dyn Rops (Some (Mat44 A)) (Mat44 B) s =
    match trq (r2q_m Rops (kR Rops) (t2r3 A)) (r2q_m Rops (kR Rops) (t2r3 B)) (transl3 A) (transl3 B) s with
    | Ok m => Ok (Mat44 m) | Err e => Err e end /\
  dyn Rops None (Mat44 B) s =
    match trq1 (r2q_m Rops (kR Rops) (t2r3 B)) (transl3 B) s with Ok m => Ok (Mat44 m) | Err e => Err e end.
Proof.
  intros. unfold dyn, trinterp_dyn, trinterp_q, trinterp_q1, bind, t2r_dyn, r2q_dyn, transl_dyn.
  destruct (in01 Rops s); cbn [negb]; split; try reflexivity;
    match goal with |- context [slerp ?a ?b ?c ?d ?e ?f] => destruct (slerp a b c d e f); reflexivity end.
Qed.
Print Assumptions C11_trinterp_SE3_dispatch.

(* the shape dispatch, SO(3) inputs (fix ee14c5b: r2q is applied to the 3x3 arguments themselves): the result is the
   matrix of slerp of the two r2q's, for every s (out of range: slerp's ValueError) *)
Theorem C11_trinterp_SO3_dispatch : forall (R0 R1 : M33 R) s,
  dyn Rops (Some (Mat33 R0)) (Mat33 R1) s =
    match slerpR (r2q_m Rops (kR Rops) R0) (r2q_m Rops (kR Rops) R1) s trinterp_shortest with
    | Ok q => Ok (Mat33 (q2r_ref Rops q)) | Err e => Err e end /\
  dyn Rops None (Mat33 R1) s =
    match slerpR (qone Rops) (r2q_m Rops (kR Rops) R1) s trinterp_shortest with
    | Ok q => Ok (Mat33 (q2r_ref Rops q)) | Err e => Err e end.
Proof.
  intros. unfold dyn, trinterp_dyn, bind, r2q_dyn, q2r_m.
  destruct (in01 Rops s) eqn:E; cbn [negb]; split; try reflexivity;
    apply in01_false in E; rewrite (C11_slerp_rejects_out_of_range _ _ _ _ E); reflexivity.
Qed.
Print Assumptions C11_trinterp_SO3_dispatch.

(* FULL-STRENGTH statement for SO(3) arguments (it was `_refuted` before the fix): with q0 = r2q(R0), q1 = r2q(R1) unit
   quaternions whose matrices are R0, R1 (the specification of r2q, property C04), every s in [0,1] gives a matrix of SO(3),
   namely the matrix of slerp (so C11_slerp_rotation_fixed_axis is about it), with the ends at s = 0 and s = 1 *)
Theorem C11_trinterp_SO3_valid : forall (R0 R1 : M33 R) s,
  let q0 := r2q_m Rops (kR Rops) R0 in let q1 := r2q_m Rops (kR Rops) R1 in
  unitq q0 -> unitq q1 -> q2r_ref Rops q0 = R0 -> q2r_ref Rops q1 = R1 -> 0 <= s <= 1 -> not_antipodal trinterp_shortest q0 q1 ->
  (exists q, slerpR q0 q1 s trinterp_shortest = Ok q /\ unitq q /\
     dyn Rops (Some (Mat33 R0)) (Mat33 R1) s = Ok (Mat33 (q2r_ref Rops q)) /\ SO3 (q2r_ref Rops q)) /\
  dyn Rops (Some (Mat33 R0)) (Mat33 R1) 0 = Ok (Mat33 R0) /\ dyn Rops (Some (Mat33 R0)) (Mat33 R1) 1 = Ok (Mat33 R1) /\
  dyn Rops None (Mat33 R1) 1 = Ok (Mat33 R1) /\ dyn Rops None (Mat33 R1) 0 = Ok (Mat33 (I33 Rops)).
Proof.
  intros R0 R1 s q0 q1 U0 U1 E0 E1 Hs NA.
  destruct (C11_slerp_unit q0 q1 s trinterp_shortest U0 U1 Hs NA) as (q & E & U & S).
  split; [exists q; repeat split; try assumption; destruct (C11_trinterp_SO3_dispatch R0 R1 s) as [D _]; rewrite D; fold q0 q1; rewrite E; reflexivity|].
  destruct (C11_trinterp_SO3_dispatch R0 R1 0) as [D0 N0]. destruct (C11_trinterp_SO3_dispatch R0 R1 1) as [D1 N1].
  fold q0 q1 in D0, D1, N0, N1.
  destruct (C11_slerp_endpoints q0 q1 trinterp_shortest) as [X0 X1].
  destruct (C11_slerp_endpoints (qone Rops) q1 trinterp_shortest) as [Y0 Y1].
  rewrite D0, D1, N0, N1, X0, X1, Y0, Y1, E0, E1. repeat split.
  f_equal. f_equal. lin_simpl. tuple_eq ltac:(ring).
Qed.
Print Assumptions C11_trinterp_SO3_valid.

Example C11_trinterp_SO3_nonvacuous : unitq (qone Rops) /\ q2r_ref Rops (qone Rops) = I33 Rops /\ SO3 (I33 Rops) /\
  unitq (3/5, 4/5, 0, 0) /\ SO3 (q2r_ref Rops (3/5, 4/5, 0, 0)).
Proof.
  assert (U : unitq (3/5, 4/5, 0, 0)) by (unfold unitq; lin_simpl; lra).
  split; [unfold unitq; lin_simpl; lra|]. split; [lin_simpl; tuple_eq ltac:(ring)|].
  split; [apply SO3_I|]. split; [exact U | apply SO3_q2r; exact U].
Qed.

(* arguments that are neither 3x3 nor 4x4 (and mixed 3x3 / 4x4 pairs) are rejected with ValueError, whatever s (fix 339284c) *)
Theorem C11_trinterp_rejects_bad_shape : forall start s,
  dyn Rops start MatOther s = Err ValueError /\ (forall m, dyn Rops start (Mat22 m) s = Err ValueError) /\
  (forall (A : M33 R) (B : M44 R), dyn Rops (Some (Mat33 A)) (Mat44 B) s = Err ValueError /\
                                   dyn Rops (Some (Mat44 B)) (Mat33 A) s = Err ValueError).
Proof.
  intros start s. unfold dyn, trinterp_dyn. destruct (in01 Rops s); cbn [negb]; repeat split; reflexivity.
Qed.
Print Assumptions C11_trinterp_rejects_bad_shape.

(* ---------------------------------------------------------------- 2-D: trinterp2 executed on symbols *)
(* bring the argument of every sin / cos of the goal to the form t (equal as polynomials) *)
Ltac norm_arg t := repeat match goal with
  | |- context [sin ?x] => tryif constr_eq x t then fail else replace x with t by ring
  | |- context [cos ?x] => tryif constr_eq x t then fail else replace x with t by ring end.
Definition th2 (A B : M33 R) (s : R) : R :=
  let '((a00,_,_),(a10,_,_),_) := A in let '((b00,_,_),(b10,_,_),_) := B in
  (1 - s) * atan2 a10 a00 + s * atan2 b10 b00.

(* the angle of the result is linear in s between the angles of the ends, the translation is linear in s,
   and the result is in SE(2) for EVERY s (trinterp2 has no range check) *)
Theorem C11_trinterp2_linear : forall (A B : M33 R) s,
  tr_trinterp2_se2 Rops A B s =
    rt2tr2 Rops (rot2_cs Rops (cos (th2 A B s)) (sin (th2 A B s)))
           (vadd2 Rops (vscale2 Rops (1 - s) (transl2 A)) (vscale2 Rops s (transl2 B))) /\
  SE2 (tr_trinterp2_se2 Rops A B s).
Proof.
  intros A B s.
  assert (E : tr_trinterp2_se2 Rops A B s =
    rt2tr2 Rops (rot2_cs Rops (cos (th2 A B s)) (sin (th2 A B s)))
           (vadd2 Rops (vscale2 Rops (1 - s) (transl2 A)) (vscale2 Rops s (transl2 B)))).
  { destruct_tuples. unfold th2. autounfold with smgen smlin. sm_simpl.
    match goal with |- _ = (((cos ?t, _, _), _), _) => norm_arg t end. tuple_eq ltac:(ring). }
  split; [exact E|]. rewrite E. generalize (th2 A B s). intros t.
  generalize (vadd2 Rops (vscale2 Rops (1 - s) (transl2 A)) (vscale2 Rops s (transl2 B))). intros [t0 t1].
  unfold SE2. lin_simpl. split; [|reflexivity]. pose proof (cs_unit t). unfold SO2. repeat split; nra.
Qed.
Print Assumptions C11_trinterp2_linear.

(* start omitted = start at the identity; the SO(2) functions are the rotation blocks of the SE(2) ones *)
Theorem C11_trinterp2_variants : forall (A B : M33 R) s,
  tr_trinterp2_se2_1 Rops B s = tr_trinterp2_se2 Rops (I33 Rops) B s /\
  tr_trinterp2_so2 Rops (t2r2 A) (t2r2 B) s = t2r2 (tr_trinterp2_se2 Rops A B s) /\
  tr_trinterp2_so2_1 Rops (t2r2 B) s = t2r2 (tr_trinterp2_se2_1 Rops B s).
Proof.
  intros A B s. destruct_tuples. autounfold with smgen smlin. sm_simpl.
  assert (Z : atan2 0 1 = 0).
  { unfold atan2. destruct (Rlt_dec 0 1); [|lra]. replace (0/1) with 0 by field. apply atan_0. }
  rewrite ?Z. repeat split; tuple_eq ltac:(try ring; try (f_equal; ring); try (apply f_equal; f_equal; ring)).
Qed.
Print Assumptions C11_trinterp2_variants.

(* endpoints in 2-D *)
Theorem C11_trinterp2_endpoints : forall (A B : M33 R), SE2 A -> SE2 B ->
  tr_trinterp2_se2 Rops A B 0 = A /\ tr_trinterp2_se2 Rops A B 1 = B.
Proof.
  intros A B [SA LA] [SB LB]. destruct (C11_trinterp2_linear A B 0) as [E0 _]. destruct (C11_trinterp2_linear A B 1) as [E1 _].
  rewrite E0, E1. clear E0 E1.
  destruct A as [[[[a00 a01] a02] [[a10 a11] a12]] [[a20 a21] a22]]. destruct B as [[[[b00 b01] b02] [[b10 b11] b12]] [[b20 b21] b22]].
  unfold th2. lin_simpl. injection LA; intros; subst. injection LB; intros; subst.
  pose proof (SO2_columns _ _ _ _ SA) as (A1 & A2 & A3). pose proof (SO2_columns _ _ _ _ SB) as (B1 & B2 & B3).
  destruct (atan2_unit_circle a00 a10) as [C0 S0]; [lra|]. destruct (atan2_unit_circle b00 b10) as [C1 S1]; [lra|].
  replace ((1 - 0) * atan2 a10 a00 + 0 * atan2 b10 b00) with (atan2 a10 a00) by ring.
  replace ((1 - 1) * atan2 a10 a00 + 1 * atan2 b10 b00) with (atan2 b10 b00) by ring.
  rewrite C0, S0, C1, S1. split; tuple_eq ltac:(try lra).
Qed.
Print Assumptions C11_trinterp2_endpoints.

Example C11_trinterp2_nonvacuous : SE2 ((3/5, -4/5, 1), (4/5, 3/5, 2), (0, 0, 1)).
Proof. unfold SE2. lin_simpl. split; [unfold SO2; repeat split; lra | reflexivity]. Qed.
