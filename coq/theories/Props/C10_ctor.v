(* C10 -- construction from a list of objects (property text: "construction from a list of objects ... Supplying ... a
   multi-valued object where a single value is required, raises an exception"), on the model Model/C10_Ctor.v of the
   `type(arg[0]) == type(self)` branch of SMUserList.arghandler.  The model is tied to /repo on every run by props/C10.py:
   every argument list of length <= 4 over elements holding 0..3 values (or foreign) through every list-capable class. *)
From Coq Require Import ZArith List Lia Bool.
From SM Require Import Model.C10_PyList Model.C10_SMList Model.C10_Ctor.
Import ListNotations.
Open Scope Z_scope.

(* FULL STRENGTH, any number of elements, any number of values per element: the constructor succeeds exactly when every
   element holds exactly one value, and then the object holds what a Python list of those elements' values holds *)
Theorem C10_ctor_objs_accepts_iff : forall els d,
  ctor_objs els = Ok d <-> (forallb is_single els = true /\ d = spec_values els).
Proof. exact ctor_objs_ok_iff. Qed.
Print Assumptions C10_ctor_objs_accepts_iff.

Theorem C10_ctor_objs_length : forall els d, ctor_objs els = Ok d -> zlen d = zlen els.
Proof. exact ctor_objs_len. Qed.
Print Assumptions C10_ctor_objs_length.

(* an empty or multi-valued element at ANY position of a list of same-class objects is rejected with ValueError *)
Theorem C10_ctor_objs_bad_element_rejected : forall ts r,
  forallb is_same (ESame ts :: r) = true -> forallb is_single (ESame ts :: r) = false ->
  ctor_objs (ESame ts :: r) = Raise ValueError.
Proof. exact ctor_objs_rejects. Qed.
Print Assumptions C10_ctor_objs_bad_element_rejected.

(* non-vacuity, and why counting the values is not the test: an empty element compensates a two-valued one *)
Example C10_ctor_objs_ex :
  ctor_objs [ESame [4]; ESame [5]; ESame [6]] = Ok [4;5;6] /\
  ctor_objs [ESame []; ESame [7;8]] = Raise ValueError /\ zlen (spec_values [ESame []; ESame [7;8]]) = zlen [ESame []; ESame [7;8]] /\
  ctor_objs [ESame [1]; ESame []; ESame [7;8]] = Raise ValueError /\
  ctor_objs [ESame [1]; EOther] = Raise AssertionError /\ ctor_objs [] = Ok [].
Proof. vm_compute. repeat split. Qed.
