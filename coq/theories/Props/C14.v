(* C14 -- normalisation projects onto the group and is idempotent.
   Fixed statements.  What is regenerated from /repo on every run (coq/gen/Traces_C14.v):
     thr_*     the thresholds, re-read from the source AST (T-const);
     m_*       the hand models of Model/C14_Norm.v instantiated with those thresholds;
     tr_*      concolic traces: the library itself executed on symbols, one per value path;
     pc_*      the comparisons the library made on that path (path conditions).
   Part 1 proves the side conditions on the regenerated thresholds, Part 2 the property for the models
   (all inputs, real arithmetic), Part 3 ties models and traces for ALL inputs (bridge theorems). *)
From Coq Require Import Reals ZArith Lra Lia.
From SM Require Import Base.Ops Base.Lin Base.RInst Base.RLin Model.C14_Norm Model.C14_NormProofs.
From SMgen Require Import Traces_C14.
Open Scope R_scope.

(* ================================================================ Part 1: thresholds *)
(* every threshold is positive and far below the smallest norm of the property's domain (1e-6);
   the whole-twist threshold is not smaller than the rotational-part threshold *)
Theorem C14_thresholds :
  0 < thr_unitvec Rops < 1/1000000 /\ 0 < thr_unitvec_norm Rops < 1/1000000 /\ 0 < thr_qunit Rops < 1/1000000 /\
  0 < thr_twist_w Rops /\ thr_twist_w Rops <= thr_twist_S Rops < 1/1000000 /\
  thr_twist_w Rops <= thr_twistn_S Rops < 1/1000000 /\ 0 < thr_twist2_w Rops < 1/1000000.
Proof. autounfold with c14gen. sm_simpl. repeat split; lra. Qed.
Print Assumptions C14_thresholds.

Ltac thr := pose proof C14_thresholds as (Tv & Tvn & Tq & Tw & TS & TSn & T2).
Ltac um := unfold m_twist3_unit, m_twist2_unit in *; fold (@m_unittwist R Rops) in *;
  unfold m_unitvec, m_qunit, m_trnorm33, m_trnorm44, m_trnorm22, m_trnorm23, m_unittwist, m_unittwist2 in *.

(* ================================================================ Part 2: the property, for the models *)
(* ---- trnorm, 3x3 *)
Theorem C14_trnorm_projects : forall R R', m_trnorm33 Rops R = Some R' -> SO3 R'.
Proof. thr. intros R R' H. um. eapply trnorm33_SO3; [|exact H]. lra. Qed.
Print Assumptions C14_trnorm_projects.

(* defined exactly when none of the three vectors it normalises is shorter than the threshold (unitvec tests n >= thr,
   the complement of iszerovec, since fix 4dbd011); in particular whenever
   o x a, a x (o x a) and a have length >= 1e-6 (for a nearly valid matrix all three are close to 1) *)
Theorem C14_trnorm_defined : forall R,
  let o := col33 R 1 in let a := col33 R 2 in let n := cross3 Rops o a in let p := cross3 Rops a n in
  (m_trnorm33 Rops R = None <->
     norm3 Rops n < thr_unitvec Rops \/ norm3 Rops p < thr_unitvec Rops \/ norm3 Rops a < thr_unitvec Rops) /\
  (1/1000000 <= norm3 Rops n -> 1/1000000 <= norm3 Rops p -> 1/1000000 <= norm3 Rops a ->
     exists R', m_trnorm33 Rops R = Some R').
Proof.
  thr. intros R. um. cbv zeta. split; [apply trnorm33_none|]. intros H1 H2 H3.
  eexists. apply trnorm33_defined; lra.
Qed.
Print Assumptions C14_trnorm_defined.

(* third column = a/|a| (direction of the approach axis kept); second column = k ((a.a) o - (a.o) a), k > 0: in the
   plane of the old second and third columns, on the side of o; first column = k (o x a) *)
Theorem C14_trnorm_axes : forall R R', m_trnorm33 Rops R = Some R' ->
  let o := col33 R 1 in let a := col33 R 2 in
  (exists k, 0 < k /\ col33 R' 2 = vscale3 Rops k a) /\
  (exists k, 0 < k /\ col33 R' 1 =
      vscale3 Rops k (vsub3 Rops (vscale3 Rops (dot3 Rops a a) o) (vscale3 Rops (dot3 Rops a o) a))) /\
  (exists k, 0 < k /\ col33 R' 0 = vscale3 Rops k (cross3 Rops o a)) /\
  col33 R' 2 = vdiv3 Rops a (norm3 Rops a).
Proof. thr. intros R R' H. um. eapply trnorm33_columns; [|exact H]. lra. Qed.
Print Assumptions C14_trnorm_axes.

Theorem C14_trnorm_fixed : forall R, SO3 R -> m_trnorm33 Rops R = Some R.
Proof. thr. intros R H. um. apply trnorm33_fixed; [lra|exact H]. Qed.
Print Assumptions C14_trnorm_fixed.

Theorem C14_trnorm_idempotent : forall R R', m_trnorm33 Rops R = Some R' -> m_trnorm33 Rops R' = Some R'.
Proof. thr. intros R R' H. um. eapply trnorm33_idem; [|exact H]. lra. Qed.
Print Assumptions C14_trnorm_idempotent.

(* ---- trnorm, 4x4: result in SE(3) (last row exactly 0 0 0 1 whatever the input's last row), translation kept *)
Theorem C14_trnorm44_projects : forall A A', m_trnorm44 Rops A = Some A' ->
  SE3 A' /\ transl3 A' = transl3 A /\ m_trnorm33 Rops (t2r3 A) = Some (t2r3 A').
Proof.
  thr. intros A A' H. um. destruct (trnorm44_SE3 (thr_unitvec Rops) A A' ltac:(lra) H) as [H1 H2].
  repeat split; try assumption; try apply H1. apply trnorm44_rot. exact H.
Qed.
Print Assumptions C14_trnorm44_projects.

Theorem C14_trnorm44_fixed : forall A, SE3 A -> m_trnorm44 Rops A = Some A.
Proof. thr. intros A H. um. apply trnorm44_fixed; [lra|exact H]. Qed.
Print Assumptions C14_trnorm44_fixed.

Theorem C14_trnorm44_idempotent : forall A A', m_trnorm44 Rops A = Some A' -> m_trnorm44 Rops A' = Some A'.
Proof. thr. intros A A' H. um. eapply trnorm44_idem; [|exact H]. lra. Qed.
Print Assumptions C14_trnorm44_idempotent.

(* ---- unitvec / unitvec_norm *)
Theorem C14_unitvec : forall v u, m_unitvec Rops v = Some u ->
  normsq3 Rops u = 1 /\ (exists k, 0 < k /\ u = vscale3 Rops k v) /\ m_unitvec Rops u = Some u.
Proof.
  thr. intros v u H. um. repeat split.
  - eapply unitvec_unit; [|exact H]. lra.
  - eapply unitvec_direction; [|exact H]. lra.
  - eapply unitvec_idem; [|exact H]. lra.
Qed.
Print Assumptions C14_unitvec.

Theorem C14_unitvec_defined : forall v,
  (m_unitvec Rops v = None <-> norm3 Rops v < thr_unitvec Rops) /\
  (1/1000000 <= norm3 Rops v -> exists u, m_unitvec Rops v = Some u) /\
  (normsq3 Rops v = 1 -> m_unitvec Rops v = Some v).
Proof.
  thr. intros v. um. split; [apply unitvec_none|]. split.
  - intros H. eexists. apply unitvec_defined. lra.
  - intros H. apply unitvec_fixed; [lra|exact H].
Qed.
Print Assumptions C14_unitvec_defined.

Theorem C14_unitvec_norm : forall v,
  m_unitvec_norm Rops v =
  match unitvec_m Rops (thr_unitvec_norm Rops) v with Some (a,b,c) => Some (a,b,c,norm3 Rops v) | None => None end.
Proof.
  intros v. unfold m_unitvec_norm. rewrite unitvec_norm_agrees.
  destruct (unitvec_m Rops (thr_unitvec_norm Rops) v) as [[[a b] c]|]; reflexivity.
Qed.
Print Assumptions C14_unitvec_norm.

(* ---- quaternions.unit *)
Theorem C14_qunit : forall q u, m_qunit Rops q = Some u ->
  dot4 Rops u u = 1 /\ (exists k, 0 < k /\ u = vscale4 Rops k q) /\ m_qunit Rops u = Some u.
Proof.
  thr. intros q u H. um. repeat split.
  - eapply qunit_unit; [|exact H]. lra.
  - eapply qunit_direction; [|exact H]. lra.
  - eapply qunit_idem; [|exact H]. lra.
Qed.
Print Assumptions C14_qunit.

Theorem C14_qunit_defined : forall q,
  (m_qunit Rops q = None <-> norm4 Rops q < thr_qunit Rops) /\
  (1/1000000 <= norm4 Rops q -> exists u, m_qunit Rops q = Some u) /\
  (dot4 Rops q q = 1 -> m_qunit Rops q = Some q).
Proof.
  thr. intros q. um. split; [apply qunit_none|]. split.
  - intros H. eexists. apply qunit_defined. lra.
  - intros H. apply qunit_fixed; [lra|exact H].
Qed.
Print Assumptions C14_qunit_defined.

(* ---- unittwist / unittwist_norm (the irrotational branch zeroes the rotational part since fix 3bd9c1c) *)
(* rotational input (|w| >= thr): unit rotational part and a positive multiple of the whole twist; irrotational input
   (|w| < thr): unit translational part in the direction of v, rotational part exactly zero *)
Theorem C14_unittwist : forall S U, m_unittwist Rops S = Some U ->
  (thr_twist_w Rops <= norm3 Rops (tw_w S) ->
     normsq3 Rops (tw_w U) = 1 /\
     exists k, 0 < k /\ U = (let '(a,b,c,d,e,f) := S in (k*a, k*b, k*c, k*d, k*e, k*f))) /\
  (norm3 Rops (tw_w S) < thr_twist_w Rops ->
     normsq3 Rops (tw_v U) = 1 /\ tw_w U = (0,0,0) /\ exists k, 0 < k /\ tw_v U = vscale3 Rops k (tw_v S)).
Proof. thr. intros S U H. um. eapply unittwist_parts; [|exact H]. lra. Qed.
Print Assumptions C14_unittwist.

Theorem C14_unittwist_defined : forall S,
  (m_unittwist Rops S = None <-> norm6 Rops S < thr_twist_S Rops) /\
  (1/1000000 <= norm6 Rops S -> exists U, m_unittwist Rops S = Some U) /\
  (normsq3 Rops (tw_w S) = 1 \/ (tw_w S = (0,0,0) /\ normsq3 Rops (tw_v S) = 1) -> m_unittwist Rops S = Some S).
Proof.
  thr. intros S. um. split; [apply unittwist_none|]. split.
  - intros H. destruct (unittwist_m Rops (thr_twist_S Rops) (thr_twist_w Rops) S) eqn:E; [eexists; reflexivity|].
    apply unittwist_none in E. lra.
  - intros H. apply unittwist_fixed; first [lra|exact H].
Qed.
Print Assumptions C14_unittwist_defined.

(* FULL STATEMENT (true since fix 3bd9c1c; it was refuted by S = (1/2,0,0, 3/4 thr,0,0) before): every result is a unit
   twist in the sense of the library's own threshold, and a second application changes nothing *)
Theorem C14_unittwist_valid_idempotent : forall S U, m_unittwist Rops S = Some U ->
  unit_twist_spec (thr_twist_w Rops) U /\ m_unittwist Rops U = Some U.
Proof. thr. intros S U H. um. eapply unittwist_valid_idem; try exact H; lra. Qed.
Print Assumptions C14_unittwist_valid_idempotent.

Theorem C14_unittwist_norm : forall S,
  m_unittwist_norm Rops S =
  match unittwist_m Rops (thr_twistn_S Rops) (thr_twist_w Rops) S, twist_theta_m Rops (thr_twistn_S Rops) (thr_twist_w Rops) S with
  | Some (a,b,c,d,e,f), Some th => Some (a,b,c,d,e,f,th,0) | _, _ => None end.
Proof.
  intros S. unfold m_unittwist_norm. rewrite unittwist_norm_agrees.
  destruct (unittwist_m Rops (thr_twistn_S Rops) (thr_twist_w Rops) S) as [[[[[[a b] c] d] e] f]|];
    destruct (twist_theta_m Rops (thr_twistn_S Rops) (thr_twist_w Rops) S); reflexivity.
Qed.
Print Assumptions C14_unittwist_norm.

(* ---- unittwist2 (no zero guard in the code: the guard `|w| >= thr or v <> 0` is explicit here) *)
Theorem C14_unittwist2 : forall v0 v1 w,
  let '(u0,u1,x) := m_unittwist2 Rops (v0,v1,w) in
  (thr_twist2_w Rops <= Rabs w -> x*x = 1 /\ exists k, 0 < k /\ (u0,u1,x) = (k*v0, k*v1, k*w)) /\
  (Rabs w < thr_twist2_w Rops -> (v0,v1) <> (0,0) ->
     u0*u0+u1*u1 = 1 /\ x = 0 /\ exists k, 0 < k /\ (u0,u1) = (k*v0, k*v1)).
Proof. thr. intros. um. apply unittwist2_parts. lra. Qed.
Print Assumptions C14_unittwist2.

Theorem C14_unittwist2_fixed : forall v0 v1 w,
  w*w = 1 \/ (w = 0 /\ v0*v0+v1*v1 = 1) -> m_unittwist2 Rops (v0,v1,w) = (v0,v1,w).
Proof. thr. intros. um. apply unittwist2_fixed; [lra|assumption]. Qed.
Print Assumptions C14_unittwist2_fixed.

(* FULL STATEMENT (true since fix 3bd9c1c; refuted by (1/2, 0, 3/4 thr) before) *)
Theorem C14_unittwist2_valid_idempotent : forall v0 v1 w,
  thr_twist2_w Rops <= Rabs w \/ (v0,v1) <> (0,0) ->
  unit_twist2_spec (thr_twist2_w Rops) (m_unittwist2 Rops (v0,v1,w)) /\
  m_unittwist2 Rops (m_unittwist2 Rops (v0,v1,w)) = m_unittwist2 Rops (v0,v1,w).
Proof. thr. intros. um. apply unittwist2_valid_idem; [lra|assumption]. Qed.
Print Assumptions C14_unittwist2_valid_idempotent.

Theorem C14_unittwist2_norm : forall S,
  m_unittwist2_norm Rops S = (let '(a,b,c) := m_unittwist2 Rops S in (a,b,c, twist2_theta_m Rops (thr_twist2_w Rops) S)).
Proof. intros [[a b] c]. reflexivity. Qed.
Print Assumptions C14_unittwist2_norm.

(* ---- angdiff: for EVERY positive value p of the constant math.pi (PI, or the double nearest to it) *)
Theorem C14_angdiff : forall p d, 0 < p ->
  - p <= angdiff_p Rops p d < p /\ (exists k : Z, angdiff_p Rops p d = d - IZR k * (2 * p)) /\
  angdiff_p Rops p (angdiff_p Rops p d) = angdiff_p Rops p d /\ (- p <= d < p -> angdiff_p Rops p d = d).
Proof.
  intros p d Hp. split; [apply angdiff_range; exact Hp|]. split; [apply angdiff_congr|].
  split; [apply angdiff_idem; exact Hp|apply angdiff_fixed; exact Hp].
Qed.
Print Assumptions C14_angdiff.

Theorem C14_angdiff_instances : forall a b,
  - PI <= m_angdiff1 Rops a < PI /\ (exists k : Z, m_angdiff1 Rops a = a - IZR k * (2 * PI)) /\
  - PI <= m_angdiff2 Rops a b < PI /\ (exists k : Z, m_angdiff2 Rops a b = (a - b) - IZR k * (2 * PI)).
Proof.
  intros a b. unfold m_angdiff1, m_angdiff2, angdiff1_m, angdiff2_m. cbn [pi_f sub Rops].
  pose proof PI_RGT_0 as HP. repeat split; try apply angdiff_range; try apply angdiff_congr; lra.
Qed.
Print Assumptions C14_angdiff_instances.

(* ---- Twist3.unit / Twist2.unit (fix ca82070): they ARE unittwist / unittwist2 of the twist vector (definitionally for
   the models; for all inputs on every path of the traced class methods by C14_bridge_twist_unit below), so everything
   proved for unittwist / unittwist2 holds for them, at full strength since fix 3bd9c1c *)
Theorem C14_twist3_unit : forall S,
  m_twist3_unit Rops S = m_unittwist Rops S /\
  (forall U, m_twist3_unit Rops S = Some U ->
     unit_twist_spec (thr_twist_w Rops) U /\ m_twist3_unit Rops U = Some U /\
     exists k, 0 < k /\ tw_v U = vscale3 Rops k (tw_v S)).
Proof.
  intros S. split; [reflexivity|]. intros U H. change (m_unittwist Rops S = Some U) in H.
  destruct (C14_unittwist_valid_idempotent S U H) as [H1 H2]. split; [exact H1|]. split; [exact H2|].
  destruct (C14_unittwist S U H) as [Hr Hi].
  destruct (Rle_or_lt (thr_twist_w Rops) (norm3 Rops (tw_w S))) as [Hc|Hc].
  - destruct (Hr Hc) as (_ & k & Hk & ->). exists k. split; [exact Hk|]. destruct_tuples. reflexivity.
  - destruct (Hi Hc) as (_ & _ & E). exact E.
Qed.
Print Assumptions C14_twist3_unit.

Theorem C14_twist2_unit : forall v0 v1 w,
  m_twist2_unit Rops (v0,v1,w) = m_unittwist2 Rops (v0,v1,w) /\
  (thr_twist2_w Rops <= Rabs w \/ (v0,v1) <> (0,0) ->
     unit_twist2_spec (thr_twist2_w Rops) (m_twist2_unit Rops (v0,v1,w)) /\
     m_twist2_unit Rops (m_twist2_unit Rops (v0,v1,w)) = m_twist2_unit Rops (v0,v1,w)).
Proof. intros v0 v1 w. split; [reflexivity|]. apply (C14_unittwist2_valid_idempotent v0 v1 w). Qed.
Print Assumptions C14_twist2_unit.

(* ---- trnorm2 (new with the fix 7bb8ca6), 2x2 and 3x3: projects onto SO(2) / SE(2), keeps the direction of the second
   column (y-axis) and the translation, fixes valid input, idempotent; None (TypeError) exactly when the second column
   is not longer than the unitvec threshold *)
Theorem C14_trnorm2_projects : forall R R', m_trnorm22 Rops R = Some R' ->
  SO2 R' /\ (exists k, 0 < k /\ (let '((_,b),(_,d)) := R' in (b,d)) = (let '((_,r01),(_,r11)) := R in (k*r01, k*r11))) /\
  m_trnorm22 Rops R' = Some R'.
Proof.
  thr. intros R R' H. um. destruct (trnorm22_SO2 (thr_unitvec Rops) R R' ltac:(lra) H) as [H1 H2].
  repeat split; try assumption; try apply H1. eapply trnorm22_idem; [|exact H]. lra.
Qed.
Print Assumptions C14_trnorm2_projects.

Theorem C14_trnorm2_defined_fixed : forall r00 r01 r10 r11,
  (m_trnorm22 Rops ((r00,r01),(r10,r11)) = None <-> norm2 Rops (r01,r11) < thr_unitvec Rops) /\
  (1/1000000 <= norm2 Rops (r01,r11) -> exists R', m_trnorm22 Rops ((r00,r01),(r10,r11)) = Some R') /\
  (SO2 ((r00,r01),(r10,r11)) -> m_trnorm22 Rops ((r00,r01),(r10,r11)) = Some ((r00,r01),(r10,r11))).
Proof.
  thr. intros. um. split; [apply trnorm22_none|]. split.
  - intros H. apply trnorm22_defined. lra.
  - intros H. apply trnorm22_fixed; [lra|exact H].
Qed.
Print Assumptions C14_trnorm2_defined_fixed.

Theorem C14_trnorm23 : forall A,
  (forall A', m_trnorm23 Rops A = Some A' ->
     SE2 A' /\ transl2 A' = transl2 A /\ m_trnorm22 Rops (t2r2 A) = Some (t2r2 A') /\ m_trnorm23 Rops A' = Some A') /\
  (SE2 A -> m_trnorm23 Rops A = Some A).
Proof.
  thr. intros A. um. split.
  - intros A' H. destruct (trnorm23_SE2 (thr_unitvec Rops) A A' ltac:(lra) H) as (H1 & H2 & H3).
    repeat split; try assumption; try apply H1. eapply trnorm23_idem; [|exact H]. lra.
  - intros H. apply trnorm23_fixed; [lra|exact H].
Qed.
Print Assumptions C14_trnorm23.

(* ---- non-vacuity: concrete non-trivial inputs meeting the hypotheses used above *)
Lemma sqrt_ge_1 x : 1 <= x -> 1 <= sqrt x.
Proof. intros H. rewrite <- sqrt_1 at 1. apply sqrt_le_1_alt. exact H. Qed.
Example C14_nonvacuous_trnorm :
  (exists R', m_trnorm33 Rops ((1,1,0),(0,2,1),(0,0,3)) = Some R') /\ ~ SO3 ((1,1,0),(0,2,1),(0,0,3)) /\
  SO3 ((0,-1,0),(1,0,0),(0,0,1)) /\ SE3 ((0,-1,0,5),(1,0,0,6),(0,0,1,7),(0,0,0,1)).
Proof.
  thr. um. split; [|split; [|split]].
  - eexists. apply trnorm33_defined; (apply Rle_trans with 1; [lra|]); unfold norm3; cbn [sqrt_ Rops];
      apply sqrt_ge_1; nm_simpl; lra.
  - unfold SO3. lra.
  - unfold SO3. repeat split; ring.
  - unfold SE3. nm_simpl. unfold SO3. split; [repeat split; ring|reflexivity].
Qed.

Example C14_nonvacuous_vectors :
  (exists u, m_unitvec Rops (3,4,0) = Some u) /\ (exists u, m_qunit Rops (1,2,2,4) = Some u) /\
  (exists U, m_unittwist Rops (1,2,3,3,4,0) = Some U) /\ thr_twist_w Rops <= norm3 Rops (tw_w (1,2,3,3,4,0)) /\
  (exists U, m_unittwist Rops (3,4,0,0,0,0) = Some U) /\ tw_w (3,4,0,0,0,0) = (0,0,0) /\
  thr_twist2_w Rops <= Rabs 2 /\ (3,4) <> (0,0).
Proof.
  thr. um.
  assert (N3 : norm3 Rops (3,4,0) = 5) by (nm_simpl; replace (3*3+4*4+0*0) with (5*5) by ring; apply sqrt_square; lra).
  assert (N4 : norm4 Rops (1,2,2,4) = 5) by (nm_simpl; replace (1*1+2*2+2*2+4*4) with (5*5) by ring; apply sqrt_square; lra).
  repeat split.
  - eexists. apply unitvec_defined. lra.
  - eexists. apply qunit_defined. lra.
  - destruct (unittwist_m Rops (thr_twist_S Rops) (thr_twist_w Rops) (1,2,3,3,4,0)) eqn:E; [eexists; reflexivity|]. apply unittwist_none in E.
    pose proof (norm6_ge_w (1,2,3,3,4,0)) as G. cbn [tw_w] in G. lra.
  - cbn [tw_w]. lra.
  - destruct (unittwist_m Rops (thr_twist_S Rops) (thr_twist_w Rops) (3,4,0,0,0,0)) eqn:E; [eexists; reflexivity|]. apply unittwist_none in E.
    pose proof (norm6_ge_v (3,4,0,0,0,0)) as G. cbn [tw_v] in G. lra.
  - rewrite Rabs_pos_eq; lra.
  - intros H; injection H; lra.
Qed.

Example C14_nonvacuous_trnorm2 :
  (exists R', m_trnorm22 Rops ((1,3),(0,4)) = Some R') /\ ~ SO2 ((1,3),(0,4)) /\ SO2 ((0,-1),(1,0)) /\
  SE2 ((0,-1,5),(1,0,6),(0,0,1)).
Proof.
  thr. um. split; [|split; [|split]].
  - apply trnorm22_defined. apply Rle_trans with 1; [lra|]. unfold norm2; cbn [sqrt_ Rops]. apply sqrt_ge_1. nm_simpl. lra.
  - unfold SO2. lra.
  - unfold SO2. repeat split; ring.
  - unfold SE2. nm_simpl. unfold SO2. split; [repeat split; ring|reflexivity].
Qed.

(* ================================================================ Part 3: models = traces of the library *)
(* unify syntactically different but ring-equal arguments of sqrt, then decide every comparison of the model from
   the recorded path condition *)
Ltac sqrt_unify :=
  repeat match goal with
  | |- context [sqrt ?x] =>
      match goal with
      | |- context [sqrt ?y] => tryif constr_eq x y then fail else (replace y with x by ring)
      end
  end.
Ltac pc_hyps :=
  repeat match goal with H : _ /\ _ |- _ => destruct H end;
  repeat match goal with
         | H : Rltb _ _ = true |- _ => apply Rltb_true in H
         | H : Rltb _ _ = false |- _ => apply Rltb_false in H
         | H : Rleb _ _ = true |- _ => apply Rleb_true in H
         | H : Rleb _ _ = false |- _ => apply Rleb_false in H
         | H : True |- _ => clear H end.
Ltac decide_ifs :=
  repeat match goal with
  | |- context [Rltb ?a ?b] =>
      first [ let E := fresh "E" in assert (E : Rltb a b = true) by (apply Rltb_true; lra); rewrite E; clear E
            | let E := fresh "E" in assert (E : Rltb a b = false) by (apply Rltb_false; lra); rewrite E; clear E ]
  | |- context [Rleb ?a ?b] =>
      first [ let E := fresh "E" in assert (E : Rleb a b = true) by (apply Rleb_true; lra); rewrite E; clear E
            | let E := fresh "E" in assert (E : Rleb a b = false) by (apply Rleb_false; lra); rewrite E; clear E ]
  end.
Ltac open_all := destruct_tuples; autounfold with c14gen smgen smlin in *; sm_simpl.
Ltac bridge :=
  open_all; repeat rewrite (Rabs_pos_eq (sqrt _)) by apply sqrt_pos;
  pc_hyps;
  repeat match goal with H : _ < _ |- _ => revert H | H : ~ _ < _ |- _ => revert H
                    | H : _ <= _ |- _ => revert H | H : ~ _ <= _ |- _ => revert H end;
  sqrt_unify; intros; decide_ifs; cbv beta iota;
  try match goal with |- Some _ = Some _ => apply (f_equal Some) end; tuple_eq ltac:(try reflexivity; unfold Rdiv; ring).

Theorem C14_bridge_unitvec : forall v,
  (pc_unitvec Rops v -> m_unitvec Rops v = Some (tr_unitvec Rops v)) /\
  (pc_unitvec_none Rops v -> m_unitvec Rops v = None) /\ (pc_unitvec Rops v \/ pc_unitvec_none Rops v).
Proof.
  intros v. split; [|split].
  - intros H. bridge.
  - intros H. bridge.
  - open_all. match goal with |- (?f ?a ?b = _ /\ _) \/ _ => destruct (f a b) end; auto.
Qed.
Print Assumptions C14_bridge_unitvec.

Theorem C14_bridge_unitvec_norm : forall v,
  (pc_unitvec_norm Rops v -> m_unitvec_norm Rops v = Some (tr_unitvec_norm Rops v)) /\
  (pc_unitvec_norm_none Rops v -> m_unitvec_norm Rops v = None) /\
  (pc_unitvec_norm Rops v \/ pc_unitvec_norm_none Rops v).
Proof.
  intros v. split; [|split].
  - intros H. bridge.
  - intros H. bridge.
  - open_all. match goal with |- (?f ?a ?b = _ /\ _) \/ _ => destruct (f a b) end; auto.
Qed.
Print Assumptions C14_bridge_unitvec_norm.

Theorem C14_bridge_qunit : forall q,
  (pc_qunit Rops q -> m_qunit Rops q = Some (tr_qunit Rops q)) /\
  (pc_qunit_none Rops q -> m_qunit Rops q = None) /\ (pc_qunit Rops q \/ pc_qunit_none Rops q).
Proof.
  intros q. split; [|split].
  - intros H. bridge.
  - intros H. bridge.
  - open_all. match goal with |- (?f ?a ?b = _ /\ _) \/ _ => destruct (f a b) end; auto.
Qed.
Print Assumptions C14_bridge_qunit.

(* the UnitQuaternion(s, v) constructor is quaternions.unit of (s, v) *)
Theorem C14_bridge_UnitQuaternion_sv : forall s v0 v1 v2,
  pc_UQ_sv Rops s (v0,v1,v2) -> m_qunit Rops (s,v0,v1,v2) = Some (tr_UQ_sv Rops s (v0,v1,v2)).
Proof. intros s v0 v1 v2 H. bridge. Qed.
Print Assumptions C14_bridge_UnitQuaternion_sv.

Theorem C14_bridge_unittwist : forall S,
  (pc_unittwist_rot Rops S -> m_unittwist Rops S = Some (tr_unittwist_rot Rops S)) /\
  (pc_unittwist_irr Rops S -> m_unittwist Rops S = Some (tr_unittwist_irr Rops S)) /\
  (pc_unittwist_none Rops S -> m_unittwist Rops S = None) /\
  (pc_unittwist_rot Rops S \/ pc_unittwist_irr Rops S \/ pc_unittwist_none Rops S).
Proof.
  intros S. split; [|split; [|split]].
  - intros H. bridge.
  - intros H. bridge.
  - intros H. bridge.
  - open_all.
    match goal with |- (?f ?a ?b = _ /\ ?g ?c ?d = _ /\ _) \/ _ => destruct (f a b); destruct (g c d) end; auto.
Qed.
Print Assumptions C14_bridge_unittwist.

Theorem C14_bridge_unittwist_norm : forall S,
  (pc_unittwist_norm_rot Rops S -> m_unittwist_norm Rops S = Some (tr_unittwist_norm_rot Rops S)) /\
  (pc_unittwist_norm_irr Rops S -> m_unittwist_norm Rops S = Some (tr_unittwist_norm_irr Rops S)) /\
  (pc_unittwist_norm_none Rops S -> m_unittwist_norm Rops S = None) /\
  (pc_unittwist_norm_rot Rops S \/ pc_unittwist_norm_irr Rops S \/ pc_unittwist_norm_none Rops S).
Proof.
  intros S. split; [|split; [|split]].
  - intros H. bridge.
  - intros H. bridge.
  - intros H. bridge.
  - open_all.
    match goal with |- (?f ?a ?b = _ /\ ?g ?c ?d = _ /\ _) \/ _ => destruct (f a b); destruct (g c d) end; auto.
Qed.
Print Assumptions C14_bridge_unittwist_norm.

Theorem C14_bridge_unittwist2 : forall S,
  (pc_unittwist2_rot Rops S -> m_unittwist2 Rops S = tr_unittwist2_rot Rops S) /\
  (pc_unittwist2_irr Rops S -> m_unittwist2 Rops S = tr_unittwist2_irr Rops S) /\
  (pc_unittwist2_norm_rot Rops S -> m_unittwist2_norm Rops S = tr_unittwist2_norm_rot Rops S) /\
  (pc_unittwist2_norm_irr Rops S -> m_unittwist2_norm Rops S = tr_unittwist2_norm_irr Rops S) /\
  (pc_unittwist2_rot Rops S \/ pc_unittwist2_irr Rops S) /\
  (pc_unittwist2_norm_rot Rops S \/ pc_unittwist2_norm_irr Rops S).
Proof.
  intros S. split; [|split; [|split; [|split; [|split]]]].
  - intros H. bridge.
  - intros H. bridge.
  - intros H. bridge.
  - intros H. bridge.
  - open_all. match goal with |- (?f ?a ?b = _ /\ _) \/ _ => destruct (f a b) end; auto.
  - open_all. match goal with |- (?f ?a ?b = _ /\ _) \/ _ => destruct (f a b) end; auto.
Qed.
Print Assumptions C14_bridge_unittwist2.

Theorem C14_bridge_trnorm : forall R, pc_trnorm33 Rops R -> m_trnorm33 Rops R = Some (tr_trnorm33 Rops R).
Proof. intros R H. bridge. Qed.
Print Assumptions C14_bridge_trnorm.

Theorem C14_bridge_trnorm44 : forall A, pc_trnorm44 Rops A -> m_trnorm44 Rops A = Some (tr_trnorm44 Rops A).
Proof. intros A H. bridge. Qed.
Print Assumptions C14_bridge_trnorm44.

(* the path condition of the traced value path is exactly the definedness condition of the model *)
Theorem C14_bridge_trnorm_pc : forall R R', m_trnorm33 Rops R = Some R' -> pc_trnorm33 Rops R.
Proof.
  intros R R' H. apply trnorm33_some in H. cbv zeta in H. destruct H as (H1 & H2 & H3 & _).
  revert H1 H2 H3. open_all. intros H1 H2 H3.
  repeat match goal with |- _ /\ _ => split end; try exact I;
  first [apply Rleb_true | apply Rltb_true | apply Rleb_false | apply Rltb_false];
  match goal with |- context [sqrt ?x] =>
    first [ replace x with (ltac:(match type of H1 with context [sqrt ?y] => exact y end)) by ring; lra
          | replace x with (ltac:(match type of H2 with context [sqrt ?y] => exact y end)) by ring; lra
          | replace x with (ltac:(match type of H3 with context [sqrt ?y] => exact y end)) by ring; lra ] end.
Qed.
Print Assumptions C14_bridge_trnorm_pc.

(* the class methods Twist3.unit / Twist2.unit, traced through the constructors, are unittwist / unittwist2 on every path *)
Theorem C14_bridge_twist_unit : forall S S2,
  (pc_T3_unit_rot Rops S -> m_twist3_unit Rops S = Some (tr_T3_unit_rot Rops S)) /\
  (pc_T3_unit_irr Rops S -> m_twist3_unit Rops S = Some (tr_T3_unit_irr Rops S)) /\
  (pc_T3_unit_rot Rops S \/ pc_T3_unit_irr Rops S \/ pc_unittwist_none Rops S) /\
  (pc_T2_unit_rot Rops S2 -> m_twist2_unit Rops S2 = tr_T2_unit_rot Rops S2) /\
  (pc_T2_unit_irr Rops S2 -> m_twist2_unit Rops S2 = tr_T2_unit_irr Rops S2) /\
  (pc_T2_unit_rot Rops S2 \/ pc_T2_unit_irr Rops S2).
Proof.
  intros S S2. split; [|split; [|split; [|split; [|split]]]].
  - intros H. bridge.
  - intros H. bridge.
  - open_all.
    match goal with |- (?f ?a ?b = _ /\ ?g ?c ?d = _ /\ _) \/ _ => destruct (f a b); destruct (g c d) end; auto.
  - intros H. bridge.
  - intros H. bridge.
  - open_all. match goal with |- (?f ?a ?b = _ /\ _) \/ _ => destruct (f a b) end; auto.
Qed.
Print Assumptions C14_bridge_twist_unit.

Theorem C14_bridge_trnorm2 : forall R A,
  (pc_trnorm22 Rops R -> m_trnorm22 Rops R = Some (tr_trnorm22 Rops R)) /\
  (pc_trnorm22_none Rops R -> m_trnorm22 Rops R = None) /\ (pc_trnorm22 Rops R \/ pc_trnorm22_none Rops R) /\
  (pc_trnorm23 Rops A -> m_trnorm23 Rops A = Some (tr_trnorm23 Rops A)).
Proof.
  intros R A. split; [|split; [|split]].
  - intros H. bridge.
  - intros H. bridge.
  - open_all. match goal with |- (?f ?a ?b = _ /\ _) \/ _ => destruct (f a b) end; auto.
  - intros H. bridge.
Qed.
Print Assumptions C14_bridge_trnorm2.

Theorem C14_bridge_angdiff : forall a b,
  m_angdiff1 Rops a = tr_angdiff1 Rops a /\ m_angdiff2 Rops a b = tr_angdiff2 Rops a b.
Proof.
  intros a b. pose proof PI_RGT_0 as HP. open_all. unfold Rfloor. split.
  - replace ((a + PI) / ((1 + 1) * PI)) with (1 / 2 * (1 / PI) * (PI + a)) by (field; lra). ring.
  - replace ((a - b + PI) / ((1 + 1) * PI)) with (1 / 2 * (1 / PI) * (PI + a + -1 * b)) by (field; lra). ring.
Qed.
Print Assumptions C14_bridge_angdiff.
