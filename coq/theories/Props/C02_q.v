(* C02 (part q) -- group laws of UnitQuaternion (class-level `*`, `/`, `.inv()`, `**`, default constructor).
   Every class-level result is re-normalised by the UnitQuaternion constructor (base.unit: q / |q|), so the traces
   contain 1/sqrt(...) factors; under the unit-norm hypotheses every such square root is sqrt 1.
   The laws hold exactly (not only up to sign) in exact arithmetic. *)
From Coq Require Import Reals ZArith Lra Lia Nsatz.
From SM Require Import Base.Ops Base.Lin Base.RInst Base.RLin Model.Quat Model.C02_Pow.
From SMgen Require Import Traces_C02.
Open Scope R_scope.

Definition unitq (q : V4 R) : Prop := qnormsq Rops q = 1.

Ltac gen_unfold := autounfold with smgen smlin in *; sm_simpl.
Ltac gen_ring := cbv zeta; intros; destruct_tuples; gen_unfold; tuple_eq ltac:(ring).

(* replace by 1 every argument of a square root or an inverse that is provably 1 (innermost first, by backtracking) *)
Ltac solve_one := first [ lra | nsatz ].
Ltac ones := repeat (rewrite ?sqrt_1, ?Rinv_1, ?Rmult_1_r, ?Rmult_1_l).
Ltac kill_norms :=
  unfold Rdiv in *;
  repeat (ones;
          match goal with
          | |- context [/ ?e] => lazymatch e with 1 => fail | _ => idtac end; replace e with 1 by solve_one
          | |- context [sqrt ?e] => lazymatch e with 1 => fail | _ => idtac end; replace e with 1 by solve_one
          end);
  ones.

Theorem C02_UQ_mul_unit : forall p q : V4 R, unitq p -> unitq q -> tr_UQ_mul Rops p q = qmul Rops p q.
Proof.
  unfold unitq. intros p q Hp Hq. destruct_tuples. gen_unfold. kill_norms. tuple_eq ltac:(ring).
Qed.
Print Assumptions C02_UQ_mul_unit.

Theorem C02_UQ_inv_unit : forall q : V4 R, unitq q -> tr_UQ_inv Rops q = qconj Rops q.
Proof.
  unfold unitq. intros q Hq. destruct_tuples. gen_unfold. kill_norms. tuple_eq ltac:(ring).
Qed.
Print Assumptions C02_UQ_inv_unit.

Theorem C02_UQ_div_unit : forall p q : V4 R, unitq p -> unitq q ->
  tr_UQ_div Rops p q = qmul Rops p (qconj Rops q).
Proof.
  unfold unitq. intros p q Hp Hq. destruct_tuples. gen_unfold. kill_norms. tuple_eq ltac:(ring).
Qed.
Print Assumptions C02_UQ_div_unit.

(* the default-constructed UnitQuaternion is a two-sided identity *)
Theorem C02_UQ_identity : forall q : V4 R, unitq q -> tr_UQ_id_r Rops q = q /\ tr_UQ_id_l Rops q = q.
Proof.
  unfold unitq. intros q Hq. destruct_tuples. gen_unfold. split; kill_norms; tuple_eq ltac:(ring).
Qed.
Print Assumptions C02_UQ_identity.

(* closure, so that the single-operator theorems can be iterated *)
Lemma unitq_mul : forall p q, unitq p -> unitq q -> unitq (qmul Rops p q).
Proof. unfold unitq. intros p q Hp Hq. rewrite qmul_norm, Hp, Hq. lra. Qed.
Lemma unitq_conj : forall q, unitq q -> unitq (qconj Rops q).
Proof. unfold unitq. intros q H. destruct_tuples. lin_simpl. lra. Qed.
Lemma unitq_one : unitq (qone Rops).
Proof. unfold unitq. lin_simpl. lra. Qed.
Lemma qmul_conj_r : forall q, unitq q -> qmul Rops q (qconj Rops q) = qone Rops.
Proof. unfold unitq. intros q H. destruct_tuples. lin_simpl. tuple_eq ltac:(nsatz). Qed.
Lemma qmul_conj_l : forall q, unitq q -> qmul Rops (qconj Rops q) q = qone Rops.
Proof. unfold unitq. intros q H. destruct_tuples. lin_simpl. tuple_eq ltac:(nsatz). Qed.
Lemma qmul_assoc_R : forall p q r : V4 R, qmul Rops (qmul Rops p q) r = qmul Rops p (qmul Rops q r).
Proof. lin_ring. Qed.
Lemma qconj_mul : forall p q : V4 R, qconj Rops (qmul Rops p q) = qmul Rops (qconj Rops q) (qconj Rops p).
Proof. lin_ring. Qed.
Lemma qmul_one_l : forall q : V4 R, qmul Rops (qone Rops) q = q.
Proof. lin_ring. Qed.
Lemma qmul_one_r : forall q : V4 R, qmul Rops q (qone Rops) = q.
Proof. lin_ring. Qed.

Theorem C02_UQ_closed : forall p q : V4 R, unitq p -> unitq q ->
  unitq (tr_UQ_mul Rops p q) /\ unitq (tr_UQ_inv Rops q) /\ unitq (tr_UQ_div Rops p q).
Proof.
  intros p q Hp Hq. rewrite C02_UQ_mul_unit, C02_UQ_inv_unit, C02_UQ_div_unit by assumption.
  repeat split; auto using unitq_mul, unitq_conj.
Qed.
Print Assumptions C02_UQ_closed.

Theorem C02_UQ_assoc : forall p q r : V4 R, unitq p -> unitq q -> unitq r ->
  tr_UQ_mul Rops (tr_UQ_mul Rops p q) r = tr_UQ_mul Rops p (tr_UQ_mul Rops q r).
Proof.
  intros p q r Hp Hq Hr.
  rewrite (C02_UQ_mul_unit p q), (C02_UQ_mul_unit q r) by assumption.
  rewrite !C02_UQ_mul_unit by auto using unitq_mul. apply qmul_assoc_R.
Qed.
Print Assumptions C02_UQ_assoc.

Theorem C02_UQ_inverse : forall q : V4 R, unitq q ->
  tr_UQ_mul Rops q (tr_UQ_inv Rops q) = qone Rops /\ tr_UQ_mul Rops (tr_UQ_inv Rops q) q = qone Rops.
Proof.
  intros q H. rewrite C02_UQ_inv_unit by assumption. rewrite !C02_UQ_mul_unit by auto using unitq_conj.
  split; [apply qmul_conj_r | apply qmul_conj_l]; assumption.
Qed.
Print Assumptions C02_UQ_inverse.

Theorem C02_UQ_inv_antihom : forall p q : V4 R, unitq p -> unitq q ->
  tr_UQ_inv Rops (tr_UQ_mul Rops p q) = tr_UQ_mul Rops (tr_UQ_inv Rops q) (tr_UQ_inv Rops p).
Proof.
  intros p q Hp Hq. rewrite (C02_UQ_mul_unit p q), (C02_UQ_inv_unit p), (C02_UQ_inv_unit q) by assumption.
  rewrite C02_UQ_inv_unit by auto using unitq_mul. rewrite C02_UQ_mul_unit by auto using unitq_conj.
  apply qconj_mul.
Qed.
Print Assumptions C02_UQ_inv_antihom.

Theorem C02_UQ_div : forall p q : V4 R, unitq p -> unitq q ->
  tr_UQ_div Rops p q = tr_UQ_mul Rops p (tr_UQ_inv Rops q).
Proof.
  intros p q Hp Hq. rewrite C02_UQ_div_unit, C02_UQ_inv_unit by assumption.
  rewrite C02_UQ_mul_unit by auto using unitq_conj. reflexivity.
Qed.
Print Assumptions C02_UQ_div.

(* ---- integer powers: the traced class operator for |n| <= 3 is the loop model of base.qpow ... *)
Theorem C02_UQ_pow_traces : forall q : V4 R, unitq q ->
  tr_UQ_pow_p0 Rops q = qpow_model Rops q 0 /\ tr_UQ_pow_p1 Rops q = qpow_model Rops q 1 /\
  tr_UQ_pow_p2 Rops q = qpow_model Rops q 2 /\ tr_UQ_pow_p3 Rops q = qpow_model Rops q 3 /\
  tr_UQ_pow_m1 Rops q = qpow_model Rops q (-1) /\ tr_UQ_pow_m2 Rops q = qpow_model Rops q (-2) /\
  tr_UQ_pow_m3 Rops q = qpow_model Rops q (-3).
Proof.
  unfold unitq. intros q Hq. destruct_tuples.
  cbv beta iota delta [qpow_model Z.ltb Z.compare Z.abs_nat Pos.to_nat Pos.iter_op Nat.add qpow_nat].
  gen_unfold. repeat split; kill_norms; tuple_eq ltac:(ring).
Qed.
Print Assumptions C02_UQ_pow_traces.

(* ... and the loop model obeys the power laws for EVERY integer exponent *)
Lemma unitq_pow_nat : forall q n, unitq q -> unitq (qpow_nat Rops q n).
Proof. intros q n H. induction n; cbn [qpow_nat]; auto using unitq_one, unitq_mul. Qed.

Theorem C02_UQ_pow_laws : forall (q : V4 R) (n : Z), unitq q -> (0 <= n)%Z ->
  qpow_model Rops q 0 = qone Rops /\
  qpow_model Rops q (n + 1) = qmul Rops (qpow_model Rops q n) q /\
  unitq (qpow_model Rops q n) /\ unitq (qpow_model Rops q (- n)) /\
  qmul Rops (qpow_model Rops q n) (qpow_model Rops q (- n)) = qone Rops /\
  qmul Rops (qpow_model Rops q (- n)) (qpow_model Rops q n) = qone Rops.
Proof.
  intros q n H Hn.
  assert (Hpos : qpow_model Rops q n = qpow_nat Rops q (Z.abs_nat n)).
  { unfold qpow_model. replace (n <? 0)%Z with false by (symmetry; apply Z.ltb_ge; lia). reflexivity. }
  assert (Hneg : qpow_model Rops q (- n) = qconj Rops (qpow_nat Rops q (Z.abs_nat n)) \/
                 (n = 0%Z /\ qpow_model Rops q (- n) = qone Rops)).
  { destruct (Z.eq_dec n 0) as [->|Hz]; [right; split; reflexivity|left].
    unfold qpow_model. replace (- n <? 0)%Z with true by (symmetry; apply Z.ltb_lt; lia).
    replace (Z.abs_nat (- n)) with (Z.abs_nat n) by lia. reflexivity. }
  pose proof (unitq_pow_nat q (Z.abs_nat n) H) as Hu.
  split; [reflexivity|]. split.
  { unfold qpow_model.
    replace (n + 1 <? 0)%Z with false by (symmetry; apply Z.ltb_ge; lia).
    replace (n <? 0)%Z with false by (symmetry; apply Z.ltb_ge; lia).
    replace (Z.abs_nat (n + 1)) with (S (Z.abs_nat n)) by lia. reflexivity. }
  rewrite Hpos. destruct Hneg as [-> | [-> ->]].
  - repeat split; auto using unitq_conj, qmul_conj_r, qmul_conj_l.
  - cbn [Z.abs_nat qpow_nat]. repeat split; auto using unitq_one, qmul_one_l.
Qed.
Print Assumptions C02_UQ_pow_laws.

(* the hand model of UnitQuaternion.__pow__ used for the numeric correspondence at |n| <= 8
   (normalise, loop, normalise: Model/C02_Pow.v) is the loop model on unit quaternions, for EVERY integer n *)
Lemma qunit_unit : forall q, unitq q -> qunit Rops q = q.
Proof.
  unfold unitq. intros q H. destruct_tuples. autounfold with smlin c02 in *. sm_simpl.
  match goal with |- context [sqrt ?e] => replace e with 1 by lra end. rewrite sqrt_1.
  tuple_eq ltac:(field).
Qed.
Lemma unitq_qpow_model : forall q n, unitq q -> unitq (qpow_model Rops q n).
Proof.
  intros q n H. unfold qpow_model. destruct (n <? 0)%Z; auto using unitq_conj, unitq_pow_nat.
Qed.
Theorem C02_UQ_pow_model : forall (q : V4 R) (n : Z), unitq q -> UQ_pow Rops q n = qpow_model Rops q n.
Proof.
  intros q n H. unfold UQ_pow. rewrite (qunit_unit q H). apply qunit_unit. apply unitq_qpow_model. exact H.
Qed.
Print Assumptions C02_UQ_pow_model.

Theorem C02_UQ_pw_is_model : forall q : V4 R,
  pw_UQ_m8 Rops q = UQ_pow Rops q (-8) /\
  pw_UQ_m7 Rops q = UQ_pow Rops q (-7) /\
  pw_UQ_m6 Rops q = UQ_pow Rops q (-6) /\
  pw_UQ_m5 Rops q = UQ_pow Rops q (-5) /\
  pw_UQ_m4 Rops q = UQ_pow Rops q (-4) /\
  pw_UQ_m3 Rops q = UQ_pow Rops q (-3) /\
  pw_UQ_m2 Rops q = UQ_pow Rops q (-2) /\
  pw_UQ_m1 Rops q = UQ_pow Rops q (-1) /\
  pw_UQ_p0 Rops q = UQ_pow Rops q (0) /\
  pw_UQ_p1 Rops q = UQ_pow Rops q (1) /\
  pw_UQ_p2 Rops q = UQ_pow Rops q (2) /\
  pw_UQ_p3 Rops q = UQ_pow Rops q (3) /\
  pw_UQ_p4 Rops q = UQ_pow Rops q (4) /\
  pw_UQ_p5 Rops q = UQ_pow Rops q (5) /\
  pw_UQ_p6 Rops q = UQ_pow Rops q (6) /\
  pw_UQ_p7 Rops q = UQ_pow Rops q (7) /\
  pw_UQ_p8 Rops q = UQ_pow Rops q (8).
Proof. intros; repeat split; reflexivity. Qed.
Print Assumptions C02_UQ_pw_is_model.

Example C02_q_nonvacuous : unitq (1/3, 2/3, 2/3, 0) /\ qmul Rops (1/3, 2/3, 2/3, 0) (1/3, 2/3, 2/3, 0) <> qone Rops.
Proof.
  unfold unitq. lin_simpl. split; [lra|]. intro H. injection H. intros. lra.
Qed.
