(* C20 -- spatial 6-vectors and spatial inertia (values): + - neg and the cross products.
   Statements are fixed; the tr_* definitions are regenerated from /repo on every run (the library's
   spatialvector.py / SE3.Ad executed on symbols); [spatial_inertia] is the hand model of the constructor
   (Model/C20_Inertia.v) tied to /repo by the numeric correspondence run.
   Layout found in the code: LINEAR part first, (v ; w), (f ; n). *)
From Coq Require Import Reals ZArith Lra Lia Nsatz Psatz Classical.
From SM Require Import Base.Ops Base.Lin Base.RInst Base.RLin Model.C20_Inertia.
From SMgen Require Import Traces_C20.
Open Scope R_scope.

Ltac gen_ring := intros; destruct_tuples; autounfold with smgen smlin; sm_simpl; tuple_eq ltac:(ring).

(* ---------------------------------------------------------------- + - neg are element-wise, per class *)
Theorem C20_add_elementwise : forall a b : V6 R,
  tr_add_Vel Rops a b = vadd6 Rops a b /\ tr_add_Acc Rops a b = vadd6 Rops a b /\
  tr_add_Frc Rops a b = vadd6 Rops a b /\ tr_add_Mom Rops a b = vadd6 Rops a b.
Proof. intros; repeat split; gen_ring. Qed.
Print Assumptions C20_add_elementwise.

Theorem C20_sub_elementwise : forall a b : V6 R,
  tr_sub_Vel Rops a b = vsub6 Rops a b /\ tr_sub_Acc Rops a b = vsub6 Rops a b /\
  tr_sub_Frc Rops a b = vsub6 Rops a b /\ tr_sub_Mom Rops a b = vsub6 Rops a b.
Proof. intros; repeat split; gen_ring. Qed.
Print Assumptions C20_sub_elementwise.

Theorem C20_neg_elementwise : forall a : V6 R,
  tr_neg_Vel Rops a = vneg6 Rops a /\ tr_neg_Acc Rops a = vneg6 Rops a /\
  tr_neg_Frc Rops a = vneg6 Rops a /\ tr_neg_Mom Rops a = vneg6 Rops a.
Proof. intros; repeat split; gen_ring. Qed.
Print Assumptions C20_neg_elementwise.

(* the in-place forms x += y and x -= y are the element-wise sum / difference too (since /repo 5371e50) *)
Theorem C20_inplace_elementwise : forall a b : V6 R,
  tr_iadd_Vel Rops a b = vadd6 Rops a b /\ tr_iadd_Acc Rops a b = vadd6 Rops a b /\
  tr_iadd_Frc Rops a b = vadd6 Rops a b /\ tr_iadd_Mom Rops a b = vadd6 Rops a b /\
  tr_isub_Vel Rops a b = vsub6 Rops a b /\ tr_isub_Acc Rops a b = vsub6 Rops a b /\
  tr_isub_Frc Rops a b = vsub6 Rops a b /\ tr_isub_Mom Rops a b = vsub6 Rops a b.
Proof. intros; repeat split; gen_ring. Qed.
Print Assumptions C20_inplace_elementwise.

(* ---------------------------------------------------------------- cross products *)
(* v x m  =  [skew(w) skew(v); 0 skew(w)] m      (crm_ref is exactly that block matrix, see the Example) *)
Theorem C20_crm_is_matrix : forall v m : V6 R, tr_crm Rops v m = mv66 Rops (crm_ref Rops v) m.
Proof. gen_ring. Qed.
Print Assumptions C20_crm_is_matrix.

Example C20_crm_ref_blocks : forall v0 v1 v2 w0 w1 w2 : R,
  crm_ref Rops (v0,v1,v2,w0,w1,w2) =
  ((0, -w2, w1,   0, -v2, v1), (w2, 0, -w0,   v2, 0, -v0), (-w1, w0, 0,   -v1, v0, 0),
   (0, 0, 0,      0, -w2, w1), (0, 0, 0,      w2, 0, -w0), (0, 0, 0,      -w1, w0, 0)).
Proof. intros. autounfold with smlin. sm_simpl. reflexivity. Qed.

(* the same thing with 3-vector cross products: (w x m_lin + v x m_ang ; w x m_ang) *)
Theorem C20_crm_featherstone : forall v m : V6 R,
  tr_crm Rops v m = v6 (vadd3 Rops (cross3 Rops (ang6 v) (lin6 m)) (cross3 Rops (lin6 v) (ang6 m)))
                       (cross3 Rops (ang6 v) (ang6 m)).
Proof. gen_ring. Qed.
Print Assumptions C20_crm_featherstone.

(* the `@` operator, an acceleration as LEFT operand and an acceleration as RIGHT operand (accepted since /repo 66a8f3b)
   run the same kernel *)
Theorem C20_crm_variants : forall v m : V6 R,
  tr_crm_op Rops v m = tr_crm Rops v m /\ tr_crm_acc Rops v m = tr_crm Rops v m /\
  tr_crm_accop Rops v m = tr_crm Rops v m /\ tr_crm_op_accop Rops v m = tr_crm Rops v m.
Proof. intros; repeat split; gen_ring. Qed.
Print Assumptions C20_crm_variants.

(* v x* f  =  -[skew(w) skew(v); 0 skew(w)]^T f, for both force classes *)
Theorem C20_crf_is_neg_transpose : forall v f : V6 R,
  tr_crf_Frc Rops v f = mv66 Rops (crf_ref Rops v) f /\ tr_crf_Mom Rops v f = mv66 Rops (crf_ref Rops v) f.
Proof. intros; split; gen_ring. Qed.
Print Assumptions C20_crf_is_neg_transpose.

Theorem C20_crf_featherstone : forall v f : V6 R,
  tr_crf_Frc Rops v f = v6 (cross3 Rops (ang6 v) (lin6 f))
                           (vadd3 Rops (cross3 Rops (lin6 v) (lin6 f)) (cross3 Rops (ang6 v) (ang6 f))).
Proof. gen_ring. Qed.
Print Assumptions C20_crf_featherstone.

(* duality: (v x* f) . m = - f . (v x m) *)
Theorem C20_cross_duality : forall v f m : V6 R,
  dot6 Rops (tr_crf_Frc Rops v f) m = - dot6 Rops f (tr_crm Rops v m).
Proof. intros; destruct_tuples; autounfold with smgen smlin; sm_simpl; ring. Qed.
Print Assumptions C20_cross_duality.

Theorem C20_fdot_is_dot : forall f m : V6 R, tr_fdot Rops f m = dot6 Rops f m.
Proof. intros; destruct_tuples; autounfold with smgen smlin; sm_simpl; ring. Qed.
Print Assumptions C20_fdot_is_dot.

(* Lie-algebra structure: v x v = 0 and the Jacobi identity crm(v x u) = crm(v) crm(u) - crm(u) crm(v) *)
Theorem C20_crm_self_zero : forall v : V6 R, tr_crm Rops v v = (0,0,0,0,0,0).
Proof. gen_ring. Qed.
Print Assumptions C20_crm_self_zero.

Theorem C20_crm_jacobi : forall v u m : V6 R,
  tr_crm Rops (tr_crm Rops v u) m = vsub6 Rops (tr_crm Rops v (tr_crm Rops u m)) (tr_crm Rops u (tr_crm Rops v m)).
Proof. gen_ring. Qed.
Print Assumptions C20_crm_jacobi.

