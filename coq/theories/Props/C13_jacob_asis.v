(* C13 -- SE3.jacob, AS THE CODE IS when the call raises (props/C13.py proves this file when the regenerated
   tr_SE3_jacob is `PyRaises _`, and C13_jacob_full.v when it is `PyOk trace`). *)
From Coq Require Import Reals ZArith Lra.
From SM Require Import Base.Ops Base.Lin Base.RInst Base.RLin.
From SMgen Require Import Traces_C13.
Open Scope R_scope.
Definition T_ex : M44 R := ((0,-1,0,1),(1,0,0,2),(0,0,1,3),(0,0,0,1)).
Lemma T_ex_SE3 : SE3 T_ex.  Proof. unfold T_ex, SE3, SO3; lin_simpl; repeat split; ring. Qed.

(* ---- SE3.jacob.
   FULL STATEMENT:  forall X, SE3 X -> tr_SE3_jacob Rops X = PyOk (tr_tr2jac Rops X)   (= blockdiag(R', R')).
   The method calls tr2jac without the base. prefix. *)
Theorem C13_SE3_jacob_refuted : exists X : M44 R, SE3 X /\ tr_SE3_jacob Rops X <> PyOk (tr_tr2jac Rops X).
Proof. exists T_ex. split; [exact T_ex_SE3|]. unfold tr_SE3_jacob. discriminate. Qed.
Print Assumptions C13_SE3_jacob_refuted.

Theorem C13_SE3_jacob_partial : forall X : M44 R, tr_SE3_jacob Rops X = PyRaises NameError.
Proof. reflexivity. Qed.
Print Assumptions C13_SE3_jacob_partial.

