(* C02 (part p) -- integer powers of the pose classes (SMPose.__pow__ as of /repo fbf47d0):
     X ** n  =  np.linalg.matrix_power(X.A, n)  for n >= 0,     X ** n  =  X.inv() ** (-n)  for n < 0,
   where X.inv() is the closed-form inverse of the class (transpose; [R', -R' t]).
   Model (Model/C02_Pow.v): mpow = iterated product, of the structured inverse when n < 0.
   0. the extracted T-num functions are the model (by computation);
   1. the traces of the real `X ** n`, n = -4..4 (class operator executed on symbols) are the model -- ALL matrices, ring;
   2. laws that need no group membership (ANY matrix; the induction lemmas of Model/C02_Pow.v are axiom-free):
      X**0 = I, X**1 = X, X**(n+1) = X**n * X and X**(m+n) = X**m * X**n for m, n >= 0, X**-n = X.inv()**n,
      and for SO(n) the defect form  X**-n = (X**n)'  so that  X**n * X**-n = P P'  with P = X**n;
   3. FULL power laws for every m, n in Z on the group (SO(2), SO(3), SE(2), SE(3) membership): the bundle `power_laws`;
      powers stay in the group and X**-n = (X**n).inv();
   4. without membership the mixed-sign law is false (_refuted witness).
   The model is also run against the implementation for every |n| <= 8 (T-num) on each run. *)
From Coq Require Import Reals ZArith Lra Lia Nsatz.
From SM Require Import Base.Ops Base.Lin Base.RInst Base.RLin Model.C02_Pow.
From SMgen Require Import Traces_C02.
Open Scope R_scope.

Ltac gen_unfold := autounfold with smgen smlin c02 in *; sm_simpl.
Ltac pow_unfold := cbv beta iota delta [SO2_pow SO3_pow SE2_pow SE3_pow mpow pow_nat Z.ltb Z.compare Z.abs_nat
                                         Pos.to_nat Pos.iter_op Nat.add].
Ltac pow_ring := intros; destruct_tuples; pow_unfold; gen_unfold; repeat split; tuple_eq ltac:(ring).

(* ------------------------------------------------------------------ the bundles of laws, for any monoid *)
Section Laws.
Variables (M : Type) (mul : M -> M -> M) (e : M) (inv : M -> M).
Hypothesis assoc : forall a b c, mul (mul a b) c = mul a (mul b c).
Hypothesis id_l : forall a, mul e a = a.
Hypothesis id_r : forall a, mul a e = a.
(* what holds for ANY element (no inverse property used) *)
Definition power_laws_nonneg (A : M) : Prop := forall m n : Z,
  mpow mul e inv A 0 = e /\ mpow mul e inv A 1 = A /\ mpow mul e inv A (-1) = inv A /\
  ((0 <= n)%Z -> mpow mul e inv A (n + 1) = mul (mpow mul e inv A n) A) /\
  ((0 <= m)%Z -> (0 <= n)%Z -> mpow mul e inv A (m + n) = mul (mpow mul e inv A m) (mpow mul e inv A n)) /\
  ((0 < n)%Z -> mpow mul e inv A (- n) = mpow mul e inv (inv A) n).
Lemma power_laws_nonneg_hold A : power_laws_nonneg A.
Proof.
  intros m n. repeat split.
  - apply mpow_1; assumption.
  - apply mpow_m1; assumption.
  - apply mpow_succ.
  - apply mpow_add_nonneg; assumption.
  - apply mpow_neg_is_pow_inv.
Qed.
(* the full laws, every m n : Z, given that inv A is a two-sided inverse of A *)
Definition power_laws (A : M) : Prop := forall m n : Z,
  mul (mpow mul e inv A n) (mpow mul e inv A (- n)) = e /\
  mul (mpow mul e inv A (- n)) (mpow mul e inv A n) = e /\
  mpow mul e inv A (m + n) = mul (mpow mul e inv A m) (mpow mul e inv A n).
Lemma power_laws_hold A : mul A (inv A) = e -> mul (inv A) A = e -> power_laws A.
Proof.
  intros H1 H2 m n.
  pose proof (mpow_add M mul e assoc id_l id_r inv A) as Hadd.
  repeat split.
  - rewrite <- Hadd by assumption. replace (n + - n)%Z with 0%Z by lia. reflexivity.
  - rewrite <- Hadd by assumption. replace (- n + n)%Z with 0%Z by lia. reflexivity.
  - apply Hadd; assumption.
Qed.
End Laws.

Lemma mmul22_I_l (A : M22 R) : mmul22 Rops (I22 Rops) A = A. Proof. lin_ring. Qed.
Lemma mmul22_I_r (A : M22 R) : mmul22 Rops A (I22 Rops) = A. Proof. lin_ring. Qed.
Lemma mtr22_mul (A B : M22 R) : mtr22 (mmul22 Rops A B) = mmul22 Rops (mtr22 B) (mtr22 A). Proof. lin_ring. Qed.
Lemma SO2_inv_r (A : M22 R) : SO2 A -> mmul22 Rops A (mtr22 A) = I22 Rops.
Proof. intros H. apply SO2_matrix in H. tauto. Qed.
Lemma SO2_inv_l (A : M22 R) : SO2 A -> mmul22 Rops (mtr22 A) A = I22 Rops.
Proof.
  intros H. destruct_tuples. pose proof (SO2_columns _ _ _ _ H) as (?&?&?). unfold SO2 in H. destruct H as (?&?&?&?).
  lin_simpl. tuple_eq ltac:(nsatz).
Qed.

(* ================================================================== 0. the extracted T-num functions are the model *)
Theorem C02_SO2_pw_is_model : forall X : M22 R,
  pw_SO2_m8 Rops X = SO2_pow Rops X (-8) /\
  pw_SO2_m7 Rops X = SO2_pow Rops X (-7) /\
  pw_SO2_m6 Rops X = SO2_pow Rops X (-6) /\
  pw_SO2_m5 Rops X = SO2_pow Rops X (-5) /\
  pw_SO2_m4 Rops X = SO2_pow Rops X (-4) /\
  pw_SO2_m3 Rops X = SO2_pow Rops X (-3) /\
  pw_SO2_m2 Rops X = SO2_pow Rops X (-2) /\
  pw_SO2_m1 Rops X = SO2_pow Rops X (-1) /\
  pw_SO2_p0 Rops X = SO2_pow Rops X (0) /\
  pw_SO2_p1 Rops X = SO2_pow Rops X (1) /\
  pw_SO2_p2 Rops X = SO2_pow Rops X (2) /\
  pw_SO2_p3 Rops X = SO2_pow Rops X (3) /\
  pw_SO2_p4 Rops X = SO2_pow Rops X (4) /\
  pw_SO2_p5 Rops X = SO2_pow Rops X (5) /\
  pw_SO2_p6 Rops X = SO2_pow Rops X (6) /\
  pw_SO2_p7 Rops X = SO2_pow Rops X (7) /\
  pw_SO2_p8 Rops X = SO2_pow Rops X (8).
Proof. intros; repeat split; reflexivity. Qed.
Print Assumptions C02_SO2_pw_is_model.

Theorem C02_SE2_pw_is_model : forall X : M33 R,
  pw_SE2_m8 Rops X = SE2_pow Rops X (-8) /\
  pw_SE2_m7 Rops X = SE2_pow Rops X (-7) /\
  pw_SE2_m6 Rops X = SE2_pow Rops X (-6) /\
  pw_SE2_m5 Rops X = SE2_pow Rops X (-5) /\
  pw_SE2_m4 Rops X = SE2_pow Rops X (-4) /\
  pw_SE2_m3 Rops X = SE2_pow Rops X (-3) /\
  pw_SE2_m2 Rops X = SE2_pow Rops X (-2) /\
  pw_SE2_m1 Rops X = SE2_pow Rops X (-1) /\
  pw_SE2_p0 Rops X = SE2_pow Rops X (0) /\
  pw_SE2_p1 Rops X = SE2_pow Rops X (1) /\
  pw_SE2_p2 Rops X = SE2_pow Rops X (2) /\
  pw_SE2_p3 Rops X = SE2_pow Rops X (3) /\
  pw_SE2_p4 Rops X = SE2_pow Rops X (4) /\
  pw_SE2_p5 Rops X = SE2_pow Rops X (5) /\
  pw_SE2_p6 Rops X = SE2_pow Rops X (6) /\
  pw_SE2_p7 Rops X = SE2_pow Rops X (7) /\
  pw_SE2_p8 Rops X = SE2_pow Rops X (8).
Proof. intros; repeat split; reflexivity. Qed.
Print Assumptions C02_SE2_pw_is_model.

Theorem C02_SO3_pw_is_model : forall X : M33 R,
  pw_SO3_m8 Rops X = SO3_pow Rops X (-8) /\
  pw_SO3_m7 Rops X = SO3_pow Rops X (-7) /\
  pw_SO3_m6 Rops X = SO3_pow Rops X (-6) /\
  pw_SO3_m5 Rops X = SO3_pow Rops X (-5) /\
  pw_SO3_m4 Rops X = SO3_pow Rops X (-4) /\
  pw_SO3_m3 Rops X = SO3_pow Rops X (-3) /\
  pw_SO3_m2 Rops X = SO3_pow Rops X (-2) /\
  pw_SO3_m1 Rops X = SO3_pow Rops X (-1) /\
  pw_SO3_p0 Rops X = SO3_pow Rops X (0) /\
  pw_SO3_p1 Rops X = SO3_pow Rops X (1) /\
  pw_SO3_p2 Rops X = SO3_pow Rops X (2) /\
  pw_SO3_p3 Rops X = SO3_pow Rops X (3) /\
  pw_SO3_p4 Rops X = SO3_pow Rops X (4) /\
  pw_SO3_p5 Rops X = SO3_pow Rops X (5) /\
  pw_SO3_p6 Rops X = SO3_pow Rops X (6) /\
  pw_SO3_p7 Rops X = SO3_pow Rops X (7) /\
  pw_SO3_p8 Rops X = SO3_pow Rops X (8).
Proof. intros; repeat split; reflexivity. Qed.
Print Assumptions C02_SO3_pw_is_model.

Theorem C02_SE3_pw_is_model : forall X : M44 R,
  pw_SE3_m8 Rops X = SE3_pow Rops X (-8) /\
  pw_SE3_m7 Rops X = SE3_pow Rops X (-7) /\
  pw_SE3_m6 Rops X = SE3_pow Rops X (-6) /\
  pw_SE3_m5 Rops X = SE3_pow Rops X (-5) /\
  pw_SE3_m4 Rops X = SE3_pow Rops X (-4) /\
  pw_SE3_m3 Rops X = SE3_pow Rops X (-3) /\
  pw_SE3_m2 Rops X = SE3_pow Rops X (-2) /\
  pw_SE3_m1 Rops X = SE3_pow Rops X (-1) /\
  pw_SE3_p0 Rops X = SE3_pow Rops X (0) /\
  pw_SE3_p1 Rops X = SE3_pow Rops X (1) /\
  pw_SE3_p2 Rops X = SE3_pow Rops X (2) /\
  pw_SE3_p3 Rops X = SE3_pow Rops X (3) /\
  pw_SE3_p4 Rops X = SE3_pow Rops X (4) /\
  pw_SE3_p5 Rops X = SE3_pow Rops X (5) /\
  pw_SE3_p6 Rops X = SE3_pow Rops X (6) /\
  pw_SE3_p7 Rops X = SE3_pow Rops X (7) /\
  pw_SE3_p8 Rops X = SE3_pow Rops X (8).
Proof. intros; repeat split; reflexivity. Qed.
Print Assumptions C02_SE3_pw_is_model.

(* ================================================================== 1. traces = model, ALL matrices *)
Theorem C02_SO2_pow_traces : forall X : M22 R,
  tr_SO2_pow_p0 Rops X = SO2_pow Rops X (0) /\
  tr_SO2_pow_p1 Rops X = SO2_pow Rops X (1) /\
  tr_SO2_pow_p2 Rops X = SO2_pow Rops X (2) /\
  tr_SO2_pow_p3 Rops X = SO2_pow Rops X (3) /\
  tr_SO2_pow_p4 Rops X = SO2_pow Rops X (4).
Proof. pow_ring. Qed.
Print Assumptions C02_SO2_pow_traces.

(* negative exponents: the traced X.inv() ** (-n); no determinant, no hypothesis *)
Theorem C02_SO2_pow_traces_neg : forall X : M22 R,
  tr_SO2_pow_m4 Rops X = SO2_pow Rops X (-4) /\
  tr_SO2_pow_m3 Rops X = SO2_pow Rops X (-3) /\
  tr_SO2_pow_m2 Rops X = SO2_pow Rops X (-2) /\
  tr_SO2_pow_m1 Rops X = SO2_pow Rops X (-1).
Proof. pow_ring. Qed.
Print Assumptions C02_SO2_pow_traces_neg.

Theorem C02_SE2_pow_traces : forall X : M33 R,
  tr_SE2_pow_p0 Rops X = SE2_pow Rops X (0) /\
  tr_SE2_pow_p1 Rops X = SE2_pow Rops X (1) /\
  tr_SE2_pow_p2 Rops X = SE2_pow Rops X (2) /\
  tr_SE2_pow_p3 Rops X = SE2_pow Rops X (3) /\
  tr_SE2_pow_p4 Rops X = SE2_pow Rops X (4).
Proof. pow_ring. Qed.
Print Assumptions C02_SE2_pow_traces.

(* negative exponents: the traced X.inv() ** (-n); no determinant, no hypothesis *)
Theorem C02_SE2_pow_traces_neg : forall X : M33 R,
  tr_SE2_pow_m4 Rops X = SE2_pow Rops X (-4) /\
  tr_SE2_pow_m3 Rops X = SE2_pow Rops X (-3) /\
  tr_SE2_pow_m2 Rops X = SE2_pow Rops X (-2) /\
  tr_SE2_pow_m1 Rops X = SE2_pow Rops X (-1).
Proof. pow_ring. Qed.
Print Assumptions C02_SE2_pow_traces_neg.

Theorem C02_SO3_pow_traces : forall X : M33 R,
  tr_SO3_pow_p0 Rops X = SO3_pow Rops X (0) /\
  tr_SO3_pow_p1 Rops X = SO3_pow Rops X (1) /\
  tr_SO3_pow_p2 Rops X = SO3_pow Rops X (2) /\
  tr_SO3_pow_p3 Rops X = SO3_pow Rops X (3) /\
  tr_SO3_pow_p4 Rops X = SO3_pow Rops X (4).
Proof. pow_ring. Qed.
Print Assumptions C02_SO3_pow_traces.

(* negative exponents: the traced X.inv() ** (-n); no determinant, no hypothesis *)
Theorem C02_SO3_pow_traces_neg : forall X : M33 R,
  tr_SO3_pow_m4 Rops X = SO3_pow Rops X (-4) /\
  tr_SO3_pow_m3 Rops X = SO3_pow Rops X (-3) /\
  tr_SO3_pow_m2 Rops X = SO3_pow Rops X (-2) /\
  tr_SO3_pow_m1 Rops X = SO3_pow Rops X (-1).
Proof. pow_ring. Qed.
Print Assumptions C02_SO3_pow_traces_neg.

Theorem C02_SE3_pow_traces : forall X : M44 R,
  tr_SE3_pow_p0 Rops X = SE3_pow Rops X (0) /\
  tr_SE3_pow_p1 Rops X = SE3_pow Rops X (1) /\
  tr_SE3_pow_p2 Rops X = SE3_pow Rops X (2) /\
  tr_SE3_pow_p3 Rops X = SE3_pow Rops X (3) /\
  tr_SE3_pow_p4 Rops X = SE3_pow Rops X (4).
Proof. pow_ring. Qed.
Print Assumptions C02_SE3_pow_traces.

(* negative exponents: the traced X.inv() ** (-n); no determinant, no hypothesis *)
Theorem C02_SE3_pow_traces_neg : forall X : M44 R,
  tr_SE3_pow_m4 Rops X = SE3_pow Rops X (-4) /\
  tr_SE3_pow_m3 Rops X = SE3_pow Rops X (-3) /\
  tr_SE3_pow_m2 Rops X = SE3_pow Rops X (-2) /\
  tr_SE3_pow_m1 Rops X = SE3_pow Rops X (-1).
Proof. pow_ring. Qed.
Print Assumptions C02_SE3_pow_traces_neg.

(* ================================================================== 2. laws for ANY matrix *)
Theorem C02_SO2_power_laws_any : forall X : M22 R, power_laws_nonneg _ (mmul22 Rops) (I22 Rops) (@mtr22 R) X.
Proof. intros X. apply power_laws_nonneg_hold; auto using mmul22_assoc, mmul22_I_l, mmul22_I_r. Qed.
Print Assumptions C02_SO2_power_laws_any.
Theorem C02_SO3_power_laws_any : forall X : M33 R, power_laws_nonneg _ (mmul33 Rops) (I33 Rops) (@mtr33 R) X.
Proof. intros X. apply power_laws_nonneg_hold; auto using mmul33_assoc, mmul33_I_l, mmul33_I_r. Qed.
Print Assumptions C02_SO3_power_laws_any.
Theorem C02_SE2_power_laws_any : forall X : M33 R,
  power_laws_nonneg _ (mmul33 Rops) (I33 Rops) (sinv_aff3 Rops) (aff3 Rops X).
Proof. intros X. apply power_laws_nonneg_hold; auto using mmul33_assoc, mmul33_I_l, mmul33_I_r. Qed.
Print Assumptions C02_SE2_power_laws_any.
Theorem C02_SE3_power_laws_any : forall X : M44 R,
  power_laws_nonneg _ (mmul44 Rops) (I44 Rops) (sinv_aff4 Rops) (aff4 Rops X).
Proof. intros X. apply power_laws_nonneg_hold; auto using mmul44_assoc, mmul44_I_l, mmul44_I_r. Qed.
Print Assumptions C02_SE3_power_laws_any.

(* defect form for the rotation classes, ANY matrix and EVERY integer n:  X ** -n = (X ** n)' , hence
   X**n * X**-n = P P' and X**-n * X**n = P' P with P = X**n: the residual is the orthogonality defect of X**n *)
Lemma mtr33_I : mtr33 (I33 Rops) = I33 Rops. Proof. reflexivity. Qed.
Lemma mtr22_I : mtr22 (I22 Rops) = I22 Rops. Proof. reflexivity. Qed.
Lemma mtr33_invol (A : M33 R) : mtr33 (mtr33 A) = A. Proof. destruct_tuples. reflexivity. Qed.
Lemma mtr22_invol (A : M22 R) : mtr22 (mtr22 A) = A. Proof. destruct_tuples. reflexivity. Qed.

Theorem C02_SO3_pow_neg_defect : forall (X : M33 R) (n : Z),
  SO3_pow Rops X (- n) = mtr33 (SO3_pow Rops X n) /\
  mmul33 Rops (SO3_pow Rops X n) (SO3_pow Rops X (- n)) = mmul33 Rops (SO3_pow Rops X n) (mtr33 (SO3_pow Rops X n)).
Proof.
  intros X n.
  assert (E : SO3_pow Rops X (- n) = mtr33 (SO3_pow Rops X n)).
  { pose proof (pow_nat_antihom _ (mmul33 Rops) (I33 Rops) mmul33_assoc mmul33_I_l mmul33_I_r (@mtr33 R)) as Ha.
    unfold SO3_pow, mpow.
    destruct (Z.ltb_spec n 0) as [Hn|Hn], (Z.ltb_spec (- n) 0) as [Hm|Hm]; try lia.
    - replace (Z.abs_nat (- n)) with (Z.abs_nat n) by lia.
      rewrite Ha by (try exact mtr33_I; intros; apply mtr33_mul). rewrite mtr33_invol. reflexivity.
    - replace (Z.abs_nat (- n)) with (Z.abs_nat n) by lia.
      apply Ha; [exact mtr33_I | intros; apply mtr33_mul].
    - replace n with 0%Z by lia. reflexivity. }
  split; [exact E | rewrite E; reflexivity].
Qed.
Print Assumptions C02_SO3_pow_neg_defect.

Theorem C02_SO2_pow_neg_defect : forall (X : M22 R) (n : Z),
  SO2_pow Rops X (- n) = mtr22 (SO2_pow Rops X n) /\
  mmul22 Rops (SO2_pow Rops X n) (SO2_pow Rops X (- n)) = mmul22 Rops (SO2_pow Rops X n) (mtr22 (SO2_pow Rops X n)).
Proof.
  intros X n.
  assert (E : SO2_pow Rops X (- n) = mtr22 (SO2_pow Rops X n)).
  { pose proof (pow_nat_antihom _ (mmul22 Rops) (I22 Rops) mmul22_assoc mmul22_I_l mmul22_I_r (@mtr22 R)) as Ha.
    unfold SO2_pow, mpow.
    destruct (Z.ltb_spec n 0) as [Hn|Hn], (Z.ltb_spec (- n) 0) as [Hm|Hm]; try lia.
    - replace (Z.abs_nat (- n)) with (Z.abs_nat n) by lia.
      rewrite Ha by (try exact mtr22_I; intros; apply mtr22_mul). rewrite mtr22_invol. reflexivity.
    - replace (Z.abs_nat (- n)) with (Z.abs_nat n) by lia.
      apply Ha; [exact mtr22_I | intros; apply mtr22_mul].
    - replace n with 0%Z by lia. reflexivity. }
  split; [exact E | rewrite E; reflexivity].
Qed.
Print Assumptions C02_SO2_pow_neg_defect.

(* ================================================================== 3. the FULL laws on the group, every m n : Z *)
(* X**n * X**-n = I = X**-n * X**n  and  X**(m+n) = X**m * X**n *)
Theorem C02_SO3_power_laws : forall X : M33 R, SO3 X -> power_laws _ (mmul33 Rops) (I33 Rops) (@mtr33 R) X.
Proof.
  intros X H. apply power_laws_hold; auto using mmul33_assoc, mmul33_I_l, mmul33_I_r, SO3_inv_r, SO3_inv_l.
Qed.
Print Assumptions C02_SO3_power_laws.

Theorem C02_SO2_power_laws : forall X : M22 R, SO2 X -> power_laws _ (mmul22 Rops) (I22 Rops) (@mtr22 R) X.
Proof.
  intros X H. apply power_laws_hold; auto using mmul22_assoc, mmul22_I_l, mmul22_I_r, SO2_inv_r, SO2_inv_l.
Qed.
Print Assumptions C02_SO2_power_laws.

Lemma sinv_aff4_is_trinv (X : M44 R) : sinv_aff4 Rops X = trinv_ref X.
Proof. reflexivity. Qed.
Lemma aff4_SE3 (X : M44 R) : SE3 X -> aff4 Rops X = X.
Proof. intros H. symmetry. apply SE3_decompose. exact H. Qed.

Theorem C02_SE3_power_laws : forall X : M44 R, SE3 X ->
  power_laws _ (mmul44 Rops) (I44 Rops) (sinv_aff4 Rops) (aff4 Rops X).
Proof.
  intros X H. rewrite (aff4_SE3 X H).
  apply power_laws_hold; auto using mmul44_assoc, mmul44_I_l, mmul44_I_r; rewrite sinv_aff4_is_trinv;
    [apply SE3_inv_r | apply SE3_inv_l]; exact H.
Qed.
Print Assumptions C02_SE3_power_laws.

(* SE(2): Base/RLin.v has no SE2 closure lemmas; they are small enough to prove here *)
Definition trinv2_ref (A : M33 R) : M33 R :=
  rt2tr2 Rops (mtr22 (t2r2 A)) (vneg2 Rops (mv22 Rops (mtr22 (t2r2 A)) (transl2 A))).
Lemma sinv_aff3_is_trinv2 (X : M33 R) : sinv_aff3 Rops X = trinv2_ref X.
Proof. reflexivity. Qed.
Lemma SE2_I : SE2 (I33 Rops).
Proof. unfold SE2. lin_simpl. unfold SO2. repeat split; ring. Qed.
Lemma SE2_mul (A B : M33 R) : SE2 A -> SE2 B -> SE2 (mmul33 Rops A B).
Proof.
  intros [HA LA] [HB LB]. split.
  - assert (E : t2r2 (mmul33 Rops A B) = mmul22 Rops (t2r2 A) (t2r2 B)).
    { destruct_tuples. lin_simpl. injection LA; injection LB; intros; subst. tuple_eq ltac:(ring). }
    rewrite E. apply SO2_mul; assumption.
  - destruct_tuples. lin_simpl. injection LA; injection LB; intros; subst. tuple_eq ltac:(ring).
Qed.
Lemma SE2_trinv2 (A : M33 R) : SE2 A ->
  SE2 (trinv2_ref A) /\ mmul33 Rops (trinv2_ref A) A = I33 Rops /\ mmul33 Rops A (trinv2_ref A) = I33 Rops.
Proof.
  intros [HA LA]. destruct_tuples. unfold t2r2 in HA. pose proof (SO2_columns _ _ _ _ HA) as (?&?&?).
  unfold trinv2_ref, SE2, SO2 in *. lin_simpl. injection LA; intros; subst. destruct HA as (?&?&?&?).
  split; [split; [repeat split; nsatz | reflexivity] | split; tuple_eq ltac:(nsatz)].
Qed.
Lemma aff3_SE2 (X : M33 R) : SE2 X -> aff3 Rops X = X.
Proof. intros [_ H]. destruct_tuples. gen_unfold. injection H; intros; subst. reflexivity. Qed.

Theorem C02_SE2_power_laws : forall X : M33 R, SE2 X ->
  power_laws _ (mmul33 Rops) (I33 Rops) (sinv_aff3 Rops) (aff3 Rops X).
Proof.
  intros X H. rewrite (aff3_SE2 X H). destruct (SE2_trinv2 X H) as (_ & Hl & Hr).
  apply power_laws_hold; auto using mmul33_assoc, mmul33_I_l, mmul33_I_r; rewrite sinv_aff3_is_trinv2; assumption.
Qed.
Print Assumptions C02_SE2_power_laws.

(* powers of a group element stay in the group, and X ** -n is the .inv() of X ** n *)
Theorem C02_SO3_pow_group : forall (X : M33 R) (n : Z), SO3 X ->
  SO3 (SO3_pow Rops X n) /\ SO3_pow Rops X (- n) = mtr33 (SO3_pow Rops X n).
Proof.
  intros X n H. split; [|apply C02_SO3_pow_neg_defect].
  unfold SO3_pow. apply (mpow_closed _ _ _ _ SO3); auto using SO3_I, SO3_mul, SO3_tr.
Qed.
Print Assumptions C02_SO3_pow_group.

Theorem C02_SO2_pow_group : forall (X : M22 R) (n : Z), SO2 X ->
  SO2 (SO2_pow Rops X n) /\ SO2_pow Rops X (- n) = mtr22 (SO2_pow Rops X n).
Proof.
  intros X n H. split; [|apply C02_SO2_pow_neg_defect].
  unfold SO2_pow. apply (mpow_closed _ _ _ _ SO2); auto using SO2_I, SO2_mul, SO2_tr.
Qed.
Print Assumptions C02_SO2_pow_group.

Lemma SE3_I : SE3 (I44 Rops).
Proof. unfold SE3. lin_simpl. unfold SO3. repeat split; ring. Qed.

Theorem C02_SE3_pow_group : forall (X : M44 R) (n : Z), SE3 X ->
  SE3 (SE3_pow Rops X n) /\ SE3_pow Rops X (- n) = trinv_ref (SE3_pow Rops X n).
Proof.
  intros X n H.
  assert (Hc : forall k, SE3 (SE3_pow Rops X k)).
  { intro k. unfold SE3_pow. rewrite (aff4_SE3 X H). apply (mpow_closed _ _ _ _ SE3); auto using SE3_I, SE3_mul.
    rewrite sinv_aff4_is_trinv. apply SE3_inv; assumption. }
  split; [apply Hc|].
  destruct (C02_SE3_power_laws X H 0%Z n) as (L1 & _ & _).
  apply (inverse_unique _ (mmul44 Rops) (I44 Rops) mmul44_assoc mmul44_I_l mmul44_I_r (SE3_pow Rops X n)); [exact L1|].
  apply SE3_inv_l. apply Hc.
Qed.
Print Assumptions C02_SE3_pow_group.

Theorem C02_SE2_pow_group : forall (X : M33 R) (n : Z), SE2 X ->
  SE2 (SE2_pow Rops X n) /\ SE2_pow Rops X (- n) = trinv2_ref (SE2_pow Rops X n).
Proof.
  intros X n H.
  assert (Hc : forall k, SE2 (SE2_pow Rops X k)).
  { intro k. unfold SE2_pow. rewrite (aff3_SE2 X H). apply (mpow_closed _ _ _ _ SE2); auto using SE2_I, SE2_mul.
    rewrite sinv_aff3_is_trinv2. apply SE2_trinv2; assumption. }
  split; [apply Hc|].
  destruct (C02_SE2_power_laws X H 0%Z n) as (L1 & _ & _).
  apply (inverse_unique _ (mmul33 Rops) (I33 Rops) mmul33_assoc mmul33_I_l mmul33_I_r (SE2_pow Rops X n)); [exact L1|].
  apply SE2_trinv2. apply Hc.
Qed.
Print Assumptions C02_SE2_pow_group.

(* ================================================================== 4. membership is needed for the mixed-sign law *)
(* full statement "X**1 * X**-1 = I for ALL matrices" is false of the faithful model (the closed-form inverse of a
   non-orthogonal matrix is not its inverse); _partial = C02_SO3_power_laws (SO3 X ->), defect form above *)
Theorem C02_SO3_power_laws_all_matrices_refuted : exists X : M33 R,
  mmul33 Rops (SO3_pow Rops X 1) (SO3_pow Rops X (-1)) <> I33 Rops.
Proof.
  exists ((2,0,0),(0,1,0),(0,0,1)). pow_unfold. gen_unfold. intro H. injection H. intros. lra.
Qed.
Print Assumptions C02_SO3_power_laws_all_matrices_refuted.

(* non-vacuity: a non-trivial rotation / rigid motion meets the hypotheses, and its powers are not trivial *)
Example C02_p_nonvacuous :
  SO3 ((3/5, -4/5, 0), (4/5, 3/5, 0), (0, 0, 1)) /\
  SO3_pow Rops ((3/5, -4/5, 0), (4/5, 3/5, 0), (0, 0, 1)) 2 <> I33 Rops /\
  SO3_pow Rops ((3/5, -4/5, 0), (4/5, 3/5, 0), (0, 0, 1)) (-1) = ((3/5, 4/5, 0), (-4/5, 3/5, 0), (0, 0, 1)) /\
  SE3 ((3/5, -4/5, 0, 7), (4/5, 3/5, 0, -2), (0, 0, 1, 1/3), (0, 0, 0, 1)) /\
  SE3_pow Rops ((3/5, -4/5, 0, 7), (4/5, 3/5, 0, -2), (0, 0, 1, 1/3), (0, 0, 0, 1)) (-1) =
    ((3/5, 4/5, 0, -13/5), (-4/5, 3/5, 0, 34/5), (0, 0, 1, -1/3), (0, 0, 0, 1)) /\
  SE2 ((3/5, -4/5, 7), (4/5, 3/5, -2), (0, 0, 1)) /\ SO2 ((3/5, -4/5), (4/5, 3/5)).
Proof.
  repeat split; try (unfold SO3, SO2; lin_simpl; repeat split; lra); try reflexivity.
  - pow_unfold. gen_unfold. intro H. injection H. intros. lra.
  - pow_unfold. gen_unfold. tuple_eq ltac:(field).
  - pow_unfold. gen_unfold. tuple_eq ltac:(field).
Qed.
