(* C02 (part p) -- integer powers of the pose classes:  X ** n = np.linalg.matrix_power(X.A, n).
   Model (Model/C02_Pow.v): mpow = iterated product; the exact inverse (adjugate / determinant) first when n < 0.
   1. the traces of the real `X ** n` (class operator executed on symbols; np.linalg.inv on symbols = adj/det) are
      the model, for n = 0..4 and the traced negative exponents -- for ALL matrices (with non-zero determinant);
   2. the model obeys the power laws for EVERY integer exponent (induction, Model/C02_Pow.v Section Monoid);
   3. on the group the powers stay in the group and X ** -n is the structured inverse (.inv()) of X ** n.
   The model is also run against the implementation for every |n| <= 8 (T-num) on each run. *)
From Coq Require Import Reals ZArith Lra Lia Nsatz.
From SM Require Import Base.Ops Base.Lin Base.RInst Base.RLin Model.C02_Pow.
From SMgen Require Import Traces_C02.
Open Scope R_scope.

Ltac gen_unfold := autounfold with smgen smlin c02 in *; sm_simpl.
Ltac pow_unfold := cbv beta iota delta [SO2_pow SO3_pow SE2_pow SE3_pow mpow pow_nat Z.ltb Z.compare Z.abs_nat
                                         Pos.to_nat Pos.iter_op Nat.add].
Ltac nz Hd := repeat split; intro Hc; apply Hd; nsatz.
Ltac pow_ring := intros; destruct_tuples; pow_unfold; gen_unfold; repeat split; tuple_eq ltac:(ring).
Ltac pow_field Hd := destruct_tuples; pow_unfold; gen_unfold; repeat split; tuple_eq ltac:(field; nz Hd).

(* ------------------------------------------------------------------ the bundle of laws, for any monoid *)
Section Laws.
Variables (M : Type) (mul : M -> M -> M) (e : M) (inv : M -> M).
Hypothesis assoc : forall a b c, mul (mul a b) c = mul a (mul b c).
Hypothesis id_l : forall a, mul e a = a.
Hypothesis id_r : forall a, mul a e = a.
Definition power_laws (A : M) : Prop := forall m n : Z,
  mpow mul e inv A 0 = e /\ mpow mul e inv A 1 = A /\ mpow mul e inv A (-1) = inv A /\
  ((0 <= n)%Z -> mpow mul e inv A (n + 1) = mul (mpow mul e inv A n) A) /\
  mul (mpow mul e inv A n) (mpow mul e inv A (- n)) = e /\
  mul (mpow mul e inv A (- n)) (mpow mul e inv A n) = e /\
  mpow mul e inv A (m + n) = mul (mpow mul e inv A m) (mpow mul e inv A n).
Lemma power_laws_hold A : mul A (inv A) = e -> mul (inv A) A = e -> power_laws A.
Proof.
  intros H1 H2 m n.
  pose proof (mpow_add M mul e assoc id_l id_r inv A) as Hadd.
  repeat split.
  - apply mpow_1; assumption.
  - apply mpow_m1; assumption.
  - apply mpow_succ.
  - rewrite <- Hadd by assumption. replace (n + - n)%Z with 0%Z by lia. reflexivity.
  - rewrite <- Hadd by assumption. replace (- n + n)%Z with 0%Z by lia. reflexivity.
  - apply Hadd; assumption.
Qed.
End Laws.

(* ------------------------------------------------------------------ monoid facts of the four matrix shapes *)
Lemma mmul33_I_l' (A : M33 R) : mmul33 Rops (I33 Rops) A = A. Proof. lin_ring. Qed.
Lemma mmul22_I_l (A : M22 R) : mmul22 Rops (I22 Rops) A = A. Proof. lin_ring. Qed.
Lemma mmul22_I_r (A : M22 R) : mmul22 Rops A (I22 Rops) = A. Proof. lin_ring. Qed.

Lemma minv22_inverse (A : M22 R) : det22 Rops A <> 0 ->
  mmul22 Rops A (minv22 Rops A) = I22 Rops /\ mmul22 Rops (minv22 Rops A) A = I22 Rops.
Proof. intros Hd. destruct_tuples. gen_unfold. split; tuple_eq ltac:(field; nz Hd). Qed.
Lemma minv33_inverse (A : M33 R) : det33 Rops A <> 0 ->
  mmul33 Rops A (minv33 Rops A) = I33 Rops /\ mmul33 Rops (minv33 Rops A) A = I33 Rops.
Proof. intros Hd. destruct_tuples. gen_unfold. split; tuple_eq ltac:(field; nz Hd). Qed.
Lemma minv_aff3_inverse (A : M33 R) : det22 Rops (t2r2 A) <> 0 ->
  mmul33 Rops (aff3 Rops A) (minv_aff3 Rops (aff3 Rops A)) = I33 Rops /\
  mmul33 Rops (minv_aff3 Rops (aff3 Rops A)) (aff3 Rops A) = I33 Rops.
Proof. intros Hd. destruct_tuples. gen_unfold. split; tuple_eq ltac:(field; nz Hd). Qed.
Lemma minv_aff4_inverse (A : M44 R) : det33 Rops (t2r3 A) <> 0 ->
  mmul44 Rops (aff4 Rops A) (minv_aff4 Rops (aff4 Rops A)) = I44 Rops /\
  mmul44 Rops (minv_aff4 Rops (aff4 Rops A)) (aff4 Rops A) = I44 Rops.
Proof. intros Hd. destruct_tuples. gen_unfold. split; tuple_eq ltac:(field; nz Hd). Qed.

(* ================================================================== 0. the extracted T-num functions are the model *)
Theorem C02_SO2_pw_is_model : forall X : M22 R,
  pw_SO2_m8 Rops X = SO2_pow Rops X (-8) /\
  pw_SO2_m7 Rops X = SO2_pow Rops X (-7) /\
  pw_SO2_m6 Rops X = SO2_pow Rops X (-6) /\
  pw_SO2_m5 Rops X = SO2_pow Rops X (-5) /\
  pw_SO2_m4 Rops X = SO2_pow Rops X (-4) /\
  pw_SO2_m3 Rops X = SO2_pow Rops X (-3) /\
  pw_SO2_m2 Rops X = SO2_pow Rops X (-2) /\
  pw_SO2_m1 Rops X = SO2_pow Rops X (-1) /\
  pw_SO2_p0 Rops X = SO2_pow Rops X (0) /\
  pw_SO2_p1 Rops X = SO2_pow Rops X (1) /\
  pw_SO2_p2 Rops X = SO2_pow Rops X (2) /\
  pw_SO2_p3 Rops X = SO2_pow Rops X (3) /\
  pw_SO2_p4 Rops X = SO2_pow Rops X (4) /\
  pw_SO2_p5 Rops X = SO2_pow Rops X (5) /\
  pw_SO2_p6 Rops X = SO2_pow Rops X (6) /\
  pw_SO2_p7 Rops X = SO2_pow Rops X (7) /\
  pw_SO2_p8 Rops X = SO2_pow Rops X (8).
Proof. intros; repeat split; reflexivity. Qed.
Print Assumptions C02_SO2_pw_is_model.

Theorem C02_SE2_pw_is_model : forall X : M33 R,
  pw_SE2_m8 Rops X = SE2_pow Rops X (-8) /\
  pw_SE2_m7 Rops X = SE2_pow Rops X (-7) /\
  pw_SE2_m6 Rops X = SE2_pow Rops X (-6) /\
  pw_SE2_m5 Rops X = SE2_pow Rops X (-5) /\
  pw_SE2_m4 Rops X = SE2_pow Rops X (-4) /\
  pw_SE2_m3 Rops X = SE2_pow Rops X (-3) /\
  pw_SE2_m2 Rops X = SE2_pow Rops X (-2) /\
  pw_SE2_m1 Rops X = SE2_pow Rops X (-1) /\
  pw_SE2_p0 Rops X = SE2_pow Rops X (0) /\
  pw_SE2_p1 Rops X = SE2_pow Rops X (1) /\
  pw_SE2_p2 Rops X = SE2_pow Rops X (2) /\
  pw_SE2_p3 Rops X = SE2_pow Rops X (3) /\
  pw_SE2_p4 Rops X = SE2_pow Rops X (4) /\
  pw_SE2_p5 Rops X = SE2_pow Rops X (5) /\
  pw_SE2_p6 Rops X = SE2_pow Rops X (6) /\
  pw_SE2_p7 Rops X = SE2_pow Rops X (7) /\
  pw_SE2_p8 Rops X = SE2_pow Rops X (8).
Proof. intros; repeat split; reflexivity. Qed.
Print Assumptions C02_SE2_pw_is_model.

Theorem C02_SO3_pw_is_model : forall X : M33 R,
  pw_SO3_m8 Rops X = SO3_pow Rops X (-8) /\
  pw_SO3_m7 Rops X = SO3_pow Rops X (-7) /\
  pw_SO3_m6 Rops X = SO3_pow Rops X (-6) /\
  pw_SO3_m5 Rops X = SO3_pow Rops X (-5) /\
  pw_SO3_m4 Rops X = SO3_pow Rops X (-4) /\
  pw_SO3_m3 Rops X = SO3_pow Rops X (-3) /\
  pw_SO3_m2 Rops X = SO3_pow Rops X (-2) /\
  pw_SO3_m1 Rops X = SO3_pow Rops X (-1) /\
  pw_SO3_p0 Rops X = SO3_pow Rops X (0) /\
  pw_SO3_p1 Rops X = SO3_pow Rops X (1) /\
  pw_SO3_p2 Rops X = SO3_pow Rops X (2) /\
  pw_SO3_p3 Rops X = SO3_pow Rops X (3) /\
  pw_SO3_p4 Rops X = SO3_pow Rops X (4) /\
  pw_SO3_p5 Rops X = SO3_pow Rops X (5) /\
  pw_SO3_p6 Rops X = SO3_pow Rops X (6) /\
  pw_SO3_p7 Rops X = SO3_pow Rops X (7) /\
  pw_SO3_p8 Rops X = SO3_pow Rops X (8).
Proof. intros; repeat split; reflexivity. Qed.
Print Assumptions C02_SO3_pw_is_model.

Theorem C02_SE3_pw_is_model : forall X : M44 R,
  pw_SE3_m8 Rops X = SE3_pow Rops X (-8) /\
  pw_SE3_m7 Rops X = SE3_pow Rops X (-7) /\
  pw_SE3_m6 Rops X = SE3_pow Rops X (-6) /\
  pw_SE3_m5 Rops X = SE3_pow Rops X (-5) /\
  pw_SE3_m4 Rops X = SE3_pow Rops X (-4) /\
  pw_SE3_m3 Rops X = SE3_pow Rops X (-3) /\
  pw_SE3_m2 Rops X = SE3_pow Rops X (-2) /\
  pw_SE3_m1 Rops X = SE3_pow Rops X (-1) /\
  pw_SE3_p0 Rops X = SE3_pow Rops X (0) /\
  pw_SE3_p1 Rops X = SE3_pow Rops X (1) /\
  pw_SE3_p2 Rops X = SE3_pow Rops X (2) /\
  pw_SE3_p3 Rops X = SE3_pow Rops X (3) /\
  pw_SE3_p4 Rops X = SE3_pow Rops X (4) /\
  pw_SE3_p5 Rops X = SE3_pow Rops X (5) /\
  pw_SE3_p6 Rops X = SE3_pow Rops X (6) /\
  pw_SE3_p7 Rops X = SE3_pow Rops X (7) /\
  pw_SE3_p8 Rops X = SE3_pow Rops X (8).
Proof. intros; repeat split; reflexivity. Qed.
Print Assumptions C02_SE3_pw_is_model.

(* ================================================================== 1. traces = model *)
Theorem C02_SO2_pow_traces : forall X : M22 R,
  tr_SO2_pow_p0 Rops X = SO2_pow Rops X 0 /\ tr_SO2_pow_p1 Rops X = SO2_pow Rops X 1 /\
  tr_SO2_pow_p2 Rops X = SO2_pow Rops X 2 /\ tr_SO2_pow_p3 Rops X = SO2_pow Rops X 3 /\
  tr_SO2_pow_p4 Rops X = SO2_pow Rops X 4.
Proof. pow_ring. Qed.
Print Assumptions C02_SO2_pow_traces.

Theorem C02_SO2_pow_traces_neg : forall X : M22 R, det22 Rops X <> 0 ->
  tr_SO2_pow_m1 Rops X = SO2_pow Rops X (-1) /\ tr_SO2_pow_m2 Rops X = SO2_pow Rops X (-2) /\
  tr_SO2_pow_m3 Rops X = SO2_pow Rops X (-3) /\ tr_SO2_pow_m4 Rops X = SO2_pow Rops X (-4).
Proof. intros X Hd. pow_field Hd. Qed.
Print Assumptions C02_SO2_pow_traces_neg.

Theorem C02_SE2_pow_traces : forall X : M33 R,
  tr_SE2_pow_p0 Rops X = SE2_pow Rops X 0 /\ tr_SE2_pow_p1 Rops X = SE2_pow Rops X 1 /\
  tr_SE2_pow_p2 Rops X = SE2_pow Rops X 2 /\ tr_SE2_pow_p3 Rops X = SE2_pow Rops X 3 /\
  tr_SE2_pow_p4 Rops X = SE2_pow Rops X 4.
Proof. pow_ring. Qed.
Print Assumptions C02_SE2_pow_traces.

Theorem C02_SE2_pow_traces_neg : forall X : M33 R, det22 Rops (t2r2 X) <> 0 ->
  tr_SE2_pow_m1 Rops X = SE2_pow Rops X (-1) /\ tr_SE2_pow_m2 Rops X = SE2_pow Rops X (-2) /\
  tr_SE2_pow_m3 Rops X = SE2_pow Rops X (-3).
Proof. intros X Hd. pow_field Hd. Qed.
Print Assumptions C02_SE2_pow_traces_neg.

Theorem C02_SO3_pow_traces : forall X : M33 R,
  tr_SO3_pow_p0 Rops X = SO3_pow Rops X 0 /\ tr_SO3_pow_p1 Rops X = SO3_pow Rops X 1 /\
  tr_SO3_pow_p2 Rops X = SO3_pow Rops X 2 /\ tr_SO3_pow_p3 Rops X = SO3_pow Rops X 3 /\
  tr_SO3_pow_p4 Rops X = SO3_pow Rops X 4.
Proof. pow_ring. Qed.
Print Assumptions C02_SO3_pow_traces.

Theorem C02_SO3_pow_traces_neg : forall X : M33 R, det33 Rops X <> 0 ->
  tr_SO3_pow_m1 Rops X = SO3_pow Rops X (-1) /\ tr_SO3_pow_m2 Rops X = SO3_pow Rops X (-2).
Proof. intros X Hd. pow_field Hd. Qed.
Print Assumptions C02_SO3_pow_traces_neg.

Theorem C02_SE3_pow_traces : forall X : M44 R,
  tr_SE3_pow_p0 Rops X = SE3_pow Rops X 0 /\ tr_SE3_pow_p1 Rops X = SE3_pow Rops X 1 /\
  tr_SE3_pow_p2 Rops X = SE3_pow Rops X 2 /\ tr_SE3_pow_p3 Rops X = SE3_pow Rops X 3 /\
  tr_SE3_pow_p4 Rops X = SE3_pow Rops X 4.
Proof. pow_ring. Qed.
Print Assumptions C02_SE3_pow_traces.

Theorem C02_SE3_pow_traces_neg : forall X : M44 R, det33 Rops (t2r3 X) <> 0 ->
  tr_SE3_pow_m1 Rops X = SE3_pow Rops X (-1) /\ tr_SE3_pow_m2 Rops X = SE3_pow Rops X (-2).
Proof. intros X Hd. pow_field Hd. Qed.
Print Assumptions C02_SE3_pow_traces_neg.

(* ================================================================== 2. the laws, every integer exponent *)
(* X**0 = I, X**1 = X, X**-1 = inverse, X**(n+1) = X**n * X (n >= 0), X**n * X**-n = I = X**-n * X**n,
   X**(m+n) = X**m * X**n  -- for all m n : Z and every INVERTIBLE matrix (no orthogonality needed) *)
Theorem C02_SO2_power_laws : forall X : M22 R, det22 Rops X <> 0 ->
  power_laws _ (mmul22 Rops) (I22 Rops) (minv22 Rops) X.
Proof.
  intros X Hd. destruct (minv22_inverse X Hd). apply power_laws_hold; auto using mmul22_assoc, mmul22_I_l, mmul22_I_r.
Qed.
Print Assumptions C02_SO2_power_laws.

Theorem C02_SO3_power_laws : forall X : M33 R, det33 Rops X <> 0 ->
  power_laws _ (mmul33 Rops) (I33 Rops) (minv33 Rops) X.
Proof.
  intros X Hd. destruct (minv33_inverse X Hd). apply power_laws_hold; auto using mmul33_assoc, mmul33_I_l, mmul33_I_r.
Qed.
Print Assumptions C02_SO3_power_laws.

Theorem C02_SE2_power_laws : forall X : M33 R, det22 Rops (t2r2 X) <> 0 ->
  power_laws _ (mmul33 Rops) (I33 Rops) (minv_aff3 Rops) (aff3 Rops X).
Proof.
  intros X Hd. destruct (minv_aff3_inverse X Hd). apply power_laws_hold; auto using mmul33_assoc, mmul33_I_l, mmul33_I_r.
Qed.
Print Assumptions C02_SE2_power_laws.

Theorem C02_SE3_power_laws : forall X : M44 R, det33 Rops (t2r3 X) <> 0 ->
  power_laws _ (mmul44 Rops) (I44 Rops) (minv_aff4 Rops) (aff4 Rops X).
Proof.
  intros X Hd. destruct (minv_aff4_inverse X Hd). apply power_laws_hold; auto using mmul44_assoc, mmul44_I_l, mmul44_I_r.
Qed.
Print Assumptions C02_SE3_power_laws.

(* ================================================================== 3. on the group *)
Lemma SO3_det (X : M33 R) : SO3 X -> det33 Rops X <> 0.
Proof. intros H. apply SO3_matrix in H. destruct H as [_ H]. rewrite H. lra. Qed.
Lemma SO2_det (X : M22 R) : SO2 X -> det22 Rops X <> 0.
Proof. intros H. apply SO2_matrix in H. destruct H as [_ H]. rewrite H. lra. Qed.
Lemma SO2_inv_r (A : M22 R) : SO2 A -> mmul22 Rops A (mtr22 A) = I22 Rops.
Proof. intros H. apply SO2_matrix in H. tauto. Qed.

Lemma minv33_SO3 (X : M33 R) : SO3 X -> minv33 Rops X = mtr33 X.
Proof.
  intros H. destruct (minv33_inverse X (SO3_det X H)) as [H1 _].
  apply (inverse_unique _ (mmul33 Rops) (I33 Rops) mmul33_assoc mmul33_I_l mmul33_I_r X); [exact H1|].
  apply SO3_inv_l; exact H.
Qed.
Lemma minv22_SO2 (X : M22 R) : SO2 X -> minv22 Rops X = mtr22 X.
Proof.
  intros H. destruct (minv22_inverse X (SO2_det X H)) as [_ H1].
  symmetry. apply (inverse_unique _ (mmul22 Rops) (I22 Rops) mmul22_assoc mmul22_I_l mmul22_I_r X); [|exact H1].
  apply SO2_inv_r; exact H.
Qed.

(* powers of a rotation are rotations, and X ** -n is the transpose (= .inv()) of X ** n *)
Theorem C02_SO3_pow_group : forall (X : M33 R) (n : Z), SO3 X ->
  SO3 (SO3_pow Rops X n) /\ SO3_pow Rops X (- n) = mtr33 (SO3_pow Rops X n).
Proof.
  intros X n H.
  assert (Hc : forall k, SO3 (SO3_pow Rops X k)).
  { intro k. unfold SO3_pow. apply (mpow_closed _ _ _ _ SO3); auto using SO3_I, SO3_mul.
    rewrite minv33_SO3 by assumption. apply SO3_tr; assumption. }
  split; [apply Hc|].
  destruct (C02_SO3_power_laws X (SO3_det X H) 0%Z n) as (_ & _ & _ & _ & L1 & _ & _).
  apply (inverse_unique _ (mmul33 Rops) (I33 Rops) mmul33_assoc mmul33_I_l mmul33_I_r (SO3_pow Rops X n)); [exact L1|].
  apply SO3_inv_l. apply Hc.
Qed.
Print Assumptions C02_SO3_pow_group.

Theorem C02_SO2_pow_group : forall (X : M22 R) (n : Z), SO2 X ->
  SO2 (SO2_pow Rops X n) /\ SO2_pow Rops X (- n) = mtr22 (SO2_pow Rops X n).
Proof.
  intros X n H.
  assert (Hc : forall k, SO2 (SO2_pow Rops X k)).
  { intro k. unfold SO2_pow. apply (mpow_closed _ _ _ _ SO2); auto using SO2_I, SO2_mul.
    rewrite minv22_SO2 by assumption. apply SO2_tr; assumption. }
  split; [apply Hc|].
  destruct (C02_SO2_power_laws X (SO2_det X H) 0%Z n) as (_ & _ & _ & _ & L1 & L2 & _).
  symmetry. apply (inverse_unique _ (mmul22 Rops) (I22 Rops) mmul22_assoc mmul22_I_l mmul22_I_r (SO2_pow Rops X n)); [|exact L2].
  apply SO2_inv_r. apply Hc.
Qed.
Print Assumptions C02_SO2_pow_group.

(* powers of a rigid motion are rigid motions, and X ** -n is trinv (= .inv()) of X ** n *)
Lemma minv_aff4_SE3 (X : M44 R) : SE3 X -> minv_aff4 Rops X = trinv_ref X.
Proof.
  intros H. pose proof H as [Hr _]. pose proof (SE3_decompose X H) as Hx.
  destruct (minv_aff4_inverse X (SO3_det _ Hr)) as [H1 _]. unfold aff4 in H1. rewrite <- Hx in H1.
  apply (inverse_unique _ (mmul44 Rops) (I44 Rops) mmul44_assoc mmul44_I_l mmul44_I_r X); [exact H1|].
  apply SE3_inv_l; exact H.
Qed.
Lemma SE3_I : SE3 (I44 Rops).
Proof. unfold SE3. lin_simpl. unfold SO3. repeat split; ring. Qed.

Theorem C02_SE3_pow_group : forall (X : M44 R) (n : Z), SE3 X ->
  SE3 (SE3_pow Rops X n) /\ SE3_pow Rops X (- n) = trinv_ref (SE3_pow Rops X n).
Proof.
  intros X n H. pose proof H as [Hr _]. pose proof (SE3_decompose X H) as Hx.
  assert (Ha : aff4 Rops X = X) by (symmetry; exact Hx).
  assert (Hc : forall k, SE3 (SE3_pow Rops X k)).
  { intro k. unfold SE3_pow. rewrite Ha. apply (mpow_closed _ _ _ _ SE3); auto using SE3_I, SE3_mul.
    rewrite minv_aff4_SE3 by assumption. apply SE3_inv; assumption. }
  split; [apply Hc|].
  destruct (C02_SE3_power_laws X (SO3_det _ Hr) 0%Z n) as (_ & _ & _ & _ & L1 & _ & _).
  apply (inverse_unique _ (mmul44 Rops) (I44 Rops) mmul44_assoc mmul44_I_l mmul44_I_r (SE3_pow Rops X n)); [exact L1|].
  apply SE3_inv_l. apply Hc.
Qed.
Print Assumptions C02_SE3_pow_group.

(* the same for SE(2) (Base/RLin.v has no SE2 closure lemmas; they are small enough to prove here) *)
Definition trinv2_ref (A : M33 R) : M33 R :=
  rt2tr2 Rops (mtr22 (t2r2 A)) (vneg2 Rops (mv22 Rops (mtr22 (t2r2 A)) (transl2 A))).
Lemma SE2_I : SE2 (I33 Rops).
Proof. unfold SE2. lin_simpl. unfold SO2. repeat split; ring. Qed.
Lemma SE2_mul (A B : M33 R) : SE2 A -> SE2 B -> SE2 (mmul33 Rops A B).
Proof.
  intros [HA LA] [HB LB]. split.
  - assert (E : t2r2 (mmul33 Rops A B) = mmul22 Rops (t2r2 A) (t2r2 B)).
    { destruct_tuples. lin_simpl. injection LA; injection LB; intros; subst. tuple_eq ltac:(ring). }
    rewrite E. apply SO2_mul; assumption.
  - destruct_tuples. lin_simpl. injection LA; injection LB; intros; subst. tuple_eq ltac:(ring).
Qed.
Lemma SE2_trinv2 (A : M33 R) : SE2 A -> SE2 (trinv2_ref A) /\ mmul33 Rops (trinv2_ref A) A = I33 Rops.
Proof.
  intros [HA LA]. destruct_tuples. unfold t2r2 in HA. pose proof (SO2_columns _ _ _ _ HA) as (?&?&?).
  unfold trinv2_ref, SE2, SO2 in *. lin_simpl. injection LA; intros; subst. destruct HA as (?&?&?&?).
  split; [split; [repeat split; nsatz | reflexivity] | tuple_eq ltac:(nsatz)].
Qed.
Lemma aff3_SE2 (X : M33 R) : SE2 X -> aff3 Rops X = X.
Proof. intros [_ H]. destruct_tuples. gen_unfold. injection H; intros; subst. reflexivity. Qed.
Lemma minv_aff3_SE2 (X : M33 R) : SE2 X -> minv_aff3 Rops X = trinv2_ref X.
Proof.
  intros H. pose proof H as [Hr _]. destruct (minv_aff3_inverse X (SO2_det _ Hr)) as [H1 _].
  rewrite (aff3_SE2 X H) in H1.
  apply (inverse_unique _ (mmul33 Rops) (I33 Rops) mmul33_assoc mmul33_I_l mmul33_I_r X); [exact H1|].
  apply SE2_trinv2; exact H.
Qed.

Theorem C02_SE2_pow_group : forall (X : M33 R) (n : Z), SE2 X ->
  SE2 (SE2_pow Rops X n) /\ SE2_pow Rops X (- n) = trinv2_ref (SE2_pow Rops X n).
Proof.
  intros X n H. pose proof H as [Hr _].
  assert (Hc : forall k, SE2 (SE2_pow Rops X k)).
  { intro k. unfold SE2_pow. rewrite (aff3_SE2 X H). apply (mpow_closed _ _ _ _ SE2); auto using SE2_I, SE2_mul.
    rewrite minv_aff3_SE2 by assumption. apply SE2_trinv2; assumption. }
  split; [apply Hc|].
  destruct (C02_SE2_power_laws X (SO2_det _ Hr) 0%Z n) as (_ & _ & _ & _ & L1 & _ & _).
  apply (inverse_unique _ (mmul33 Rops) (I33 Rops) mmul33_assoc mmul33_I_l mmul33_I_r (SE2_pow Rops X n)); [exact L1|].
  apply SE2_trinv2. apply Hc.
Qed.
Print Assumptions C02_SE2_pow_group.

Example C02_p_nonvacuous :
  det33 Rops ((3/5, -4/5, 0), (4/5, 3/5, 0), (0, 0, 1)) <> 0 /\
  SO3_pow Rops ((3/5, -4/5, 0), (4/5, 3/5, 0), (0, 0, 1)) 2 <> I33 Rops /\
  SO3_pow Rops ((3/5, -4/5, 0), (4/5, 3/5, 0), (0, 0, 1)) (-1) = ((3/5, 4/5, 0), (-4/5, 3/5, 0), (0, 0, 1)).
Proof.
  split; [|split].
  - lin_simpl. lra.
  - pow_unfold. gen_unfold. intro H. injection H. intros. lra.
  - pow_unfold. gen_unfold. tuple_eq ltac:(field).
Qed.
