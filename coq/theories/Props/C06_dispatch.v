(* C06 -- the shape dispatch of (pose) * (points): an N-column array is transformed column by column exactly as N
   separate calls would, for EVERY N; a multi-valued pose applied to one point gives one column per pose value,
   for EVERY length.
   Model: theories/Model/C06_Dispatch.v (hand-written, mirrors SMPose.__mul__ as it is), tied
     - to the regenerated traces here: for N = 1..4 (N = dim included) and lengths 2, 3 the traced library result
       IS what the model says, with the traced one-point kernel;
     - to the implementation by the exhaustive grid run (vm_compute of [dispatch] vs the real call) in props/C06.py. *)
From Coq Require Import Reals ZArith Lra List Arith Lia.
From SM Require Import Base.Ops Base.Lin Base.RInst Base.RLin Model.C06_Dispatch.
From SMgen Require Import Traces_C06.
Import ListNotations.
Open Scope R_scope.

Definition act3 (X : M44 R) (p : V3 R) : V3 R := vadd3 Rops (mv33 Rops (t2r3 X) p) (transl3 X).
Definition act2 (X : M33 R) (p : V2 R) : V2 R := vadd2 Rops (mv22 Rops (t2r2 X) p) (transl2 X).
Definition hom4 (X : M44 R) : Prop := lastrow4 X = (0, 0, 0, 1).
Definition hom3 (X : M33 R) : Prop := lastrow3 X = (0, 0, 1).
#[local] Hint Unfold act3 act2 : smlin.
Ltac use_hom :=
  repeat match goal with
         | H : hom4 _ |- _ => unfold hom4 in H; simpl in H; injection H as -> -> -> ->
         | H : hom3 _ |- _ => unfold hom3 in H; simpl in H; injection H as -> -> ->
         end.
Ltac gen_unfold := autounfold with smgen smlin in *; sm_simpl.
Ltac gen_ring := intros; destruct_tuples; gen_unfold; tuple_eq ltac:(ring).
Ltac gen_field := intros; destruct_tuples; use_hom; gen_unfold; tuple_eq ltac:(first [reflexivity | field; lra]).

(* the one-point kernels (the traced library call on one pose and one point) *)
Definition kSE3 (X : M44 R) (p : V3 R) : V3 R := tr_SE3_v Rops X p.
Definition kSO3 (X : M33 R) (p : V3 R) : V3 R := tr_SO3_v Rops X p.
Definition kSE2 (X : M33 R) (p : V2 R) : V2 R := tr_SE2_v Rops X p.
Definition kSO2 (X : M22 R) (p : V2 R) : V2 R := tr_SO2_v Rops X p.
Definition kUQ (q : V4 R) (p : V3 R) : V3 R := tr_UQ_v Rops q p.
Definition z3 : V3 R := (0, 0, 0).
Definition z2 : V2 R := (0, 0).

Lemma kSE3_point X p : hom4 X -> kSE3 X p = act3 X p.  Proof. unfold kSE3. revert X p. gen_field. Qed.
Lemma kSE2_point X p : hom3 X -> kSE2 X p = act2 X p.  Proof. unfold kSE2. revert X p. gen_field. Qed.
Lemma kSO3_point X p : kSO3 X p = mv33 Rops X p.  Proof. unfold kSO3. revert X p. gen_ring. Qed.
Lemma kSO2_point X p : kSO2 X p = mv22 Rops X p.  Proof. unfold kSO2. revert X p. gen_ring. Qed.

Ltac model_eval := unfold pose_mul; simpl length;
  (rewrite dispatch_single_array by lia) || (vm_compute dispatch);
  cbn [cols map seq fst snd nth].
Ltac list_eq tac := repeat match goal with |- inr _ = inr _ => apply f_equal | |- cons _ _ = cons _ _ => apply f_equal2 | |- nil = nil => reflexivity end; tac.

(* ================================================================ tie: traced d x N results (N = 1..4) are the model *)
Theorem C06_SE3_array_is_model : forall (X : M44 R) (p0 p1 p2 p3 : V3 R), hom4 X ->
  pose_mul kSE3 X z3 [X] [p0] (FArr2 3 1) 3 = inr [tr_SE3_col Rops X p0] /\
  pose_mul kSE3 X z3 [X] [p0; p1] (FArr2 3 2) 3 = inr [tr_SE3_a2_c0 Rops X p0 p1; tr_SE3_a2_c1 Rops X p0 p1] /\
  pose_mul kSE3 X z3 [X] [p0; p1; p2] (FArr2 3 3) 3 =
    inr [tr_SE3_a3_c0 Rops X p0 p1 p2; tr_SE3_a3_c1 Rops X p0 p1 p2; tr_SE3_a3_c2 Rops X p0 p1 p2] /\
  pose_mul kSE3 X z3 [X] [p0; p1; p2; p3] (FArr2 3 4) 3 =
    inr [tr_SE3_a4_c0 Rops X p0 p1 p2 p3; tr_SE3_a4_c1 Rops X p0 p1 p2 p3; tr_SE3_a4_c2 Rops X p0 p1 p2 p3; tr_SE3_a4_c3 Rops X p0 p1 p2 p3].
Proof.
  intros X p0 p1 p2 p3 H. unfold kSE3. repeat split; model_eval; list_eq ltac:(idtac); revert H; gen_field.
Qed.
Print Assumptions C06_SE3_array_is_model.

Theorem C06_SO3_array_is_model : forall (X : M33 R) (p0 p1 p2 p3 : V3 R),
  pose_mul kSO3 X z3 [X] [p0] (FArr2 3 1) 3 = inr [tr_SO3_col Rops X p0] /\
  pose_mul kSO3 X z3 [X] [p0; p1] (FArr2 3 2) 3 = inr [tr_SO3_a2_c0 Rops X p0 p1; tr_SO3_a2_c1 Rops X p0 p1] /\
  pose_mul kSO3 X z3 [X] [p0; p1; p2] (FArr2 3 3) 3 =
    inr [tr_SO3_a3_c0 Rops X p0 p1 p2; tr_SO3_a3_c1 Rops X p0 p1 p2; tr_SO3_a3_c2 Rops X p0 p1 p2] /\
  pose_mul kSO3 X z3 [X] [p0; p1; p2; p3] (FArr2 3 4) 3 =
    inr [tr_SO3_a4_c0 Rops X p0 p1 p2 p3; tr_SO3_a4_c1 Rops X p0 p1 p2 p3; tr_SO3_a4_c2 Rops X p0 p1 p2 p3; tr_SO3_a4_c3 Rops X p0 p1 p2 p3].
Proof.
  intros X p0 p1 p2 p3. unfold kSO3. repeat split; model_eval; list_eq ltac:(idtac); gen_ring.
Qed.
Print Assumptions C06_SO3_array_is_model.

Theorem C06_SE2_array_is_model : forall (X : M33 R) (p0 p1 p2 p3 : V2 R), hom3 X ->
  pose_mul kSE2 X z2 [X] [p0] (FArr2 2 1) 2 = inr [tr_SE2_col Rops X p0] /\
  pose_mul kSE2 X z2 [X] [p0; p1] (FArr2 2 2) 2 = inr [tr_SE2_a2_c0 Rops X p0 p1; tr_SE2_a2_c1 Rops X p0 p1] /\
  pose_mul kSE2 X z2 [X] [p0; p1; p2] (FArr2 2 3) 2 =
    inr [tr_SE2_a3_c0 Rops X p0 p1 p2; tr_SE2_a3_c1 Rops X p0 p1 p2; tr_SE2_a3_c2 Rops X p0 p1 p2] /\
  pose_mul kSE2 X z2 [X] [p0; p1; p2; p3] (FArr2 2 4) 2 =
    inr [tr_SE2_a4_c0 Rops X p0 p1 p2 p3; tr_SE2_a4_c1 Rops X p0 p1 p2 p3; tr_SE2_a4_c2 Rops X p0 p1 p2 p3; tr_SE2_a4_c3 Rops X p0 p1 p2 p3].
Proof.
  intros X p0 p1 p2 p3 H. unfold kSE2. repeat split; model_eval; list_eq ltac:(idtac); revert H; gen_field.
Qed.
Print Assumptions C06_SE2_array_is_model.

Theorem C06_SO2_array_is_model : forall (X : M22 R) (p0 p1 p2 p3 : V2 R),
  pose_mul kSO2 X z2 [X] [p0] (FArr2 2 1) 2 = inr [tr_SO2_col Rops X p0] /\
  pose_mul kSO2 X z2 [X] [p0; p1] (FArr2 2 2) 2 = inr [tr_SO2_a2_c0 Rops X p0 p1; tr_SO2_a2_c1 Rops X p0 p1] /\
  pose_mul kSO2 X z2 [X] [p0; p1; p2] (FArr2 2 3) 2 =
    inr [tr_SO2_a3_c0 Rops X p0 p1 p2; tr_SO2_a3_c1 Rops X p0 p1 p2; tr_SO2_a3_c2 Rops X p0 p1 p2] /\
  pose_mul kSO2 X z2 [X] [p0; p1; p2; p3] (FArr2 2 4) 2 =
    inr [tr_SO2_a4_c0 Rops X p0 p1 p2 p3; tr_SO2_a4_c1 Rops X p0 p1 p2 p3; tr_SO2_a4_c2 Rops X p0 p1 p2 p3; tr_SO2_a4_c3 Rops X p0 p1 p2 p3].
Proof.
  intros X p0 p1 p2 p3. unfold kSO2. repeat split; model_eval; list_eq ltac:(idtac); gen_ring.
Qed.
Print Assumptions C06_SO2_array_is_model.

(* the homogeneous function route and the unit-quaternion route on arrays are columnwise too *)
Theorem C06_homtrans_UQ_array_columns : forall (X : M44 R) (q : V4 R) (p0 p1 p2 : V3 R), hom4 X ->
  tr_homtrans3_a2_c1 Rops X p0 p1 = kSE3 X p1 /\
  tr_UQ_a2_c0 Rops q p0 p1 = kUQ q p0 /\ tr_UQ_a2_c1 Rops q p0 p1 = kUQ q p1 /\
  tr_UQ_a3_c0 Rops q p0 p1 p2 = kUQ q p0 /\ tr_UQ_a3_c1 Rops q p0 p1 p2 = kUQ q p1 /\ tr_UQ_a3_c2 Rops q p0 p1 p2 = kUQ q p2.
Proof.
  intros X q p0 p1 p2 H. unfold kSE3, kUQ. split; [revert H; gen_field|]. clear H. repeat split; gen_ring.
Qed.
Print Assumptions C06_homtrans_UQ_array_columns.

(* ================================================================ tie: traced multi-valued pose x one point (lengths 2, 3) *)
Theorem C06_multi_is_model_3D : forall (X0 X1 X2 : M44 R) (Y0 Y1 Y2 : M33 R) (p : V3 R) (f : form),
  hom4 X0 -> hom4 X1 -> hom4 X2 -> isvector f 3 = true ->
  pose_mul kSE3 X0 z3 [X0; X1] [p] f 3 = inr [tr_SE3_m2_c0 Rops X0 X1 p; tr_SE3_m2_c1 Rops X0 X1 p] /\
  pose_mul kSE3 X0 z3 [X0; X1; X2] [p] f 3 =
    inr [tr_SE3_m3_c0 Rops X0 X1 X2 p; tr_SE3_m3_c1 Rops X0 X1 X2 p; tr_SE3_m3_c2 Rops X0 X1 X2 p] /\
  pose_mul kSO3 Y0 z3 [Y0; Y1] [p] f 3 = inr [tr_SO3_m2_c0 Rops Y0 Y1 p; tr_SO3_m2_c1 Rops Y0 Y1 p] /\
  pose_mul kSO3 Y0 z3 [Y0; Y1; Y2] [p] f 3 =
    inr [tr_SO3_m3_c0 Rops Y0 Y1 Y2 p; tr_SO3_m3_c1 Rops Y0 Y1 Y2 p; tr_SO3_m3_c2 Rops Y0 Y1 Y2 p].
Proof.
  intros X0 X1 X2 Y0 Y1 Y2 p f H0 H1 H2 Hf. unfold kSE3, kSO3, pose_mul, dispatch. simpl length. rewrite Hf.
  cbn [Nat.eqb Nat.ltb Nat.leb andb cols map seq fst snd nth].
  repeat split; list_eq ltac:(idtac); try (revert H0 H1 H2; gen_field); gen_ring.
Qed.
Print Assumptions C06_multi_is_model_3D.

Theorem C06_multi_is_model_2D : forall (X0 X1 X2 : M33 R) (Y0 Y1 Y2 : M22 R) (p : V2 R) (f : form),
  hom3 X0 -> hom3 X1 -> hom3 X2 -> isvector f 2 = true ->
  pose_mul kSE2 X0 z2 [X0; X1] [p] f 2 = inr [tr_SE2_m2_c0 Rops X0 X1 p; tr_SE2_m2_c1 Rops X0 X1 p] /\
  pose_mul kSE2 X0 z2 [X0; X1; X2] [p] f 2 =
    inr [tr_SE2_m3_c0 Rops X0 X1 X2 p; tr_SE2_m3_c1 Rops X0 X1 X2 p; tr_SE2_m3_c2 Rops X0 X1 X2 p] /\
  pose_mul kSO2 Y0 z2 [Y0; Y1] [p] f 2 = inr [tr_SO2_m2_c0 Rops Y0 Y1 p; tr_SO2_m2_c1 Rops Y0 Y1 p] /\
  pose_mul kSO2 Y0 z2 [Y0; Y1; Y2] [p] f 2 =
    inr [tr_SO2_m3_c0 Rops Y0 Y1 Y2 p; tr_SO2_m3_c1 Rops Y0 Y1 Y2 p; tr_SO2_m3_c2 Rops Y0 Y1 Y2 p].
Proof.
  intros X0 X1 X2 Y0 Y1 Y2 p f H0 H1 H2 Hf. unfold kSE2, kSO2, pose_mul, dispatch. simpl length. rewrite Hf.
  cbn [Nat.eqb Nat.ltb Nat.leb andb cols map seq fst snd nth].
  repeat split; list_eq ltac:(idtac); try (revert H0 H1 H2; gen_field); gen_ring.
Qed.
Print Assumptions C06_multi_is_model_2D.

Theorem C06_UQ_multi_columns : forall (q r : V4 R) (p : V3 R),
  tr_UQ_m2_c0 Rops q r p = kUQ q p /\ tr_UQ_m2_c1 Rops q r p = kUQ r p.
Proof. intros; unfold kUQ; split; gen_ring. Qed.
Print Assumptions C06_UQ_multi_columns.

(* ================================================================ the universally quantified statements *)
(* every N >= 1: column j of X * P is R p_j + t, i.e. X applied to column j alone (N separate calls) *)
Theorem C06_columnwise_SE3 : forall (X : M44 R) (pts : list (V3 R)), hom4 X -> (1 <= length pts)%nat ->
  exists l, pose_mul kSE3 X z3 [X] pts (FArr2 3 (length pts)) 3 = inr l /\ length l = length pts /\
    forall j, (j < length pts)%nat ->
      nth j l z3 = act3 X (nth j pts z3) /\
      pose_mul kSE3 X z3 [X] [nth j pts z3] (FArr2 3 1) 3 = inr [nth j l z3].
Proof.
  intros X pts H HN. destruct (pose_mul_columnwise kSE3 X z3 X pts 3 ltac:(lia) HN) as (l & E & Hl & Hc).
  exists l. split; [exact E|]. split; [exact Hl|]. intros j Hj. rewrite (Hc j Hj). split.
  - apply kSE3_point; exact H.
  - apply pose_mul_single_column. reflexivity.
Qed.
Print Assumptions C06_columnwise_SE3.

Theorem C06_columnwise_SO3 : forall (X : M33 R) (pts : list (V3 R)), (1 <= length pts)%nat ->
  exists l, pose_mul kSO3 X z3 [X] pts (FArr2 3 (length pts)) 3 = inr l /\ length l = length pts /\
    forall j, (j < length pts)%nat ->
      nth j l z3 = mv33 Rops X (nth j pts z3) /\
      pose_mul kSO3 X z3 [X] [nth j pts z3] (FArr2 3 1) 3 = inr [nth j l z3].
Proof.
  intros X pts HN. destruct (pose_mul_columnwise kSO3 X z3 X pts 3 ltac:(lia) HN) as (l & E & Hl & Hc).
  exists l. split; [exact E|]. split; [exact Hl|]. intros j Hj. rewrite (Hc j Hj). split.
  - apply kSO3_point.
  - apply pose_mul_single_column. reflexivity.
Qed.
Print Assumptions C06_columnwise_SO3.

Theorem C06_columnwise_SE2 : forall (X : M33 R) (pts : list (V2 R)), hom3 X -> (1 <= length pts)%nat ->
  exists l, pose_mul kSE2 X z2 [X] pts (FArr2 2 (length pts)) 2 = inr l /\ length l = length pts /\
    forall j, (j < length pts)%nat ->
      nth j l z2 = act2 X (nth j pts z2) /\
      pose_mul kSE2 X z2 [X] [nth j pts z2] (FArr2 2 1) 2 = inr [nth j l z2].
Proof.
  intros X pts H HN. destruct (pose_mul_columnwise kSE2 X z2 X pts 2 ltac:(lia) HN) as (l & E & Hl & Hc).
  exists l. split; [exact E|]. split; [exact Hl|]. intros j Hj. rewrite (Hc j Hj). split.
  - apply kSE2_point; exact H.
  - apply pose_mul_single_column. reflexivity.
Qed.
Print Assumptions C06_columnwise_SE2.

Theorem C06_columnwise_SO2 : forall (X : M22 R) (pts : list (V2 R)), (1 <= length pts)%nat ->
  exists l, pose_mul kSO2 X z2 [X] pts (FArr2 2 (length pts)) 2 = inr l /\ length l = length pts /\
    forall j, (j < length pts)%nat ->
      nth j l z2 = mv22 Rops X (nth j pts z2) /\
      pose_mul kSO2 X z2 [X] [nth j pts z2] (FArr2 2 1) 2 = inr [nth j l z2].
Proof.
  intros X pts HN. destruct (pose_mul_columnwise kSO2 X z2 X pts 2 ltac:(lia) HN) as (l & E & Hl & Hc).
  exists l. split; [exact E|]. split; [exact Hl|]. intros j Hj. rewrite (Hc j Hj). split.
  - apply kSO2_point.
  - apply pose_mul_single_column. reflexivity.
Qed.
Print Assumptions C06_columnwise_SO2.

(* every length >= 2: a multi-valued pose applied to one point (in any vector form) gives one column per pose value *)
Theorem C06_multi_valued_SE3 : forall (poses : list (M44 R)) (p : V3 R) (f : form) (dX : M44 R),
  (2 <= length poses)%nat -> isvector f 3 = true -> (forall X, In X poses -> hom4 X) ->
  exists l, pose_mul kSE3 dX z3 poses [p] f 3 = inr l /\ length l = length poses /\
    forall i, (i < length poses)%nat -> nth i l z3 = act3 (nth i poses dX) p.
Proof.
  intros poses p f dX HL Hf Hh. destruct (pose_mul_multi kSE3 dX z3 poses p 3 f HL Hf) as (l & E & Hl & Hc).
  exists l. split; [exact E|]. split; [exact Hl|]. intros i Hi. rewrite (Hc i Hi).
  apply kSE3_point. apply Hh. apply nth_In; exact Hi.
Qed.
Print Assumptions C06_multi_valued_SE3.

Theorem C06_multi_valued_SE2 : forall (poses : list (M33 R)) (p : V2 R) (f : form) (dX : M33 R),
  (2 <= length poses)%nat -> isvector f 2 = true -> (forall X, In X poses -> hom3 X) ->
  exists l, pose_mul kSE2 dX z2 poses [p] f 2 = inr l /\ length l = length poses /\
    forall i, (i < length poses)%nat -> nth i l z2 = act2 (nth i poses dX) p.
Proof.
  intros poses p f dX HL Hf Hh. destruct (pose_mul_multi kSE2 dX z2 poses p 2 f HL Hf) as (l & E & Hl & Hc).
  exists l. split; [exact E|]. split; [exact Hl|]. intros i Hi. rewrite (Hc i Hi).
  apply kSE2_point. apply Hh. apply nth_In; exact Hi.
Qed.
Print Assumptions C06_multi_valued_SE2.

Theorem C06_multi_valued_SO : forall (R3 : list (M33 R)) (R2 : list (M22 R)) (p : V3 R) (p2 : V2 R) (f g : form) d3 d2,
  (2 <= length R3)%nat -> (2 <= length R2)%nat -> isvector f 3 = true -> isvector g 2 = true ->
  (exists l, pose_mul kSO3 d3 z3 R3 [p] f 3 = inr l /\ length l = length R3 /\
     forall i, (i < length R3)%nat -> nth i l z3 = mv33 Rops (nth i R3 d3) p) /\
  (exists l, pose_mul kSO2 d2 z2 R2 [p2] g 2 = inr l /\ length l = length R2 /\
     forall i, (i < length R2)%nat -> nth i l z2 = mv22 Rops (nth i R2 d2) p2).
Proof.
  intros R3 R2 p p2 f g d3 d2 H3 H2 Hf Hg. split.
  - destruct (pose_mul_multi kSO3 d3 z3 R3 p 3 f H3 Hf) as (l & E & Hl & Hc).
    exists l. split; [exact E|]. split; [exact Hl|]. intros i Hi. rewrite (Hc i Hi). apply kSO3_point.
  - destruct (pose_mul_multi kSO2 d2 z2 R2 p2 2 g H2 Hg) as (l & E & Hl & Hc).
    exists l. split; [exact E|]. split; [exact Hl|]. intros i Hi. rewrite (Hc i Hi). apply kSO2_point.
Qed.
Print Assumptions C06_multi_valued_SO.

(* the way the point is written does not matter: list, tuple, 1-D array, row, column all take the same branch *)
Theorem C06_form_independent : forall (len dim : nat) (f g : form), (1 <= len)%nat ->
  isvector f dim = true -> isvector g dim = true -> dispatch len dim f = dispatch len dim g.
Proof. exact dispatch_form_independent. Qed.
Print Assumptions C06_form_independent.

Example C06_vector_forms : forall d, isvector (FList d) d = true /\ isvector (FTuple d) d = true /\
  isvector (FArr1 d) d = true /\ isvector (FArr2 1 d) d = true /\ isvector (FArr2 d 1) d = true.
Proof. intros d. simpl. rewrite !Nat.eqb_refl. simpl. rewrite Bool.orb_true_r. repeat split; reflexivity. Qed.

(* N = dim is not special: a d x d array of points is not mistaken for a vector or for a pose matrix *)
Example C06_N_equals_dim : dispatch 1 3 (FArr2 3 3) = inr {| shape := [3; 3]; cols := [(0, 0); (0, 1); (0, 2)] |}%nat /\
  dispatch 1 2 (FArr2 2 2) = inr {| shape := [2; 2]; cols := [(0, 0); (0, 1)] |}%nat.
Proof. split; reflexivity. Qed.

(* wrong sizes are rejected *)
Theorem C06_wrong_length_rejected : forall (len dim n : nat), (1 <= len)%nat -> n <> dim ->
  dispatch len dim (FList n) = inl ValueError /\ dispatch len dim (FTuple n) = inl ValueError /\
  dispatch len dim (FArr1 n) = inl ValueError.
Proof. exact dispatch_wrong_length. Qed.
Print Assumptions C06_wrong_length_rejected.

(* ================================================================ result shapes of the model, for every operand form
   one pose x any vector form -> the d x 1 column; one pose x d x N -> d x N; a pose with M >= 2 values x any vector form
   -> d x M; a pose with M >= 2 values x d x M -> d x M.  (The property states the columnwise / one-column-per-value
   shapes; the d x 1 column for a single vector is what the code does and what the repository's tests expect.) *)
Theorem C06_result_shapes : forall (dim len N : nat) (f : form), (2 <= dim)%nat -> (1 <= N)%nat -> (2 <= len)%nat ->
  isvector f dim = true ->
  (exists r, dispatch 1 dim f = inr r /\ shape r = [dim; 1%nat] /\ cols r = [(0, 0)]%nat) /\
  (exists r, dispatch 1 dim (FArr2 dim N) = inr r /\ shape r = [dim; N] /\ length (cols r) = N) /\
  (exists r, dispatch len dim f = inr r /\ shape r = [dim; len] /\ length (cols r) = len) /\
  (exists r, dispatch len dim (FArr2 dim len) = inr r /\ shape r = [dim; len] /\ length (cols r) = len).
Proof.
  intros dim len N f Hd HN Hl Hf. repeat split.
  - unfold dispatch. rewrite Hf. simpl. eexists. repeat split.
  - rewrite (dispatch_single_array dim N Hd HN). eexists. repeat split. simpl. rewrite map_length, seq_length. reflexivity.
  - unfold dispatch. rewrite Hf.
    replace (len =? 1)%nat with false by (symmetry; apply Nat.eqb_neq; lia).
    replace (1 <? len)%nat with true by (symmetry; apply Nat.ltb_lt; lia). simpl.
    eexists. repeat split. simpl. rewrite map_length, seq_length. reflexivity.
  - rewrite (dispatch_multi_array len dim len Hd Hl Hl), Nat.eqb_refl.
    eexists. repeat split. simpl. rewrite map_length, seq_length. reflexivity.
Qed.
Print Assumptions C06_result_shapes.

(* ================================================================ multi-valued pose x d x N array (N >= 2)
   (since fix 86fcbcb; before it the N = len branch raised AttributeError)
   pose i is applied to column i when N = len(pose); every other N is rejected with the documented ValueError *)
Theorem C06_multi_array : forall len dim N : nat, (2 <= dim)%nat -> (2 <= len)%nat -> (2 <= N)%nat ->
  dispatch len dim (FArr2 dim N) =
    if (len =? N)%nat then inr {| shape := [dim; len]; cols := map (fun i => (i, i)) (seq 0 len) |} else inl ValueError.
Proof. exact dispatch_multi_array. Qed.
Print Assumptions C06_multi_array.

(* tie: the traced two-valued pose x (d x 2) array is the model with the traced one-point kernel *)
Theorem C06_multi_array_is_model : forall (X0 X1 : M44 R) (Y0 Y1 : M33 R) (Z0 Z1 : M33 R) (W0 W1 : M22 R) (p0 p1 : V3 R) (u0 u1 : V2 R),
  hom4 X0 -> hom4 X1 -> hom3 Z0 -> hom3 Z1 ->
  pose_mul kSE3 X0 z3 [X0; X1] [p0; p1] (FArr2 3 2) 3 = inr [tr_SE3_ma2_c0 Rops X0 X1 p0 p1; tr_SE3_ma2_c1 Rops X0 X1 p0 p1] /\
  pose_mul kSO3 Y0 z3 [Y0; Y1] [p0; p1] (FArr2 3 2) 3 = inr [tr_SO3_ma2_c0 Rops Y0 Y1 p0 p1; tr_SO3_ma2_c1 Rops Y0 Y1 p0 p1] /\
  pose_mul kSE2 Z0 z2 [Z0; Z1] [u0; u1] (FArr2 2 2) 2 = inr [tr_SE2_ma2_c0 Rops Z0 Z1 u0 u1; tr_SE2_ma2_c1 Rops Z0 Z1 u0 u1] /\
  pose_mul kSO2 W0 z2 [W0; W1] [u0; u1] (FArr2 2 2) 2 = inr [tr_SO2_ma2_c0 Rops W0 W1 u0 u1; tr_SO2_ma2_c1 Rops W0 W1 u0 u1].
Proof.
  intros X0 X1 Y0 Y1 Z0 Z1 W0 W1 p0 p1 u0 u1 H0 H1 H2 H3. unfold kSE3, kSO3, kSE2, kSO2, pose_mul. simpl length.
  vm_compute dispatch. cbn [cols map seq fst snd nth].
  repeat split; list_eq ltac:(idtac); try (revert H0 H1 H2 H3; gen_field); gen_ring.
Qed.
Print Assumptions C06_multi_array_is_model.

(* every length >= 2: column i of X * P is X[i] applied to column i, = R_i p_i + t_i *)
Theorem C06_multi_array_SE3 : forall (poses : list (M44 R)) (pts : list (V3 R)) (dX : M44 R),
  (2 <= length poses)%nat -> length pts = length poses -> (forall X, In X poses -> hom4 X) ->
  exists l, pose_mul kSE3 dX z3 poses pts (FArr2 3 (length pts)) 3 = inr l /\ length l = length poses /\
    forall i, (i < length poses)%nat -> nth i l z3 = act3 (nth i poses dX) (nth i pts z3).
Proof.
  intros poses pts dX HL HE Hh. destruct (pose_mul_elementwise kSE3 dX z3 poses pts 3 ltac:(lia) HL HE) as (l & E & Hl & Hc).
  exists l. split; [exact E|]. split; [exact Hl|]. intros i Hi. rewrite (Hc i Hi).
  apply kSE3_point. apply Hh. apply nth_In; exact Hi.
Qed.
Print Assumptions C06_multi_array_SE3.

Theorem C06_multi_array_SE2 : forall (poses : list (M33 R)) (pts : list (V2 R)) (dX : M33 R),
  (2 <= length poses)%nat -> length pts = length poses -> (forall X, In X poses -> hom3 X) ->
  exists l, pose_mul kSE2 dX z2 poses pts (FArr2 2 (length pts)) 2 = inr l /\ length l = length poses /\
    forall i, (i < length poses)%nat -> nth i l z2 = act2 (nth i poses dX) (nth i pts z2).
Proof.
  intros poses pts dX HL HE Hh. destruct (pose_mul_elementwise kSE2 dX z2 poses pts 2 ltac:(lia) HL HE) as (l & E & Hl & Hc).
  exists l. split; [exact E|]. split; [exact Hl|]. intros i Hi. rewrite (Hc i Hi).
  apply kSE2_point. apply Hh. apply nth_In; exact Hi.
Qed.
Print Assumptions C06_multi_array_SE2.

Theorem C06_multi_array_SO : forall (R3 : list (M33 R)) (R2 : list (M22 R)) (P3 : list (V3 R)) (P2 : list (V2 R)) d3 d2,
  (2 <= length R3)%nat -> (2 <= length R2)%nat -> length P3 = length R3 -> length P2 = length R2 ->
  (exists l, pose_mul kSO3 d3 z3 R3 P3 (FArr2 3 (length P3)) 3 = inr l /\ length l = length R3 /\
     forall i, (i < length R3)%nat -> nth i l z3 = mv33 Rops (nth i R3 d3) (nth i P3 z3)) /\
  (exists l, pose_mul kSO2 d2 z2 R2 P2 (FArr2 2 (length P2)) 2 = inr l /\ length l = length R2 /\
     forall i, (i < length R2)%nat -> nth i l z2 = mv22 Rops (nth i R2 d2) (nth i P2 z2)).
Proof.
  intros R3 R2 P3 P2 d3 d2 H3 H2 E3 E2. split.
  - destruct (pose_mul_elementwise kSO3 d3 z3 R3 P3 3 ltac:(lia) H3 E3) as (l & E & Hl & Hc).
    exists l. split; [exact E|]. split; [exact Hl|]. intros i Hi. rewrite (Hc i Hi). apply kSO3_point.
  - destruct (pose_mul_elementwise kSO2 d2 z2 R2 P2 2 ltac:(lia) H2 E2) as (l & E & Hl & Hc).
    exists l. split; [exact E|]. split; [exact Hl|]. intros i Hi. rewrite (Hc i Hi). apply kSO2_point.
Qed.
Print Assumptions C06_multi_array_SO.

(* non-vacuity *)
Example C06_dispatch_nonvacuous : hom4 ((1, 0, 0, 2), (0, 1, 0, 3), (0, 0, 1, 4), (0, 0, 0, 1)) /\
  pose_mul (fun (X : nat) (p : nat) => (X + p)%nat) 0%nat 0%nat [10; 20; 30]%nat [7%nat] (FTuple 3) 3 = inr [17; 27; 37]%nat /\
  pose_mul (fun (X : nat) (p : nat) => (X + p)%nat) 0%nat 0%nat [10%nat] [1; 2; 3; 4; 5]%nat (FArr2 3 5) 3 = inr [11; 12; 13; 14; 15]%nat /\
  pose_mul (fun (X : nat) (p : nat) => (X + p)%nat) 0%nat 0%nat [10; 20; 30; 40]%nat [1; 2; 3; 4]%nat (FArr2 3 4) 3 = inr [11; 22; 33; 44]%nat /\
  dispatch 4 3 (FArr2 3 5) = inl ValueError.
Proof. repeat split. Qed.
