(* C13 -- base.adjoint on a 3x3 rotation, AS THE CODE IS when the call raises (props/C13.py proves this file when the
   regenerated tr_adjoint3 is `PyRaises _`, and C13_adjoint3_full.v when it is `PyOk trace`). *)
From Coq Require Import Reals ZArith Lra.
From SM Require Import Base.Ops Base.Lin Base.RInst Base.RLin.
From SMgen Require Import Traces_C13.
Open Scope R_scope.
Definition Rz90 : M33 R := ((0,-1,0),(1,0,0),(0,0,1)).
Lemma Rz90_SO3 : SO3 Rz90.  Proof. unfold Rz90, SO3. repeat split; ring. Qed.

(* ---- adjoint of a pure rotation.
   FULL STATEMENT (documented behaviour):  forall Rm, SO3 Rm -> tr_adjoint3 Rops Rm = PyOk (block66 Rm 0 0 Rm).
   The 3x3 branch of base.adjoint uses R before assigning it (UnboundLocalError, recorded under its base class NameError). *)
Theorem C13_adjoint3_refuted : exists Rm : M33 R, SO3 Rm /\
  tr_adjoint3 Rops Rm <> PyOk (block66 Rm (Z33 Rops) (Z33 Rops) Rm).
Proof. exists Rz90. split; [exact Rz90_SO3|]. unfold tr_adjoint3. discriminate. Qed.
Print Assumptions C13_adjoint3_refuted.

Theorem C13_adjoint3_partial : forall Rm : M33 R, tr_adjoint3 Rops Rm = PyRaises NameError.
Proof. reflexivity. Qed.
Print Assumptions C13_adjoint3_partial.

