(* C05 (part a: constructors) -- angle-set extraction is a right inverse of construction.
   Fixed statements.  The tr_* constructors are regenerated on every run by executing /repo's rpy2r / eul2r / rot2 /
   xyt2tr / angvec2r (and the class constructors) on symbols; c_* are the threshold factors re-read from the source AST;
   m_* are the hand models of Model/C05_Angles.v (tied to the implementation by the float correspondence run)
   instantiated with those factors.  The lemma library Model/C05_Proofs.v is parametric in the thresholds. *)
From Coq Require Import Reals ZArith Lra Lia Psatz.
From Interval Require Import Tactic.
From SM Require Import Base.Ops Base.Lin Base.RInst Base.RLin Model.C05_Trig Model.C05_Angles Model.C05_Proofs.
From SMgen Require Import Consts_C05 Traces_C05.
Open Scope R_scope.

Ltac gen_ring := intros; destruct_tuples; autounfold with smgen c05 smlin; sm_simpl; tuple_eq ltac:(ring).

(* ============================================================ documented axis orders (traces of the real code) *)
Theorem C05_rpy2r_zyx_order : forall r p y : R,
  tr_rpy2r_zyx Rops r p y = mmul33 Rops (Rz Rops y) (mmul33 Rops (Ry Rops p) (Rx Rops r)).
Proof. gen_ring. Qed.
Print Assumptions C05_rpy2r_zyx_order.

Theorem C05_rpy2r_xyz_order : forall r p y : R,
  tr_rpy2r_xyz Rops r p y = mmul33 Rops (Rx Rops y) (mmul33 Rops (Ry Rops p) (Rz Rops r)).
Proof. gen_ring. Qed.
Print Assumptions C05_rpy2r_xyz_order.

Theorem C05_rpy2r_yxz_order : forall r p y : R,
  tr_rpy2r_yxz Rops r p y = mmul33 Rops (Ry Rops y) (mmul33 Rops (Rx Rops p) (Rz Rops r)).
Proof. gen_ring. Qed.
Print Assumptions C05_rpy2r_yxz_order.

Theorem C05_eul2r_order : forall f t s : R,
  tr_eul2r Rops f t s = mmul33 Rops (Rz Rops f) (mmul33 Rops (Ry Rops t) (Rz Rops s)).
Proof. gen_ring. Qed.
Print Assumptions C05_eul2r_order.

(* aliases, default order, vector call form, homogeneous form, class constructors: all the same function *)
Theorem C05_rpy2r_aliases : forall r p y : R,
  tr_rpy2r_vehicle Rops r p y = tr_rpy2r_zyx Rops r p y /\ tr_rpy2r_arm Rops r p y = tr_rpy2r_xyz Rops r p y /\
  tr_rpy2r_camera Rops r p y = tr_rpy2r_yxz Rops r p y /\ tr_rpy2r_default Rops r p y = tr_rpy2r_zyx Rops r p y.
Proof. intros; repeat split; gen_ring. Qed.
Print Assumptions C05_rpy2r_aliases.

Theorem C05_rpy2r_call_forms : forall r p y : R,
  tr_rpy2r_v_zyx Rops (r,p,y) = tr_rpy2r_zyx Rops r p y /\ tr_rpy2r_v_xyz Rops (r,p,y) = tr_rpy2r_xyz Rops r p y /\
  tr_rpy2r_v_yxz Rops (r,p,y) = tr_rpy2r_yxz Rops r p y /\ tr_eul2r_v Rops (r,p,y) = tr_eul2r Rops r p y.
Proof. intros; repeat split; gen_ring. Qed.
Print Assumptions C05_rpy2r_call_forms.

Theorem C05_class_constructors : forall r p y : R,
  tr_SO3_RPY_zyx Rops (r,p,y) = tr_rpy2r_zyx Rops r p y /\ tr_SO3_RPY_xyz Rops (r,p,y) = tr_rpy2r_xyz Rops r p y /\
  tr_SO3_RPY_yxz Rops (r,p,y) = tr_rpy2r_yxz Rops r p y /\ tr_SO3_Eul Rops (r,p,y) = tr_eul2r Rops r p y /\
  tr_SE3_RPY_zyx Rops (r,p,y) = rt2tr3 Rops (tr_rpy2r_zyx Rops r p y) (0,0,0) /\
  tr_SE3_RPY_xyz Rops (r,p,y) = rt2tr3 Rops (tr_rpy2r_xyz Rops r p y) (0,0,0) /\
  tr_SE3_RPY_yxz Rops (r,p,y) = rt2tr3 Rops (tr_rpy2r_yxz Rops r p y) (0,0,0) /\
  tr_SE3_Eul Rops (r,p,y) = rt2tr3 Rops (tr_eul2r Rops r p y) (0,0,0) /\
  tr_rpy2tr_zyx Rops r p y = rt2tr3 Rops (tr_rpy2r_zyx Rops r p y) (0,0,0) /\
  tr_rpy2tr_xyz Rops r p y = rt2tr3 Rops (tr_rpy2r_xyz Rops r p y) (0,0,0) /\
  tr_rpy2tr_yxz Rops r p y = rt2tr3 Rops (tr_rpy2r_yxz Rops r p y) (0,0,0) /\
  tr_eul2tr Rops r p y = rt2tr3 Rops (tr_eul2r Rops r p y) (0,0,0).
Proof. intros; repeat split; gen_ring. Qed.
Print Assumptions C05_class_constructors.

Theorem C05_planar_constructors : forall x y t : R,
  tr_rot2 Rops t = rot2_cs Rops (cos t) (sin t) /\ tr_xyt2tr Rops (x,y,t) = xyt2tr_ref Rops (x,y,t) /\
  tr_SE2_xyt Rops (x,y,t) = tr_xyt2tr Rops (x,y,t).
Proof. intros; repeat split; gen_ring. Qed.
Print Assumptions C05_planar_constructors.

(* the constructors land in the group *)
Theorem C05_constructors_in_SO3 : forall r p y : R,
  SO3 (tr_rpy2r_zyx Rops r p y) /\ SO3 (tr_rpy2r_xyz Rops r p y) /\ SO3 (tr_rpy2r_yxz Rops r p y) /\ SO3 (tr_eul2r Rops r p y).
Proof.
  intros. rewrite C05_rpy2r_zyx_order, C05_rpy2r_xyz_order, C05_rpy2r_yxz_order, C05_eul2r_order.
  unfold Rz, Ry, Rx. sm_simpl.
  split; [|split; [|split]]; repeat apply SO3_mul; first [apply SO3_rotx|apply SO3_roty|apply SO3_rotz]; apply cs_unit.
Qed.
Print Assumptions C05_constructors_in_SO3.

(* axis-angle: rotation by theta about the NORMALISED axis (Rodrigues), traced path |v| >= 10 eps *)
Definition rodrigues_ref (th : R) (u : V3 R) : M33 R :=
  madd33 Rops (I33 Rops) (madd33 Rops (mscale33 Rops (sin th) (skew3 Rops u))
                                      (mscale33 Rops (1 - cos th) (mmul33 Rops (skew3 Rops u) (skew3 Rops u)))).
Theorem C05_angvec2r_is_rodrigues : forall (th : R) (v : V3 R), 0 < normsq3 Rops v ->
  tr_angvec2r Rops th v = rodrigues_ref th (vscale3 Rops (/ norm3 Rops v) v).
Proof.
  intros th v H. destruct v as [[v0 v1] v2]. unfold rodrigues_ref. autounfold with smgen smlin in *. sm_simpl.
  set (n2 := v0*v0 + v1*v1 + v2*v2) in *.
  assert (Hs : 0 < sqrt n2) by (apply sqrt_lt_R0; exact H).
  assert (Hss : sqrt n2 * sqrt n2 = n2) by (apply sqrt_sqrt; lra).
  set (s := sqrt n2) in *. clearbody s. clearbody n2. subst n2.
  tuple_eq ltac:(idtac).
  all: field; lra.
Qed.
Print Assumptions C05_angvec2r_is_rodrigues.
Example C05_angvec2r_nonvacuous : 0 < normsq3 Rops (1, 2, 3).
Proof. autounfold with smlin. sm_simpl. lra. Qed.

(* ============================================================ degrees on the constructor side *)
(* the code multiplies by the double math.pi/180; deg2rad_f is that double, exactly *)
Definition deg2rad_f : R := 5030569068109113 / 288230376151711744.
Lemma C05_deg2rad_f_close : Rabs (deg2rad_f - PI/180) <= 1/10^18.
Proof. unfold deg2rad_f. interval with (i_prec 120). Qed.
Print Assumptions C05_deg2rad_f_close.

Theorem C05_constructors_deg : forall r p y : R,
  tr_rpy2r_deg_zyx Rops r p y = tr_rpy2r_zyx Rops (deg2rad_f*r) (deg2rad_f*p) (deg2rad_f*y) /\
  tr_rpy2r_deg_xyz Rops r p y = tr_rpy2r_xyz Rops (deg2rad_f*r) (deg2rad_f*p) (deg2rad_f*y) /\
  tr_rpy2r_deg_yxz Rops r p y = tr_rpy2r_yxz Rops (deg2rad_f*r) (deg2rad_f*p) (deg2rad_f*y) /\
  tr_eul2r_deg Rops r p y = tr_eul2r Rops (deg2rad_f*r) (deg2rad_f*p) (deg2rad_f*y) /\
  tr_rot2_deg Rops r = tr_rot2 Rops (deg2rad_f*r) /\
  tr_xyt2tr_deg Rops (r,p,y) = tr_xyt2tr Rops (r,p,deg2rad_f*y).
Proof. intros. unfold deg2rad_f. repeat split; gen_ring. Qed.
Print Assumptions C05_constructors_deg.

