(* C19 (b) -- Pluecker lines: transforming a line by a rigid motion (SE3 * Plucker, the 6x6 line-transformation matrix)
   gives the line through the transformed points.  tr_* regenerated from /repo on every run. *)
From Coq Require Import Reals ZArith Lra Lia Nsatz Psatz.
From SM Require Import Base.Ops Base.Lin Base.RInst Base.RLin.
From SMgen Require Import Traces_C19.
Open Scope R_scope.

Definition lv (L : V6 R) : V3 R := let '(a,b,c,_,_,_) := L in (a,b,c).
Definition lw (L : V6 R) : V3 R := let '(_,_,_,d,e,f) := L in (d,e,f).
Definition mk6 (v w : V3 R) : V6 R := let '(a,b,c) := v in let '(d,e,f) := w in (a,b,c,d,e,f).
Definition is_line (L : V6 R) : Prop := dot3 Rops (lv L) (lw L) = 0.

Ltac unf := unfold is_line in *; autounfold with smgen smlin in *; unfold lv, lw, mk6 in *; sm_simpl.
Ltac gen_ring := intros; destruct_tuples; unf; tuple_eq ltac:(ring).

Ltac sq_nonneg :=
  lazymatch goal with
  | |- 0 <= ?a + ?b => apply Rplus_le_le_0_compat; sq_nonneg
  | |- 0 <= ?x * ?x => apply Rle_0_sqr
  | |- _ => nra
  end.
(* abstract every sqrt: s with s*s = e, 0 <= s *)
Ltac abs_sqrt :=
  repeat match goal with
  | |- context [sqrt ?e] =>
      let s := fresh "s" in let H1 := fresh "Hss" in let H2 := fresh "Hs0" in let Hq := fresh "Hq" in
      assert (H1 : sqrt e * sqrt e = e) by (apply sqrt_sqrt; sq_nonneg);
      pose proof (sqrt_pos e) as H2;
      remember (sqrt e) as s eqn:Hq; clear Hq
  | H : context [sqrt ?e] |- _ =>
      let s := fresh "s" in let H1 := fresh "Hss" in let H2 := fresh "Hs0" in let Hq := fresh "Hq" in
      assert (H1 : sqrt e * sqrt e = e) by (apply sqrt_sqrt; sq_nonneg);
      pose proof (sqrt_pos e) as H2;
      remember (sqrt e) as s eqn:Hq; clear Hq
  end.
Ltac nz := assumption || lra || nra.
(* abstract every reciprocal 1/d: i with i*d = 1 *)
Ltac abs_inv :=
  repeat match goal with
  | |- context [1 / ?d] =>
      let i := fresh "i" in let Hi := fresh "Hi" in let Hq := fresh "Hq" in
      assert (Hi : (1 / d) * d = 1) by (field; nz);
      remember (1 / d) as i eqn:Hq; clear Hq
  | H : context [1 / ?d] |- _ =>
      let i := fresh "i" in let Hi := fresh "Hi" in let Hq := fresh "Hq" in
      assert (Hi : (1 / d) * d = 1) by (field; nz);
      remember (1 / d) as i eqn:Hq; clear Hq
  end.
Ltac nsz := repeat match goal with H : _ <= _ |- _ => clear H | H : _ < _ |- _ => clear H | H : _ <> _ |- _ => clear H end; nsatz.
(* a rigid motion acting on a point *)
Definition hp (X : M44 R) (x : V3 R) : V3 R := vadd3 Rops (mv33 Rops (t2r3 X) x) (transl3 X).

(* transforming a line = the line through the transformed points *)
Theorem C19_SE3_PQ : forall (X : M44 R) (P Q : V3 R), SE3 X ->
  tr_SE3mul Rops X (tr_PQ Rops P Q) = tr_PQ Rops (hp X P) (hp X Q).
Proof.
  intros X P Q [HR HT]. destruct_tuples. unfold hp in *. unf. so3_facts HR. injection HT; intros; subst.
  tuple_eq ltac:(nsz).
Qed.
Print Assumptions C19_SE3_PQ.

Theorem C19_SE3_PointDir : forall (X : M44 R) (p d : V3 R), SE3 X ->
  tr_SE3mul Rops X (tr_PointDir Rops p d) = tr_PointDir Rops (hp X p) (mv33 Rops (t2r3 X) d).
Proof.
  intros X p d [HR HT]. destruct_tuples. unfold hp in *. unf. so3_facts HR. injection HT; intros; subst.
  tuple_eq ltac:(nsz).
Qed.
Print Assumptions C19_SE3_PointDir.

(* for ANY 6-vector (v,w): the direction is rotated and v.w is invariant, so the Pluecker constraint is preserved *)
Lemma se3_dot_invariant : forall (X : M44 R) (L : V6 R), SE3 X ->
  dot3 Rops (lv (tr_SE3mul Rops X L)) (lw (tr_SE3mul Rops X L)) = dot3 Rops (lv L) (lw L).
Proof.
  intros X L [HR HT]. destruct_tuples. unf.
  pose proof (SO3_columns _ _ _ _ _ _ _ _ _ HR) as K. decompose [and] K; clear K HR.
  injection HT; intros; subst. nsz.
Qed.
Print Assumptions se3_dot_invariant.

Theorem C19_SE3_constraint : forall (X : M44 R) (L : V6 R), SE3 X ->
  lw (tr_SE3mul Rops X L) = mv33 Rops (t2r3 X) (lw L) /\
  dot3 Rops (lv (tr_SE3mul Rops X L)) (lw (tr_SE3mul Rops X L)) = dot3 Rops (lv L) (lw L) /\
  (is_line L -> is_line (tr_SE3mul Rops X L)).
Proof.
  intros X L HX. pose proof (se3_dot_invariant X L HX) as E. split; [|split].
  - destruct HX as [HR HT]. destruct_tuples. unf. injection HT; intros; subst. tuple_eq ltac:(ring).
  - exact E.
  - unfold is_line. intros HL. rewrite E. exact HL.
Qed.
Print Assumptions C19_SE3_constraint.

(* points on a line go to points on the transformed line *)
Theorem C19_SE3_incidence : forall (X : M44 R) (L : V6 R) (x : V3 R), SE3 X ->
  cross3 Rops (lw L) x = lv L -> cross3 Rops (lw (tr_SE3mul Rops X L)) (hp X x) = lv (tr_SE3mul Rops X L).
Proof.
  intros X L x HX Hx.
  assert (EL : L = tr_PointDir Rops x (lw L)).
  { destruct_tuples. unf. injection Hx; intros; subst. tuple_eq ltac:(ring). }
  rewrite EL, (C19_SE3_PointDir X x (lw L) HX).
  generalize (hp X x) (mv33 Rops (t2r3 X) (lw L)). intros p d. destruct_tuples. unf. tuple_eq ltac:(ring).
Qed.
Print Assumptions C19_SE3_incidence.

Example C19_b_nonvacuous : SE3 ((0,-1,0,1),(1,0,0,2),(0,0,1,3),(0,0,0,1)) /\
  hp ((0,-1,0,1),(1,0,0,2),(0,0,1,3),(0,0,0,1)) (1,0,0) = (1,3,3).
Proof. unfold SE3, SO3, hp. unf. repeat split; try ring; tuple_eq ltac:(ring). Qed.
