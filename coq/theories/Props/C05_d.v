(* C05 (part d: UnitQuaternion constructors) -- the constructor side of the right-inverse law for the quaternion class.
   tr_UQ_RPY_arg_<order|alias> / tr_UQ_Eul_arg: the real UnitQuaternion.RPY / .Eul executed on symbols with base.r2q
   replaced by a recorder -- the trace is the ONE matrix the constructor hands to r2q, per order, alias, default and unit.
   r2q is the model Model/C04_R2q.v (r2q_100), for which q2r (r2q A) = A is proved for every rotation in
   Model/C04_R2qProofs.v; it is tied to base.r2q by the float correspondence of this check (m_r2q) on every run.
   tr_UQ_Rx/Ry/Rz(_deg), tr_UQ_AngVec: the quaternion the constructor returns, traced directly. *)
From Coq Require Import Reals ZArith Lra Lia Psatz Nsatz.
From SM Require Import Base.Ops Base.Lin Base.RInst Base.RLin Model.C05_Trig Model.C05_Angles Model.C05_Angvec
  Model.C04_R2q Model.C04_R2qProofs.
From SMgen Require Import Consts_C05 Traces_C05.
Open Scope R_scope.

Ltac gen_ring := intros; destruct_tuples; autounfold with smgen c05 smlin; sm_simpl; tuple_eq ltac:(ring).
Definition deg2rad_f : R := 5030569068109113 / 288230376151711744.   (* the double math.pi/180 *)

(* ---- the matrix handed to r2q is the documented ordered product, for EVERY order, alias, the default, and degrees *)
Theorem C05_UQ_RPY_argument_orders : forall r p y : R,
  tr_UQ_RPY_arg_zyx Rops r p y = mmul33 Rops (Rz Rops y) (mmul33 Rops (Ry Rops p) (Rx Rops r)) /\
  tr_UQ_RPY_arg_vehicle Rops r p y = mmul33 Rops (Rz Rops y) (mmul33 Rops (Ry Rops p) (Rx Rops r)) /\
  tr_UQ_RPY_arg_default Rops r p y = mmul33 Rops (Rz Rops y) (mmul33 Rops (Ry Rops p) (Rx Rops r)) /\
  tr_UQ_RPY_arg_xyz Rops r p y = mmul33 Rops (Rx Rops y) (mmul33 Rops (Ry Rops p) (Rz Rops r)) /\
  tr_UQ_RPY_arg_arm Rops r p y = mmul33 Rops (Rx Rops y) (mmul33 Rops (Ry Rops p) (Rz Rops r)) /\
  tr_UQ_RPY_arg_yxz Rops r p y = mmul33 Rops (Ry Rops y) (mmul33 Rops (Rx Rops p) (Rz Rops r)) /\
  tr_UQ_RPY_arg_camera Rops r p y = mmul33 Rops (Ry Rops y) (mmul33 Rops (Rx Rops p) (Rz Rops r)) /\
  tr_UQ_Eul_arg Rops r p y = mmul33 Rops (Rz Rops r) (mmul33 Rops (Ry Rops p) (Rz Rops y)).
Proof. intros. repeat split; gen_ring. Qed.
Print Assumptions C05_UQ_RPY_argument_orders.

Theorem C05_UQ_RPY_argument_deg : forall r p y : R,
  tr_UQ_RPY_arg_deg_zyx Rops r p y = tr_UQ_RPY_arg_zyx Rops (deg2rad_f*r) (deg2rad_f*p) (deg2rad_f*y) /\
  tr_UQ_RPY_arg_deg_xyz Rops r p y = tr_UQ_RPY_arg_xyz Rops (deg2rad_f*r) (deg2rad_f*p) (deg2rad_f*y) /\
  tr_UQ_RPY_arg_deg_yxz Rops r p y = tr_UQ_RPY_arg_yxz Rops (deg2rad_f*r) (deg2rad_f*p) (deg2rad_f*y) /\
  tr_UQ_Eul_arg_deg Rops r p y = tr_UQ_Eul_arg Rops (deg2rad_f*r) (deg2rad_f*p) (deg2rad_f*y).
Proof. intros. unfold deg2rad_f. repeat split; gen_ring. Qed.
Print Assumptions C05_UQ_RPY_argument_deg.

(* ---- hence the quaternion built is a unit quaternion with non-negative scalar part whose rotation matrix IS the
   documented product: q2r (UnitQuaternion.RPY(order)) = Rz Ry Rx / Rx Ry Rz / Ry Rx Rz, Eul = Rz Ry Rz *)
Lemma SO3_prod3 A B C : SO3 A -> SO3 B -> SO3 C -> SO3 (mmul33 Rops A (mmul33 Rops B C)).
Proof. intros. apply SO3_mul; [assumption|apply SO3_mul; assumption]. Qed.
Lemma SO3_Rz a : SO3 (Rz Rops a). Proof. unfold Rz. sm_simpl. apply SO3_rotz, cs_unit. Qed.
Lemma SO3_Ry a : SO3 (Ry Rops a). Proof. unfold Ry. sm_simpl. apply SO3_roty, cs_unit. Qed.
Lemma SO3_Rx a : SO3 (Rx Rops a). Proof. unfold Rx. sm_simpl. apply SO3_rotx, cs_unit. Qed.

Definition good_quat (q : V4 R) (A : M33 R) : Prop := q2r_ref Rops q = A /\ qnormsq Rops q = 1 /\ 0 <= fst (fst (fst q)).

Theorem C05_UQ_RPY_is_documented_product : forall r p y : R,
  good_quat (r2q_100 Rops (tr_UQ_RPY_arg_zyx Rops r p y)) (mmul33 Rops (Rz Rops y) (mmul33 Rops (Ry Rops p) (Rx Rops r))) /\
  good_quat (r2q_100 Rops (tr_UQ_RPY_arg_vehicle Rops r p y)) (mmul33 Rops (Rz Rops y) (mmul33 Rops (Ry Rops p) (Rx Rops r))) /\
  good_quat (r2q_100 Rops (tr_UQ_RPY_arg_default Rops r p y)) (mmul33 Rops (Rz Rops y) (mmul33 Rops (Ry Rops p) (Rx Rops r))) /\
  good_quat (r2q_100 Rops (tr_UQ_RPY_arg_xyz Rops r p y)) (mmul33 Rops (Rx Rops y) (mmul33 Rops (Ry Rops p) (Rz Rops r))) /\
  good_quat (r2q_100 Rops (tr_UQ_RPY_arg_arm Rops r p y)) (mmul33 Rops (Rx Rops y) (mmul33 Rops (Ry Rops p) (Rz Rops r))) /\
  good_quat (r2q_100 Rops (tr_UQ_RPY_arg_yxz Rops r p y)) (mmul33 Rops (Ry Rops y) (mmul33 Rops (Rx Rops p) (Rz Rops r))) /\
  good_quat (r2q_100 Rops (tr_UQ_RPY_arg_camera Rops r p y)) (mmul33 Rops (Ry Rops y) (mmul33 Rops (Rx Rops p) (Rz Rops r))) /\
  good_quat (r2q_100 Rops (tr_UQ_Eul_arg Rops r p y)) (mmul33 Rops (Rz Rops r) (mmul33 Rops (Ry Rops p) (Rz Rops y))).
Proof.
  intros. destruct (C05_UQ_RPY_argument_orders r p y) as (E1 & E2 & E3 & E4 & E5 & E6 & E7 & E8).
  rewrite E1, E2, E3, E4, E5, E6, E7, E8. unfold good_quat.
  repeat split; apply r2q_roundtrip; apply SO3_prod3; first [apply SO3_Rz | apply SO3_Ry | apply SO3_Rx].
Qed.
Print Assumptions C05_UQ_RPY_is_documented_product.

(* ---- elementary rotations: half-angle quaternion, normalised by the constructor *)
Lemma half_angle_x c s : c*c + s*s = 1 ->
  q2r_ref Rops (1 / sqrt (c*c + s*s) * c, 1 / sqrt (c*c + s*s) * s, 0, 0) = rotx_cs Rops (c*c - s*s) (2*s*c).
Proof. intros H. rewrite H, sqrt_1. lin_simpl. replace (1/1) with 1 by field. tuple_eq ltac:(nsatz). Qed.
Lemma half_angle_y c s : c*c + s*s = 1 ->
  q2r_ref Rops (1 / sqrt (c*c + s*s) * c, 0, 1 / sqrt (c*c + s*s) * s, 0) = roty_cs Rops (c*c - s*s) (2*s*c).
Proof. intros H. rewrite H, sqrt_1. lin_simpl. replace (1/1) with 1 by field. tuple_eq ltac:(nsatz). Qed.
Lemma half_angle_z c s : c*c + s*s = 1 ->
  q2r_ref Rops (1 / sqrt (c*c + s*s) * c, 0, 0, 1 / sqrt (c*c + s*s) * s) = rotz_cs Rops (c*c - s*s) (2*s*c).
Proof. intros H. rewrite H, sqrt_1. lin_simpl. replace (1/1) with 1 by field. tuple_eq ltac:(nsatz). Qed.

Lemma cs_double h : cos (2*h) = cos h * cos h - sin h * sin h /\ sin (2*h) = 2 * sin h * cos h.
Proof. split; [rewrite cos_2a; ring | rewrite sin_2a; ring]. Qed.

Ltac elem_rot lem k a :=
  autounfold with smgen; sm_simpl;
  set (h := k * a);
  replace a with (2 * h) at 2 3 by (unfold h; field) || idtac.

Theorem C05_UQ_elementary : forall a : R,
  q2r_ref Rops (tr_UQ_Rx Rops a) = rotx_cs Rops (cos a) (sin a) /\
  q2r_ref Rops (tr_UQ_Ry Rops a) = roty_cs Rops (cos a) (sin a) /\
  q2r_ref Rops (tr_UQ_Rz Rops a) = rotz_cs Rops (cos a) (sin a).
Proof.
  intros a. set (h := 1/2 * a). assert (Ea : a = 2*h) by (unfold h; field).
  destruct (cs_double h) as [C S]. rewrite Ea at 2 3 5 6 8 9. rewrite C, S.
  autounfold with smgen. sm_simpl. fold h.
  repeat split; [apply half_angle_x | apply half_angle_y | apply half_angle_z]; apply cs_unit.
Qed.
Print Assumptions C05_UQ_elementary.

Theorem C05_UQ_elementary_deg : forall a : R,
  q2r_ref Rops (tr_UQ_Rx_deg Rops a) = rotx_cs Rops (cos (deg2rad_f*a)) (sin (deg2rad_f*a)) /\
  q2r_ref Rops (tr_UQ_Ry_deg Rops a) = roty_cs Rops (cos (deg2rad_f*a)) (sin (deg2rad_f*a)) /\
  q2r_ref Rops (tr_UQ_Rz_deg Rops a) = rotz_cs Rops (cos (deg2rad_f*a)) (sin (deg2rad_f*a)).
Proof.
  intros a. set (h := 5030569068109113 / 576460752303423488 * a). assert (Ea : deg2rad_f*a = 2*h) by (unfold h, deg2rad_f; field).
  destruct (cs_double h) as [C S]. rewrite Ea, C, S.
  autounfold with smgen. sm_simpl. fold h.
  repeat split; [apply half_angle_x | apply half_angle_y | apply half_angle_z]; apply cs_unit.
Qed.
Print Assumptions C05_UQ_elementary_deg.

(* ---- axis-angle constructor: rotation by theta about the NORMALISED axis *)
Theorem C05_UQ_AngVec_is_rodrigues : forall (th : R) (v : V3 R), 0 < normsq3 Rops v ->
  q2r_ref Rops (tr_UQ_AngVec Rops th v) = rodrigues_ref th (vscale3 Rops (/ norm3 Rops v) v) /\
  qnormsq Rops (tr_UQ_AngVec Rops th v) = 1.
Proof.
  intros th v H. destruct v as [[v0 v1] v2]. unfold rodrigues_ref. autounfold with smgen smlin in *. sm_simpl.
  set (n2 := v0*v0 + v1*v1 + v2*v2) in *.
  assert (Hs : 0 < sqrt n2) by (apply sqrt_lt_R0; exact H).
  assert (Hss : sqrt n2 * sqrt n2 = n2) by (apply sqrt_sqrt; lra).
  set (s := sqrt n2) in *. clearbody s. unfold n2 in *. clear n2.
  set (h := 1/2 * th).
  assert (Cth : cos th = cos h * cos h - sin h * sin h) by (replace th with (2*h) by (unfold h; field); apply cs_double).
  assert (Sth : sin th = 2 * sin h * cos h) by (replace th with (2*h) by (unfold h; field); apply cs_double).
  rewrite Cth, Sth. clear Cth Sth. pose proof (cs_unit h) as U.
  set (c := cos h) in *. set (sn := sin h) in *. clearbody c sn.
  split.
  - tuple_eq ltac:(idtac).
    all: apply Rmult_eq_reg_r with (s*s); [|clear - Hs; nra]; field_simplify; [|lra..].
    all: clear H Hs; repeat match goal with |- context[?x ^ 2] => replace (x^2) with (x*x) by ring end; nsatz.
  - apply Rmult_eq_reg_r with (s*s); [|clear - Hs; nra]. field_simplify; [|lra]. clear H Hs. repeat match goal with |- context[?x ^ 2] => replace (x^2) with (x*x) by ring end. nsatz.
Qed.
Print Assumptions C05_UQ_AngVec_is_rodrigues.
Example C05_UQ_AngVec_nonvacuous : 0 < normsq3 Rops (0, 0, 2).
Proof. autounfold with smlin. sm_simpl. lra. Qed.
