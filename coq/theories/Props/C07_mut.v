(* C07 (part 3) -- values that arrive as OBJECTS: the list mutators of SMUserList (x[i] = v, append, insert, extend) and
   the constructor given an object.  Model: theories/Model/C07_Ctor.v (section "Objects as arguments"), hand-written,
   mirrors the code as it is; tied to /repo on every run by the exhaustive table of props/C07.py
   (receiver class x mutator x index x receiver length x operand class incl. sub/superclass pairs x operand length 0,1,2).
   Lists and finite enumerations only: every theorem is axiom-free.

   FULL statement (constructor): ctor_obj r x = Ok d -> all_member r d          -- proved, no guard (C07_ctor_obj_sound), since the
       fixes ac96bee (SO3(SE3 object) rejected) and 5c063cb (conversion keeps one element per value).
   FULL statement (mutators):   all_member r d -> mutate_impl r d m x = Ok d' -> all_member r d'
       -- proved, no guard (C07_mut_preserves), for x[i] = v, x[lo:hi] = v, append, insert, extend, since the fixes b1d6482
       (exactly one value required) and fcdd4db (slice index rejected).
   What the exact-type guard type(self) == type(x) buys is proved separately: every operand of another class -- subclass,
   superclass, unrelated, bare ndarray -- is rejected by every mutator, and weakening the guard to isinstance breaks the invariant. *)
From Coq Require Import List Bool Arith Lia.
Import ListNotations.
From SM Require Import Model.C07_Ctor.

Lemma all_member_app r a b : all_member r a -> all_member r b -> all_member r (a ++ b).
Proof. unfold all_member. intros. apply Forall_app; split; assumption. Qed.
Lemma all_member_firstn r n d : all_member r d -> all_member r (firstn n d).
Proof. unfold all_member. intros H. rewrite Forall_forall in *. intros x Hx. apply H. rewrite <- (firstn_skipn n d). apply in_or_app. left. exact Hx. Qed.
Lemma all_member_skipn r n d : all_member r d -> all_member r (skipn n d).
Proof. unfold all_member. intros H. rewrite Forall_forall in *. intros x Hx. apply H. rewrite <- (firstn_skipn n d). apply in_or_app. right. exact Hx. Qed.
Lemma all_member_repeat r c n : member r (V c) = true -> all_member r (repeat (V c) n).
Proof. unfold all_member. intros H. induction n; simpl; constructor; auto. Qed.
Lemma all_member_replace r d : forall n e, member r e = true -> all_member r d -> all_member r (replace_nth d n e).
Proof.
  unfold all_member. induction d as [|h t IH]; intros n e He H; simpl; [destruct n; constructor|].
  inversion H; subst. destruct n; constructor; auto.
Qed.
Lemma exact_member r o : exact r o = true -> member r (V o) = true.
Proof. intros H. unfold member. rewrite H. reflexivity. Qed.
Lemma exact_refl_iff r o : exact r o = true -> o = r.
Proof. destruct r, o; simpl; intros; try discriminate; reflexivity. Qed.

(* ------------------------------------------------------------------ the exact-type guard *)
(* every operand whose class is not exactly the receiver's is rejected by every mutator, whatever its length *)
Theorem C07_mut_foreign_rejected : forall r d m x, exact r (ocl x) = false -> mutate_impl r d m x = Err ValueError.
Proof. intros r d m x H. unfold mutate_impl, mutate. rewrite H. reflexivity. Qed.
Print Assumptions C07_mut_foreign_rejected.
Example C07_mut_foreign_rejected_nonvacuous :
  exact oSO3 oSE3 = false /\ exact oSO2 oSE2 = false /\ exact oSE3 oSO3 = false /\ exact oUQ oQ = false /\ exact oQ oUQ = false /\
  exact oTw3 oTw2 = false /\ exact oSO3 oArr = false /\ subclass_of oSE3 oSO3 = true /\ subclass_of oSE2 oSO2 = true.
Proof. repeat split. Qed.
(* with the guard weakened to isinstance the invariant breaks: an SO3 comes to hold an SE(3) matrix *)
Theorem C07_mut_isinstance_guard_refuted : exists r d m x d',
  all_member r d /\ mutate (fun r o => subclass_of o r) r d m x = Ok d' /\ ~ all_member r d'.
Proof.
  exists oSO3, [V oSO3; V oSO3; V oSO3], (SetInt 1), (Opd oSE3 1), [V oSO3; V oSE3; V oSO3]. repeat split.
  - repeat constructor.
  - intros H. inversion H as [|? ? _ H1]; subst. inversion H1; subst. discriminate.
Qed.
Print Assumptions C07_mut_isinstance_guard_refuted.

(* ------------------------------------------------------------------ mutators preserve membership: the FULL statement, no guard *)
Theorem C07_mut_preserves : forall r d m x d', all_member r d -> mutate_impl r d m x = Ok d' -> all_member r d'.
Proof.
  intros r d m x d' Hd H. unfold mutate_impl, mutate in H.
  destruct (exact r (ocl x)) eqn:Ex; cbn [negb] in H; [|discriminate].
  pose proof (exact_member _ _ Ex) as Hm.
  assert (HA : (olen x =? 1) = true -> member r (opd_A x) = true).
  { intros H1. unfold opd_A. rewrite H1. exact Hm. }
  destruct m.
  - destruct (olen x =? 1) eqn:E1; cbn [negb] in H; [|discriminate]. destruct (pos <? length d); [|discriminate].
    injection H as <-. apply all_member_replace; [apply HA; reflexivity | exact Hd].
  - destruct (olen x =? 1); discriminate.
  - destruct (olen x =? 1) eqn:E1; cbn [negb] in H; [|discriminate]. injection H as <-.
    apply all_member_app; [exact Hd|]. constructor; [apply HA; reflexivity | constructor].
  - destruct (olen x =? 1) eqn:E1; cbn [negb] in H; [|discriminate]. injection H as <-.
    apply all_member_app; [apply all_member_firstn; exact Hd|]. constructor; [apply HA; reflexivity | apply all_member_skipn; exact Hd].
  - injection H as <-. apply all_member_app; auto. apply all_member_repeat; auto.
Qed.
Print Assumptions C07_mut_preserves.
Example C07_mut_preserves_nonvacuous :
  (exists d', mutate_impl oSE3 [V oSE3] Append (Opd oSE3 1) = Ok d') /\
  (exists d', mutate_impl oUQ [V oUQ] Extend (Opd oUQ 2) = Ok d') /\
  (exists d', mutate_impl oTw3 [V oTw3; V oTw3] (SetInt 1) (Opd oTw3 1) = Ok d').
Proof. repeat split; eexists; reflexivity. Qed.
(* assignment to a slice is always rejected, and leaves no trace (the former witness of the refutation) *)
Theorem C07_mut_slice_rejected : forall r d lo hi x, mutate_impl r d (SetSlice lo hi) x = Err ValueError.
Proof.
  intros. unfold mutate_impl, mutate. destruct (negb (exact r (ocl x))); [reflexivity|]. destruct (negb (olen x =? 1)); reflexivity.
Qed.
Print Assumptions C07_mut_slice_rejected.
(* extend is sound at full strength, for operands of any length *)
Theorem C07_mut_extend_preserves : forall r d x d', all_member r d -> mutate_impl r d Extend x = Ok d' -> all_member r d'.
Proof. intros r d x d' Hd H. apply (C07_mut_preserves r d Extend x d'); auto. Qed.
Print Assumptions C07_mut_extend_preserves.
(* operands that do not hold exactly one value -- empty or multi-valued -- are rejected by x[i] = v, x[lo:hi] = v, append, insert *)
Theorem C07_mut_not_single_rejected : forall r d m x, m <> Extend -> olen x <> 1 -> exists e, mutate_impl r d m x = Err e.
Proof.
  intros r d m x Hm Hl. unfold mutate_impl, mutate. destruct (negb (exact r (ocl x))); [eexists; reflexivity|].
  apply Nat.eqb_neq in Hl. rewrite Hl. destruct m; try (eexists; reflexivity). contradiction.
Qed.
Print Assumptions C07_mut_not_single_rejected.

(* ------------------------------------------------------------------ constructor given an object *)
(* FULL statement, no guard (before ac96bee / 5c063cb: SO3(SE3 object) held 4x4 matrices, Twist3(SE3 object of length <> 1) a list) *)
Theorem C07_ctor_obj_sound : forall r x d, ctor_obj r x = Ok d -> all_member r d.
Proof.
  intros r [o n] d H. unfold ctor_obj in H. cbn [ocl olen] in *.
  destruct (subclass_of o r && same_shape o r) eqn:Es.
  - injection H as <-. apply all_member_repeat. destruct r, o; cbn in *; try discriminate; reflexivity.
  - destruct (converts r o) eqn:Ec.
    + injection H as <-. apply all_member_repeat. destruct r, o; cbn in *; try discriminate; reflexivity.
    + destruct r; try discriminate. destruct o; try (destruct (n =? 0); discriminate); injection H as <-; apply all_member_repeat; reflexivity.
Qed.
Print Assumptions C07_ctor_obj_sound.
Example C07_ctor_obj_sound_nonvacuous :
  (exists d, ctor_obj oSE3 (Opd oSE3 2) = Ok d) /\ (exists d, ctor_obj oUQ (Opd oSO3 2) = Ok d) /\
  (exists d, ctor_obj oTw3 (Opd oSE3 2) = Ok d /\ length d = 2).
Proof. repeat split; eexists; try split; reflexivity. Qed.
(* the former witnesses are rejected / converted element by element *)
Theorem C07_ctor_obj_subclass_rejected : forall n, ctor_obj oSO3 (Opd oSE3 n) = Err ValueError /\ ctor_obj oSO2 (Opd oSE2 n) = Err ValueError.
Proof. intros n. split; reflexivity. Qed.
Print Assumptions C07_ctor_obj_subclass_rejected.
(* objects of unrelated classes, of a SUPERclass and of a SUBclass with another value shape are rejected by every constructor of the property's classes *)
Theorem C07_ctor_obj_rejects : forall r x, r <> oQ -> r <> oArr -> exact r (ocl x) = false -> converts r (ocl x) = false ->
  (r = oUQ -> ocl x <> oSO3 /\ ocl x <> oSE3) -> exists e, ctor_obj r x = Err e.
Proof.
  intros r [o n] Hq Ha Hs Hc Hu. unfold ctor_obj. cbn [ocl olen] in *.
  assert (E : subclass_of o r && same_shape o r = false).
  { destruct r, o; cbn in *; try reflexivity; try discriminate; contradiction. }
  rewrite E, Hc. destruct r; try (eexists; reflexivity); try contradiction.
  destruct (Hu eq_refl) as [H1 H2]. destruct o; try contradiction; destruct (n =? 0); eexists; reflexivity.
Qed.
Print Assumptions C07_ctor_obj_rejects.

(* ------------------------------------------------------------------ constructor given a list of objects of the receiver's class *)
Theorem C07_ctor_objs_sound : forall r l d, ctor_objs r l = Ok d -> all_member r d.
Proof.
  intros r l d H. unfold ctor_objs in H. destruct l as [|h t]; [injection H as <-; constructor|].
  set (L := h :: t) in *. clearbody L.
  destruct (negb (exact r (ocl h))); [discriminate|].
  destruct (forallb (fun x => exact r (ocl x)) L) eqn:E1; cbn [negb] in H; [|discriminate].
  destruct (forallb (fun x => olen x =? 1) L) eqn:E2; cbn [negb] in H; [|discriminate].
  injection H as <-. rewrite forallb_forall in E1, E2. apply Forall_forall. intros e He. apply in_map_iff in He.
  destruct He as [x [<- Hx]]. unfold opd_A. rewrite (E2 _ Hx). apply exact_member, E1, Hx.
Qed.
Print Assumptions C07_ctor_objs_sound.
(* an element that is empty or multi-valued, at any position, makes the constructor raise (fix 2eab8b7) *)
Theorem C07_ctor_objs_not_single_rejected : forall r l x, In x l -> olen x <> 1 -> exists e, ctor_objs r l = Err e.
Proof.
  intros r l x Hin Hl. unfold ctor_objs. destruct l as [|h t]; [contradiction|]. set (L := h :: t) in *. clearbody L.
  destruct (negb (exact r (ocl h))); [eexists; reflexivity|]. destruct (negb (forallb _ L)); [eexists; reflexivity|].
  assert (E : forallb (fun x => olen x =? 1) L = false).
  { destruct (forallb (fun x => olen x =? 1) L) eqn:E; auto. rewrite forallb_forall in E. specialize (E _ Hin). apply Nat.eqb_eq in E. contradiction. }
  rewrite E. eexists; reflexivity.
Qed.
Print Assumptions C07_ctor_objs_not_single_rejected.
Example C07_ctor_objs_nonvacuous :
  (exists d, ctor_objs oSE3 [Opd oSE3 1; Opd oSE3 1] = Ok d /\ length d = 2) /\ ctor_objs oSE3 [Opd oSE3 1; Opd oSE3 2] = Err ValueError /\
  ctor_objs oSO3 [Opd oSO3 1; Opd oSE3 1] = Err AssertionError.
Proof. repeat split. eexists; split; reflexivity. Qed.
