(* C07 (part 1) -- the membership / unit / zero / skew predicates.
   Model: theories/Model/C07_Pred.v (hand-written, mirrors the code as it is; tied to /repo on every run by the
   extracted-model-vs-implementation correspondence and by the AST skeleton pass).
   Tolerances: gen/Consts_C07.v, REGENERATED from the source AST on every run; every theorem below is stated at the
   regenerated constant, the side condition  0 < tol /\ tol*eps < 1e-6  is re-proved for it (lemmas *_tol_ok).

   "Distance from the group" is formalised as the defect functional each predicate bounds:
     orth_defect R = ||R R' - I||_F  (+ the sign of det R),  unit_defect v = | ||v|| - 1 |,  ||v||,  skew_defect S = ||S + S'||_F.
   For each predicate three statements: completeness (exact members accepted), rejection band (defect >= 1e-6 -> false),
   soundness (true -> defect < tol*eps [and det > 0]).  Since the fixes 8457767 (isR tests det R > 0) and f745aab (isunit is
   isunitvec) every predicate satisfies the full-strength statements; the former _refuted / _partial pairs are gone. *)
From Coq Require Import Reals ZArith Lra Lia Bool Psatz.
From SM Require Import Base.Ops Base.Lin Base.RInst Base.RLin Model.C07_Pred.
From SMgen Require Import Consts_C07.
Open Scope R_scope.

Definition band : R := 1 / 1000000.
Definition tol_ok (k : R) : Prop := 0 < k /\ k * eps Rops < band.

Ltac c07_simpl := autounfold with c07 smlin in *; sm_simpl.
Ltac tol_tac := unfold tol_ok, band; cbv [isR_tol isskew_tol isskewa_tol iseye_tol ishom_tol isrot_tol isunitvec_tol
  iszerovec_tol iszero_tol isunittwist_tol isunittwist2_tol isunit_tol]; sm_simpl; split; lra.

(* ---- the regenerated tolerances satisfy the side condition ---- *)
Lemma isR_tol_ok : tol_ok (isR_tol Rops).  Proof. tol_tac. Qed.
Lemma isrot_tol_ok : tol_ok (isrot_tol Rops).  Proof. tol_tac. Qed.
Lemma ishom_tol_ok : tol_ok (ishom_tol Rops).  Proof. tol_tac. Qed.
Lemma isskew_tol_ok : tol_ok (isskew_tol Rops).  Proof. tol_tac. Qed.
Lemma isskewa_tol_ok : tol_ok (isskewa_tol Rops).  Proof. tol_tac. Qed.
Lemma iseye_tol_ok : tol_ok (iseye_tol Rops).  Proof. tol_tac. Qed.
Lemma isunitvec_tol_ok : tol_ok (isunitvec_tol Rops).  Proof. tol_tac. Qed.
Lemma iszerovec_tol_ok : tol_ok (iszerovec_tol Rops).  Proof. tol_tac. Qed.
Lemma iszero_tol_ok : tol_ok (iszero_tol Rops).  Proof. tol_tac. Qed.
Lemma isunittwist_tol_ok : tol_ok (isunittwist_tol Rops).  Proof. tol_tac. Qed.
Lemma isunittwist2_tol_ok : tol_ok (isunittwist2_tol Rops).  Proof. tol_tac. Qed.
Lemma isunit_tol_ok : tol_ok (isunit_tol Rops).  Proof. tol_tac. Qed.

(* ---- small facts ---- *)
Lemma thr_pos k : tol_ok k -> 0 < thr Rops k.
Proof. intros [H _]. unfold thr. sm_simpl. apply Rmult_lt_0_compat; lra. Qed.
Lemma thr_band k : tol_ok k -> thr Rops k < band.
Proof. intros [_ H]. unfold thr. exact H. Qed.
Lemma ltb_R x y : ltb Rops x y = Rltb x y.  Proof. reflexivity. Qed.
Lemma eqb_R x y : eqb Rops x y = Reqb x y.  Proof. reflexivity. Qed.
Lemma Reqb_false x y : Reqb x y = false <-> x <> y.
Proof. unfold Reqb; destruct (Req_EM_T x y); split; intros; try discriminate; tauto. Qed.
Lemma row_eq4_refl a b c d : row_eq4 Rops (a,b,c,d) a b c d = true.
Proof. unfold row_eq4. rewrite !eqb_R. rewrite !(proj2 (Reqb_true _ _) eq_refl). reflexivity. Qed.
Lemma row_eq3_refl a b c : row_eq3 Rops (a,b,c) a b c = true.
Proof. unfold row_eq3. rewrite !eqb_R. rewrite !(proj2 (Reqb_true _ _) eq_refl). reflexivity. Qed.
Lemma below_thr k x : tol_ok k -> x = 0 -> Rltb x (thr Rops k) = true.
Proof. intros H ->. apply Rltb_true. apply thr_pos, H. Qed.
Lemma above_band k x : tol_ok k -> band <= x -> Rltb x (thr Rops k) = false.
Proof. intros H Hx. apply Rltb_false. pose proof (thr_band k H). lra. Qed.

Lemma orth_defect3_I : orth_defect3 Rops (I33 Rops) = 0 /\ forall R, mmul33 Rops R (mtr33 R) = I33 Rops -> orth_defect3 Rops R = 0.
Proof.
  assert (H : fro33 Rops (msub33 Rops (I33 Rops) (I33 Rops)) = 0).
  { c07_simpl. replace (_ + _ + _) with 0 by ring. apply sqrt_0. }
  split.
  - unfold orth_defect3. replace (mmul33 Rops (I33 Rops) (mtr33 (I33 Rops))) with (I33 Rops) by lin_ring. exact H.
  - intros R HR. unfold orth_defect3. rewrite HR. exact H.
Qed.
Lemma orth_defect2_I : forall R, mmul22 Rops R (mtr22 R) = I22 Rops -> orth_defect2 Rops R = 0.
Proof.
  intros R HR. unfold orth_defect2. rewrite HR. c07_simpl. replace (_ + _) with 0 by ring. apply sqrt_0.
Qed.

(* ================================================================ isR *)
Lemma isR3_iff k (A : M33 R) : isR3 Rops k A = true <-> orth_defect3 Rops A < thr Rops k /\ 0 < det33 Rops A.
Proof. unfold isR3. rewrite andb_true_iff, !ltb_R, !Rltb_true. change (zero Rops) with 0. tauto. Qed.
Lemma isR2_iff k (A : M22 R) : isR2 Rops k A = true <-> orth_defect2 Rops A < thr Rops k /\ 0 < det22 Rops A.
Proof. unfold isR2. rewrite andb_true_iff, !ltb_R, !Rltb_true. change (zero Rops) with 0. tauto. Qed.

(* exact characterisation of what the code tests *)
Theorem C07_isR_characterised : forall R : M33 R,
  isR3 Rops (isR_tol Rops) R = true <-> orth_defect3 Rops R < thr Rops (isR_tol Rops) /\ 0 < det33 Rops R.
Proof. intros R. apply isR3_iff. Qed.
Print Assumptions C07_isR_characterised.

Theorem C07_isR_complete : forall R : M33 R, SO3 R -> isR3 Rops (isR_tol Rops) R = true.
Proof.
  intros R H. apply isR3_iff. apply SO3_matrix in H. destruct H as [H D]. split.
  - rewrite (proj2 orth_defect3_I R H). apply thr_pos, isR_tol_ok.
  - rewrite D. lra.
Qed.
Print Assumptions C07_isR_complete.
Example C07_isR_complete_nonvacuous : SO3 (rotx_cs Rops (3/5) (4/5)) /\ rotx_cs Rops (3/5) (4/5) <> I33 Rops.
Proof. split. apply SO3_rotx; lra. lin_simpl. intros H. injection H; intros; lra. Qed.

Theorem C07_isR2_complete : forall R : M22 R, SO2 R -> isR2 Rops (isR_tol Rops) R = true.
Proof.
  intros R H. apply SO2_matrix in H. destruct H as [H D]. apply isR2_iff. rewrite D, (orth_defect2_I R H).
  split; [apply thr_pos, isR_tol_ok | lra].
Qed.
Print Assumptions C07_isR2_complete.
Example C07_isR2_complete_nonvacuous : SO2 (rot2_cs Rops (3/5) (4/5)).
Proof. apply SO2_rot2; lra. Qed.

Theorem C07_isR_band : forall R : M33 R, band <= orth_defect3 Rops R -> isR3 Rops (isR_tol Rops) R = false.
Proof. intros R H. unfold isR3. rewrite ltb_R, (above_band _ _ isR_tol_ok H). reflexivity. Qed.
Print Assumptions C07_isR_band.
Example C07_isR_band_nonvacuous : band <= orth_defect3 Rops ((1,1,0),(0,1,0),(0,0,1)).
Proof.
  c07_simpl. unfold band. replace (_ + _ + _) with 3 by ring.
  apply Rle_trans with 1; [lra|]. rewrite <- sqrt_1 at 1. apply sqrt_le_1_alt; lra.
Qed.
Theorem C07_isR2_band : forall R : M22 R, band <= orth_defect2 Rops R -> isR2 Rops (isR_tol Rops) R = false.
Proof. intros R H. unfold isR2. rewrite ltb_R, (above_band _ _ isR_tol_ok H). reflexivity. Qed.
Print Assumptions C07_isR2_band.

(* FULL soundness and FULL rejection ("reflections included"); both were refuted by diag(1,1,-1) before fix 8457767 *)
Definition refl3 : M33 R := ((1,0,0),(0,1,0),(0,0,-1)).
Definition refl2 : M22 R := ((1,0),(0,-1)).
Theorem C07_isR_sound : forall R : M33 R, isR3 Rops (isR_tol Rops) R = true ->
  orth_defect3 Rops R < thr Rops (isR_tol Rops) /\ orth_defect3 Rops R < band /\ 0 < det33 Rops R.
Proof.
  intros R H. apply isR3_iff in H. destruct H as [H1 H2]. pose proof (thr_band _ isR_tol_ok). repeat split; auto; lra.
Qed.
Print Assumptions C07_isR_sound.
Theorem C07_isR2_sound : forall R : M22 R, isR2 Rops (isR_tol Rops) R = true -> orth_defect2 Rops R < band /\ 0 < det22 Rops R.
Proof.
  intros R H. apply isR2_iff in H. destruct H as [H1 H2]. pose proof (thr_band _ isR_tol_ok). split; [lra | exact H2].
Qed.
Print Assumptions C07_isR2_sound.
Theorem C07_isR_rejects_reflections : forall R : M33 R, det33 Rops R <= 0 -> isR3 Rops (isR_tol Rops) R = false.
Proof.
  intros R D. destruct (isR3 Rops (isR_tol Rops) R) eqn:E; [|reflexivity]. apply isR3_iff in E. lra.
Qed.
Print Assumptions C07_isR_rejects_reflections.
Theorem C07_isR2_rejects_reflections : forall R : M22 R, det22 Rops R <= 0 -> isR2 Rops (isR_tol Rops) R = false.
Proof.
  intros R D. destruct (isR2 Rops (isR_tol Rops) R) eqn:E; [|reflexivity]. apply isR2_iff in E. lra.
Qed.
Print Assumptions C07_isR2_rejects_reflections.
Example C07_reflection_nonvacuous : mmul33 Rops refl3 (mtr33 refl3) = I33 Rops /\ det33 Rops refl3 = -1.
Proof. unfold refl3. split; lin_simpl; [tuple_eq ltac:(ring) | ring]. Qed.
Example C07_reflection2_nonvacuous : mmul22 Rops refl2 (mtr22 refl2) = I22 Rops /\ det22 Rops refl2 = -1.
Proof. unfold refl2. split; lin_simpl; [tuple_eq ltac:(ring) | ring]. Qed.
(* the witness of the former refutation is now rejected although it is exactly orthogonal *)
Example C07_isR_rejects_diag_1_1_m1 : isR3 Rops (isR_tol Rops) refl3 = false /\ orth_defect3 Rops refl3 = 0.
Proof.
  destruct C07_reflection_nonvacuous as [H D]. split.
  - apply C07_isR_rejects_reflections. rewrite D. lra.
  - apply (proj2 orth_defect3_I _ H).
Qed.

(* ================================================================ isrot / ishom / isrot2 / ishom2, check on *)
Theorem C07_isrot_complete : forall R : M33 R, SO3 R -> isrot Rops true (isrot_tol Rops) R = true.
Proof.
  intros R H. unfold isrot. cbn [negb orb]. apply SO3_matrix in H. destruct H as [H D].
  apply isR3_iff. rewrite D, (proj2 orth_defect3_I R H). split; [apply thr_pos, isrot_tol_ok | lra].
Qed.
Print Assumptions C07_isrot_complete.
Theorem C07_isrot_band : forall R : M33 R, band <= orth_defect3 Rops R -> isrot Rops true (isrot_tol Rops) R = false.
Proof. intros R H. unfold isrot, isR3. cbn [negb orb]. rewrite ltb_R, (above_band _ _ isrot_tol_ok H). reflexivity. Qed.
Print Assumptions C07_isrot_band.
Theorem C07_isrot_sound : forall R : M33 R, isrot Rops true (isrot_tol Rops) R = true -> orth_defect3 Rops R < band /\ 0 < det33 Rops R.
Proof.
  intros R H. unfold isrot in H. cbn [negb orb] in H. apply isR3_iff in H. destruct H as [H1 H2].
  pose proof (thr_band _ isrot_tol_ok). split; [lra | exact H2].
Qed.
Print Assumptions C07_isrot_sound.

Theorem C07_ishom_complete : forall A : M44 R, SE3 A -> ishom Rops true (ishom_tol Rops) A = true.
Proof.
  intros A [H L]. unfold ishom. cbn [negb orb]. apply SO3_matrix in H. destruct H as [H D].
  rewrite L, row_eq4_refl, andb_true_r. apply isR3_iff. rewrite D, (proj2 orth_defect3_I _ H).
  split; [apply thr_pos, ishom_tol_ok | lra].
Qed.
Print Assumptions C07_ishom_complete.
Example C07_ishom_complete_nonvacuous : SE3 (rt2tr3 Rops (rotx_cs Rops (3/5) (4/5)) (1,2,3)).
Proof. apply SE3_rt. apply SO3_rotx; lra. Qed.
Theorem C07_ishom_band : forall A : M44 R, band <= orth_defect3 Rops (t2r3 A) -> ishom Rops true (ishom_tol Rops) A = false.
Proof. intros A H. unfold ishom, isR3. cbn [negb orb]. rewrite ltb_R, (above_band _ _ ishom_tol_ok H). reflexivity. Qed.
Print Assumptions C07_ishom_band.
(* the last row is tested exactly: any corruption is rejected, whatever its size *)
Theorem C07_ishom_lastrow : forall A : M44 R, ishom Rops true (ishom_tol Rops) A = true -> lastrow4 A = (0,0,0,1).
Proof.
  intros A H. unfold ishom in H. cbn [negb orb] in H. apply andb_true_iff in H. destruct H as [_ H].
  destruct (lastrow4 A) as [[[a b] c] d]. unfold row_eq4 in H. rewrite !eqb_R, !andb_true_iff, !Reqb_true in H.
  change (zero Rops) with 0 in H. change (one Rops) with 1 in H. destruct H as [[[-> ->] ->] ->]. reflexivity.
Qed.
Print Assumptions C07_ishom_lastrow.
Theorem C07_ishom_badrow_rejected : forall A : M44 R, lastrow4 A <> (0,0,0,1) -> ishom Rops true (ishom_tol Rops) A = false.
Proof.
  intros A H. destruct (ishom Rops true (ishom_tol Rops) A) eqn:E; [|reflexivity]. apply C07_ishom_lastrow in E. contradiction.
Qed.
Print Assumptions C07_ishom_badrow_rejected.
(* FULL soundness (refuted by diag(1,1,-1,1) before fix 8457767) *)
Theorem C07_ishom_sound : forall A : M44 R, ishom Rops true (ishom_tol Rops) A = true ->
  orth_defect3 Rops (t2r3 A) < band /\ 0 < det33 Rops (t2r3 A) /\ lastrow4 A = (0,0,0,1).
Proof.
  intros A H. pose proof (C07_ishom_lastrow A H) as L. unfold ishom in H. cbn [negb orb] in H. apply andb_true_iff in H. destruct H as [H _].
  apply isR3_iff in H. destruct H as [H1 H2]. pose proof (thr_band _ ishom_tol_ok). repeat split; auto; lra.
Qed.
Print Assumptions C07_ishom_sound.
Theorem C07_ishom_rejects_reflections : forall A : M44 R, det33 Rops (t2r3 A) <= 0 -> ishom Rops true (ishom_tol Rops) A = false.
Proof.
  intros A D. destruct (ishom Rops true (ishom_tol Rops) A) eqn:E; [|reflexivity]. apply C07_ishom_sound in E. lra.
Qed.
Print Assumptions C07_ishom_rejects_reflections.

(* 2-D: isrot2 / ishom2 call isR with ITS default tolerance *)
Theorem C07_isrot2_complete : forall R : M22 R, SO2 R -> isrot2 Rops true (isR_tol Rops) R = true.
Proof. intros R H. unfold isrot2. cbn [negb orb]. apply C07_isR2_complete, H. Qed.
Print Assumptions C07_isrot2_complete.
Theorem C07_ishom2_complete : forall A : M33 R, SE2 A -> ishom2 Rops true (isR_tol Rops) A = true.
Proof.
  intros A [H L]. unfold ishom2. cbn [negb orb]. rewrite (C07_isR2_complete _ H), L. apply row_eq3_refl.
Qed.
Print Assumptions C07_ishom2_complete.
Theorem C07_ishom2_band : forall A : M33 R, band <= orth_defect2 Rops (t2r2 A) -> ishom2 Rops true (isR_tol Rops) A = false.
Proof. intros A H. unfold ishom2. cbn [negb orb]. rewrite (C07_isR2_band _ H). reflexivity. Qed.
Print Assumptions C07_ishom2_band.
Theorem C07_ishom2_lastrow : forall A : M33 R, ishom2 Rops true (isR_tol Rops) A = true -> lastrow3 A = (0,0,1).
Proof.
  intros A H. unfold ishom2 in H. cbn [negb orb] in H. apply andb_true_iff in H. destruct H as [_ H].
  destruct (lastrow3 A) as [[a b] c]. unfold row_eq3 in H. rewrite !eqb_R, !andb_true_iff, !Reqb_true in H.
  sm_simpl. destruct H as [[-> ->] ->]. reflexivity.
Qed.
Print Assumptions C07_ishom2_lastrow.

(* values of the primitive constructors (exact arithmetic) are accepted *)
Theorem C07_constructors_accepted : forall c s : R, c*c + s*s = 1 ->
  isrot Rops true (isrot_tol Rops) (rotx_cs Rops c s) = true /\ isrot Rops true (isrot_tol Rops) (roty_cs Rops c s) = true /\
  isrot Rops true (isrot_tol Rops) (rotz_cs Rops c s) = true /\ isrot2 Rops true (isR_tol Rops) (rot2_cs Rops c s) = true /\
  (forall t, ishom Rops true (ishom_tol Rops) (rt2tr3 Rops (rotz_cs Rops c s) t) = true).
Proof.
  intros c s H. repeat split; try intros t.
  - apply C07_isrot_complete, SO3_rotx, H.
  - apply C07_isrot_complete, SO3_roty, H.
  - apply C07_isrot_complete, SO3_rotz, H.
  - apply C07_isrot2_complete, SO2_rot2, H.
  - apply C07_ishom_complete, SE3_rt, SO3_rotz, H.
Qed.
Print Assumptions C07_constructors_accepted.
Theorem C07_q2r_accepted : forall q : V4 R, qnormsq Rops q = 1 -> isrot Rops true (isrot_tol Rops) (q2r_ref Rops q) = true.
Proof. intros q H. apply C07_isrot_complete, SO3_q2r, H. Qed.
Print Assumptions C07_q2r_accepted.

(* ================================================================ isskew / isskewa / iseye *)
Lemma sqrt_sumsq_zero x : x = 0 -> sqrt x = 0.  Proof. intros ->. apply sqrt_0. Qed.

Theorem C07_isskew_complete : forall S : M33 R, madd33 Rops S (mtr33 S) = Z33 Rops -> isskew3 Rops (isskew_tol Rops) S = true.
Proof.
  intros S H. unfold isskew3, skew_defect3. rewrite H, ltb_R. apply below_thr; [apply isskew_tol_ok|].
  c07_simpl. apply sqrt_sumsq_zero. ring.
Qed.
Print Assumptions C07_isskew_complete.
Theorem C07_isskew_accepts_skew : forall v : V3 R, isskew3 Rops (isskew_tol Rops) (skew3 Rops v) = true.
Proof. intros v. apply C07_isskew_complete. lin_ring. Qed.
Print Assumptions C07_isskew_accepts_skew.
Theorem C07_isskew_band : forall S : M33 R, band <= skew_defect3 Rops S -> isskew3 Rops (isskew_tol Rops) S = false.
Proof. intros S H. unfold isskew3. rewrite ltb_R. apply above_band; [apply isskew_tol_ok | exact H]. Qed.
Print Assumptions C07_isskew_band.
Example C07_isskew_band_nonvacuous : band <= skew_defect3 Rops ((0,1,0),(0,0,0),(0,0,0)).
Proof.
  c07_simpl. unfold band. replace (_ + _ + _) with 2 by ring.
  apply Rle_trans with 1; [lra|]. rewrite <- sqrt_1 at 1. apply sqrt_le_1_alt; lra.
Qed.
Theorem C07_isskew_sound : forall S : M33 R, isskew3 Rops (isskew_tol Rops) S = true ->
  skew_defect3 Rops S < thr Rops (isskew_tol Rops) /\ skew_defect3 Rops S < band.
Proof.
  intros S H. unfold isskew3 in H. rewrite ltb_R, Rltb_true in H. pose proof (thr_band _ isskew_tol_ok). split; lra.
Qed.
Print Assumptions C07_isskew_sound.
(* the defect is twice the Frobenius distance to the skew-symmetric matrices: no skew K is closer to S than defect/2 *)
Theorem C07_skew_defect_is_distance : forall (S : M33 R) (k : V3 R),
  frosq33 Rops (madd33 Rops S (mtr33 S)) <= 4 * frosq33 Rops (msub33 Rops S (skew3 Rops k)).
Proof.
  intros [[[[s00 s01] s02] [[s10 s11] s12]] [[s20 s21] s22]] [[x y] z]. c07_simpl.
  pose proof (Rle_0_sqr ((s01 - - z) - (s10 - z))). pose proof (Rle_0_sqr ((s02 - y) - (s20 - - y))).
  pose proof (Rle_0_sqr ((s12 - - x) - (s21 - x))). unfold Rsqr in *. nra.
Qed.
Print Assumptions C07_skew_defect_is_distance.

Theorem C07_isskew2_complete : forall S : M22 R, madd22 Rops S (mtr22 S) = ((0,0),(0,0)) -> isskew2 Rops (isskew_tol Rops) S = true.
Proof.
  intros S H. unfold isskew2, skew_defect2. rewrite H, ltb_R. apply below_thr; [apply isskew_tol_ok|].
  c07_simpl. apply sqrt_sumsq_zero. ring.
Qed.
Print Assumptions C07_isskew2_complete.
Theorem C07_isskew2_band : forall S : M22 R, band <= skew_defect2 Rops S -> isskew2 Rops (isskew_tol Rops) S = false.
Proof. intros S H. unfold isskew2. rewrite ltb_R. apply above_band; [apply isskew_tol_ok | exact H]. Qed.
Print Assumptions C07_isskew2_band.

Theorem C07_isskewa_complete : forall S : M44 R, madd33 Rops (t2r3 S) (mtr33 (t2r3 S)) = Z33 Rops -> lastrow4 S = (0,0,0,0) ->
  isskewa4 Rops (isskewa_tol Rops) S = true.
Proof.
  intros S H L. unfold isskewa4. rewrite L. apply andb_true_iff. split.
  - unfold isskew3, skew_defect3. rewrite H, ltb_R. apply below_thr; [apply isskewa_tol_ok|].
    c07_simpl. apply sqrt_sumsq_zero. ring.
  - apply row_eq4_refl.
Qed.
Print Assumptions C07_isskewa_complete.
Example C07_isskewa_complete_nonvacuous :
  let S : M44 R := ((0,-3,2,4),(3,0,-1,5),(-2,1,0,6),(0,0,0,0)) in
  madd33 Rops (t2r3 S) (mtr33 (t2r3 S)) = Z33 Rops /\ lastrow4 S = (0,0,0,0).
Proof. split; [lin_simpl; tuple_eq ltac:(ring) | reflexivity]. Qed.
Theorem C07_isskewa_band : forall S : M44 R, band <= skew_defect3 Rops (t2r3 S) \/ lastrow4 S <> (0,0,0,0) ->
  isskewa4 Rops (isskewa_tol Rops) S = false.
Proof.
  intros S [H|H]; unfold isskewa4.
  - unfold isskew3. rewrite ltb_R, (above_band _ _ isskewa_tol_ok H). reflexivity.
  - apply andb_false_iff. right. destruct (lastrow4 S) as [[[a b] c] d]. unfold row_eq4. rewrite !eqb_R. sm_simpl.
    destruct (Reqb a 0) eqn:Ea; [|reflexivity]. destruct (Reqb b 0) eqn:Eb; [|reflexivity].
    destruct (Reqb c 0) eqn:Ec; [|reflexivity]. destruct (Reqb d 0) eqn:Ed; [|reflexivity].
    apply Reqb_true in Ea, Eb, Ec, Ed. subst. contradiction H. reflexivity.
Qed.
Print Assumptions C07_isskewa_band.

Theorem C07_iseye_complete : iseye3 Rops (iseye_tol Rops) (I33 Rops) = true.
Proof.
  unfold iseye3, eye_defect3. rewrite ltb_R. apply below_thr; [apply iseye_tol_ok|]. c07_simpl. apply sqrt_sumsq_zero. ring.
Qed.
Print Assumptions C07_iseye_complete.
Theorem C07_iseye_band : forall S : M33 R, band <= eye_defect3 Rops S -> iseye3 Rops (iseye_tol Rops) S = false.
Proof. intros S H. unfold iseye3. rewrite ltb_R. apply above_band; [apply iseye_tol_ok | exact H]. Qed.
Print Assumptions C07_iseye_band.
Theorem C07_iseye_sound : forall S : M33 R, iseye3 Rops (iseye_tol Rops) S = true -> eye_defect3 Rops S < band.
Proof. intros S H. unfold iseye3 in H. rewrite ltb_R, Rltb_true in H. pose proof (thr_band _ iseye_tol_ok). lra. Qed.
Print Assumptions C07_iseye_sound.

(* ================================================================ isunitvec / iszerovec / iszero *)
Theorem C07_isunitvec_complete : forall v : V3 R, dot3 Rops v v = 1 -> isunitvec3 Rops (isunitvec_tol Rops) v = true.
Proof.
  intros v H. unfold isunitvec3, unit_defect3, norm3, normsq3. rewrite H, ltb_R. apply below_thr; [apply isunitvec_tol_ok|].
  sm_simpl. rewrite sqrt_1. replace (1 - 1) with 0 by ring. apply Rabs_R0.
Qed.
Print Assumptions C07_isunitvec_complete.
Example C07_isunitvec_complete_nonvacuous : dot3 Rops (3/5, 0, 4/5) (3/5, 0, 4/5) = 1.
Proof. lin_simpl. lra. Qed.
Theorem C07_isunitvec_band : forall v : V3 R, band <= unit_defect3 Rops v -> isunitvec3 Rops (isunitvec_tol Rops) v = false.
Proof. intros v H. unfold isunitvec3. rewrite ltb_R. apply above_band; [apply isunitvec_tol_ok | exact H]. Qed.
Print Assumptions C07_isunitvec_band.
Example C07_isunitvec_band_nonvacuous : band <= unit_defect3 Rops (0,0,0).
Proof. c07_simpl. replace (_ + _ + _) with 0 by ring. rewrite sqrt_0. rewrite <- Rabs_Ropp. replace (- (0 - 1)) with 1 by ring. rewrite Rabs_R1. unfold band. lra. Qed.
Theorem C07_isunitvec_sound : forall v : V3 R, isunitvec3 Rops (isunitvec_tol Rops) v = true ->
  unit_defect3 Rops v < thr Rops (isunitvec_tol Rops) /\ unit_defect3 Rops v < band.
Proof. intros v H. unfold isunitvec3 in H. rewrite ltb_R, Rltb_true in H. pose proof (thr_band _ isunitvec_tol_ok). split; lra. Qed.
Print Assumptions C07_isunitvec_sound.
(* 4-vectors (UnitQuaternion.isvalid) *)
Theorem C07_isunitvec4_complete : forall q : V4 R, qnormsq Rops q = 1 -> isunitvec4 Rops (isunitvec_tol Rops) q = true.
Proof.
  intros q H. unfold isunitvec4, unit_defect4, norm4. unfold qnormsq in H. rewrite H, ltb_R. apply below_thr; [apply isunitvec_tol_ok|].
  sm_simpl. rewrite sqrt_1. replace (1 - 1) with 0 by ring. apply Rabs_R0.
Qed.
Print Assumptions C07_isunitvec4_complete.
Theorem C07_isunitvec4_band : forall q : V4 R, band <= unit_defect4 Rops q -> isunitvec4 Rops (isunitvec_tol Rops) q = false.
Proof. intros v H. unfold isunitvec4. rewrite ltb_R. apply above_band; [apply isunitvec_tol_ok | exact H]. Qed.
Print Assumptions C07_isunitvec4_band.
Theorem C07_isunitvec4_sound : forall q : V4 R, isunitvec4 Rops (isunitvec_tol Rops) q = true -> unit_defect4 Rops q < band.
Proof. intros v H. unfold isunitvec4 in H. rewrite ltb_R, Rltb_true in H. pose proof (thr_band _ isunitvec_tol_ok). lra. Qed.
Print Assumptions C07_isunitvec4_sound.

Theorem C07_iszerovec_complete : iszerovec3 Rops (iszerovec_tol Rops) (0,0,0) = true.
Proof. unfold iszerovec3. rewrite ltb_R. apply below_thr; [apply iszerovec_tol_ok|]. c07_simpl. apply sqrt_sumsq_zero. ring. Qed.
Print Assumptions C07_iszerovec_complete.
Theorem C07_iszerovec_band : forall v : V3 R, band <= norm3 Rops v -> iszerovec3 Rops (iszerovec_tol Rops) v = false.
Proof. intros v H. unfold iszerovec3. rewrite ltb_R. apply above_band; [apply iszerovec_tol_ok | exact H]. Qed.
Print Assumptions C07_iszerovec_band.
Theorem C07_iszerovec_sound : forall v : V3 R, iszerovec3 Rops (iszerovec_tol Rops) v = true -> norm3 Rops v < band.
Proof. intros v H. unfold iszerovec3 in H. rewrite ltb_R, Rltb_true in H. pose proof (thr_band _ iszerovec_tol_ok). lra. Qed.
Print Assumptions C07_iszerovec_sound.
Theorem C07_iszero_spec : forall x : R,
  (x = 0 -> iszero Rops (iszero_tol Rops) x = true) /\ (band <= Rabs x -> iszero Rops (iszero_tol Rops) x = false) /\
  (iszero Rops (iszero_tol Rops) x = true -> Rabs x < band).
Proof.
  intros x. unfold iszero. rewrite ltb_R. change (abs_ Rops x) with (Rabs x). repeat split.
  - intros ->. rewrite Rabs_R0. apply below_thr; [apply iszero_tol_ok | reflexivity].
  - intros H. apply above_band; [apply iszero_tol_ok | exact H].
  - intros H. apply Rltb_true in H. pose proof (thr_band _ iszero_tol_ok). lra.
Qed.
Print Assumptions C07_iszero_spec.

(* ================================================================ quaternions.isunit  (body: isunitvec(q, tol), fix f745aab) *)
Theorem C07_isunit_is_isunitvec : forall k (q : V4 R), isunit_q Rops k q = isunitvec4 Rops k q.
Proof. reflexivity. Qed.
Print Assumptions C07_isunit_is_isunitvec.
Theorem C07_isunit_complete : forall q : V4 R, qnormsq Rops q = 1 -> isunit_q Rops (isunit_tol Rops) q = true.
Proof.
  intros q H. unfold isunit_q, isunitvec4, unit_defect4, norm4. unfold qnormsq in H. rewrite H, ltb_R. apply below_thr; [apply isunit_tol_ok|].
  sm_simpl. rewrite sqrt_1. replace (1 - 1) with 0 by ring. apply Rabs_R0.
Qed.
Print Assumptions C07_isunit_complete.
Example C07_isunit_complete_nonvacuous : qnormsq Rops (1,0,0,0) = 1 /\ qnormsq Rops (1/2,1/2,1/2,1/2) = 1.
Proof. split; lin_simpl; lra. Qed.
Theorem C07_isunit_band : forall q : V4 R, band <= unit_defect4 Rops q -> isunit_q Rops (isunit_tol Rops) q = false.
Proof. intros q H. unfold isunit_q, isunitvec4. rewrite ltb_R. apply above_band; [apply isunit_tol_ok | exact H]. Qed.
Print Assumptions C07_isunit_band.
Theorem C07_isunit_sound : forall q : V4 R, isunit_q Rops (isunit_tol Rops) q = true -> unit_defect4 Rops q < band.
Proof. intros q H. unfold isunit_q, isunitvec4 in H. rewrite ltb_R, Rltb_true in H. pose proof (thr_band _ isunit_tol_ok). lra. Qed.
Print Assumptions C07_isunit_sound.
(* the witnesses of the former refutations: the zero quaternion is rejected *)
Example C07_isunit_rejects_zero : isunit_q Rops (isunit_tol Rops) (0,0,0,0) = false.
Proof.
  apply C07_isunit_band. c07_simpl. replace (_ + _ + _ + _) with 0 by ring. rewrite sqrt_0.
  rewrite <- Rabs_Ropp. replace (- (0 - 1)) with 1 by ring. rewrite Rabs_R1. unfold band. lra.
Qed.

(* ================================================================ isunittwist / isunittwist2 *)
Theorem C07_isunittwist_complete : forall v w : V3 R,
  (dot3 Rops w w = 1 \/ (w = (0,0,0) /\ dot3 Rops v v = 1)) -> isunittwist Rops (isunittwist_tol Rops) (v6 v w) = true.
Proof.
  intros [[v0 v1] v2] [[w0 w1] w2] H. unfold isunittwist, v6. apply orb_true_iff. destruct H as [H|[Hw Hv]].
  - left. unfold isunitvec3, unit_defect3, norm3, normsq3. rewrite H, ltb_R. apply below_thr; [apply isunittwist_tol_ok|].
    sm_simpl. rewrite sqrt_1. replace (1 - 1) with 0 by ring. apply Rabs_R0.
  - right. injection Hw; intros; subst. apply andb_true_iff. split.
    + rewrite ltb_R. apply below_thr; [apply isunittwist_tol_ok|]. c07_simpl. apply sqrt_sumsq_zero. ring.
    + unfold isunitvec3, unit_defect3, norm3, normsq3. rewrite Hv, ltb_R. apply below_thr; [apply isunittwist_tol_ok|].
      sm_simpl. rewrite sqrt_1. replace (1 - 1) with 0 by ring. apply Rabs_R0.
Qed.
Print Assumptions C07_isunittwist_complete.
Example C07_isunittwist_complete_nonvacuous : dot3 Rops (0,0,1) (0,0,1) = 1 /\ dot3 Rops (3/5,4/5,0) (3/5,4/5,0) = 1.
Proof. split; lin_simpl; lra. Qed.
Theorem C07_isunittwist_band : forall v w : V3 R,
  band <= unit_defect3 Rops w -> (band <= norm3 Rops w \/ band <= unit_defect3 Rops v) ->
  isunittwist Rops (isunittwist_tol Rops) (v6 v w) = false.
Proof.
  intros [[v0 v1] v2] [[w0 w1] w2] H1 H2. unfold isunittwist, v6. apply orb_false_iff. split.
  - unfold isunitvec3. rewrite ltb_R. apply above_band; [apply isunittwist_tol_ok | exact H1].
  - apply andb_false_iff. destruct H2 as [H2|H2]; [left|right].
    + rewrite ltb_R. apply above_band; [apply isunittwist_tol_ok | exact H2].
    + unfold isunitvec3. rewrite ltb_R. apply above_band; [apply isunittwist_tol_ok | exact H2].
Qed.
Print Assumptions C07_isunittwist_band.
Theorem C07_isunittwist_sound : forall v w : V3 R, isunittwist Rops (isunittwist_tol Rops) (v6 v w) = true ->
  unit_defect3 Rops w < band \/ (norm3 Rops w < band /\ unit_defect3 Rops v < band).
Proof.
  intros [[v0 v1] v2] [[w0 w1] w2] H. unfold isunittwist, v6 in H. pose proof (thr_band _ isunittwist_tol_ok).
  apply orb_true_iff in H. destruct H as [H|H].
  - left. unfold isunitvec3 in H. rewrite ltb_R, Rltb_true in H. lra.
  - right. apply andb_true_iff in H. destruct H as [Ha Hb]. unfold isunitvec3 in Hb. rewrite ltb_R, Rltb_true in Ha, Hb. split; lra.
Qed.
Print Assumptions C07_isunittwist_sound.
Theorem C07_isunittwist2_complete : forall (v : V2 R) (w : R),
  (Rabs w = 1 \/ (w = 0 /\ dot2 Rops v v = 1)) -> isunittwist2 Rops (isunittwist2_tol Rops) (fst v, snd v, w) = true.
Proof.
  intros [v0 v1] w H. unfold isunittwist2. simpl fst; simpl snd. apply orb_true_iff. destruct H as [H|[-> Hv]].
  - left. rewrite ltb_R. apply below_thr; [apply isunittwist2_tol_ok|]. sm_simpl. rewrite H. replace (1 - 1) with 0 by ring. apply Rabs_R0.
  - right. apply andb_true_iff. split.
    + rewrite ltb_R. apply below_thr; [apply isunittwist2_tol_ok|]. sm_simpl. apply Rabs_R0.
    + unfold isunitvec2, unit_defect2, norm2, normsq2. rewrite Hv, ltb_R. apply below_thr; [apply isunittwist2_tol_ok|].
      sm_simpl. rewrite sqrt_1. replace (1 - 1) with 0 by ring. apply Rabs_R0.
Qed.
Print Assumptions C07_isunittwist2_complete.
Theorem C07_isunittwist2_band : forall (v : V2 R) (w : R),
  band <= Rabs (Rabs w - 1) -> (band <= Rabs w \/ band <= unit_defect2 Rops v) ->
  isunittwist2 Rops (isunittwist2_tol Rops) (fst v, snd v, w) = false.
Proof.
  intros [v0 v1] w H1 H2. unfold isunittwist2. simpl fst; simpl snd. apply orb_false_iff. split.
  - rewrite ltb_R. apply above_band; [apply isunittwist2_tol_ok | exact H1].
  - apply andb_false_iff. destruct H2 as [H2|H2]; [left|right].
    + rewrite ltb_R. apply above_band; [apply isunittwist2_tol_ok | exact H2].
    + unfold isunitvec2. rewrite ltb_R. apply above_band; [apply isunittwist2_tol_ok | exact H2].
Qed.
Print Assumptions C07_isunittwist2_band.

(* ================================================================ bridge to the container model (Model/C07_Ctor.v)
   The container model abstracts an ndarray to a tag and lets rot_ok / hom_ok / unit_ok / alg_ok decide whether the class
   takes it.  Those decisions are exactly the decisions of the predicate models on every real array carrying the tag:
   Valid = exact member, NotOrtho / NotAlgebra = defect beyond the 1e-6 band, Reflect = improper orthogonal, BadRow = any
   corruption of the last row.  (Arrays with a defect inside the band carry no tag: the property leaves them open.) *)
From SM Require Import Model.C07_Ctor.

Lemma isR3_orth k (R : M33 R) : tol_ok k -> mmul33 Rops R (mtr33 R) = I33 Rops -> 0 < det33 Rops R -> isR3 Rops k R = true.
Proof. intros Hk H D. apply isR3_iff. rewrite (proj2 orth_defect3_I R H). split; [apply thr_pos, Hk | exact D]. Qed.
Lemma isR2_orth k (R : M22 R) : tol_ok k -> mmul22 Rops R (mtr22 R) = I22 Rops -> 0 < det22 Rops R -> isR2 Rops k R = true.
Proof. intros Hk H D. apply isR2_iff. rewrite (orth_defect2_I R H). split; [apply thr_pos, Hk | exact D]. Qed.
Lemma isR3_neg k (R : M33 R) : det33 Rops R <= 0 -> isR3 Rops k R = false.
Proof. intros D. destruct (isR3 Rops k R) eqn:E; [|reflexivity]. apply isR3_iff in E. lra. Qed.
Lemma isR2_neg k (R : M22 R) : det22 Rops R <= 0 -> isR2 Rops k R = false.
Proof. intros D. destruct (isR2 Rops k R) eqn:E; [|reflexivity]. apply isR2_iff in E. lra. Qed.
Lemma isR3_far k (R : M33 R) : tol_ok k -> band <= orth_defect3 Rops R -> isR3 Rops k R = false.
Proof. intros Hk H. unfold isR3. rewrite ltb_R, (above_band _ _ Hk H). reflexivity. Qed.
Lemma isR2_far k (R : M22 R) : tol_ok k -> band <= orth_defect2 Rops R -> isR2 Rops k R = false.
Proof. intros Hk H. unfold isR2. rewrite ltb_R, (above_band _ _ Hk H). reflexivity. Qed.
Lemma row_eq4_neq (r : V4 R) a b c d : r <> (a,b,c,d) -> row_eq4 Rops r a b c d = false.
Proof.
  destruct r as [[[r0 r1] r2] r3]. intros H. unfold row_eq4. change (eqb Rops) with Reqb.
  destruct (Reqb r0 a) eqn:E0; [|reflexivity]. destruct (Reqb r1 b) eqn:E1; [|reflexivity].
  destruct (Reqb r2 c) eqn:E2; [|reflexivity]. destruct (Reqb r3 d) eqn:E3; [|reflexivity].
  apply Reqb_true in E0, E1, E2, E3. subst. contradiction H. reflexivity.
Qed.
Lemma row_eq3_neq (r : V3 R) a b c : r <> (a,b,c) -> row_eq3 Rops r a b c = false.
Proof.
  destruct r as [[r0 r1] r2]. intros H. unfold row_eq3. change (eqb Rops) with Reqb.
  destruct (Reqb r0 a) eqn:E0; [|reflexivity]. destruct (Reqb r1 b) eqn:E1; [|reflexivity]. destruct (Reqb r2 c) eqn:E2; [|reflexivity].
  apply Reqb_true in E0, E1, E2. subst. contradiction H. reflexivity.
Qed.

Definition tagged_rot3 (t : tag) (A : M33 R) : Prop :=
  match t with
  | Valid => SO3 A
  | NotOrtho => band <= orth_defect3 Rops A
  | Reflect => mmul33 Rops A (mtr33 A) = I33 Rops /\ det33 Rops A = -1
  | _ => False end.
Definition tagged_rot2 (t : tag) (A : M22 R) : Prop :=
  match t with
  | Valid => SO2 A
  | NotOrtho => band <= orth_defect2 Rops A
  | Reflect => mmul22 Rops A (mtr22 A) = I22 Rops /\ det22 Rops A = -1
  | _ => False end.
Definition tagged_hom4 (t : tag) (A : M44 R) : Prop :=
  match t with
  | Valid => SE3 A
  | NotOrtho => band <= orth_defect3 Rops (t2r3 A)
  | Reflect => tagged_rot3 Reflect (t2r3 A) /\ lastrow4 A = (0,0,0,1)
  | BadRow => lastrow4 A <> (0,0,0,1)
  | _ => False end.
Definition tagged_hom3 (t : tag) (A : M33 R) : Prop :=
  match t with
  | Valid => SE2 A
  | NotOrtho => band <= orth_defect2 Rops (t2r2 A)
  | Reflect => tagged_rot2 Reflect (t2r2 A) /\ lastrow3 A = (0,0,1)
  | BadRow => lastrow3 A <> (0,0,1)
  | _ => False end.
Definition tagged_unit4 (t : tag) (q : V4 R) : Prop :=
  match t with Valid => qnormsq Rops q = 1 | NotOrtho => band <= unit_defect4 Rops q | _ => False end.
Definition tagged_alg4 (t : tag) (A : M44 R) : Prop :=
  match t with
  | Valid => madd33 Rops (t2r3 A) (mtr33 (t2r3 A)) = Z33 Rops /\ lastrow4 A = (0,0,0,0)
  | NotAlgebra => band <= skew_defect3 Rops (t2r3 A) \/ band <= norm4 Rops (diag4 A) \/ band <= norm4 Rops (lastrow4 A)
  | _ => False end.

Theorem C07_bridge_SO3 : forall t A, tagged_rot3 t A -> isrot Rops true (isrot_tol Rops) A = rot_ok t.
Proof.
  intros t A H. unfold isrot. cbn [negb orb]. destruct t; cbn [tagged_rot3 tagged_rot2 tagged_hom4 tagged_hom3 tagged_unit4 tagged_alg4 rot_ok hom_ok unit_ok alg_ok] in H |- *; try contradiction.
  - apply SO3_matrix in H. destruct H as [H D]. apply isR3_orth; [apply isrot_tol_ok | exact H | rewrite D; lra].
  - apply isR3_far; [apply isrot_tol_ok | exact H].
  - destruct H as [H D]. apply isR3_neg. rewrite D. lra.
Qed.
Print Assumptions C07_bridge_SO3.
Theorem C07_bridge_SO2 : forall t A, tagged_rot2 t A -> isrot2 Rops true (isR_tol Rops) A = rot_ok t.
Proof.
  intros t A H. unfold isrot2. cbn [negb orb]. destruct t; cbn [tagged_rot3 tagged_rot2 tagged_hom4 tagged_hom3 tagged_unit4 tagged_alg4 rot_ok hom_ok unit_ok alg_ok] in H |- *; try contradiction.
  - apply SO2_matrix in H. destruct H as [H D]. apply isR2_orth; [apply isR_tol_ok | exact H | rewrite D; lra].
  - apply isR2_far; [apply isR_tol_ok | exact H].
  - destruct H as [H D]. apply isR2_neg. rewrite D. lra.
Qed.
Print Assumptions C07_bridge_SO2.
Theorem C07_bridge_SE3 : forall t A, tagged_hom4 t A -> ishom Rops true (ishom_tol Rops) A = hom_ok t.
Proof.
  intros t A H. unfold ishom. cbn [negb orb]. destruct t; cbn [tagged_rot3 tagged_rot2 tagged_hom4 tagged_hom3 tagged_unit4 tagged_alg4 rot_ok hom_ok unit_ok alg_ok] in H |- *; try contradiction.
  - destruct H as [H L]. apply SO3_matrix in H. destruct H as [H D]. rewrite L, row_eq4_refl, andb_true_r.
    apply isR3_orth; [apply ishom_tol_ok | exact H | rewrite D; lra].
  - rewrite (isR3_far _ _ ishom_tol_ok H). reflexivity.
  - destruct H as [[H D] L]. rewrite (isR3_neg (ishom_tol Rops) (t2r3 A)); [reflexivity | rewrite D; lra].
  - change (zero Rops) with 0. change (one Rops) with 1. rewrite (row_eq4_neq _ _ _ _ _ H). apply andb_false_r.
Qed.
Print Assumptions C07_bridge_SE3.
Theorem C07_bridge_SE2 : forall t A, tagged_hom3 t A -> ishom2 Rops true (isR_tol Rops) A = hom_ok t.
Proof.
  intros t A H. unfold ishom2. cbn [negb orb]. destruct t; cbn [tagged_rot3 tagged_rot2 tagged_hom4 tagged_hom3 tagged_unit4 tagged_alg4 rot_ok hom_ok unit_ok alg_ok] in H |- *; try contradiction.
  - destruct H as [H L]. apply SO2_matrix in H. destruct H as [H D]. rewrite L, row_eq3_refl, andb_true_r.
    apply isR2_orth; [apply isR_tol_ok | exact H | rewrite D; lra].
  - rewrite (isR2_far _ _ isR_tol_ok H). reflexivity.
  - destruct H as [[H D] L]. rewrite (isR2_neg (isR_tol Rops) (t2r2 A)); [reflexivity | rewrite D; lra].
  - change (zero Rops) with 0. change (one Rops) with 1. rewrite (row_eq3_neq _ _ _ _ H). apply andb_false_r.
Qed.
Print Assumptions C07_bridge_SE2.
Theorem C07_bridge_UQ : forall t q, tagged_unit4 t q -> uq_isvalid Rops true (isunitvec_tol Rops) q = unit_ok t.
Proof.
  intros t q H. unfold uq_isvalid. cbn [negb orb]. destruct t; cbn [tagged_rot3 tagged_rot2 tagged_hom4 tagged_hom3 tagged_unit4 tagged_alg4 rot_ok hom_ok unit_ok alg_ok] in H |- *; try contradiction.
  - apply C07_isunitvec4_complete, H.
  - apply C07_isunitvec4_band, H.
Qed.
Print Assumptions C07_bridge_UQ.
Theorem C07_bridge_Twist3 : forall t A, tagged_alg4 t A ->
  tw3_isvalid_mat Rops true (iszerovec_tol Rops) (isskew_tol Rops) A = alg_ok t.
Proof.
  intros t A H. unfold tw3_isvalid_mat. cbn [negb orb]. destruct t; cbn [tagged_rot3 tagged_rot2 tagged_hom4 tagged_hom3 tagged_unit4 tagged_alg4 rot_ok hom_ok unit_ok alg_ok] in H |- *; try contradiction.
  - destruct H as [H L].
    assert (Hd : diag4 A = (0,0,0,0)).
    { destruct A as [[[[[[a00 a01] a02] a03] [[[a10 a11] a12] a13]] [[[a20 a21] a22] a23]] [[[a30 a31] a32] a33]].
      c07_simpl. injection H; intros. injection L; intros. subst. repeat f_equal; lra. }
    rewrite Hd, L. unfold isskew3, skew_defect3. rewrite H. unfold iszerovec4. change (ltb Rops) with Rltb.
    assert (Z4 : norm4 Rops (0,0,0,0) = 0) by (c07_simpl; apply sqrt_sumsq_zero; ring).
    assert (Z3 : fro33 Rops (Z33 Rops) = 0) by (c07_simpl; apply sqrt_sumsq_zero; ring).
    rewrite Z4, Z3, (below_thr _ _ iszerovec_tol_ok eq_refl), (below_thr _ _ isskew_tol_ok eq_refl). reflexivity.
  - destruct H as [H|[H|H]].
    + unfold isskew3. rewrite ltb_R, (above_band _ _ isskew_tol_ok H). apply andb_false_r.
    + unfold iszerovec4 at 1. rewrite ltb_R, (above_band _ _ iszerovec_tol_ok H). reflexivity.
    + unfold iszerovec4 at 2. rewrite ltb_R, (above_band _ _ iszerovec_tol_ok H). rewrite andb_false_r. reflexivity.
Qed.
Print Assumptions C07_bridge_Twist3.
Example C07_bridge_nonvacuous :
  tagged_rot3 Reflect refl3 /\ tagged_hom4 BadRow ((1,0,0,0),(0,1,0,0),(0,0,1,0),(0,0,0,2)) /\
  tagged_alg4 Valid ((0,-3,2,4),(3,0,-1,5),(-2,1,0,6),(0,0,0,0)) /\ tagged_unit4 Valid (1,0,0,0).
Proof.
  split; [exact C07_reflection_nonvacuous|]. split; [cbn; intros H; injection H; intros; lra|]. split.
  - split; [lin_simpl; tuple_eq ltac:(ring) | reflexivity].
  - cbn. lin_simpl. ring.
Qed.
