(* C12 (exp / log part) -- "exp(log(q)) = q for every q with non-zero vector part while log(exp(q)) = q
   when the vector part has norm in (0, pi)", to 1e-6.

   The statements are about the hand model Model/C12_ExpLog.v of Quaternion.exp / Quaternion.log
   (branch for branch, errors as results) instantiated with the thresholds C12_thr that props/C12.py
   REGENERATES from the source AST on every run (coq/gen/Consts_C12.v); the model is tied to the
   implementation by the numeric correspondence on directed inputs (Gen.model, T-num) and its branch
   skeleton by the AST pass.  Over R (L-real); floating-point residuals are measured by the oracle.

   Faithful model => the full-strength statements are FALSE (the code raises TypeError when the vector part
   handed to unitvec is at or below its threshold) and exp re-normalises inside a band: each statement is
   given as  _refuted (witness)  +  _partial (guarded)  /  _band (what is returned instead, with its error). *)
From Coq Require Import Reals ZArith Lra Lia.
From SM Require Import Base.Ops Base.Lin Base.RInst Model.C12_ExpLog Model.C12_ExpLogR.
From SMgen Require Import Consts_C12.
Open Scope R_scope.

Definition KR : qthr R := C12_thr Rops.
Notation texp := (t_exp KR).
Notation tuv := (t_unitvec KR).
Notation tun := (t_unit KR).

(* ---- side conditions on the REGENERATED thresholds: a changed constant breaks this theorem ----
   2 * t_exp is the relative error exp() commits inside its re-normalisation band (C12_exp_log_band below):
   it must stay three decades under the property's tolerance 1e-6;  t_unitvec bounds the set of non-zero
   vector parts on which log() raises: it must stay under the smallest vector norm 1e-12 of the oracle's domain *)
Theorem C12_thresholds_small :
  0 < texp /\ 2 * texp <= 1 / 1000000000 /\ 0 < tuv /\ tuv <= 1 / 1000000000000 /\ 0 < tun /\ tun <= 1 / 2.
Proof. unfold KR, C12_thr; sm_simpl; cbn [t_exp t_unitvec t_unit]; repeat split; lra. Qed.
Print Assumptions C12_thresholds_small.

Ltac thr := destruct C12_thresholds_small as (Hte0 & Hte & Htu0 & Htu & Htn0 & Htn).

(* ================================================================ exp(log q) *)
(* full statement (FALSE of the code as it is):
     forall q, vector part of q <> 0 -> exp(log q) = q                                        *)
Theorem C12_exp_log_refuted : exists s x y z : R,
  nv3 x y z <> 0 /\ qexp_log Rops KR (s,x,y,z) = TypeErr.
Proof.
  thr. exists 1, (tuv / 2), 0, 0.
  assert (Hn : nv3 (tuv / 2) 0 0 = tuv / 2) by (apply nv3_axis; lra).
  split; [rewrite Hn; lra|].
  unfold qexp_log. rewrite qlog_R_none; [reflexivity | rewrite Hn; lra |].
  pose proof (nq4_sq 1 (tuv/2) 0 0). pose proof (nq4_nonneg 1 (tuv/2) 0 0). pose proof (nv3_nonneg (tuv/2) 0 0). nra.
Qed.
Print Assumptions C12_exp_log_refuted.

(* every q whose vector part is at or below the unitvec threshold (the real quaternions among them): TypeError *)
Theorem C12_exp_log_raises_below_threshold : forall s x y z : R,
  nv3 x y z <= tuv -> 0 < nq4 s x y z -> qexp_log Rops KR (s,x,y,z) = TypeErr.
Proof. intros. unfold qexp_log. rewrite qlog_R_none by assumption. reflexivity. Qed.
Print Assumptions C12_exp_log_raises_below_threshold.

(* guarded: vector part above the unitvec threshold, |q| outside the band | ln|q| | < t_exp: exactly q *)
Theorem C12_exp_log_partial : forall s x y z : R,
  tuv < nv3 x y z -> texp <= Rabs (ln (nq4 s x y z)) ->
  qexp_log Rops KR (s,x,y,z) = Ok (s,x,y,z).
Proof.
  intros s x y z Hn Hb. thr. rewrite qexp_log_R by lra.
  replace (Rltb (Rabs (ln (nq4 s x y z))) texp) with false by (symmetry; apply Rltb_false; lra). reflexivity.
Qed.
Print Assumptions C12_exp_log_partial.

(* inside the band exp returns a UnitQuaternion: q / |q|, a relative error below 2 t_exp *)
Theorem C12_exp_log_band : forall s x y z : R,
  tuv < nv3 x y z -> Rabs (ln (nq4 s x y z)) < texp ->
  let N := nq4 s x y z in
  qexp_log Rops KR (s,x,y,z) = Ok (s / N, x / N, y / N, z / N) /\ Rabs (/ N - 1) < 2 * texp.
Proof.
  intros s x y z Hn Hb N. thr. assert (Hn0 : 0 < nv3 x y z) by lra.
  destruct (nq4_gt_s s x y z Hn0) as [HN _].
  destruct (ln_band (nq4 s x y z) texp HN Hb) as [Hlow Herr]; [lra|].
  split; [|exact Herr].
  rewrite qexp_log_R by lra.
  replace (Rltb (Rabs (ln (nq4 s x y z))) texp) with true by (symmetry; apply Rltb_true; lra).
  rewrite qunit_R by lra. reflexivity.
Qed.
Print Assumptions C12_exp_log_band.

(* both cases: exp(log q) = c q with |c - 1| <= 1e-9 (three decades inside the property's 1e-6) *)
Theorem C12_exp_log_within_tol : forall s x y z : R,
  tuv < nv3 x y z ->
  exists c : R, qexp_log Rops KR (s,x,y,z) = Ok (c * s, c * x, c * y, c * z) /\ Rabs (c - 1) <= 1 / 1000000000.
Proof.
  intros s x y z Hn. thr.
  destruct (Rlt_dec (Rabs (ln (nq4 s x y z))) texp) as [Hb|Hb].
  - destruct (C12_exp_log_band s x y z Hn Hb) as [E B]. exists (/ nq4 s x y z). split; [|lra].
    rewrite E. unfold Rdiv. f_equal. tuple_eq ltac:(ring).
  - exists 1. split; [rewrite C12_exp_log_partial by lra; f_equal; tuple_eq ltac:(ring)|].
    replace (1 - 1) with 0 by ring. rewrite Rabs_R0. lra.
Qed.
Print Assumptions C12_exp_log_within_tol.

(* ================================================================ log(exp q) *)
(* full statement (FALSE of the code as it is):
     forall q = (s, v), 0 < |v| < pi -> log(exp q) = q                                        *)
Theorem C12_log_exp_refuted : exists s x y z : R,
  0 < nv3 x y z < PI /\ qlog_exp Rops KR (s,x,y,z) = TypeErr.
Proof.
  thr. exists 1, (tuv / 3), 0, 0.
  assert (Hn : nv3 (tuv / 3) 0 0 = tuv / 3) by (apply nv3_axis; lra).
  pose proof PI2_3_2.
  assert (Hr : 0 < nv3 (tuv / 3) 0 0 < PI) by (rewrite Hn; lra).
  split; [exact Hr|].
  apply qlog_exp_none_R; [exact Hr | rewrite Rabs_R1; lra |].
  rewrite Hn. pose proof (sin_lt_x (tuv / 3)). pose proof exp_le_3. pose proof (exp_pos 1).
  assert (0 < sin (tuv / 3)) by (apply sin_gt_0; lra). nra.
Qed.
Print Assumptions C12_log_exp_refuted.

(* guarded: |v| in (0, pi), |s| outside the band, e^s sin|v| above the unitvec threshold: exactly q *)
Theorem C12_log_exp_partial : forall s x y z : R,
  0 < nv3 x y z < PI -> texp <= Rabs s -> tuv < exp s * sin (nv3 x y z) ->
  qlog_exp Rops KR (s,x,y,z) = Ok (s,x,y,z).
Proof. intros. thr. apply qlog_exp_R; [lra | assumption | assumption | assumption]. Qed.
Print Assumptions C12_log_exp_partial.

(* inside the band |s| < t_exp the scalar part is lost: (0, v) instead of (s, v), an absolute error |s| < t_exp *)
Theorem C12_log_exp_band : forall s x y z : R,
  0 < nv3 x y z < PI -> Rabs s < texp -> tuv < sin (nv3 x y z) ->
  qlog_exp Rops KR (s,x,y,z) = Ok (0,x,y,z).
Proof. intros. thr. apply qlog_exp_band_R; try assumption; lra. Qed.
Print Assumptions C12_log_exp_band.

Theorem C12_log_exp_within_tol : forall s x y z : R,
  0 < nv3 x y z < PI -> tuv < exp s * sin (nv3 x y z) -> tuv < sin (nv3 x y z) ->
  exists d : R, qlog_exp Rops KR (s,x,y,z) = Ok (s - d, x, y, z) /\ Rabs d <= 1 / 1000000000.
Proof.
  intros s x y z Hn H1 H2. thr.
  destruct (Rlt_dec (Rabs s) texp) as [Hb|Hb].
  - exists s. split; [|lra]. rewrite C12_log_exp_band by assumption. f_equal. tuple_eq ltac:(ring).
  - exists 0. split; [|rewrite Rabs_R0; lra]. rewrite C12_log_exp_partial by (try assumption; lra). f_equal. tuple_eq ltac:(ring).
Qed.
Print Assumptions C12_log_exp_within_tol.

(* outside the property's domain, recorded because the model has the branch: exp of a real quaternion is
   NaN (division of the vector part by its norm 0), the class of exp's result is decided by |s| < t_exp *)
Theorem C12_exp_real_is_nan : forall s : R, qexp Rops KR (s,0,0,0) = NanRes.
Proof. intros. apply qexp_R_nan. apply nv3_zero. Qed.
Print Assumptions C12_exp_real_is_nan.

Theorem C12_exp_class : forall s x y z : R, 0 < nv3 x y z ->
  qexp_is_unit Rops KR (s,x,y,z) = true -> Rabs s < texp.
Proof.
  intros s x y z Hn. unfold qexp_is_unit. rewrite qexp_R by assumption. cbv zeta.
  destruct (Rltb (Rabs s) texp) eqn:E; [intros _; apply Rltb_true; exact E | discriminate].
Qed.
Print Assumptions C12_exp_class.

(* ================================================================ non-vacuity of the hypotheses *)
Example C12_exp_log_partial_nonvacuous :
  tuv < nv3 3 0 0 /\ texp <= Rabs (ln (nq4 0 3 0 0)) /\ qexp_log Rops KR (0,3,0,0) = Ok (0,3,0,0).
Proof.
  thr. assert (Hn : nv3 3 0 0 = 3) by (apply nv3_axis; lra). assert (HN : nq4 0 3 0 0 = 3) by (apply nq4_axis; lra).
  assert (Hl : 1 <= ln 3).
  { rewrite <- (ln_exp 1). destruct exp_le_3 as [Hlt|Heq]; [apply Rlt_le, ln_increasing; [apply exp_pos | exact Hlt] | rewrite Heq; lra]. }
  assert (A : tuv < nv3 3 0 0) by (rewrite Hn; lra).
  assert (B : texp <= Rabs (ln (nq4 0 3 0 0))) by (rewrite HN, Rabs_right; lra).
  repeat split; [exact A | exact B | apply C12_exp_log_partial; assumption].
Qed.

Example C12_exp_log_band_nonvacuous :
  tuv < nv3 1 0 0 /\ Rabs (ln (nq4 0 1 0 0)) < texp.
Proof.
  thr. rewrite (nv3_axis 1), (nq4_axis 1), ln_1, Rabs_R0 by lra. split; lra.
Qed.

Example C12_log_exp_partial_nonvacuous :
  0 < nv3 (PI/2) 0 0 < PI /\ texp <= Rabs 1 /\ tuv < exp 1 * sin (nv3 (PI/2) 0 0).
Proof.
  thr. pose proof PI_RGT_0. rewrite (nv3_axis (PI/2)) by lra. rewrite sin_PI2, Rabs_R1.
  pose proof (exp_ineq1 1). repeat split; lra.
Qed.

Example C12_log_exp_band_nonvacuous :
  0 < nv3 (PI/2) 0 0 < PI /\ Rabs 0 < texp /\ tuv < sin (nv3 (PI/2) 0 0).
Proof.
  thr. pose proof PI_RGT_0. rewrite (nv3_axis (PI/2)) by lra. rewrite sin_PI2, Rabs_R0. repeat split; lra.
Qed.
