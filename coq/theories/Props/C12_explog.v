(* C12 (exp / log part) -- "exp(log(q)) = q for every q with non-zero vector part while log(exp(q)) = q
   when the vector part has norm in (0, pi)", to 1e-6.

   The statements are about the hand model Model/C12_ExpLog.v of Quaternion.exp / Quaternion.log
   (branch for branch, errors as results) instantiated with the thresholds C12_thr that props/C12.py
   REGENERATES from the source AST on every run (coq/gen/Consts_C12.v); the model is tied to the
   implementation by the numeric correspondence on directed inputs (Gen.model, T-num) and its branch
   skeleton by the AST pass.  Over R (L-real); floating-point residuals are measured by the oracle.

   After the repairs b361ecf (log takes the angle by atan2 and the direction as v/|v|, no threshold) and
   dbb1296 (exp of a real quaternion) the round trips hold for EVERY q of the property's domain; the only
   deviation left is the deliberate one of exp(): for |s| < t_exp (100 eps) its result is a UnitQuaternion,
   i.e. normalised -- a relative error below 2 t_exp <= 1e-9, three decades inside the property's tolerance. *)
From Coq Require Import Reals ZArith Lra Lia.
From SM Require Import Base.Ops Base.Lin Base.RInst Model.C12_ExpLog Model.C12_ExpLogR.
From SMgen Require Import Consts_C12.
Open Scope R_scope.

Definition KR : qthr R := C12_thr Rops.
Notation texp := (t_exp KR).
Notation tun := (t_unit KR).

(* ---- side conditions on the REGENERATED thresholds: a changed constant breaks this theorem ----
   2 * t_exp is the relative error exp() commits inside its re-normalisation band (C12_exp_log_band below):
   it must stay three decades under the property's tolerance 1e-6 *)
Theorem C12_thresholds_small :
  0 < texp /\ 2 * texp <= 1 / 1000000000 /\ 0 < tun /\ tun <= 1 / 2.
Proof. unfold KR, C12_thr; sm_simpl; cbn [t_exp t_unit]; repeat split; lra. Qed.
Print Assumptions C12_thresholds_small.

Ltac thr := destruct C12_thresholds_small as (Hte0 & Hte & Htn0 & Htn).

(* ================================================================ exp(log q) *)
(* every q with non-zero vector part, |q| outside the band | ln|q| | < t_exp: exactly q *)
Theorem C12_exp_log : forall s x y z : R,
  0 < nv3 x y z -> texp <= Rabs (ln (nq4 s x y z)) ->
  qexp_log Rops KR (s,x,y,z) = Ok (s,x,y,z).
Proof.
  intros s x y z Hn Hb. rewrite qexp_log_R by assumption.
  replace (Rltb (Rabs (ln (nq4 s x y z))) texp) with false by (symmetry; apply Rltb_false; lra). reflexivity.
Qed.
Print Assumptions C12_exp_log.

(* inside the band exp returns a UnitQuaternion: q / |q|, a relative error below 2 t_exp *)
Theorem C12_exp_log_band : forall s x y z : R,
  0 < nv3 x y z -> Rabs (ln (nq4 s x y z)) < texp ->
  let N := nq4 s x y z in
  qexp_log Rops KR (s,x,y,z) = Ok (s / N, x / N, y / N, z / N) /\ Rabs (/ N - 1) < 2 * texp.
Proof.
  intros s x y z Hn0 Hb N. thr.
  destruct (nq4_gt_s s x y z Hn0) as [HN _].
  destruct (ln_band (nq4 s x y z) texp HN Hb) as [Hlow Herr]; [lra|].
  split; [|exact Herr].
  rewrite qexp_log_R by assumption.
  replace (Rltb (Rabs (ln (nq4 s x y z))) texp) with true by (symmetry; apply Rltb_true; lra).
  rewrite qunit_R by lra. reflexivity.
Qed.
Print Assumptions C12_exp_log_band.

(* the FULL statement, for every q with non-zero vector part: exp(log q) = c q with |c - 1| <= 1e-9 *)
Theorem C12_exp_log_full : forall s x y z : R,
  nv3 x y z <> 0 ->
  exists c : R, qexp_log Rops KR (s,x,y,z) = Ok (c * s, c * x, c * y, c * z) /\ Rabs (c - 1) <= 1 / 1000000000.
Proof.
  intros s x y z Hn. thr. assert (Hn0 : 0 < nv3 x y z) by (pose proof (nv3_nonneg x y z); lra).
  destruct (Rlt_dec (Rabs (ln (nq4 s x y z))) texp) as [Hb|Hb].
  - destruct (C12_exp_log_band s x y z Hn0 Hb) as [E B]. exists (/ nq4 s x y z). split; [|lra].
    rewrite E. unfold Rdiv. f_equal. tuple_eq ltac:(ring).
  - exists 1. split; [rewrite C12_exp_log by lra; f_equal; tuple_eq ltac:(ring)|].
    replace (1 - 1) with 0 by ring. rewrite Rabs_R0. lra.
Qed.
Print Assumptions C12_exp_log_full.

(* ================================================================ log(exp q) *)
(* every q = (s, v) with |v| in (0, pi), |s| outside the band: exactly q *)
Theorem C12_log_exp : forall s x y z : R,
  0 < nv3 x y z < PI -> texp <= Rabs s ->
  qlog_exp Rops KR (s,x,y,z) = Ok (s,x,y,z).
Proof. intros. apply qlog_exp_R; assumption. Qed.
Print Assumptions C12_log_exp.

(* inside the band |s| < t_exp the scalar part is lost: (0, v) instead of (s, v), an absolute error |s| < t_exp *)
Theorem C12_log_exp_band : forall s x y z : R,
  0 < nv3 x y z < PI -> Rabs s < texp ->
  qlog_exp Rops KR (s,x,y,z) = Ok (0,x,y,z).
Proof. intros. thr. apply qlog_exp_band_R; try assumption; lra. Qed.
Print Assumptions C12_log_exp_band.

(* the FULL statement, for every q with |v| in (0, pi): log(exp q) = (s - d, v) with |d| <= 1e-9 *)
Theorem C12_log_exp_full : forall s x y z : R,
  0 < nv3 x y z < PI ->
  exists d : R, qlog_exp Rops KR (s,x,y,z) = Ok (s - d, x, y, z) /\ Rabs d <= 1 / 1000000000.
Proof.
  intros s x y z Hn. thr.
  destruct (Rlt_dec (Rabs s) texp) as [Hb|Hb].
  - exists s. split; [|lra]. rewrite C12_log_exp_band by assumption. f_equal. tuple_eq ltac:(ring).
  - exists 0. split; [|rewrite Rabs_R0; lra]. rewrite C12_log_exp by (try assumption; lra). f_equal. tuple_eq ltac:(ring).
Qed.
Print Assumptions C12_log_exp_full.

(* ================================================================ real quaternions (outside the property's
   round-trip domain; the repaired branches of the code) *)
Theorem C12_log_real : forall s : R,
  (0 < s -> qlog Rops (s,0,0,0) = Ok (ln s, 0, 0, 0)) /\ (s <= 0 -> qlog Rops (s,0,0,0) = ValueErr).
Proof. intros s; split; intros H; [apply qlog_R_real_pos | apply qlog_R_real_neg]; exact H. Qed.
Print Assumptions C12_log_real.

Theorem C12_exp_real : forall s : R, texp <= Rabs s ->
  qexp Rops KR (s,0,0,0) = Ok (false, (exp s, 0, 0, 0)).
Proof.
  intros s H. rewrite qexp_R_real.
  replace (Rltb (Rabs s) texp) with false by (symmetry; apply Rltb_false; lra). reflexivity.
Qed.
Print Assumptions C12_exp_real.

Theorem C12_exp_real_band : forall s : R, Rabs s < texp ->
  qexp Rops KR (s,0,0,0) = Ok (true, (1, 0, 0, 0)) /\ Rabs (exp s - 1) < 2 * texp.
Proof.
  intros s H. thr. pose proof (exp_pos s) as He.
  assert (Hb : Rabs (ln (exp s)) < texp) by (rewrite ln_exp; exact H).
  destruct (ln_band (exp s) texp He Hb) as [Hlow _]; [lra|].
  split.
  - rewrite qexp_R_real.
    replace (Rltb (Rabs s) texp) with true by (symmetry; apply Rltb_true; lra).
    rewrite qunit_R by (rewrite nq4_real, Rabs_right; lra). cbv zeta. rewrite nq4_real, Rabs_right by lra.
    cbn [qbind]. repeat f_equal; field; lra.
  - (* e^{-t} < e^s < e^t *)
    apply Rabs_def2 in H. destruct H as [H1 H2].
    assert (E1 : exp (- texp) < exp s) by (apply exp_increasing; lra).
    assert (E2 : exp s < exp texp) by (apply exp_increasing; lra).
    pose proof (exp_ineq1 (- texp)). pose proof (exp_ineq1 texp).
    assert (P : exp (- texp) * exp texp = 1) by (rewrite <- exp_plus; replace (- texp + texp) with 0 by ring; apply exp_0).
    pose proof (exp_pos texp). pose proof (exp_pos (- texp)).
    assert (U : exp texp * (1 - texp) < 1) by nra.
    apply Rabs_def1; nra.
Qed.
Print Assumptions C12_exp_real_band.

(* both round trips on positive real quaternions outside the bands *)
Theorem C12_real_round_trips : forall s : R,
  (0 < s -> texp <= Rabs (ln s) -> qexp_log Rops KR (s,0,0,0) = Ok (s,0,0,0)) /\
  (texp <= Rabs s -> qlog_exp Rops KR (s,0,0,0) = Ok (s,0,0,0)).
Proof.
  intros s; split.
  - intros Hs Hb. unfold qexp_log. rewrite qlog_R_real_pos by exact Hs. cbn [qbind]. unfold qexp_vec.
    rewrite C12_exp_real by exact Hb. cbn [qbind snd]. rewrite exp_ln by exact Hs. reflexivity.
  - intros Hb. unfold qlog_exp, qexp_vec. rewrite C12_exp_real by exact Hb. cbn [qbind snd].
    rewrite qlog_R_real_pos by apply exp_pos. rewrite ln_exp. reflexivity.
Qed.
Print Assumptions C12_real_round_trips.

Theorem C12_exp_class : forall s x y z : R, 0 < nv3 x y z ->
  qexp_is_unit Rops KR (s,x,y,z) = true -> Rabs s < texp.
Proof.
  intros s x y z Hn. unfold qexp_is_unit. rewrite qexp_R by assumption. cbv zeta.
  destruct (Rltb (Rabs s) texp) eqn:E; [intros _; apply Rltb_true; exact E | discriminate].
Qed.
Print Assumptions C12_exp_class.

(* ================================================================ non-vacuity of the hypotheses *)
Example C12_exp_log_nonvacuous :
  0 < nv3 3 0 0 /\ texp <= Rabs (ln (nq4 0 3 0 0)) /\ qexp_log Rops KR (0,3,0,0) = Ok (0,3,0,0).
Proof.
  thr. assert (Hn : nv3 3 0 0 = 3) by (apply nv3_axis; lra). assert (HN : nq4 0 3 0 0 = 3) by (apply nq4_axis; lra).
  assert (Hl : 1 <= ln 3).
  { rewrite <- (ln_exp 1). destruct exp_le_3 as [Hlt|Heq]; [apply Rlt_le, ln_increasing; [apply exp_pos | exact Hlt] | rewrite Heq; lra]. }
  assert (A : 0 < nv3 3 0 0) by (rewrite Hn; lra).
  assert (B : texp <= Rabs (ln (nq4 0 3 0 0))) by (rewrite HN, Rabs_right; lra).
  repeat split; [exact A | exact B | apply C12_exp_log; assumption].
Qed.

Example C12_exp_log_band_nonvacuous :
  0 < nv3 1 0 0 /\ Rabs (ln (nq4 0 1 0 0)) < texp.
Proof.
  thr. rewrite (nv3_axis 1), (nq4_axis 1), ln_1, Rabs_R0 by lra. split; lra.
Qed.

(* a vector part far below every former threshold is in the domain *)
Example C12_exp_log_tiny_vector_part :
  qexp_log Rops KR (0, / 1000000000000000000000000000000, 0, 0) <> TypeErr /\
  0 < nv3 (/ 1000000000000000000000000000000) 0 0.
Proof.
  assert (Hn : nv3 (/ 1000000000000000000000000000000) 0 0 = / 1000000000000000000000000000000) by (apply nv3_axis; lra).
  split; [|rewrite Hn; lra].
  assert (H0 : nv3 (/ 1000000000000000000000000000000) 0 0 <> 0) by (rewrite Hn; lra).
  destruct (C12_exp_log_full 0 (/ 1000000000000000000000000000000) 0 0 H0) as (c & E & _). rewrite E. discriminate.
Qed.

Example C12_log_exp_nonvacuous :
  0 < nv3 (PI/2) 0 0 < PI /\ texp <= Rabs 1.
Proof.
  thr. pose proof PI_RGT_0. rewrite (nv3_axis (PI/2)) by lra. rewrite Rabs_R1. repeat split; lra.
Qed.

Example C12_log_exp_band_nonvacuous :
  0 < nv3 (PI/2) 0 0 < PI /\ Rabs 0 < texp.
Proof.
  thr. pose proof PI_RGT_0. rewrite (nv3_axis (PI/2)) by lra. rewrite Rabs_R0. repeat split; lra.
Qed.
