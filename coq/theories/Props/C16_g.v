(* C16 (g) -- norms and unit vectors of structurally DEGENERATE symbolic vectors (a single symbolic component with literal
   zeros, 1- and 2-vectors, a repeated symbol, a monomial).  The symbolic result must be the square root of the sum of
   squares for EVERY sign of the symbols: sqrt(x^2) is |x|, never x.  A symbolic simplification that drops the absolute
   value agrees with the numeric path only for x >= 0 and breaks these theorems. *)
From Coq Require Import Reals ZArith Lra List.
From SM Require Import Base.Ops Base.Lin Base.RInst Base.RLin Model.C16_struct Model.C16_ref.
From SMgen Require Import Traces_C16.
Import ListNotations.
Open Scope R_scope.

Ltac gen_unf := intros; destruct_tuples; autounfold with smgen smref smlin; sm_simpl.

Lemma sqrt_sq_abs : forall x : R, sqrt (x * x) = Rabs x.
Proof. intros x. rewrite <- (sqrt_Rsqr_abs x). reflexivity. Qed.

(* the general statement: the trace is sqrt of the sum of squares; and the Rabs form of the one-component cases *)
Theorem C16_norm_degenerate : forall x y : R,
  tr_norm3_x00 Rops x = norm3 Rops (x,0,0) /\ tr_norm3_x00 Rops x = Rabs x /\
  tr_norm1 Rops x = sqrt (x * x) /\ tr_norm1 Rops x = Rabs x /\
  tr_norm2 Rops x y = sqrt (x * x + y * y) /\
  tr_norm3_xxx Rops x = norm3 Rops (x,x,x) /\
  tr_norm3_mono Rops x y = norm3 Rops (x * y, y, 0) /\
  tr_normsq3_x00 Rops x = normsq3 Rops (x,0,0).
Proof.
  intros x y.
  assert (A1 : tr_norm3_x00 Rops x = Rabs x) by (gen_unf; reflexivity).
  assert (A2 : tr_norm1 Rops x = Rabs x) by (gen_unf; reflexivity).
  split; [|split; [|split; [|split; [|split; [|split; [|split]]]]]].
  - rewrite A1. gen_unf. replace (x * x + 0 * 0 + 0 * 0) with (x * x) by ring. symmetry; apply sqrt_sq_abs.
  - exact A1.
  - rewrite A2. symmetry; apply sqrt_sq_abs.
  - exact A2.
  - gen_unf. f_equal; ring.
  - gen_unf. replace (x * x + x * x + x * x) with (3 * (x * x)) by ring.
    rewrite sqrt_mult_alt by lra. rewrite sqrt_sq_abs. reflexivity.
  - gen_unf. f_equal; ring.
  - gen_unf. ring.
Qed.
Print Assumptions C16_norm_degenerate.

(* the sign content, stated outright: for a NEGATIVE component the norm is -x (> 0) *)
Theorem C16_norm_negative : forall x : R, x < 0 ->
  tr_norm3_x00 Rops x = - x /\ tr_norm1 Rops x = - x /\ 0 < tr_norm3_x00 Rops x.
Proof.
  intros x Hx. destruct (C16_norm_degenerate x 0) as (_ & -> & _ & -> & _).
  rewrite Rabs_left by exact Hx. repeat split; lra.
Qed.
Print Assumptions C16_norm_negative.
Example C16_norm_negative_nonvacuous : (-2 : R) < 0. Proof. lra. Qed.

(* unit vectors: v / |v| in general; (x/|x|, 0, 0) for a single component: it is (-1,0,0) for x < 0 *)
Theorem C16_unitvec_value : forall (v : V3 R) (x : R),
  tr_unitvec3 Rops v = vscale3 Rops (/ norm3 Rops v) v /\
  tr_unitvec3_x00 Rops x = (x / Rabs x, 0, 0) /\ tr_unitvec1 Rops x = x / Rabs x.
Proof. intros; repeat split; gen_unf; unfold Rdiv; tuple_eq ltac:(ring). Qed.
Print Assumptions C16_unitvec_value.

Theorem C16_unitvec_sign : forall x : R,
  (x < 0 -> tr_unitvec3_x00 Rops x = (-1, 0, 0) /\ tr_unitvec1 Rops x = -1) /\
  (0 < x -> tr_unitvec3_x00 Rops x = (1, 0, 0) /\ tr_unitvec1 Rops x = 1).
Proof.
  intros x. destruct (C16_unitvec_value (0,0,0) x) as (_ & -> & ->). split; intros Hx.
  - rewrite Rabs_left by exact Hx. split; [apply f_equal2; [apply f_equal2|]; trivial|]; field; lra.
  - rewrite Rabs_right by lra. split; [apply f_equal2; [apply f_equal2|]; trivial|]; field; lra.
Qed.
Print Assumptions C16_unitvec_sign.

Theorem C16_unitvec_structural : forall (T : Type) (O : ops T) (x : T),
  matches O [Px;P0;P0] (fl3 (tr_unitvec3_x00 O x)).
Proof. intros; repeat split; reflexivity. Qed.
Print Assumptions C16_unitvec_structural.
