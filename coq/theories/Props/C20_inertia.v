(* C20 -- spatial 6-vectors and spatial inertia (values): the spatial inertia.
   Statements are fixed; the tr_* definitions are regenerated from /repo on every run (the library's
   spatialvector.py / SE3.Ad executed on symbols); [spatial_inertia] is the hand model of the constructor
   (Model/C20_Inertia.v) tied to /repo by the numeric correspondence run.
   Layout found in the code: LINEAR part first, (v ; w), (f ; n). *)
From Coq Require Import Reals ZArith Lra Lia Nsatz Psatz Classical.
From SM Require Import Base.Ops Base.Lin Base.RInst Base.RLin Model.C20_Inertia.
From SMgen Require Import Traces_C20.
Open Scope R_scope.

Ltac gen_ring := intros; destruct_tuples; autounfold with smgen smlin; sm_simpl; tuple_eq ltac:(ring).

(* ---------------------------------------------------------------- spatial inertia *)
(* the constructor model is the parallel-axis matrix [[m 1, -m skew c],[m skew c, I + m(|c|^2 1 - c c^T)]] *)
Theorem C20_inertia_parallel_axis : forall (m : R) (c : V3 R) (I : M33 R),
  spatial_inertia Rops m c I = parallel_axis_ref Rops m c I.
Proof. gen_ring. Qed.
Print Assumptions C20_inertia_parallel_axis.

(* symmetric exactly when the rotational inertia is *)
Theorem C20_inertia_symmetric : forall (m : R) (c : V3 R) (I : M33 R),
  mtr33 I = I -> mtr66 (spatial_inertia Rops m c I) = spatial_inertia Rops m c I.
Proof.
  intros m c I H. destruct_tuples. autounfold with smlin in *. sm_simpl. injection H; intros; subst.
  tuple_eq ltac:(try ring).
Qed.
Print Assumptions C20_inertia_symmetric.

Theorem C20_inertia_symmetric_conv : forall (m : R) (c : V3 R) (I : M33 R),
  mtr66 (spatial_inertia Rops m c I) = spatial_inertia Rops m c I -> mtr33 I = I.
Proof.
  intros m c I H. destruct_tuples. autounfold with smlin in *. sm_simpl. injection H; intros.
  tuple_eq ltac:(try lra).
Qed.
Print Assumptions C20_inertia_symmetric_conv.

Example C20_inertia_symmetric_nonvacuous :
  let I := ((3,1,0),(1,4,-1),(0,-1,5)) : M33 R in
  mtr33 I = I /\ spatial_inertia Rops 2 (1,2,3) I =
   ((2,0,0, 0,6,-4), (0,2,0, -6,0,2), (0,0,2, 4,-2,0),
    (0,-6,4, 29,-3,-6), (6,0,-2, -3,24,-13), (-4,2,0, -6,-13,15)).
Proof. split; [reflexivity|]. autounfold with smlin. sm_simpl. tuple_eq ltac:(ring). Qed.

(* kinetic-energy form: x' M x = m |v + skew(c)^T w|^2 + w' I w  (so M is positive definite for m > 0, I > 0) *)
Theorem C20_inertia_quadratic_form : forall (m : R) (c : V3 R) (I : M33 R) (x : V6 R),
  dot6 Rops x (mv66 Rops (spatial_inertia Rops m c I) x) =
  m * normsq3 Rops (vadd3 Rops (lin6 x) (mv33 Rops (mtr33 (skew3 Rops c)) (ang6 x))) + dot3 Rops (ang6 x) (mv33 Rops I (ang6 x)).
Proof. intros; destruct_tuples; autounfold with smlin; sm_simpl; ring. Qed.
Print Assumptions C20_inertia_quadratic_form.

Theorem C20_inertia_positive : forall (m : R) (c : V3 R) (I : M33 R) (x : V6 R),
  0 < m -> (forall w : V3 R, w <> (0,0,0) -> 0 < dot3 Rops w (mv33 Rops I w)) -> x <> (0,0,0,0,0,0) ->
  0 < dot6 Rops x (mv66 Rops (spatial_inertia Rops m c I) x).
Proof.
  intros m c I x Hm HI Hx. rewrite C20_inertia_quadratic_form.
  destruct (classic (ang6 x = (0,0,0))) as [Hz|Hnz].
  - (* no angular part: the linear part is non-zero *)
    destruct x as [[[[[x0 x1] x2] x3] x4] x5]. unfold ang6 in Hz. injection Hz; intros; subst.
    assert (Hl : x0 <> 0 \/ x1 <> 0 \/ x2 <> 0).
    { destruct (Req_dec x0 0); [|tauto]. destruct (Req_dec x1 0); [|tauto]. destruct (Req_dec x2 0); [|tauto].
      subst. exfalso. apply Hx. reflexivity. }
    destruct c as [[c0 c1] c2]. destruct I as [[[[i00 i01] i02] [[i10 i11] i12]] [[i20 i21] i22]].
    autounfold with smlin. sm_simpl.
    assert (0 < x0*x0 + x1*x1 + x2*x2) by (destruct Hl as [H|[H|H]]; nra).
    nra.
  - specialize (HI _ Hnz).
    assert (0 <= normsq3 Rops (vadd3 Rops (lin6 x) (mv33 Rops (mtr33 (skew3 Rops c)) (ang6 x)))).
    { generalize (vadd3 Rops (lin6 x) (mv33 Rops (mtr33 (skew3 Rops c)) (ang6 x))). intros [[a b] d].
      autounfold with smlin. sm_simpl. nra. }
    nra.
Qed.
Print Assumptions C20_inertia_positive.

Example C20_inertia_positive_nonvacuous :
  forall w : V3 R, w <> (0,0,0) -> 0 < dot3 Rops w (mv33 Rops ((2,0,0),(0,3,0),(0,0,4)) w).
Proof.
  intros [[a b] c] H. autounfold with smlin. sm_simpl.
  assert (a <> 0 \/ b <> 0 \/ c <> 0).
  { destruct (Req_dec a 0); [|tauto]. destruct (Req_dec b 0); [|tauto]. destruct (Req_dec c 0); [|tauto].
    subst. exfalso. apply H. reflexivity. }
  destruct H0 as [K|[K|K]]; nra.
Qed.

(* inertias of joined bodies add: the sum of two parallel-axis matrices is the parallel-axis matrix of the
   composite body (total mass, mass-weighted centre, inertias shifted to the common centre) *)
Theorem C20_inertia_sum_is_composite : forall (m1 m2 : R) (c1 c2 : V3 R) (I1 I2 : M33 R),
  m1 + m2 <> 0 ->
  let m := m1 + m2 in
  let c := vscale3 Rops (/ m) (vadd3 Rops (vscale3 Rops m1 c1) (vscale3 Rops m2 c2)) in
  let shift mk ck := let d := vsub3 Rops ck c in
                     mscale33 Rops mk (msub33 Rops (mscale33 Rops (normsq3 Rops d) (I33 Rops)) (outer3 Rops d d)) in
  madd66 Rops (spatial_inertia Rops m1 c1 I1) (spatial_inertia Rops m2 c2 I2) =
  spatial_inertia Rops m c (madd33 Rops (madd33 Rops I1 (shift m1 c1)) (madd33 Rops I2 (shift m2 c2))).
Proof.
  intros m1 m2 c1 c2 I1 I2 Hm. cbv zeta. destruct_tuples. autounfold with smlin. sm_simpl.
  tuple_eq ltac:(try (field; exact Hm)).
Qed.
Print Assumptions C20_inertia_sum_is_composite.

Example C20_inertia_sum_nonvacuous : (2:R) + 3 <> 0.
Proof. lra. Qed.

(* SpatialInertia + SpatialInertia (hand model inertia_add, tied by the numeric correspondence) is the matrix sum:
   commutative, keeps symmetry, and -- with the theorem above -- the inertia of the joined body *)
Theorem C20_inertia_add_is_sum : forall A B : M66 R,
  inertia_add Rops A B = madd66 Rops A B /\ inertia_add Rops A B = inertia_add Rops B A /\
  (mtr66 A = A -> mtr66 B = B -> mtr66 (inertia_add Rops A B) = inertia_add Rops A B).
Proof.
  intros A B. split; [reflexivity|]. split.
  - destruct_tuples. autounfold with smlin. sm_simpl. tuple_eq ltac:(ring).
  - intros HA HB. destruct_tuples. autounfold with smlin in *. sm_simpl.
    injection HA; intros; subst. injection HB; intros; subst. reflexivity.
Qed.
Print Assumptions C20_inertia_add_is_sum.

Theorem C20_inertias_of_joined_bodies_add : forall (m1 m2 : R) (c1 c2 : V3 R) (I1 I2 : M33 R),
  m1 + m2 <> 0 ->
  let m := m1 + m2 in
  let c := vscale3 Rops (/ m) (vadd3 Rops (vscale3 Rops m1 c1) (vscale3 Rops m2 c2)) in
  let shift mk ck := let d := vsub3 Rops ck c in
                     mscale33 Rops mk (msub33 Rops (mscale33 Rops (normsq3 Rops d) (I33 Rops)) (outer3 Rops d d)) in
  inertia_add Rops (spatial_inertia Rops m1 c1 I1) (spatial_inertia Rops m2 c2 I2) =
  spatial_inertia Rops m c (madd33 Rops (madd33 Rops I1 (shift m1 c1)) (madd33 Rops I2 (shift m2 c2))).
Proof. intros. unfold inertia_add. apply C20_inertia_sum_is_composite. assumption. Qed.
Print Assumptions C20_inertias_of_joined_bodies_add.

(* inertia * acceleration and inertia * velocity are the matrix-vector product *)
Theorem C20_inertia_mul : forall (J : M66 R) (a : V6 R),
  tr_I_acc Rops J a = mv66 Rops J a /\ tr_I_vel Rops J a = mv66 Rops J a.
Proof. intros; split; gen_ring. Qed.
Print Assumptions C20_inertia_mul.

(* bridge: where the real constructor does trace (I omitted), the hand model with I = 0 is the trace -- for all m, r *)
Theorem C20_inertia_model_bridge : forall (m : R) (r : V3 R),
  tr_inertia_noI Rops m r = spatial_inertia Rops m r (Z33 Rops).
Proof. gen_ring. Qed.
Print Assumptions C20_inertia_model_bridge.
