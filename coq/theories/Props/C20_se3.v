(* C20 -- spatial 6-vectors and spatial inertia (values): premultiplication by an SE3.
   Statements are fixed; the tr_* definitions are regenerated from /repo on every run (the library's
   spatialvector.py / SE3.Ad executed on symbols); [spatial_inertia] is the hand model of the constructor
   (Model/C20_Inertia.v) tied to /repo by the numeric correspondence run.
   Layout found in the code: LINEAR part first, (v ; w), (f ; n). *)
From Coq Require Import Reals ZArith Lra Lia Nsatz Psatz Classical.
From SM Require Import Base.Ops Base.Lin Base.RInst Base.RLin Model.C20_Inertia.
From SMgen Require Import Traces_C20.
Open Scope R_scope.

Ltac gen_ring := intros; destruct_tuples; autounfold with smgen smlin; sm_simpl; tuple_eq ltac:(ring).

(* ---------------------------------------------------------------- premultiplication by an SE3 *)
Theorem C20_se3_motion : forall (X : M44 R) (a : V6 R),
  tr_se3_Vel Rops X a = mv66 Rops (tr_Ad Rops X) a /\ tr_se3_Acc Rops X a = mv66 Rops (tr_Ad Rops X) a.
Proof. intros; split; gen_ring. Qed.
Print Assumptions C20_se3_motion.

(* the property's (and the library's) convention: forces are premultiplied by the TRANSPOSE of the adjoint *)
Theorem C20_se3_force : forall (X : M44 R) (a : V6 R),
  tr_se3_Frc Rops X a = mv66 Rops (mtr66 (tr_Ad Rops X)) a /\ tr_se3_Mom Rops X a = mv66 Rops (mtr66 (tr_Ad Rops X)) a.
Proof. intros; split; gen_ring. Qed.
Print Assumptions C20_se3_force.

(* consequence of the transpose: (X * f) . m = f . (X * m) *)
Theorem C20_se3_pairing : forall (X : M44 R) (f m : V6 R),
  dot6 Rops (tr_se3_Frc Rops X f) m = dot6 Rops f (tr_se3_Vel Rops X m).
Proof. intros; destruct_tuples; autounfold with smgen smlin; sm_simpl; ring. Qed.
Print Assumptions C20_se3_pairing.

(* SE3.Ad is [R, skew(t) R; 0, R] of the rotation and translation blocks (any 4x4, no group hypothesis needed) *)
Theorem C20_Ad_is_adjoint : forall X : M44 R, tr_Ad Rops X = Ad_ref Rops X.
Proof. gen_ring. Qed.
Print Assumptions C20_Ad_is_adjoint.

(* for a rigid motion the adjoint respects the motion cross product: Ad(T)(v x m) = (Ad(T) v) x (Ad(T) m) *)
Theorem C20_se3_cross_equivariant : forall (X : M44 R) (v m : V6 R), SE3 X ->
  tr_se3_Vel Rops X (tr_crm Rops v m) = tr_crm Rops (tr_se3_Vel Rops X v) (tr_se3_Vel Rops X m).
Proof.
  intros X v m [HR HL]. destruct_tuples. unfold lastrow4 in HL. injection HL; intros; subst.
  unfold t2r3 in HR. so3_facts HR.
  autounfold with smgen smlin. sm_simpl.
  tuple_eq ltac:(timeout 200 nsatz).   (* ~5 s per entry; bounded so that a broken trace fails quickly *)
Qed.
Print Assumptions C20_se3_cross_equivariant.

Example C20_se3_nonvacuous : SE3 ((0,-1,0,1),(1,0,0,2),(0,0,1,3),(0,0,0,1)).
Proof. unfold SE3, t2r3, lastrow4, SO3. split; [repeat split; ring | reflexivity]. Qed.
