(* C16 (f) -- the last two repaired behaviours: pose ** negative integer on symbolic values (fbf47d0) and symbolic
   SE3.Delta (2d89a18).  Same style as C16_a/b: value over R, structure by conversion over an abstract ops record. *)
From Coq Require Import Reals ZArith Lra Nsatz List.
From SM Require Import Base.Ops Base.Lin Base.RInst Base.RLin Model.C16_struct Model.C16_ref.
From SMgen Require Import Traces_C16.
Import ListNotations.
Open Scope R_scope.

Ltac gen_unf := intros; destruct_tuples; unfold trinv_ref in *; autounfold with smgen smref smlin; sm_simpl.
Ltac gen_ring := gen_unf; tuple_eq ltac:(ring).

(* negative integer powers (repaired by fbf47d0: positive power of the closed-form inverse) *)
Theorem C16_negpow_value : forall (X : M44 R) (Rm : M33 R) (E : M33 R) (A : M22 R),
  tr_SE3_powm1 Rops X = trinv_ref X /\ tr_SE3_powm2 Rops X = mmul44 Rops (trinv_ref X) (trinv_ref X) /\
  tr_SO3_powm1 Rops Rm = mtr33 Rm /\ tr_SE2_powm1 Rops E = trinv2_ref Rops E /\ tr_SO2_powm1 Rops A = mtr22 A.
Proof. intros; repeat split; gen_ring. Qed.
Print Assumptions C16_negpow_value.

(* X ** -1 IS X.inv(), syntactically, for the four classes; last row structural *)
Theorem C16_negpow_structural : forall (T : Type) (O : ops T) (X : M44 T) (Rm : M33 T) (E : M33 T) (A : M22 T),
  tr_SE3_powm1 O X = tr_SE3_inv O X /\ tr_SO3_powm1 O Rm = tr_SO3_inv O Rm /\ tr_SE2_powm1 O E = tr_SE2_inv O E /\
  tr_SO2_powm1 O A = tr_SO2_inv O A /\
  matches O (hom44 pat_any33 txxx) (fl44 (tr_SE3_powm1 O X)) /\ matches O (hom44 pat_any33 txxx) (fl44 (tr_SE3_powm2 O X)).
Proof. intros; destruct_tuples; repeat split; reflexivity. Qed.
Print Assumptions C16_negpow_structural.

Theorem C16_negpow_inverse_law : forall X : M44 R, SE3 X ->
  tr_SE3_mul Rops X (tr_SE3_powm1 Rops X) = I44 Rops /\ tr_SE3_mul Rops (tr_SE3_powm1 Rops X) X = I44 Rops.
Proof.
  intros X HX. assert (E : tr_SE3_powm1 Rops X = trinv_ref X) by gen_ring. rewrite E.
  assert (M : forall A B : M44 R, SE3 A -> SE3 B -> tr_SE3_mul Rops A B = mmul44 Rops A B).
  { intros A B HA HB. rewrite (SE3_decompose A HA), (SE3_decompose B HB). gen_ring. }
  rewrite !M by auto using SE3_inv. split; [apply SE3_inv_r | apply SE3_inv_l]; exact HX.
Qed.
Print Assumptions C16_negpow_inverse_law.
Example C16_negpow_nonvacuous : SE3 (rt2tr3 Rops (rotz_cs Rops 0 1) (1,2,3)).
Proof. apply SE3_rt. apply SO3_rotz. ring. Qed.

(* X ** -2 is (X ** -1) * (X ** -1) for every symbolic pose *)
Theorem C16_negpow_compose : forall X : M44 R,
  tr_SE3_powm2 Rops X = tr_SE3_mul Rops (tr_SE3_powm1 Rops X) (tr_SE3_powm1 Rops X).
Proof. gen_ring. Qed.
Print Assumptions C16_negpow_compose.

(* SE3.Delta (repaired by 2d89a18): trnorm of I + [d], for symbols the same closed form as for numbers *)
Ltac norm_sqrt :=
  repeat match goal with
  | |- context [sqrt ?a] =>
      match goal with
      | |- context [sqrt ?b] => tryif constr_eq a b then fail else (replace a with b by ring)
      end
  end.

Theorem C16_SE3_Delta_value : forall d : V6 R, tr_SE3_Delta Rops d = trnorm_ref Rops (delta2tr_ref Rops d).
Proof. gen_unf. unfold Rdiv. norm_sqrt. tuple_eq ltac:(ring). Qed.
Print Assumptions C16_SE3_Delta_value.

Theorem C16_SE3_Delta_structural : forall (T : Type) (O : ops T) (d : V6 T),
  matches O (hom44 pat_any33 txxx) (fl44 (tr_SE3_Delta O d)) /\
  transl3 (tr_SE3_Delta O d) = (let '(x,y,z,_,_,_) := d in (x,y,z)).
Proof. intros; destruct_tuples; repeat split; reflexivity. Qed.
Print Assumptions C16_SE3_Delta_structural.

(* a pure translation increment is the translation; the third column keeps the direction of (d4, -d3, 1) *)
Theorem C16_SE3_Delta_translation : forall x y z : R, tr_SE3_Delta Rops (x,y,z,0,0,0) = transl_ref Rops x y z.
Proof.
  gen_unf.
  repeat match goal with |- context [sqrt ?a] => tryif constr_eq a 1 then fail else (replace a with 1 by ring) end.
  rewrite sqrt_1. tuple_eq ltac:(field).
Qed.
Print Assumptions C16_SE3_Delta_translation.

