(* C08 -- Operators are type-safe: only documented operand pairs produce a result.

   The statements are fixed; [H : hier] (class hierarchy, method-resolution tables, class attributes) is REGENERATED
   from /repo by reflection on every run (gen/Hierarchy_C08.v), and the model (Model/C08_Ops.v: Python's operator protocol
   + one decision function per operator method) is compared with the implementation on every cell on every run.

   The domain is finite and the bound is in every statement: [all_cells] = every ordered pair of operand kinds
   (16 public classes, float, int, 3x3 / 4x4 arrays, a 3-vector) with at least one library object x the 10 operators
   * / + - ** @ == != ^ |  x  {single-valued, 3-valued} = 8320 cells.  Proofs are by [vm_compute] over that
   enumeration, lifted to [forall c, In c all_cells -> ...] with [forallb_forall].

   FULL-STRENGTH STATEMENT (false of the code as it is, see the _refuted theorems):
       forall c, In c all_cells -> conforms (spec_of H c) (model H c) = true
   i.e. a Must cell returns the documented class (freshly computed), a May cell returns it or raises, every other
   arithmetic cell raises.  It is proved under the guard [cause_of H c = None] (C08_table_partial); the guard is
   exact (C08_causes_exact): every excluded cell violates the statement, with the outcome named by its root cause. *)
From Coq Require Import List Bool Arith NArith.
Import ListNotations.
From SM Require Import Model.C08_Ops.
From SMgen Require Import Hierarchy_C08.

Ltac table := apply table_forall; vm_compute; reflexivity.

(* ------------------------------------------------------------------ the domain and the regenerated hierarchy *)
Theorem C08_domain_size : N.of_nat (length all_cells) = 8320%N.
Proof. vm_compute. reflexivity. Qed.
Print Assumptions C08_domain_size.

(* the model is total on the table: no cell reaches a branch the model does not claim to know *)
Theorem C08_model_total : forall c, In c all_cells -> model H c <> Unmodelled.
Proof.
  intros c Hin. apply outcome_beq_false.
  apply (table_forall (fun c => negb (outcome_beq (model H c) Unmodelled))) in Hin.
  - now apply negb_true_iff in Hin.
  - vm_compute. reflexivity.
Qed.
Print Assumptions C08_model_total.

(* ------------------------------------------------------------------ the table *)
(* the property, for every cell that none of the known root causes covers *)
Theorem C08_table_partial : forall c, In c all_cells -> cause_of H c = None -> cell_ok H c = true.
Proof.
  intros c Hin Hc.
  apply (table_forall (fun c => negb (is_none (cause_of H c)) || cell_ok H c)) in Hin.
  - rewrite Hc in Hin. exact Hin.
  - vm_compute. reflexivity.
Qed.
Print Assumptions C08_table_partial.

(* non-vacuity of the guard: 7912 of the 8320 cells satisfy it, among them 145 of the 167 Must cells *)
Example C08_table_partial_nonvacuous :
  N.of_nat (length (filter (fun c => is_none (cause_of H c)) all_cells)) = 7912%N /\
  length (filter (fun c => is_none (cause_of H c) && match spec_of H c with Must _ => true | _ => false end) all_cells) = 145 /\
  cause_of H {| c_n := 3; c_op := Mul; c_l := Obj Twist3; c_r := Obj SE3 |} = None /\
  model H {| c_n := 3; c_op := Mul; c_l := Obj Twist3; c_r := Obj SE3 |} = Value (RObj SE3) Computed.
Proof. vm_compute. repeat split; reflexivity. Qed.

(* the guard is exact: every excluded cell does violate the full statement, and shows the outcome of its root cause *)
Theorem C08_causes_exact : forall c k, In c all_cells -> cause_of H c = Some k ->
  cell_ok H c = false /\ model H c = cause_outcome H k (c_n c) (c_op c) (c_l c) (c_r c).
Proof.
  intros c k Hin Hc.
  apply (table_forall (fun c => match cause_of H c with
                                | None => true
                                | Some k => negb (cell_ok H c) && outcome_beq (model H c) (cause_outcome H k (c_n c) (c_op c) (c_l c) (c_r c))
                                end)) in Hin.
  - rewrite Hc in Hin. apply andb_true_iff in Hin. destruct Hin as [H1 H2].
    split. now apply negb_true_iff in H1. now apply outcome_beq_true.
  - vm_compute. reflexivity.
Qed.
Print Assumptions C08_causes_exact.

(* how many cells each root cause accounts for (408 in all) *)
Theorem C08_cause_census :
  map (fun k => length (filter (fun c => match cause_of H c with Some k' => cause_beq k k' | None => false end) all_cells))
      [Op2FallThrough; IsinstanceAsym; UserListAdd; UserListRepeat; DQMulNone; UserListEq; PluckerEqMulti]
  = [268; 8; 28; 8; 74; 20; 2].
Proof. vm_compute. reflexivity. Qed.
Print Assumptions C08_cause_census.

(* "in particular never None, an identity, or an object holding foreign elements": outside the known root causes an
   arithmetic operator either raises or returns freshly computed elements *)
Theorem C08_no_none_identity_foreign_partial : forall c, In c all_cells -> arith_op (c_op c) = true -> cause_of H c = None ->
  is_computed_or_raise (model H c) = true.
Proof.
  intros c Hin Ha Hc.
  apply (table_forall (fun c => negb (arith_op (c_op c)) || negb (is_none (cause_of H c)) || is_computed_or_raise (model H c))) in Hin.
  - rewrite Ha, Hc in Hin. exact Hin.
  - vm_compute. reflexivity.
Qed.
Print Assumptions C08_no_none_identity_foreign_partial.

(* every pairing the documentation does not define raises (outside the known root causes) *)
Theorem C08_undocumented_raises_partial : forall c, In c all_cells -> spec_of H c = MustRaise -> cause_of H c = None -> model H c = Raise.
Proof.
  intros c Hin Hs Hc. pose proof (C08_table_partial c Hin Hc) as Hok.
  unfold cell_ok in Hok. rewrite Hs in Hok. now apply outcome_beq_true.
Qed.
Print Assumptions C08_undocumented_raises_partial.
Example C08_undocumented_raises_nonvacuous :
  N.of_nat (length (filter (fun c => is_none (cause_of H c) && match spec_of H c with MustRaise => true | _ => false end) all_cells)) = 4266%N.
Proof. vm_compute. reflexivity. Qed.

(* the pairs the property text names return the documented class, freshly computed *)
Theorem C08_documented_pairs_return_partial : forall c r, In c all_cells -> spec_of H c = Must r -> cause_of H c = None ->
  model H c = Value r Computed.
Proof.
  intros c r Hin Hs Hc. pose proof (C08_table_partial c Hin Hc) as Hok.
  unfold cell_ok in Hok. rewrite Hs in Hok. now apply outcome_beq_true.
Qed.
Print Assumptions C08_documented_pairs_return_partial.

(* ------------------------------------------------------------------ the same, on a larger table *)
(* lengths 1..4 and nine further array shapes (2-, 4-, 6-vectors, 2x2, 6x6, 3x5, 2x3, 3x1, 1x3): 28160 cells.  Not part of the
   property's stated domain; it shows that guard and model are not fitted to the 8320 cells (the check also runs the
   implementation on this table in the thorough tier). *)
Theorem C08_extended_table_partial : forall c, In c ext_cells -> cause_of H c = None -> cell_ok H c = true /\ model H c <> Unmodelled.
Proof.
  intros c Hin Hc.
  apply (table_forall (fun c => negb (is_none (cause_of H c)) || (cell_ok H c && negb (outcome_beq (model H c) Unmodelled)))) in Hin.
  - rewrite Hc in Hin. simpl in Hin. apply andb_true_iff in Hin. destruct Hin as [H1 H2].
    split; [exact H1 | apply outcome_beq_false; now apply negb_true_iff in H2].
  - vm_compute. reflexivity.
Qed.
Print Assumptions C08_extended_table_partial.
Theorem C08_extended_causes_exact : forall c k, In c ext_cells -> cause_of H c = Some k ->
  cell_ok H c = false /\ model H c = cause_outcome H k (c_n c) (c_op c) (c_l c) (c_r c).
Proof.
  intros c k Hin Hc.
  apply (table_forall (fun c => match cause_of H c with
                                | None => true
                                | Some k => negb (cell_ok H c) && outcome_beq (model H c) (cause_outcome H k (c_n c) (c_op c) (c_l c) (c_r c))
                                end)) in Hin.
  - rewrite Hc in Hin. apply andb_true_iff in Hin. destruct Hin as [H1 H2].
    split. now apply negb_true_iff in H1. now apply outcome_beq_true.
  - vm_compute. reflexivity.
Qed.
Print Assumptions C08_extended_causes_exact.
Example C08_extended_nonvacuous :
  N.of_nat (length ext_cells) = 28160%N /\ N.of_nat (length (filter (fun c => is_none (cause_of H c)) ext_cells)) = 26974%N.
Proof. vm_compute. split; reflexivity. Qed.

