(* C08 -- Operators are type-safe: only documented operand pairs produce a result.

   The statements are fixed; [H : hier] (class hierarchy, method-resolution tables, class attributes) is REGENERATED
   from /repo by reflection on every run (gen/Hierarchy_C08.v), and the model (Model/C08_Ops.v: Python's operator protocol
   + one decision function per operator method) is compared with the implementation on every cell on every run.

   The domain is finite and the bound is in every statement: [all_cells] = every ordered pair of operand kinds
   (16 public classes, float, int, 3x3 / 4x4 arrays, a 3-vector) with at least one library object x the 10 operators
   * / + - ** @ == != ^ |  x  {single-valued, 3-valued} = 8320 cells.  Proofs are by [vm_compute] over that
   enumeration, lifted to [forall c, In c all_cells -> ...] with [forallb_forall].

   FULL-STRENGTH STATEMENT, now proved without any guard (C08_table):
       forall c, In c all_cells -> conforms (spec_of H c) (model H c) = true
   i.e. a Must cell returns the documented class (freshly computed), a May cell returns it or raises, every other
   arithmetic cell raises.  Before the fix rounds this was false of the code in 438 cells through 10 root causes and the
   theorem carried the guard [cause_of H c = None] with ten _refuted witnesses; every cause has been repaired
   (docs/C08.md lists the commits) and the guard, the cause predicates and the witnesses are gone. *)
From Coq Require Import List Bool Arith NArith.
Import ListNotations.
From SM Require Import Model.C08_Ops.
From SMgen Require Import Hierarchy_C08.

Theorem C08_domain_size : N.of_nat (length all_cells) = 8320%N.
Proof. vm_compute. reflexivity. Qed.
Print Assumptions C08_domain_size.

(* the model is total on the table: no cell reaches a branch the model does not claim to know *)
Theorem C08_model_total : forall c, In c all_cells -> model H c <> Unmodelled.
Proof.
  intros c Hin. apply outcome_beq_false.
  apply (table_forall (fun c => negb (outcome_beq (model H c) Unmodelled))) in Hin.
  - now apply negb_true_iff in Hin.
  - vm_compute. reflexivity.
Qed.
Print Assumptions C08_model_total.

(* ------------------------------------------------------------------ the table: the property, for EVERY cell *)
Theorem C08_table : forall c, In c all_cells -> cell_ok H c = true.
Proof. apply table_forall. vm_compute. reflexivity. Qed.
Print Assumptions C08_table.

(* what the table contains: 167 Must cells, 251 May cells, 4650 cells that must raise, 3252 unconstrained comparisons;
   617 cells return a value *)
Example C08_table_census :
  map (fun p => length (filter p all_cells))
      [ (fun c => match spec_of H c with Must _ => true | _ => false end);
        (fun c => match spec_of H c with May _ => true | _ => false end);
        (fun c => match spec_of H c with MustRaise => true | _ => false end);
        (fun c => match spec_of H c with Free => true | _ => false end);
        (fun c => match model H c with Value _ _ => true | _ => false end) ]
  = [167; 251; 4650; 3252; 617].
Proof. vm_compute. reflexivity. Qed.

(* "in particular never None, an identity, or an object holding foreign elements": on the WHOLE table (comparison
   operators included) an operator either raises or returns freshly computed elements *)
Theorem C08_no_none_identity_foreign : forall c, In c all_cells -> is_computed_or_raise (model H c) = true.
Proof. apply table_forall. vm_compute. reflexivity. Qed.
Print Assumptions C08_no_none_identity_foreign.

(* every pairing under an arithmetic operator that the documentation does not define raises *)
Theorem C08_undocumented_raises : forall c, In c all_cells -> spec_of H c = MustRaise -> model H c = Raise.
Proof.
  intros c Hin Hs. pose proof (C08_table c Hin) as Hok.
  unfold cell_ok in Hok. rewrite Hs in Hok. now apply outcome_beq_true.
Qed.
Print Assumptions C08_undocumented_raises.

(* the pairs the property text names return the documented class, freshly computed *)
Theorem C08_documented_pairs_return : forall c r, In c all_cells -> spec_of H c = Must r -> model H c = Value r Computed.
Proof.
  intros c r Hin Hs. pose proof (C08_table c Hin) as Hok.
  unfold cell_ok in Hok. rewrite Hs in Hok. now apply outcome_beq_true.
Qed.
Print Assumptions C08_documented_pairs_return.

(* a value is returned ONLY for documented pairs, and it has the documented class *)
Theorem C08_value_only_if_documented : forall c r p, In c all_cells -> arith_op (c_op c) = true -> model H c = Value r p ->
  p = Computed /\ (spec_of H c = Must r \/ spec_of H c = May r).
Proof.
  intros c r p Hin Ha Hm.
  apply (table_forall (fun c => negb (arith_op (c_op c)) ||
           match model H c with
           | Value r p => match p with Computed => true | _ => false end
                          && match spec_of H c with Must r' | May r' => rkind_beq r r' | _ => false end
           | _ => true end)) in Hin.
  - rewrite Ha, Hm in Hin. simpl in Hin. apply andb_true_iff in Hin. destruct Hin as [H1 H2].
    destruct p; try discriminate. split; [reflexivity|].
    destruct (spec_of H c) as [r' | r' | |]; try discriminate;
      apply internal_rkind_dec_bl in H2; subst; [left | right]; reflexivity.
  - vm_compute. reflexivity.
Qed.
Print Assumptions C08_value_only_if_documented.

(* ------------------------------------------------------------------ the same, on a larger table *)
(* lengths 1..4 and nine further array shapes (2-, 4-, 6-vectors, 2x2, 6x6, 3x5, 2x3, 3x1, 1x3): 28160 cells.  Not part of the
   property's stated domain; it shows that the model is not fitted to the 8320 cells (the check also runs the
   implementation on this table). *)
Theorem C08_extended_table : forall c, In c ext_cells -> cell_ok H c = true /\ model H c <> Unmodelled /\ is_computed_or_raise (model H c) = true.
Proof.
  intros c Hin.
  apply (table_forall (fun c => cell_ok H c && negb (outcome_beq (model H c) Unmodelled) && is_computed_or_raise (model H c))) in Hin.
  - apply andb_true_iff in Hin. destruct Hin as [Hin H3]. apply andb_true_iff in Hin. destruct Hin as [H1 H2].
    repeat split; [exact H1 | apply outcome_beq_false; now apply negb_true_iff in H2 | exact H3].
  - vm_compute. reflexivity.
Qed.
Print Assumptions C08_extended_table.
Example C08_extended_size : N.of_nat (length ext_cells) = 28160%N.
Proof. vm_compute. reflexivity. Qed.
