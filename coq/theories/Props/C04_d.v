(* C04 (d) -- unit dual quaternions <-> SE3 (split from C04_b.v so that the Props files compile in parallel).
   Statements are fixed; the tr_* definitions are regenerated from /repo on every run. The planar pose traces take
   a 3x3 argument whose last row the class fixes to (0,0,1) (it is validated with ==, so it is a constant of the trace). *)
From Coq Require Import Reals ZArith Lra Nsatz Psatz.
From SM Require Import Base.Ops Base.Lin Base.RInst Base.RLin.
From SMgen Require Import Traces_C04.
Open Scope R_scope.

Ltac gen_unfold := intros; destruct_tuples; autounfold with smgen smlin in *; sm_simpl.
Ltac gen_ring := gen_unfold; tuple_eq ltac:(ring).
Ltac gen_field := gen_unfold; tuple_eq ltac:(field).
Ltac nopow := repeat match goal with |- context [?x ^ 2] => replace (x ^ 2) with (x * x) by ring end.
Ltac clear_ineq := repeat match goal with H : _ < _ |- _ => clear H | H : _ <= _ |- _ => clear H | H : _ <> _ |- _ => clear H end.
Ltac unit_eq := first [ solve [clear_ineq; nsatz] | field_simplify_eq; [ solve [clear_ineq; nopow; nsatz] | (repeat split; try lra; nra) .. ] ].
Ltac sqrt_one := repeat match goal with |- context [sqrt ?x] => replace x with 1 by (symmetry; unit_eq); rewrite sqrt_1 end;
  repeat match goal with |- context [1 / ?x] => lazymatch x with 1 => fail | _ => replace x with 1 by (symmetry; unit_eq) end end;
  try replace (1 / 1) with 1 by field; rewrite ?Rmult_1_r, ?Rmult_1_l.

(* ---------------------------------------------------------------- unit dual quaternions *)
Definition dq_real (a : V8 R) : V4 R := let '(a0,a1,a2,a3,_,_,_,_) := a in (a0,a1,a2,a3).
Definition dq_dual (a : V8 R) : V4 R := let '(_,_,_,_,a4,a5,a6,a7) := a in (a4,a5,a6,a7).
Definition dq_make (r d : V4 R) : V8 R := let '(a0,a1,a2,a3) := r in let '(a4,a5,a6,a7) := d in (a0,a1,a2,a3,a4,a5,a6,a7).
(* the dual quaternion of the rigid motion (rotation quaternion r, translation t): r + eps (1/2) t r *)
Definition udq_rt (r : V4 R) (t : V3 R) : V8 R := dq_make r (qmul Rops (vscale4 Rops (1/2) (qpure Rops t)) r).

(* UnitDualQuaternion.SE3(): rotation from the real part, translation 2 * dual * conj(real) *)
Theorem C04_UDQ_SE3 : forall (r : V4 R) (t : V3 R), qnormsq Rops r = 1 ->
  tr_UDQ_SE3 Rops (udq_rt r t) = rt2tr3 Rops (q2r_ref Rops r) t.
Proof.
  intros r t H. unfold udq_rt, dq_make. gen_unfold. sqrt_one. tuple_eq ltac:(unit_eq).
Qed.
Print Assumptions C04_UDQ_SE3.

(* UnitDualQuaternion * point is the rigid motion p -> R p + t (it returned R p before /repo commit 0a28e8d) *)
Theorem C04_UDQ_action : forall (r : V4 R) (t p : V3 R), qnormsq Rops r = 1 ->
  tr_UDQ_act Rops (udq_rt r t) p = vadd3 Rops (mv33 Rops (q2r_ref Rops r) p) t.
Proof.
  intros r t p H. unfold udq_rt, dq_make. gen_unfold. sqrt_one. tuple_eq ltac:(unit_eq).
Qed.
Print Assumptions C04_UDQ_action.

(* product of unit dual quaternions = composition of the rigid motions: (r1,t1)(r2,t2) = (r1 r2, t1 + R1 t2) *)
Theorem C04_UDQ_mul_hom : forall (r1 r2 : V4 R) (t1 t2 : V3 R), qnormsq Rops r1 = 1 -> qnormsq Rops r2 = 1 ->
  tr_UDQ_mul Rops (udq_rt r1 t1) (udq_rt r2 t2) =
  udq_rt (qmul Rops r1 r2) (vadd3 Rops t1 (mv33 Rops (q2r_ref Rops r1) t2)).
Proof.
  intros r1 r2 t1 t2 H1 H2. unfold udq_rt, dq_make. gen_unfold. sqrt_one. tuple_eq ltac:(unit_eq).
Qed.
Print Assumptions C04_UDQ_mul_hom.

(* UnitDualQuaternion(SE3 T): on the trace > 0 path and on each of the six trace <= 0 paths of r2q the traced constructor is (real, 1/2 t real) with real = traced r2q of the rotation block *)
Theorem C04_UDQ_of_SE3_structure : forall X : M44 R,
  (tr_UDQ_vec_pos Rops X = udq_rt (tr_r2q_pos Rops (t2r3 X)) (transl3 X)) /\
  (tr_UDQ_vec_b0p Rops X = udq_rt (tr_r2q_b0p Rops (t2r3 X)) (transl3 X)) /\
  (tr_UDQ_vec_b0m Rops X = udq_rt (tr_r2q_b0m Rops (t2r3 X)) (transl3 X)) /\
  (tr_UDQ_vec_b1p Rops X = udq_rt (tr_r2q_b1p Rops (t2r3 X)) (transl3 X)) /\
  (tr_UDQ_vec_b1m Rops X = udq_rt (tr_r2q_b1m Rops (t2r3 X)) (transl3 X)) /\
  (tr_UDQ_vec_b2p Rops X = udq_rt (tr_r2q_b2p Rops (t2r3 X)) (transl3 X)) /\
  (tr_UDQ_vec_b2m Rops X = udq_rt (tr_r2q_b2m Rops (t2r3 X)) (transl3 X)).
Proof.
  intros X. unfold udq_rt, dq_make.
  repeat split; gen_unfold;
  tuple_eq ltac:(first [reflexivity | repeat match goal with |- context [1 / ?x] => lazymatch x with IZR _ => fail | _ => generalize (1 / x); intro end end; field]).
Qed.
Print Assumptions C04_UDQ_of_SE3_structure.

Example C04_d_nonvacuous : qnormsq Rops (3/5, 0, 4/5, 0) = 1.
Proof. autounfold with smlin; sm_simpl; lra. Qed.
