(* C16 (c) -- MIXED symbolic / numeric arguments.
   (iii) a call with some arguments numeric returns the all-symbolic result specialised at those numbers.
   Numeric arguments that enter linearly (translations, vector components; ints and dyadic floats) are exact, so the
   statement is an identity over R.  A numeric ANGLE enters through the doubles cos(0.1), sin(0.1): the statement is
   then about the reference built from those two doubles (k_cos01, k_sin01: generated from Python's math, not from
   the library); angle 0.0 is exact (cos 0 = 1, sin 0 = 0).
   (ii) structural constants of mixed results, by conversion over an abstract ops record. *)
From Coq Require Import Reals ZArith Lra List.
From SM Require Import Base.Ops Base.Lin Base.RInst Base.RLin Model.C16_struct Model.C16_ref.
From SMgen Require Import Traces_C16.
Import ListNotations.
Open Scope R_scope.

Ltac gen_unf := intros; destruct_tuples; unfold trinv_ref in *; autounfold with smgen smref smlin; sm_simpl.
Ltac gen_ring := gen_unf; tuple_eq ltac:(ring).
Ltac gen_field := gen_unf; tuple_eq ltac:(field).
Ltac gen_ring0 := gen_unf; rewrite ?cos_0, ?sin_0; tuple_eq ltac:(ring).

(* ------------------------------------------------------------------ numeric translation, symbolic angle *)
Theorem C16_mixed_trot : forall t : R,
  tr_trotx_tnum Rops t = tr_trotx_t Rops t (1,2,3) /\ tr_troty_tnum Rops t = tr_troty_t Rops t (1,2,3) /\
  tr_trotz_tnum Rops t = tr_trotz_t Rops t (1,2,3).
Proof. intros; repeat split; gen_ring. Qed.
Print Assumptions C16_mixed_trot.

Theorem C16_mixed_trot_structural : forall (T : Type) (O : ops T) (t : T),
  matches O (hom44 pat_rotx [P1;Px;Px]) (fl44 (tr_trotx_tnum O t)) /\ matches O (hom44 pat_roty [P1;Px;Px]) (fl44 (tr_troty_tnum O t)) /\
  matches O (hom44 pat_rotz [P1;Px;Px]) (fl44 (tr_trotz_tnum O t)).
Proof. intros; repeat split; reflexivity. Qed.
Print Assumptions C16_mixed_trot_structural.

(* numeric angle 0.3, symbolic translation (repaired by e615f54): rotation from the doubles (cos 0.3, sin 0.3),
   translation stored unchanged *)
Theorem C16_mixed_trot_num : forall v : V3 R,
  tr_trotx_num_t Rops v = rt2tr3 Rops (rotx_cs Rops (k_cos03 Rops) (k_sin03 Rops)) v /\
  tr_troty_num_t Rops v = rt2tr3 Rops (roty_cs Rops (k_cos03 Rops) (k_sin03 Rops)) v /\
  tr_trotz_num_t Rops v = rt2tr3 Rops (rotz_cs Rops (k_cos03 Rops) (k_sin03 Rops)) v.
Proof. intros; repeat split; gen_field. Qed.
Print Assumptions C16_mixed_trot_num.

Theorem C16_mixed_trot_num_structural : forall (T : Type) (O : ops T) (v : V3 T),
  matches O (hom44 pat_rotx txxx) (fl44 (tr_trotx_num_t O v)) /\ matches O (hom44 pat_roty txxx) (fl44 (tr_troty_num_t O v)) /\
  matches O (hom44 pat_rotz txxx) (fl44 (tr_trotz_num_t O v)) /\
  transl3 (tr_trotx_num_t O v) = v /\ transl3 (tr_troty_num_t O v) = v /\ transl3 (tr_trotz_num_t O v) = v.
Proof. intros; destruct v as [[x y] z]; repeat split; reflexivity. Qed.
Print Assumptions C16_mixed_trot_num_structural.

Theorem C16_mixed_transl : forall x y : R,
  tr_transl_x23 Rops x = tr_transl_xyz Rops x 2 3 /\ tr_transl_1y35 Rops y = tr_transl_xyz Rops 1 y (7/2) /\
  tr_transl_listx23 Rops x = tr_transl_list Rops (x,2,3) /\ tr_SE3_ctor_x23 Rops x = tr_SE3_ctor_xyz Rops x 2 3.
Proof. intros; repeat split; gen_field. Qed.
Print Assumptions C16_mixed_transl.

Theorem C16_mixed_transl_structural : forall (T : Type) (O : ops T) (x : T),
  matches O (hom44 pat_I33 txxx) (fl44 (tr_transl_x23 O x)) /\ matches O (hom44 pat_I33 [P1;Px;Px]) (fl44 (tr_transl_1y35 O x)) /\
  matches O (hom44 pat_I33 txxx) (fl44 (tr_transl_listx23 O x)) /\ matches O (hom44 pat_I33 txxx) (fl44 (tr_SE3_ctor_x23 O x)).
Proof. intros; repeat split; reflexivity. Qed.
Print Assumptions C16_mixed_transl_structural.

(* ------------------------------------------------------------------ Euler angles with one numeric angle *)
(* middle angle 0.0 (exact): the all-symbolic result at theta = 0 *)
Theorem C16_mixed_eul_zero : forall a c : R,
  tr_eul2r_a0c Rops a c = tr_eul2r_list Rops (a,0,c) /\ tr_eul2tr_a0c Rops a c = tr_eul2tr_list Rops (a,0,c) /\
  tr_SE3_RPY_a0c Rops a c = tr_SE3_RPY_zyx Rops (a,0,c).
Proof. intros; repeat split; gen_ring0. Qed.
Print Assumptions C16_mixed_eul_zero.

(* Rz(a) Ry(0.0) Rz(c) has the zero pattern of a rotation about z; the numeric Ry(0.0) contributes exact 0 / 1 *)
Theorem C16_mixed_eul_zero_structural : forall (T : Type) (O : ops T) (a c : T),
  matches O pat_rotz (fl33 (tr_eul2r_a0c O a c)) /\ matches O (hom44 pat_rotz t000) (fl44 (tr_eul2tr_a0c O a c)) /\
  matches O (hom44 [Px;Px;Px; Px;Px;Px; P0;Px;Px] t000) (fl44 (tr_SE3_RPY_a0c O a c)).
Proof. intros; repeat split; reflexivity. Qed.
Print Assumptions C16_mixed_eul_zero_structural.

(* first angle the double 0.1: Rz from the doubles (cos 0.1, sin 0.1), then Ry(b) Rz(c) *)
Theorem C16_mixed_eul_num : forall b c : R,
  tr_eul2r_nbc Rops b c =
    mmul33 Rops (mmul33 Rops (rotz_cs Rops (k_cos01 Rops) (k_sin01 Rops)) (roty_ref Rops b)) (rotz_ref Rops c) /\
  tr_eul2tr_nbc Rops b c =
    r2t3 Rops (mmul33 Rops (mmul33 Rops (rotz_cs Rops (k_cos01 Rops) (k_sin01 Rops)) (roty_ref Rops b)) (rotz_ref Rops c)).
Proof. intros; split; gen_field. Qed.
Print Assumptions C16_mixed_eul_num.

(* the two doubles are cos/sin of (almost) the same angle: the mixed result is a rotation up to 2^-52 *)
Theorem C16_mixed_eul_num_consts :
  Rabs (k_cos01 Rops * k_cos01 Rops + k_sin01 Rops * k_sin01 Rops - 1) <= / 4503599627370496.
Proof. autounfold with smgen; sm_simpl. apply Rabs_le. split; lra. Qed.
Print Assumptions C16_mixed_eul_num_consts.

(* ------------------------------------------------------------------ vectors / skew / delta with numeric components *)
Theorem C16_mixed_vectors : forall (x a c z : R) (u : V3 R),
  tr_delta2tr_mixed Rops x a c = tr_delta2tr Rops (x,2,3,a,1/2,c) /\
  tr_skewa6_mixed Rops x a c = tr_skewa6 Rops (x,2,3,a,1/2,c) /\
  tr_skew3_mixed Rops x z = tr_skew3 Rops (x,2,z) /\
  tr_cross_mixed Rops u = tr_cross Rops u (1,2,7/2) /\
  tr_norm3_mixed Rops x = tr_norm3 Rops (x,2,7/2).
Proof.
  intros; repeat split; try gen_field.
  gen_unf. f_equal. field.
Qed.
Print Assumptions C16_mixed_vectors.

Theorem C16_mixed_vectors_structural : forall (T : Type) (O : ops T) (x a c z : T),
  matches O pat_delta2tr (fl44 (tr_delta2tr_mixed O x a c)) /\ matches O pat_skewa6 (fl44 (tr_skewa6_mixed O x a c)) /\
  matches O pat_skew3 (fl33 (tr_skew3_mixed O x z)).
Proof. intros; repeat split; reflexivity. Qed.
Print Assumptions C16_mixed_vectors_structural.

(* ------------------------------------------------------------------ numeric rotation block, symbolic translation *)
Definition ROT_A : M33 R := ((0,-1,0),(1,0,0),(0,0,1)).
Definition TR_A : M44 R := ((0,-1,0,1/2),(1,0,0,-2),(0,0,1,4),(0,0,0,1)).

Theorem C16_mixed_trinv : forall (v : V3 R) (Y : M44 R),
  tr_trinv_numR Rops v = tr_trinv Rops (rt2tr3 Rops ROT_A v) /\
  tr_tr2delta_numT0 Rops Y = tr_tr2delta2 Rops TR_A Y.
Proof. intros; unfold ROT_A, TR_A; split; gen_field. Qed.
Print Assumptions C16_mixed_trinv.

Theorem C16_mixed_trinv_structural : forall (T : Type) (O : ops T) (v : V3 T),
  matches O (hom44 [P0;P1;P0; Px;P0;P0; P0;P0;P1] txxx) (fl44 (tr_trinv_numR O v)).
Proof. intros; destruct v as [[x y] z]; repeat split; reflexivity. Qed.
Print Assumptions C16_mixed_trinv_structural.
Example C16_TR_A_is_SE3 : SE3 TR_A.
Proof. unfold TR_A, SE3, SO3; lin_simpl. split; [repeat split; ring | reflexivity]. Qed.

(* ------------------------------------------------------------------ pose operators with one numeric operand *)
Theorem C16_mixed_pose_ops : forall (X : M44 R) (A : M33 R) (a b z : R),
  tr_SE3_pt_num Rops X = tr_SE3_pt Rops X (1,2,3) /\
  tr_SO3_pt_num Rops A = tr_SO3_pt Rops A (1,2,3) /\
  tr_SE3_Tx2_mul Rops X = tr_SE3_mul Rops (tr_SE3_Tx Rops 2) X /\
  tr_SE3_Rx_Tx25 Rops a = tr_SE3_mul Rops (tr_SE3_Rx Rops a) (tr_SE3_Tx Rops (5/2)) /\
  (* and a product of three symbolic poses is the product of the matrices *)
  tr_SE3_RxRyTz Rops a b z = tr_SE3_mul Rops (tr_SE3_mul Rops (tr_SE3_Rx Rops a) (tr_SE3_Ry Rops b)) (tr_SE3_Tz Rops z).
Proof. intros; repeat split; gen_field. Qed.
Print Assumptions C16_mixed_pose_ops.

Theorem C16_mixed_pose_ops_structural : forall (T : Type) (O : ops T) (X : M44 T) (a b z : T),
  matches O (hom44 pat_any33 txxx) (fl44 (tr_SE3_Tx2_mul O X)) /\
  matches O (hom44 pat_rotx [Px;P0;P0]) (fl44 (tr_SE3_Rx_Tx25 O a)) /\
  matches O (hom44 [Px;P0;Px; Px;Px;Px; Px;Px;Px] txxx) (fl44 (tr_SE3_RxRyTz O a b z)).
Proof. intros; destruct_tuples; repeat split; reflexivity. Qed.
Print Assumptions C16_mixed_pose_ops_structural.
