(* C13 (part 1) -- the vector <-> matrix maps of so(2), so(3), se(2), se(3) and the vector helpers.
   Statements are fixed; every tr_* definition is regenerated from /repo on each run (the library's own
   skew / vex / skewa / vexa / cross / norm / normsq / colvec executed on symbols). *)
From Coq Require Import Reals ZArith Lra Psatz.
From SM Require Import Base.Ops Base.Lin Base.RInst Base.RLin.
From SMgen Require Import Traces_C13.
Open Scope R_scope.

Ltac gen_unfold := intros; destruct_tuples; autounfold with smgen smlin in *; sm_simpl.
Ltac gen_ring := gen_unfold; tuple_eq ltac:(ring).
Ltac gen_field := gen_unfold; tuple_eq ltac:(field).

(* ---------- reference shapes of the four algebras ---------- *)
Definition skew1_ref (a : R) : M22 R := ((0, - a), (a, 0)).
Definition skewa3_ref (v : V3 R) : M33 R := let '(x,y,th) := v in ((0, - th, x), (th, 0, y), (0, 0, 0)).
Definition skewa6_ref (s : V6 R) : M44 R :=
  let '(v0,v1,v2,w0,w1,w2) := s in ((0, - w2, w1, v0), (w2, 0, - w0, v1), (- w1, w0, 0, v2), (0, 0, 0, 0)).
(* membership in the algebra, as equations on the entries *)
Definition is_so2 (S : M22 R) : Prop := let '((a,b),(c,d)) := S in a = 0 /\ d = 0 /\ c = - b.
Definition is_so3 (S : M33 R) : Prop := mtr33 S = mscale33 Rops (-1) S.
Definition is_se2 (S : M33 R) : Prop := is_so2 (t2r2 S) /\ lastrow3 S = (0,0,0).
Definition is_se3 (S : M44 R) : Prop := is_so3 (t2r3 S) /\ lastrow4 S = (0,0,0,0).
Definition vadd6 (a b : V6 R) : V6 R :=
  let '(a0,a1,a2,a3,a4,a5) := a in let '(b0,b1,b2,b3,b4,b5) := b in (a0+b0, a1+b1, a2+b2, a3+b3, a4+b4, a5+b5).
Definition vscale6 (k : R) (a : V6 R) : V6 R := let '(a0,a1,a2,a3,a4,a5) := a in (k*a0, k*a1, k*a2, k*a3, k*a4, k*a5).
Definition madd22 (A B : M22 R) : M22 R := let '(a0,a1) := A in let '(b0,b1) := B in (vadd2 Rops a0 b0, vadd2 Rops a1 b1).
Definition mscale22 (k : R) (A : M22 R) : M22 R := let '(a0,a1) := A in (vscale2 Rops k a0, vscale2 Rops k a1).
Definition madd44 (A B : M44 R) : M44 R :=
  let '(a0,a1,a2,a3) := A in let '(b0,b1,b2,b3) := B in (vadd4 Rops a0 b0, vadd4 Rops a1 b1, vadd4 Rops a2 b2, vadd4 Rops a3 b3).
Definition mscale44 (k : R) (A : M44 R) : M44 R :=
  let '(a0,a1,a2,a3) := A in (vscale4 Rops k a0, vscale4 Rops k a1, vscale4 Rops k a2, vscale4 Rops k a3).
#[local] Hint Unfold skew1_ref skewa3_ref skewa6_ref is_so2 is_so3 is_se2 is_se3 vadd6 vscale6 madd22 mscale22 madd44 mscale44 : smlin.

(* ---------- the maps produce the documented matrices ---------- *)
Theorem C13_skew_shapes : forall (a : R) (v : V3 R) (u : V3 R) (s : V6 R),
  tr_skew1 Rops a = skew1_ref a /\ tr_skew3 Rops v = skew3 Rops v /\
  tr_skewa3 Rops u = skewa3_ref u /\ tr_skewa6 Rops s = skewa6_ref s.
Proof. intros; repeat split; gen_ring. Qed.
Print Assumptions C13_skew_shapes.

Theorem C13_skew_in_algebra : forall (a : R) (v : V3 R) (u : V3 R) (s : V6 R),
  is_so2 (tr_skew1 Rops a) /\ is_so3 (tr_skew3 Rops v) /\ is_se2 (tr_skewa3 Rops u) /\ is_se3 (tr_skewa6 Rops s).
Proof. intros. repeat split; gen_unfold; repeat split; try reflexivity; try ring; tuple_eq ltac:(ring). Qed.
Print Assumptions C13_skew_in_algebra.

(* ---------- vex o skew = id (all four algebras, no hypothesis) ---------- *)
Theorem C13_vex_skew : forall (a : R) (v : V3 R) (u : V3 R) (s : V6 R),
  tr_vex2 Rops (tr_skew1 Rops a) = a /\ tr_vex3 Rops (tr_skew3 Rops v) = v /\
  tr_vexa3 Rops (tr_skewa3 Rops u) = u /\ tr_vexa4 Rops (tr_skewa6 Rops s) = s.
Proof. intros; repeat split; gen_field. Qed.
Print Assumptions C13_vex_skew.

(* ---------- skew o vex: for EVERY matrix it is the skew part (S - S')/2 ... ---------- *)
Theorem C13_skew_vex_general : forall (S2 : M22 R) (S3 : M33 R),
  tr_skew1 Rops (tr_vex2 Rops S2) = mscale22 (1/2) (madd22 S2 (mscale22 (-1) (mtr22 S2))) /\
  tr_skew3 Rops (tr_vex3 Rops S3) = mscale33 Rops (1/2) (msub33 Rops S3 (mtr33 S3)).
Proof. intros; split; gen_field. Qed.
Print Assumptions C13_skew_vex_general.

(* ... hence the identity on the algebra *)
Theorem C13_skew_vex_so2 : forall S : M22 R, is_so2 S -> tr_skew1 Rops (tr_vex2 Rops S) = S.
Proof. gen_unfold. decompose [and] H; subst. tuple_eq ltac:(field). Qed.
Print Assumptions C13_skew_vex_so2.

Theorem C13_skew_vex_so3 : forall S : M33 R, is_so3 S -> tr_skew3 Rops (tr_vex3 Rops S) = S.
Proof. gen_unfold. injection H; intros. tuple_eq ltac:(lra). Qed.
Print Assumptions C13_skew_vex_so3.

Theorem C13_skewa_vexa_se2 : forall S : M33 R, is_se2 S -> tr_skewa3 Rops (tr_vexa3 Rops S) = S.
Proof. gen_unfold. destruct H as [(?&?&?) H]. injection H; intros; subst. tuple_eq ltac:(lra). Qed.
Print Assumptions C13_skewa_vexa_se2.

Theorem C13_skewa_vexa_se3 : forall S : M44 R, is_se3 S -> tr_skewa6 Rops (tr_vexa4 Rops S) = S.
Proof. gen_unfold. destruct H as [H H']. injection H; injection H'; intros; subst. tuple_eq ltac:(lra). Qed.
Print Assumptions C13_skewa_vexa_se3.

Example C13_algebra_nonvacuous :
  is_so2 ((0, -3), (3, 0)) /\ is_so3 ((0,-3,2),(3,0,-1),(-2,1,0)) /\
  is_se2 ((0,-3,5),(3,0,7),(0,0,0)) /\ is_se3 ((0,-3,2,5),(3,0,-1,6),(-2,1,0,7),(0,0,0,0)).
Proof. repeat split; autounfold with smlin; sm_simpl; try lra; tuple_eq ltac:(lra). Qed.

(* ---------- linearity of all eight maps ---------- *)
Theorem C13_skew_linear : forall (k l a b : R) (u v : V3 R),
  tr_skew1 Rops (k*a + l*b) = madd22 (mscale22 k (tr_skew1 Rops a)) (mscale22 l (tr_skew1 Rops b)) /\
  tr_skew3 Rops (vadd3 Rops (vscale3 Rops k u) (vscale3 Rops l v)) =
    madd33 Rops (mscale33 Rops k (tr_skew3 Rops u)) (mscale33 Rops l (tr_skew3 Rops v)) /\
  tr_skewa3 Rops (vadd3 Rops (vscale3 Rops k u) (vscale3 Rops l v)) =
    madd33 Rops (mscale33 Rops k (tr_skewa3 Rops u)) (mscale33 Rops l (tr_skewa3 Rops v)).
Proof. intros; repeat split; gen_ring. Qed.
Print Assumptions C13_skew_linear.

Theorem C13_skewa6_linear : forall (k l : R) (s r : V6 R),
  tr_skewa6 Rops (vadd6 (vscale6 k s) (vscale6 l r)) = madd44 (mscale44 k (tr_skewa6 Rops s)) (mscale44 l (tr_skewa6 Rops r)).
Proof. gen_ring. Qed.
Print Assumptions C13_skewa6_linear.

Theorem C13_vex_linear : forall (k l : R) (A2 B2 : M22 R) (A B : M33 R),
  tr_vex2 Rops (madd22 (mscale22 k A2) (mscale22 l B2)) = k * tr_vex2 Rops A2 + l * tr_vex2 Rops B2 /\
  tr_vex3 Rops (madd33 Rops (mscale33 Rops k A) (mscale33 Rops l B)) =
    vadd3 Rops (vscale3 Rops k (tr_vex3 Rops A)) (vscale3 Rops l (tr_vex3 Rops B)) /\
  tr_vexa3 Rops (madd33 Rops (mscale33 Rops k A) (mscale33 Rops l B)) =
    vadd3 Rops (vscale3 Rops k (tr_vexa3 Rops A)) (vscale3 Rops l (tr_vexa3 Rops B)).
Proof. intros; repeat split; gen_field. Qed.
Print Assumptions C13_vex_linear.

Theorem C13_vexa4_linear : forall (k l : R) (A B : M44 R),
  tr_vexa4 Rops (madd44 (mscale44 k A) (mscale44 l B)) = vadd6 (vscale6 k (tr_vexa4 Rops A)) (vscale6 l (tr_vexa4 Rops B)).
Proof. gen_field. Qed.
Print Assumptions C13_vexa4_linear.

(* injectivity (with C13_skew_vex_*: the maps are mutually inverse linear bijections vector space <-> algebra) *)
Theorem C13_skew_injective : forall (u v : V3 R) (s r : V6 R),
  (tr_skew3 Rops u = tr_skew3 Rops v -> u = v) /\ (tr_skewa6 Rops s = tr_skewa6 Rops r -> s = r).
Proof.
  intros; split; intro H.
  - pose proof (f_equal (tr_vex3 Rops) H) as E.
    destruct (C13_vex_skew 0 u u s) as (_ & E1 & _). destruct (C13_vex_skew 0 v u s) as (_ & E2 & _).
    rewrite E1, E2 in E. exact E.
  - pose proof (f_equal (tr_vexa4 Rops) H) as E.
    destruct (C13_vex_skew 0 u u s) as (_ & _ & _ & E1). destruct (C13_vex_skew 0 u u r) as (_ & _ & _ & E2).
    rewrite E1, E2 in E. exact E.
Qed.
Print Assumptions C13_skew_injective.

(* ---------- skew(a) b = a x b ; planar analogue ; the se(3) matrix acts as v + w x p ---------- *)
Theorem C13_skew_is_cross : forall a b : V3 R, mv33 Rops (tr_skew3 Rops a) b = tr_cross Rops a b.
Proof. gen_ring. Qed.
Print Assumptions C13_skew_is_cross.

Theorem C13_skew1_is_perp : forall (a : R) (p : V2 R),
  mv22 Rops (tr_skew1 Rops a) p = vscale2 Rops a (let '(x,y) := p in (- y, x)).
Proof. gen_ring. Qed.
Print Assumptions C13_skew1_is_perp.

Theorem C13_skewa_acts_as_velocity : forall (v w p : V3 R),
  mv44 Rops (tr_skewa6 Rops (v6 v w)) (let '(x,y,z) := p in (x,y,z,1)) =
  (let '(x,y,z) := vadd3 Rops v (tr_cross Rops w p) in (x,y,z,0)).
Proof. gen_ring. Qed.
Print Assumptions C13_skewa_acts_as_velocity.

(* the commutator of so(3) matrices is the cross product: [skew a, skew b] = skew (a x b) *)
Theorem C13_skew_commutator : forall a b : V3 R,
  msub33 Rops (mmul33 Rops (tr_skew3 Rops a) (tr_skew3 Rops b)) (mmul33 Rops (tr_skew3 Rops b) (tr_skew3 Rops a)) =
  tr_skew3 Rops (tr_cross Rops a b).
Proof. gen_ring. Qed.
Print Assumptions C13_skew_commutator.

(* ---------- cross, norm, normsq, colvec agree with their definitions ---------- *)
Theorem C13_cross_def : forall a b c : V3 R,
  tr_cross Rops a b = cross3 Rops a b /\
  tr_cross Rops a b = vscale3 Rops (-1) (tr_cross Rops b a) /\
  dot3 Rops a (tr_cross Rops a b) = 0 /\ dot3 Rops b (tr_cross Rops a b) = 0 /\
  tr_normsq3 Rops (tr_cross Rops a b) = tr_normsq3 Rops a * tr_normsq3 Rops b - dot3 Rops a b * dot3 Rops a b /\
  tr_cross Rops a (tr_cross Rops b c) = vsub3 Rops (vscale3 Rops (dot3 Rops a c) b) (vscale3 Rops (dot3 Rops a b) c).
Proof. intros; repeat split; gen_ring. Qed.
Print Assumptions C13_cross_def.

Theorem C13_cross_bilinear : forall (k l : R) (a b c : V3 R),
  tr_cross Rops (vadd3 Rops (vscale3 Rops k a) (vscale3 Rops l b)) c =
  vadd3 Rops (vscale3 Rops k (tr_cross Rops a c)) (vscale3 Rops l (tr_cross Rops b c)).
Proof. gen_ring. Qed.
Print Assumptions C13_cross_bilinear.

Theorem C13_normsq_def : forall (v : V3 R) (s : V6 R),
  tr_normsq3 Rops v = dot3 Rops v v /\ tr_normsq6 Rops s = dot6 Rops s s.
Proof. intros; split; gen_ring. Qed.
Print Assumptions C13_normsq_def.

Theorem C13_norm_def : forall (a : R) (v : V3 R) (s : V6 R),
  tr_norm3 Rops v = sqrt (tr_normsq3 Rops v) /\ tr_norm6 Rops s = sqrt (tr_normsq6 Rops s) /\ tr_norm1 Rops a = Rabs a.
Proof.
  intros; repeat split; gen_unfold; try (f_equal; ring).
  all: try (rewrite <- sqrt_Rsqr_abs; unfold Rsqr; f_equal; ring).
Qed.
Print Assumptions C13_norm_def.

Theorem C13_norm_props : forall (k : R) (v : V3 R),
  0 <= tr_norm3 Rops v /\ tr_norm3 Rops v * tr_norm3 Rops v = tr_normsq3 Rops v /\
  (tr_norm3 Rops v = 0 -> v = (0,0,0)) /\
  tr_norm3 Rops (vscale3 Rops k v) = Rabs k * tr_norm3 Rops v.
Proof.
  intros k v. destruct (C13_norm_def 0 v (0,0,0,0,0,0)) as (E & _).
  destruct (C13_norm_def 0 (vscale3 Rops k v) (0,0,0,0,0,0)) as (Ek & _). rewrite Ek, E. clear E Ek.
  assert (Hp : 0 <= tr_normsq3 Rops v) by (gen_unfold; nra).
  repeat split.
  - apply sqrt_pos.
  - apply sqrt_sqrt; exact Hp.
  - intro H0. apply sqrt_eq_0 in H0; [|exact Hp]. revert H0. gen_unfold.
    assert (r = 0) by nra. assert (r1 = 0) by nra. assert (r0 = 0) by nra. subst. reflexivity.
  - replace (tr_normsq3 Rops (vscale3 Rops k v)) with (k * k * tr_normsq3 Rops v) by (gen_unfold; ring).
    rewrite sqrt_mult_alt by nra. f_equal. rewrite <- sqrt_Rsqr_abs. reflexivity.
Qed.
Print Assumptions C13_norm_props.

Theorem C13_colvec_id : forall v : V3 R, tr_colvec3 v = v.
Proof. intros; destruct_tuples; reflexivity. Qed.
Print Assumptions C13_colvec_id.
