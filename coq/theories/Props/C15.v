(* C15 (part 1) -- argument forms are interchangeable; wrong lengths are rejected.
   Theorems about the hand model Model/C15_ArgCheck.v of spatialmath/base/argcheck.py
   (getvector / isvector / assertvector / getunit), for ALL element lists of ALL lengths.
   The model is tied to /repo on every run by the correspondence grid of props/C15.py.
   No Reals here: every theorem is closed under the global context. *)
From Coq Require Import List Arith Bool Lia ZArith.
From SM Require Import Base.Ops Model.C15_ArgCheck.
Import ListNotations.

Section Forms.
Variables (E F : Type) (cv : E -> F).
Notation getvector := (@getvector E F cv).

Lemma shape_eqb_refl s : shape_eqb s s = true.
Proof. unfold shape_eqb; destruct (list_eq_dec Nat.eq_dec s s); congruence. Qed.
Lemma shape_eqb_true a b : shape_eqb a b = true <-> a = b.
Proof. unfold shape_eqb; destruct (list_eq_dec Nat.eq_dec a b); split; congruence. Qed.

(* shape (n,), (1,n), (n,1) is accepted for dim d exactly when n = d *)
Lemma shape_ok_1 n d : shape_ok [n] d = (n =? d).
Proof.
  unfold shape_ok. destruct (Nat.eqb_spec n d) as [->|H].
  - now rewrite shape_eqb_refl.
  - repeat match goal with |- context [shape_eqb ?a ?b] =>
      let X := fresh in destruct (shape_eqb a b) eqn:X; [apply shape_eqb_true in X; inversion X; congruence|] end. reflexivity.
Qed.
Lemma shape_ok_row n d : shape_ok [1; n] d = (n =? d).
Proof.
  unfold shape_ok. destruct (Nat.eqb_spec n d) as [->|H].
  - rewrite (shape_eqb_refl [1; d]). now rewrite orb_true_r.
  - repeat match goal with |- context [shape_eqb ?a ?b] =>
      let X := fresh in destruct (shape_eqb a b) eqn:X; [apply shape_eqb_true in X; inversion X; congruence|] end. reflexivity.
Qed.
Lemma shape_ok_col n d : shape_ok [n; 1] d = (n =? d).
Proof.
  unfold shape_ok. destruct (Nat.eqb_spec n d) as [->|H].
  - rewrite (shape_eqb_refl [d; 1]). now rewrite !orb_true_r.
  - repeat match goal with |- context [shape_eqb ?a ?b] =>
      let X := fresh in destruct (shape_eqb a b) eqn:X; [apply shape_eqb_true in X; inversion X; congruence|] end. reflexivity.
Qed.

(* ---- 1. the three ndarray forms are interchangeable: every list, every dim, every out *)
Theorem C15_getvector_row_col_nd1 : forall (l : list E) dim out,
  getvector (NdRow l) dim out = getvector (Nd1 l) dim out /\
  getvector (NdCol l) dim out = getvector (Nd1 l) dim out.
Proof.
  intros l dim out; unfold NdRow, NdCol, Nd1; cbn [C15_ArgCheck.getvector]; unfold gv_nd.
  destruct dim as [d|]; [rewrite shape_ok_row, shape_ok_col, shape_ok_1|]; split; reflexivity.
Qed.

(* ---- 2. list and tuple are interchangeable (except out='sequence', which is documented to hand back the argument) *)
Theorem C15_getvector_tuple_list : forall (l : list E) dim out, out <> OSequence ->
  getvector (PyTuple l) dim out = getvector (PyList l) dim out.
Proof. intros l dim out H; cbn; unfold gv_seq; destruct out; try reflexivity; congruence. Qed.
Example C15_tuple_list_sequence_differs (x : E) :
  getvector (PyTuple [x]) None OSequence <> getvector (PyList [x]) None OSequence.
Proof. cbn; congruence. Qed.

(* ---- 3. list vs 1-D array: FULL STATEMENT (holds since fix 08cac29 closed the empty-list hole) *)
Theorem C15_getvector_list_nd1 : forall (l : list E) dim out, out <> OSequence ->
  getvector (PyList l) dim out = getvector (Nd1 l) dim out.
Proof.
  intros l dim out H. unfold Nd1; cbn [C15_ArgCheck.getvector]; unfold gv_seq, gv_nd.
  destruct dim as [d|].
  - rewrite shape_ok_1. destruct (negb (length l =? d)); [reflexivity|]. destruct out; try reflexivity; congruence.
  - destruct out; try reflexivity; congruence.
Qed.
(* the formerly failing case, now an instance: the empty list with a dim is rejected exactly like the empty array *)
Example C15_getvector_empty_list_rejected : forall d, d <> 0 ->
  getvector (PyList []) (Some d) OArray = Err ValueError /\ getvector (Nd1 []) (Some d) OArray = Err ValueError.
Proof.
  intros d H; unfold Nd1; cbn [C15_ArgCheck.getvector length]; unfold gv_seq, gv_nd; rewrite shape_ok_1; cbn [length].
  destruct (Nat.eqb_spec 0 d); [congruence|split; reflexivity].
Qed.
Example C15_list_nd1_nonvacuous (x y z : E) :
  getvector (PyList [x; y; z]) (Some 3) OArray = Ok (VArr1 [cv x; cv y; cv z]) /\
  getvector (Nd1 [x; y; z]) (Some 3) OArray = Ok (VArr1 [cv x; cv y; cv z]).
Proof. split; reflexivity. Qed.

(* a scalar is the one-element list (code: `v = [v]`) *)
Theorem C15_getvector_scalar : forall (x : E) dim out,
  getvector (Scalar x) dim out = getvector (PyList [x]) dim out.
Proof. reflexivity. Qed.

(* ---- 4. all five forms at once, every list (the empty one included): one result *)
Definition form5 (k : nat) (l : list E) : pyarg E :=
  match k with 0 => PyList l | 1 => PyTuple l | 2 => Nd1 l | 3 => NdRow l | _ => NdCol l end.

Theorem C15_getvector_five_forms : forall k (l : list E) dim,
  getvector (form5 k l) dim OArray = getvector (Nd1 l) dim OArray.
Proof.
  intros k l dim.
  destruct k as [|[|[|[|k]]]]; cbn [form5].
  - apply C15_getvector_list_nd1; congruence.
  - rewrite C15_getvector_tuple_list by congruence. apply C15_getvector_list_nd1; congruence.
  - reflexivity.
  - apply C15_getvector_row_col_nd1.
  - apply C15_getvector_row_col_nd1.
Qed.

(* no truncation, no padding: whatever is accepted comes back element for element *)
Theorem C15_getvector_value : forall (a : pyarg E) dim v,
  getvector a dim OArray = Ok v -> v = VArr1 (map cv (elems a)).
Proof.
  intros a dim v; destruct a; cbn; unfold gv_seq, gv_nd;
    repeat match goal with |- context [if ?c then _ else _] => destruct c end; intros H; inversion H; reflexivity.
Qed.

(* ---- 5. wrong length is rejected *)
Theorem C15_wrong_length_ndarray : forall (l : list E) d out, length l <> d ->
  getvector (Nd1 l) (Some d) out = Err ValueError /\
  getvector (NdRow l) (Some d) out = Err ValueError /\
  getvector (NdCol l) (Some d) out = Err ValueError.
Proof.
  intros l d out H. unfold Nd1, NdRow, NdCol; cbn [C15_ArgCheck.getvector]; unfold gv_nd.
  rewrite shape_ok_1, shape_ok_row, shape_ok_col. destruct (Nat.eqb_spec (length l) d); [congruence|]. repeat split.
Qed.

(* a genuine matrix (neither a row nor a column) is never taken for a vector of a stated length *)
Theorem C15_matrix_rejected : forall r c (l : list E) d out, r <> 1 -> c <> 1 ->
  getvector (Nd2 r c l) (Some d) out = Err ValueError.
Proof.
  intros r c l d out Hr Hc. unfold Nd2; cbn [C15_ArgCheck.getvector]; unfold gv_nd, shape_ok.
  repeat match goal with |- context [shape_eqb ?a ?b] =>
      let X := fresh in destruct (shape_eqb a b) eqn:X; [apply shape_eqb_true in X; inversion X; congruence|] end. reflexivity.
Qed.

(* FULL STATEMENT (holds since fix 08cac29) *)
Theorem C15_wrong_length_sequence : forall (l : list E) d out, length l <> d ->
  getvector (PyList l) (Some d) out = Err ValueError /\ getvector (PyTuple l) (Some d) out = Err ValueError.
Proof.
  intros l d out H; cbn [C15_ArgCheck.getvector]; unfold gv_seq.
  destruct (Nat.eqb_spec (length l) d); [congruence|]. split; reflexivity.
Qed.
Example C15_wrong_length_nonvacuous (x y : E) :
  getvector (PyList [x; y]) (Some 3) OArray = Err ValueError /\ getvector (@PyList E []) (Some 3) OArray = Err ValueError.
Proof. split; reflexivity. Qed.

(* wrong length is rejected in ALL five forms *)
Theorem C15_wrong_length_five_forms : forall k (l : list E) d, length l <> d ->
  getvector (form5 k l) (Some d) OArray = Err ValueError.
Proof.
  intros k l d H. rewrite C15_getvector_five_forms. now apply C15_wrong_length_ndarray.
Qed.

Theorem C15_wrong_length_scalar : forall (x : E) d out, d <> 1 -> getvector (Scalar x) (Some d) out = Err ValueError.
Proof.
  intros x d out H; cbn [C15_ArgCheck.getvector]; unfold gv_seq; cbn [negb andb length].
  destruct (Nat.eqb_spec 1 d); [congruence|reflexivity].
Qed.

(* the right length is accepted in every form *)
Theorem C15_right_length_accepted : forall k (l : list E),
  getvector (form5 k l) (Some (length l)) OArray = Ok (VArr1 (map cv l)).
Proof.
  intros k l.
  destruct k as [|[|[|[|k]]]]; cbn [form5]; unfold Nd1, NdRow, NdCol; cbn [C15_ArgCheck.getvector]; unfold gv_seq, gv_nd;
    rewrite ?shape_ok_1, ?shape_ok_row, ?shape_ok_col, Nat.eqb_refl; cbn; rewrite ?andb_false_r; reflexivity.
Qed.

(* anything that is not a scalar, list, tuple or ndarray is a TypeError; a bad out= is a ValueError *)
Theorem C15_other_rejected : forall dim out, getvector Other dim out = Err TypeError.
Proof. reflexivity. Qed.
Theorem C15_bad_out_rejected : forall (a : pyarg E) dim, a <> Other -> getvector a dim OBad = Err ValueError.
Proof.
  intros a dim H; destruct a; cbn; unfold gv_seq, gv_nd; try congruence;
    repeat match goal with |- context [if ?c then _ else _] => destruct c end; reflexivity.
Qed.

(* ---- 6. isvector agrees with getvector succeeding *)
Theorem C15_isvector_sound : forall (a : pyarg E) dim, wf a -> isvector a dim = Ok true ->
  getvector a dim OArray = Ok (VArr1 (map cv (elems a))) /\
  (forall d, dim = Some d -> length (elems a) = d).
Proof.
  intros a dim W H; destruct a; cbn in *; unfold gv_seq, gv_nd.
  - destruct dim as [d|]; [|split; [reflexivity|congruence]].
    inversion H as [H1]. apply Nat.eqb_eq in H1; subst d. cbn. split; [reflexivity|]. intros d X; now inversion X.
  - destruct dim as [d|]; [|split; [reflexivity|congruence]].
    inversion H as [H1]. rewrite H1. split; [reflexivity|]. intros d' X; inversion X; subst; now apply Nat.eqb_eq.
  - destruct dim as [d|]; [|split; [reflexivity|congruence]].
    inversion H as [H1]. rewrite H1. split; [reflexivity|]. intros d' X; inversion X; subst; now apply Nat.eqb_eq.
  - destruct dim as [d|]; [|split; [reflexivity|congruence]].
    inversion H as [H1]. rewrite H1. split; [reflexivity|]. intros d' X; inversion X; subst d'.
    unfold shape_ok in H1. apply orb_true_iff in H1. destruct H1 as [H1|H1]; [apply orb_true_iff in H1; destruct H1 as [H1|H1]|];
      apply shape_eqb_true in H1; subst shape; cbn in W; lia.
  - discriminate.
Qed.
Example C15_isvector_sound_nonvacuous (x y z : E) :
  wf (NdCol [x; y; z]) /\ isvector (NdCol [x; y; z]) (Some 3) = Ok true.
Proof. split; reflexivity. Qed.

(* completeness, WITH a dim: full statement, every argument (holds since fix 08cac29) *)
Theorem C15_isvector_complete_with_dim : forall (a : pyarg E) d v,
  getvector a (Some d) OArray = Ok v -> isvector a (Some d) = Ok true.
Proof.
  intros a d v H; destruct a; cbn [C15_ArgCheck.getvector C15_ArgCheck.isvector] in *; unfold gv_seq, gv_nd in H; cbn [length] in H.
  - destruct (Nat.eqb_spec 1 d); [subst; reflexivity|discriminate].
  - destruct (length l =? d); [reflexivity|discriminate].
  - destruct (length l =? d); [reflexivity|discriminate].
  - destruct (shape_ok shape d); [reflexivity|discriminate].
  - discriminate.
Qed.

(* completeness WITHOUT a dim.  FULL STATEMENT (still false): getvector a None OArray = Ok v -> isvector a None = Ok true.
   By design getvector (a converter) accepts the empty vector in every form, isvector (a predicate) in none (since fix 2c16cfc);
   third witness: a matrix, which getvector flattens silently when no dim is given *)
Theorem C15_isvector_complete_refuted : forall (x : E),
  (getvector (PyList []) None OArray = Ok (VArr1 []) /\ isvector (@PyList E []) None = Ok false) /\
  (getvector (Nd1 []) None OArray = Ok (VArr1 []) /\ isvector (@Nd1 E []) None = Ok false) /\
  (getvector (Nd2 2 2 [x; x; x; x]) None OArray = Ok (VArr1 [cv x; cv x; cv x; cv x]) /\ isvector (Nd2 2 2 [x; x; x; x]) None = Ok false).
Proof. intros; repeat split. Qed.

Theorem C15_isvector_complete_partial : forall k (l : list E) dim v, l <> [] ->
  getvector (form5 k l) dim OArray = Ok v -> isvector (form5 k l) dim = Ok true.
Proof.
  intros k l dim v Hn H.
  assert (L : 0 <? length l = true) by (destruct l; [congruence|reflexivity]).
  assert (N : negb (is_nil l) = true) by (destruct l; [congruence|reflexivity]).
  destruct k as [|[|[|[|k]]]]; cbn [form5] in *; unfold Nd1, NdRow, NdCol in *;
    cbn [C15_ArgCheck.getvector C15_ArgCheck.isvector] in *; unfold gv_seq, gv_nd in H;
    destruct dim as [d|]; rewrite ?shape_ok_1, ?shape_ok_row, ?shape_ok_col in *; cbn [negb andb] in H;
    try (destruct (length l =? d); [reflexivity|discriminate]);
    rewrite ?L, ?N; cbn [Nat.eqb Nat.ltb Nat.leb andb orb]; rewrite ?andb_true_r, ?orb_true_r; reflexivity.
Qed.

(* isvector itself is form-independent: FULL STATEMENT, every list (holds since fix 2c16cfc: the empty list/tuple is no vector either) *)
Theorem C15_isvector_five_forms : forall k (l : list E) dim,
  isvector (form5 k l) dim = isvector (Nd1 l) dim.
Proof.
  intros k l dim.
  assert (L : negb (is_nil l) = (0 <? length l)) by (destruct l; reflexivity).
  destruct k as [|[|[|[|k]]]]; cbn [form5]; unfold Nd1, NdRow, NdCol; cbn [C15_ArgCheck.isvector]; destruct dim as [d|];
    rewrite ?shape_ok_1, ?shape_ok_row, ?shape_ok_col, ?L; try reflexivity;
    destruct l; cbn [length Nat.eqb Nat.ltb Nat.leb andb orb]; rewrite ?andb_true_r, ?orb_true_r, ?andb_false_r; reflexivity.
Qed.
Example C15_isvector_empty_forms_agree :
  isvector (@PyList E []) None = Ok false /\ isvector (@PyTuple E []) None = Ok false /\ isvector (@Nd1 E []) None = Ok false.
Proof. repeat split. Qed.

(* a vector of the wrong length is never a vector of length d, in any form (isvector has no hole) *)
Theorem C15_isvector_wrong_length : forall k (l : list E) d, length l <> d -> isvector (form5 k l) (Some d) = Ok false.
Proof.
  intros k l d H. apply Nat.eqb_neq in H.
  destruct k as [|[|[|[|k]]]]; cbn [form5]; unfold Nd1, NdRow, NdCol; cbn [C15_ArgCheck.isvector];
    rewrite ?shape_ok_1, ?shape_ok_row, ?shape_ok_col, H; reflexivity.
Qed.

Theorem C15_assertvector_wrong_length : forall k (l : list E) d, length l <> d ->
  assertvector (form5 k l) (Some d) = Err ValueError.
Proof. intros; unfold assertvector; now rewrite C15_isvector_wrong_length. Qed.

End Forms.
Print Assumptions C15_getvector_row_col_nd1.
Print Assumptions C15_getvector_tuple_list.
Print Assumptions C15_getvector_list_nd1.
Print Assumptions C15_getvector_scalar.
Print Assumptions C15_getvector_five_forms.
Print Assumptions C15_getvector_value.
Print Assumptions C15_wrong_length_ndarray.
Print Assumptions C15_matrix_rejected.
Print Assumptions C15_wrong_length_sequence.
Print Assumptions C15_wrong_length_five_forms.
Print Assumptions C15_wrong_length_scalar.
Print Assumptions C15_right_length_accepted.
Print Assumptions C15_other_rejected.
Print Assumptions C15_bad_out_rejected.
Print Assumptions C15_isvector_sound.
Print Assumptions C15_isvector_complete_with_dim.
Print Assumptions C15_isvector_complete_refuted.
Print Assumptions C15_isvector_complete_partial.
Print Assumptions C15_isvector_five_forms.
Print Assumptions C15_isvector_wrong_length.
Print Assumptions C15_assertvector_wrong_length.

(* ---- 7. getunit over any scalar type: degrees are radians times pi/180, any other unit string is an error *)
Section Units.
Context {T : Type} (O : ops T).
Theorem C15_getunit_deg_is_rad : forall a : T,
  getunit O a UDeg = getunit O (div O (mul O a (pi_f O)) (of_Z O 180%Z)) URad.
Proof. reflexivity. Qed.
Theorem C15_getunit_vec_deg_is_rad : forall l : list T,
  getunit_vec O l UDeg = getunit_vec O (map (fun a => div O (mul O a (pi_f O)) (of_Z O 180%Z)) l) URad.
Proof. reflexivity. Qed.
Theorem C15_getunit_vec_elementwise : forall (l : list T) u r,
  getunit_vec O l u = Ok r -> length r = length l /\ forall i d, getunit O (nth i l d) u = Ok (nth i r (match u with UDeg => deg2rad O d | _ => d end)).
Proof.
  intros l u r H; destruct u; inversion H; subst; split; try reflexivity.
  - apply map_length.
  - intros i d. cbn. now rewrite map_nth.
Qed.
Theorem C15_getunit_unknown_rejected : forall (a : T) (l : list T),
  getunit O a UOther = Err ValueError /\ getunit_vec O l UOther = Err ValueError.
Proof. split; reflexivity. Qed.
End Units.
Print Assumptions C15_getunit_deg_is_rad.
Print Assumptions C15_getunit_vec_deg_is_rad.
Print Assumptions C15_getunit_vec_elementwise.
Print Assumptions C15_getunit_unknown_rejected.
