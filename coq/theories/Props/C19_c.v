(* C19 (c) -- Pluecker lines: pairs of lines (equality, parallelism, reciprocal product, common perpendicular, distance),
   line/plane intersection, planes.  tr_* / pc_* regenerated from /repo on every run.
   The model mirrors the code as it is; where the code violates the property the full statement is kept in a comment
   and a `_refuted` witness + a `_partial` guarded statement are proved (each `_refuted` witness is replayed on the
   implementation by props/C19.py and is a known finding).  Four such pairs remain; Plane.contains was repaired in
   /repo (82519e9) and now has the full-strength theorem. *)
From Coq Require Import Reals ZArith Lra Lia Nsatz Psatz.
From SM Require Import Base.Ops Base.Lin Base.RInst Base.RLin.
From SMgen Require Import Traces_C19.
Open Scope R_scope.

Definition lv (L : V6 R) : V3 R := let '(a,b,c,_,_,_) := L in (a,b,c).
Definition lw (L : V6 R) : V3 R := let '(_,_,_,d,e,f) := L in (d,e,f).
Definition mk6 (v w : V3 R) : V6 R := let '(a,b,c) := v in let '(d,e,f) := w in (a,b,c,d,e,f).
Definition is_line (L : V6 R) : Prop := dot3 Rops (lv L) (lw L) = 0.

Ltac unf := unfold is_line in *; autounfold with smgen smlin in *; unfold lv, lw, mk6 in *; sm_simpl.
Ltac gen_ring := intros; destruct_tuples; unf; tuple_eq ltac:(ring).

Ltac sq_nonneg :=
  lazymatch goal with
  | |- 0 <= ?a + ?b => apply Rplus_le_le_0_compat; sq_nonneg
  | |- 0 <= ?x * ?x => apply Rle_0_sqr
  | |- _ => nra
  end.
(* abstract every sqrt: s with s*s = e, 0 <= s *)
Ltac abs_sqrt :=
  repeat match goal with
  | |- context [sqrt ?e] =>
      let s := fresh "s" in let H1 := fresh "Hss" in let H2 := fresh "Hs0" in let Hq := fresh "Hq" in
      assert (H1 : sqrt e * sqrt e = e) by (apply sqrt_sqrt; sq_nonneg);
      pose proof (sqrt_pos e) as H2;
      remember (sqrt e) as s eqn:Hq; clear Hq
  | H : context [sqrt ?e] |- _ =>
      let s := fresh "s" in let H1 := fresh "Hss" in let H2 := fresh "Hs0" in let Hq := fresh "Hq" in
      assert (H1 : sqrt e * sqrt e = e) by (apply sqrt_sqrt; sq_nonneg);
      pose proof (sqrt_pos e) as H2;
      remember (sqrt e) as s eqn:Hq; clear Hq
  end.
Ltac nz := assumption || lra || nra.
(* abstract every reciprocal 1/d: i with i*d = 1 *)
Ltac abs_inv :=
  repeat match goal with
  | |- context [1 / ?d] =>
      let i := fresh "i" in let Hi := fresh "Hi" in let Hq := fresh "Hq" in
      assert (Hi : (1 / d) * d = 1) by (field; nz);
      remember (1 / d) as i eqn:Hq; clear Hq
  | H : context [1 / ?d] |- _ =>
      let i := fresh "i" in let Hi := fresh "Hi" in let Hq := fresh "Hq" in
      assert (Hi : (1 / d) * d = 1) by (field; nz);
      remember (1 / d) as i eqn:Hq; clear Hq
  end.
Ltac fld := field; repeat split; nz.
Ltac nsz := repeat match goal with H : _ <= _ |- _ => clear H | H : _ < _ |- _ => clear H | H : _ <> _ |- _ => clear H end; nsatz.
Ltac pos_sqrt :=
  repeat match goal with
  | H : 0 < _ + ?s, Hss : ?s * ?s = ?e |- _ =>
      lazymatch goal with
      | _ : 0 < s |- _ => fail
      | _ => assert (0 < s) by lra; assert (e <> 0) by nra
      end
  end.
Definition plane_res (a : V4 R) (x : V3 R) : R := let '(a0,a1,a2,a3) := a in let '(x0,x1,x2) := x in a0*x0 + a1*x1 + a2*x2 + a3.
Definition pn (a : V4 R) : V3 R := let '(a0,a1,a2,_) := a in (a0,a1,a2).
Definition scale6 (k : R) (L : V6 R) : V6 R := let '(a,b,c,d,e,f) := L in (k*a,k*b,k*c,k*d,k*e,k*f).
Definition on (L : V6 R) (x : V3 R) : Prop := cross3 Rops (lw L) x = lv L.     (* x lies on the line (v,w):  w x x = v *)
Ltac unf2 := unfold plane_res, pn, scale6, on in *; unf.

(* ---------- equality: same oriented line under positive rescaling ---------- *)
Theorem C19_eq_positive_rescaling : forall (L : V6 R) (k : R), 0 < k ->
  0 < pc_eq_0 Rops L (scale6 k L) -> 0 < pc_eq_1 Rops L (scale6 k L) ->
  tr_eq_res Rops L (scale6 k L) = 0 /\ tr_eq_res Rops L (scale6 (-k) L) = 2.
Proof.
  intros L k Hk H0 H1. destruct_tuples. unf2. abs_sqrt. pos_sqrt.
  match goal with Ha : ?a * ?a = ?ea, Hb : ?b * ?b = k * _ * _ + _ + _ + _ + _ + _ |- _ =>
     assert (Eb : b = k * a) by (apply Rsqr_inj; [lra | nra | unfold Rsqr; nra]); subst b end.
  split.
  - match goal with |- Rabs ?e = 0 => replace e with 0 by (symmetry; abs_inv; nsz); apply Rabs_R0 end.
  - abs_sqrt.
    match goal with Ha : ?a * ?a = ?ea, Hb : ?b * ?b = - k * _ * _ + _ + _ + _ + _ + _ |- _ =>
       assert (Eb : b = k * a) by (apply Rsqr_inj; [lra | nra | unfold Rsqr; nra]); subst b end.
    match goal with |- Rabs ?e = 2 => replace e with (-2) by (symmetry; abs_inv; nsz); rewrite Rabs_left by lra; lra end.
Qed.
Print Assumptions C19_eq_positive_rescaling.

Lemma sumsq3_zero : forall a b c : R, a*a + b*b + c*c = 0 -> a = 0 /\ b = 0 /\ c = 0.
Proof. intros a b c H. repeat split; nra. Qed.
Print Assumptions sumsq3_zero.

(* ---------- parallelism: the residual vanishes exactly when w1 x w2 = 0 ---------- *)
Theorem C19_isparallel_residual : forall (L M : V6 R),
  tr_isparallel_res Rops L M = sqrt (normsq3 Rops (cross3 Rops (lw L) (lw M))) /\
  (tr_isparallel_res Rops L M = 0 <-> cross3 Rops (lw L) (lw M) = (0,0,0)).
Proof.
  intros L M. destruct_tuples. unf2.
  match goal with |- sqrt ?a = sqrt ?b /\ _ => assert (E : a = b) by ring; assert (Hb : 0 <= b) by sq_nonneg end.
  split; [rewrite E; reflexivity|]. rewrite E. split.
  - intros Hz. apply sqrt_eq_0 in Hz; [|exact Hb]. apply sumsq3_zero in Hz. destruct Hz as (?&?&?). tuple_eq ltac:(lra).
  - intros Hc. injection Hc; intros H1 H2 H3. rewrite H1, H2, H3. replace (0*0+0*0+0*0) with 0 by ring. apply sqrt_0.
Qed.
Print Assumptions C19_isparallel_residual.

Theorem C19_isparallel_rescaled : forall (p q d : V3 R) (k : R),
  tr_isparallel_res Rops (tr_PointDir Rops p d) (tr_PointDir Rops q (vscale3 Rops k d)) = 0.
Proof.
  intros. apply (proj2 (C19_isparallel_residual _ _)). destruct_tuples. unf2. tuple_eq ltac:(ring).
Qed.
Print Assumptions C19_isparallel_rescaled.

(* ---------- reciprocal product  l1 * l2  ---------- *)
(* what the code computes: each moment is paired with the UNIT direction of the other line *)
Theorem C19_recip_formula : forall (L M : V6 R), 0 < pc_recip_0 Rops L M -> 0 < pc_recip_1 Rops L M ->
  tr_recip Rops L M = dot3 Rops (lv L) (lw M) / sqrt (normsq3 Rops (lw M)) + dot3 Rops (lw L) (lv M) / sqrt (normsq3 Rops (lw L)).
Proof. intros L M H0 H1. destruct_tuples. unf2. abs_sqrt. pos_sqrt. fld. Qed.
Print Assumptions C19_recip_formula.

(* FULL STATEMENT (false of the code as it is):
     forall L M x, is_line L -> is_line M -> on L x -> on M x -> tr_recip L M = 0
   i.e. the reciprocal product of two lines that meet is zero.  It fails when the direction lengths differ. *)
Theorem C19_recip_meeting_lines_refuted : exists (L M : V6 R) (x : V3 R),
  is_line L /\ is_line M /\ on L x /\ on M x /\ 0 < pc_recip_0 Rops L M /\ 0 < pc_recip_1 Rops L M /\
  tr_recip Rops L M <> 0.
Proof.
  exists (0,-1,0,1,0,0), (2,0,0,0,2,0), (0,0,1). unf2. abs_sqrt.
  assert (s = 1) by nra. assert (s0 = 2) by nra. subst.
  repeat split; try lra; try (tuple_eq ltac:(ring)); try (intro; lra).
Qed.
Print Assumptions C19_recip_meeting_lines_refuted.

Theorem C19_recip_meeting_lines_partial : forall (L M : V6 R) (x : V3 R),
  0 < pc_recip_0 Rops L M -> 0 < pc_recip_1 Rops L M -> on L x -> on M x ->
  normsq3 Rops (lw L) = normsq3 Rops (lw M) -> tr_recip Rops L M = 0.
Proof.
  intros L M x H0 H1 HL HM HN. destruct_tuples. unf2. injection HL; intros; subst. injection HM; intros; subst.
  rewrite HN in *. abs_sqrt. pos_sqrt. abs_inv. nsz.
Qed.
Print Assumptions C19_recip_meeting_lines_partial.

(* ---------- common perpendicular ---------- *)
Definition cp_path (L M : V6 R) : Prop :=
  pc_commonperp_0 Rops L M <= 0 /\ 0 < pc_commonperp_1 Rops L M /\ 0 < pc_commonperp_2 Rops L M /\ 0 < pc_commonperp_3 Rops L M.

(* geometry (holds of the code as it is): the point set  { pp + t w }  of the result has direction w1 x w2, is orthogonal
   to both lines and meets both (coplanar with each, directions not parallel) *)
Theorem C19_commonperp_geometry : forall (L M : V6 R) (x y : V3 R), cp_path L M -> is_line L -> is_line M ->
  let C := tr_commonperp Rops L M in
  lw C = cross3 Rops (lw L) (lw M) /\ dot3 Rops (lw C) (lw L) = 0 /\ dot3 Rops (lw C) (lw M) = 0 /\
  (on L x -> dot3 Rops (vsub3 Rops x (tr_pp Rops C)) (cross3 Rops (lw L) (lw C)) = 0) /\
  (on M y -> dot3 Rops (vsub3 Rops y (tr_pp Rops C)) (cross3 Rops (lw M) (lw C)) = 0).
Proof.
  intros L M x y (P0 & P1 & P2 & P3) HL HM. destruct_tuples. unfold cp_path in *. unf2.
  abs_sqrt. pos_sqrt. split; [tuple_eq ltac:(ring)| split; [ring | split; [ring | split ]]].
  - intros Hx. injection Hx; intros; subst. abs_inv. nsz.
  - intros Hy. injection Hy; intros; subst. abs_inv. nsz.
Qed.
Print Assumptions C19_commonperp_geometry.

Ltac lit_sqrt_v s Hs v := assert (s = v) by (apply Rsqr_inj; [lra | lra | unfold Rsqr; rewrite Hs; field]).
Ltac lit_sqrt := repeat match goal with Hs : ?s * ?s = _, H0 : 0 <= ?s |- _ => is_var s;
    first [ lit_sqrt_v s Hs 1 | lit_sqrt_v s Hs 2 | lit_sqrt_v s Hs 3 | lit_sqrt_v s Hs 4 | lit_sqrt_v s Hs 5 | lit_sqrt_v s Hs (4/5) ]; subst s end.

(* FULL STATEMENT (false of the code as it is):
     forall L M, cp_path L M -> is_line L -> is_line M -> is_line (tr_commonperp L M)
   the component of the moment along w1 x w2 is scaled by 1/|w1 x w2| and uses the normalised reciprocal product *)
Theorem C19_commonperp_constraint_refuted : exists L M : V6 R,
  cp_path L M /\ is_line L /\ is_line M /\ ~ is_line (tr_commonperp Rops L M).
Proof.
  exists (0,0,0,1,0,0), (4,-3,0,3,4,0). unfold cp_path. unf2. abs_sqrt. lit_sqrt.
  repeat split; try lra; try (intro; lra).
Qed.
Print Assumptions C19_commonperp_constraint_refuted.

Theorem C19_commonperp_constraint_partial : forall L M : V6 R, cp_path L M -> is_line L -> is_line M ->
  dot3 Rops (lw L) (lw M) = 0 -> is_line (tr_commonperp Rops L M).
Proof.
  intros L M (P0 & P1 & P2 & P3) HL HM HO. destruct_tuples. unfold cp_path in *. unf2.
  abs_sqrt. pos_sqrt. abs_inv. nsz.
Qed.
Print Assumptions C19_commonperp_constraint_partial.

(* ---------- distance between two non-parallel lines ---------- *)
Definition dist_path (L M : V6 R) : Prop :=
  pc_distance_0 Rops L M <= 0 /\ 0 < pc_distance_1 Rops L M /\ 0 < pc_distance_2 Rops L M /\ pc_distance_3 Rops L M <= 0.
(* elementary geometry: for feet x on L, y on M with x - y orthogonal to both directions,
   |x - y|^2 |w1 x w2|^2 = (w1.v2 + v1.w2)^2 *)
Definition recip_ref (L M : V6 R) : R := dot3 Rops (lw L) (lv M) + dot3 Rops (lv L) (lw M).
Definition dist_ref (L M : V6 R) : R := Rabs (recip_ref L M) / sqrt (normsq3 Rops (cross3 Rops (lw L) (lw M))).

Theorem C19_distance_reference : forall (L M : V6 R) (x y : V3 R), on L x -> on M y ->
  dot3 Rops (vsub3 Rops x y) (lw L) = 0 -> dot3 Rops (vsub3 Rops x y) (lw M) = 0 ->
  normsq3 Rops (vsub3 Rops x y) * normsq3 Rops (cross3 Rops (lw L) (lw M)) = recip_ref L M * recip_ref L M.
Proof.
  intros L M x y HL HM H1 H2. destruct_tuples. unfold recip_ref in *. unf2.
  injection HL; intros; subst. injection HM; intros; subst. nsz.
Qed.
Print Assumptions C19_distance_reference.

Theorem C19_distance_formula : forall L M : V6 R, dist_path L M ->
  tr_distance Rops L M = Rabs (tr_recip Rops L M) / normsq3 Rops (cross3 Rops (lw L) (lw M)).
Proof.
  intros L M (P0 & P1 & P2 & P3). destruct_tuples. unfold dist_path in *. unf2.
  match goal with |- context [Rabs ?E] => set (A := Rabs E) in * end.
  try match goal with |- context [Rabs ?E'] => replace (Rabs E') with A by (unfold A; f_equal; ring) end.
  abs_sqrt. assert (0 < s) by lra. fld.
Qed.
Print Assumptions C19_distance_formula.

(* FULL STATEMENT (false of the code as it is):  forall L M, dist_path L M -> is_line L -> is_line M -> tr_distance L M = dist_ref L M
   refuted even for unit directions: the quotient is by |w1 x w2|^2 *)
Theorem C19_distance_refuted : exists L M : V6 R,
  dist_path L M /\ is_line L /\ is_line M /\ normsq3 Rops (lw L) = 1 /\ normsq3 Rops (lw M) = 1 /\
  tr_distance Rops L M <> dist_ref L M.
Proof.
  exists (0,0,0,1,0,0), (4/5,-(3/5),0,3/5,4/5,0). unfold dist_path, dist_ref, recip_ref. unf2. abs_sqrt.
  lit_sqrt.
  repeat match goal with |- context [Rabs ?E] => progress (replace E with (4/5) by field) end.
  rewrite (Rabs_right (4/5)) by lra.
  repeat split; try lra; try field.
  all: try match goal with |- ?A <> ?B => assert (EA : A = 5/4) by field; assert (EB : B = 1) by field; rewrite EA, EB; lra end.
Qed.
Print Assumptions C19_distance_refuted.

Theorem C19_distance_partial : forall L M : V6 R, dist_path L M -> is_line L -> is_line M ->
  normsq3 Rops (lw L) = 1 -> normsq3 Rops (lw M) = 1 -> dot3 Rops (lw L) (lw M) = 0 ->
  tr_distance Rops L M = dist_ref L M.
Proof.
  intros L M HP HL HM N1 N2 HO. rewrite (C19_distance_formula L M HP).
  destruct HP as (P0 & P1 & P2 & P3). rewrite (C19_recip_formula L M); [| exact P1 | exact P2].
  unfold dist_ref, recip_ref. rewrite N1, N2, sqrt_1.
  assert (EN : normsq3 Rops (cross3 Rops (lw L) (lw M)) = 1).
  { clear P0 P1 P2 P3. destruct_tuples. unf2. nsz. }
  rewrite EN, sqrt_1. f_equal. f_equal. destruct_tuples. unf2. field.
Qed.
Print Assumptions C19_distance_partial.

(* ---------- line / plane intersection ---------- *)
Ltac den_nz H := match type of H with 0 < _ + Rabs ?d => assert (d <> 0) by (let Hz := fresh "Hz" in intro Hz; rewrite Hz, Rabs_R0 in H; lra) end.

Theorem C19_intersect_plane_point : forall (L : V6 R) (a : V4 R), 0 < pc_ip_0 Rops L a ->
  plane_res a (tr_ip_p Rops L a) = 0 /\ (is_line L -> on L (tr_ip_p Rops L a)).
Proof.
  intros L a H. destruct_tuples. unf2. den_nz H. split.
  - abs_inv. nsz.
  - intros HL. abs_inv. tuple_eq ltac:(nsz).
Qed.
Print Assumptions C19_intersect_plane_point.

(* what `lam` is: the signed offset of the principal point from the plane along the (unnormalised) normal *)
Theorem C19_intersect_plane_lam_formula : forall (L : V6 R) (a : V4 R), 0 < pc_ip_0 Rops L a ->
  tr_ip_lam Rops L a = dot3 Rops (vsub3 Rops (tr_pp Rops L) (tr_ip_p Rops L a)) (pn a).
Proof. intros L a H. destruct_tuples. unf2. ring. Qed.
Print Assumptions C19_intersect_plane_lam_formula.

(* FULL STATEMENT (false of the code as it is):
     forall L a k, is_line L -> 0 < pc_ip_0 L a -> 0 < pc_point_0 L k -> tr_point L (tr_ip_lam L a) = tr_ip_p L a *)
Theorem C19_intersect_plane_lam_refuted : exists (L : V6 R) (a : V4 R),
  is_line L /\ 0 < pc_ip_0 Rops L a /\ 0 < pc_point_0 Rops L (tr_ip_lam Rops L a) /\
  tr_point Rops L (tr_ip_lam Rops L a) <> tr_ip_p Rops L a.
Proof.
  exists (0,0,0,1,0,0), (1,0,0,-2). unf2. abs_sqrt. lit_sqrt.
  replace (1 * 1 + 0 * 0 + 0 * 0) with 1 by ring. rewrite Rabs_R1.
  repeat split; try lra. intro H. injection H; intros. lra.
Qed.
Print Assumptions C19_intersect_plane_lam_refuted.

(* the relation that does hold: the line parameter of the intersection point is  -lam |w| / (w.n) *)
Theorem C19_intersect_plane_lam_partial : forall (L : V6 R) (a : V4 R),
  is_line L -> 0 < pc_ip_0 Rops L a -> 0 < pc_point_0 Rops L 0 ->
  tr_point Rops L (- tr_ip_lam Rops L a * sqrt (normsq3 Rops (lw L)) * (1 / dot3 Rops (lw L) (pn a))) = tr_ip_p Rops L a /\
  (dot3 Rops (lw L) (pn a) = - sqrt (normsq3 Rops (lw L)) -> tr_point Rops L (tr_ip_lam Rops L a) = tr_ip_p Rops L a).
Proof.
  intros L a HL H HP. destruct_tuples. unf2. den_nz H. abs_sqrt. pos_sqrt. split.
  - abs_inv. tuple_eq ltac:(nsz).
  - intros HN. abs_inv. tuple_eq ltac:(nsz).
Qed.
Print Assumptions C19_intersect_plane_lam_partial.

(* ---------- planes:  a x + b y + c z + d = 0  ---------- *)
Theorem C19_PlanePN_contains_point : forall p n : V3 R,
  plane_res (tr_PlanePN Rops p n) p = 0 /\ pn (tr_PlanePN Rops p n) = n.
Proof. intros. destruct_tuples. unf2. split; [ring | tuple_eq ltac:(ring)]. Qed.
Print Assumptions C19_PlanePN_contains_point.

(* Plane.contains compares |n.x + d| with its tolerance: the plane equation of the constructors
   (repaired by /repo commit 82519e9; before it the residual was |n.x - d| and this was a _refuted/_partial pair) *)
Theorem C19_Plane_contains_residual : forall (a : V4 R) (x : V3 R),
  tr_Plane_contains_res Rops a x = Rabs (plane_res a x) /\
  (tr_Plane_contains_res Rops a x = 0 <-> plane_res a x = 0).
Proof.
  intros. destruct_tuples. unf2.
  match goal with |- Rabs ?e = Rabs ?f /\ _ => assert (E : e = f) by ring; rewrite E; clear E; generalize f end.
  intros z. split; [reflexivity|]. split; intros H.
  - destruct (Req_dec z 0) as [Hz|Hz]; [exact Hz|]. apply Rabs_no_R0 in Hz. contradiction.
  - rewrite H. apply Rabs_R0.
Qed.
Print Assumptions C19_Plane_contains_residual.

(* plane membership of the point a plane was built from: full statement *)
Theorem C19_Plane_contains_defining_point : forall p n : V3 R,
  tr_Plane_contains_res Rops (tr_PlanePN Rops p n) p = 0.
Proof.
  intros p n. apply (proj2 (C19_Plane_contains_residual _ _)). apply (proj1 (C19_PlanePN_contains_point p n)).
Qed.
Print Assumptions C19_Plane_contains_defining_point.

(* ... and of every point of the plane through p with normal n, and of no other point *)
Theorem C19_Plane_contains_iff : forall p n x : V3 R,
  tr_Plane_contains_res Rops (tr_PlanePN Rops p n) x = 0 <-> dot3 Rops n (vsub3 Rops x p) = 0.
Proof.
  intros p n x. rewrite (proj2 (C19_Plane_contains_residual _ _)). destruct_tuples. unf2. split; intros H; lra.
Qed.
Print Assumptions C19_Plane_contains_iff.

(* non-vacuity of the hypotheses used in this file: two skew lines with perpendicular unit directions,
   a plane that cuts the first *)
Example C19_c_nonvacuous :
  let L := (0,0,0,1,0,0) in let M := (1,0,0,0,1,0) in
  is_line L /\ is_line M /\ on L (3,0,0) /\ on M (0,7,1) /\ cp_path L M /\ dist_path L M /\
  normsq3 Rops (lw L) = 1 /\ normsq3 Rops (lw M) = 1 /\ dot3 Rops (lw L) (lw M) = 0 /\
  0 < pc_recip_0 Rops L M /\ 0 < pc_recip_1 Rops L M /\ 0 < pc_eq_0 Rops L (scale6 2 L) /\ 0 < pc_eq_1 Rops L (scale6 2 L) /\
  0 < pc_ip_0 Rops L (-1,0,0,2) /\ dot3 Rops (lw L) (pn (-1,0,0,2)) = - sqrt (normsq3 Rops (lw L)) /\
  tr_distance Rops L M = 1.
Proof.
  unfold cp_path, dist_path. unf2. abs_sqrt. lit_sqrt.
  repeat match goal with |- context [Rabs ?E] => progress (replace E with 1 by field) end.
  rewrite Rabs_R1.
  repeat match goal with |- context [Rabs ?E] => progress (replace E with (-1) by field) end.
  replace (Rabs (-1)) with 1 by (rewrite Rabs_left; lra).
  repeat split; try lra; try (tuple_eq ltac:(ring)); try field.
Qed.
