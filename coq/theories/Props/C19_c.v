(* C19 (c) -- Pluecker lines: pairs of lines (equality, parallelism, reciprocal product, common perpendicular, distance),
   line/plane intersection, planes.  tr_* / pc_* regenerated from /repo on every run.
   The model mirrors the code as it is; where the code violates the property the full statement is kept in a comment
   and a `_refuted` witness + a `_partial` guarded statement are proved (each `_refuted` witness is replayed on the
   implementation by props/C19.py and is a known finding).  No such pair remains: all five defects that needed one
   (Plane.contains 82519e9, reciprocal product 9b08ad9, commonperp ba1d83a, distance 77e7e2a, intersect_plane lam a2fbf35)
   were repaired in /repo and now have the full-strength theorems; Plane.P3 (80f9d50) and intersects (5acc1ad) trace now. *)
From Coq Require Import Reals ZArith Lra Lia Nsatz Psatz.
From SM Require Import Base.Ops Base.Lin Base.RInst Base.RLin.
From SMgen Require Import Traces_C19.
Open Scope R_scope.

Definition lv (L : V6 R) : V3 R := let '(a,b,c,_,_,_) := L in (a,b,c).
Definition lw (L : V6 R) : V3 R := let '(_,_,_,d,e,f) := L in (d,e,f).
Definition mk6 (v w : V3 R) : V6 R := let '(a,b,c) := v in let '(d,e,f) := w in (a,b,c,d,e,f).
Definition is_line (L : V6 R) : Prop := dot3 Rops (lv L) (lw L) = 0.

Ltac unf := unfold is_line in *; autounfold with smgen smlin in *; unfold lv, lw, mk6 in *; sm_simpl.
Ltac gen_ring := intros; destruct_tuples; unf; tuple_eq ltac:(ring).

Ltac sq_nonneg :=
  lazymatch goal with
  | |- 0 <= ?a + ?b => apply Rplus_le_le_0_compat; sq_nonneg
  | |- 0 <= ?x * ?x => apply Rle_0_sqr
  | |- _ => nra
  end.
(* abstract every sqrt: s with s*s = e, 0 <= s *)
Ltac abs_sqrt :=
  repeat match goal with
  | |- context [sqrt ?e] =>
      let s := fresh "s" in let H1 := fresh "Hss" in let H2 := fresh "Hs0" in let Hq := fresh "Hq" in
      assert (H1 : sqrt e * sqrt e = e) by (apply sqrt_sqrt; sq_nonneg);
      pose proof (sqrt_pos e) as H2;
      remember (sqrt e) as s eqn:Hq; clear Hq
  | H : context [sqrt ?e] |- _ =>
      let s := fresh "s" in let H1 := fresh "Hss" in let H2 := fresh "Hs0" in let Hq := fresh "Hq" in
      assert (H1 : sqrt e * sqrt e = e) by (apply sqrt_sqrt; sq_nonneg);
      pose proof (sqrt_pos e) as H2;
      remember (sqrt e) as s eqn:Hq; clear Hq
  end.
Ltac nz := assumption || lra || nra.
(* abstract every reciprocal 1/d: i with i*d = 1 *)
Ltac abs_inv :=
  repeat match goal with
  | |- context [1 / ?d] =>
      let i := fresh "i" in let Hi := fresh "Hi" in let Hq := fresh "Hq" in
      assert (Hi : (1 / d) * d = 1) by (field; nz);
      remember (1 / d) as i eqn:Hq; clear Hq
  | H : context [1 / ?d] |- _ =>
      let i := fresh "i" in let Hi := fresh "Hi" in let Hq := fresh "Hq" in
      assert (Hi : (1 / d) * d = 1) by (field; nz);
      remember (1 / d) as i eqn:Hq; clear Hq
  end.
Ltac fld := field; repeat split; nz.
Ltac nsz := repeat match goal with H : _ <= _ |- _ => clear H | H : _ < _ |- _ => clear H | H : _ <> _ |- _ => clear H end; nsatz.
Ltac pos_sqrt :=
  repeat match goal with
  | H : 0 < _ + ?s, Hss : ?s * ?s = ?e |- _ =>
      lazymatch goal with
      | _ : 0 < s |- _ => fail
      | _ => assert (0 < s) by lra; assert (e <> 0) by nra
      end
  | H : 0 <= _ + ?s, Hss : ?s * ?s = ?e |- _ =>
      lazymatch goal with
      | _ : 0 < s |- _ => fail
      | _ => assert (0 < s) by lra; assert (e <> 0) by nra
      end
  end.
Definition plane_res (a : V4 R) (x : V3 R) : R := let '(a0,a1,a2,a3) := a in let '(x0,x1,x2) := x in a0*x0 + a1*x1 + a2*x2 + a3.
Definition pn (a : V4 R) : V3 R := let '(a0,a1,a2,_) := a in (a0,a1,a2).
Definition scale6 (k : R) (L : V6 R) : V6 R := let '(a,b,c,d,e,f) := L in (k*a,k*b,k*c,k*d,k*e,k*f).
Definition on (L : V6 R) (x : V3 R) : Prop := cross3 Rops (lw L) x = lv L.     (* x lies on the line (v,w):  w x x = v *)
Ltac unf2 := unfold plane_res, pn, scale6, on in *; unf.

(* ---------- equality: same oriented line under positive rescaling ---------- *)
Theorem C19_eq_positive_rescaling : forall (L : V6 R) (k : R), 0 < k ->
  0 <= pc_eq_0 Rops L (scale6 k L) -> 0 <= pc_eq_1 Rops L (scale6 k L) ->
  tr_eq_res Rops L (scale6 k L) = 0 /\ tr_eq_res Rops L (scale6 (-k) L) = 2.
Proof.
  intros L k Hk H0 H1. destruct_tuples. unf2. abs_sqrt. pos_sqrt.
  match goal with Ha : ?a * ?a = ?ea, Hb : ?b * ?b = k * _ * _ + _ + _ + _ + _ + _ |- _ =>
     assert (Eb : b = k * a) by (apply Rsqr_inj; [lra | nra | unfold Rsqr; nra]); subst b end.
  split.
  - match goal with |- Rabs ?e = 0 => replace e with 0 by (symmetry; abs_inv; nsz); apply Rabs_R0 end.
  - abs_sqrt.
    match goal with Ha : ?a * ?a = ?ea, Hb : ?b * ?b = - k * _ * _ + _ + _ + _ + _ + _ |- _ =>
       assert (Eb : b = k * a) by (apply Rsqr_inj; [lra | nra | unfold Rsqr; nra]); subst b end.
    match goal with |- Rabs ?e = 2 => replace e with (-2) by (symmetry; abs_inv; nsz); rewrite Rabs_left by lra; lra end.
Qed.
Print Assumptions C19_eq_positive_rescaling.

Lemma sumsq3_zero : forall a b c : R, a*a + b*b + c*c = 0 -> a = 0 /\ b = 0 /\ c = 0.
Proof. intros a b c H. repeat split; nra. Qed.
Print Assumptions sumsq3_zero.

(* ---------- parallelism: the residual vanishes exactly when w1 x w2 = 0 ---------- *)
Theorem C19_isparallel_residual : forall (L M : V6 R),
  tr_isparallel_res Rops L M = sqrt (normsq3 Rops (cross3 Rops (lw L) (lw M))) /\
  (tr_isparallel_res Rops L M = 0 <-> cross3 Rops (lw L) (lw M) = (0,0,0)) /\
  tr_isparallel_thr Rops L M = 5 / 2251799813685248 * sqrt (normsq3 Rops (lw L)) * sqrt (normsq3 Rops (lw M)).
Proof.
  intros L M. destruct_tuples. unf2.
  match goal with |- sqrt ?a = sqrt ?b /\ _ => assert (E : a = b) by ring; assert (Hb : 0 <= b) by sq_nonneg end.
  split; [rewrite E; reflexivity|]. rewrite E. split; [split|reflexivity].
  - intros Hz. apply sqrt_eq_0 in Hz; [|exact Hb]. apply sumsq3_zero in Hz. destruct Hz as (?&?&?). tuple_eq ltac:(lra).
  - intros Hc. injection Hc; intros H1 H2 H3. rewrite H1, H2, H3. replace (0*0+0*0+0*0) with 0 by ring. apply sqrt_0.
Qed.
Print Assumptions C19_isparallel_residual.

Theorem C19_isparallel_rescaled : forall (p q d : V3 R) (k : R),
  tr_isparallel_res Rops (tr_PointDir Rops p d) (tr_PointDir Rops q (vscale3 Rops k d)) = 0.
Proof.
  intros. apply (proj1 (proj2 (C19_isparallel_residual _ _))). destruct_tuples. unf2. tuple_eq ltac:(ring).
Qed.
Print Assumptions C19_isparallel_rescaled.

(* the test |w1 x w2| < tol |w1| |w2| does not depend on the length of a direction (repaired by /repo b223bb8;
   before it the right-hand side was the constant tol): both sides scale by k *)
Theorem C19_isparallel_scale_invariant : forall (L M : V6 R) (k : R), 0 < k ->
  tr_isparallel_res Rops (scale6 k L) M = k * tr_isparallel_res Rops L M /\
  tr_isparallel_thr Rops (scale6 k L) M = k * tr_isparallel_thr Rops L M /\
  (tr_isparallel_res Rops (scale6 k L) M < tr_isparallel_thr Rops (scale6 k L) M <->
   tr_isparallel_res Rops L M < tr_isparallel_thr Rops L M).
Proof.
  intros L M k Hk.
  assert (A : tr_isparallel_res Rops (scale6 k L) M = k * tr_isparallel_res Rops L M /\
              tr_isparallel_thr Rops (scale6 k L) M = k * tr_isparallel_thr Rops L M).
  { destruct_tuples. unf2. split.
    - match goal with |- sqrt ?a = k * sqrt ?b => replace a with (k * k * b) by ring;
        rewrite sqrt_mult_alt by nra; rewrite sqrt_square by lra; reflexivity end.
    - match goal with |- _ * sqrt ?a * ?t = k * (_ * sqrt ?b * ?t) => replace a with (k * k * b) by ring;
        rewrite sqrt_mult_alt by nra; rewrite sqrt_square by lra; ring end. }
  destruct A as [A1 A2]. split; [exact A1 | split; [exact A2 |]]. rewrite A1, A2. split; intros H; nra.
Qed.
Print Assumptions C19_isparallel_scale_invariant.

(* ---------- reciprocal product  l1 * l2  ---------- *)
Definition recip_ref (L M : V6 R) : R := dot3 Rops (lw L) (lv M) + dot3 Rops (lv L) (lw M).

(* the code: the reciprocal product of the two lines scaled to unit direction (repaired by /repo 9b08ad9; before it
   each moment was paired with the unit direction of the other line only: a _refuted/_partial pair) *)
Theorem C19_recip_value : forall (L M : V6 R), normsq3 Rops (lw L) <> 0 -> normsq3 Rops (lw M) <> 0 ->
  tr_recip Rops L M = recip_ref L M / (sqrt (normsq3 Rops (lw L)) * sqrt (normsq3 Rops (lw M))).
Proof.
  intros L M H0 H1. destruct_tuples. unfold recip_ref. unf2. abs_sqrt.
  assert (s <> 0) by (intro Z; subst; nra). assert (s0 <> 0) by (intro Z; subst; nra). fld.
Qed.
Print Assumptions C19_recip_value.

(* full statement: the reciprocal product of two lines that meet is zero, for any direction lengths *)
Theorem C19_recip_meeting_lines : forall (L M : V6 R) (x : V3 R),
  normsq3 Rops (lw L) <> 0 -> normsq3 Rops (lw M) <> 0 -> on L x -> on M x -> tr_recip Rops L M = 0.
Proof.
  intros L M x H0 H1 HL HM. rewrite (C19_recip_value L M H0 H1).
  assert (E : recip_ref L M = 0).
  { clear H0 H1. destruct_tuples. unfold recip_ref. unf2. injection HL; intros; subst. injection HM; intros; subst. ring. }
  rewrite E. unfold Rdiv. apply Rmult_0_l.
Qed.
Print Assumptions C19_recip_meeting_lines.

(* ... and it is invariant under rescaling either direction by a positive factor *)
Theorem C19_recip_scale_invariant : forall (L M : V6 R) (k : R), 0 < k ->
  normsq3 Rops (lw L) <> 0 -> normsq3 Rops (lw M) <> 0 -> tr_recip Rops (scale6 k L) M = tr_recip Rops L M.
Proof.
  intros L M k Hk H0 H1. destruct_tuples. unf2. abs_sqrt.
  match goal with Ha : ?a * ?a = k * _ * _ + _ + _, Hb : ?b * ?b = ?x * ?x + _ + _ |- _ =>
    first [ assert (Eb : a = k * b) by (apply Rsqr_inj; [lra | nra | unfold Rsqr; nra]); subst a | fail ] end.
  repeat match goal with Hs : ?s * ?s = _, Hp : 0 <= ?s |- _ => is_var s;
    lazymatch goal with _ : s <> 0 |- _ => fail | _ => assert (s <> 0) by (intro Z; subst; nra) end end.
  fld.
Qed.
Print Assumptions C19_recip_scale_invariant.

(* ---------- common perpendicular ---------- *)
Definition cp_path (L M : V6 R) : Prop := pc_commonperp_0 Rops L M <= 0.     (* the parallel test is not taken *)
(* the parallel test  |w1 x w2| < 10 eps |w1| |w2|  (relative since /repo b223bb8) NOT taken, with w1, w2 <> 0:
   0 < sqrt(w.w) for both directions, then 0 < |w1 x w2| and (w1 x w2).(w1 x w2) <> 0 *)
Ltac nn_nz :=
  repeat match goal with
  | Hss : ?s * ?s = ?e, Hne : ?e <> 0 |- _ =>
      lazymatch goal with _ : 0 < s |- _ => fail
      | _ => assert (0 < s) by (destruct (Req_dec s 0) as [Z|Z]; [exfalso; apply Hne; rewrite <- Hss, Z; ring | lra]) end
  end;
  repeat match goal with
  | H : -1 * ?s + ?c * ?a * ?b <= 0, Hss : ?s * ?s = ?e |- _ =>
      lazymatch goal with _ : 0 < s |- _ => fail
      | _ => assert (0 < a * b) by (apply Rmult_lt_0_compat; assumption); assert (0 < s) by nra; assert (e <> 0) by nra end
  end.

(* full statement (repaired by /repo ba1d83a): the result is a line (v.w = 0) with direction w1 x w2, orthogonal to both
   lines and meeting both (coplanar with each, directions not parallel) *)
Theorem C19_commonperp : forall (L M : V6 R) (x y : V3 R), normsq3 Rops (lw L) <> 0 -> normsq3 Rops (lw M) <> 0 ->
  cp_path L M -> is_line L -> is_line M ->
  let C := tr_commonperp Rops L M in
  is_line C /\ lw C = cross3 Rops (lw L) (lw M) /\ dot3 Rops (lw C) (lw L) = 0 /\ dot3 Rops (lw C) (lw M) = 0 /\
  (on L x -> dot3 Rops (vsub3 Rops x (tr_pp Rops C)) (cross3 Rops (lw L) (lw C)) = 0) /\
  (on M y -> dot3 Rops (vsub3 Rops y (tr_pp Rops C)) (cross3 Rops (lw M) (lw C)) = 0).
Proof.
  intros L M x y N1 N2 P0 HL HM. destruct_tuples. unfold cp_path in *. unf2.
  abs_sqrt. nn_nz. split; [| split; [tuple_eq ltac:(ring)| split; [ring | split; [ring | split ]]]].
  - abs_inv. nsz.
  - intros Hx. injection Hx; intros; subst. abs_inv. nsz.
  - intros Hy. injection Hy; intros; subst. abs_inv. nsz.
Qed.
Print Assumptions C19_commonperp.

(* ---------- distance between two lines ---------- *)
Definition dist_path (L M : V6 R) : Prop := pc_distance_0 Rops L M <= 0 /\ pc_distance_1 Rops L M <= 0.
(* elementary geometry: for feet x on L, y on M with x - y orthogonal to both directions,
   |x - y|^2 |w1 x w2|^2 = (w1.v2 + v1.w2)^2 *)
Definition dist_ref (L M : V6 R) : R := Rabs (recip_ref L M) / sqrt (normsq3 Rops (cross3 Rops (lw L) (lw M))).

Theorem C19_distance_reference : forall (L M : V6 R) (x y : V3 R), on L x -> on M y ->
  dot3 Rops (vsub3 Rops x y) (lw L) = 0 -> dot3 Rops (vsub3 Rops x y) (lw M) = 0 ->
  normsq3 Rops (vsub3 Rops x y) * normsq3 Rops (cross3 Rops (lw L) (lw M)) = recip_ref L M * recip_ref L M.
Proof.
  intros L M x y HL HM H1 H2. destruct_tuples. unfold recip_ref in *. unf2.
  injection HL; intros; subst. injection HM; intros; subst. nsz.
Qed.
Print Assumptions C19_distance_reference.

(* full statement (repaired by /repo 77e7e2a), skew branch: the distance of elementary geometry *)
Theorem C19_distance_skew : forall L M : V6 R, normsq3 Rops (lw L) <> 0 -> normsq3 Rops (lw M) <> 0 ->
  dist_path L M -> tr_distance Rops L M = dist_ref L M.
Proof.
  intros L M N1 N2 (P0 & P1). destruct_tuples. unfold dist_path, dist_ref, recip_ref in *. unf2.
  match goal with |- 1 / sqrt ?a * Rabs ?e = Rabs ?f / sqrt ?b =>
    replace f with e by ring; replace b with a by ring; set (A := Rabs e) in *; clear P1 end.
  abs_sqrt. nn_nz. fld.
Qed.
Print Assumptions C19_distance_skew.

(* the branch for meeting lines returns 0; on that branch the distance of elementary geometry is below
   10 eps |w1| |w2| / |w1 x w2|, and exactly 0 when the lines have a common point *)
Theorem C19_distance_meeting : forall (L M : V6 R) (x : V3 R),
  tr_distance_meet Rops L M = 0 /\
  (on L x -> on M x -> dist_ref L M = 0) /\
  (pc_distance_meet_0 Rops L M <= 0 -> 0 < pc_distance_meet_1 Rops L M -> normsq3 Rops (lw L) <> 0 -> normsq3 Rops (lw M) <> 0 ->
     dist_ref L M * sqrt (normsq3 Rops (cross3 Rops (lw L) (lw M)))
       < 5 / 2251799813685248 * (sqrt (normsq3 Rops (lw L)) * sqrt (normsq3 Rops (lw M)))).
Proof.
  intros L M x. split; [|split].
  - destruct_tuples. unf2. reflexivity.
  - intros HL HM. unfold dist_ref. replace (recip_ref L M) with 0.
    + rewrite Rabs_R0. unfold Rdiv. apply Rmult_0_l.
    + destruct_tuples. unfold recip_ref. unf2. injection HL; intros; subst. injection HM; intros; subst. ring.
  - intros P0 P1 H0 H1. destruct_tuples. unfold dist_ref, recip_ref. unf2.
    match goal with |- Rabs ?f / sqrt ?b * sqrt ?b' < _ => replace b' with b by ring;
      match type of P1 with context [Rabs ?e] => replace f with e by ring; set (A := Rabs e) in * end end.
    abs_sqrt. nn_nz.
    repeat match goal with Hs : ?s * ?s = _, Hp : 0 <= ?s |- _ => is_var s;
      lazymatch goal with _ : 0 < s |- _ => fail | _ => assert (0 < s) by (destruct (Req_dec s 0); [subst; nra | lra]) end end.
    match goal with |- A / ?n * ?n < ?c * (?a * ?b) =>
      replace (A / n * n) with A by (field; lra);
      assert (Q : c + -1 * (1 / a) * (1 / b) * A > 0) by lra;
      assert (E : (1 / a) * (1 / b) * A = A / (a * b)) by (field; split; lra);
      assert (0 < a * b) by nra;
      assert (A / (a * b) < c) by lra;
      apply (Rmult_lt_reg_r (/ (a * b))); [apply Rinv_0_lt_compat; assumption|];
      replace (c * (a * b) * / (a * b)) with c by (field; split; lra); exact H4 || lra end.
Qed.
Print Assumptions C19_distance_meeting.

(* parallel branch: for w2 = k w1 the result is the distance of any point of M from the line L *)
Theorem C19_distance_parallel : forall (L M : V6 R) (x y : V3 R) (k : R), k <> 0 -> normsq3 Rops (lw L) <> 0 ->
  lw M = vscale3 Rops k (lw L) -> on L x -> on M y ->
  tr_distance_par Rops L M = sqrt (normsq3 Rops (cross3 Rops (vsub3 Rops y x) (lw L))) / sqrt (normsq3 Rops (lw L)) /\
  0 < pc_distance_par_0 Rops L M.
Proof.
  intros L M x y k Hk Hw HW HL HM. destruct_tuples. unf2.
  injection HW; intros; subst. injection HL; intros; subst. injection HM; intros; subst. split.
  - match goal with |- 1 / ?W * sqrt ?A = sqrt ?B / sqrt ?W' =>
      assert (HWp : 0 < W) by (assert (0 <= W) by sq_nonneg; lra);
      assert (HB : 0 <= B) by sq_nonneg;
      assert (E : A = W * B) by
        (match goal with |- context [1 / ?d] =>
           assert (Hd : d <> 0) by (replace d with (k * k * W) by ring;
             repeat apply Rmult_integral_contrapositive_currified; assumption) end;
         field; exact Hd);
      rewrite E, sqrt_mult by lra;
      assert (HS : sqrt W * sqrt W = W) by (apply sqrt_sqrt; lra);
      assert (0 < sqrt W) by (apply sqrt_lt_R0; exact HWp);
      set (sw := sqrt W) in *; set (sb := sqrt B) in *; rewrite <- HS; field; lra end.
  - match goal with |- 0 < -1 * sqrt ?e + ?c * sqrt ?W * sqrt ?W2 =>
      replace e with 0 by ring; rewrite sqrt_0;
      assert (HWp : 0 < W) by (assert (0 <= W) by sq_nonneg; lra);
      assert (HW2 : 0 < W2) by (replace W2 with (k * k * W) by ring; assert (0 < k * k) by nra; apply Rmult_lt_0_compat; assumption);
      pose proof (sqrt_lt_R0 W HWp); pose proof (sqrt_lt_R0 W2 HW2);
      assert (0 < sqrt W * sqrt W2) by (apply Rmult_lt_0_compat; assumption); nra end.
Qed.
Print Assumptions C19_distance_parallel.

(* ---------- intersection point of two lines (repaired by /repo 5acc1ad) ---------- *)
Theorem C19_intersects_point : forall (L M : V6 R) (x : V3 R), normsq3 Rops (lw L) <> 0 -> normsq3 Rops (lw M) <> 0 ->
  pc_intersects_0 Rops L M <= 0 ->
  on L x -> on M x -> tr_intersects Rops L M = x /\ 0 < pc_intersects_1 Rops L M.
Proof.
  intros L M x N1 N2 P0 HL HM. destruct_tuples. unf2. injection HL; intros; subst. injection HM; intros; subst.
  split.
  - abs_sqrt. nn_nz. abs_inv. tuple_eq ltac:(nsz).
  - match goal with |- context [Rabs ?e] => replace e with 0 by ring end. rewrite Rabs_R0. lra.
Qed.
Print Assumptions C19_intersects_point.

(* ---------- line / plane intersection ---------- *)
Ltac den_nz H := match type of H with 0 < _ + Rabs ?d => assert (d <> 0) by (let Hz := fresh "Hz" in intro Hz; rewrite Hz, Rabs_R0 in H; lra) end.

Theorem C19_intersect_plane_point : forall (L : V6 R) (a : V4 R), 0 < pc_ip_0 Rops L a ->
  plane_res a (tr_ip_p Rops L a) = 0 /\ (is_line L -> on L (tr_ip_p Rops L a)).
Proof.
  intros L a H. destruct_tuples. unf2. den_nz H. split.
  - abs_inv. nsz.
  - intros HL. abs_inv. tuple_eq ltac:(nsz).
Qed.
Print Assumptions C19_intersect_plane_point.

(* full statement (repaired by /repo a2fbf35): lam is the parameter of the intersection point *)
Theorem C19_intersect_plane_lam : forall (L : V6 R) (a : V4 R),
  is_line L -> 0 < pc_ip_0 Rops L a -> 0 <= pc_ip_1 Rops L a ->
  tr_point Rops L (tr_ip_lam Rops L a) = tr_ip_p Rops L a /\
  tr_ip_lam Rops L a = dot3 Rops (vsub3 Rops (tr_ip_p Rops L a) (tr_pp Rops L)) (lw L) / sqrt (normsq3 Rops (lw L)).
Proof.
  intros L a HL H HP. destruct_tuples. unf2. den_nz H. abs_sqrt. pos_sqrt. split.
  - abs_inv. tuple_eq ltac:(nsz).
  - fld.
Qed.
Print Assumptions C19_intersect_plane_lam.

(* ---------- planes:  a x + b y + c z + d = 0  ---------- *)
Theorem C19_PlanePN_contains_point : forall p n : V3 R,
  plane_res (tr_PlanePN Rops p n) p = 0 /\ pn (tr_PlanePN Rops p n) = n.
Proof. intros. destruct_tuples. unf2. split; [ring | tuple_eq ltac:(ring)]. Qed.
Print Assumptions C19_PlanePN_contains_point.

(* Plane.contains compares |n.x + d| with its tolerance: the plane equation of the constructors
   (repaired by /repo commit 82519e9; before it the residual was |n.x - d| and this was a _refuted/_partial pair) *)
Theorem C19_Plane_contains_residual : forall (a : V4 R) (x : V3 R),
  tr_Plane_contains_res Rops a x = Rabs (plane_res a x) /\
  (tr_Plane_contains_res Rops a x = 0 <-> plane_res a x = 0).
Proof.
  intros. destruct_tuples. unf2.
  match goal with |- Rabs ?e = Rabs ?f /\ _ => assert (E : e = f) by ring; rewrite E; clear E; generalize f end.
  intros z. split; [reflexivity|]. split; intros H.
  - destruct (Req_dec z 0) as [Hz|Hz]; [exact Hz|]. apply Rabs_no_R0 in Hz. contradiction.
  - rewrite H. apply Rabs_R0.
Qed.
Print Assumptions C19_Plane_contains_residual.

(* plane membership of the point a plane was built from: full statement *)
Theorem C19_Plane_contains_defining_point : forall p n : V3 R,
  tr_Plane_contains_res Rops (tr_PlanePN Rops p n) p = 0.
Proof.
  intros p n. apply (proj2 (C19_Plane_contains_residual _ _)). apply (proj1 (C19_PlanePN_contains_point p n)).
Qed.
Print Assumptions C19_Plane_contains_defining_point.

(* ... and of every point of the plane through p with normal n, and of no other point *)
Theorem C19_Plane_contains_iff : forall p n x : V3 R,
  tr_Plane_contains_res Rops (tr_PlanePN Rops p n) x = 0 <-> dot3 Rops n (vsub3 Rops x p) = 0.
Proof.
  intros p n x. rewrite (proj2 (C19_Plane_contains_residual _ _)). destruct_tuples. unf2. split; intros H; lra.
Qed.
Print Assumptions C19_Plane_contains_iff.

(* Plane.P3 (repaired by /repo 80f9d50): the three points (columns of the 3x3 argument) satisfy the plane equation,
   and the normal is (p2 - p1) x (p3 - p1) *)
Definition col (p : M33 R) (j : nat) : V3 R := col33 p j.
Theorem C19_PlaneP3_contains_points : forall p : M33 R,
  plane_res (tr_PlaneP3 Rops p) (col p 0) = 0 /\ plane_res (tr_PlaneP3 Rops p) (col p 1) = 0 /\
  plane_res (tr_PlaneP3 Rops p) (col p 2) = 0 /\
  pn (tr_PlaneP3 Rops p) = cross3 Rops (vsub3 Rops (col p 1) (col p 0)) (vsub3 Rops (col p 2) (col p 0)) /\
  tr_Plane_contains_res Rops (tr_PlaneP3 Rops p) (col p 0) = 0 /\ tr_Plane_contains_res Rops (tr_PlaneP3 Rops p) (col p 1) = 0 /\
  tr_Plane_contains_res Rops (tr_PlaneP3 Rops p) (col p 2) = 0.
Proof.
  intros p.
  assert (A : plane_res (tr_PlaneP3 Rops p) (col p 0) = 0 /\ plane_res (tr_PlaneP3 Rops p) (col p 1) = 0 /\
              plane_res (tr_PlaneP3 Rops p) (col p 2) = 0).
  { destruct_tuples. unfold col. unf2. repeat split; ring. }
  destruct A as (A0 & A1 & A2). repeat split; try assumption.
  - destruct_tuples. unfold col. unf2. tuple_eq ltac:(ring).
  - apply (proj2 (C19_Plane_contains_residual _ _)); exact A0.
  - apply (proj2 (C19_Plane_contains_residual _ _)); exact A1.
  - apply (proj2 (C19_Plane_contains_residual _ _)); exact A2.
Qed.
Print Assumptions C19_PlaneP3_contains_points.

(* non-vacuity of the hypotheses used in this file: two skew lines with perpendicular unit directions,
   a plane that cuts the first *)
Example C19_c_nonvacuous :
  let L := (0,0,0,1,0,0) in let M := (1,0,0,0,1,0) in let N := (0,-1,0,1,0,0) in
  is_line L /\ is_line M /\ on L (3,0,0) /\ on M (0,7,1) /\ cp_path L M /\ dist_path L M /\
  normsq3 Rops (lw L) <> 0 /\ normsq3 Rops (lw M) <> 0 /\
  0 <= pc_eq_0 Rops L (scale6 2 L) /\ 0 <= pc_eq_1 Rops L (scale6 2 L) /\
  0 < pc_ip_0 Rops L (-1,0,0,2) /\ 0 <= pc_ip_1 Rops L (-1,0,0,2) /\
  tr_distance Rops L M = 1 /\
  on N (0,0,1) /\ on M (0,0,1) /\ pc_intersects_0 Rops N M <= 0 /\ pc_distance_meet_0 Rops N M <= 0 /\
  lw (0,-2,0,2,0,0) = vscale3 Rops 2 (lw L) /\ on (0,-2,0,2,0,0) (0,0,1).
Proof.
  unfold cp_path, dist_path. unf2.
  repeat match goal with |- context [sqrt ?e] => progress (replace e with 1 by ring) end.
  rewrite sqrt_1.
  repeat match goal with |- context [sqrt ?e] => progress (replace e with (2*2) by ring) end.
  rewrite ?sqrt_square by lra.
  repeat match goal with |- context [Rabs ?E] => progress (replace E with 1 by field) end.
  rewrite Rabs_R1.
  repeat match goal with |- context [Rabs ?E] => progress (replace E with (-1) by field) end.
  replace (Rabs (-1)) with 1 by (rewrite Rabs_left; lra).
  repeat split; try lra; try (tuple_eq ltac:(ring)); try field; try (intro; lra).
Qed.
