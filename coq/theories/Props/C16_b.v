(* C16 (b) -- pose classes on symbolic values: constructors / accessors documented ':SymPy: supported' and the
   pose-class operators over them.  A symbolic pose is an object array whose last row is the structural (0,..,0,1)
   (as_pose4 / as_pose3 of the argument matrix).
   (i) value = reference, (ii) structural constants by conversion over an abstract ops record,
   (iv) compose / invert / act on points = the matrix model, and the group laws on SE(3). *)
From Coq Require Import Reals ZArith Lra Nsatz List.
From SM Require Import Base.Ops Base.Lin Base.RInst Base.RLin Model.C16_struct Model.C16_ref.
From SMgen Require Import Traces_C16.
Import ListNotations.
Open Scope R_scope.

Ltac gen_unf := intros; destruct_tuples; unfold trinv_ref in *; autounfold with smgen smref smlin; sm_simpl.
Ltac gen_ring := gen_unf; tuple_eq ltac:(ring).
Ltac gen_field := gen_unf; tuple_eq ltac:(field).

(* ------------------------------------------------------------------ constructors and accessors: nothing is computed *)
Theorem C16_ctor_structural : forall (T : Type) (O : ops T) (Rm : M33 T) (X : M44 T) (x y z : T),
  tr_SO3_ctor O Rm = Rm /\ tr_SO3_R O Rm = Rm /\
  tr_SE3_ctor_M O X = as_pose4 O X /\ tr_SE3_t O X = transl3 X /\
  tr_SE3_ctor_xyz O x y z = transl_ref O x y z /\ tr_SE3_ctor_list O (x,y,z) = transl_ref O x y z.
Proof. intros; destruct_tuples; repeat split; reflexivity. Qed.
Print Assumptions C16_ctor_structural.

(* ------------------------------------------------------------------ SE3.Rx/Ry/Rz, Tx/Ty/Tz, Twist3.Rx/Ry/Rz *)
Theorem C16_SE3_R_value : forall (t a b : R) (v : V3 R),
  tr_SE3_Rx Rops t = r2t3 Rops (rotx_ref Rops t) /\ tr_SE3_Ry Rops t = r2t3 Rops (roty_ref Rops t) /\
  tr_SE3_Rz Rops t = r2t3 Rops (rotz_ref Rops t) /\
  tr_SE3_Rx_t Rops t v = rt2tr3 Rops (rotx_ref Rops t) v /\ tr_SE3_Ry_t Rops t v = rt2tr3 Rops (roty_ref Rops t) v /\
  tr_SE3_Rz_t Rops t v = rt2tr3 Rops (rotz_ref Rops t) v /\
  (* a sequence [a, b]: element 1 is the pose of b *)
  tr_SE3_Rx_seq Rops a b = tr_SE3_Rx Rops b /\ tr_SE3_Ry_seq Rops a b = tr_SE3_Ry Rops b /\
  tr_SE3_Rz_seq Rops a b = tr_SE3_Rz Rops b.
Proof. intros; repeat split; gen_ring. Qed.
Print Assumptions C16_SE3_R_value.

Theorem C16_SE3_R_structural : forall (T : Type) (O : ops T) (t : T) (v : V3 T),
  matches O (hom44 pat_rotx t000) (fl44 (tr_SE3_Rx O t)) /\ matches O (hom44 pat_roty t000) (fl44 (tr_SE3_Ry O t)) /\
  matches O (hom44 pat_rotz t000) (fl44 (tr_SE3_Rz O t)) /\
  matches O (hom44 pat_rotx txxx) (fl44 (tr_SE3_Rx_t O t v)) /\ matches O (hom44 pat_roty txxx) (fl44 (tr_SE3_Ry_t O t v)) /\
  matches O (hom44 pat_rotz txxx) (fl44 (tr_SE3_Rz_t O t v)).
Proof. intros; destruct v as [[x y] z]; repeat split; reflexivity. Qed.
Print Assumptions C16_SE3_R_structural.

(* SE3.Rx/Ry/Rz(theta, 'deg') (repaired by 61ca10f) = the radian pose at k*theta, value and structure (conversion) *)
Theorem C16_SE3_R_deg : forall (T : Type) (O : ops T) (k t : T),
  tr_SE3_Rx_deg O k t = tr_SE3_Rx O (mul O k t) /\ tr_SE3_Ry_deg O k t = tr_SE3_Ry O (mul O k t) /\
  tr_SE3_Rz_deg O k t = tr_SE3_Rz O (mul O k t).
Proof. intros; repeat split; reflexivity. Qed.
Print Assumptions C16_SE3_R_deg.

Theorem C16_SE3_R_deg_value : forall k t : R,
  tr_SE3_Rx_deg Rops k t = r2t3 Rops (rotx_ref Rops (k * t)) /\ tr_SE3_Ry_deg Rops k t = r2t3 Rops (roty_ref Rops (k * t)) /\
  tr_SE3_Rz_deg Rops k t = r2t3 Rops (rotz_ref Rops (k * t)).
Proof. intros; repeat split; gen_ring. Qed.
Print Assumptions C16_SE3_R_deg_value.

Theorem C16_SE3_T_structural : forall (T : Type) (O : ops T) (x y : T),
  tr_SE3_Tx O x = transl_ref O x (zero O) (zero O) /\ tr_SE3_Ty O x = transl_ref O (zero O) x (zero O) /\
  tr_SE3_Tz O x = transl_ref O (zero O) (zero O) x /\
  tr_SE3_Tx_seq O x y = tr_SE3_Tx O y /\ tr_SE3_Ty_seq O x y = tr_SE3_Ty O y /\ tr_SE3_Tz_seq O x y = tr_SE3_Tz O y.
Proof. intros; repeat split; reflexivity. Qed.
Print Assumptions C16_SE3_T_structural.

Theorem C16_Twist3_R_structural : forall (T : Type) (O : ops T) (t k : T),
  tr_Twist3_Rx O t = (zero O, zero O, zero O, t, zero O, zero O) /\
  tr_Twist3_Ry O t = (zero O, zero O, zero O, zero O, t, zero O) /\
  tr_Twist3_Rz O t = (zero O, zero O, zero O, zero O, zero O, t) /\
  tr_Twist3_Rx_deg O k t = tr_Twist3_Rx O (mul O k t) /\ tr_Twist3_Ry_deg O k t = tr_Twist3_Ry O (mul O k t) /\
  tr_Twist3_Rz_deg O k t = tr_Twist3_Rz O (mul O k t) /\
  (* the scalar call form (repaired by e531d4d) means the same as the one-element list *)
  tr_Twist3_Rx_scalar O t = tr_Twist3_Rx O t /\ tr_Twist3_Ry_scalar O t = tr_Twist3_Ry O t /\
  tr_Twist3_Rz_scalar O t = tr_Twist3_Rz O t.
Proof. intros; repeat split; reflexivity. Qed.
Print Assumptions C16_Twist3_R_structural.

(* ------------------------------------------------------------------ SE3.Eul, SE3.RPY (all three orders), degrees *)
Theorem C16_SE3_Eul_RPY_value : forall (v : V3 R) (k : R),
  tr_SE3_Eul Rops v = r2t3 Rops (eul2r_ref Rops v) /\
  tr_SE3_RPY_zyx Rops v = r2t3 Rops (rpy_zyx_ref Rops v) /\
  tr_SE3_RPY_xyz Rops v = r2t3 Rops (rpy_xyz_ref Rops v) /\
  tr_SE3_RPY_yxz Rops v = r2t3 Rops (rpy_yxz_ref Rops v) /\
  tr_SE3_Eul_deg Rops k v = tr_SE3_Eul Rops (vscale3k Rops k v) /\
  tr_SE3_RPY_deg Rops k v = tr_SE3_RPY_zyx Rops (vscale3k Rops k v).
Proof. intros; repeat split; gen_ring. Qed.
Print Assumptions C16_SE3_Eul_RPY_value.

Theorem C16_SE3_Eul_RPY_structural : forall (T : Type) (O : ops T) (v : V3 T),
  matches O (hom44 pat_any33 t000) (fl44 (tr_SE3_Eul O v)) /\ matches O (hom44 pat_any33 t000) (fl44 (tr_SE3_RPY_zyx O v)) /\
  matches O (hom44 pat_any33 t000) (fl44 (tr_SE3_RPY_xyz O v)) /\ matches O (hom44 pat_any33 t000) (fl44 (tr_SE3_RPY_yxz O v)).
Proof. intros; destruct v as [[a b] c]; repeat split; reflexivity. Qed.
Print Assumptions C16_SE3_Eul_RPY_structural.

(* ------------------------------------------------------------------ inverse, adjoint *)
Theorem C16_SE3_inv_value : forall X Y : M44 R,
  tr_SE3_inv Rops X = trinv_ref X /\ tr_SE3_inv_seq Rops X Y = trinv_ref Y.
Proof. intros; split; gen_ring. Qed.
Print Assumptions C16_SE3_inv_value.

Theorem C16_SE3_inv_structural : forall (T : Type) (O : ops T) (X : M44 T),
  matches O (hom44 pat_any33 txxx) (fl44 (tr_SE3_inv O X)) /\ t2r3 (tr_SE3_inv O X) = mtr33 (t2r3 X).
Proof. intros; destruct_tuples; repeat split; reflexivity. Qed.
Print Assumptions C16_SE3_inv_structural.

Theorem C16_SE3_Ad_value : forall X : M44 R, tr_SE3_Ad Rops X = Ad_ref Rops X.
Proof. gen_ring. Qed.
Print Assumptions C16_SE3_Ad_value.

Theorem C16_SE3_Ad_structural : forall (T : Type) (O : ops T) (X : M44 T), matches O (pat_jac false) (fl66 (tr_SE3_Ad O X)).
Proof. intros; destruct_tuples; repeat split; reflexivity. Qed.
Print Assumptions C16_SE3_Ad_structural.

(* SE3.jacob (repaired by 5493c9a: it now calls base.tr2jac): the velocity-transform Jacobian [[R',0],[0,R']] *)
Theorem C16_SE3_jacob_value : forall X : M44 R,
  tr_SE3_jacob Rops X = tr2jac_ref Rops X /\ tr_SE3_jacob Rops X = tr_tr2jac Rops X.
Proof. intros; split; gen_ring. Qed.
Print Assumptions C16_SE3_jacob_value.

Theorem C16_SE3_jacob_structural : forall (T : Type) (O : ops T) (X : M44 T),
  matches O (pat_jac true) (fl66 (tr_SE3_jacob O X)) /\ tr_SE3_jacob O X = tr_tr2jac O X.
Proof. intros; destruct_tuples; repeat split; reflexivity. Qed.
Print Assumptions C16_SE3_jacob_structural.

(* ------------------------------------------------------------------ simplify *)
(* X * X.inv() simplifies to the identity, every entry an exact constant *)
Theorem C16_simplify_identity : forall (T : Type) (O : ops T) (a : T) (v : V3 T),
  tr_simplify_RxRxinv O a = I44 O /\ tr_simplify_EulEul O v = I44 O.
Proof. intros; destruct v as [[x y] z]; split; reflexivity. Qed.
Print Assumptions C16_simplify_identity.

(* simplification does not change the value: Rz(a) Rz(b) simplified is still the product *)
Theorem C16_simplify_value : forall a b : R,
  tr_simplify_RzRz Rops a b = mmul44 Rops (tr_SE3_Rz Rops a) (tr_SE3_Rz Rops b).
Proof. gen_unf. rewrite ?cos_plus, ?sin_plus, ?cos_minus, ?sin_minus. tuple_eq ltac:(ring). Qed.
Print Assumptions C16_simplify_value.

Theorem C16_simplify_structural : forall (T : Type) (O : ops T) (a b : T),
  matches O (hom44 pat_rotz t000) (fl44 (tr_simplify_RzRz O a b)).
Proof. intros; repeat split; reflexivity. Qed.
Print Assumptions C16_simplify_structural.

(* ------------------------------------------------------------------ operators = matrix model *)
Theorem C16_SE3_ops_value : forall (X Y : M44 R) (v : V3 R),
  tr_SE3_mul Rops X Y = mmul44 Rops (as_pose4 Rops X) (as_pose4 Rops Y) /\
  tr_SE3_div Rops X Y = mmul44 Rops (as_pose4 Rops X) (trinv_ref Y) /\
  tr_SE3_pow2 Rops X = mmul44 Rops (as_pose4 Rops X) (as_pose4 Rops X) /\
  tr_SE3_pow3 Rops X = mmul44 Rops (mmul44 Rops (as_pose4 Rops X) (as_pose4 Rops X)) (as_pose4 Rops X) /\
  tr_SE3_pt Rops X v = pt3 Rops X v /\ tr_SE3_pt_list Rops X v = pt3 Rops X v.
Proof. intros; repeat split; gen_ring. Qed.
Print Assumptions C16_SE3_ops_value.

Theorem C16_SE3_ops_structural : forall (T : Type) (O : ops T) (X Y : M44 T),
  matches O (hom44 pat_any33 txxx) (fl44 (tr_SE3_mul O X Y)) /\ matches O (hom44 pat_any33 txxx) (fl44 (tr_SE3_div O X Y)) /\
  matches O (hom44 pat_any33 txxx) (fl44 (tr_SE3_pow2 O X)) /\ matches O (hom44 pat_any33 txxx) (fl44 (tr_SE3_pow3 O X)) /\
  tr_SE3_pow0 O X = I44 O.
Proof. intros; destruct_tuples; repeat split; reflexivity. Qed.
Print Assumptions C16_SE3_ops_structural.

(* group behaviour of the symbolic operators (what "consistently with their numeric counterparts" means) *)
Lemma as_pose4_id : forall X : M44 R, SE3 X -> as_pose4 Rops X = X.
Proof. intros X H. symmetry. exact (SE3_decompose X H). Qed.

Theorem C16_SE3_closed : forall X Y : M44 R, SE3 X -> SE3 Y ->
  SE3 (tr_SE3_mul Rops X Y) /\ SE3 (tr_SE3_inv Rops X) /\ SE3 (tr_SE3_div Rops X Y).
Proof.
  intros X Y HX HY.
  destruct (C16_SE3_ops_value X Y (0,0,0)) as (-> & -> & _). destruct (C16_SE3_inv_value X X) as [-> _].
  rewrite !as_pose4_id by assumption.
  repeat split; try (apply SE3_mul; auto using SE3_inv); try apply (SE3_inv X HX).
Qed.
Print Assumptions C16_SE3_closed.

Theorem C16_SE3_inverse_law : forall X : M44 R, SE3 X ->
  tr_SE3_mul Rops X (tr_SE3_inv Rops X) = I44 Rops /\ tr_SE3_mul Rops (tr_SE3_inv Rops X) X = I44 Rops /\
  tr_SE3_div Rops X X = I44 Rops.
Proof.
  intros X HX. pose proof (SE3_inv X HX) as HI.
  destruct (C16_SE3_inv_value X X) as [-> _].
  destruct (C16_SE3_ops_value X (trinv_ref X) (0,0,0)) as (-> & _).
  destruct (C16_SE3_ops_value (trinv_ref X) X (0,0,0)) as (-> & _).
  destruct (C16_SE3_ops_value X X (0,0,0)) as (_ & -> & _).
  rewrite !as_pose4_id by assumption.
  repeat split; [apply SE3_inv_r | apply SE3_inv_l | apply SE3_inv_r]; assumption.
Qed.
Print Assumptions C16_SE3_inverse_law.

(* acting on points: composition acts as composition; the inverse undoes the action *)
Theorem C16_SE3_action : forall (X Y : M44 R) (v : V3 R),
  tr_SE3_pt Rops (tr_SE3_mul Rops X Y) v = tr_SE3_pt Rops X (tr_SE3_pt Rops Y v).
Proof. gen_ring. Qed.
Print Assumptions C16_SE3_action.

Theorem C16_SE3_action_inverse : forall (X : M44 R) (v : V3 R), SE3 X ->
  tr_SE3_pt Rops (tr_SE3_inv Rops X) (tr_SE3_pt Rops X v) = v.
Proof.
  intros X v [HR _]. destruct_tuples. unfold t2r3 in HR. so3_facts HR.
  autounfold with smgen smref smlin; sm_simpl. tuple_eq ltac:(nsatz).
Qed.
Print Assumptions C16_SE3_action_inverse.
Example C16_SE3_action_nonvacuous : SE3 (tr_SE3_Rx_t Rops 0 (1,2,3)).
Proof.
  destruct (C16_SE3_R_value 0 0 0 (1,2,3)) as (_&_&_&->&_). apply SE3_rt. unfold rotx_ref. apply SO3_rotx. apply cs_unit.
Qed.

(* ------------------------------------------------------------------ SO3, SE2, SO2 *)
Theorem C16_SO3_ops_value : forall (A B : M33 R) (v : V3 R),
  tr_SO3_mul Rops A B = mmul33 Rops A B /\ tr_SO3_div Rops A B = mmul33 Rops A (mtr33 B) /\
  tr_SO3_inv Rops A = mtr33 A /\ tr_SO3_pt Rops A v = mv33 Rops A v.
Proof. intros; repeat split; gen_ring. Qed.
Print Assumptions C16_SO3_ops_value.

Theorem C16_SO3_inv_structural : forall (T : Type) (O : ops T) (A : M33 T), tr_SO3_inv O A = mtr33 A.
Proof. intros; destruct_tuples; reflexivity. Qed.
Print Assumptions C16_SO3_inv_structural.

Theorem C16_SO3_group : forall A B : M33 R, SO3 A -> SO3 B ->
  SO3 (tr_SO3_mul Rops A B) /\ SO3 (tr_SO3_inv Rops A) /\ tr_SO3_mul Rops A (tr_SO3_inv Rops A) = I33 Rops /\
  tr_SO3_div Rops A A = I33 Rops.
Proof.
  intros A B HA HB. destruct (C16_SO3_ops_value A B (0,0,0)) as (-> & _ & -> & _).
  destruct (C16_SO3_ops_value A (mtr33 A) (0,0,0)) as (-> & _). destruct (C16_SO3_ops_value A A (0,0,0)) as (_ & -> & _).
  repeat split; auto using SO3_mul, SO3_tr, SO3_inv_r.
Qed.
Print Assumptions C16_SO3_group.
Example C16_SO3_nonvacuous : SO3 (tr_rotx Rops 1).
Proof. assert (H : tr_rotx Rops 1 = rotx_cs Rops (cos 1) (sin 1)) by gen_ring. rewrite H. apply SO3_rotx, cs_unit. Qed.

Theorem C16_SE2_SO2_ops_value : forall (X Y : M33 R) (A B : M22 R) (v : V2 R),
  tr_SE2_mul Rops X Y = mmul33 Rops (as_pose3 Rops X) (as_pose3 Rops Y) /\ tr_SE2_pt Rops X v = pt2 Rops X v /\
  tr_SO2_mul Rops A B = mmul22 Rops A B /\ tr_SO2_pt Rops A v = mv22 Rops A v.
Proof. intros; repeat split; gen_ring. Qed.
Print Assumptions C16_SE2_SO2_ops_value.

Theorem C16_SE2_mul_structural : forall (T : Type) (O : ops T) (X Y : M33 T), matches O pat_hom33 (fl33 (tr_SE2_mul O X Y)).
Proof. intros; destruct_tuples; repeat split; reflexivity. Qed.
Print Assumptions C16_SE2_mul_structural.

(* symbolic SE2 / SO2 inverse and division (repaired by d486d19 + 1c511ed: object-aware rt2tr, check=False) *)
Theorem C16_SE2_SO2_inv_value : forall (X Y : M33 R) (A B : M22 R),
  tr_SE2_inv Rops X = trinv2_ref Rops X /\ tr_SE2_div Rops X Y = mmul33 Rops (as_pose3 Rops X) (trinv2_ref Rops Y) /\
  tr_SO2_inv Rops A = mtr22 A /\ tr_SO2_div Rops A B = mmul22 Rops A (mtr22 B).
Proof. intros; repeat split; gen_ring. Qed.
Print Assumptions C16_SE2_SO2_inv_value.

Theorem C16_SE2_SO2_inv_structural : forall (T : Type) (O : ops T) (X Y : M33 T) (A : M22 T),
  matches O pat_hom33 (fl33 (tr_SE2_inv O X)) /\ t2r2 (tr_SE2_inv O X) = mtr22 (t2r2 X) /\
  matches O pat_hom33 (fl33 (tr_SE2_div O X Y)) /\ tr_SO2_inv O A = mtr22 A /\
  (* the SE(2) inverse is the same function as base.trinv2 *)
  tr_SE2_inv O X = tr_trinv2 O X.
Proof. intros; destruct_tuples; repeat split; reflexivity. Qed.
Print Assumptions C16_SE2_SO2_inv_structural.

Theorem C16_SO2_group : forall A B : M22 R, SO2 A -> SO2 B ->
  SO2 (tr_SO2_mul Rops A B) /\ SO2 (tr_SO2_inv Rops A) /\ tr_SO2_mul Rops A (tr_SO2_inv Rops A) = I22 Rops /\
  tr_SO2_div Rops A A = I22 Rops /\ SO2 (tr_SO2_div Rops A B).
Proof.
  intros A B HA HB.
  destruct (C16_SE2_SO2_ops_value (I33 Rops) (I33 Rops) A B (0,0)) as (_ & _ & -> & _).
  destruct (C16_SE2_SO2_inv_value (I33 Rops) (I33 Rops) A B) as (_ & _ & -> & ->).
  destruct (C16_SE2_SO2_inv_value (I33 Rops) (I33 Rops) A A) as (_ & _ & _ & ->).
  destruct (C16_SE2_SO2_ops_value (I33 Rops) (I33 Rops) A (mtr22 A) (0,0)) as (_ & _ & -> & _).
  pose proof (proj1 (SO2_matrix A) HA) as [HI _].
  repeat split; auto using SO2_mul, SO2_tr.
Qed.
Print Assumptions C16_SO2_group.
Example C16_SO2_nonvacuous : SO2 (rot2_cs Rops (cos 1) (sin 1)).
Proof. apply SO2_rot2, cs_unit. Qed.

Theorem C16_SE2_inverse_law : forall X : M33 R, SE2 X ->
  tr_SE2_mul Rops X (tr_SE2_inv Rops X) = I33 Rops /\ tr_SE2_mul Rops (tr_SE2_inv Rops X) X = I33 Rops /\
  tr_SE2_div Rops X X = I33 Rops /\ SE2 (tr_SE2_inv Rops X) /\
  forall v : V2 R, tr_SE2_pt Rops (tr_SE2_inv Rops X) (tr_SE2_pt Rops X v) = v.
Proof.
  intros X [HR HL]. destruct_tuples. unfold lastrow3 in HL. injection HL; intros; subst.
  unfold t2r2 in HR. pose proof (SO2_columns _ _ _ _ HR) as (Hc1 & Hc2 & Hc3).
  unfold SO2 in HR. destruct HR as (H1 & H2 & H3 & H4).
  split; [|split; [|split; [|split]]].
  1-3: autounfold with smgen smref smlin; sm_simpl; tuple_eq ltac:(nsatz).
  - unfold SE2, SO2. autounfold with smgen smlin; sm_simpl. split; [repeat split; nsatz | reflexivity].
  - intros v. destruct_tuples. autounfold with smgen smref smlin; sm_simpl. tuple_eq ltac:(nsatz).
Qed.
Print Assumptions C16_SE2_inverse_law.
Example C16_SE2_nonvacuous : SE2 (rt2tr2 Rops (rot2_cs Rops (cos 1) (sin 1)) (2,3)).
Proof. unfold SE2. lin_simpl. split; [apply (SO2_rot2 (cos 1) (sin 1)), cs_unit | reflexivity]. Qed.
