(* C03 -- trexp solves the ODE that defines the matrix exponential (L-real, Coquelicot derivatives).
   For a unit twist S = (v, w), |w| = 1, Phi(theta) = trexp(S, theta) (the model's [trexp_unit]: rotation block Rodrigues,
   translation block V(theta) v) is differentiable entry by entry and
        d/dtheta Phi(theta) = [S] Phi(theta) = Phi(theta) [S],     Phi(0) = I,
   i.e. Phi solves the initial value problem whose unique solution is exp(theta [S]).
   STILL NOT PROVED: uniqueness of solutions of a linear ODE is not in the library, so "trexp = the power series
   Sum_k (theta [S])^k / k!" remains unproved; what is proved is the subgroup law (C03_trexp_is_expm_partial) and this ODE.
   [C03_thr] is regenerated from /repo's AST on every run; lemma library: theories/Model/C03_Ode.v. *)
From Coq Require Import Reals ZArith Lra Lia.
From Coquelicot Require Import Coquelicot.
From SM Require Import Base.Ops Base.Lin Base.RInst Base.RLin Model.C03_ExpLog Model.C03_Lemmas Model.C03_Ode.
From SMgen Require Import Consts_C03.
Open Scope R_scope.

Lemma C03_thr_ok' : thr_ok C03_thr.
Proof. unfold thr_ok, C03_thr. cbn. repeat split; lra. Qed.

(* se(3), all 16 entries: [is_derive_M44 F x D] is  forall i j < 4, is_derive (fun t => (F t)_ij) x D_ij *)
Theorem C03_trexp_solves_exp_ode : forall (v0 v1 v2 w0 w1 w2 th : R),
  normsq3 Rops (w0,w1,w2) = 1 ->
  let S := (v0,v1,v2,w0,w1,w2) in
  is_derive_M44 (fun t => trexp_unit Rops C03_thr S t) th (mmul44 Rops (se3_hat S) (trexp_unit Rops C03_thr S th)) /\
  mmul44 Rops (se3_hat S) (trexp_unit Rops C03_thr S th) = mmul44 Rops (trexp_unit Rops C03_thr S th) (se3_hat S) /\
  trexp_unit Rops C03_thr S 0 = I44 Rops.
Proof. intros. apply trexp_unit_solves_ode; [exact C03_thr_ok' | assumption]. Qed.
Print Assumptions C03_trexp_solves_exp_ode.

(* the so(3) block alone: d/dtheta R = [w]x R = R [w]x, R(0) = I *)
Theorem C03_trexp_solves_exp_ode_so3 : forall (u : V3 R) (th : R), normsq3 Rops u = 1 ->
  is_derive_M33 (fun t => rodrigues_th Rops u t) th (mmul33 Rops (skew3 Rops u) (rodrigues_th Rops u th)) /\
  mmul33 Rops (skew3 Rops u) (rodrigues_th Rops u th) = mmul33 Rops (rodrigues_th Rops u th) (skew3 Rops u) /\
  rodrigues_th Rops u 0 = I33 Rops.
Proof. exact rodrigues_solves_ode. Qed.
Print Assumptions C03_trexp_solves_exp_ode_so3.

(* 2-D: trexp2(S, theta) on a unit twist S = (t0, t1, w), w = +-1 *)
Theorem C03_trexp_solves_exp_ode_2d : forall (t0 t1 w th : R), w*w = 1 ->
  let S := (t0,t1,w) in
  is_derive_M33 (fun t => trexp2_unit Rops C03_thr S t) th (mmul33 Rops (se2_hat S) (trexp2_unit Rops C03_thr S th)) /\
  mmul33 Rops (se2_hat S) (trexp2_unit Rops C03_thr S th) = mmul33 Rops (trexp2_unit Rops C03_thr S th) (se2_hat S) /\
  trexp2_unit Rops C03_thr S 0 = I33 Rops.
Proof. intros. apply trexp2_unit_solves_ode; [exact C03_thr_ok' | assumption]. Qed.
Print Assumptions C03_trexp_solves_exp_ode_2d.

(* non-vacuity: a unit axis; and one entry spelled out -- the (0,1) entry of R(t) about z is -sin t, with derivative -cos th *)
Example C03_trexp_solves_exp_ode_nonvacuous :
  normsq3 Rops (0, 3/5, 4/5) = 1 /\ (-1)*(-1) = 1 /\
  forall th, is_derive (fun t => e33 (rodrigues_th Rops (0,0,1) t) 0 1) th (- cos th).
Proof.
  split; [autounfold with smlin; sm_simpl; field|]. split; [ring|]. intros th.
  assert (Hu : normsq3 Rops (0,0,1) = 1) by (autounfold with smlin; sm_simpl; ring).
  destruct (C03_trexp_solves_exp_ode_so3 (0,0,1) th Hu) as [D _].
  specialize (D 0%nat 1%nat ltac:(lia) ltac:(lia)).
  replace (- cos th) with (e33 (mmul33 Rops (skew3 Rops (0,0,1)) (rodrigues_th Rops (0,0,1) th)) 0 1); [exact D|].
  unfold rodrigues_th. autounfold with c03 smlin. sm_simpl. cbn [e33]. ring.
Qed.
