(* C13 (part 2) -- the adjoint of a rigid motion, the velocity Jacobian, the little adjoint.
   Statements are fixed; every tr_* definition is regenerated from /repo on each run (base.adjoint, base.tr2jac,
   base.trinv, SE3.Ad, SE3.jacob, SE3.__mul__, SE3.inv, Twist3.ad, Twist3.se3, base.delta2tr executed on symbols). *)
From Coq Require Import Reals ZArith Lra Psatz Nsatz.
From SM Require Import Base.Ops Base.Lin Base.RInst Base.RLin.
From SMgen Require Import Traces_C13.
Open Scope R_scope.

Ltac gen_unfold := intros; destruct_tuples; autounfold with smgen smlin in *; sm_simpl.
Ltac gen_ring := gen_unfold; tuple_eq ltac:(ring).
(* open X : SE3 into 12 scalars, last row substituted; leaves Hrot : SO3 ((..),(..),(..)) *)
Ltac open_se3 HX :=
  let H1 := fresh "Hrot" in let H2 := fresh "Hlast" in
  destruct HX as [H1 H2]; destruct_tuples; unfold t2r3 in H1; unfold lastrow4 in H2;
  injection H2; intros; subst; clear H2.
(* only the nine "entry = cofactor" equations (all that R skew(w) R' = skew(R w) needs; nsatz is much faster) *)
Ltac facts_cof H :=
  let C := fresh "C" in pose proof (SO3_cofactors _ _ _ _ _ _ _ _ _ H) as C; clear H; decompose [and] C; clear C.

Definition msub66 (A B : M66 R) : M66 R :=
  let '(a0,a1,a2,a3,a4,a5) := A in let '(b0,b1,b2,b3,b4,b5) := B in
  let s (a b : V6 R) := let '(x0,x1,x2,x3,x4,x5) := a in let '(y0,y1,y2,y3,y4,y5) := b in (x0-y0,x1-y1,x2-y2,x3-y3,x4-y4,x5-y5) in
  (s a0 b0, s a1 b1, s a2 b2, s a3 b3, s a4 b4, s a5 b5).
Definition msub44 (A B : M44 R) : M44 R :=
  let '(a0,a1,a2,a3) := A in let '(b0,b1,b2,b3) := B in (vsub4 Rops a0 b0, vsub4 Rops a1 b1, vsub4 Rops a2 b2, vsub4 Rops a3 b3).
Definition tw_v (s : V6 R) : V3 R := let '(v0,v1,v2,_,_,_) := s in (v0,v1,v2).
Definition tw_w (s : V6 R) : V3 R := let '(_,_,_,w0,w1,w2) := s in (w0,w1,w2).
#[local] Hint Unfold msub66 msub44 tw_v tw_w trinv_ref : smlin.

(* a rigid motion with a non-trivial rotation and translation, used for the non-vacuity examples *)
Definition T_ex : M44 R := ((0,-1,0,1),(1,0,0,2),(0,0,1,3),(0,0,0,1)).
Example C13_T_ex_SE3 : SE3 T_ex /\ transl3 T_ex = (1,2,3) /\ t2r3 T_ex <> I33 Rops.
Proof.
  unfold T_ex, SE3, SO3. lin_simpl. repeat split; try ring.
  intro H. injection H; intros; lra.
Qed.

(* ---------- structure: Ad(T) = [[R, skew(t) R],[0, R]]; the class method is the base function ---------- *)
Theorem C13_Ad_structure : forall X : M44 R,
  tr_adjoint Rops X = block66 (t2r3 X) (mmul33 Rops (skew3 Rops (transl3 X)) (t2r3 X)) (Z33 Rops) (t2r3 X) /\
  tr_SE3_Ad Rops X = tr_adjoint Rops X.
Proof. intros; split; gen_ring. Qed.
Print Assumptions C13_Ad_structure.

Theorem C13_Ad_identity : tr_adjoint Rops (I44 Rops) = I66 Rops.
Proof. gen_ring. Qed.
Print Assumptions C13_Ad_identity.

(* the class-layer product / inverse are the matrix product / the structured inverse [R', -R' t] *)
Theorem C13_mul_inv_are_matrix_ops : forall X Y : M44 R,
  tr_SE3_mul Rops X Y = mmul44 Rops X Y /\
  (lastrow4 X = (0,0,0,1) -> tr_trinv Rops X = trinv_ref X /\ tr_SE3_inv Rops X = trinv_ref X).
Proof.
  intros X Y; split; [gen_ring|]. intro H. destruct_tuples. unfold lastrow4 in H. injection H; intros; subst.
  split; autounfold with smgen smlin; sm_simpl; tuple_eq ltac:(ring).
Qed.
Print Assumptions C13_mul_inv_are_matrix_ops.

(* ---------- homomorphism: Ad(T1 T2) = Ad(T1) Ad(T2) ---------- *)
Lemma Ad_hom_core : forall X Y : M44 R, SO3 (t2r3 X) -> lastrow4 Y = (0,0,0,1) ->
  tr_adjoint Rops (mmul44 Rops X Y) = mmul66 Rops (tr_adjoint Rops X) (tr_adjoint Rops Y).
Proof.
  intros X Y HX HY. destruct_tuples. unfold t2r3 in HX. unfold lastrow4 in HY. injection HY; intros; subst.
  facts_cof HX. autounfold with smgen smlin. sm_simpl. tuple_eq ltac:(try ring). all: nsatz.
Qed.

Theorem C13_Ad_homomorphism : forall X Y : M44 R, SE3 X -> SE3 Y ->
  tr_SE3_Ad Rops (tr_SE3_mul Rops X Y) = mmul66 Rops (tr_SE3_Ad Rops X) (tr_SE3_Ad Rops Y).
Proof.
  intros X Y [HX _] [_ HY]. destruct (C13_mul_inv_are_matrix_ops X Y) as [-> _].
  rewrite !(proj2 (C13_Ad_structure _)). apply Ad_hom_core; assumption.
Qed.
Print Assumptions C13_Ad_homomorphism.

(* ---------- Ad(T^-1) = Ad(T)^-1 (both orders), for the base inverse and the class inverse ---------- *)
Theorem C13_Ad_inverse : forall X : M44 R, SE3 X ->
  mmul66 Rops (tr_adjoint Rops (tr_trinv Rops X)) (tr_adjoint Rops X) = I66 Rops /\
  mmul66 Rops (tr_adjoint Rops X) (tr_adjoint Rops (tr_trinv Rops X)) = I66 Rops /\
  tr_SE3_inv Rops X = tr_trinv Rops X.
Proof.
  intros X HX. destruct (C13_mul_inv_are_matrix_ops X X) as [_ HI]. destruct (HI (proj2 HX)) as [-> ->]. clear HI.
  pose proof (SE3_inv X HX) as HXi. repeat split.
  - rewrite <- Ad_hom_core; [|exact (proj1 HXi)|exact (proj2 HX)]. rewrite SE3_inv_l by exact HX. apply C13_Ad_identity.
  - rewrite <- Ad_hom_core; [|exact (proj1 HX)|exact (proj2 HXi)]. rewrite SE3_inv_r by exact HX. apply C13_Ad_identity.
Qed.
Print Assumptions C13_Ad_inverse.

(* ---------- Ad(T) S = vee(T [S] T^-1) ---------- *)
Theorem C13_Ad_intertwines_matrix : forall (X : M44 R) (s : V6 R), SE3 X ->
  tr_skewa6 Rops (mv66 Rops (tr_adjoint Rops X) s) = mmul44 Rops (mmul44 Rops X (tr_skewa6 Rops s)) (tr_trinv Rops X).
Proof.
  intros X s HX. open_se3 HX. facts_cof Hrot. autounfold with smgen smlin. sm_simpl.
  tuple_eq ltac:(try ring). all: nsatz.
Qed.
Print Assumptions C13_Ad_intertwines_matrix.

Theorem C13_Ad_intertwines : forall (X : M44 R) (s : V6 R), SE3 X ->
  mv66 Rops (tr_adjoint Rops X) s = tr_vexa4 Rops (mmul44 Rops (mmul44 Rops X (tr_skewa6 Rops s)) (tr_trinv Rops X)).
Proof.
  intros X s HX. rewrite <- C13_Ad_intertwines_matrix by exact HX.
  generalize (mv66 Rops (tr_adjoint Rops X) s). intro u. gen_unfold. tuple_eq ltac:(field).
Qed.
Print Assumptions C13_Ad_intertwines.

(* ---------- velocity Jacobian ---------- *)
Theorem C13_tr2jac_blockdiag : forall X : M44 R,
  tr_tr2jac Rops X = block66 (mtr33 (t2r3 X)) (Z33 Rops) (Z33 Rops) (mtr33 (t2r3 X)).
Proof. gen_ring. Qed.
Print Assumptions C13_tr2jac_blockdiag.

Theorem C13_tr2jac_samebody_is_Ad_inv : forall X : M44 R, SE3 X ->
  tr_tr2jac_sb Rops X = tr_adjoint Rops (tr_trinv Rops X).
Proof.
  intros X HX. open_se3 HX. facts_cof Hrot. autounfold with smgen smlin. sm_simpl.
  tuple_eq ltac:(try ring). all: nsatz.
Qed.
Print Assumptions C13_tr2jac_samebody_is_Ad_inv.

(* for every X (no hypothesis) the same-body Jacobian has the block form [[R', (skew(t) R)'],[0, R']] *)
Theorem C13_tr2jac_samebody_structure : forall X : M44 R,
  tr_tr2jac_sb Rops X = block66 (mtr33 (t2r3 X)) (mtr33 (mmul33 Rops (skew3 Rops (transl3 X)) (t2r3 X))) (Z33 Rops) (mtr33 (t2r3 X)).
Proof. gen_ring. Qed.
Print Assumptions C13_tr2jac_samebody_structure.

(* ---------- adjoint of a pure rotation and SE3.jacob (both raised NameError before the repairs 892f8ec / 5493c9a
   in /repo; now traced like everything else, for every argument) ---------- *)
Theorem C13_adjoint3_full : forall Rm : M33 R,
  tr_adjoint3 Rops Rm = block66 Rm (Z33 Rops) (Z33 Rops) Rm.
Proof. gen_ring. Qed.
Print Assumptions C13_adjoint3_full.

(* ... which is the adjoint of the rigid motion with that rotation and no translation *)
Theorem C13_adjoint3_is_Ad_of_rotation : forall Rm : M33 R,
  tr_adjoint3 Rops Rm = tr_adjoint Rops (rt2tr3 Rops Rm (0,0,0)).
Proof. gen_ring. Qed.
Print Assumptions C13_adjoint3_is_Ad_of_rotation.

Theorem C13_SE3_jacob_full : forall X : M44 R,
  tr_SE3_jacob Rops X = tr_tr2jac Rops X /\
  tr_SE3_jacob Rops X = block66 (mtr33 (t2r3 X)) (Z33 Rops) (Z33 Rops) (mtr33 (t2r3 X)).
Proof. intros; split; gen_ring. Qed.
Print Assumptions C13_SE3_jacob_full.

(* ---------- the little adjoint ad(S) = [[skew w, skew v],[0, skew w]] and what it means ---------- *)
Theorem C13_ad_structure : forall s : V6 R,
  tr_Tw_ad Rops s = block66 (skew3 Rops (tw_w s)) (skew3 Rops (tw_v s)) (Z33 Rops) (skew3 Rops (tw_w s)) /\
  tr_Tw_se3 Rops s = tr_skewa6 Rops s.
Proof. intros; split; gen_ring. Qed.
Print Assumptions C13_ad_structure.

(* ad(S1) S2 is the Lie bracket: [ad(S1) S2] = [S1][S2] - [S2][S1] *)
Theorem C13_ad_is_bracket : forall s1 s2 : V6 R,
  tr_skewa6 Rops (mv66 Rops (tr_Tw_ad Rops s1) s2) =
  msub44 (mmul44 Rops (tr_skewa6 Rops s1) (tr_skewa6 Rops s2)) (mmul44 Rops (tr_skewa6 Rops s2) (tr_skewa6 Rops s1)).
Proof. gen_ring. Qed.
Print Assumptions C13_ad_is_bracket.

(* ad is the derivative of Ad at the identity, exactly: Ad(I + [d]) = I + ad(d) + (second-order block skew(v) skew(w)) *)
Theorem C13_Ad_first_order_is_ad : forall d : V6 R,
  msub66 (msub66 (tr_adjoint Rops (tr_delta2tr Rops d)) (I66 Rops)) (tr_Tw_ad Rops d) =
  block66 (Z33 Rops) (mmul33 Rops (skew3 Rops (tw_v d)) (skew3 Rops (tw_w d))) (Z33 Rops) (Z33 Rops).
Proof. gen_ring. Qed.
Print Assumptions C13_Ad_first_order_is_ad.

(* non-vacuity: the hypotheses are met by T_ex, and there the off-diagonal block of Ad is not zero *)
Example C13_adjoint_nonvacuous :
  SE3 T_ex /\ tr_adjoint Rops T_ex <> block66 (t2r3 T_ex) (Z33 Rops) (Z33 Rops) (t2r3 T_ex).
Proof.
  split; [exact (proj1 C13_T_ex_SE3)|]. unfold T_ex. autounfold with smgen smlin. sm_simpl.
  intro H. injection H; intros; lra.
Qed.
