(* C12 -- Hamilton algebra of quaternions and dual quaternions.
   Statements are fixed; the tr_* definitions are regenerated from /repo on every run
   (the library itself executed on symbols). *)
From Coq Require Import Reals ZArith Lra Lia.
From SM Require Import Base.Ops Base.Lin Base.RInst Model.Quat.
From SMgen Require Import Traces_C12.
Open Scope R_scope.

Ltac gen_ring := intros; destruct_tuples; autounfold with smgen smlin; sm_simpl; tuple_eq ltac:(ring).
Ltac gen_field := intros; destruct_tuples; autounfold with smgen smlin; sm_simpl; tuple_eq ltac:(field).

(* the traced product is the Hamilton product *)
Theorem C12_qqmul_is_hamilton : forall p q : V4 R, tr_qqmul Rops p q = qmul Rops p q.
Proof. gen_ring. Qed.
Print Assumptions C12_qqmul_is_hamilton.

Theorem C12_mul_assoc : forall p q r : V4 R,
  tr_qqmul Rops (tr_qqmul Rops p q) r = tr_qqmul Rops p (tr_qqmul Rops q r).
Proof. gen_ring. Qed.
Print Assumptions C12_mul_assoc.

Theorem C12_distrib_left : forall p q r : V4 R,
  tr_Q_mul Rops p (tr_Q_add Rops q r) = tr_Q_add Rops (tr_Q_mul Rops p q) (tr_Q_mul Rops p r).
Proof. gen_ring. Qed.
Print Assumptions C12_distrib_left.

Theorem C12_distrib_right : forall p q r : V4 R,
  tr_Q_mul Rops (tr_Q_add Rops q r) p = tr_Q_add Rops (tr_Q_mul Rops q p) (tr_Q_mul Rops r p).
Proof. gen_ring. Qed.
Print Assumptions C12_distrib_right.

Theorem C12_sub_is_add_neg : forall p q : V4 R,
  tr_Q_sub Rops p q = tr_Q_add Rops p (tr_Q_smul Rops (-1) q).
Proof. gen_ring. Qed.
Print Assumptions C12_sub_is_add_neg.

(* the norm is multiplicative (squared form, no sqrt) and tr_qnorm is its square root *)
Theorem C12_norm_multiplicative : forall p q : V4 R,
  tr_inner Rops (tr_qqmul Rops p q) (tr_qqmul Rops p q) = tr_inner Rops p p * tr_inner Rops q q.
Proof. gen_ring. Qed.
Print Assumptions C12_norm_multiplicative.

Theorem C12_qnorm_sqrt_inner : forall q : V4 R, tr_qnorm Rops q = sqrt (tr_inner Rops q q)
  /\ tr_Q_norm Rops q = tr_qnorm Rops q.
Proof. intros; destruct_tuples; autounfold with smgen; sm_simpl; split; f_equal; ring. Qed.
Print Assumptions C12_qnorm_sqrt_inner.

Theorem C12_qnorm_multiplicative : forall p q : V4 R,
  tr_qnorm Rops (tr_qqmul Rops p q) = tr_qnorm Rops p * tr_qnorm Rops q.
Proof.
  intros p q. destruct (C12_qnorm_sqrt_inner (tr_qqmul Rops p q)) as [-> _].
  destruct (C12_qnorm_sqrt_inner p) as [-> _]. destruct (C12_qnorm_sqrt_inner q) as [-> _].
  rewrite C12_norm_multiplicative. apply sqrt_mult_alt.
  destruct_tuples; autounfold with smgen; sm_simpl; nra.
Qed.
Print Assumptions C12_qnorm_multiplicative.

Theorem C12_conj_reverses : forall p q : V4 R,
  tr_conj Rops (tr_qqmul Rops p q) = tr_qqmul Rops (tr_conj Rops q) (tr_conj Rops p).
Proof. gen_ring. Qed.
Print Assumptions C12_conj_reverses.

Theorem C12_q_conj_q : forall q : V4 R,
  tr_qqmul Rops q (tr_conj Rops q) = (tr_inner Rops q q, 0, 0, 0).
Proof. gen_ring. Qed.
Print Assumptions C12_q_conj_q.

Theorem C12_conj_is_conj : forall q : V4 R, tr_conj Rops q = qconj Rops q /\ tr_Q_conj Rops q = qconj Rops q.
Proof. intros; split; gen_ring. Qed.
Print Assumptions C12_conj_is_conj.

Theorem C12_matrix_is_left_mul : forall p q : V4 R, mv44 Rops (tr_matrix Rops p) q = tr_qqmul Rops p q.
Proof. gen_ring. Qed.
Print Assumptions C12_matrix_is_left_mul.

Theorem C12_inner_is_dot : forall p q : V4 R, tr_inner Rops p q = dot4 Rops p q /\ tr_Q_inner Rops p q = dot4 Rops p q.
Proof. intros; split; gen_ring. Qed.
Print Assumptions C12_inner_is_dot.

(* class layer = base layer *)
Theorem C12_class_ops : forall (p q : V4 R) (k : R),
  tr_Q_mul Rops p q = tr_qqmul Rops p q /\ tr_Q_add Rops p q = vadd4 Rops p q /\
  tr_Q_sub Rops p q = vsub4 Rops p q /\ tr_Q_matrix Rops p = tr_matrix Rops p /\
  tr_Q_smul Rops k q = vscale4 Rops k q /\ tr_Q_rsmul Rops k q = vscale4 Rops k q.
Proof. intros; repeat split; gen_ring. Qed.
Print Assumptions C12_class_ops.

(* pure, sandwich product *)
Theorem C12_qvmul_is_sandwich : forall (q : V4 R) (v : V3 R),
  tr_qvmul Rops q v = qvec (qmul Rops q (qmul Rops (qpure Rops v) (qconj Rops q))) /\ tr_pure Rops v = qpure Rops v.
Proof. intros; split; gen_ring. Qed.
Print Assumptions C12_qvmul_is_sandwich.

(* kinematic rates: half the product of the angular velocity with the quaternion *)
Theorem C12_dot_world : forall (q : V4 R) (w : V3 R),
  tr_dot Rops q w = vscale4 Rops (1/2) (qmul Rops (qpure Rops w) q).
Proof. gen_field. Qed.
Print Assumptions C12_dot_world.

Theorem C12_dot_body : forall (q : V4 R) (w : V3 R),
  tr_dotb Rops q w = vscale4 Rops (1/2) (qmul Rops q (qpure Rops w)).
Proof. gen_field. Qed.
Print Assumptions C12_dot_body.

(* minimal 3-vector form: consistent with the full product of the two unit quaternions with
   non-negative scalar parts sqrt(1 - |a|^2), sqrt(1 - |b|^2) *)
Theorem C12_vvmul_consistent : forall a b : V3 R,
  tr_vvmul Rops a b = qvec (qmul Rops (tr_v2q Rops a) (tr_v2q Rops b)).
Proof. gen_ring. Qed.
Print Assumptions C12_vvmul_consistent.

Theorem C12_v2q_unit : forall a : V3 R, normsq3 Rops a <= 1 ->
  tr_inner Rops (tr_v2q Rops a) (tr_v2q Rops a) = 1 /\ 0 <= fst (fst (fst (tr_v2q Rops a))) /\ qvec (tr_v2q Rops a) = a.
Proof.
  intros a H. destruct_tuples. autounfold with smgen smlin in *. sm_simpl.
  match goal with |- context [sqrt ?x] => assert (Hx : 0 <= x) by nra; pose proof (sqrt_sqrt x Hx); pose proof (sqrt_pos x) end.
  repeat split; try assumption; nra.
Qed.
Print Assumptions C12_v2q_unit.

(* integer powers: the real loop, unrolled by the library itself for every |n| <= 6, is the repeated product;
   a negative power is the conjugate of the positive one *)
Theorem C12_qpow_steps : forall q : V4 R,
  tr_qpow_p0 Rops q = qone Rops /\ tr_qpow_p1 Rops q = qmul Rops (tr_qpow_p0 Rops q) q /\
  tr_qpow_p2 Rops q = qmul Rops (tr_qpow_p1 Rops q) q /\ tr_qpow_p3 Rops q = qmul Rops (tr_qpow_p2 Rops q) q /\
  tr_qpow_p4 Rops q = qmul Rops (tr_qpow_p3 Rops q) q /\ tr_qpow_p5 Rops q = qmul Rops (tr_qpow_p4 Rops q) q /\
  tr_qpow_p6 Rops q = qmul Rops (tr_qpow_p5 Rops q) q /\
  tr_qpow_m1 Rops q = qconj Rops (tr_qpow_p1 Rops q) /\ tr_qpow_m2 Rops q = qconj Rops (tr_qpow_p2 Rops q) /\
  tr_qpow_m3 Rops q = qconj Rops (tr_qpow_p3 Rops q) /\ tr_qpow_m4 Rops q = qconj Rops (tr_qpow_p4 Rops q) /\
  tr_qpow_m5 Rops q = qconj Rops (tr_qpow_p5 Rops q) /\ tr_qpow_m6 Rops q = qconj Rops (tr_qpow_p6 Rops q) /\
  tr_Q_pow3 Rops q = tr_qpow_p3 Rops q /\ tr_Q_powm2 Rops q = tr_qpow_m2 Rops q.
Proof. intros q. repeat split; gen_ring. Qed.
Print Assumptions C12_qpow_steps.

Theorem C12_qpow_traces_are_loop : forall q : V4 R,
  tr_qpow_p0 Rops q = qpow_model Rops q 0 /\ tr_qpow_p1 Rops q = qpow_model Rops q 1 /\
  tr_qpow_p2 Rops q = qpow_model Rops q 2 /\ tr_qpow_p3 Rops q = qpow_model Rops q 3 /\
  tr_qpow_p4 Rops q = qpow_model Rops q 4 /\ tr_qpow_p5 Rops q = qpow_model Rops q 5 /\
  tr_qpow_p6 Rops q = qpow_model Rops q 6 /\
  tr_qpow_m1 Rops q = qpow_model Rops q (-1) /\ tr_qpow_m2 Rops q = qpow_model Rops q (-2) /\
  tr_qpow_m3 Rops q = qpow_model Rops q (-3) /\ tr_qpow_m4 Rops q = qpow_model Rops q (-4) /\
  tr_qpow_m5 Rops q = qpow_model Rops q (-5) /\ tr_qpow_m6 Rops q = qpow_model Rops q (-6).
Proof.
  intros q. destruct (C12_qpow_steps q) as (H0 & H1 & H2 & H3 & H4 & H5 & H6 & M1 & M2 & M3 & M4 & M5 & M6 & _).
  cbv beta iota delta [qpow_model Z.ltb Z.compare Z.abs_nat Pos.to_nat Pos.iter_op Nat.add qpow_nat].
  rewrite M1, M2, M3, M4, M5, M6, H6, H5, H4, H3, H2, H1, H0. repeat split; reflexivity.
Qed.
Print Assumptions C12_qpow_traces_are_loop.

(* ... and the loop model satisfies the power laws for EVERY integer exponent *)
Theorem C12_qpow_succ : forall (q : V4 R) (n : Z), (0 <= n)%Z ->
  qpow_model Rops q (n + 1) = qmul Rops (qpow_model Rops q n) q.
Proof.
  intros q n Hn. unfold qpow_model.
  replace (n + 1 <? 0)%Z with false by (symmetry; apply Z.ltb_ge; lia).
  replace (n <? 0)%Z with false by (symmetry; apply Z.ltb_ge; lia).
  replace (Z.abs_nat (n + 1)) with (S (Z.abs_nat n)) by lia. reflexivity.
Qed.
Print Assumptions C12_qpow_succ.

Theorem C12_qpow_zero : forall q : V4 R, qpow_model Rops q 0 = (1, 0, 0, 0).
Proof. reflexivity. Qed.
Print Assumptions C12_qpow_zero.

Theorem C12_qpow_neg : forall (q : V4 R) (n : Z), (0 < n)%Z ->
  qpow_model Rops q (- n) = qconj Rops (qpow_model Rops q n).
Proof.
  intros q n Hn. unfold qpow_model.
  replace (- n <? 0)%Z with true by (symmetry; apply Z.ltb_lt; lia).
  replace (n <? 0)%Z with false by (symmetry; apply Z.ltb_ge; lia).
  replace (Z.abs_nat (- n)) with (Z.abs_nat n) by lia. reflexivity.
Qed.
Print Assumptions C12_qpow_neg.

Lemma qmul_assoc_R : forall p q r : V4 R, qmul Rops (qmul Rops p q) r = qmul Rops p (qmul Rops q r).
Proof. gen_ring. Qed.
Lemma qmul_one_l : forall q : V4 R, qmul Rops (qone Rops) q = q.
Proof. gen_ring. Qed.

Theorem C12_qpow_add : forall (q : V4 R) (m n : nat),
  qpow_nat Rops q (m + n) = qmul Rops (qpow_nat Rops q m) (qpow_nat Rops q n).
Proof.
  intros q m n. induction n as [|n IH].
  - rewrite Nat.add_0_r. cbn [qpow_nat]. generalize (qpow_nat Rops q m). gen_ring.
  - rewrite Nat.add_succ_r. cbn [qpow_nat]. rewrite IH. apply qmul_assoc_R.
Qed.
Print Assumptions C12_qpow_add.

(* dual quaternions *)
Theorem C12_DQ_assoc : forall a b c : V8 R,
  tr_DQ_mul Rops (tr_DQ_mul Rops a b) c = tr_DQ_mul Rops a (tr_DQ_mul Rops b c).
Proof. gen_ring. Qed.
Print Assumptions C12_DQ_assoc.

Definition mv88 (A : M88 R) (v : V8 R) : V8 R :=
  let '(r0,r1,r2,r3,r4,r5,r6,r7) := A in
  let d (r : V8 R) := let '(a0,a1,a2,a3,a4,a5,a6,a7) := r in let '(b0,b1,b2,b3,b4,b5,b6,b7) := v in
     a0*b0 + a1*b1 + a2*b2 + a3*b3 + a4*b4 + a5*b5 + a6*b6 + a7*b7 in
  (d r0, d r1, d r2, d r3, d r4, d r5, d r6, d r7).

Theorem C12_DQ_matrix_is_product : forall a b : V8 R, mv88 (tr_DQ_matrix Rops a) b = tr_DQ_mul Rops a b.
Proof. intros; destruct_tuples; autounfold with smgen smlin; unfold mv88; sm_simpl; tuple_eq ltac:(ring). Qed.
Print Assumptions C12_DQ_matrix_is_product.

Definition dq_real (a : V8 R) : V4 R := let '(a0,a1,a2,a3,_,_,_,_) := a in (a0,a1,a2,a3).
Definition dq_dual (a : V8 R) : V4 R := let '(_,_,_,_,a4,a5,a6,a7) := a in (a4,a5,a6,a7).
Definition dq_make (r d : V4 R) : V8 R := let '(a0,a1,a2,a3) := r in let '(a4,a5,a6,a7) := d in (a0,a1,a2,a3,a4,a5,a6,a7).

(* the dual-number extension: (r1 + e d1)(r2 + e d2) = r1 r2 + e (r1 d2 + d1 r2) *)
Theorem C12_DQ_dual_number_product : forall a b : V8 R,
  tr_DQ_mul Rops a b = dq_make (qmul Rops (dq_real a) (dq_real b))
                               (vadd4 Rops (qmul Rops (dq_real a) (dq_dual b)) (qmul Rops (dq_dual a) (dq_real b))).
Proof. intros; destruct_tuples; autounfold with smgen smlin; unfold dq_make, dq_real, dq_dual; sm_simpl; tuple_eq ltac:(ring). Qed.
Print Assumptions C12_DQ_dual_number_product.

Theorem C12_DQ_conj_add_sub : forall a b : V8 R,
  tr_DQ_conj Rops a = dq_make (qconj Rops (dq_real a)) (qconj Rops (dq_dual a)) /\
  tr_DQ_add Rops a b = dq_make (vadd4 Rops (dq_real a) (dq_real b)) (vadd4 Rops (dq_dual a) (dq_dual b)) /\
  tr_DQ_sub Rops a b = dq_make (vsub4 Rops (dq_real a) (dq_real b)) (vsub4 Rops (dq_dual a) (dq_dual b)).
Proof. intros; repeat split; destruct_tuples; autounfold with smgen smlin; unfold dq_make, dq_real, dq_dual; sm_simpl; tuple_eq ltac:(ring). Qed.
Print Assumptions C12_DQ_conj_add_sub.

(* DualQuaternion.norm is the square root of the dual number  a + eps b,  a = <real,real>,  b = 2 <real,dual>
   (the scalar parts of  real*conj(real)  and  real*conj(dual) + dual*conj(real)):  (n + eps m)^2 = n^2 + eps 2 n m.
   Defined whenever the real part is not the zero quaternion. *)
Theorem C12_DQ_norm_is_dual_sqrt : forall a : V8 R, 0 < tr_inner Rops (dq_real a) (dq_real a) ->
  let n := fst (tr_DQ_norm Rops a) in let m := snd (tr_DQ_norm Rops a) in
  0 < n /\ n * n = tr_inner Rops (dq_real a) (dq_real a) /\ 2 * n * m = 2 * tr_inner Rops (dq_real a) (dq_dual a).
Proof.
  intros a H. destruct_tuples. unfold dq_real, dq_dual in *. autounfold with smgen smlin in *. sm_simpl. cbn [fst snd].
  match goal with |- context [sqrt ?x] => assert (Hx : 0 < x) by lra; pose proof (sqrt_sqrt x (Rlt_le _ _ Hx)) as Hs;
    pose proof (sqrt_lt_R0 x Hx) as Hp; set (n := sqrt x) in * end.
  repeat split; [exact Hp | lra | field; lra].
Qed.
Print Assumptions C12_DQ_norm_is_dual_sqrt.

(* norm of the unit dual quaternion built from a rigid motion (unit rotation quaternion q, translation t):
   in L-real it is exactly (1, 0) *)
Theorem C12_UDQ_norm : forall (q : V4 R) (t : V3 R), tr_inner Rops q q = 1 ->
  tr_DQ_norm Rops (dq_make q (tr_UDQ_dual Rops q t)) = (1, 0).
Proof.
  intros q t H. destruct_tuples. autounfold with smgen smlin in *. unfold dq_make. sm_simpl.
  apply f_equal2.
  - rewrite <- sqrt_1. f_equal. nra.
  - match goal with |- _ * _ * ?e = 0 => replace e with 0 by field end. ring.
Qed.
Print Assumptions C12_UDQ_norm.

(* non-vacuity of the hypotheses used above *)
Example C12_nonvacuous : tr_inner Rops (3/5, 4/5, 0, 0) (3/5, 4/5, 0, 0) = 1 /\ normsq3 Rops (1/2, 1/2, 0) <= 1
  /\ 0 < tr_inner Rops (dq_real (1, 2, 3, 4, 5, 6, 7, 8)) (dq_real (1, 2, 3, 4, 5, 6, 7, 8)).
Proof. unfold dq_real; autounfold with smgen smlin; sm_simpl; repeat split; lra. Qed.
