(* C01 (1b/3) -- every polynomial CLASS constructor (SO2 SE2 SO3 SE3) lands in its group, for every angle, every unit and every order.
   The tr_* definitions are REGENERATED from /repo on every run (the library executed on symbols; sin/cos of the
   input angles appear as sin_/cos_ of the -- possibly degree-scaled -- angle).  Membership is proved after
   generalising (cos t, sin t) of every angle t to a pair (c,s) with c*c+s*s=1 (cs_unit), by nsatz.
   SO3/SO2/SE3/SE2 are the polynomial predicates of Base/RLin.v: rows orthonormal, det = +1, and for the
   homogeneous forms the last row equal to (0,..,0,1) -- proved by reflexivity, i.e. syntactically. *)
From Coq Require Import Reals ZArith Lra Nsatz.
From SM Require Import Base.Ops Base.Lin Base.RInst Base.RLin Model.C01_Lemmas.
From SMgen Require Import Traces_C01.
Open Scope R_scope.

Ltac open_tr := intros; destruct_tuples; autounfold with smgen in *; unfold SE3, SE2, t2r3, t2r2, lastrow4, lastrow3; sm_simpl.
Ltac so_tr := open_tr; so_poly.
Ltac se_tr := open_tr; split; [ so_poly | reflexivity ].
(* every option is proved DIRECTLY on its own trace (not through equality with another trace): a change that makes an
   option return a different but still valid member (e.g. unit='deg' ignored) is C15's business and leaves these proofs intact *)
Ltac conjs := intros; repeat match goal with |- _ /\ _ => split end.

(* ---------- class constructors, each option proved on its own trace ---------- *)
Lemma C01_SO3_Rxyz : forall a,
  SO3 (tr_SO3_Rx_rad Rops a) /\ SO3 (tr_SO3_Rx_deg Rops a) /\ SO3 (tr_SO3_Ry_rad Rops a) /\ SO3 (tr_SO3_Ry_deg Rops a) /\
  SO3 (tr_SO3_Rz_rad Rops a) /\ SO3 (tr_SO3_Rz_deg Rops a).
Proof. conjs; so_tr. Qed.
Lemma C01_SE3_Rxyz : forall a t,
  SE3 (tr_SE3_Rx_rad Rops a t) /\ SE3 (tr_SE3_Rx_deg Rops a t) /\ SE3 (tr_SE3_Ry_rad Rops a t) /\ SE3 (tr_SE3_Ry_deg Rops a t) /\
  SE3 (tr_SE3_Rz_rad Rops a t) /\ SE3 (tr_SE3_Rz_deg Rops a t).
Proof. conjs; se_tr. Qed.
Lemma C01_SO3_RPY : forall a,
  SO3 (tr_SO3_RPY_zyx_rad Rops a) /\ SO3 (tr_SO3_RPY_zyx_deg Rops a) /\ SO3 (tr_SO3_RPY_xyz_rad Rops a) /\
  SO3 (tr_SO3_RPY_xyz_deg Rops a) /\ SO3 (tr_SO3_RPY_yxz_rad Rops a) /\ SO3 (tr_SO3_RPY_yxz_deg Rops a).
Proof. conjs; so_tr. Qed.
Lemma C01_SE3_RPY : forall a,
  SE3 (tr_SE3_RPY_zyx_rad Rops a) /\ SE3 (tr_SE3_RPY_zyx_deg Rops a) /\ SE3 (tr_SE3_RPY_xyz_rad Rops a) /\
  SE3 (tr_SE3_RPY_xyz_deg Rops a) /\ SE3 (tr_SE3_RPY_yxz_rad Rops a) /\ SE3 (tr_SE3_RPY_yxz_deg Rops a).
Proof. conjs; se_tr. Qed.
Lemma C01_SO3_SE3_Eul : forall a,
  SO3 (tr_SO3_Eul_rad Rops a) /\ SO3 (tr_SO3_Eul_deg Rops a) /\ SE3 (tr_SE3_Eul_rad Rops a) /\ SE3 (tr_SE3_Eul_deg Rops a).
Proof. conjs; first [ so_tr | se_tr ]. Qed.
Lemma C01_SE3_T : forall d x y z t,
  SE3 (tr_SE3_Tx Rops d) /\ SE3 (tr_SE3_Ty Rops d) /\ SE3 (tr_SE3_Tz Rops d) /\ SE3 (tr_SE3_xyz Rops x y z) /\ SE3 (tr_SE3_vec Rops t).
Proof. conjs; se_tr. Qed.
Lemma C01_SO2_SE2 : forall a x y,
  SO2 (tr_SO2_rad Rops a) /\ SO2 (tr_SO2_deg Rops a) /\ SE2 (tr_SE2_rad Rops x y a) /\ SE2 (tr_SE2_deg Rops x y a) /\ SE2 (tr_SE2_xy Rops x y).
Proof. conjs; first [ so_tr | se_tr ]. Qed.

(* the option really is threaded: the degree trace is the radian trace at the scaled angle (pi_f/180 as the exact double ratio) *)
Lemma C01_deg_is_scaled_rad : forall a,
  tr_rotx_deg Rops a = tr_rotx_rad Rops (IZR 5030569068109113 / IZR 288230376151711744 * a) /\
  tr_SO3_Rz_deg Rops a = tr_SO3_Rz_rad Rops (IZR 5030569068109113 / IZR 288230376151711744 * a).
Proof. intros; split; autounfold with smgen; sm_simpl; reflexivity. Qed.


(* =====================  PROPERTY THEOREM  ===================== *)
(* every polynomial class constructor of SO2 / SE2 / SO3 / SE3 *)
Theorem C01_class_constructors : forall (a : R) (t : V3 R) (a3 : V3 R) (d x y z : R),
  (SO3 (tr_SO3_Rx_rad Rops a) /\ SO3 (tr_SO3_Rx_deg Rops a) /\ SO3 (tr_SO3_Ry_rad Rops a) /\ SO3 (tr_SO3_Ry_deg Rops a) /\
   SO3 (tr_SO3_Rz_rad Rops a) /\ SO3 (tr_SO3_Rz_deg Rops a)) /\
  (SE3 (tr_SE3_Rx_rad Rops a t) /\ SE3 (tr_SE3_Rx_deg Rops a t) /\ SE3 (tr_SE3_Ry_rad Rops a t) /\ SE3 (tr_SE3_Ry_deg Rops a t) /\
   SE3 (tr_SE3_Rz_rad Rops a t) /\ SE3 (tr_SE3_Rz_deg Rops a t)) /\
  (SO3 (tr_SO3_RPY_zyx_rad Rops a3) /\ SO3 (tr_SO3_RPY_zyx_deg Rops a3) /\ SO3 (tr_SO3_RPY_xyz_rad Rops a3) /\
   SO3 (tr_SO3_RPY_xyz_deg Rops a3) /\ SO3 (tr_SO3_RPY_yxz_rad Rops a3) /\ SO3 (tr_SO3_RPY_yxz_deg Rops a3)) /\
  (SE3 (tr_SE3_RPY_zyx_rad Rops a3) /\ SE3 (tr_SE3_RPY_zyx_deg Rops a3) /\ SE3 (tr_SE3_RPY_xyz_rad Rops a3) /\
   SE3 (tr_SE3_RPY_xyz_deg Rops a3) /\ SE3 (tr_SE3_RPY_yxz_rad Rops a3) /\ SE3 (tr_SE3_RPY_yxz_deg Rops a3)) /\
  (SO3 (tr_SO3_Eul_rad Rops a3) /\ SO3 (tr_SO3_Eul_deg Rops a3) /\ SE3 (tr_SE3_Eul_rad Rops a3) /\ SE3 (tr_SE3_Eul_deg Rops a3)) /\
  (SE3 (tr_SE3_Tx Rops d) /\ SE3 (tr_SE3_Ty Rops d) /\ SE3 (tr_SE3_Tz Rops d) /\ SE3 (tr_SE3_xyz Rops x y z) /\ SE3 (tr_SE3_vec Rops t)) /\
  (SO2 (tr_SO2_rad Rops a) /\ SO2 (tr_SO2_deg Rops a) /\ SE2 (tr_SE2_rad Rops x y a) /\ SE2 (tr_SE2_deg Rops x y a) /\ SE2 (tr_SE2_xy Rops x y)).
Proof.
  intros.
  pose proof (C01_SO3_Rxyz a).
  pose proof (C01_SE3_Rxyz a t).
  pose proof (C01_SO3_RPY a3).
  pose proof (C01_SE3_RPY a3).
  pose proof (C01_SO3_SE3_Eul a3).
  pose proof (C01_SE3_T d x y z t).
  pose proof (C01_SO2_SE2 a x y).
  tauto.
Qed.
Print Assumptions C01_class_constructors.
