(* C18 (c) -- planar twists: Twist2.Revolute(q) / Twist2.Prismatic(a) and Twist2.exp.
   Statements are fixed; the tr_ / pc_ definitions are regenerated from /repo on every run:
   base.trexp2(Twist2(S).S * theta) executed on symbols (the statement Twist2.exp runs), one definition per
   explored path with its path condition (iszerovec / unittwist2_norm / rodrigues under 10 eps). *)
From Coq Require Import Reals ZArith Lra Lia Nsatz Psatz Bool.
From SM Require Import Base.Ops Base.Lin Base.RInst Base.RLin Model.C18_Screw.
From SMgen Require Import Traces_C18.
Open Scope R_scope.

Ltac gen_unfold := autounfold with smgen smlin in *; sm_simpl.

Definition T2_exp (S : V3 R) (th : R) : option (M33 R) :=
  if pc_tr_T2_exp_zero Rops S th then Some (tr_T2_exp_zero Rops S th)
  else if pc_tr_T2_exp_rev Rops S th then Some (tr_T2_exp_rev Rops S th)
  else if pc_tr_T2_exp_pris Rops S th then Some (tr_T2_exp_pris Rops S th)
  else None.

Lemma sqrt3_scale a b c th : sqrt (a*a*(th*th) + b*b*(th*th) + c*c*(th*th)) = Rabs th * sqrt (a*a + b*b + c*c).
Proof. rewrite <- sqrt_sq_abs, <- sqrt_mult_alt by nra. f_equal. ring. Qed.
Print Assumptions sqrt3_scale.

(* ---------------------------------------------------------------- path conditions *)
Lemma C18_T2_pc_zero_iff : forall v0 v1 w th,
  pc_tr_T2_exp_zero Rops (v0,v1,w) th = true <-> Rabs th * sqrt (v0*v0 + v1*v1 + w*w) < tiny.
Proof. intros. gen_unfold. rewrite andb_true_r, Rltb_true. fold tiny. rewrite sqrt3_scale. tauto. Qed.
Print Assumptions C18_T2_pc_zero_iff.

Lemma C18_T2_pc_rev_unit : forall v0 v1 th, pc_tr_T2_exp_rev Rops (v0,v1,1) th = true <-> tiny <= Rabs th.
Proof.
  intros. gen_unfold. fold tiny. pose proof tiny_pos as Ht. pose proof tiny_small as Ht1.
  replace (1 * th) with th by ring. split.
  - intros H. pc_props H. lra.
  - intros H. assert (Hth : th <> 0) by (intro; subst; rewrite Rabs_R0 in H; lra).
    rewrite !andb_true_iff, !negb_true_iff, !Rltb_false, sqrt3_scale. repeat split; try lra.
    + assert (1 <= sqrt (v0*v0 + v1*v1 + 1*1)) by (rewrite <- sqrt_1 at 1; apply sqrt_le_1_alt; nra).
      pose proof (Rabs_pos th). nra.
    + replace (1 / (1*1) * (1 / (th*th))) with ((/ th) * (/ th)) by (field; exact Hth).
      rewrite sqrt_sq_abs, Rabs_R1, Rabs_inv, Rmult_1_r, Rinv_l; [lra|]. now apply Rabs_no_R0.
Qed.
Print Assumptions C18_T2_pc_rev_unit.

(* ---------------------------------------------------------------- revolute about the point q *)
Theorem C18_T2_exp_rev_closed_form : forall v0 v1 th, pc_tr_T2_exp_rev Rops (v0,v1,1) th = true ->
  tr_T2_exp_rev Rops (v0,v1,1) th = screw2_cs Rops (v0,v1,1) (cos th) (sin th).
Proof.
  intros v0 v1 th H. apply C18_T2_pc_rev_unit in H.
  assert (Hth : th <> 0) by (intro; subst; rewrite Rabs_R0 in H; pose proof tiny_pos; lra). clear H.
  gen_unfold. replace (1 * th) with th by ring.
  abs_cases th; generalize (cos th) (sin th); intros c s; tuple_eq ltac:(field; lra).
Qed.
Print Assumptions C18_T2_exp_rev_closed_form.

Theorem C18_T2_exp_zero_path : forall S th, tr_T2_exp_zero Rops S th = I33 Rops.
Proof. intros. destruct_tuples. gen_unfold. tuple_eq ltac:(ring). Qed.
Print Assumptions C18_T2_exp_zero_path.
Theorem C18_T2_exp_theta0 : forall S, T2_exp S 0 = Some (I33 Rops).
Proof.
  intros S. destruct S as [[v0 v1] w]. unfold T2_exp. replace (pc_tr_T2_exp_zero Rops (v0,v1,w) 0) with true.
  - now rewrite C18_T2_exp_zero_path.
  - symmetry. apply C18_T2_pc_zero_iff. rewrite Rabs_R0. pose proof tiny_pos. lra.
Qed.
Print Assumptions C18_T2_exp_theta0.

Lemma T2_exp_unit_main : forall v0 v1 th, tiny <= Rabs th ->
  T2_exp (v0,v1,1) th = Some (screw2_cs Rops (v0,v1,1) (cos th) (sin th)).
Proof.
  intros v0 v1 th H. unfold T2_exp.
  assert (Hz : pc_tr_T2_exp_zero Rops (v0,v1,1) th = false).
  { apply not_true_is_false. rewrite C18_T2_pc_zero_iff.
    assert (1 <= sqrt (v0*v0 + v1*v1 + 1*1)) by (rewrite <- sqrt_1 at 1; apply sqrt_le_1_alt; nra).
    pose proof (Rabs_pos th). pose proof tiny_pos. nra. }
  rewrite Hz. assert (Hr : pc_tr_T2_exp_rev Rops (v0,v1,1) th = true) by now apply C18_T2_pc_rev_unit.
  rewrite Hr. now rewrite C18_T2_exp_rev_closed_form.
Qed.
Print Assumptions T2_exp_unit_main.

(* coverage for a planar revolute twist: zero path, main path, or the threshold band *)
Theorem C18_T2_exp_rev_coverage : forall v0 v1 th,
  pc_tr_T2_exp_zero Rops (v0,v1,1) th = true \/ pc_tr_T2_exp_rev Rops (v0,v1,1) th = true \/
  (Rabs th < tiny <= Rabs th * sqrt (v0*v0 + v1*v1 + 1*1)).
Proof.
  intros. destruct (Rlt_dec (Rabs th * sqrt (v0*v0 + v1*v1 + 1*1)) tiny) as [H|H].
  - left. now apply C18_T2_pc_zero_iff.
  - destruct (Rle_dec tiny (Rabs th)) as [H1|H1].
    + right; left. now apply C18_T2_pc_rev_unit.
    + right; right. lra.
Qed.
Print Assumptions C18_T2_exp_rev_coverage.

(* Twist2.Revolute(q).exp(theta), theta outside 0 < |theta| < 10 eps: the rotation by theta about the point q:
   p |-> q + rot2(theta)(p - q) for every p; in particular q is fixed *)
Theorem C18_T2_Revolute_exp : forall q th, tiny <= Rabs th \/ th = 0 ->
  exists M, T2_exp (tr_T2_Revolute Rops q) th = Some M /\ SE2 M /\
    t2r2 M = rot2_cs Rops (cos th) (sin th) /\
    mv33 Rops M (hpoint2 Rops q) = hpoint2 Rops q /\
    (forall p, mv33 Rops M (hpoint2 Rops p) =
               hpoint2 Rops (vadd2 Rops q (mv22 Rops (rot2_cs Rops (cos th) (sin th)) (vsub2 Rops p q)))).
Proof.
  intros q th Hth.
  assert (E : tr_T2_Revolute Rops q = revolute2_tw Rops q) by (destruct q; gen_unfold; tuple_eq ltac:(try ring)).
  rewrite E. destruct q as [q0 q1]. unfold revolute2_tw. sm_simpl.
  destruct Hth as [H| ->].
  - eexists. split; [apply T2_exp_unit_main; exact H|]. split; [apply screw2_SE2, cs_unit|]. split.
    + lin_simpl. reflexivity.
    + split; [apply (screw2_pole_fixed (q0,q1)) | intros p; apply (screw2_action (q0,q1))].
  - exists (I33 Rops). split; [apply C18_T2_exp_theta0|]. rewrite cos_0, sin_0. split.
    + unfold SE2, SO2. lin_simpl. split; [repeat split; ring | reflexivity].
    + split; [lin_simpl; tuple_eq ltac:(ring)|]. split; intros; destruct_tuples; lin_simpl; tuple_eq ltac:(ring).
Qed.
Print Assumptions C18_T2_Revolute_exp.

(* FULL STATEMENT (false of the code as it is): the rotation block is rot2(theta) for EVERY theta.
   Witness: q = 0, theta = 2^-52 takes the zero path (result I) although sin(theta) <> 0. *)
Theorem C18_T2_exp_rotation_refuted : exists q th M,
  T2_exp (tr_T2_Revolute Rops q) th = Some M /\ t2r2 M <> rot2_cs Rops (cos th) (sin th).
Proof.
  exists (0,0), (/ 4503599627370496), (I33 Rops). split.
  - assert (E : tr_T2_Revolute Rops (0,0) = (0,0,1)) by (gen_unfold; tuple_eq ltac:(try ring)). rewrite E.
    unfold T2_exp. replace (pc_tr_T2_exp_zero Rops _ _) with true; [now rewrite C18_T2_exp_zero_path|].
    symmetry. apply C18_T2_pc_zero_iff.
    replace (0*0 + 0*0 + 1*1) with 1 by ring. rewrite sqrt_1, Rabs_right by lra. unfold tiny. lra.
  - lin_simpl. intro E. injection E. intros.
    assert (0 < sin (/ 4503599627370496)).
    { apply sin_gt_0; [lra|]. pose proof PI_RGT_0. pose proof (PI2_3_2). unfold PI2 in *. lra. }
    lra.
Qed.
Print Assumptions C18_T2_exp_rotation_refuted.

Example C18_T2_nonvacuous : tiny <= Rabs (-3) /\ pc_tr_T2_exp_rev Rops (revolute2_tw Rops (2, 5)) (-3) = true.
Proof.
  assert (tiny <= Rabs (-3)) by (rewrite Rabs_left by lra; unfold tiny; lra). split; [assumption|].
  unfold revolute2_tw. sm_simpl. now apply C18_T2_pc_rev_unit.
Qed.
Print Assumptions C18_T2_nonvacuous.

(* ---------------------------------------------------------------- prismatic *)
Theorem C18_T2_exp_pris_closed_form : forall d0 d1 th, d0*d0 + d1*d1 = 1 -> tiny <= Rabs th ->
  T2_exp (d0,d1,0) th = Some (rt2tr2 Rops (I22 Rops) (th*d0, th*d1)).
Proof.
  intros d0 d1 th Hd H. pose proof tiny_pos as Ht.
  assert (E : sqrt (d0*d0*(th*th) + d1*d1*(th*th) + 0*0*(th*th)) = Rabs th).
  { rewrite sqrt3_scale. replace (d0*d0 + d1*d1 + 0*0) with 1 by lra. rewrite sqrt_1. ring. }
  assert (E2 : d0*d0*(th*th) + d1*d1*(th*th) = th*th).
  { transitivity ((d0*d0 + d1*d1)*(th*th)); [ring | rewrite Hd; ring]. }
  assert (Hth : th <> 0) by (intro; subst; rewrite Rabs_R0 in H; lra).
  unfold T2_exp.
  assert (Hz : pc_tr_T2_exp_zero Rops (d0,d1,0) th = false).
  { apply not_true_is_false. gen_unfold. rewrite andb_true_r, Rltb_true. fold tiny. rewrite E. lra. }
  rewrite Hz.
  assert (Hr : pc_tr_T2_exp_rev Rops (d0,d1,0) th = false).
  { apply not_true_is_false. gen_unfold. fold tiny. intro K. pc_props K.
    rewrite Rmult_0_l, Rabs_R0 in Hpc0. lra. }
  rewrite Hr.
  assert (Hp : pc_tr_T2_exp_pris Rops (d0,d1,0) th = true).
  { gen_unfold. fold tiny. rewrite !andb_true_iff, !negb_true_iff, Rltb_false, !Rltb_true. rewrite E.
    rewrite Rmult_0_l, Rabs_R0. repeat split; try lra; try (rewrite Rmult_0_r, Rmult_0_l; lra). }
  rewrite Hp. f_equal. gen_unfold. tuple_eq ltac:(ring).
Qed.
Print Assumptions C18_T2_exp_pris_closed_form.

(* the irrotational path of trexp2 (since fix 3bd9c1c unittwist2_norm zeroes the sub-threshold w) is the pure
   translation theta v for EVERY twist on that path *)
Theorem C18_T2_exp_pris_path : forall v0 v1 w th,
  tr_T2_exp_pris Rops (v0,v1,w) th = rt2tr2 Rops (I22 Rops) (th*v0, th*v1).
Proof. intros. gen_unfold. tuple_eq ltac:(ring). Qed.
Print Assumptions C18_T2_exp_pris_path.

(* so Twist2.exp is covered for every planar revolute twist: in the band |theta| < 10 eps <= |theta| |S| the
   irrotational path is taken *)
Theorem C18_T2_exp_band_path : forall v0 v1 th, Rabs th < tiny <= Rabs th * sqrt (v0*v0 + v1*v1 + 1*1) ->
  T2_exp (v0,v1,1) th = Some (rt2tr2 Rops (I22 Rops) (th*v0, th*v1)).
Proof.
  intros v0 v1 th [H1 H2]. unfold T2_exp.
  assert (Hz : pc_tr_T2_exp_zero Rops (v0,v1,1) th = false) by (apply not_true_is_false; rewrite C18_T2_pc_zero_iff; lra).
  assert (Hr : pc_tr_T2_exp_rev Rops (v0,v1,1) th = false) by (apply not_true_is_false; rewrite C18_T2_pc_rev_unit; lra).
  rewrite Hz, Hr.
  assert (Hp : pc_tr_T2_exp_pris Rops (v0,v1,1) th = true).
  { clear Hr. revert Hz. gen_unfold. fold tiny. intros Hz. rewrite andb_true_r in Hz. apply Rltb_false in Hz.
    rewrite !andb_true_iff, negb_true_iff, Rltb_false, Rltb_true. repeat split; try assumption.
    replace (1 * th) with th by ring. lra. }
  rewrite Hp. now rewrite C18_T2_exp_pris_path.
Qed.
Print Assumptions C18_T2_exp_band_path.

Theorem C18_T2_Prismatic_exp : forall a th, pc_tr_T2_Prismatic Rops a = true -> tiny <= Rabs th \/ th = 0 ->
  T2_exp (tr_T2_Prismatic Rops a) th = Some (rt2tr2 Rops (I22 Rops) (vscale2 Rops th (unitv2 Rops a))).
Proof.
  intros a th H Hth.
  assert (Hp : 0 < sqrt (dot2 Rops a a)) by (destruct a as [x y]; gen_unfold; pc_props H; lra).
  pose proof (unitv2_unit a Hp) as Hu.
  assert (E : tr_T2_Prismatic Rops a = (let '(d0,d1) := unitv2 Rops a in (d0,d1,0))).
  { destruct a as [x y]. gen_unfold. tuple_eq ltac:(try reflexivity; try (field; lra)). }
  rewrite E. revert Hu. generalize (unitv2 Rops a). intros [d0 d1] Hu. lin_simpl.
  destruct Hth as [Hth| ->].
  - rewrite C18_T2_exp_pris_closed_form by assumption. reflexivity.
  - rewrite C18_T2_exp_theta0. f_equal. lin_simpl. tuple_eq ltac:(ring).
Qed.
Print Assumptions C18_T2_Prismatic_exp.

Theorem C18_T2_exp_pris_refuted : exists d0 d1 th, d0*d0 + d1*d1 = 1 /\
  T2_exp (d0,d1,0) th <> Some (rt2tr2 Rops (I22 Rops) (th*d0, th*d1)).
Proof.
  exists 1, 0, (/ 4503599627370496). split; [ring|].
  unfold T2_exp. replace (pc_tr_T2_exp_zero Rops _ _) with true.
  - rewrite C18_T2_exp_zero_path. lin_simpl. intro E. injection E. intros. lra.
  - symmetry. apply C18_T2_pc_zero_iff.
    replace (1*1 + 0*0 + 0*0) with 1 by ring. rewrite sqrt_1, Rabs_right by lra. unfold tiny. lra.
Qed.
Print Assumptions C18_T2_exp_pris_refuted.

(* ---------------------------------------------------------------- scalar multiple, inverse, matrix form *)
Theorem C18_T2_exp_smul : forall S k,
  tr_T2_smulexp_rev Rops S k = tr_T2_exp_rev Rops S k /\ pc_tr_T2_smulexp_rev Rops S k = pc_tr_T2_exp_rev Rops S k.
Proof. intros. destruct_tuples. split; reflexivity. Qed.
Print Assumptions C18_T2_exp_smul.

(* scalar on the left (Twist2.__rmul__): k*S = S*k, and (k*S).exp() = S.exp(k) as computations *)
Theorem C18_T2_rmul_is_smul : forall S k,
  tr_T2_rsmul Rops S k = tr_T2_smul Rops S k /\
  tr_T2_rsmulexp_rev Rops S k = tr_T2_exp_rev Rops S k /\ pc_tr_T2_rsmulexp_rev Rops S k = pc_tr_T2_exp_rev Rops S k.
Proof.
  intros. destruct_tuples. split; [|split; reflexivity]. gen_unfold. tuple_eq ltac:(ring).
Qed.
Print Assumptions C18_T2_rmul_is_smul.

Theorem C18_T2_smul_inv_se2_forms : forall S k,
  tr_T2_smul Rops S k = (let '(v0,v1,w) := S in (k*v0, k*v1, k*w)) /\
  tr_T2_inv Rops S = (let '(v0,v1,w) := S in (-v0, -v1, -w)) /\
  tr_T2_se2 Rops S = skewa3 Rops S /\ tr_vexa3 Rops (tr_T2_se2 Rops S) = S.
Proof. intros. destruct_tuples. gen_unfold. repeat split; tuple_eq ltac:(try field; try ring). Qed.
Print Assumptions C18_T2_smul_inv_se2_forms.

Theorem C18_T2_exp_inv : forall v0 v1 th, pc_tr_T2_exp_rev Rops (v0,v1,1) th = true ->
  tr_T2_invexp_rev Rops (v0,v1,1) th = screw2_cs Rops (v0,v1,1) (cos th) (- sin th) /\
  pc_tr_T2_invexp_rev Rops (v0,v1,1) th = pc_tr_T2_exp_rev Rops (v0,v1,1) th /\
  mmul33 Rops (tr_T2_invexp_rev Rops (v0,v1,1) th) (tr_T2_exp_rev Rops (v0,v1,1) th) = I33 Rops.
Proof.
  intros v0 v1 th Hpc.
  assert (E : tr_T2_invexp_rev Rops (v0,v1,1) th = screw2_cs Rops (v0,v1,1) (cos th) (- sin th)).
  { apply C18_T2_pc_rev_unit in Hpc.
    assert (Hth : th <> 0) by (intro; subst; rewrite Rabs_R0 in Hpc; pose proof tiny_pos; lra). clear Hpc.
    gen_unfold. replace (1 * th) with th by ring.
    abs_cases th; generalize (cos th) (sin th); intros c s; tuple_eq ltac:(field; lra). }
  split; [exact E|]. split; [reflexivity|].
  rewrite E, C18_T2_exp_rev_closed_form by assumption. rewrite screw2_add.
  rewrite <- (screw2_zero (v0,v1,1)). pose proof (cs_unit th). f_equal; nsatz.
Qed.
Print Assumptions C18_T2_exp_inv.

(* exp of the se(2) matrix form = exp of the twist (theta = 1), on the main path of trexp2 *)
Theorem C18_T2_exp_se2_form : forall S, pc_tr_trexp2_se2_rev Rops S = true ->
  tr_trexp2_se2_rev Rops S = tr_T2_exp_rev Rops S 1.
Proof.
  intros [[v0 v1] w] H. gen_unfold. fold tiny in H. pc_props H. pose proof tiny_pos as Ht.
  assert (Hw : w <> 0) by (intro; subst; rewrite Rabs_R0 in *; lra).
  assert (Ha : Rabs w <> 0) by (apply Rabs_no_R0; exact Hw).
  rewrite ?Rmult_1_r. tuple_eq ltac:(field; auto).
Qed.
Print Assumptions C18_T2_exp_se2_form.
