(* C13 (part 8) -- Ad(exp(theta [S])) solves the initial value problem that defines exp(theta ad(S)).
   tr_trexp_unit s th is the library's base.trexp(S, theta) executed on a symbolic unit twist and a symbolic theta
   (concolic; path condition pc_trexp_unit: S not zero, | |w| - 1 | < 10 eps, |w| >= 10 eps), tr_adjoint the
   library's base.adjoint, tr_Tw_ad the library's Twist3.ad -- all regenerated on every run.  The heavy part (36
   derivatives by Coquelicot's auto_derive) is proved once about the hand-written Rodrigues curve of
   theories/Model/C13_ode.v; here the regenerated traces are shown to BE that curve, for all S and theta.
   What this does and does not give: A(theta) = Ad(exp(theta [S])) satisfies A' = ad(S) A, A(0) = I, exactly the IVP
   whose unique solution is the power series exp(theta ad(S)).  Uniqueness for linear ODE systems is not available in
   the standard library or Coquelicot for matrix-valued functions, so the equality with the series is NOT claimed as a
   theorem; it stays measured by the oracle (mpmath / scipy expm). *)
From Coq Require Import Reals ZArith Lra Lia.
From Coquelicot Require Import Coquelicot.
From SM Require Import Base.Ops Base.Lin Base.RInst Base.RLin Model.C13_ode.
From SMgen Require Import Traces_C13.
Open Scope R_scope.

Ltac gen_unfold := intros; destruct_tuples; autounfold with smgen smlin in *; sm_simpl.

(* the regenerated traces are the reference curve / the reference little adjoint, for every S and theta *)
Theorem C13_trexp_unit_is_rodrigues_curve : forall (s : V6 R) (th : R),
  tr_trexp_unit Rops s th = exp_curve s th /\
  tr_adjoint Rops (tr_trexp_unit Rops s th) = Ad_curve s th /\
  tr_Tw_ad Rops s = ad_ref s.
Proof.
  intros s th. destruct s as [[[[[v0 v1] v2] w0] w1] w2].
  unfold Ad_curve, Ad_ref, ad_ref, exp_curve, Rth, Vth, Model.C13_ode.tw_v, Model.C13_ode.tw_w.
  repeat split; autounfold with smgen smlin; sm_simpl; tuple_eq ltac:(ring).
Qed.
Print Assumptions C13_trexp_unit_is_rodrigues_curve.

(* THE THEOREM: for a unit twist, theta |-> Ad(trexp(S, theta)) is differentiable (every entry), its derivative is
   ad(S) times itself, and it starts at the identity *)
Theorem C13_Ad_exp_solves_ad_ode : forall (s : V6 R), normsq3 Rops (Model.C13_ode.tw_w s) = 1 ->
  (forall (th : R) (i j : nat), (i < 6)%nat -> (j < 6)%nat ->
     is_derive (fun t => get66 (tr_adjoint Rops (tr_trexp_unit Rops s t)) i j) th
               (get66 (mmul66 Rops (tr_Tw_ad Rops s) (tr_adjoint Rops (tr_trexp_unit Rops s th))) i j)) /\
  tr_adjoint Rops (tr_trexp_unit Rops s 0) = I66 Rops.
Proof.
  intros s Hw. split.
  - intros th i j Hi Hj.
    destruct (C13_trexp_unit_is_rodrigues_curve s th) as (_ & -> & ->).
    apply is_derive_ext with (f := fun t => get66 (Ad_curve s t) i j).
    + intro t. now destruct (C13_trexp_unit_is_rodrigues_curve s t) as (_ & -> & _).
    + apply Ad_curve_ode; assumption.
  - destruct (C13_trexp_unit_is_rodrigues_curve s 0) as (_ & -> & _). apply Ad_curve_0.
Qed.
Print Assumptions C13_Ad_exp_solves_ad_ode.

(* corollary: the first-order statement.  At theta = 0 the derivative is ad(S) itself, i.e.
   A(theta) = I + theta ad(S) + o(theta) entrywise (is_derive at 0 is exactly that little-o statement) *)
Theorem C13_Ad_exp_first_order : forall (s : V6 R), normsq3 Rops (Model.C13_ode.tw_w s) = 1 ->
  forall i j : nat, (i < 6)%nat -> (j < 6)%nat ->
  is_derive (fun t => get66 (tr_adjoint Rops (tr_trexp_unit Rops s t)) i j) 0 (get66 (tr_Tw_ad Rops s) i j) /\
  get66 (tr_adjoint Rops (tr_trexp_unit Rops s 0)) i j = get66 (I66 Rops) i j.
Proof.
  intros s Hw i j Hi Hj. destruct (C13_Ad_exp_solves_ad_ode s Hw) as [Hd H0]. split; [|now rewrite H0].
  specialize (Hd 0 i j Hi Hj). rewrite H0 in Hd.
  replace (mmul66 Rops (tr_Tw_ad Rops s) (I66 Rops)) with (tr_Tw_ad Rops s) in Hd; [exact Hd|].
  generalize (tr_Tw_ad Rops s). intro M. destruct_tuples. lin_simpl. tuple_eq ltac:(ring).
Qed.
Print Assumptions C13_Ad_exp_first_order.

(* non-vacuity: a unit twist that satisfies the hypothesis and the regenerated path condition, whose curve is not
   constant (entry (0,1) of A' at 0 is -w2 = -4/5) *)
Example C13_ode_nonvacuous :
  normsq3 Rops (Model.C13_ode.tw_w (1, 2, 3, 3/5, 0, 4/5)) = 1 /\
  pc_trexp_unit Rops (1, 2, 3, 3/5, 0, 4/5) 1 = true /\
  get66 (tr_Tw_ad Rops (1, 2, 3, 3/5, 0, 4/5)) 0 1 = - (4/5).
Proof.
  assert (E1 : sqrt 1 = 1) by apply sqrt_1.
  split; [unfold Model.C13_ode.tw_w; lin_simpl; field|]. split.
  - unfold pc_trexp_unit. lin_simpl. replace (3 / 5 * (3 / 5) + 0 * 0 + 4 / 5 * (4 / 5)) with 1 by field. rewrite E1.
    rewrite !Bool.andb_true_iff, !Bool.negb_true_iff. repeat split.
    + apply Rltb_false. intro H.
      assert (1 <= sqrt (1 * 1 + 2 * 2 + 3 * 3 + 3 / 5 * (3 / 5) + 0 * 0 + 4 / 5 * (4 / 5))) by (rewrite <- E1 at 1; apply sqrt_le_1_alt; lra). lra.
    + apply Rltb_true. replace (-1 + 1) with 0 by ring. rewrite Rabs_R0. lra.
    + apply Rltb_false. lra.
  - unfold get66, row6, el6. autounfold with smgen smlin. sm_simpl. field.
Qed.
