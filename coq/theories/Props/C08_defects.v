(* C08 -- the defects of the code as it is: the inheritance / method-resolution facts they rest on (these statements PIN the
   unchanged code and stop holding when a defect is repaired), one refutation of the full statement per root cause,
   and the mechanism lemmas.  See Props/C08.v for the table theorems and the conventions. *)
From Coq Require Import List Bool Arith NArith.
Import ListNotations.
From SM Require Import Model.C08_Ops.
From SMgen Require Import Hierarchy_C08.

Ltac table := apply table_forall; vm_compute; reflexivity.

(* the inheritance facts the defects below rest on, for the regenerated hierarchy *)
Theorem C08_hierarchy_facts :
  strict_subclass H SE3 SO3 = true /\ strict_subclass H SE2 SO2 = true /\
  strict_subclass H SO3 SE3 = false /\ strict_subclass H SO2 SE2 = false /\
  strict_subclass H UnitQuaternion Quaternion = true /\ strict_subclass H UnitDualQuaternion DualQuaternion = true /\
  (* the only proper-subclass pairs among the 16 public classes *)
  filter (fun p => strict_subclass H (fst p) (snd p)) (list_prod all_cls all_cls)
    = [(SE2, SO2); (SE3, SO3); (UnitQuaternion, Quaternion); (UnitDualQuaternion, DualQuaternion)].
Proof. vm_compute. repeat split; reflexivity. Qed.
Print Assumptions C08_hierarchy_facts.

(* method resolution, computed from the regenerated tables: who supplies + * == for the classes that do not define them *)
Theorem C08_method_resolution :
  owner H Twist3 (Fwd Add) = Some (B UserList) /\ owner H Twist2 (Fwd Add) = Some (B UserList) /\
  owner H Plucker (Fwd Add) = Some (B UserList) /\
  owner H SpatialVelocity (Fwd Mul) = Some (B UserList) /\ owner H SpatialVelocity (Fwd Eq) = Some (B UserList) /\
  owner H SpatialInertia (Fwd Eq) = Some (B UserList) /\
  owner H Twist2 (Rev Mul) = Some (C Twist2) /\ owner H Twist3 (Rev Mul) = Some (C Twist3) /\
  owner H SE3 (Fwd Mul) = Some (B SMPose) /\ owner H SE3 (Rev Mul) = owner H SO3 (Rev Mul) /\
  owner H UnitDualQuaternion (Fwd Mul) = Some (C DualQuaternion) /\ owner H DualQuaternion (Rev Mul) = None /\
  owner H DualQuaternion (Fwd Eq) = Some (B PyObject).
Proof. vm_compute. repeat split; reflexivity. Qed.
Print Assumptions C08_method_resolution.

(* ------------------------------------------------------------------ refutations of the full statement, one per root cause *)
Ltac witness c := exists c; split; [apply cell_in; [simpl; tauto | simpl; tauto | simpl; tauto | reflexivity | simpl; tauto]
                                    | vm_compute; repeat split; reflexivity].

(* SE3 + SO3 (and pose +/- anything unrelated) returns None *)
Theorem C08_op2_fallthrough_refuted : exists c, In c all_cells /\ cell_ok H c = false /\ model H c = ReturnsNone /\ spec_of H c = MustRaise.
Proof. witness (cell_of 1 Add (Obj SE3) (Obj SO3)). Qed.
Print Assumptions C08_op2_fallthrough_refuted.

(* SE3 * SO3 returns the identity SE3 *)
Theorem C08_isinstance_asymmetry_refuted : exists c, In c all_cells /\ cell_ok H c = false /\ model H c = Value (RObj SE3) DefaultIdentity /\ spec_of H c = MustRaise.
Proof. witness (cell_of 1 Mul (Obj SE3) (Obj SO3)). Qed.
Print Assumptions C08_isinstance_asymmetry_refuted.

(* Twist3 + Plucker returns a Twist3 that holds the Plucker coordinates *)
Theorem C08_userlist_add_refuted : exists c, In c all_cells /\ cell_ok H c = false /\ model H c = Value (RObj Twist3) ForeignElements /\ spec_of H c = MustRaise.
Proof. witness (cell_of 1 Add (Obj Twist3) (Obj Plucker)). Qed.
Print Assumptions C08_userlist_add_refuted.

(* SpatialVelocity * 3 is list repetition *)
Theorem C08_userlist_repeat_refuted : exists c, In c all_cells /\ cell_ok H c = false /\ model H c = Value (RObj SpatialVelocity) ListOp /\ spec_of H c = MustRaise.
Proof. witness (cell_of 1 Mul (Obj SpatialVelocity) KInt). Qed.
Print Assumptions C08_userlist_repeat_refuted.

(* DualQuaternion * 2.5 returns None *)
Theorem C08_dq_mul_none_refuted : exists c, In c all_cells /\ cell_ok H c = false /\ model H c = ReturnsNone /\ spec_of H c = MustRaise.
Proof. witness (cell_of 1 Mul (Obj DualQuaternion) KFloat). Qed.
Print Assumptions C08_dq_mul_none_refuted.

(* SpatialVelocity == SpatialVelocity raises *)
Theorem C08_userlist_eq_refuted : exists c, In c all_cells /\ cell_ok H c = false /\ model H c = Raise /\ spec_of H c = Must RBool.
Proof. witness (cell_of 1 Eq (Obj SpatialVelocity) (Obj SpatialVelocity)). Qed.
Print Assumptions C08_userlist_eq_refuted.

(* a 3-valued Plucker == 3-valued Plucker is one bool, not a list *)
Theorem C08_plucker_eq_multi_refuted : exists c, In c all_cells /\ cell_ok H c = false /\ model H c = Value RBool Computed /\ spec_of H c = Must RBoolList.
Proof. witness (cell_of 3 Eq (Obj Plucker) (Obj Plucker)). Qed.
Print Assumptions C08_plucker_eq_multi_refuted.

(* ------------------------------------------------------------------ the mechanism, not just the table *)
(* For EVERY length n (not only 1 and 3): if the left pose class is a proper subclass of the right operand's class,
   SMPose.__mul__ / __truediv__ return the default-constructed identity of the left class. *)
Theorem C08_mechanism_identity : forall (n : nat) (l r : cls),
  is_pose H l = true -> strict_subclass H l r = true ->
  SMPose_mul H n l (Obj r) = Out (Value (RObj l) DefaultIdentity) /\
  SMPose_div H n l (Obj r) = Out (Value (RObj l) DefaultIdentity).
Proof.
  intros n l r Hp Hs.
  assert (Hlr : isinst H l (C r) = true) by (unfold strict_subclass in Hs; apply andb_true_iff in Hs; tauto).
  assert (Hrl : isinst H r (C l) = false) by (destruct l, r; vm_compute in Hs; try discriminate; vm_compute; reflexivity).
  split; [apply SMPose_mul_strict_subclass_identity | apply SMPose_div_strict_subclass_identity]; assumption.
Qed.
Print Assumptions C08_mechanism_identity.
Example C08_mechanism_identity_nonvacuous : is_pose H SE3 = true /\ strict_subclass H SE3 SO3 = true /\ is_pose H SE2 = true /\ strict_subclass H SE2 SO2 = true.
Proof. vm_compute. repeat split; reflexivity. Qed.

(* ... and the whole protocol delivers that value: Python's "subclass first" rule does not intervene when the operands are
   the other way round (SO3 * SE3), because SE3 does not override __rmul__; both methods decline and Python raises TypeError *)
Theorem C08_mechanism_protocol : forall n, In n lengths ->
  binop H n Mul (Obj SE3) (Obj SO3) = Value (RObj SE3) DefaultIdentity /\
  binop H n Div (Obj SE3) (Obj SO3) = Value (RObj SE3) DefaultIdentity /\
  binop H n Mul (Obj SE2) (Obj SO2) = Value (RObj SE2) DefaultIdentity /\
  binop H n Mul (Obj SO3) (Obj SE3) = Raise /\ binop H n Div (Obj SO3) (Obj SE3) = Raise.
Proof. intros n [<- | [<- | []]]; vm_compute; repeat split; reflexivity. Qed.
Print Assumptions C08_mechanism_protocol.

(* the fall-through of the shared helper, for every length and every pair of unrelated classes of the regenerated hierarchy *)
Theorem C08_mechanism_none : forall (n : nat) (l r : cls),
  isinst H r (C l) = false -> SMPose_addsub H n l (Obj r) = Out ReturnsNone.
Proof. intros. now apply SMPose_addsub_unrelated_none. Qed.
Print Assumptions C08_mechanism_none.
Example C08_mechanism_none_nonvacuous : isinst H SO3 (C SE3) = false /\ isinst H Quaternion (C SE3) = false.
Proof. vm_compute. split; reflexivity. Qed.
