(* C08 -- array-LIKE vector operands: a plain Python list or tuple of 2, 3 or 4 numbers on either side of every public
   class, all 10 operators, single- and 3-valued objects: [seq_cells], 3840 cells (bound in every statement).
   "pose * vector" is a documented form whose vector "is an array-like, a 1D NumPy array or a list/tuple"; the REVERSED
   order and every other pairing of a list / tuple with a library object under an arithmetic operator must raise.

   FULL-STRENGTH STATEMENT, proved without any guard (C08_seq_table):
       forall c, In c seq_cells -> conforms (spec_of H c) (model H c) = true
   When this table was added it was false in 8 cells with one root cause (a list / tuple of 4 numbers times a Quaternion or
   UnitQuaternion returned a Quaternion: Quaternion.__rmul__ did not test its left operand); repaired by 1dd7b75, so the guard,
   C08_seq_defect_exact and the _refuted witness are replaced by C08_sequence_times_quaternion_raises. *)
From Coq Require Import List Bool Arith NArith.
Import ListNotations.
From SM Require Import Model.C08_Ops.
From SMgen Require Import Hierarchy_C08.

Theorem C08_seq_domain_size : N.of_nat (length seq_cells) = 3840%N.
Proof. vm_compute. reflexivity. Qed.
Print Assumptions C08_seq_domain_size.

Theorem C08_seq_model_total : forall c, In c seq_cells -> model H c <> Unmodelled.
Proof.
  intros c Hin. apply outcome_beq_false.
  apply (table_forall (fun c => negb (outcome_beq (model H c) Unmodelled))) in Hin.
  - now apply negb_true_iff in Hin.
  - vm_compute. reflexivity.
Qed.
Print Assumptions C08_seq_model_total.

Theorem C08_seq_table : forall c, In c seq_cells -> cell_ok H c = true /\ is_computed_or_raise (model H c) = true.
Proof.
  intros c Hin.
  apply (table_forall (fun c => cell_ok H c && is_computed_or_raise (model H c))) in Hin.
  - now apply andb_true_iff in Hin.
  - vm_compute. reflexivity.
Qed.
Print Assumptions C08_seq_table.
(* what the table contains: 24 documented cells (pose / UnitQuaternion / UnitDualQuaternion times a vector of the right length), all
   returning an array; 2280 cells that must raise; 1536 unconstrained comparisons *)
Example C08_seq_table_census :
  map (fun p => length (filter p seq_cells))
      [ (fun c => match spec_of H c with May _ => outcome_beq (model H c) (Value RArray Computed) | _ => false end);
        (fun c => match spec_of H c with MustRaise => outcome_beq (model H c) Raise | _ => false end);
        (fun c => match spec_of H c with Free => true | _ => false end);
        (fun c => match spec_of H c with Must _ => true | _ => false end) ]
  = [24; 2280; 1536; 0].
Proof. vm_compute. reflexivity. Qed.

(* (was C08_quaternion_rmul_seq_refuted + C08_seq_defect_exact before fix 1dd7b75)  a list or tuple of ANY number of numbers times a
   Quaternion / UnitQuaternion raises, for every length of the quaternion object: scalar * quaternion accepts scalars only *)
Theorem C08_sequence_times_quaternion_raises : forall (n m : nat) (tup : bool) (X : cls), In X [Quaternion; UnitQuaternion] ->
  binop H n Mul (KSeq tup m) (Obj X) = Raise.
Proof. intros n m tup X HX. simpl in HX. destruct HX as [<- | [<- | []]]; vm_compute; reflexivity. Qed.
Print Assumptions C08_sequence_times_quaternion_raises.

(* ------------------------------------------------------------------ readable clauses *)
Definition both_lengths (P : nat -> bool) : bool := forallb P lengths.
Definition poses : list cls := [SO2; SE2; SO3; SE3].

(* pose * vector is documented, vector * pose is not: a list or tuple on the LEFT of a pose raises under every arithmetic operator,
   whatever its length, for single- and multi-valued poses (SMPose.__rmul__ accepts scalars only) *)
Theorem C08_vector_times_pose_raises :
  forallb (fun X => forallb (fun v => forallb (fun o => both_lengths (fun n => outcome_beq (binop H n o v (Obj X)) Raise))
                                              [Mul; Div; Add; Sub; Pow; MatMul]) seq_kinds) poses = true.
Proof. vm_compute. reflexivity. Qed.
Print Assumptions C08_vector_times_pose_raises.

(* ... and the documented order returns the transformed point(s) exactly for a vector of the pose's dimension *)
Theorem C08_pose_times_vector :
  forallb (fun X => forallb (fun tup => both_lengths (fun n =>
     forallb (fun m => outcome_beq (binop H n Mul (Obj X) (KSeq tup m))
                                   (if m =? poseN H X then Value RArray Computed else Raise)) [2; 3; 4])) [false; true]) poses = true /\
  forallb (fun X => forallb (fun tup => both_lengths (fun n =>
     forallb (fun m => outcome_beq (binop H n Mul (Obj X) (KSeq tup m))
                                   (if m =? 3 then Value RArray Computed else Raise)) [2; 3; 4])) [false; true])
          [UnitQuaternion; UnitDualQuaternion] = true.
Proof. vm_compute. split; reflexivity. Qed.
Print Assumptions C08_pose_times_vector.

(* for EVERY length n: the reflected product of a pose declines anything that is not a scalar *)
Theorem C08_pose_rmul_scalars_only : forall (n : nat) (X : cls) (v : kind), In X poses -> is_scalar v = false ->
  forall rec, body H n rec (B SMPose) (Rev Mul) X v = NotImpl.
Proof. intros n X v _ Hv rec. unfold body. rewrite Hv. reflexivity. Qed.
Print Assumptions C08_pose_rmul_scalars_only.
Example C08_pose_rmul_scalars_only_nonvacuous :
  is_scalar (KSeq false 3) = false /\ owner H SE3 (Rev Mul) = Some (B SMPose) /\ In SE3 poses.
Proof. vm_compute. repeat split; tauto. Qed.
