(* C20 -- class / length tables of the spatial-vector layer.
   The dispatch model (Model/C20_Inertia.v) mirrors spatialvector.py as it is; on every run it is evaluated
   in Coq on every cell of the finite table and compared with the implementation's outcome on that cell.
   Here: the model agrees with what the property asks for, for ALL lengths (case analysis), the enumerated
   table by vm_compute.  No _refuted/_partial pair is left: on HEAD 66a8f3b the faithful model meets the full statements. *)
From Coq Require Import List Bool Arith Lia.
From SM Require Import Model.C20_Inertia.
Import ListNotations.

(* ---------------------------------------------------------------- + and - : same class, same length only
   (every length, 0 included: since /repo 1105ad0 an empty list constructs an empty object) *)
Theorem C20_addsub_accepts : forall (l : svc) (n : nat), addsub_model l n (SV l) n = Value l n.
Proof.
  intros l n. unfold addsub_model. replace (svc_eqb l l) with true by (destruct l; reflexivity).
  rewrite Nat.eqb_refl. reflexivity.
Qed.
Print Assumptions C20_addsub_accepts.

Theorem C20_addsub_rejects_mixed_class : forall (l : svc) (nl : nat) (r : rcls) (nr : nat),
  r <> SV l -> addsub_model l nl r nr = Raise TypeError.
Proof.
  intros l nl r nr H. unfold addsub_model. destruct r as [c|]; [|reflexivity].
  destruct (svc_eqb l c) eqn:E; [|reflexivity]. apply svc_eqb_spec in E. subst. congruence.
Qed.
Print Assumptions C20_addsub_rejects_mixed_class.

Theorem C20_addsub_rejects_unequal_length : forall (l : svc) (nl nr : nat),
  nl <> nr -> addsub_model l nl (SV l) nr = Raise ValueError.
Proof.
  intros l nl nr H. unfold addsub_model. replace (svc_eqb l l) with true by (destruct l; reflexivity).
  apply Nat.eqb_neq in H. rewrite H. reflexivity.
Qed.
Print Assumptions C20_addsub_rejects_unequal_length.

(* a value is produced only for the same class and equal lengths, and it has the left operand's class and length *)
Theorem C20_addsub_value_iff : forall l nl r nr c n,
  addsub_model l nl r nr = Value c n <-> (r = SV l /\ nl = nr /\ c = l /\ n = nl).
Proof.
  intros l nl r nr c n. split.
  - unfold addsub_model. destruct r as [c'|]; [|discriminate].
    destruct (svc_eqb l c') eqn:E; [|discriminate]. apply svc_eqb_spec in E. subst c'.
    destruct (Nat.eqb nl nr) eqn:L; [|discriminate]. apply Nat.eqb_eq in L. subst nr.
    unfold construct. intros H; injection H; intros; subst. repeat split.
  - intros (-> & -> & -> & ->). apply C20_addsub_accepts.
Qed.
Print Assumptions C20_addsub_value_iff.

Example C20_addsub_nonvacuous :
  addsub_model Frc 3 (SV Frc) 3 = Value Frc 3 /\ addsub_model Frc 3 (SV Mom) 3 = Raise TypeError /\
  addsub_model Vel 1 (SV Vel) 2 = Raise ValueError /\ addsub_model Vel 1 NotSV 1 = Raise TypeError.
Proof. repeat split. Qed.

(* the enumerated table (4 classes x lengths {0,1,2,3,6} x (4 classes + a non-spatial operand) x lengths): 500 cells *)
Theorem C20_addsub_table : length addsub_cells = 500%nat /\
  forallb (fun '(l, nl, r, nr) => agrees (addsub_model l nl r nr) (addsub_expected l nl r nr)) addsub_cells = true.
Proof. split; vm_compute; reflexivity. Qed.
Print Assumptions C20_addsub_table.

(* the in-place forms x += y, x -= y have the table of + and - (before /repo 5371e50 `+=` was the inherited list
   concatenation: any same-class operand was accepted and the lengths added up) *)
Theorem C20_inplace_same_table : forall l nl r nr,
  inplace_model l nl r nr = addsub_model l nl r nr /\
  (inplace_model l nl r nr = Value l nl <-> r = SV l /\ nl = nr) /\
  agrees (inplace_model l nl r nr) (addsub_expected l nl r nr) = true.
Proof.
  intros l nl r nr. split; [reflexivity|]. split.
  - unfold inplace_model. rewrite (C20_addsub_value_iff l nl r nr l nl). tauto.
  - unfold inplace_model, addsub_model, addsub_expected, construct, agrees. destruct r as [c|]; [|reflexivity].
    destruct (svc_eqb l c) eqn:E; [|reflexivity]. destruct (Nat.eqb nl nr) eqn:L; simpl; [|reflexivity].
    replace (svc_eqb l l) with true by (destruct l; reflexivity). rewrite Nat.eqb_refl. reflexivity.
Qed.
Print Assumptions C20_inplace_same_table.

Theorem C20_neg_copy_keep_class : forall l n, neg_model l n = Value l n /\ copy_model l n = Value l n.
Proof. intros l n. split; reflexivity. Qed.
Print Assumptions C20_neg_copy_keep_class.

(* ---------------------------------------------------------------- cross product: operand classes, n-valued right operand
   a motion vector crossed with ANY motion vector (velocity or acceleration) gives a motion vector, crossed with a force
   vector a force vector, one per value of the right operand; everything else is rejected.
   (Before /repo 66a8f3b the code tested isinstance(other, SpatialVelocity) and rejected an acceleration operand; the
   _refuted/_partial pair that stood here is replaced by the full statement.) *)
Theorem C20_cross_table_full : forall l r n, agrees (cross_model l r n) (cross_expected l r n) = true.
Proof.
  intros l r n. destruct l; destruct r as [[| | |]|]; try reflexivity;
    unfold cross_model, cross_expected, construct, agrees, is_motion; simpl; rewrite Nat.eqb_refl; reflexivity.
Qed.
Print Assumptions C20_cross_table_full.

Theorem C20_cross_table : length cross_cells = 100%nat /\
  forallb (fun '(l, r, n) => agrees (cross_model l r n) (cross_expected l r n)) cross_cells = true.
Proof. split; vm_compute; reflexivity. Qed.
Print Assumptions C20_cross_table.

(* force classes have no cross product at all; motion x* force is a force for both force classes; one result per value *)
Theorem C20_cross_classes : forall r n,
  (exists e, cross_model Frc r n = Raise e) /\ (exists e, cross_model Mom r n = Raise e) /\
  cross_model Vel (SV Vel) n = Value Acc n /\ cross_model Vel (SV Acc) n = Value Acc n /\ cross_model Vel (SV Frc) n = Value Frc n /\ cross_model Vel (SV Mom) n = Value Frc n.
Proof. intros r n. repeat split; eexists; reflexivity. Qed.
Print Assumptions C20_cross_classes.

(* ---------------------------------------------------------------- inertia * vector, SE3 * vector: result classes, every length *)
Theorem C20_imul_classes : forall r n, agrees (imul_model r n) (imul_expected r n) = true.
Proof. intros [[| | |]|] n; try reflexivity; unfold imul_model, imul_expected, construct, agrees; simpl; rewrite Nat.eqb_refl; reflexivity. Qed.
Print Assumptions C20_imul_classes.

Theorem C20_imul_force_momentum : forall n,
  imul_model (SV Acc) n = Value Frc n /\ imul_model (SV Vel) n = Value Mom n /\
  forall r, r <> SV Acc -> r <> SV Vel -> imul_model r n = Raise TypeError.
Proof. intros n. repeat split. intros [[| | |]|] H1 H2; try reflexivity; congruence. Qed.
Print Assumptions C20_imul_force_momentum.

Theorem C20_se3mul_keeps_class : forall c n, se3mul_model c n = Value c n.
Proof. reflexivity. Qed.
Print Assumptions C20_se3mul_keeps_class.

(* ---------------------------------------------------------------- inertia + inertia
   two inertias are accepted and give their sum (the value is inertia_add = matrix sum, see C20_inertia.v:
   C20_inertia_add_is_sum, C20_inertia_sum_is_composite); anything else is rejected with TypeError.
   (Before /repo commit 2cebac9 the code evaluated `left.I` and always raised; the _refuted/_partial pair that stood
   here is replaced by the full statement.) *)
Theorem C20_inertia_add : forall b, iadd_model b = iadd_expected b.
Proof. intros [|]; reflexivity. Qed.
Print Assumptions C20_inertia_add.

Theorem C20_inertia_add_cases : iadd_model true = ISum /\ iadd_model false = IRaise TypeError.
Proof. split; reflexivity. Qed.
Print Assumptions C20_inertia_add_cases.
