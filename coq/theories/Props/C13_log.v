(* C13 (part 6) -- differential motion agrees with the logarithm to first order.
   tr_trexp6 is the library's base.trexp executed on a symbolic twist along the general path (rotation part not
   zero); pc_trexp6 is the conjunction of the comparisons that execution decided, regenerated with it.
   For T = exp [S] (so that log T = S for |w| < pi) the theorems give tr2delta(T) - S in closed form, and bound the
   three scalar coefficients: the difference is second order in S. *)
From Coq Require Import Reals ZArith Lra Psatz Bool.
From SM Require Import Base.Ops Base.Lin Base.RInst Base.RLin.
From SMgen Require Import Traces_C13.
Open Scope R_scope.

Definition tw_v (s : V6 R) : V3 R := let '(v0,v1,v2,_,_,_) := s in (v0,v1,v2).
Definition tw_w (s : V6 R) : V3 R := let '(_,_,_,w0,w1,w2) := s in (w0,w1,w2).
Definition theta (s : V6 R) : R := sqrt (normsq3 Rops (tw_w s)).

(* on the traced path the rotation magnitude is positive (at least 10 eps) *)
Theorem C13_trexp_path_nonzero : forall s : V6 R, pc_trexp6 Rops s = true -> 0 < theta s.
Proof.
  intros s. destruct s as [[[[[v0 v1] v2] w0] w1] w2]. unfold pc_trexp6, theta, tw_w. lin_simpl.
  rewrite !andb_true_iff, !negb_true_iff. intros [[_ H] _]. apply Rltb_false in H.
  match type of H with ~ sqrt ?a < _ => replace (w0*w0 + w1*w1 + w2*w2) with a by ring end. lra.
Qed.
Print Assumptions C13_trexp_path_nonzero.

(* closed form of tr2delta(exp [S]):  rotational part (sin th / th) w,
   translational part v + ((1 - cos th)/th^2) w x v + ((th - sin th)/th^3) w x (w x v) *)
Theorem C13_tr2delta_exp : forall s : V6 R, pc_trexp6 Rops s = true ->
  let th := theta s in let w := tw_w s in let v := tw_v s in
  tr_tr2delta Rops (tr_trexp6 Rops s) =
  v6 (vadd3 Rops v (vadd3 Rops (vscale3 Rops ((1 - cos th) / (th * th)) (cross3 Rops w v))
                               (vscale3 Rops ((th - sin th) / (th * th * th)) (cross3 Rops w (cross3 Rops w v)))))
     (vscale3 Rops (sin th / th) w).
Proof.
  intros s Hpc. pose proof (C13_trexp_path_nonzero s Hpc) as Hth. cbv zeta. revert Hth. clear Hpc.
  destruct s as [[[[[v0 v1] v2] w0] w1] w2]. unfold theta, tw_w, tw_v. autounfold with smgen smlin. sm_simpl.
  set (n := w0 * w0 + w1 * w1 + w2 * w2). intro Hth.
  assert (Hn : 0 < n) by (destruct (Rle_or_lt n 0) as [Hle|]; [|assumption];
                           rewrite (sqrt_neg_0 n Hle) in Hth; lra).
  assert (E : n = sqrt n * sqrt n) by (symmetry; apply sqrt_sqrt; lra).
  revert E Hth. generalize (sqrt n). intros th E Hth. rewrite E. clear E Hn. subst n.
  tuple_eq ltac:(field; lra).
Qed.
Print Assumptions C13_tr2delta_exp.

(* Taylor enclosures of sin and cos on (0, 1] from the standard library's alternating partial sums *)
Ltac norm_fact H :=
  repeat match type of H with context [INR (fact ?k)] =>
    let z := eval vm_compute in (Z.of_nat (fact k)) in
    replace (INR (fact k)) with (IZR z) in H by (rewrite INR_IZR_INZ; reflexivity) end.
Lemma sin_cos_taylor : forall x : R, 0 < x <= 1 ->
  x - x*x*x/6 <= sin x <= x /\ 1 - x*x/2 <= cos x <= 1 - x*x/2 + x*x*x*x/24.
Proof.
  intros x [H0 H1].
  pose proof PI2_1 as HP.
  assert (Hpi : x <= PI) by lra.
  destruct (SIN x (Rlt_le _ _ H0) Hpi) as [Hsl Hsu]. 
  assert (Hc1: - PI / 2 <= x) by lra. assert (Hc2 : x <= PI/2) by lra.
  destruct (COS x Hc1 Hc2) as [Hcl Hcu].
  unfold sin_lb, sin_ub, sin_approx, sin_term, cos_lb, cos_ub, cos_approx, cos_term in *.
  cbv [sum_f_R0] in *. norm_fact Hsl. norm_fact Hsu. norm_fact Hcl. norm_fact Hcu.
  cbv [Nat.mul Nat.add pow] in *.
  pose (y := x * x). assert (Ey : y = x * x) by reflexivity. clearbody y. assert (Hy : 0 < y <= 1) by nra.
  match type of Hsl with ?a <= _ => replace a with (x * (1 - y/6 + y*y/120 - y*y*y/5040)) in Hsl by (rewrite Ey; field) end.
  match type of Hsu with _ <= ?a => replace a with (x * (1 - y/6 + y*y/120 - y*y*y/5040 + y*y*y*y/362880)) in Hsu by (rewrite Ey; field) end.
  match type of Hcl with ?a <= _ => replace a with (1 - y/2 + y*y/24 - y*y*y/720) in Hcl by (rewrite Ey; field) end.
  match type of Hcu with _ <= ?a => replace a with (1 - y/2 + y*y/24 - y*y*y/720 + y*y*y*y/40320) in Hcu by (rewrite Ey; field) end.
  replace (x*x*x*x) with (y*y) by (rewrite Ey; ring). replace (x*x*x) with (x*y) by (rewrite Ey; ring). rewrite <- Ey.
  assert (Hyy : 0 < y*y <= 1) by nra. assert (Hy3 : 0 < y*y*y <= 1) by nra. assert (Hy4 : 0 < y*y*y*y <= 1) by nra.
  assert (B1 : 0 <= 42*(y*y) - y*y*y) by (replace (42*(y*y) - y*y*y) with (y*y*(42 - y)) by ring; apply Rmult_le_pos; lra).
  assert (B2 : y*y <= y) by nra. assert (B3 : y*y*y*y <= y) by nra.
  assert (B4 : 0 <= 30*(y*y) - y*y*y) by (replace (30*(y*y) - y*y*y) with (y*y*(30 - y)) by ring; apply Rmult_le_pos; lra).
  assert (B5 : 0 <= 56*(y*y*y) - y*y*y*y) by (replace (56*(y*y*y) - y*y*y*y) with (y*y*y*(56 - y)) by ring; apply Rmult_le_pos; lra).
  assert (A1 : 0 <= y*y/120 - y*y*y/5040) by lra.
  assert (A2 : - y/6 + y*y/120 - y*y*y/5040 + y*y*y*y/362880 <= 0) by lra.
  assert (A3 : 0 <= y*y/24 - y*y*y/720) by lra.
  assert (A4 : - y*y*y/720 + y*y*y*y/40320 <= 0) by lra.
  repeat split; nra.
Qed.

Lemma div_le_l (a b c : R) : 0 < c -> a <= b * c -> a / c <= b.
Proof. intros. apply Rmult_le_reg_r with c; [lra|]. unfold Rdiv. rewrite Rmult_assoc, Rinv_l, Rmult_1_r by lra. lra. Qed.
Lemma div_le_r (a b c : R) : 0 < c -> a * c <= b -> a <= b / c.
Proof. intros. apply Rmult_le_reg_r with c; [lra|]. unfold Rdiv. rewrite Rmult_assoc, Rinv_l, Rmult_1_r by lra. lra. Qed.

(* the scalar coefficients are within x^2/6, x^2/24.. of their limits 1, 1/2, 1/6 *)
Theorem C13_first_order_coefficients : forall x : R, 0 < x <= 1 ->
  1 - x * x / 6 <= sin x / x <= 1 /\
  0 <= (1 - cos x) / (x * x) <= 1 / 2 /\
  0 <= (x - sin x) / (x * x * x) <= 1 / 6.
Proof.
  intros x Hx. destruct (sin_cos_taylor x Hx) as [[Hs1 Hs2] [Hc1 Hc2]]. destruct Hx as [H0 H1].
  assert (Hxx : 0 < x * x) by nra. assert (Hxxx : 0 < x * x * x) by nra.
  assert (Hq : x*x*x*x <= x*x) by nra.
  repeat split.
  - apply div_le_r; [lra|]. nra.
  - apply div_le_l; [lra|]. lra.
  - apply div_le_r; [lra|]. nra.
  - apply div_le_l; [lra|]. nra.
  - apply div_le_r; [lra|]. nra.
  - apply div_le_l; [lra|]. nra.
Qed.
Print Assumptions C13_first_order_coefficients.

(* together: for a twist on the traced path with |w| <= 1, every component of tr2delta(exp [S]) - S is a product of
   a coefficient bounded by |w|^2/6, 1/2, 1/6 with w, w x v, w x (w x v): second order in S *)
Theorem C13_tr2delta_exp_first_order : forall s : V6 R, pc_trexp6 Rops s = true -> theta s <= 1 ->
  exists a b c : R,
    Rabs a <= theta s * theta s / 6 /\ 0 <= b <= 1 / 2 /\ 0 <= c <= 1 / 6 /\
    tr_tr2delta Rops (tr_trexp6 Rops s) =
    v6 (vadd3 Rops (tw_v s) (vadd3 Rops (vscale3 Rops b (cross3 Rops (tw_w s) (tw_v s)))
                                       (vscale3 Rops c (cross3 Rops (tw_w s) (cross3 Rops (tw_w s) (tw_v s))))))
       (vadd3 Rops (tw_w s) (vscale3 Rops a (tw_w s))).
Proof.
  intros s Hpc H1. pose proof (C13_trexp_path_nonzero s Hpc) as H0.
  destruct (C13_first_order_coefficients (theta s) (conj H0 H1)) as (Ha & Hb & Hc).
  exists (sin (theta s) / theta s - 1), ((1 - cos (theta s)) / (theta s * theta s)),
         ((theta s - sin (theta s)) / (theta s * theta s * theta s)).
  repeat split; try tauto.
  - apply Rabs_le. lra.
  - rewrite (C13_tr2delta_exp s Hpc). cbv zeta. f_equal.
    generalize (sin (theta s) / theta s). intro k. destruct s as [[[[[v0 v1] v2] w0] w1] w2].
    unfold tw_w. lin_simpl. tuple_eq ltac:(ring).
Qed.
Print Assumptions C13_tr2delta_exp_first_order.

(* ---------- exp(ad S) = Ad(exp S): only a necessary condition is proved here (the equality itself is measured
   against 50-digit matrix exponentials by the oracle): exp(ad S) fixes S because ad(S) S = 0, and so does the
   adjoint of the traced exponential ---------- *)
Ltac elim_th th N E :=
  repeat match goal with
  | |- context [th ^ 2] => replace (th ^ 2) with N by (rewrite E; ring)
  | |- context [th ^ 3] => replace (th ^ 3) with (th * N) by (rewrite E; ring)
  | |- context [th ^ 4] => replace (th ^ 4) with (N * N) by (rewrite E; ring)
  | |- context [th ^ 5] => replace (th ^ 5) with (th * N * N) by (rewrite E; ring)
  | |- context [th ^ 6] => replace (th ^ 6) with (N * N * N) by (rewrite E; ring)
  | |- context [th ^ 7] => replace (th ^ 7) with (th * N * N * N) by (rewrite E; ring)
  | |- context [th ^ 8] => replace (th ^ 8) with (N * N * N * N) by (rewrite E; ring)
  end; ring.

Theorem C13_Ad_exp_fixes_generator : forall s : V6 R, pc_trexp6 Rops s = true ->
  mv66 Rops (tr_adjoint Rops (tr_trexp6 Rops s)) s = s /\ mv66 Rops (tr_Tw_ad Rops s) s = (0,0,0,0,0,0).
Proof.
  intros s Hpc. pose proof (C13_trexp_path_nonzero s Hpc) as Hth. clear Hpc. revert Hth.
  destruct s as [[[[[v0 v1] v2] w0] w1] w2]. unfold theta, tw_w. autounfold with smgen smlin. sm_simpl.
  set (n := w0 * w0 + w1 * w1 + w2 * w2). intro Hth. split; [|tuple_eq ltac:(ring)].
  assert (Hn : 0 < n) by (destruct (Rle_or_lt n 0) as [Hle|]; [|assumption]; rewrite (sqrt_neg_0 n Hle) in Hth; lra).
  assert (E : n = sqrt n * sqrt n) by (symmetry; apply sqrt_sqrt; lra).
  revert E Hth. generalize (sqrt n). intros th E Hth. rewrite E. subst n. clear Hn.
  tuple_eq ltac:(idtac). all: field_simplify_eq; [|lra]; elim_th th (w0 * w0 + w1 * w1 + w2 * w2) E.
Qed.
Print Assumptions C13_Ad_exp_fixes_generator.

(* non-vacuity: a twist that satisfies the path condition with |w| <= 1 *)
Example C13_log_nonvacuous : pc_trexp6 Rops (1, 2, 3, 3/5, 0, 4/5) = true /\ theta (1, 2, 3, 3/5, 0, 4/5) <= 1.
Proof.
  assert (E : sqrt 1 = 1) by apply sqrt_1.
  split.
  - unfold pc_trexp6. lin_simpl. rewrite !andb_true_iff, !negb_true_iff. repeat split; apply Rltb_false.
    + intro H. assert (1 <= sqrt (1 * 1 + 2 * 2 + 3 * 3 + 3 / 5 * (3 / 5) + 0 * 0 + 4 / 5 * (4 / 5))) by
        (rewrite <- E at 1; apply sqrt_le_1_alt; lra). lra.
    + replace (3 / 5 * (3 / 5) + 0 * 0 + 4 / 5 * (4 / 5)) with 1 by field. lra.
    + match goal with |- ~ sqrt ?a < _ => replace a with 1 by field end. lra.
  - unfold theta, tw_w. lin_simpl. replace (3 / 5 * (3 / 5) + 0 * 0 + 4 / 5 * (4 / 5)) with 1 by field. lra.
Qed.
