(* C08 -- the in-place forms  x *= y, x /= y, x += y, x -= y, x **= y, x @= y  of the arithmetic operators, over every operand
   kind of the other tables (16 classes, float, int, 3x3 / 4x4 arrays, 3-vector, lists and tuples of 2, 3, 4 numbers) with at
   least one library object, single- and 3-valued: [inplace_cells], 7296 cells (bound in every statement).
   Model: Python's in-place protocol (type(x).__iop__ if defined; absent or NotImplemented -> the binary protocol; the result
   is rebound to x) + the __iop__ methods of the library, each of which delegates (Model/C08_Ops.v: iop, ibody); method
   resolution of the __iop__ names is regenerated with the hierarchy.  Expectation: the binary operator's cell of the documented
   table -- the documented result class freshly computed, else an exception; in particular the receiver never comes back holding
   more values than it had (list extension / repetition through collections.UserList.__iadd__/__imul__, repaired by 5371e50).

   FULL-STRENGTH STATEMENT, proved without any guard (C08_inplace_table). *)
From Coq Require Import List Bool Arith NArith.
Import ListNotations.
From SM Require Import Model.C08_Ops.
From SMgen Require Import Hierarchy_C08.

Theorem C08_inplace_domain_size : N.of_nat (length inplace_cells) = 7296%N.
Proof. vm_compute. reflexivity. Qed.
Print Assumptions C08_inplace_domain_size.

Theorem C08_inplace_table : forall c, In c inplace_cells ->
  conforms (spec_of H c) (imodel H c) = true /\ is_computed_or_raise (imodel H c) = true /\ imodel H c <> Unmodelled.
Proof.
  intros c Hin.
  apply (table_forall (fun c => conforms (spec_of H c) (imodel H c) && is_computed_or_raise (imodel H c)
                                && negb (outcome_beq (imodel H c) Unmodelled))) in Hin.
  - apply andb_true_iff in Hin. destruct Hin as [Hin H3]. apply andb_true_iff in Hin. destruct Hin as [H1 H2].
    repeat split; [exact H1 | exact H2 | apply outcome_beq_false; now apply negb_true_iff in H3].
  - vm_compute. reflexivity.
Qed.
Print Assumptions C08_inplace_table.
(* what the table contains: 103 Must cells, 263 May cells, 6930 cells that must raise; 314 cells return a value *)
Example C08_inplace_table_census :
  map (fun p => N.of_nat (length (filter p inplace_cells)))
      [ (fun c => match spec_of H c with Must _ => true | _ => false end);
        (fun c => match spec_of H c with May _ => true | _ => false end);
        (fun c => match spec_of H c with MustRaise => true | _ => false end);
        (fun c => match imodel H c with Value _ _ => true | _ => false end) ]
  = [103; 263; 6930; 314]%N.
Proof. vm_compute. reflexivity. Qed.

(* x op= y  gives exactly what  x op y  gives, on every cell *)
Theorem C08_inplace_equals_binary : forall c, In c inplace_cells -> imodel H c = model H c.
Proof.
  intros c Hin. apply outcome_beq_true.
  apply (table_forall (fun c => outcome_beq (imodel H c) (model H c))) in Hin; [exact Hin | vm_compute; reflexivity].
Qed.
Print Assumptions C08_inplace_equals_binary.

(* who supplies the in-place methods, from the regenerated tables: never collections.UserList *)
Theorem C08_inplace_method_resolution :
  forallb (fun c => forallb (fun o => negb (opt_pyc_beq (owner H c (Inp o)) (Some (B UserList)))) arith_ops) all_cls = true /\
  owner H SE3 (Inp Mul) = Some (B SMPose) /\ owner H SE3 (Inp Add) = Some (B SMPose) /\ owner H SE3 (Inp Pow) = None /\
  owner H Quaternion (Inp Mul) = Some (C Quaternion) /\ owner H UnitQuaternion (Inp Mul) = Some (C UnitQuaternion) /\
  owner H UnitQuaternion (Inp Pow) = Some (C Quaternion) /\ owner H Quaternion (Inp Add) = Some (B SMUserList) /\
  owner H Twist3 (Inp Mul) = Some (B SMUserList) /\ owner H Twist3 (Inp Add) = Some (B SMUserList) /\
  owner H SpatialVelocity (Inp Add) = Some (B SMUserList) /\ owner H SpatialVelocity (Inp Mul) = Some (B SMUserList) /\
  owner H DualQuaternion (Inp Mul) = None.
Proof. vm_compute. repeat split; reflexivity. Qed.
Print Assumptions C08_inplace_method_resolution.

(* ------------------------------------------------------------------ readable clauses *)
Definition both_lengths (P : nat -> bool) : bool := forallb P lengths.

(* the forms that 5371e50 repaired: += on two objects of a class gives that class's sum (or raises where + is undefined), never a
   concatenation; twist *= scalar scales; and the in-place composition / scaling of poses and quaternions *)
Theorem C08_inplace_clauses :
  forallb (fun X => both_lengths (fun n => outcome_beq (iop H n Add (Obj X) (Obj X)) (Value (RObj X) Computed)))
          [SpatialVelocity; SpatialAcceleration; SpatialForce; SpatialMomentum] = true /\
  forallb (fun X => both_lengths (fun n => outcome_beq (iop H n Add (Obj X) (Obj X)) (Value (RObj Quaternion) Computed)))
          [Quaternion; UnitQuaternion] = true /\
  forallb (fun X => both_lengths (fun n => outcome_beq (iop H n Add (Obj X) (Obj X)) Raise)) [Twist2; Twist3; Plucker] = true /\
  forallb (fun X => both_lengths (fun n => forallb (fun s => outcome_beq (iop H n Mul (Obj X) s) (Value (RObj X) Computed)) [KFloat; KInt]))
          [Twist2; Twist3] = true /\
  forallb (fun X => both_lengths (fun n => forallb (fun s => outcome_beq (iop H n Mul (Obj X) s) Raise) [KFloat; KInt]))
          [SpatialVelocity; SpatialAcceleration; SpatialForce; SpatialMomentum; Plucker] = true /\
  forallb (fun X => both_lengths (fun n => outcome_beq (iop H n Mul (Obj X) (Obj X)) (Value (RObj X) Computed)
                                           && outcome_beq (iop H n Add (Obj X) (Obj X)) (Value (arr n) Computed)))
          [SO2; SE2; SO3; SE3] = true /\
  both_lengths (fun n => outcome_beq (iop H n Mul (Obj SE3) (Obj SO3)) Raise && outcome_beq (iop H n Mul (Obj SO3) (Obj SE3)) Raise
                      && outcome_beq (iop H n Add (Obj Twist3) (Obj Twist2)) Raise
                      && outcome_beq (iop H n Add (Obj UnitQuaternion) (Obj Quaternion)) (Value (RObj Quaternion) Computed)) = true /\
  (* a list or tuple as the receiver:  v *= pose,  v += pose  raise *)
  forallb (fun v => forallb (fun X => forallb (fun o => both_lengths (fun n => outcome_beq (iop H n o v (Obj X)) Raise)) arith_ops)
                            [SO2; SE2; SO3; SE3]) seq_kinds = true.
Proof. vm_compute. repeat split; reflexivity. Qed.
Print Assumptions C08_inplace_clauses.

(* for EVERY length n: the in-place + and * of a class that has none of its own are the binary protocol, nothing else *)
Theorem C08_inplace_is_binary_for_userlist_classes : forall (n : nat) (X : cls) (r : kind) (o : op),
  owner H X (Inp o) = Some (B SMUserList) -> In o [Add; Mul] -> iop H n o (Obj X) r = binop H n o (Obj X) r.
Proof.
  intros n X r o Ho Hin. unfold iop. rewrite Ho. simpl in Hin.
  destruct Hin as [<- | [<- | []]]; reflexivity.
Qed.
Print Assumptions C08_inplace_is_binary_for_userlist_classes.
Example C08_inplace_is_binary_nonvacuous : owner H Twist3 (Inp Mul) = Some (B SMUserList) /\ owner H Plucker (Inp Add) = Some (B SMUserList).
Proof. vm_compute. split; reflexivity. Qed.
