(* C12, class layer on MULTI-VALUED operands: every class-level operation, applied to Quaternion objects
   holding N values, acts element by element and each element is the single-valued operation.
   Traces named tr_S4_xxx: N = 4, the operand is the list of the rows of an M44 (4 is the length at which an
   N-by-4 array can silently be taken for something else); traces named tr_S2_xxx: N = 2, the two halves of a V8.
   All traces are regenerated on every run by executing the class layer itself on symbols; the right-hand sides
   are the single-valued traces of the same run (tr_Q_xxx), shown in Props/C12.v to be the Hamilton algebra. *)
From Coq Require Import Reals ZArith Lra Lia.
From SM Require Import Base.Ops Base.Lin Base.RInst.
From SMgen Require Import Traces_C12.
Open Scope R_scope.

Ltac gen_ring := intros; destruct_tuples; autounfold with smgen smlin; sm_simpl; tuple_eq ltac:(ring).
Ltac gen_sqrt := intros; destruct_tuples; autounfold with smgen smlin; sm_simpl; tuple_eq ltac:(try (f_equal; ring); try ring).

Definition r0 (P : M44 R) : V4 R := let '(a,_,_,_) := P in a.
Definition r1 (P : M44 R) : V4 R := let '(_,a,_,_) := P in a.
Definition r2 (P : M44 R) : V4 R := let '(_,_,a,_) := P in a.
Definition r3 (P : M44 R) : V4 R := let '(_,_,_,a) := P in a.
Definition lo (a : V8 R) : V4 R := let '(a0,a1,a2,a3,_,_,_,_) := a in (a0,a1,a2,a3).
Definition hi (a : V8 R) : V4 R := let '(_,_,_,_,a4,a5,a6,a7) := a in (a4,a5,a6,a7).
Definition cat (p q : V4 R) : V8 R := let '(a0,a1,a2,a3) := p in let '(a4,a5,a6,a7) := q in (a0,a1,a2,a3,a4,a5,a6,a7).
Ltac sel := unfold r0, r1, r2, r3, lo, hi, cat.

(* ---- inner: N x N, N x 1, 1 x N give N Euclidean dot products *)
Theorem C12_seq_inner_NN : forall P S : M44 R,
  tr_S4_inner_NN Rops P S = (tr_Q_inner Rops (r0 P) (r0 S), tr_Q_inner Rops (r1 P) (r1 S),
                             tr_Q_inner Rops (r2 P) (r2 S), tr_Q_inner Rops (r3 P) (r3 S))
  /\ tr_S4_inner_NN Rops P S = (dot4 Rops (r0 P) (r0 S), dot4 Rops (r1 P) (r1 S), dot4 Rops (r2 P) (r2 S), dot4 Rops (r3 P) (r3 S)).
Proof. intros; split; sel; gen_ring. Qed.
Print Assumptions C12_seq_inner_NN.

Theorem C12_seq_inner_N1_1N : forall (P : M44 R) (q : V4 R),
  tr_S4_inner_N1 Rops P q = (dot4 Rops (r0 P) q, dot4 Rops (r1 P) q, dot4 Rops (r2 P) q, dot4 Rops (r3 P) q)
  /\ tr_S4_inner_1N Rops q P = (dot4 Rops q (r0 P), dot4 Rops q (r1 P), dot4 Rops q (r2 P), dot4 Rops q (r3 P)).
Proof. intros; split; sel; gen_ring. Qed.
Print Assumptions C12_seq_inner_N1_1N.

Theorem C12_seq2_inner : forall (a b : V8 R) (q : V4 R),
  tr_S2_inner_NN Rops a b = (dot4 Rops (lo a) (lo b), dot4 Rops (hi a) (hi b))
  /\ tr_S2_inner_1N Rops q a = (dot4 Rops q (lo a), dot4 Rops q (hi a)).
Proof. intros; split; sel; gen_ring. Qed.
Print Assumptions C12_seq2_inner.

(* ---- product *)
Theorem C12_seq_mul : forall (P S : M44 R) (q : V4 R),
  tr_S4_mul_NN Rops P S = (tr_Q_mul Rops (r0 P) (r0 S), tr_Q_mul Rops (r1 P) (r1 S), tr_Q_mul Rops (r2 P) (r2 S), tr_Q_mul Rops (r3 P) (r3 S))
  /\ tr_S4_mul_N1 Rops P q = (tr_Q_mul Rops (r0 P) q, tr_Q_mul Rops (r1 P) q, tr_Q_mul Rops (r2 P) q, tr_Q_mul Rops (r3 P) q)
  /\ tr_S4_mul_1N Rops q P = (tr_Q_mul Rops q (r0 P), tr_Q_mul Rops q (r1 P), tr_Q_mul Rops q (r2 P), tr_Q_mul Rops q (r3 P)).
Proof. intros; repeat split; sel; gen_ring. Qed.
Print Assumptions C12_seq_mul.

Theorem C12_seq2_mul : forall (a b : V8 R) (q : V4 R),
  tr_S2_mul_NN Rops a b = cat (tr_Q_mul Rops (lo a) (lo b)) (tr_Q_mul Rops (hi a) (hi b))
  /\ tr_S2_mul_N1 Rops a q = cat (tr_Q_mul Rops (lo a) q) (tr_Q_mul Rops (hi a) q)
  /\ tr_S2_mul_1N Rops q a = cat (tr_Q_mul Rops q (lo a)) (tr_Q_mul Rops q (hi a)).
Proof. intros; repeat split; sel; gen_ring. Qed.
Print Assumptions C12_seq2_mul.

(* ---- sum and difference *)
Theorem C12_seq_add_sub : forall (P S : M44 R) (q : V4 R),
  tr_S4_add_NN Rops P S = (tr_Q_add Rops (r0 P) (r0 S), tr_Q_add Rops (r1 P) (r1 S), tr_Q_add Rops (r2 P) (r2 S), tr_Q_add Rops (r3 P) (r3 S))
  /\ tr_S4_sub_NN Rops P S = (tr_Q_sub Rops (r0 P) (r0 S), tr_Q_sub Rops (r1 P) (r1 S), tr_Q_sub Rops (r2 P) (r2 S), tr_Q_sub Rops (r3 P) (r3 S))
  /\ tr_S4_add_N1 Rops P q = (tr_Q_add Rops (r0 P) q, tr_Q_add Rops (r1 P) q, tr_Q_add Rops (r2 P) q, tr_Q_add Rops (r3 P) q)
  /\ tr_S4_sub_1N Rops q P = (tr_Q_sub Rops q (r0 P), tr_Q_sub Rops q (r1 P), tr_Q_sub Rops q (r2 P), tr_Q_sub Rops q (r3 P)).
Proof. intros; repeat split; sel; gen_ring. Qed.
Print Assumptions C12_seq_add_sub.

Theorem C12_seq2_add_sub : forall a b : V8 R,
  tr_S2_add_NN Rops a b = cat (tr_Q_add Rops (lo a) (lo b)) (tr_Q_add Rops (hi a) (hi b))
  /\ tr_S2_sub_NN Rops a b = cat (tr_Q_sub Rops (lo a) (lo b)) (tr_Q_sub Rops (hi a) (hi b)).
Proof. intros; split; sel; gen_ring. Qed.
Print Assumptions C12_seq2_add_sub.

(* ---- conjugate, norm, power, scalar multiple *)
Theorem C12_seq_unary : forall (P : M44 R) (k : R),
  tr_S4_conj Rops P = (tr_Q_conj Rops (r0 P), tr_Q_conj Rops (r1 P), tr_Q_conj Rops (r2 P), tr_Q_conj Rops (r3 P))
  /\ tr_S4_norm Rops P = (tr_Q_norm Rops (r0 P), tr_Q_norm Rops (r1 P), tr_Q_norm Rops (r2 P), tr_Q_norm Rops (r3 P))
  /\ tr_S4_pow2 Rops P = (tr_qpow_p2 Rops (r0 P), tr_qpow_p2 Rops (r1 P), tr_qpow_p2 Rops (r2 P), tr_qpow_p2 Rops (r3 P))
  /\ tr_S4_smul Rops k P = (tr_Q_smul Rops k (r0 P), tr_Q_smul Rops k (r1 P), tr_Q_smul Rops k (r2 P), tr_Q_smul Rops k (r3 P)).
Proof. intros; repeat split; sel; gen_sqrt. Qed.
Print Assumptions C12_seq_unary.

Theorem C12_seq2_unary : forall a : V8 R,
  tr_S2_conj Rops a = cat (tr_Q_conj Rops (lo a)) (tr_Q_conj Rops (hi a))
  /\ tr_S2_norm Rops a = (tr_Q_norm Rops (lo a), tr_Q_norm Rops (hi a)).
Proof. intros; split; sel; gen_sqrt. Qed.
Print Assumptions C12_seq2_unary.
