(* C13 (part 5, thorough tier only: one nsatz of about 30 s) -- equivariance of the little adjoint.
   Statements are fixed; every tr_* definition is regenerated from /repo on each run (base.adjoint, base.tr2jac,
   base.trinv, SE3.Ad, SE3.__mul__, SE3.inv, Twist3.ad, Twist3.se3, base.delta2tr executed on symbols). *)
From Coq Require Import Reals ZArith Lra Psatz Nsatz.
From SM Require Import Base.Ops Base.Lin Base.RInst Base.RLin.
From SMgen Require Import Traces_C13.
Open Scope R_scope.

Ltac gen_unfold := intros; destruct_tuples; autounfold with smgen smlin in *; sm_simpl.
Ltac gen_ring := gen_unfold; tuple_eq ltac:(ring).
(* open X : SE3 into 12 scalars, last row substituted; leaves Hrot : SO3 ((..),(..),(..)) *)
Ltac open_se3 HX :=
  let H1 := fresh "Hrot" in let H2 := fresh "Hlast" in
  destruct HX as [H1 H2]; destruct_tuples; unfold t2r3 in H1; unfold lastrow4 in H2;
  injection H2; intros; subst; clear H2.
(* only the nine "entry = cofactor" equations (all that R skew(w) R' = skew(R w) needs; nsatz is much faster) *)
Ltac facts_cof H :=
  let C := fresh "C" in pose proof (SO3_cofactors _ _ _ _ _ _ _ _ _ H) as C; clear H; decompose [and] C; clear C.

Definition msub66 (A B : M66 R) : M66 R :=
  let '(a0,a1,a2,a3,a4,a5) := A in let '(b0,b1,b2,b3,b4,b5) := B in
  let s (a b : V6 R) := let '(x0,x1,x2,x3,x4,x5) := a in let '(y0,y1,y2,y3,y4,y5) := b in (x0-y0,x1-y1,x2-y2,x3-y3,x4-y4,x5-y5) in
  (s a0 b0, s a1 b1, s a2 b2, s a3 b3, s a4 b4, s a5 b5).
Definition msub44 (A B : M44 R) : M44 R :=
  let '(a0,a1,a2,a3) := A in let '(b0,b1,b2,b3) := B in (vsub4 Rops a0 b0, vsub4 Rops a1 b1, vsub4 Rops a2 b2, vsub4 Rops a3 b3).
Definition tw_v (s : V6 R) : V3 R := let '(v0,v1,v2,_,_,_) := s in (v0,v1,v2).
Definition tw_w (s : V6 R) : V3 R := let '(_,_,_,w0,w1,w2) := s in (w0,w1,w2).
#[local] Hint Unfold msub66 msub44 tw_v tw_w trinv_ref : smlin.

Definition T_ex : M44 R := ((0,-1,0,1),(1,0,0,2),(0,0,1,3),(0,0,0,1)).
Example C13_extra_T_ex_SE3 : SE3 T_ex.
Proof. unfold T_ex, SE3, SO3. lin_simpl. repeat split; ring. Qed.

(* Ad(T) ad(S) = ad(Ad(T) S) Ad(T) *)
Theorem C13_Ad_ad_equivariant : forall (X : M44 R) (s : V6 R), SE3 X ->
  mmul66 Rops (tr_adjoint Rops X) (tr_Tw_ad Rops s) = mmul66 Rops (tr_Tw_ad Rops (mv66 Rops (tr_adjoint Rops X) s)) (tr_adjoint Rops X).
Proof.
  intros X s HX. open_se3 HX. facts_cof Hrot. autounfold with smgen smlin. sm_simpl.
  tuple_eq ltac:(try ring). all: nsatz.
Qed.
Print Assumptions C13_Ad_ad_equivariant.

